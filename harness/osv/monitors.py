"""Per-property monitors: each property's own predicate evaluated on the
implementation's actual outputs.  Tolerances are derived next to each use."""
import copy
import inspect
import itertools
import math
import os
import random as _random
import subprocess
import sys
import threading

from . import gen, impl, suites
from . import api
from .api import (OMIT, call_predict, call_rate, eff_limit, eff_tau, hexnums, nums_of, order_vals, rate_nums,
                  teams_val, ulp)
from .gen import KINDS
from .impl import MODEL, RATING, hx, make_model, to_python
from .monbase import Mon

FULL = ("PL", "BTF", "TMF")
PART = ("BTP", "TMP")
TM = ("TMF", "TMP")


def _valid_rate_case(rng, kind=None, max_size=8, plain_ranks=False, state=None):
    """a rate case inside the valid domain (no sigma=0 with tau=0; numeric per-call options)"""
    while True:
        c = gen.gen_rate_case(rng, kind=kind, max_size=max_size, state=state)
        teams, ranks, scores, tau, lim = c["args"]
        if tau[0] == "B":            # the monitors give tau as a number or not at all
            tau = c["args"][3] = OMIT
        t = eff_tau(c["st"], tau)
        if any(p[3] == 0 for tm in teams[1] for p in tm[1]) and t == 0:
            continue
        return c


def _inflated(nums, tau):
    return [[(mu, math.sqrt(sg * sg + tau * tau)) for mu, sg in t] for t in nums]


def _team_ss(nums_infl):
    return [sum(sg ** 2 for _, sg in t) for t in nums_infl]


def _tm_tie_sigma_rel(kind, st, nums_infl, keys):
    """relative tolerance on sigma: 1e-9, widened for Thurstone-Mosteller games with ties, where W~ is
    evaluated with a cancellation error of order 1e-13/t (C17), t = kappa / c_iq."""
    if kind not in TM or keys is None or len(set(keys)) == len(keys):
        return 1e-9
    ss = _team_ss(nums_infl)
    cmax = (2.0 if kind == "TMP" else 1.0) * math.sqrt(2 * max(ss) + 2 * st["beta"] ** 2)
    t_min = st["kappa"] / cmax
    return max(1e-9, 1e-12 / t_min)


def _tm_tie_mu_allow(kind, st, nums_infl, keys, t, j, transformed=False):
    """absolute allowance on a posterior mu in Thurstone-Mosteller games with ties: on the branch the code
    takes for small draw margins, V~ is -x -/+ t, which jumps by 2t at x = 0; two presentations of one game
    whose team totals differ by rounding may land on either side.  The jump moves player (t, j) by
    sigma_tj^2 * 2 kappa / c_tq^2 per tied opponent q (the same draw-margin term C05/C07 allow)."""
    if kind not in TM or keys is None:
        return 0.0
    ss = _team_ss(nums_infl)
    cm = 4.0 if kind == "TMP" else 1.0
    th = [math.fsum(mu for mu, _ in tm) for tm in nums_infl]
    tot = 0.0
    for q in range(len(keys)):
        if q != t and keys[q] == keys[t]:
            # the side of the jump is ambiguous only if the two totals agree up to rounding AND a total can depend on
            # the summation order at all (a team of three or more players; a + b = b + a exactly)
            # (when the two presentations differ by an arithmetic transformation of the numbers - a rescaling or a shift -
            # every total is re-rounded, so only teams with identical value lists are safe from the ambiguity)
            can_differ = (nums_infl[t] != nums_infl[q]) if transformed else max(len(nums_infl[t]), len(nums_infl[q])) >= 3
            if can_differ and abs(th[t] - th[q]) <= 1e-9 * max(abs(th[t]), abs(th[q]), st["beta"]):
                tot += 2 * st["kappa"] / (cm * (ss[t] + ss[q] + 2 * st["beta"] ** 2))
    return nums_infl[t][j][1] ** 2 * tot * (1 + 1e-9)


def _close_mu(a, b, scale, rel=1e-9):
    return abs(a - b) <= rel * max(scale, abs(a), abs(b)) + 4 * ulp(max(abs(a), abs(b)))


def _close_sigma(a, b, srel, st, sg_infl):
    """posterior sigmas agree: 1e-9 relative; in Thurstone-Mosteller games with ties within W~'s cancellation noise [srel]
    amplified by 1/f where the variance factor f is small (compare.tm_sigma_tol)"""
    from .compare import tm_sigma_tol
    return _close_rel(a, b, srel if srel <= 1e-9 else tm_sigma_tol(srel, st["kappa"], sg_infl, a, b))


def _close_rel(a, b, rel=1e-9):
    return abs(a - b) <= rel * max(abs(a), abs(b)) + 4 * ulp(max(abs(a), abs(b)))


def _keys_or_default(c):
    teams, ranks, scores, tau, lim = c["args"]
    k = order_vals(ranks, scores)
    return k if k is not None else list(range(len(teams[1])))


# =====================================================================================================
# C02  shape / ids / names / passed objects
def mon_C02(rng, budget, tier):
    mon = Mon("C02")
    for i in range(budget):
        api.pool(i % 2 == 0)
        c = _valid_rate_case(rng, kind=KINDS[i % 5])
        if i % 3 == 0:   # force limit_sigma on / off explicitly
            c["args"][4] = ("B", bool(i % 2))
        mon.case(c, gen.nontrivial_rate(c))
        o = impl.run_case(c)
        if o.get("exc") is not None:
            if o["exc"] != "Arith":
                mon.fail("valid call raised", c, o["exc"] + ": " + str(o.get("_msg")))
            continue
        teams = c["args"][0]
        want_shape = [len(t[1]) for t in teams[1]]
        got_shape = [len(t) for t in o["res"]]
        if want_shape != got_shape:
            mon.fail("shape", c, "input shape %s, result shape %s" % (want_shape, got_shape), o["res"])
            continue
        for ti, t in enumerate(teams[1]):
            for pj, p in enumerate(t[1]):
                r = o["res"][ti][pj]
                if r[2] != p[4] or r[3] != impl.name_obs(impl.py_name(p[5])):
                    mon.fail("id/name", c, "result[%d][%d] carries id/name %s, input has %s" % (
                        ti, pj, r[2:], [p[4], p[5]]), o["res"])
        same = o.get("same_obj")
        flat = [x for r in (same or []) for x in r]
        if flat and all(flat):
            for ti, t in enumerate(o["after"]):
                for pj, p in enumerate(t):
                    if p != o["res"][ti][pj][:2]:
                        mon.fail("passed objects", c, "passed object [%d][%d] is returned but holds %s, result %s" % (
                            ti, pj, p, o["res"][ti][pj][:2]))
        elif flat and not any(flat):
            before = [[[hx(p[2]), hx(p[3])] for p in t[1]] for t in teams[1]]
            if o["after"] != before:
                mon.fail("passed objects", c, "copies returned but passed objects changed", o["after"])
        else:
            mon.fail("passed objects", c, "mixture of passed objects and copies in the result", same)
        if mon.full:
            break
    # two rate calls on disjoint ratings through ONE shared model, interleaved at attribute accesses
    for it in range(max(10, budget // 200)):
        if mon.full:
            break
        kind = KINDS[it % 5]
        st = gen.gen_state(rng)

        def mk(k, kind=kind, st=st):
            while True:     # the thunk passes no per-call tau: the game has to be valid under the model's own tau
                c = _valid_rate_case(rng, kind=kind, state=st)
                if st["tau"] > 0 or all(p[3] != 0 for tm in c["args"][0][1] for p in tm[1]):
                    break
            teams = c["args"][0]
            n = len(teams[1])
            order = list(range(n))
            rng.shuffle(order)
            ids = [[p[4] for p in t[1]] for t in teams[1]]

            def thunk(m, teams=teams, order=order):
                objs = to_python(teams)
                res = m.rate(objs, ranks=[float(r) for r in order])
                return [[int(p.id, 16) for p in t] for t in res]

            def chk(r, ids=ids):
                return None if r == ids else "result ids %s, input ids %s" % (r, ids)
            return thunk, chk, {"teams": teams, "ranks": order}
        threads_probe(mon, rng, kind, st, mk)
    api.pool(False)
    return mon


# =====================================================================================================
# C03  ordinal outcomes
def mon_C03(rng, budget, tier):
    mon = Mon("C03")
    all_orders = {n: list(gen.weak_orders(n)) for n in (2, 3, 4)} if tier == "thorough" else {}
    i = 0
    while mon.evaluations < budget and not mon.full:
        kind = KINDS[i % 5]
        i += 1
        api.pool(i % 2 == 0)
        st = gen.gen_state(rng)
        shape = gen.gen_shape(rng, max_teams=6)
        n = len(shape)
        nums = gen.gen_teams_num(rng, st, shape)
        if tier == "thorough" and n in all_orders and rng.random() < 0.5:
            order = list(rng.choice(all_orders[n]))
        else:
            order = gen.random_weak_order(rng, n)
        tau, lim = gen.gen_percall(rng, st)
        if tau[0] == "B":
            tau = OMIT
        base = hexnums(rate_nums(kind, st, nums, ranks=("L", [("I", r) for r in order]), tau=tau, lim=lim))
        variants = []
        for enc in rng.sample(gen.ENCODINGS, 5 if tier == "quick" else len(gen.ENCODINGS)):
            vals, e = gen.encode_order(rng, order, enc)
            variants.append((e, "ranks", ("L", vals)))
            variants.append((e, "scores", ("L", [gen.neg_val(v) for v in vals])))
        if order == list(range(n)):
            variants.append(("omitted", "none", None))
        for e, sel, v in variants:
            case = {"kind": kind, "st": st, "nums": nums, "order": order, "enc": e, "sel": sel, "vals": v,
                    "tau": tau, "lim": lim}
            mon.case(case, len(set(order)) < n or order != sorted(order))
            mon.count("enc:" + e)
            kw = {"tau": tau, "lim": lim}
            if sel == "ranks":
                kw["ranks"] = v
            elif sel == "scores":
                kw["scores"] = v
            try:
                got = hexnums(rate_nums(kind, st, nums, **kw))
            except Exception as ex:
                mon.fail("relabelling raised", case, "%s: %s" % (type(ex).__name__, ex))
                continue
            if got != base:
                mon.fail("relabelling (%s, %s)" % (e, sel), case,
                         "result differs from the result for the dense ranks %s" % order, {"base": base, "got": got})
        # the same vector given first as ranks and then as scores to ONE model object: scores=v must equal ranks=-v
        if i % 2 == 0 and not mon.full:
            vals, e = gen.encode_order(rng, order)
            m = make_model(kind, st)
            case = {"kind": kind, "st": st, "nums": nums, "order": order, "enc": e, "vals": vals, "tau": tau, "lim": lim,
                    "sequence": ["rate(ranks=v)", "rate(scores=v)"]}
            mon.case(case)
            try:
                call_rate(kind, st, nums, ranks=("L", vals), tau=tau, lim=lim, model=m)
                got = hexnums(call_rate(kind, st, nums, scores=("L", vals), tau=tau, lim=lim, model=m)[0])
                want = hexnums(call_rate(kind, st, nums, ranks=("L", [gen.neg_val(v) for v in vals]), tau=tau, lim=lim,
                                         model=make_model(kind, st))[0])
            except Exception as ex:  # noqa: BLE001
                mon.fail("relabelling raised", case, "%s: %s" % (type(ex).__name__, ex))
                continue
            if got != want:
                mon.fail("scores equal ranks negated (same model object, ranks=v then scores=v)", case,
                         "scores=v gives %s, ranks=-v gives %s" % (str(got)[:300], str(want)[:300]))
        # a caller keeps ITS rank (score) vector and passes the same list object again: same game, same vector, same result;
        # and the vector still says what the caller wrote into it
        if i % 3 == 0 and not mon.full:
            vals, e = gen.encode_order(rng, order)
            sel = "ranks" if i % 2 else "scores"
            m = make_model(kind, st)
            case = {"kind": kind, "st": st, "nums": nums, "order": order, "enc": e, "vals": vals, "sel": sel,
                    "sequence": ["L = [...]", "rate(%s=L)" % sel, "rate(%s=L) with the same list object" % sel]}
            mon.case(case, order != sorted(order))
            L = to_python(("L", vals if sel == "ranks" else [gen.neg_val(v) for v in vals]))
            keep = [(type(x), repr(x)) for x in L]
            try:
                r1 = [[(hx(p.mu), hx(p.sigma)) for p in t] for t in m.rate(to_python(teams_val(kind, nums)), **{sel: L})]
                r2 = [[(hx(p.mu), hx(p.sigma)) for p in t] for t in m.rate(to_python(teams_val(kind, nums)), **{sel: L})]
            except Exception as ex:  # noqa: BLE001
                mon.fail("relabelling raised", case, "%s: %s" % (type(ex).__name__, ex))
                continue
            if [(type(x), repr(x)) for x in L] != keep:
                mon.fail("the caller's %s vector after the call" % sel, case, "the list passed as %s= now reads %r" % (sel, L))
            elif r1 != r2:
                mon.fail("same vector object, same game, second call", case, "first call %s, second call %s" % (str(r1)[:300], str(r2)[:300]))
    api.pool(False)
    return mon


# =====================================================================================================
# C04  equivariance
def _tie_stable(perm, keys):
    """perm lists old indices in new order; mutually tied teams keep their relative order"""
    pos = {old: new for new, old in enumerate(perm)}
    n = len(keys)
    return all(not (keys[a] == keys[b] and a < b and pos[a] > pos[b]) for a in range(n) for b in range(n))


def mon_C04(rng, budget, tier):
    mon = Mon("C04")
    i = 0
    while mon.evaluations < budget and not mon.full:
        kind = KINDS[i % 5]
        i += 1
        api.pool(i % 2 == 0)
        c = _valid_rate_case(rng, kind=kind)
        teams, ranks, scores, tau, lim = c["args"]
        if tau[0] == "B":
            tau = c["args"][3] = OMIT
        st = c["st"]
        nums = nums_of(teams)
        n = len(nums)
        keys = _keys_or_default(c)
        infl = _inflated(nums, eff_tau(st, tau))
        srel = _tm_tie_sigma_rel(kind, st, infl, keys)
        # the outcome is passed the way the case has it: as ranks or as scores, with the case's own values
        if scores != OMIT and scores[0] == "L" and scores[1]:
            sel, ovals = "scores", list(scores[1])
        elif ranks != OMIT and ranks[0] == "L" and ranks[1]:
            sel, ovals = "ranks", list(ranks[1])
        else:
            sel, ovals = "ranks", [_num_val(k) for k in keys]
        if i % 6 == 0:      # huge integer scores (exactly comparable, not representable as distinct doubles)
            dense = {v: r for r, v in enumerate(sorted(set(keys)))}
            base_int = rng.choice([2 ** 53, 10 ** 18, 10 ** 400])
            sel, ovals = "scores", [("I", -(base_int + dense[k])) for k in keys]
        base = rate_nums(kind, st, nums, tau=tau, lim=lim, **{sel: ("L", ovals)})
        perms = list(itertools.permutations(range(n))) if (n <= 5 and tier == "thorough") else None
        if perms is None:
            perms = []
            for _ in range(6 if tier == "quick" else 24):
                p = list(range(n))
                rng.shuffle(p)
                perms.append(tuple(p))
            perms.append(tuple(reversed(range(n))))
            perms.append(tuple(list(range(1, n)) + [0]))
        for perm in perms:
            if kind in PART and not _tie_stable(perm, keys):
                continue
            pp = [list(range(len(nums[o]))) for o in perm]
            if rng.random() < 0.6:
                for x in pp:
                    rng.shuffle(x)
            pnums = [[nums[o][j] for j in pj] for o, pj in zip(perm, pp)]
            pkeys = [keys[o] for o in perm]
            case = {"kind": kind, "st": st, "nums": nums, "keys": keys, "perm": perm, "players": pp, "tau": tau,
                    "lim": lim}
            mon.case(case, perm != tuple(range(n)) or any(x != sorted(x) for x in pp))
            case["outcome_as"] = sel
            got = rate_nums(kind, st, pnums, tau=tau, lim=lim, **{sel: ("L", [ovals[o] for o in perm])})
            for new, (o, pj) in enumerate(zip(perm, pp)):
                for jj, j in enumerate(pj):
                    a, b = base[o][j], got[new][jj]
                    sc = max(abs(a[0]), infl[o][j][1])
                    allow = _tm_tie_mu_allow(kind, st, infl, keys, o, j)
                    if not (_close_mu(a[0], b[0], sc) or abs(a[0] - b[0]) <= allow + 1e-9 * max(sc, abs(a[0]), abs(b[0]))) or not _close_sigma(a[1], b[1], srel, st, infl[o][j][1]):
                        mon.fail("permutation", case, "player [%d][%d] gets %s in the original listing and %s after "
                                 "reordering (sigma tolerance %.1e)" % (o, j, a, b, srel))
    api.pool(False)
    return mon


def _num_val(k):
    if isinstance(k, bool):
        return ("B", k)
    return ("I", k) if isinstance(k, int) else ("F", k)


# =====================================================================================================
# C05  direction of learning
def _dmu(nums_infl_or_prior, res):
    return [[r[0] - p[0] for p, r in zip(tp, tr)] for tp, tr in zip(nums_infl_or_prior, res)]


_RK = [0]


def _rk(order):
    """a weak order as a rank vector, in one of four order-equivalent spellings chosen in turn: small ints, floats, ints above
    the interpreter's small-int cache, non-integral floats (equal values are then distinct objects: a tie detected with `is`
    or through an int() / round() is lost)"""
    _RK[0] += 1
    m = _RK[0] % 4
    if m == 0:
        return ("L", [("I", int(r)) for r in order])
    if m == 1:
        return ("L", [("F", float(r)) for r in order])
    if m == 2:
        return ("L", [("I", 1000 + int(r)) for r in order])
    return ("L", [("F", r * 0.5 + 12.25) for r in order])


def mon_C05(rng, budget, tier):
    mon = Mon("C05")
    i = 0
    while mon.evaluations < budget and not mon.full:
        kind = KINDS[i % 5]
        i += 1
        api.pool(i % 2 == 0)
        st = gen.gen_state(rng)
        st["limit"] = rng.random() < 0.2
        which = i % 4
        # ---------------- (a,b) any game: first alone / last alone / one sign per team / proportional shares
        if which == 0:
            c = _valid_rate_case(rng, kind=kind, state=st)
            teams, ranks, scores, tau, lim = c["args"]
            if tau[0] == "B":
                tau = OMIT
            nums = nums_of(teams)
            keys = _keys_or_default(c)
            case = {"clause": "first/last/shares", "kind": kind, "st": st, "nums": nums, "keys": keys, "tau": tau}
            mon.case(case)
            # the outcome goes in the way the case has it: as ranks or as scores, with the case's own values (floats of very
            # different magnitude, huge ints, bools ...): the placing the caller describes is what "first" and "last" mean
            if scores != OMIT and scores[0] == "L" and scores[1] and not (ranks != OMIT and ranks[0] == "L" and ranks[1]):
                case["outcome_as"] = "scores"
                res = rate_nums(kind, st, nums, scores=scores, tau=tau)
            elif ranks != OMIT and ranks[0] == "L" and ranks[1]:
                case["outcome_as"] = "ranks"
                res = rate_nums(kind, st, nums, ranks=ranks, tau=tau)
            else:
                res = rate_nums(kind, st, nums, ranks=("L", [_num_val(k) for k in keys]), tau=tau)
            infl = _inflated(nums, eff_tau(st, tau))
            d = _dmu(nums, res)
            best, worst = min(keys), max(keys)
            for t in range(len(nums)):
                if keys[t] == best and keys.count(best) == 1 and any(x < 0 for x in d[t]):
                    mon.fail("first alone", case, "team %d finished alone in first place, mu changes %s" % (t, d[t]))
                if keys[t] == worst and keys.count(worst) == 1 and any(x > 0 for x in d[t]):
                    mon.fail("last alone", case, "team %d finished alone in last place, mu changes %s" % (t, d[t]))
                if any(x > 0 for x in d[t]) and any(x < 0 for x in d[t]):
                    mon.fail("one direction per team", case, "team %d members move in both directions: %s" % (t, d[t]))
                # proportionality: dmu_j = (s_j^2 / sum s^2) * Omega, Omega = sum_j dmu_j.
                # each observed dmu_j carries the rounding of mu' (<= ulp(mu')) and of mu' - mu.
                ss = sum(sg ** 2 for _, sg in infl[t])
                om = math.fsum(d[t])
                for j, x in enumerate(d[t]):
                    want = infl[t][j][1] ** 2 / ss * om
                    noise = sum(2 * ulp(max(abs(nums[t][jj][0]), abs(res[t][jj][0]))) for jj in range(len(d[t])))
                    if abs(x - want) > noise + 1e-9 * abs(om):
                        mon.fail("share proportional to variance", case,
                                 "team %d player %d moved %r, share of the team's total would be %r" % (t, j, x, want))
        # ---------------- (c,d) two-team games: loss <= draw <= win; prior between; draw direction
        elif which == 1:
            shape = [rng.choice([1, 1, 2, 3]), rng.choice([1, 1, 2, 3])]
            nums = gen.gen_teams_num(rng, st, shape, ints=False)
            tau = rng.choice([OMIT, ("F", 0.0)])
            case = {"clause": "two-team", "kind": kind, "st": st, "nums": nums, "tau": tau}
            mon.case(case)
            win = rate_nums(kind, st, nums, ranks=_rk([1, 2]), tau=tau)
            draw = rate_nums(kind, st, nums, ranks=_rk([1, 1]), tau=tau)
            loss = rate_nums(kind, st, nums, ranks=_rk([2, 1]), tau=tau)
            infl = _inflated(nums, eff_tau(st, tau))
            ss = _team_ss(infl)
            th = [sum(mu for mu, _ in t) for t in nums]
            ciq = (2.0 if kind == "TMP" else 1.0) * math.sqrt(ss[0] + ss[1] + 2 * st["beta"] ** 2)
            for t in (0, 1):
                w_, d_, l_ = (win, draw, loss) if t == 0 else (loss, draw, win)
                for j, (mu, _) in enumerate(nums[t]):
                    sl = 2 * ulp(max(abs(mu), abs(w_[t][j][0]), abs(l_[t][j][0])))
                    if not (l_[t][j][0] <= d_[t][j][0] + sl and d_[t][j][0] <= w_[t][j][0] + sl):
                        mon.fail("loss <= draw <= win", case, "team %d player %d: loss %r draw %r win %r" % (
                            t, j, l_[t][j][0], d_[t][j][0], w_[t][j][0]))
                    if not (l_[t][j][0] <= mu + sl and mu <= w_[t][j][0] + sl):
                        mon.fail("prior between loss and win", case, "team %d player %d: loss %r prior %r win %r" % (
                            t, j, l_[t][j][0], mu, w_[t][j][0]))
                    # draw direction; TM allowance (sigma_ij^2 / c_iq) * (kappa / c_iq)
                    allow = 0.0
                    if kind in TM:
                        allow = infl[t][j][1] ** 2 / ciq * (st["kappa"] / ciq) * (1 + 1e-9)
                    dd = d_[t][j][0] - mu
                    if th[t] >= th[1 - t] and dd > allow + sl:
                        mon.fail("draw raises the stronger team", case, "team %d player %d moved %r on a draw (allowance %r)" % (t, j, dd, allow))
                    if th[t] <= th[1 - t] and dd < -allow - sl:
                        mon.fail("draw lowers the weaker team", case, "team %d player %d moved %r on a draw (allowance %r)" % (t, j, dd, allow))
        # ---------------- (e) exchange of places, no ties, PL / full pairing
        elif which == 2:
            kind = FULL[i % 3]
            shape = gen.gen_shape(rng, max_teams=6)
            n = len(shape)
            nums = gen.gen_teams_num(rng, st, shape, ints=False)
            order = list(range(n))
            rng.shuffle(order)
            a, b = rng.sample(range(n), 2)
            if order[a] < order[b]:
                a, b = b, a        # team a is placed worse than team b
            sw = list(order)
            sw[a], sw[b] = sw[b], sw[a]
            case = {"clause": "exchange", "kind": kind, "st": st, "nums": nums, "order": order, "team": a, "with": b}
            mon.case(case)
            r0 = rate_nums(kind, st, nums, ranks=_rk(order))
            r1 = rate_nums(kind, st, nums, ranks=_rk(sw))
            for j in range(len(nums[a])):
                sc = max(abs(nums[a][j][0]), nums[a][j][1])
                if r1[a][j][0] < r0[a][j][0] - 1e-12 * sc - 4 * ulp(sc):
                    mon.fail("exchange with a better-placed team", case,
                             "team %d player %d: mu %r at place %d, %r after moving up to place %d" % (
                                 a, j, r0[a][j][0], order[a], r1[a][j][0], sw[a]))
        # ---------------- (f) identical teams ordered by place
        else:
            n = rng.randint(2, 6)
            if kind in PART:
                size = rng.choice([1, 2, 3])
                one = gen.gen_teams_num(rng, st, [size], ints=False)[0]
                nums = [list(one) for _ in range(n)]
                twins = list(range(n))
            else:
                shape = gen.gen_shape(rng, max_teams=6)
                n = len(shape)
                nums = gen.gen_teams_num(rng, st, shape, ints=False)
                a, b = rng.sample(range(n), 2)
                nums[b] = list(nums[a])
                twins = [a, b]
            order = list(range(n))
            rng.shuffle(order)
            case = {"clause": "identical teams", "kind": kind, "st": st, "nums": nums, "order": order, "twins": twins}
            mon.case(case)
            r = rate_nums(kind, st, nums, ranks=_rk(order))
            for x in twins:
                for y in twins:
                    if order[x] < order[y]:
                        for j in range(len(nums[x])):
                            sc = max(abs(nums[x][j][0]), nums[x][j][1])
                            if r[x][j][0] < r[y][j][0] - 1e-12 * sc - 4 * ulp(sc):
                                mon.fail("identical teams ordered by place", case,
                                         "identical teams %d (place %d) and %d (place %d): player %d ends at %r vs %r" % (
                                             x, order[x], y, order[y], j, r[x][j][0], r[y][j][0]))
    api.pool(False)
    return mon


# =====================================================================================================
# C06  sigma bounds, single games and league histories
def _check_sigma(mon, case, nums, res, tau, limit, kappa_pos=True):
    for t, (tp, tr) in enumerate(zip(nums, res)):
        for j, ((_, s0), (_, s1)) in enumerate(zip(tp, tr)):
            # the property's bound is the REAL sqrt(s0^2 + tau^2); this double carries up to two ulps of rounding of its own
            # (three roundings before the root), and another correct evaluation of the inflated sigma (math.hypot, s0**2)
            # may land on a neighbouring double: four ulps of slack, nothing a wrong update could hide in
            bound = math.sqrt(s0 * s0 + tau * tau)
            bound += 4 * ulp(bound)
            if not math.isfinite(s1) or not (s1 > 0 if kappa_pos else s1 >= 0):
                mon.fail("sigma positive and finite", case, "player [%d][%d]: posterior sigma %r" % (t, j, s1))
            elif s1 > bound:
                mon.fail("sigma <= sqrt(sigma^2 + tau^2)", case, "player [%d][%d]: prior %r tau %r bound %r posterior %r" % (
                    t, j, s0, tau, bound, s1))
            elif limit and s1 > s0:
                mon.fail("limit_sigma", case, "player [%d][%d]: prior sigma %r, posterior %r with limit_sigma in force" % (
                    t, j, s0, s1))


def mon_C06(rng, budget, tier):
    mon = Mon("C06")
    i = 0
    n_single = budget * 2 // 3
    while mon.evaluations < n_single and not mon.full:
        kind = KINDS[i % 5]
        i += 1
        api.pool(i % 2 == 0)
        c = _valid_rate_case(rng, kind=kind)
        teams, ranks, scores, tau, lim = c["args"]
        if tau[0] == "B":
            tau = OMIT
        st = c["st"]
        nums = nums_of(teams)
        if eff_limit(st, lim) and any(sg == 0 for t in nums for _, sg in t):
            # prior sigma = 0 with limit_sigma in force: "<= prior" and "strictly positive" contradict each
            # other; outside the property's domain (sigma in [1e-4 beta, 10 beta]); see DESIGN I6
            continue
        case = {"kind": kind, "st": st, "nums": nums, "ranks": ranks, "scores": scores, "tau": tau, "lim": lim}
        mon.case(case)
        mon.count("limit:%s" % eff_limit(st, lim))
        res = rate_nums(kind, st, nums, ranks=ranks, scores=scores, tau=tau, lim=lim)
        _check_sigma(mon, case, nums, res, eff_tau(st, tau), eff_limit(st, lim))
    # league histories: ratings fed back, one shared model, per-call options varying
    games = 0
    target = budget - mon.evaluations
    while games < target and not mon.full:
        kind = KINDS[i % 5]
        i += 1
        st = gen.gen_state(rng)
        m = make_model(kind, st)
        P = rng.randint(4, 12)
        pl = [m.rating(mu=(rng.uniform(-20, 20)) * st["beta"], sigma=gen.logu(rng, 1e-2, 10) * st["beta"]) for _ in range(P)]
        always_limit = rng.random() < 0.5
        s0 = [p.sigma for p in pl]
        acc = [p.sigma ** 2 for p in pl]
        G = 40 if tier == "quick" else 400
        hist = []
        for g in range(G):
            k = rng.randint(2, min(4, P))
            idx = rng.sample(range(P), k * rng.choice([1, 1, 2]) if k * 2 <= P else k)
            sz = len(idx) // k
            tms = [[pl[x] for x in idx[a * sz:(a + 1) * sz]] for a in range(k)]
            tidx = [idx[a * sz:(a + 1) * sz] for a in range(k)]
            order = gen.random_weak_order(rng, k)
            tau, lim = gen.gen_percall(rng, st)
            if tau[0] == "B":
                tau = OMIT
            if always_limit:
                lim = ("B", True) if not st["limit"] or rng.random() < 0.5 else OMIT
            kw = {}
            if tau != OMIT:
                kw["tau"] = tau[1]
            if lim != OMIT:
                kw["limit_sigma"] = lim[1]
            before = [[(p.mu, p.sigma) for p in t] for t in tms]
            # a league driven by random outcomes with a large per-game tau can push ratings out of the supported
            # numeric range (|mu| <= 20 beta, sigma <= 10 beta), where the properties make no claim: end it there
            if any(abs(mu_) > 20 * st["beta"] or sg_ > 10 * st["beta"] for t in before for mu_, sg_ in t):
                mon.count("league left the supported range after %d games" % min(g, 50))
                break
            try:
                out = m.rate(tms, ranks=order, **kw)
            except Exception as ex:  # noqa: BLE001
                mon.fail("valid call raised", {"league": True, "kind": kind, "st": st, "game": g, "history": hist[-6:], "before": before,
                                               "ranks": order, "opts": kw}, "%s: %s" % (type(ex).__name__, ex))
                break
            hist.append({"teams": tidx, "ranks": order, "tau": tau, "lim": lim})
            games += 1
            res = [[(p.mu, p.sigma) for p in t] for t in out]
            case = {"league": True, "kind": kind, "st": st, "game": g, "history": hist[-6:], "before": before}
            mon.case(case, sample_every=211)
            _check_sigma(mon, case, before, res, eff_tau(st, tau), eff_limit(st, lim))
            for t, ids_ in enumerate(tidx):
                for j, x in enumerate(ids_):
                    pl[x] = out[t][j]
                    acc[x] += eff_tau(st, tau) ** 2
                    if always_limit and pl[x].sigma > s0[x]:
                        mon.fail("history: non-increasing with limit_sigma", case, "player %d sigma %r > initial %r" % (x, pl[x].sigma, s0[x]))
                    if pl[x].sigma ** 2 > acc[x] * (1 + 1e-12):
                        mon.fail("history: growth at most tau in quadrature", case, "player %d sigma^2 %r > %r" % (x, pl[x].sigma ** 2, acc[x]))
                    if always_limit:
                        s0[x] = min(s0[x], pl[x].sigma)
            if mon.full:
                break
    api.pool(False)
    return mon


# =====================================================================================================
# C07  no inflation
def mon_C07(rng, budget, tier):
    mon = Mon("C07")
    i = 0
    while mon.evaluations < budget and not mon.full:
        kind = KINDS[i % 5]
        i += 1
        api.pool(i % 2 == 0)
        c = _valid_rate_case(rng, kind=kind)
        teams, ranks, scores, tau, lim = c["args"]
        if tau[0] == "B":
            tau = OMIT
        st = c["st"]
        nums = nums_of(teams)
        if i % 4 == 0:   # equal team variances: plain conservation
            sg = gen.logu(rng, 1e-3, 10) * st["beta"]
            size = len(nums[0])
            nums = [[(rng.uniform(-20, 20) * st["beta"], sg) for _ in range(size)] for _ in nums]
        keys = _keys_or_default(c)
        case = {"kind": kind, "st": st, "nums": nums, "keys": keys, "tau": tau}
        mon.case(case, len(set(keys)) < len(keys) or len(nums) > 2)
        res = rate_nums(kind, st, nums, ranks=("L", [_num_val(k) for k in keys]), tau=tau)
        infl = _inflated(nums, eff_tau(st, tau))
        ss = _team_ss(infl)
        if min(ss) == 0:
            continue
        n = len(nums)
        om = [math.fsum(r[0] - p[0] for p, r in zip(nums[t], res[t])) for t in range(n)]
        total = math.fsum(om[t] / ss[t] for t in range(n))
        # tolerance, derived from the observation itself:
        #  * each observed mu' - mu carries <= 2 ulp(max|mu|,|mu'|) of rounding        -> noise_t / ss_t
        #  * the update's own arithmetic is relative 1e-12 of the terms               -> 1e-12 * sum |om_t| / ss_t
        #  * (1 - p), (s - p) are formed with absolute error 1e-16 per pair           -> n^2 * 1e-15 / (sqrt(2) beta)
        noise = sum(sum(2 * ulp(max(abs(p[0]), abs(r[0]))) for p, r in zip(nums[t], res[t])) / ss[t] for t in range(n))
        tol = noise + 1e-12 * sum(abs(om[t]) / ss[t] for t in range(n)) + n * n * 1e-15 / (math.sqrt(2) * st["beta"])
        allow = 0.0
        if kind in TM:
            pairs = [(a, b) for a in range(n) for b in range(a + 1, n) if keys[a] == keys[b]]
            if kind == "TMP":   # only ladder neighbours are paired: bound by all tied pairs anyway
                pass
            for a, b in pairs:
                c2 = ((2.0 if kind == "TMP" else 1.0) ** 2) * (ss[a] + ss[b] + 2 * st["beta"] ** 2)
                allow += 2 * st["kappa"] / c2
            allow *= (1 + 1e-9)
        if abs(total) > tol + allow:
            mon.fail("precision-weighted mu change sums to zero", case,
                     "sum_i (sum_j dmu_ij)/var_i = %r, tolerance %r, TM tie allowance %r" % (total, tol, allow),
                     {"om": om, "ss": ss})
    api.pool(False)
    return mon


# =====================================================================================================
# C08  totality on the supported domain
def _finite_all(x):
    if isinstance(x, (list, tuple)):
        return all(_finite_all(y) for y in x)
    return isinstance(x, int) or math.isfinite(x)


def mon_C08(rng, budget, tier):
    mon = Mon("C08")
    i = 0
    while mon.evaluations < budget and not mon.full:
        kind = KINDS[i % 5]
        i += 1
        api.pool(i % 2 == 0)
        k = 10 ** rng.choice([-3, -2, -1, 0, 0, 1, 2, 3]) if rng.random() < 0.7 else 10 ** rng.uniform(-3, 3)
        beta = gen.BETA0 * k
        st = {"mu": 25.0 * k, "sigma": 25.0 / 3 * k, "beta": beta, "kappa": rng.choice([1e-4, 1e-2, 1e-8, gen.logu(rng, 1e-8, 1e-2)]),
              "tau": rng.choice([0.0, beta / 50, beta, 1e-6 * beta]), "gamma": rng.choice(gen.GAMMAS), "limit": rng.random() < 0.3}
        ctor = rng.choice([None, None, None, "setattr", "reassign", "reassign", "subcls"])
        if ctor:
            st["ctor"] = ctor
        n = rng.randint(2, 8)
        corner = rng.random() < 0.5
        shape = [rng.choice([1, 16, 16, rng.randint(1, 16)]) if corner else rng.randint(1, 16) for _ in range(n)]
        nums = []
        sign = rng.choice([1, -1])
        for t, sz in enumerate(shape):
            team = []
            for _ in range(sz):
                if corner:
                    mu = rng.choice([20.0, -20.0, sign * 20.0 * (1 if t % 2 == 0 else -1)]) * beta
                    sg = rng.choice([1e-4, 10.0, 1e-4, 0.0 if st["tau"] > 0 else 1e-4]) * beta
                else:
                    mu = rng.uniform(-20, 20) * beta
                    sg = gen.logu(rng, 1e-4, 10) * beta
                team.append((mu, sg))
            nums.append(team)
        if rng.random() < 0.35:
            # polarised: every team entirely at +m or -m (largest gaps between team totals), small sigma, large teams
            m_ = rng.choice([6.0, 12.0, 16.0, 20.0, 20.0])
            sg_ = rng.choice([1e-4, 1e-4, 0.1, 1.0])
            n = rng.choice([2, 2, 2, 3, 4])
            shape = [rng.choice([2, 3, 5, 10, 13, 16, 16, 16]) for _ in range(n)]
            nums = [[((m_ if (t + (sign > 0)) % 2 == 0 else -m_) * beta, sg_ * beta) for _ in range(sz)]
                    for t, sz in enumerate(shape)]
        elif rng.random() < 0.25:
            # many teams, one or two very uncertain players among well-established opponents with close means
            n = rng.choice([6, 7, 8])
            base = rng.uniform(-18, 18)
            nums = []
            for t in range(n):
                sz = rng.choice([1, 1, 2, 3])
                unc = t < rng.choice([1, 1, 2])
                nums.append([((base + rng.uniform(-1, 1)) * beta,
                              (rng.uniform(3, 10) if unc and j == 0 else gen.logu(rng, 1e-4, 0.3)) * beta) for j in range(sz)])
            rng.shuffle(nums)
        order = gen.random_weak_order(rng, n)
        if rng.random() < 0.5:      # the favourite finishing first / last
            th = [sum(m for m, _ in t) for t in nums]
            order = [sorted(th, reverse=rng.random() < 0.5).index(x) for x in th]
        op = ["rate", "rate", "rate", "pwin", "pdraw", "prank"][(i // 5) % 6]     # every kind meets every operation
        case = {"op": op, "kind": kind, "st": st, "nums": nums, "order": order}
        mon.case(case)
        mon.count("op:" + op)
        pc_tau = OMIT
        if op == "rate" and rng.random() < 0.15:
            # the variance of a sigma-0 team comes from a PER-CALL tau on a model built with tau = 0
            st = dict(st, tau=0.0)
            pc_tau = ("F", rng.choice([beta / 50, beta, 1e-3 * beta]))
            z = rng.randrange(len(nums))
            nums = [([(mu, 0.0) for mu, _ in t] if (ti == z or rng.random() < 0.2) else [(mu, sg if sg > 0 else beta) for mu, sg in t]) for ti, t in enumerate(nums)]
            case = {"op": op, "kind": kind, "st": st, "nums": nums, "order": order, "tau": pc_tau}
        elif op == "rate":
            nums = [[(mu, (sg if (sg > 0 or st["tau"] > 0) else 1e-4 * beta)) for mu, sg in t] for t in nums]
            case["nums"] = nums
        try:
            if op == "rate":
                out = rate_nums(kind, st, nums, ranks=_rk(order), tau=pc_tau)
            else:
                out = call_predict(op, kind, st, nums)
        except Exception as ex:
            mon.fail("exception on a valid game", case, "%s: %s" % (type(ex).__name__, ex))
            continue
        if not _finite_all(out):
            mon.fail("non-finite number returned", case, repr(out)[:300])
    api.pool(False)
    return mon


# =====================================================================================================
# C09  predict_win
def _predict_game(rng, kind=None, max_teams=8):
    st = gen.gen_state(rng)
    shape = gen.gen_shape(rng, max_teams=max_teams)
    nums = gen.gen_teams_num(rng, st, shape, ints=False)
    if rng.random() < 0.05:
        nums = [[(mu, sg * 1e-3) for mu, sg in t] for t in nums]
    if rng.random() < 0.06:
        nums = [([(mu, 0.0) for mu, _ in t] if rng.random() < 0.5 else t) for t in nums]     # teams of zero variance
    return st, nums


def _free_running_predict_stress(mon, rng, ops, seconds):
    """several threads, free running with a short switch interval, call the predictions on ONE shared model object for
    lobbies of different sizes; every call must return what the same call returns alone.  A stress test: it can miss a race,
    it cannot raise a false alarm (state kept on the model, in module globals or in class attributes between the steps of a
    call is what it looks for)."""
    if mon.full:
        return
    kind = KINDS[rng.randrange(5)]
    st = gen.gen_state(rng)
    m = make_model(kind, st)
    jobs = []
    for n in (2, 8, 3, 5, 2, 4):
        shape = [rng.choice([1, 2, 4, 8]) for _ in range(n)]
        nums = gen.gen_teams_num(rng, st, shape, ints=False)
        tv = teams_val(kind, nums)
        for op in ops:
            jobs.append((op, tv, nums))
    f = {"pwin": "predict_win", "pdraw": "predict_draw", "prank": "predict_rank"}
    want = [repr(getattr(make_model(kind, st), f[op])(to_python(tv))) for op, tv, _ in jobs]
    bad = []
    stop = threading.Event()
    old_si = sys.getswitchinterval()

    def work(k):
        j = k
        while not stop.is_set() and not bad:
            op, tv, nums = jobs[j % len(jobs)]
            try:
                got = repr(getattr(m, f[op])(to_python(tv)))
            except Exception as ex:  # noqa: BLE001
                bad.append((j % len(jobs), "raised %s: %s" % (type(ex).__name__, ex)))
                return
            if got != want[j % len(jobs)]:
                bad.append((j % len(jobs), got))
            j += 5
    try:
        sys.setswitchinterval(1e-6)
        ths = [threading.Thread(target=work, args=(k,)) for k in range(4)]
        for th_ in ths:
            th_.start()
        stop.wait(seconds)
        stop.set()
        for th_ in ths:
            th_.join(10)
    finally:
        sys.setswitchinterval(old_si)
    case = {"clause": "concurrent calls on one shared model", "kind": kind, "st": st, "threads": 4,
            "lobbies": [[len(t) for t in nums] for _, _, nums in jobs[:6]]}
    mon.case(case)
    mon.count("concurrent stress")
    if bad:
        j, got = bad[0]
        case["nums"] = jobs[j][2]
        mon.fail("concurrent calls return what the same call returns alone", case,
                 "%s on lobby %s: %s under concurrency, %s alone" % (jobs[j][0], [len(t) for t in jobs[j][2]], str(got)[:200], want[j][:200]))


def _same_objects_probe(mon, rng, ops, n):
    """the very same rating objects are shown to the predictions again after their numbers changed (assigned by the caller,
    or updated in place by rate): the answer must be the one fresh objects with the new numbers get - nothing derived from
    the old numbers may survive on the objects (a cached variance, a cached ordinal, a memo keyed by id)"""
    for k in range(n):
        if mon.full:
            return
        kind = KINDS[k % 5]
        st, nums = _predict_game(rng)
        if not (st["tau"] > 0 or all(sg > 0 for t in nums for _, sg in t)):
            nums = [[(mu, sg if sg > 0 else st["beta"]) for mu, sg in t] for t in nums]
        m = make_model(kind, st)
        objs = to_python(teams_val(kind, nums))
        f = {"pwin": m.predict_win, "pdraw": m.predict_draw, "prank": m.predict_rank}
        how = "rate" if k % 3 == 0 else "assign"
        case = {"kind": kind, "st": st, "nums_before": nums, "sequence": ["predict_*", how, "predict_* on the same objects"]}
        try:
            for op in ops:
                f[op](objs)
            if len(objs) >= 3:
                # the same model is shown the same teams in a smaller lobby (the last team has left): nothing remembered per
                # pair of teams in the lobby of n may be replayed in the lobby of n - 1
                sub = {"kind": kind, "st": st, "nums": nums[:-1], "sequence": ["predict_* on %d teams" % len(nums), "predict_* on the first %d of them, same model object" % (len(nums) - 1)]}
                mon.case(sub, True)
                for op in ops:
                    got = f[op](objs[:-1])
                    want = call_predict(op, kind, st, nums[:-1], model=make_model(kind, st))
                    if repr(got) != repr(want):
                        mon.fail("same model object, smaller lobby", sub, "%s: %s; a fresh model gives %s" % (op, str(got)[:200], str(want)[:200]))
            if how == "rate":
                m.rate(objs, ranks=[rng.randrange(3) for _ in objs])
            else:
                for t in objs:
                    for pl in t:
                        pl.mu = pl.mu + rng.uniform(-1, 1) * st["beta"]
                        pl.sigma = pl.sigma * rng.choice([0.5, 0.9, 1.5, 2.0])
            now = [[(pl.mu, pl.sigma) for pl in t] for t in objs]
            case["nums_now"] = now
            mon.case(case, True)
            if len(objs) >= 3 and k % 2 == 0:
                # the same model object is then shown a lobby with one team fewer (the same teams otherwise): nothing
                # remembered per pair of teams may be replayed in a lobby of another size
                objs, now = objs[:-1], now[:-1]
                case["then"] = "the last team leaves the lobby"
                case["nums_now"] = now
            for op in ops:
                got = f[op](objs)
                want = call_predict(op, kind, st, now, model=make_model(kind, st))
                if repr(got) != repr(want):
                    mon.fail("same rating objects after their values changed", case, "%s on the objects seen before: %s; on fresh objects with the same numbers: %s" % (
                        op, str(got)[:200], str(want)[:200]))
        except api.ImplRaised:
            raise
        except Exception as ex:  # noqa: BLE001
            mon.fail("same rating objects after their values changed", case, "%s: %s" % (type(ex).__name__, ex))


def mon_C09(rng, budget, tier):
    mon = Mon("C09")
    _same_objects_probe(mon, rng, ("pwin",), max(20, budget // 150))
    _free_running_predict_stress(mon, rng, ("pwin",), 2.5 if tier == "quick" else 10.0)
    i = 0
    while mon.evaluations < budget and not mon.full:
        kind = KINDS[i % 5]
        i += 1
        api.pool(i % 2 == 0)
        st, nums = _predict_game(rng)
        n = len(nums)
        share = rng.random() < 0.3
        # half of the time all calls of this iteration go through ONE model object (the same players, by id,
        # come back with other values / in another order): nothing may be remembered between calls
        one_model = make_model(kind, st) if i % 2 == 0 else None
        case = {"kind": kind, "st": st, "nums": nums, "share": share, "one_model_object": one_model is not None}
        mon.case(case, n > 2)
        p = call_predict("pwin", kind, st, nums, share=share, model=one_model)
        if len(p) != n:
            mon.fail("one number per team", case, "%d teams, %d probabilities" % (n, len(p)), p)
            continue
        if any(not (0.0 <= x <= 1.0) for x in p):
            mon.fail("range", case, "probability outside [0, 1]", p)
        if abs(math.fsum(p) - 1.0) > 1e-12:
            mon.fail("sums to one", case, "sum = %r" % math.fsum(p), p)
        # identical teams (as listed) get identical probabilities
        for a in range(n):
            for b in range(a + 1, n):
                if nums[a] == nums[b] and abs(p[a] - p[b]) > 1e-12:
                    mon.fail("identical teams", case, "teams %d and %d are identical: %r vs %r" % (a, b, p[a], p[b]))
        if n == 2 and nums[0] == nums[1] and (p[0] != 0.5 or p[1] != 0.5):
            mon.fail("two identical teams get exactly one half", case, repr(p))
        # permutation
        perm = list(range(n))
        rng.shuffle(perm)
        q = call_predict("pwin", kind, st, [nums[o] for o in perm], model=one_model)
        if len(q) == n and any(abs(q[new] - p[o]) > 1e-12 for new, o in enumerate(perm)):
            mon.fail("permutation", case, "perm %s: %s vs %s" % (perm, p, q))
        # monotonicity in one member's mu; slack: one rounding of Phi per opponent, of the division and the sum
        a = rng.randrange(n)
        j = rng.randrange(len(nums[a]))
        inc = rng.choice([1e-6, 1e-3, 0.1, 1.0, 5.0]) * st["beta"]
        up = [list(t) for t in nums]
        up[a][j] = (up[a][j][0] + inc, up[a][j][1])
        if one_model is not None:
            p = call_predict("pwin", kind, st, nums, model=one_model)
        q = call_predict("pwin", kind, st, up, model=one_model)
        sl = 4e-16 * n
        if q[a] < p[a] - sl:
            mon.fail("raising mu lowers own probability", case, "team %d player %d +%r: %r -> %r" % (a, j, inc, p[a], q[a]))
        for b in range(n):
            if b != a and q[b] > p[b] + sl:
                mon.fail("raising mu raises another team", case, "team %d player %d +%r: team %d %r -> %r" % (a, j, inc, b, p[b], q[b]))
    # the very same team list object entered at several positions (mirror matches, [team] * k)
    for it in range(min(400, budget // 5)):
        if mon.full:
            break
        kind = KINDS[it % 5]
        st, nums = _predict_game(rng)
        n = len(nums)
        if n < 3 and rng.random() < 0.7:
            nums = nums + [nums[0]]
            n += 1
        src = rng.randrange(n)
        dst = [j for j in range(n) if j != src and rng.random() < 0.5] or [(src + 1) % n]
        for j in dst:
            nums[j] = nums[src]
        alias = [(j, src) for j in dst]
        case = {"kind": kind, "st": st, "nums": nums, "alias": alias}
        mon.case(case)
        mon.count("aliased team objects")
        for op in ("pwin", "pdraw", "prank"):
            a = call_predict(op, kind, st, nums, alias=alias)
            b = call_predict(op, kind, st, nums)
            if repr(a) != repr(b):
                mon.fail("result depends on object identity of the team lists", case,
                         "%s with the same list object at positions %s: %r, with equal separate lists: %r" % (op, alias, a, b))
        p = call_predict("pwin", kind, st, nums, alias=alias)
        if abs(math.fsum(p) - 1.0) > 1e-12:
            mon.fail("sums to one", case, "sum = %r" % math.fsum(p), p)
    # predict_win calls on different games through ONE shared model, interleaved at attribute accesses
    for it in range(max(10, budget // 200)):
        if mon.full:
            break
        kind = KINDS[it % 5]
        st = gen.gen_state(rng)

        def mk(k, kind=kind, st=st):
            _, nums = _predict_game(rng)
            tv = teams_val(kind, nums)
            want = call_predict("pwin", kind, st, tv)

            def thunk(m, tv=tv):
                return m.predict_win(to_python(tv))

            def chk(r, want=want):
                if len(r) != len(want) or abs(math.fsum(r) - 1.0) > 1e-12:
                    return "sum = %r, %d values for %d teams" % (math.fsum(r), len(r), len(want))
                return None if all(abs(a - b) <= 1e-12 for a, b in zip(r, want)) else "values %s differ from the values of the same call alone %s" % (r, want)
            return thunk, chk, {"nums": nums}
        threads_probe(mon, rng, kind, st, mk, nthreads=rng.choice([2, 3]))
    # exactly-identical two-team games, many values
    for _ in range(min(200, budget // 10)):
        kind = rng.choice(KINDS)
        st, nums = _predict_game(rng, max_teams=2)
        nums = [nums[0], list(nums[0])]
        case = {"kind": kind, "st": st, "nums": nums, "twin": True}
        mon.case(case)
        p = call_predict("pwin", kind, st, nums, share=rng.random() < 0.5)
        if p != [0.5, 0.5]:
            mon.fail("two identical teams get exactly one half", case, repr(p))
    api.pool(False)
    return mon


# =====================================================================================================
# C10  predict_draw
def mon_C10(rng, budget, tier):
    mon = Mon("C10")
    _same_objects_probe(mon, rng, ("pdraw",), max(20, budget // 150))
    _free_running_predict_stress(mon, rng, ("pdraw",), 2.5 if tier == "quick" else 10.0)
    i = 0
    while mon.evaluations < budget and not mon.full:
        kind = KINDS[i % 5]
        i += 1
        api.pool(i % 2 == 0)
        st, nums = _predict_game(rng)
        if i % 7 == 0:
            nums = [[(mu, rng.choice([0.0, 1e-300, 1e-9]) * st["beta"]) for mu, _ in t] for t in nums]
        if i % 11 == 0:
            nums = [[(rng.uniform(-20, 20) * st["beta"], gen.logu(rng, 1e-4, 10) * st["beta"]) for _ in range(8)] for _ in range(rng.choice([2, 8]))]
        n = len(nums)
        case = {"kind": kind, "st": st, "nums": nums}
        mon.case(case, n > 2)
        d = call_predict("pdraw", kind, st, nums, share=rng.random() < 0.3)
        # the value 1 is attained mathematically (two one-player teams, equal mu, sigma = 0): the two band
        # probabilities are 0.5 each up to one rounding of Phi, so allow 4 ulp above 1 (DESIGN I7)
        if not (0.0 <= d <= 1.0 + 1e-15):
            mon.fail("range", case, "predict_draw = %r" % d)
        perm = list(range(n))
        rng.shuffle(perm)
        pn = [list(nums[o]) for o in perm]
        for t in pn:
            rng.shuffle(t)
        d2 = call_predict("pdraw", kind, st, pn)
        if abs(d - d2) > 1e-12:
            mon.fail("symmetric in team/player order", case, "%r vs %r after reordering %s" % (d, d2, perm))
        th = [math.fsum(mu for mu, _ in t) for t in nums]
        if n == 2:
            # widen the gap: move the stronger team's first player further up
            a = 0 if th[0] >= th[1] else 1
            inc = rng.choice([1e-3, 0.1, 1.0, 10.0]) * st["beta"]
            wide = [list(t) for t in nums]
            wide[a][0] = (wide[a][0][0] + inc, wide[a][0][1])
            d3 = call_predict("pdraw", kind, st, wide)
            if d3 > d + 4e-16:
                mon.fail("two teams: wider gap raises the draw probability", case, "gap +%r: %r -> %r" % (inc, d, d3))
        # equalise all team totals (sigmas unchanged): shift the first member of every team
        mean = math.fsum(th) / n
        eq = [list(t) for t in nums]
        for t in range(n):
            eq[t][0] = (eq[t][0][0] + (mean - th[t]), eq[t][0][1])
        d4 = call_predict("pdraw", kind, st, eq)
        # totals are equal only up to rounding of the shift: ~ ulp(theta)/s per pair in the argument of Phi
        if d4 < d - 1e-12:
            mon.fail("equalising the teams lowers the draw probability", case, "%r -> %r" % (d, d4))
    # predict_draw calls on games of different sizes through ONE shared model, interleaved at attribute accesses
    for it in range(max(10, budget // 200)):
        if mon.full:
            break
        kind = KINDS[it % 5]
        st = gen.gen_state(rng)

        def mk(k, kind=kind, st=st):
            _, nums = _predict_game(rng, max_teams=2 + 2 * k)
            tv = teams_val(kind, nums)
            perm = list(range(len(nums)))
            rng.shuffle(perm)
            tv2 = teams_val(kind, [nums[o] for o in perm])

            def thunk(m, tv=tv, tv2=tv2):
                return (m.predict_draw(to_python(tv)), m.predict_draw(to_python(tv2)))

            def chk(r):
                if not (0.0 <= r[0] <= 1.0 + 1e-15):
                    return "predict_draw = %r outside [0, 1]" % (r[0],)
                return None if abs(r[0] - r[1]) <= 1e-12 else "%r vs %r after reordering the teams" % r
            return thunk, chk, {"nums": nums, "perm": perm}
        threads_probe(mon, rng, kind, st, mk, nthreads=rng.choice([2, 3]))
    api.pool(False)
    return mon


# =====================================================================================================
# C11  predict_rank
def mon_C11(rng, budget, tier):
    mon = Mon("C11")
    _same_objects_probe(mon, rng, ("prank",), max(20, budget // 150))
    _free_running_predict_stress(mon, rng, ("prank",), 2.5 if tier == "quick" else 10.0)
    i = 0
    while mon.evaluations < budget and not mon.full:
        kind = KINDS[i % 5]
        i += 1
        api.pool(i % 2 == 0)
        st, nums = _predict_game(rng)
        n = len(nums)
        mode = i % 4
        if mode == 0 and n >= 2:      # exactly identical teams somewhere, in any position
            a, b = rng.sample(range(n), 2)
            nums[b] = list(nums[a])
            if n >= 4 and rng.random() < 0.5:
                c_, = rng.sample([x for x in range(n) if x not in (a, b)], 1)
                nums[c_] = list(nums[a])
        if mode in (2, 3) and n >= 2:      # two teams one or two ulps apart in one member's mu: their probabilities may come out
            # bit-equal (then they must share a rank) although nothing upstream of the final division is equal
            a, b = rng.sample(range(n), 2)
            tb = list(nums[a])
            j_ = rng.randrange(len(tb))
            mu_, sg_ = tb[j_]
            if rng.random() < 0.15:
                mu_ = mu_ * rng.choice([1e-2, 1e-4])
            tb[j_] = (math.nextafter(mu_, math.inf) if rng.random() < 0.5 else math.nextafter(math.nextafter(mu_, -math.inf), -math.inf), sg_)
            nums[a] = [(mu_ if jj == j_ else m_, s_) for jj, (m_, s_) in enumerate(nums[a])]
            nums[b] = tb
            if rng.random() < 0.15:
                # a whole lobby of near-copies: every team is team a with one member's mu moved by -2 .. +2 ulps
                base = list(nums[a])
                for q in range(n):
                    tq = list(base)
                    m_, s_ = tq[j_]
                    for _ in range(abs(d_ := rng.randint(-2, 2))):
                        m_ = math.nextafter(m_, math.inf if d_ > 0 else -math.inf)
                    tq[j_] = (m_, s_)
                    nums[q] = tq
        share = rng.random() < 0.3
        case = {"kind": kind, "st": st, "nums": nums, "share": share}
        mon.case(case, n > 2)
        r = call_predict("prank", kind, st, nums, share=share)
        if len(r) != n:
            mon.fail("one pair per team", case, "%d teams, %d pairs" % (n, len(r)), r)
            continue
        ranks = [x[0] for x in r]
        probs = [x[1] for x in r]
        if any(not isinstance(k, int) or isinstance(k, bool) or not (1 <= k <= n) for k in ranks):
            mon.fail("ranks are integers in 1..n", case, repr(ranks))
            continue
        if any(not (0.0 <= p <= 1.0) for p in probs):
            mon.fail("probabilities in [0, 1]", case, repr(probs))
        for a in range(n):
            for b in range(n):
                if probs[a] > probs[b] and not ranks[a] < ranks[b]:
                    mon.fail("larger probability, better rank", case, "teams %d,%d: probs %r,%r ranks %d,%d" % (a, b, probs[a], probs[b], ranks[a], ranks[b]))
                if probs[a] == probs[b] and ranks[a] != ranks[b]:
                    mon.fail("equal probabilities share a rank", case, "teams %d,%d: prob %r ranks %d,%d" % (a, b, probs[a], ranks[a], ranks[b]))
        if ranks[probs.index(max(probs))] != 1:
            mon.fail("most likely team has rank 1", case, "%s %s" % (ranks, probs))
        if n >= 3:
            d = call_predict("pdraw", kind, st, nums)
            tot = math.fsum(probs) + d
            if abs(tot - 1.0) > 1e-9:
                mon.fail("rank probabilities + draw = 1", case, "sum %r + draw %r = %r" % (math.fsum(probs), d, tot))
    api.pool(False)
    return mon


# =====================================================================================================
# C12  closed forms, evaluated independently (textbook formulas, erfc-based Phi, Phi^-1 by Newton+bisection)
def _Phi(x):
    return 0.5 * math.erfc(-x / math.sqrt(2.0))


def _Phi_inv(p):
    lo, hi = -40.0, 40.0
    for _ in range(200):
        mid = 0.5 * (lo + hi)
        if _Phi(mid) < p:
            lo = mid
        else:
            hi = mid
    return 0.5 * (lo + hi)


def spec_predict(st, nums):
    """(win, draw, rank_probs) from the documented formulas"""
    n = len(nums)
    N = sum(len(t) for t in nums)
    b2 = st["beta"] ** 2
    th = [math.fsum(mu for mu, _ in t) for t in nums]
    var = [math.fsum(sg * sg for _, sg in t) for t in nums]
    margin = math.sqrt(N) * st["beta"] * _Phi_inv((1 + 1 / N) / 2)
    if n == 2:
        p = _Phi((th[0] - th[1]) / math.sqrt(N * b2 + var[0] + var[1]))
        win = [p, 1 - p]
    else:
        win = [math.fsum(_Phi((th[a] - th[b]) / math.sqrt(n * b2 + var[a] + var[b])) for b in range(n) if b != a) / (n * (n - 1) / 2)
               for a in range(n)]
    rank = [math.fsum(_Phi((th[a] - th[b] - margin) / math.sqrt(n * b2 + var[a] + var[b])) for b in range(n) if b != a) / (n * (n - 1) / 2)
            for a in range(n)]
    band = math.fsum(_Phi((margin - (th[a] - th[b])) / math.sqrt(n * b2 + var[a] + var[b]))
                     - _Phi((-margin - (th[a] - th[b])) / math.sqrt(n * b2 + var[a] + var[b]))
                     for a in range(n) for b in range(n) if a != b)
    draw = band if n == 2 else band / (n * (n - 1))
    return win, draw, rank


def mon_C12(rng, budget, tier):
    mon = Mon("C12")
    # the closed forms also hold for calls made from several threads on one shared model object (different lobbies at once)
    for it in range(max(5, budget // 400)):
        if mon.full:
            break
        kind = KINDS[it % 5]
        st = gen.gen_state(rng)

        def mk(k, kind=kind, st=st):
            _, nums = _predict_game(rng, max_teams=5)
            tv = teams_val(kind, nums)
            op = ("pwin", "pdraw", "prank")[(it + k) % 3]
            want = call_predict(op, kind, st, tv, model=make_model(kind, st))

            def thunk(m, tv=tv, op=op):
                return {"pwin": m.predict_win, "pdraw": m.predict_draw, "prank": m.predict_rank}[op](to_python(tv))

            def chk(r, want=want, op=op):
                return None if repr(r) == repr(want) else "%s returned %s, the same call alone %s" % (op, str(r)[:200], str(want)[:200])
            return thunk, chk, {"op": op, "nums": nums}
        threads_probe(mon, rng, kind, st, mk, nthreads=rng.choice([2, 3]))
    i = 0
    betas_seen = set()
    while mon.evaluations < budget and not mon.full:
        kind = KINDS[i % 5]
        i += 1
        api.pool(i % 2 == 0)
        st, nums = _predict_game(rng)
        n = len(nums)
        betas_seen.add(st["beta"])
        case = {"kind": kind, "st": st, "nums": nums}
        mon.case(case, n > 2 or sum(len(t) for t in nums) > 2)
        win, draw, rank = spec_predict(st, nums)
        pw = call_predict("pwin", kind, st, nums)
        pd = call_predict("pdraw", kind, st, nums)
        pr = call_predict("prank", kind, st, nums)
        if len(pw) != n or any(abs(a - b) > 1e-9 for a, b in zip(pw, win)):
            mon.fail("predict_win closed form", case, "impl %s / formula %s" % (pw, win))
        if abs(pd - draw) > 1e-9:
            mon.fail("predict_draw closed form", case, "impl %r / formula %r" % (pd, draw))
        if len(pr) != n or any(abs(a[1] - b) > 1e-9 for a, b in zip(pr, rank)):
            mon.fail("predict_rank closed form", case, "impl %s / formula %s" % ([a[1] for a in pr], rank))
    # the same model object and the SAME rating objects seen again after their values changed (rate() writes into
    # the passed objects; users assign .mu/.sigma), and the same list object at several positions
    j = 0
    while j < max(40, budget // 10) and not mon.full:
        kind = KINDS[j % 5]
        j += 1
        st, nums = _predict_game(rng)
        n = len(nums)
        m = make_model(kind, st)
        objs = to_python(teams_val(kind, nums))
        alias = []
        if j % 3 == 0 and n >= 3:
            a_, b_ = rng.sample(range(n), 2)
            objs[b_] = objs[a_]
            nums[b_] = nums[a_]
            alias = [(b_, a_)]
        try:
            m.predict_win(objs), m.predict_draw(objs), m.predict_rank(objs)
            step = rng.choice(["assign", "rate", "assign"])
            if step == "rate" and not alias and not (st["tau"] > 0 or all(sg > 0 for t in nums for _, sg in t)):
                step = "assign"     # sigma = 0 with tau = 0 is outside rate()'s domain
            if step == "rate" and not alias:
                m.rate(objs, ranks=[rng.randrange(3) for _ in range(n)])
            else:
                for t in {id(t): t for t in objs}.values():
                    for pl in t:
                        pl.mu = pl.mu + rng.uniform(-1, 1) * st["beta"]
                        pl.sigma = pl.sigma * rng.choice([0.5, 0.9, 1.5])
            nums2 = [[(pl.mu, pl.sigma) for pl in t] for t in objs]
            case = {"kind": kind, "st": st, "nums_before": nums, "nums_now": nums2, "sequence": ["predict_*", step, "predict_*"],
                    "same_list_object_at": alias}
            mon.case(case)
            mon.count("sequence on the same objects")
            win, draw, rank = spec_predict(st, nums2)
            pw, pd, pr = m.predict_win(objs), m.predict_draw(objs), m.predict_rank(objs)
        except Exception as ex:  # noqa: BLE001
            mon.fail("valid call raised", {"kind": kind, "st": st, "nums": nums}, "%s: %s" % (type(ex).__name__, ex))
            continue
        if len(pw) != n or any(abs(a - b) > 1e-9 for a, b in zip(pw, win)):
            mon.fail("predict_win closed form", case, "impl %s / formula %s" % (pw, win))
        if abs(pd - draw) > 1e-9:
            mon.fail("predict_draw closed form", case, "impl %r / formula %r" % (pd, draw))
        if len(pr) != n or any(abs(a[1] - b) > 1e-9 for a, b in zip(pr, rank)):
            mon.fail("predict_rank closed form", case, "impl %s / formula %s" % ([a[1] for a in pr], rank))
    mon.count("distinct betas in one process", len(betas_seen))
    api.pool(False)
    return mon


# =====================================================================================================
# C13  malformed calls
def mon_C13(rng, budget, tier):
    mon = Mon("C13")
    cases = suites.suite_validate(rng, n=None if tier == "thorough" else budget, exhaustive=(tier == "thorough"))
    # the same grammar on top of non-default model settings (so that a rejected call that mutates is visible)
    for c in cases:
        if rng.random() < 0.5:
            c["st"] = gen.gen_state(rng)
    for c in cases:
        if mon.full:
            break
        exp = c.pop("expect")
        show = {k: v for k, v in c.items()}
        mon.case(show, exp == "reject")
        mon.count("expect:" + str(exp))
        o = impl.run_case(c)
        e = o.get("exc")
        if exp == "reject":
            if e not in ("TypeError", "ValueError"):
                mon.fail("malformed call not rejected with TypeError/ValueError", show,
                         "outcome: %s %s" % ("normal return" if e is None else e, o.get("_msg", "")))
                continue
            teams = c["args"][0]
            changed = []
            if o.get("mut"):
                changed.append("rating fields written: %s" % o["mut"][:4])
            if o.get("wr"):
                changed.append("model attributes written: %s" % o["wr"][:4])
            if not o.get("dict_same", True):
                changed.append("model __dict__ differs after the call")
            if o.get("mut_other"):
                changed.append("other rating fields written: %s" % o["mut_other"][:4])
            if changed:
                mon.fail("rejected call had side effects", show, "; ".join(changed))
        elif exp == "accept":
            if e is not None:
                mon.fail("well-formed call rejected", show, "%s: %s" % (e, o.get("_msg")))
    return mon


# =====================================================================================================
# C14  statelessness
class _Sched:
    """Deterministic interleaving of real threads at shared-attribute accesses: thread k may pass an
    access point only when the schedule's next entry is k."""

    def __init__(self, schedule, nthreads):
        self.schedule = list(schedule)
        self.pos = 0
        self.cv = threading.Condition()
        self.done = [False] * nthreads

    def point(self, k):
        with self.cv:
            while True:
                # skip entries of finished threads
                while self.pos < len(self.schedule) and self.done[self.schedule[self.pos]]:
                    self.pos += 1
                if self.pos >= len(self.schedule) or self.schedule[self.pos] == k:
                    if self.pos < len(self.schedule):
                        self.pos += 1
                    self.cv.notify_all()
                    return
                if not self.cv.wait(timeout=5.0):
                    # schedule cannot be followed (thread blocked elsewhere): let it through
                    self.cv.notify_all()
                    return

    def finish(self, k):
        with self.cv:
            self.done[k] = True
            self.cv.notify_all()


_tls = threading.local()


def _sched_model(kind, st):
    base = MODEL[kind]

    class SModel(base):
        def __getattribute__(self, k):
            if k in impl.DATA_ATTRS:
                s = getattr(_tls, "sched", None)
                if s is not None:
                    s[0].point(s[1])
            return object.__getattribute__(self, k)

        def __setattr__(self, k, v):
            s = getattr(_tls, "sched", None)
            if s is not None:
                s[0].point(s[1])
            object.__setattr__(self, k, v)
    SModel.__name__ = base.__name__
    kw = dict(mu=st["mu"], sigma=st["sigma"], beta=st["beta"], kappa=st["kappa"], tau=st["tau"], limit_sigma=st["limit"])
    g = impl.gamma_of_tag(st["gamma"], kind)
    if g is not None:
        kw["gamma"] = g
    return SModel(**kw)


def run_interleaved(kind, st, thunks, schedule):
    """run thunks[k](model) in one thread each on ONE shared model object, switching threads only at accesses to the
    model's attributes, in the order given by schedule; returns the list of results (or 'EXC ...' strings)"""
    m = _sched_model(kind, st)
    n = len(thunks)
    sch = _Sched(schedule, n)
    out = [None] * n

    def work(k):
        _tls.sched = (sch, k)
        try:
            out[k] = thunks[k](m)
        except Exception as ex:  # noqa: BLE001
            out[k] = "EXC %s: %s" % (type(ex).__name__, ex)
        finally:
            _tls.sched = None
            sch.finish(k)
    ths = [threading.Thread(target=work, args=(k,)) for k in range(n)]
    for t in ths:
        t.start()
    for t in ths:
        t.join(30)
    return out


def threads_probe(mon, rng, kind, st, mk_thunk_and_check, nthreads=2, nsched=4):
    """mk_thunk_and_check(k) -> (thunk(model) -> result, check(result) -> None or failure text, description).
    Each thunk runs alone first (its own check must pass there), then all run interleaved under random schedules and
    each result is judged by the same check."""
    items = [mk_thunk_and_check(k) for k in range(nthreads)]
    for th, chk, desc in items:
        r = th(make_model(kind, st))
        if chk(r) is not None:
            return            # judged by the sequential part of the monitor
    for _ in range(nsched):
        schedule = [rng.randrange(nthreads) for _ in range(60)]
        outs = run_interleaved(kind, st, [it[0] for it in items], schedule)
        case = {"kind": kind, "st": st, "threads": [it[2] for it in items], "schedule": schedule}
        mon.case(case)
        mon.count("interleaved calls on one model")
        for k, (th, chk, desc) in enumerate(items):
            bad = ("raised: " + outs[k]) if isinstance(outs[k], str) and outs[k].startswith("EXC") else chk(outs[k])
            if bad is not None:
                mon.fail("under concurrent calls on one shared model: " + str(bad)[:80], case,
                         "thread %d (%s): %s" % (k, str(desc)[:200], str(bad)[:300]))
                return


def _do_call(m, kind, call):
    try:
        return _do_call_raw(m, kind, call)
    except Exception as e:  # noqa: BLE001
        raise api.ImplRaised({"kind": kind, "call": call}, e) from e


def _do_call_raw(m, kind, call):
    op = call["op"]
    objs = to_python(call["teams"])
    for j_, i_ in call.get("alias", []):
        objs[j_] = objs[i_]
    if op == "rate":
        kw = {}
        for nm, key in (("ranks", "ranks"), ("tau", "tau"), ("limit_sigma", "lim")):
            if call.get(key, OMIT) != OMIT:
                kw[nm] = to_python(call[key])
        r = m.rate(objs, **kw)
        return [[(hx(p.mu), hx(p.sigma)) for p in t] for t in r]
    f = {"pwin": m.predict_win, "pdraw": m.predict_draw, "prank": m.predict_rank}[op]
    r = f(objs)
    return repr(r)


def _random_call(rng, kind, st, id_pool=None):
    shape = gen.gen_shape(rng, max_teams=4, max_size=3)
    nums = gen.gen_teams_num(rng, st, shape, ints=False)
    nums = [[(mu, sg if sg > 0 else st["beta"]) for mu, sg in t] for t in nums]
    op = rng.choice(["rate", "rate", "rate", "pwin", "pdraw", "prank"])
    cnt = sum(len(t) for t in nums)
    if id_pool is not None and cnt <= len(id_pool):
        ids = rng.sample(id_pool, cnt)      # the same players (ids) come back with other (mu, sigma) values
    else:
        ids = [gen.fresh_id() for _ in range(cnt)]
    call = {"op": op, "teams": teams_val(kind, nums, ids=ids)}
    if op != "rate" and len(nums) >= 3 and rng.random() < 0.15:
        a_, b_ = rng.sample(range(len(nums)), 2)
        call["teams"][1][b_] = call["teams"][1][a_]
        call["alias"] = [(b_, a_)]       # the same list object at two positions
    if op == "rate":
        call["ranks"] = ("L", [("I", r) for r in gen.random_weak_order(rng, len(shape))])
        tau, lim = gen.gen_percall(rng, st)
        call["tau"] = OMIT if tau[0] == "B" else tau
        call["lim"] = lim
    return call


def mon_C14(rng, budget, tier):
    mon = Mon("C14")
    i = 0
    fresh_jobs, fresh_got = [], []
    # (a) no call changes any attribute of the model; (b) history independence
    while mon.evaluations < budget // 2 and not mon.full:
        kind = KINDS[i % 5]
        i += 1
        st = gen.gen_state(rng)
        m = make_model(kind, st)
        pool = [900_000 + x for x in range(12)] if i % 2 == 0 else None
        probe = _random_call(rng, kind, st, pool)
        alone = _do_call(make_model(kind, st), kind, probe)
        hist = [_random_call(rng, kind, st, pool) for _ in range(rng.randint(1, 5))]
        if i % 3 == 0:
            # the same line-up (same ids, same shape) seen earlier with other numbers
            h0 = dict(probe)
            nums0 = nums_of(probe["teams"])
            ids0 = [p[4] for t in probe["teams"][1] for p in t[1]]
            h0["teams"] = teams_val(kind, [[(mu + st["beta"], sg * 1.5) for mu, sg in t] for t in nums0], ids=ids0)
            hist.append(h0)
        fresh_jobs.append((kind, st, probe))
        # a second model object with another beta making the same kind of calls first (shared caches)
        other = dict(st)
        other["beta"] = st["beta"] * rng.choice([0.5, 2.0, 3.0])
        m2 = make_model(kind, other)
        for h in hist:
            before = impl.snapshot(m)
            try:
                _do_call(m2, kind, h)
            except Exception:  # noqa: BLE001
                pass
            _do_call(m, kind, h)
            after = impl.snapshot(m)
            case = {"clause": "state", "kind": kind, "st": st, "call": h}
            mon.case(case)
            if set(before) != set(after) or any(before[k] is not after[k] and before[k] != after[k] for k in before):
                diff = {k: (before.get(k), after.get(k)) for k in set(before) | set(after) if before.get(k) != after.get(k)}
                mon.fail("a call changed a model attribute", case, repr(diff))
        case = {"clause": "history", "kind": kind, "st": st, "probe": probe, "history": hist}
        mon.case(case)
        after_hist = _do_call(m, kind, probe)
        fresh_got.append((case, after_hist))
        if after_hist != alone:
            mon.fail("result depends on earlier calls", case, "alone %s / after history %s" % (str(alone)[:300], str(after_hist)[:300]))
    # (b') the same probes, each evaluated in a pristine interpreter state (modules re-imported): catches state kept
    # outside the model object (module-level caches shared between model objects)
    if fresh_jobs and not mon.full:
        fresh = fresh_eval(fresh_jobs)
        for (case, got), want in zip(fresh_got, fresh):
            mon.case({"clause": "fresh-interpreter", "probe": case["probe"], "kind": case["kind"]})
            if want is not None and got != want:
                mon.fail("result depends on earlier calls", case,
                         "in a fresh interpreter %s / in this process after other calls %s" % (str(want)[:300], str(got)[:300]))
                break
    # (c) ids, names, identity
    while mon.evaluations < (budget * 3) // 4 and not mon.full:
        kind = KINDS[i % 5]
        i += 1
        st = gen.gen_state(rng)
        call = _random_call(rng, kind, st)
        if i % 2 == 0:
            call["lim"] = ("B", True)
        base = _do_call(make_model(kind, st), kind, call)
        nums = nums_of(call["teams"])
        cnt = sum(len(t) for t in nums)
        for variant in ("same-id", "shuffled-ids", "names", "reversed-ids"):
            if variant == "same-id":
                ids, names = [7] * cnt, None
            elif variant == "shuffled-ids":
                ids = list(range(100, 100 + cnt))
                rng.shuffle(ids)
                names = None
            elif variant == "reversed-ids":
                ids, names = list(range(cnt, 0, -1)), None
            else:
                ids, names = None, [rng.choice([None, (True, 3), (False, 4)]) for _ in range(cnt)]
            c2 = dict(call)
            c2["teams"] = teams_val(kind, nums, ids=ids, names=names)
            case = {"clause": "ids/names", "kind": kind, "st": st, "call": c2, "variant": variant}
            mon.case(case)
            got = _do_call(make_model(kind, st), kind, c2)
            if got != base:
                mon.fail("numbers depend on rating ids or names", case, "base %s / %s %s" % (str(base)[:300], variant, str(got)[:300]))
    # (d) thread interleavings, replayed deterministically at shared-attribute accesses
    while mon.evaluations < budget and not mon.full:
        kind = KINDS[i % 5]
        i += 1
        st = gen.gen_state(rng)
        nthreads = rng.choice([2, 2, 3])
        calls = [_random_call(rng, kind, st) for _ in range(nthreads)]
        for c_ in calls:
            if c_["op"] == "rate" and rng.random() < 0.7:
                c_["lim"] = rng.choice([("B", True), ("B", False), OMIT])
        seq = [_do_call(make_model(kind, st), kind, c_) for c_ in calls]
        nsched = 6 if tier == "quick" else 30
        for _ in range(nsched):
            schedule = [rng.randrange(nthreads) for _ in range(40)]
            case = {"clause": "threads", "kind": kind, "st": st, "calls": calls, "schedule": schedule}
            mon.case(case)
            m = _sched_model(kind, st)
            sch = _Sched(schedule, nthreads)
            out = [None] * nthreads

            def work(k):
                _tls.sched = (sch, k)
                try:
                    out[k] = _do_call(m, kind, calls[k])
                except Exception as ex:  # noqa: BLE001
                    out[k] = "EXC %s: %s" % (type(ex).__name__, ex)
                finally:
                    _tls.sched = None
                    sch.finish(k)
            ths = [threading.Thread(target=work, args=(k,)) for k in range(nthreads)]
            for t in ths:
                t.start()
            for t in ths:
                t.join(30)
            if out != seq:
                bad = [k for k in range(nthreads) if out[k] != seq[k]]
                mon.fail("threads: result differs from the sequential result", case,
                         "thread(s) %s: sequential %s / interleaved %s" % (bad, str([seq[k] for k in bad])[:300], str([out[k] for k in bad])[:300]))
                break
    # (e) first calls of a process, interleaved: in a pristine interpreter thread A makes the process's FIRST call; at every
    # source line of A inside the library the process is forked and, in the copy, a second thread B makes ITS first call
    # through the same model object while A stands still (the schedule "A up to line k, then B to completion").  State
    # built lazily on first use and published before it is complete (module- or class-level tables, caches) is visible to
    # B only in that window, once per process - which a long-lived stress process never sees.
    if not mon.full:
        njobs = 20 if tier == "quick" else 120
        jobs = []
        for j in range(njobs):
            kind = KINDS[j % 5]
            variant = (j // 5) % 4      # 0: any call twice; 1: a prediction on >= 3 teams twice; 2: two unrelated calls; 3: two different predictions of one game
            st = gen.gen_state(rng)
            a = _random_call(rng, kind, st)
            if variant in (1, 3):
                for _ in range(20):
                    if len(a["teams"][1]) >= 3:
                        break
                    a = _random_call(rng, kind, st)
                a["op"] = ("pwin", "pdraw", "prank")[(j // 20 + j // 5 + j) % 3]
                for k_ in ("ranks", "tau", "lim"):
                    a.pop(k_, None)
            b = _random_call(rng, kind, st) if variant == 2 else copy.deepcopy(a)
            if variant == 3:
                b["op"] = {"pwin": "prank", "pdraw": "pwin", "prank": "pdraw"}[a["op"]]
            jobs.append((kind, st, a, b))
        seqs = [(_do_call(make_model(kind, st), kind, a), _do_call(make_model(kind, st), kind, b)) for kind, st, a, b in jobs]
        got = first_call_eval(jobs)
        for (kind, st, a, b), (sa, sb), g in zip(jobs, seqs, got):
            case = {"clause": "first-call interleaving", "kind": kind, "st": st, "callA": a, "callB": b}
            mon.case(case)
            if g is None:
                continue
            mon.count("first-call injection points", g["points"])
            mon.count("first-call injection points not explored (B blocked, or no fork)", g["blocked"])
            if g["A"] != sa:
                mon.fail("threads: result differs from the sequential result", case,
                         "thread A (first call of a fresh process, B interleaved): sequential %s / interleaved %s" % (str(sa)[:300], str(g["A"])[:300]))
            bad = [(k, w, r) for k, w, r in g["B"] if r != sb]
            if bad:
                k, w, r = bad[0]
                case = dict(case, inject_after_line_event=k, where=w)
                mon.fail("threads: result differs from the sequential result", case,
                         "thread B making its first call while A (first call of a fresh process) stands at %s: sequential %s / interleaved %s"
                         % (w, str(sb)[:300], str(r)[:300]))
            if mon.full:
                break
    return mon


_FIRSTCALL_SCRIPT = r"""
import sys, os, pickle, threading
sys.path.insert(0, %(harness)r)
from osv import impl, monitors
kind, st, a, b = pickle.load(open(%(job)r, "rb"))
m = impl.make_model(kind, st)
def run_b(res):
    try:
        res["r"] = monitors._do_call(m, kind, b)
    except Exception as ex:
        res["r"] = "EXC %%s: %%s" %% (type(ex).__name__, ex)
def b_in_fork():
    # the process is forked while A stands between two lines; in the copy a second thread runs B's whole call (A never
    # resumes there), so B sees exactly the shared state A has built so far and A's own run is left undisturbed
    r, w = os.pipe()
    try:
        pid = os.fork()
    except OSError:        # no process to be had just now: this point is not explored (counted with the blocked ones)
        os.close(r); os.close(w)
        return "__BLOCKED__"
    if pid == 0:
        try:
            os.close(r)
            res = {}
            t = threading.Thread(target=run_b, args=(res,), daemon=True)
            t.start(); t.join(20)
            os.write(w, pickle.dumps(res.get("r", "__BLOCKED__")))
        finally:
            os._exit(0)
    os.close(w)
    data = b""
    while True:
        chunk = os.read(r, 1 << 16)
        if not chunk:
            break
        data += chunk
    os.close(r); os.waitpid(pid, 0)
    return pickle.loads(data) if data else "__BLOCKED__"
bres, npoints, nblocked, last = [], [0], [0], [None]
LIB = os.sep + "openskill" + os.sep
def local(frame, event, arg):
    if event == "line" and npoints[0] < %(cap)d:
        npoints[0] += 1
        r = b_in_fork()
        if r == "__BLOCKED__":
            nblocked[0] += 1      # B waits for something A holds: not a schedule in which B completes here
        elif r != last[0]:
            last[0] = r
            bres.append((npoints[0], "%%s:%%d" %% (os.path.basename(frame.f_code.co_filename), frame.f_lineno), r))
    return local
def tracer(frame, event, arg):
    return local if LIB in frame.f_code.co_filename else None
sys.settrace(tracer)
try:
    try:
        ra = monitors._do_call(m, kind, a)
    except Exception as ex:
        ra = "EXC %%s: %%s" %% (type(ex).__name__, ex)
finally:
    sys.settrace(None)
pickle.dump({"A": ra, "B": bres, "points": npoints[0], "blocked": nblocked[0]}, open(%(out)r, "wb"))
"""


def first_call_eval(jobs):
    """one pristine interpreter per job: A's first call traced line by line, a whole call of B between every two lines"""
    import pickle
    import shutil
    import tempfile
    from concurrent.futures import ThreadPoolExecutor
    d = tempfile.mkdtemp(dir=os.environ.get("OSV_WORK"))

    def one(ij):
        i, job = ij
        jp, op_ = os.path.join(d, "job%d.pkl" % i), os.path.join(d, "out%d.pkl" % i)
        pickle.dump(job, open(jp, "wb"))
        code = _FIRSTCALL_SCRIPT % {"harness": os.path.dirname(os.path.dirname(__file__)), "job": jp, "out": op_, "cap": 4000}
        p = subprocess.run([sys.executable, "-c", code], capture_output=True, text=True, timeout=600)
        if p.returncode != 0 or not os.path.exists(op_):
            raise RuntimeError("first-call interpreter failed: " + p.stderr[-500:])
        return pickle.load(open(op_, "rb"))
    try:
        with ThreadPoolExecutor(max_workers=4) as ex:
            return list(ex.map(one, enumerate(jobs)))
    finally:
        shutil.rmtree(d, ignore_errors=True)


_FRESH_SCRIPT = r"""
import sys, json, pickle
sys.path.insert(0, %(harness)r)
jobs = pickle.load(open(%(jobs)r, "rb"))
out = []
for kind, st, call in jobs:
    for m_ in [m for m in sys.modules if m == "openskill" or m.startswith("openskill.") or m.startswith("osv")]:
        del sys.modules[m_]
    from osv import impl, monitors
    try:
        out.append(monitors._do_call(impl.make_model(kind, st), kind, call))
    except Exception as e:
        out.append(None)
json.dump(out, open(%(out)r, "w"))
"""


def fresh_eval(jobs):
    """evaluate each (kind, state, call) with freshly imported library modules, in a separate process"""
    import json
    import pickle
    import tempfile
    d = tempfile.mkdtemp(dir=os.environ.get("OSV_WORK"))
    try:
        jp, op_ = os.path.join(d, "jobs.pkl"), os.path.join(d, "out.json")
        pickle.dump(jobs, open(jp, "wb"))
        code = _FRESH_SCRIPT % {"harness": os.path.dirname(os.path.dirname(__file__)), "jobs": jp, "out": op_}
        p = subprocess.run([sys.executable, "-c", code], capture_output=True, text=True, timeout=1200)
        if p.returncode != 0 or not os.path.exists(op_):
            raise RuntimeError("fresh interpreter failed: " + p.stderr[-500:])
        res = json.load(open(op_))
        return [None if r is None else (r if isinstance(r, str) else [[tuple(x) for x in t] for t in r]) for r in res]
    finally:
        import shutil
        shutil.rmtree(d, ignore_errors=True)


_HASHSEED_SCRIPT = r"""
import sys, random, hashlib
sys.path.insert(0, %(harness)r)
from osv import gen, impl, monitors
rng = random.Random(%(seed)d)
h = hashlib.sha256()
for i in range(%(n)d):
    kind = gen.KINDS[i %% 5]
    st = gen.gen_state(rng)
    call = monitors._random_call(rng, kind, st)
    h.update(repr(monitors._do_call(impl.make_model(kind, st), kind, call)).encode())
print(h.hexdigest())
"""


def hashseed_digests(seed, n, seeds=(0, 1, 4242)):
    out = {}
    for hs in seeds:
        env = dict(os.environ, PYTHONHASHSEED=str(hs))
        code = _HASHSEED_SCRIPT % {"harness": os.path.dirname(os.path.dirname(__file__)), "seed": seed, "n": n}
        p = subprocess.run([sys.executable, "-c", code], env=env, capture_output=True, text=True, timeout=600)
        out[hs] = p.stdout.strip() or ("ERR " + p.stderr[-300:])
    return out


# =====================================================================================================
# C15  per-call tau / limit_sigma
def mon_C15(rng, budget, tier):
    mon = Mon("C15")
    i = 0
    while mon.evaluations < budget and not mon.full:
        kind = KINDS[i % 5]
        i += 1
        api.pool(i % 2 == 0)
        c = _valid_rate_case(rng, kind=kind)
        teams, ranks, scores, _, _ = c["args"]
        st = c["st"]
        if i % 8 == 0:
            # the equivalence of per-call and model-level options holds for EVERY configuration (C15_tau / C15_limit
            # assume nothing about the parameters), also ones under which sigma rises: kappa > 1, a negative gamma
            st = dict(st, kappa=rng.choice([1.5, 4.0, st["kappa"]]), gamma=rng.choice(["gc:" + (-1.0).hex(), "gc:" + (-0.25).hex(), st["gamma"]]))
        nums = [[(mu, sg if sg > 0 else st["beta"]) for mu, sg in t] for t in nums_of(teams)]
        if i % 3 == 0:   # players whose sigma would rise: small sigma, large tau
            nums = [[(mu, gen.logu(rng, 1e-3, 0.3) * st["beta"]) for mu, _ in t] for t in nums]
        if i % 7 == 0:   # a player of sigma 0 beside team-mates of positive sigma: valid for every tau, 0 included
            multi = [ti for ti, t in enumerate(nums) if len(t) >= 2]
            if multi:
                z = rng.choice(multi)
                j = rng.randrange(len(nums[z]))
                nums[z] = [(mu, 0.0 if jj == j else sg) for jj, (mu, sg) in enumerate(nums[z])]
        beta = st["beta"]
        # two of the taus are doubles with t ** 2 != t * t: only those tell a per-call path that squares tau one way from
        # a model-level path that squares it the other way
        for t in [("I", 0), ("F", 0.0), ("F", 1e-200 * beta), ("F", 1e-9 * beta), ("F", beta / 50.0), ("F", 3.0 * beta),
                  ("F", gen.pow_sensitive(rng, 0.01 * beta, 2 * beta)), ("F", gen.pow_sensitive(rng, 2 * beta, 400 * beta)),
                  ("F", rng.uniform(0, 10) * beta)]:
            for b in [OMIT, ("B", True), ("B", False)]:
                case = {"kind": kind, "st": st, "nums": nums, "ranks": ranks, "scores": scores, "tau": t, "lim": b}
                mon.case(case, True)
                percall = hexnums(rate_nums(kind, st, nums, ranks=ranks, scores=scores, tau=t, lim=b))
                st2 = dict(st)
                st2["tau"] = float(t[1])
                if b != OMIT:
                    st2["limit"] = b[1]
                level = hexnums(rate_nums(kind, st2, nums, ranks=ranks, scores=scores))
                if percall != level:
                    mon.fail("per-call option differs from the model-level setting", case,
                             "rate(..., tau=%r, limit_sigma=%r) on a model with tau=%r limit_sigma=%r gives %s; a model "
                             "constructed with those settings gives %s" % (t[1], b[1] if b != OMIT else "omitted", st["tau"],
                                                                            st["limit"], str(percall)[:300], str(level)[:300]))
        # omitted entirely = model's own setting (compared with passing the model's values explicitly)
        case = {"kind": kind, "st": st, "nums": nums, "ranks": ranks, "scores": scores, "omitted": True}
        mon.case(case, True)
        a = hexnums(rate_nums(kind, st, nums, ranks=ranks, scores=scores))
        b_ = hexnums(rate_nums(kind, st, nums, ranks=ranks, scores=scores, tau=("F", st["tau"]), lim=("B", st["limit"])))
        if a != b_:
            mon.fail("omitted options differ from the model's own settings passed explicitly", case, "%s / %s" % (str(a)[:300], str(b_)[:300]))
        # on ONE model object: calls with per-call options (accepted, or rejected for malformed ranks) followed by a
        # call that omits them must still use the model's own settings
        if i % 2 == 0 and not mon.full:
            m = make_model(kind, st)
            seq = []
            for _ in range(rng.randint(1, 3)):
                t = rng.choice([("I", 0), ("F", 1e-9 * beta), ("F", 3.0 * beta)])
                b = rng.choice([("B", True), ("B", False)])
                r_ = rng.random()
                bad = r_ < 0.3
                boom = 0.3 <= r_ < 0.55      # valid arguments, but numbers far outside the supported range: may raise inside the update
                rk = ("L", [("S", True)] * len(nums)) if bad else ranks
                sc = OMIT if bad else scores
                nn = [[(1e9 * beta * (1 if ti % 2 else -1), sg) for _, sg in t_] for ti, t_ in enumerate(nums)] if boom else nums
                seq.append({"tau": t, "lim": b, "rejected": bad, "out_of_range_numbers": boom})
                try:
                    call_rate(kind, st, nn, ranks=rk, scores=sc, tau=t, lim=b, model=m)
                except Exception:  # noqa: BLE001
                    pass
            case = {"kind": kind, "st": st, "nums": nums, "ranks": ranks, "scores": scores, "earlier_calls_on_same_model": seq}
            mon.case(case, True)
            got = hexnums(call_rate(kind, st, nums, ranks=ranks, scores=scores, model=m)[0])
            if got != a:
                mon.fail("omitting the options does not use the model's own settings after earlier calls with per-call options",
                         case, "fresh model %s / same model after %s: %s" % (str(a)[:300], seq, str(got)[:300]))
    api.pool(False)
    return mon


# =====================================================================================================
# C16  unit and origin of the skill scale
def _scale_state(st, k):
    s = dict(st)
    for f in ("mu", "sigma", "beta", "tau"):
        s[f] = st[f] * k
    return s


def mon_C16(rng, budget, tier):
    mon = Mon("C16")
    i = 0
    while mon.evaluations < budget and not mon.full:
        kind = KINDS[i % 5]
        i += 1
        api.pool(i % 2 == 0)
        st = gen.gen_state(rng, default_bias=0.7)
        shape = gen.gen_shape(rng)
        equal_sizes = i % 2 == 0
        if equal_sizes:
            shape = [shape[0]] * len(shape)
        nums = gen.gen_teams_num(rng, st, shape, ints=False)
        nums = [[(mu, sg if sg > 0 else st["beta"]) for mu, sg in t] for t in nums]
        order = gen.random_weak_order(rng, len(shape))
        ranks = _rk(order)
        # every third game gives tau per call (the "tau" of the property's statement is then the per-call one: it is scaled
        # with the rest, and left alone by a shift)
        pt = rng.choice([0.0, st["beta"] / 50.0, st["beta"] * 1.5, st["tau"]]) if i % 3 == 0 else None
        ptk = (lambda f=1.0: {} if pt is None else {"tau": ("F", pt * f)})
        infl = _inflated(nums, st["tau"] if pt is None else pt)
        srel = _tm_tie_sigma_rel(kind, st, infl, order)
        base = rate_nums(kind, st, nums, ranks=ranks, **ptk())
        pbase = [call_predict(op, kind, st, nums) for op in ("pwin", "pdraw", "prank")]
        # ---- scaling
        k = 10 ** rng.uniform(-3, 3) if rng.random() < 0.7 else rng.choice([1e-3, 1e3, 120.0, 2.0 ** -10])
        st_k = _scale_state(st, k)
        nums_k = [[(mu * k, sg * k) for mu, sg in t] for t in nums]
        case = {"clause": "scale", "kind": kind, "st": st, "nums": nums, "order": order, "k": k, "per_call_tau": pt}
        mon.case(case)
        if kind in ("PL", "BTF", "BTP"):
            got = rate_nums(kind, st_k, nums_k, ranks=ranks, **ptk(k))
            for t in range(len(nums)):
                for j in range(len(nums[t])):
                    a, b = base[t][j], got[t][j]
                    sc = max(abs(a[0]), infl[t][j][1]) * k
                    if not _close_mu(a[0] * k, b[0], sc) or not _close_rel(a[1] * k, b[1]):
                        mon.fail("rate under rescaling", case, "player [%d][%d]: %s * k = %s expected, got %s" % (t, j, a, (a[0] * k, a[1] * k), b))
        pk = [call_predict(op, kind, st_k, nums_k) for op in ("pwin", "pdraw", "prank")]
        if not _pred_close(pbase, pk):
            mon.fail("predictions under rescaling", case, "%s / %s" % (pbase, pk))
        # ---- shift (equal team sizes); the gamma callback must itself not depend on the origin (C16_shift_* carry
        # that premise): "gm" reads the team mean, so it is left out here
        if equal_sizes and st["gamma"] != "gm":
            lo = min(mu for t in nums for mu, _ in t)
            hi = max(mu for t in nums for mu, _ in t)
            room_up, room_dn = 20 * st["beta"] - hi, -20 * st["beta"] - lo
            a_ = rng.uniform(room_dn, room_up)
            nums_s = [[(mu + a_, sg) for mu, sg in t] for t in nums]
            case = {"clause": "shift", "kind": kind, "st": st, "nums": nums, "order": order, "shift": a_, "per_call_tau": pt}
            mon.case(case)
            got = rate_nums(kind, st, nums_s, ranks=ranks, **ptk())
            for t in range(len(nums)):
                for j in range(len(nums[t])):
                    x, y = base[t][j], got[t][j]
                    sc = max(abs(x[0]), abs(y[0]), abs(a_), infl[t][j][1])
                    allow = _tm_tie_mu_allow(kind, st, infl, order, t, j, transformed=True)
                    if not (_close_mu(x[0] + a_, y[0], sc) or abs(x[0] + a_ - y[0]) <= allow + 1e-9 * sc) or not _close_sigma(x[1], y[1], srel, st, infl[t][j][1]):
                        mon.fail("rate under a shift of all mu", case, "player [%d][%d]: %s shifted by %r, got %s (sigma tolerance %.1e)" % (t, j, x, a_, y, srel))
            ps = [call_predict(op, kind, st, nums_s) for op in ("pwin", "pdraw", "prank")]
            if not _pred_close(pbase, ps):
                mon.fail("predictions under a shift of all mu", case, "%s / %s" % (pbase, ps))
    api.pool(False)
    return mon


def _pred_close(a, b, tol=1e-9):
    (w1, d1, r1), (w2, d2, r2) = a, b
    if len(w1) != len(w2) or len(r1) != len(r2):
        return False
    if any(abs(x - y) > tol for x, y in zip(w1, w2)) or abs(d1 - d2) > tol:
        return False
    return all(abs(x[1] - y[1]) > tol for x, y in zip(r1, r2)) is False if False else all(abs(x[1] - y[1]) <= tol for x, y in zip(r1, r2))


# =====================================================================================================
# C17  V, W, V~, W~ and the CDF against a 60-digit reference
def mon_C17(rng, budget, tier):
    from decimal import Decimal as D

    from . import hp
    wc = impl.wcommon
    mon = Mon("C17")
    EPS = D(2) ** -52
    th = suites._thresholds()[0]          # Phi(th) ~ 2^-52
    xs = []
    dense = budget // 2
    for k in range(dense):
        xs.append(-40.0 + 80.0 * k / max(1, dense - 1))
    for _ in range(budget // 4):
        xs.append(rng.uniform(-9.5, 9.5))
    for _ in range(budget - len(xs)):
        xs.append(rng.choice([th, -th, 0.0]) + rng.choice([-1, 1]) * rng.choice([0.0, 2.0 ** -50, 1e-12, 1e-9, 1e-6, 1e-3, 0.05]) * abs(rng.choice([th, 1.0])))
    for idx, x in enumerate(xs):
        if mon.full:
            break
        t = gen.logu(rng, 1e-8, 1e-2) if idx % 5 else rng.choice([1e-8, 1e-5, 8e-6, 1e-2, 1.25e-5, 1e-3])
        fn = ("v", "w", "vt", "wt", "cdf")[idx % 5]
        case = {"fn": fn, "x": x, "t": t}
        mon.case(case)
        mon.count("fn:" + fn)
        try:
            if fn == "cdf":
                xx = max(-37.5, min(38.0, x))
                case["x"] = xx
                got = wc.phi_major(xx)
                ref = hp.Phi(xx)
                if not math.isfinite(got) or abs(D(got) - ref) > D("1e-12") * ref:
                    mon.fail("CDF relative accuracy 1e-12", case, "phi_major(%r) = %r, reference %s" % (xx, got, +ref))
                continue
            got = getattr(wc, fn)(x, t)
        except Exception as ex:
            mon.fail("exception", case, "%s: %s" % (type(ex).__name__, ex))
            continue
        if not math.isfinite(got):
            mon.fail("finite", case, "%s(%r, %r) = %r" % (fn, x, t, got))
            continue
        slack = 1e-13 / t
        if fn == "v":
            if got < 0:
                mon.fail("v >= 0", case, "v = %r" % got)
            mass = hp.Phi(D(x) - D(t))
            ref = hp.V(x, t)
            if mass >= EPS * (1 + D("1e-9")):
                # below 1e-300 the value is (nearly) subnormal: allow two units of the subnormal grid (DESIGN I8)
                ok = abs(D(got) - ref) <= D("1e-6") * ref + (D("1e-323") if ref < D("1e-300") else 0)
                cl = "v within 1e-6 relative of V above the epsilon guard"
            elif mass <= EPS * (1 - D("1e-9")):
                ok = abs(D(got) - ref) <= D("0.02") * ref
                cl = "v within 2 percent of V on the asymptotic branch"
            else:
                ok = abs(D(got) - ref) <= D("0.02") * ref
                cl = "v at the guard"
            if not ok:
                mon.fail(cl, case, "v(%r, %r) = %r, V = %s" % (x, t, got, +ref))
        elif fn == "w":
            if not (-slack <= got <= 1 + slack):
                mon.fail("w in [0, 1]", case, "w = %r" % got)
            mass = hp.Phi(D(x) - D(t))
            ref = hp.W(x, t)
            if mass >= EPS * (1 + D("1e-9")):
                # w = v * (v + xt): a subnormal v carries up to one subnormal unit, multiplied by |xt| <= 40
                ok = abs(D(got) - ref) <= D("1e-6") * ref + (D("1e-320") if ref < D("1e-300") else 0)
                cl = "w within 1e-6 relative of W above the epsilon guard"
            else:
                ok = abs(D(got) - ref) <= D("0.02") * max(ref, D(0)) + (D("0.02") if ref > D("0.5") else D(0))
                cl = "w within 2 percent of W on the asymptotic branch"
            if not ok:
                mon.fail(cl, case, "w(%r, %r) = %r, W = %s" % (x, t, got, +ref))
        elif fn == "vt":
            ref = hp.Vt(x, t)
            if abs(D(got) - ref) > 2 * D(t) * (1 + D("1e-9")) + D("1e-15") * abs(ref):
                mon.fail("vt within 2t of V~", case, "vt(%r, %r) = %r, V~ = %s, 2t = %r" % (x, t, got, +ref, 2 * t))
        else:
            if not (-slack <= got <= 1 + slack):
                mon.fail("wt in [0, 1]", case, "wt = %r" % got)
            ref = hp.Wt(x, t)
            if abs(D(got) - ref) > D(20 * t + 1e-13 / t):
                mon.fail("wt within 20t + 1e-13/t of W~", case, "wt(%r, %r) = %r, W~ = %s, bound %r" % (x, t, got, +ref, 20 * t + 1e-13 / t))
    # draw margins above 1e-2 (t = kappa / c gets there for small beta or a large kappa): the range clauses hold for
    # every t (C17_v_nonneg, C17_w_range, C17_wt_range), so they are checked there too; the accuracy clauses are not
    for _ in range(max(200, budget // 20)):
        if mon.full:
            break
        x = rng.choice([rng.uniform(-10, 10), rng.uniform(-40, 40), rng.choice([th, -th]) + rng.uniform(-1, 1)])
        t = rng.choice([0.05, 0.34, 1.0, gen.logu(rng, 1e-2, 2.0)])
        for fn in ("v", "w", "vt", "wt"):
            case = {"fn": fn, "x": x, "t": t, "large_margin": True}
            mon.case(case)
            try:
                got = getattr(wc, fn)(x, t)
            except Exception as ex:  # noqa: BLE001
                mon.fail("exception", case, "%s(%r, %r): %s: %s" % (fn, x, t, type(ex).__name__, ex))
                continue
            if not math.isfinite(got):
                mon.fail("finite", case, "%s(%r, %r) = %r" % (fn, x, t, got))
            elif (fn == "v" and got < 0) or (fn in ("w", "wt") and not (-1e-12 <= got <= 1.0 + 1e-12)):
                mon.fail("%s in range" % fn, case, "%s(%r, %r) = %r" % (fn, x, t, got))
    # "for every finite x": astronomically large arguments must still give finite values in range (no exception)
    for x in [s_ * m_ for s_ in (1.0, -1.0) for m_ in (1e3, 1e10, 1e100, 1.3e154, 1.4e154, 1e200, 1e308)]:
        for t in (1e-8, 1e-5, 1e-2):
            for fn in ("v", "w", "vt", "wt"):
                case = {"fn": fn, "x": x, "t": t, "extreme": True}
                mon.case(case)
                try:
                    got = getattr(wc, fn)(x, t)
                except Exception as ex:  # noqa: BLE001
                    mon.fail("exception", case, "%s(%r, %r): %s: %s" % (fn, x, t, type(ex).__name__, ex))
                    continue
                if not math.isfinite(got):
                    mon.fail("finite", case, "%s(%r, %r) = %r" % (fn, x, t, got))
                elif (fn == "v" and got < 0) or (fn in ("w", "wt") and not (0.0 <= got <= 1.0)):
                    mon.fail("%s in range" % fn, case, "%s(%r, %r) = %r" % (fn, x, t, got))
    # the four functions called concurrently from several threads (free running, short switch interval): every call
    # must return what the same call returns alone.  A stress test: it can miss a race, it cannot raise a false alarm.
    if not mon.full:
        args = [(fn, rng.choice([3.0, -3.0, 0.5, -0.5, 7.0, -7.0, 0.0, 1e-3]), rng.choice([1e-2, 1e-5, 1e-8, 1e-3]))
                for fn in ("vt", "wt", "vt", "wt", "v", "w") for _ in range(4)]
        want = {a: getattr(wc, a[0])(a[1], a[2]) for a in args}
        bad = []
        stop = threading.Event()
        old_si = sys.getswitchinterval()

        def work(k):
            j = k
            while not stop.is_set() and not bad:
                a = args[j % len(args)]
                j += 3
                try:
                    got = getattr(wc, a[0])(a[1], a[2])
                except Exception as ex:  # noqa: BLE001
                    bad.append((a, "raised %s" % type(ex).__name__))
                    return
                if got != want[a]:
                    bad.append((a, got))
        try:
            sys.setswitchinterval(1e-6)
            ths = [threading.Thread(target=work, args=(k,)) for k in range(4)]
            for th_ in ths:
                th_.start()
            stop.wait(1.0 if tier == "quick" else 10.0)
            stop.set()
            for th_ in ths:
                th_.join(10)
        finally:
            sys.setswitchinterval(old_si)
        case = {"clause": "concurrent calls", "threads": 4, "calls": [list(a) for a in args[:6]]}
        mon.case(case)
        mon.count("concurrent stress")
        if bad:
            a, got = bad[0]
            mon.fail("concurrent calls return what the same call returns alone", case,
                     "%s(%r, %r) = %r under concurrency, %r alone" % (a[0], a[1], a[2], got, want[a]))
    return mon


# =====================================================================================================
# C18  comparison operators
def mon_C18(rng, budget, tier):
    mon = Mon("C18")
    ops = {"lt": lambda a, b: a < b, "le": lambda a, b: a <= b, "gt": lambda a, b: a > b, "ge": lambda a, b: a >= b}
    vals = [0, 0.0, -0.0, 1, -1, 25.0, 25, -3.5, 8.333333333333334, 1e-3, 1e6, -1e6, 0.5, 2.0, 3.0, 7.0, 10.0, 4.0]
    i = 0
    while mon.evaluations < budget and not mon.full:
        kind = KINDS[i % 5]
        i += 1
        R = RATING[kind]
        r = rng.random()
        if r < 0.35:
            (m1, s1), (m2, s2) = rng.choice(suites.tie_pairs())
        elif r < 0.5:
            m1 = m2 = rng.choice(vals)
            s1 = s2 = rng.choice(vals)
        else:
            m1, s1, m2, s2 = (rng.choice(vals) if rng.random() < 0.6 else rng.uniform(-50, 50) for _ in range(4))
        if rng.random() < 0.5:
            m1, s1, m2, s2 = m2, s2, m1, s1
        if i % 9 == 0:      # finite mu, sigma whose ordinals overflow to -inf / +inf or are astronomically large
            m1, s1, m2, s2 = (rng.choice([1e308, -1e308, 6e307, -6e307, 1e300, 0.0, 1.0]) for _ in range(4))
        a, b = R(m1, s1), R(m2, s2)
        case = {"kind": kind, "a": (m1, s1), "b": (m2, s2)}
        mon.case(case, True)
        if i % 4 == 0:      # ordinal with a non-default z is the very first thing asked of the fresh objects
            z0 = rng.choice([0, 0.0, 1.5, 2.0, -1.0, 1])
            case["first_call"] = "ordinal(%r)" % (z0,)
            if a.ordinal(z0) != m1 - z0 * s1 or b.ordinal(z=z0) != m2 - z0 * s2:
                mon.fail("ordinal(z) = mu - z*sigma", case, "ordinal(%r) = %r, %r" % (z0, a.ordinal(z0), b.ordinal(z0)))
        oa, ob = a.ordinal(), b.ordinal()
        if oa != m1 - 3 * s1 or a.ordinal(2.0) != m1 - 2.0 * s1 or a.ordinal(z=0) != m1 - 0 * s1 or a.ordinal() != oa:
            mon.fail("ordinal(z) = mu - z*sigma", case, "ordinal() = %r" % oa)
        want = {"lt": oa < ob, "le": oa <= ob, "gt": oa > ob, "ge": oa >= ob}
        for nm, f in ops.items():
            got = f(a, b)
            if got is not want[nm]:
                mon.fail("operator agrees with ordinal comparison", case, "a %s b is %r, ordinals %r %s %r is %r" % (nm, got, oa, nm, ob, want[nm]))
        eq = (m1 == m2 and s1 == s2)
        if (a == b) is not eq or (a != b) is not (not eq):
            mon.fail("== iff mu and sigma both equal", case, "a == b is %r, a != b is %r" % (a == b, a != b))
        if i % 2 == 0:
            # the same two objects after their numbers were assigned anew: nothing computed before may be remembered.  Every
            # sixth time the change is -1 -> -2, the one pair of small numbers with equal hash() (a memo keyed or tagged by
            # hash(self) / hash((mu, sigma)) does not notice it)
            if i % 6 == 0:
                a.mu, b.sigma = (-1.0 if i % 12 else -1), (-1.0 if i % 12 else -1)
                a < b, a.ordinal(), b.ordinal(), a == b, hash(a), hash(b)
                n1, t1, n2, t2 = (-2.0 if i % 12 else -2), a.sigma, b.mu, (-2.0 if i % 12 else -2)
            else:
                n1, t1, n2, t2 = (rng.choice(vals + [-2, -2.0]) for _ in range(4))
            a.mu, a.sigma, b.mu, b.sigma = n1, t1, n2, t2
            c2 = {"kind": kind, "a": (n1, t1), "b": (n2, t2), "same_objects_previously": [case["a"], case["b"]]}
            mon.case(c2, True)
            o1, o2 = n1 - 3 * t1, n2 - 3 * t2
            if a.ordinal() != o1 or b.ordinal() != o2:
                mon.fail("ordinal(z) = mu - z*sigma", c2, "after assigning new values ordinal() = %r, %r" % (a.ordinal(), b.ordinal()))
            w2 = {"lt": o1 < o2, "le": o1 <= o2, "gt": o1 > o2, "ge": o1 >= o2}
            for nm, f in ops.items():
                if f(a, b) is not w2[nm]:
                    mon.fail("operator agrees with ordinal comparison", c2, "after assigning new values a %s b is %r, ordinals %r, %r" % (nm, f(a, b), o1, o2))
            e2 = (n1 == n2 and t1 == t2)
            if (a == b) is not e2 or (a != b) is not (not e2):
                mon.fail("== iff mu and sigma both equal", c2, "after assigning new values a == b is %r" % (a == b))
        if i % 10 == 0:
            rs = [R(rng.choice(vals), rng.choice(vals)) for _ in range(rng.randint(2, 9))]
            ords = [x.ordinal() for x in sorted(rs)]
            if ords != sorted(ords):
                mon.fail("sorted() gives ordinal order", case, repr(ords))
        if i % 3 == 0:
            other = rng.choice([None, 3, 2.5, "x", "", [], {}, True, (1,), object(), R]
                               + [RATING[k](m2, s2) for k in KINDS if k != kind])
            oc = dict(case, other=repr(other)[:60])
            mon.case(oc, True)
            for nm, f in ops.items():
                for left in (True, False):
                    try:
                        res = f(a, other) if left else f(other, a)
                        mon.fail("foreign operand must raise ValueError", oc, "%s (%s operand) returned %r" % (nm, "right" if left else "left", res))
                    except ValueError:
                        pass
                    except Exception as ex:
                        mon.fail("foreign operand must raise ValueError", oc, "%s raised %s" % (nm, type(ex).__name__))
            try:
                if (a == other) is not False or (a != other) is not True or (other == a) is not False:
                    mon.fail("foreign operand is simply unequal", oc, "== %r, != %r" % (a == other, a != other))
            except Exception as ex:
                mon.fail("foreign operand is simply unequal", oc, "raised %s" % type(ex).__name__)
    return mon


# =====================================================================================================
# C19  the five models differ only in their update rule
def _norm_sig(kind, f):
    import re
    s = re.sub(r" at 0x[0-9a-fA-F]+", "", str(inspect.signature(f)))
    for k in KINDS:
        s = s.replace(MODEL[k].__name__ + "TeamRating", "KT").replace(MODEL[k].__name__ + "Rating", "KR").replace(MODEL[k].__name__, "KM")
    return s.replace("openskill.models.weng_lin.", "").replace("plackett_luce.", "").replace("bradley_terry_full.", "").replace(
        "bradley_terry_part.", "").replace("thurstone_mosteller_full.", "").replace("thurstone_mosteller_part.", "")


def _multi_defect_args(kind):
    """arguments with TWO things wrong at once: which exception class comes out depends on the order of the validation steps,
    and the five classes share that order (C19: 'the same exception class')"""
    R, other = RATING[kind], RATING[gen.KINDS[(gen.KINDS.index(kind) + 1) % 5]]
    r = lambda: R(25.0, 8.0)      # noqa: E731
    return [
        ("one team, and it holds a number", lambda: ([[21]], {})),
        ("one team, which is a number", lambda: ([21], {})),
        ("one team, which is a tuple of ratings", lambda: ([(r(), r())], {})),
        ("one team of a foreign model's rating", lambda: ([[other(25.0, 8.0)]], {})),
        ("one empty team", lambda: ([[]], {})),
        ("two teams, one empty and one holding a string", lambda: ([[], ["x"]], {})),
        ("a team that is a string beside an empty team", lambda: (["ab", []], {})),
        ("teams fine, ranks of wrong length holding a string", lambda: ([[r()], [r()]], {"ranks": ["a"]})),
        ("teams fine, ranks and scores both given and both malformed", lambda: ([[r()], [r()]], {"ranks": ["a", 1], "scores": [1]})),
        ("too few teams and malformed ranks", lambda: ([[r()]], {"ranks": ["a"]})),
        ("foreign rating and ranks of wrong length", lambda: ([[r()], [other(25.0, 8.0)]], {"ranks": [1]})),
        ("teams is a tuple, ranks a tuple", lambda: (([r()], [r()]), {"ranks": (1, 2)})),
        ("empty team and scores holding None", lambda: ([[r()], []], {"scores": [1, None]})),
    ]


def mon_C19(rng, budget, tier):
    mon = Mon("C19")
    _same_objects_probe(mon, rng, ("pwin", "pdraw", "prank"), max(20, budget // 100))
    n_args = len(_multi_defect_args("PL"))
    for a in range(n_args):
        for op in ("rate", "predict_win", "predict_draw", "predict_rank"):
            outs = {}
            desc = None
            for k in KINDS:
                desc, mk = _multi_defect_args(k)[a]
                teams, kw = mk()
                if op != "rate" and kw:
                    continue
                try:
                    getattr(MODEL[k](), op)(teams, **kw)
                    outs[k] = "returned"
                except Exception as ex:  # noqa: BLE001
                    outs[k] = type(ex).__name__
            if not outs:
                continue
            case = {"clause": "same exception class", "op": op, "argument": desc}
            mon.case(case, True)
            if len(set(outs.values())) != 1:
                mon.fail("same exception class across the five models", case, repr(outs))
    # signatures / operations
    pub = lambda cls: sorted(n for n in dir(cls) if not n.startswith("_") and callable(getattr(cls, n)))  # noqa: E731
    ref_ops = pub(MODEL["PL"])
    ref_rops = pub(RATING["PL"])
    for k in KINDS:
        case = {"clause": "api", "kind": k}
        mon.case(case)
        if pub(MODEL[k]) != ref_ops or pub(RATING[k]) != ref_rops:
            mon.fail("same operations", case, "%s vs %s" % (pub(MODEL[k]), ref_ops))
        for nm in ref_ops + ["__init__"]:
            if hasattr(MODEL[k], nm) and _norm_sig(k, getattr(MODEL[k], nm)) != _norm_sig("PL", getattr(MODEL["PL"], nm)):
                mon.fail("same signatures", case, "%s: %s vs %s" % (nm, _norm_sig(k, getattr(MODEL[k], nm)), _norm_sig("PL", getattr(MODEL["PL"], nm))))
        for nm in ref_rops + ["__init__"]:
            if hasattr(RATING[k], nm) and _norm_sig(k, getattr(RATING[k], nm)) != _norm_sig("PL", getattr(RATING["PL"], nm)):
                mon.fail("same signatures", case, "rating.%s" % nm)
    i = 0
    while mon.evaluations < budget and not mon.full:
        i += 1
        which = i % 5
        if which in (0, 1):       # predictions identical across classes
            st, nums = _predict_game(rng)
            op = ("pwin", "pdraw", "prank")[i % 3]
            case = {"clause": "predict", "op": op, "st": st, "nums": nums}
            mon.case(case)
            outs = {k: repr(call_predict(op, k, st, nums)) for k in KINDS}
            if len(set(outs.values())) != 1:
                mon.fail("identical predictions across models", case, repr(outs)[:600])
        elif which == 2:          # BT partial = BT full on two-team games, bit for bit
            st = gen.gen_state(rng)
            shape = [rng.choice([1, 1, 2, 3, 5]), rng.choice([1, 1, 2, 3, 5])]
            nums = gen.gen_teams_num(rng, st, shape)
            nums = [[(mu, sg if sg > 0 else st["beta"]) for mu, sg in t] for t in nums]
            ranks, scores = gen.gen_outcome(rng, 2)
            tau, lim = gen.gen_percall(rng, st)
            case = {"clause": "BTP=BTF", "st": st, "nums": nums, "ranks": ranks, "scores": scores, "tau": tau, "lim": lim}
            mon.case(case)
            a = hexnums(rate_nums("BTF", st, nums, ranks=ranks, scores=scores, tau=tau, lim=lim))
            b = hexnums(rate_nums("BTP", st, nums, ranks=ranks, scores=scores, tau=tau, lim=lim))
            if a != b:
                mon.fail("BT partial equals BT full on two teams", case, "full %s / partial %s" % (str(a)[:300], str(b)[:300]))
            if i % 10 == 2:
                # one rating object entered in two slots of the two-team game (a player on both sides / twice in a team)
                outs = {}
                flat_n = sum(shape)
                src, dst = (rng.sample(range(flat_n), 2) if flat_n > 2 else (0, 1))
                for k in ("BTF", "BTP"):
                    objs = to_python(teams_val(k, nums))
                    flat = [(ti, pj) for ti, t in enumerate(objs) for pj in range(len(t))]
                    objs[flat[dst][0]][flat[dst][1]] = objs[flat[src][0]][flat[src][1]]
                    try:
                        r = make_model(k, st).rate(objs, ranks=[1, 2] if i % 20 == 2 else [2, 1])
                        outs[k] = [[(hx(p.mu), hx(p.sigma)) for p in t] for t in r]
                    except Exception as ex:  # noqa: BLE001
                        outs[k] = "EXC " + type(ex).__name__
                case2 = dict(case, same_object_at=[flat[src], flat[dst]])
                mon.case(case2)
                if outs["BTF"] != outs["BTP"]:
                    mon.fail("BT partial equals BT full on two teams", case2, "full %s / partial %s" % (str(outs["BTF"])[:300], str(outs["BTP"])[:300]))
        elif which == 3:          # accept/reject with the same class
            shape = rng.choice(suites.BASE_SHAPES[:3])
            per_kind = {}
            for k in KINDS:
                cs = list(suites.malformed_cases(k, shape))
                per_kind[k] = cs
            idxs = rng.sample(range(len(per_kind["PL"])), 12)
            for ix in idxs:
                res = {}
                for k in KINDS:
                    c, _ = per_kind[k][ix]
                    res[k] = impl.run_case(c).get("exc")
                case = {"clause": "validation", "shape": shape, "index": ix, "example": {kk: vv for kk, vv in per_kind["PL"][ix][0].items() if kk != "st"}}
                mon.case(case)
                if len(set(res.values())) != 1:
                    mon.fail("same accept/reject and exception class across models", case, repr(res))
        else:                     # rating objects: compare, hash, copy by the same rules
            mu, sg = rng.choice([0, 1.5, -2.0, 25.0, 7]), rng.choice([0, 1.0, 8.0, 2.5, 3])
            bump = rng.choice([0, 0, 1])
            mu2, sg2 = mu + bump, sg
            if rng.random() < 0.4:      # equal ordinals with different (mu, sigma): separates < from <=, == from "not <, not >"
                (mu, sg), (mu2, sg2) = rng.choice(suites.tie_pairs())
                if rng.random() < 0.5:
                    mu, sg, mu2, sg2 = mu2, sg2, mu, sg
            case = {"clause": "rating rules", "a": [mu, sg], "b": [mu2, sg2]}
            mon.case(case)
            outs = {}
            for k in KINDS:
                a = RATING[k](mu, sg, "n")
                b = RATING[k](mu2, sg2)
                c_ = copy.copy(a)
                d_ = copy.deepcopy(a)
                outs[k] = (a == b, a != b, a < b, a <= b, a > b, a >= b, hash(a) == hash((a.id, a.mu, a.sigma)),
                           (c_.id == a.id, c_.mu, c_.sigma, c_.name), (d_.id == a.id, d_.mu, d_.sigma, d_.name),
                           a.ordinal(), a.ordinal(1.5), repr(a).replace(MODEL[k].__name__, "K"),
                           sorted([b, a]) == [b, a] or sorted([b, a])[0] is a)
            if len(set(outs.values())) != 1 or not outs["PL"][6]:
                mon.fail("ratings compare, hash and copy by the same rules", case, repr(outs)[:600])
    return mon


# =====================================================================================================
# C20  build, store, restore
def mon_C20(rng, budget, tier):
    mon = Mon("C20")
    vals = [0, 0.0, -1, -2.5, 25.0, 7, 1e-9, 1e9, 8.333333333333334]
    i = 0
    while mon.evaluations < budget // 2 and not mon.full:
        kind = KINDS[i % 5]
        i += 1
        st = gen.gen_state(rng)
        m = make_model(kind, st)
        mu, sg = rng.choice(vals), rng.choice(vals)
        nm = rng.choice([None, "", "bob"])
        case = {"clause": "construct", "kind": kind, "st": st, "mu": mu, "sigma": sg, "name": nm}
        mon.case(case)
        r1 = m.rating(mu, sg, nm)
        r2 = m.create_rating([mu, sg], nm)
        r3 = m.rating(mu=mu)
        r4 = m.rating(sigma=sg)
        r5 = m.rating()
        for lab, r, wm, ws, wn in (("rating(mu,sigma,name)", r1, mu, sg, nm), ("create_rating", r2, mu, sg, nm),
                                   ("rating(mu=)", r3, mu, float(st["sigma"]), None), ("rating(sigma=)", r4, float(st["mu"]), sg, None),
                                   ("rating()", r5, float(st["mu"]), float(st["sigma"]), None)):     # the constructor float()s its mu and sigma
            # a given value is kept as given (value and type); a default is the model's own value (int or float as the
            # model holds it: the constructor float()s, a later assignment does not)
            giv_m, giv_s = lab in ("rating(mu,sigma,name)", "create_rating", "rating(mu=)"), lab in ("rating(mu,sigma,name)", "create_rating", "rating(sigma=)")
            if not (r.mu == wm and (type(r.mu) is type(wm) or not giv_m) and r.sigma == ws and (type(r.sigma) is type(ws) or not giv_s)
                    and r.name == wn and type(r.name) is type(wn)):
                mon.fail("constructed rating holds exactly the given values", case, "%s -> mu=%r sigma=%r name=%r, wanted %r %r %r" % (lab, r.mu, r.sigma, r.name, wm, ws, wn))
        ids = [r.id for r in (r1, r2, r3, r4, r5)]
        if len(set(ids)) != 5 or any(not isinstance(x, str) or not x for x in ids):
            mon.fail("fresh unique id", case, repr(ids))
        # deepcopy: same values and id, distinct and independent object
        src = m.rating(mu, sg, nm)
        nested = [[src, m.rating(1.0, 2.0, "x")], [m.rating(3.0, 4.0)]]
        cp = copy.deepcopy(nested)
        c0 = cp[0][0]
        if not (c0 is not src and c0.mu == src.mu and c0.sigma == src.sigma and c0.name == src.name and c0.id == src.id
                and isinstance(c0, RATING[kind]) and [len(t) for t in cp] == [2, 1]):
            mon.fail("deepcopy preserves mu, sigma, name, id in a distinct object", case, "%r %r %r %r" % (c0.mu, c0.sigma, c0.name, c0.id))
        snapshot = (c0.mu, c0.sigma, c0.name, c0.id)
        src.mu, src.sigma, src.name = 123.0, 45.0, "changed"
        if (c0.mu, c0.sigma, c0.name, c0.id) != snapshot:
            mon.fail("deepcopy is independent of its source", case, "copy changed to %r after the original was modified" % ((c0.mu, c0.sigma, c0.name),))
    # ids stay unique when the global random generator is re-seeded
    seen = set()
    for kind in KINDS:
        m = MODEL[kind]()
        for rep in range(3):
            _random.seed(12345)
            for _ in range(50):
                seen.add(m.rating().id)
                seen.add(m.create_rating([1.0, 2.0]).id)
    case = {"clause": "id uniqueness", "constructions": 5 * 3 * 100}
    mon.case(case)
    if len(seen) != 5 * 3 * 100:
        mon.fail("fresh unique id", case, "%d distinct ids for %d constructions (global random re-seeded in between)" % (len(seen), 1500))
    # stored states of the same player (same id, different numbers) meeting in one game / one deepcopy
    for it in range(max(20, budget // 8)):
        if mon.full:
            break
        kind = KINDS[it % 5]
        st = gen.gen_state(rng)
        m = make_model(kind, st)
        n = rng.choice([2, 2, 3, 4])
        nums = [[(rng.uniform(-20, 20) * st["beta"], gen.logu(rng, 1e-2, 10) * st["beta"]) for _ in range(rng.choice([1, 1, 2]))] for _ in range(n)]
        orig = [[m.rating(mu, sg) for mu, sg in t] for t in nums]
        flat = [p for t in orig for p in t]
        for p in flat[1:]:
            if rng.random() < 0.6:
                p.id = flat[0].id          # an earlier stored state of the same player
                if rng.random() < 0.4:     # ... or an exact clone of it (same numbers too)
                    p.mu, p.sigma = flat[0].mu, flat[0].sigma
        nums = [[(p.mu, p.sigma) for p in t] for t in orig]
        rebuilt = [[m.rating(mu, sg) for mu, sg in t] for t in nums]
        order = gen.random_weak_order(rng, n)
        lim = rng.choice([True, True, False])
        tau = rng.choice([0.0, st["beta"] / 50, st["beta"]])
        case = {"clause": "same id, different stored states", "kind": kind, "st": st, "nums": nums,
                "ids": [[p.id == flat[0].id for p in t] for t in orig], "ranks": order, "limit_sigma": lim, "tau": tau}
        mon.case(case)
        cp = copy.deepcopy(orig)
        got = [[(p.mu, p.sigma, p.id) for p in t] for t in cp]
        want = [[(p.mu, p.sigma, p.id) for p in t] for t in orig]
        if got != want:
            mon.fail("deepcopy preserves mu, sigma, id", case, "copy %s / source %s" % (got, want))
            continue
        ra = make_model(kind, st).rate(orig, ranks=order, limit_sigma=lim, tau=tau)
        rb = make_model(kind, st).rate(rebuilt, ranks=order, limit_sigma=lim, tau=tau)
        na = [[(hx(p.mu), hx(p.sigma)) for p in t] for t in ra]
        nb = [[(hx(p.mu), hx(p.sigma)) for p in t] for t in rb]
        if na != nb:
            mon.fail("rebuilt ratings give bit-identical numbers", case, "original objects %s / rebuilt %s" % (na, nb))
    # leagues with a rebuild between games: bit-identical numbers
    while mon.evaluations < budget and not mon.full:
        kind = KINDS[i % 5]
        i += 1
        st = gen.gen_state(rng)
        m1, m2 = make_model(kind, st), make_model(kind, st)
        P = rng.randint(4, 9)
        base = [((rng.uniform(-20, 20)) * st["beta"], gen.logu(rng, 1e-2, 10) * st["beta"]) for _ in range(P)]
        A = [m1.rating(mu, sg, "p%d" % k) for k, (mu, sg) in enumerate(base)]
        store = list(base)
        G = 12 if tier == "quick" else 60
        hist = []
        for g in range(G):
            k = rng.randint(2, min(4, P))
            idx = rng.sample(range(P), k * rng.choice([1, 2]) if 2 * k <= P else k)
            sz = len(idx) // k
            tidx = [idx[a * sz:(a + 1) * sz] for a in range(k)]
            order = gen.random_weak_order(rng, k)
            tau, lim = gen.gen_percall(rng, st)
            kw = {}
            if tau != OMIT and tau[0] != "B":
                kw["tau"] = tau[1]
            if lim != OMIT:
                kw["limit_sigma"] = lim[1]
            hist.append({"teams": tidx, "ranks": order, "opts": kw})
            how = rng.choice(["rating", "create_rating", "deepcopy"])
            tA = [[A[x] for x in t] for t in tidx]
            if how == "rating":
                tB = [[m2.rating(store[x][0], store[x][1]) for x in t] for t in tidx]
            elif how == "create_rating":
                tB = [[m2.create_rating([store[x][0], store[x][1]]) for x in t] for t in tidx]
            else:
                tB = copy.deepcopy([[m2.rating(store[x][0], store[x][1]) for x in t] for t in tidx])
            case = {"clause": "rebuild", "kind": kind, "st": st, "players": base, "history": hist[-8:], "rebuild": how}
            mon.case(case, sample_every=101)
            pa = [repr(f(tA)) for f in (m1.predict_win, m1.predict_draw, m1.predict_rank)]
            pb = [repr(f(tB)) for f in (m2.predict_win, m2.predict_draw, m2.predict_rank)]
            ra = m1.rate(tA, ranks=order, **kw)
            rb = m2.rate(tB, ranks=order, **kw)
            na = [[(hx(p.mu), hx(p.sigma)) for p in t] for t in ra]
            nb = [[(hx(p.mu), hx(p.sigma)) for p in t] for t in rb]
            if pa != pb or na != nb:
                mon.fail("rebuilt ratings give bit-identical numbers", case, "game %d: original objects %s %s / rebuilt %s %s" % (g, pa, na, pb, nb))
                break
            for t, ids_ in enumerate(tidx):
                for j, x in enumerate(ids_):
                    A[x] = ra[t][j]
                    store[x] = (rb[t][j].mu, rb[t][j].sigma)
            # a league driven by random outcomes with per-game tau up to 3 beta can leave the supported numeric range
            # (|mu| <= 20 beta, sigma <= 10 beta) within a few dozen games; outside it the properties make no claim (the dead
            # _sum_q call of the full-pairing models overflows there): the league ends (same rule as the C06 leagues)
            if any(abs(mu_) > 20 * st["beta"] or sg_ > 10 * st["beta"] for mu_, sg_ in store):
                mon.count("league left the supported range after %d games" % (g + 1))
                break
    return mon


MONITORS = {k[4:]: v for k, v in list(globals().items()) if k.startswith("mon_C")}


# =====================================================================================================
# C01  the published closed form, evaluated independently (index sums over the unsorted game)
def mon_C01(rng, budget, tier):
    from . import spec
    mon = Mon("C01")
    i = 0
    while mon.evaluations < budget and not mon.full:
        kind = KINDS[i % 5]
        i += 1
        api.pool(i % 2 == 0)
        c = _valid_rate_case(rng, kind=kind)
        teams, ranks, scores, tau, lim = c["args"]
        if tau[0] == "B":
            tau = c["args"][3] = OMIT
        st = c["st"]
        nums = [[(float(mu), float(sg)) for mu, sg in t] for t in nums_of(teams)]
        keys = order_vals(ranks, scores)
        case = {"kind": kind, "st": st, "nums": nums, "ranks": ranks, "scores": scores, "tau": tau, "lim": lim}
        mon.case(case, gen.nontrivial_rate(c))
        # every third game goes through a model object that already served other calls with other per-call options
        if i % 3 == 0:
            m = make_model(kind, st)
            warm = []
            for _ in range(rng.randint(1, 2)):
                wt_, wl_ = gen.gen_percall(rng, st)
                if wt_[0] == "B":
                    wt_ = OMIT
                warm.append({"tau": wt_, "lim": wl_})
                try:    # the earlier calls are only history (they may be outside the valid domain, e.g. sigma = 0 with tau = 0)
                    call_rate(kind, st, nums, ranks=ranks, scores=scores, tau=wt_, lim=wl_, model=m)
                except Exception:  # noqa: BLE001
                    pass
            case["earlier_calls_on_same_model"] = warm
            got = call_rate(kind, st, nums, ranks=ranks, scores=scores, tau=tau, lim=lim, model=m)[0]
        else:
            got = rate_nums(kind, st, nums, ranks=ranks, scores=scores, tau=tau, lim=lim)
        t_eff, l_eff = eff_tau(st, tau), eff_limit(st, lim)
        infl = _inflated(nums, t_eff)
        srel = _tm_tie_sigma_rel(kind, st, infl, keys)
        want = spec.wl_update(kind, st, nums, keys, t_eff, l_eff, tm_part_factor=2.0 if kind == "TMP" else 1.0)
        bad = _spec_diff(kind, st, infl, keys, got, want, srel)
        if bad:
            mon.fail("posterior equals the closed-form update", case, bad)
        elif kind == "TMP":
            alg3 = spec.wl_update(kind, st, nums, keys, t_eff, l_eff, tm_part_factor=1.0)
            if _spec_diff(kind, st, infl, keys, got, alg3, srel):
                mon.count("K1: TMP equals Algorithm 3 only with c_iq doubled")
    api.pool(False)
    return mon


def _spec_diff(kind, st, infl, keys, got, want, srel):
    for t in range(len(want)):
        if len(got[t]) != len(want[t]):
            return "team %d has %d players in the result" % (t, len(got[t]))
        for j in range(len(want[t])):
            a, b = got[t][j], want[t][j]
            sc = max(abs(b[0]), infl[t][j][1])
            allow = _tm_tie_mu_allow(kind, st, infl, keys, t, j)
            if not (_close_mu(a[0], b[0], sc) or abs(a[0] - b[0]) <= allow + 1e-9 * max(sc, abs(a[0]), abs(b[0]))) or not _close_sigma(a[1], b[1], srel, st, infl[t][j][1]):
                return "player [%d][%d]: rate returned %s, closed form gives %s" % (t, j, a, b)
    return None


MONITORS = {k[4:]: v for k, v in list(globals().items()) if k.startswith("mon_C")}

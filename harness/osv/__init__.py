"""osv — harness tying the Coq model of openskill.py to the implementation."""

"""bin/check <ID> [--tier quick|thorough] [--replay FILE]

Decides one property: (1) the Coq theorems of theories/Props/<ID>.v are re-checked by coqc and their
assumptions read back; (2) the correspondence between the extracted model and the implementation in the
repository's working tree is run for the suites this property's theorems rest on; (3) the property's own
predicate is evaluated on the implementation (monitor); (4) decision, evidence, replay."""
import argparse
import hashlib
import json
import os
import random
import sys
import time

VERIF = os.path.realpath(os.path.join(os.path.dirname(__file__), "..", ".."))


def main(argv=None):
    ap = argparse.ArgumentParser()
    ap.add_argument("pid")
    ap.add_argument("--tier", default=os.environ.get("VERIF_TIER", "quick"), choices=["quick", "thorough"])
    ap.add_argument("--replay")
    ap.add_argument("--no-proofs", action="store_true", help="development only: skip the Coq step")
    args = ap.parse_args(argv)
    seed = int(os.environ.get("VERIF_SEED", "20260927"))
    os.environ.setdefault("PYTHONHASHSEED", "0")
    os.makedirs(os.path.join(VERIF, ".work"), exist_ok=True)
    os.environ.setdefault("OSV_WORK", os.path.join(VERIF, ".work"))
    try:
        from . import impl, table  # noqa: F401  (imports the implementation from $VERIF_REPO)
    except Exception as e:  # noqa: BLE001
        # the package under test cannot even be imported: no property is shown to hold
        import traceback
        path = _write_replay(args.pid, {"kind": "no-failing-input-found", "property": args.pid, "seed": seed, "tier": args.tier,
                                        "no_longer_checks": [{"broken": "correspondence", "suite": "import openskill",
                                                              "diffs": ["%s: %s" % (type(e).__name__, e)],
                                                              "driver_line": "", "impl": {"traceback": traceback.format_exc()[-2000:]}, "model": {}}],
                                        "searched_evaluations": 0})
        print("VIOLATION property=%s replay=%s no-failing-input-found" % (args.pid, path))
        return 1
    if args.replay:
        return replay(args.pid, args.replay)
    return run_check(args.pid, args.tier, seed, table, no_proofs=args.no_proofs)


def run_check(pid, tier, seed, table, no_proofs=False):
    from . import compare, enc, impl, monitors, proofs
    t0 = time.time()
    spec = table.PROPS[pid]
    rng = random.Random("%s-%d-%s" % (pid, seed, tier))
    mult = 1 if tier == "quick" else 20
    notes = []
    violations = []     # (kind, text, replay dict)

    # ---------------- 1. proofs
    pr = {"theorems": [], "accepted": [], "axioms": {}, "ok": True, "cmd": "(skipped)", "log": ""}
    if not no_proofs:
        ok, out = proofs.ensure_built(clean=(tier == "thorough" and os.environ.get("OSV_CLEAN", "0") == "1"))
        if not ok:
            pr = {"theorems": [], "accepted": [], "axioms": {}, "ok": False, "cmd": "make", "log": out[-3000:]}
        else:
            pr = proofs.check_props(pid)
        if tier == "thorough" and pr["ok"]:
            chk = proofs.coqchk(pid)
            pr["coqchk"] = {k: chk[k] for k in ("cmd", "rc", "wall_s", "axioms", "ok")}
            if not chk["ok"]:
                pr["ok"] = False
                pr["log"] += "\ncoqchk: " + chk["tail"]
        bad_tokens = proofs.forbidden_tokens()
        if bad_tokens:
            pr["ok"] = False
            pr["log"] += "\nforbidden tokens: %s" % bad_tokens[:10]
    proof_broken = not pr["ok"]

    # ---------------- 2./3. correspondence
    stats = compare.Stats()
    corr_cases = 0
    corr_bad = []
    dist = {}
    samples = []
    seen = set()
    nontrivial = 0
    kpairs = []
    kcalls = []
    want_kernel = os.environ.get("OSV_KERNEL", "1") == "1"
    for suite_name, kwargs, proj, n in spec["corr"]:
        cases = table.build_suite(suite_name, rng, n * mult, tier, **kwargs)
        mo = enc.run_model(cases)
        if want_kernel and suite_name in ("order", "validate", "ops"):
            kpairs.extend((suite_name, c, m) for c, m in zip(cases, mo))
        if want_kernel:
            kcalls.extend(c for c, m in zip(cases, mo) if c["op"] in ("rate", "pwin", "pdraw", "prank", "gauss") and m.get("exc") is None)
        for c, m in zip(cases, mo):
            i = impl.run_case(c)
            corr_cases += 1
            key = "%s:%s" % (suite_name, c.get("kind", c.get("fn", "")))
            dist[key] = dist.get(key, 0) + 1
            ek = "outcome:%s" % i.get("exc")
            dist[ek] = dist.get(ek, 0) + 1
            h = hashlib.sha1(enc.case_line(c).encode()).hexdigest()
            if h not in seen:
                seen.add(h)
                if table.nontrivial(c):
                    nontrivial += 1
            d = compare.compare(c, i, m, stats, proj=proj)
            if "expect" in c and c["expect"] is not None:
                pass
            if d:
                corr_bad.append({"suite": suite_name, "case": c, "line": enc.case_line(c), "diffs": d[:6],
                                 "impl": _strip(i), "model": m})
        if cases and len(samples) < 4:
            samples.append({"suite": suite_name, "driver_line": enc.case_line(cases[len(cases) // 2])[:600]})
    # ---------------- 3b. (thorough) the discrete entry points evaluated inside Coq on the same cases
    kres = None
    if kpairs:
        from . import kernel
        kres = kernel.run([(c, m) for _, c, m in kpairs][:(2500 if tier == "quick" else 40000)],
                          fcap=(60 if tier == "quick" else 3000))
        for idx in kres["disagreements"][:5]:
            sn, c, m = kpairs[idx]
            corr_bad.append({"suite": sn + " (in-kernel)", "case": c, "line": enc.case_line(c),
                             "diffs": ["kernel evaluation (vm_compute) differs from the extracted model"], "impl": {}, "model": m})
        if kres["error"]:
            corr_bad.append({"suite": "in-kernel", "case": {}, "line": "", "diffs": ["coqc failed on generated cases: " + kres["error"][-400:]],
                             "impl": {}, "model": {}})
    # ---------------- 3c. whole rate / predict calls evaluated inside Coq on Flocq's binary64 (libm as the tables of the
    # calls the extracted run made): extracted OCaml run = vm_compute on the model's definitions, bit for bit
    cres = None
    if kcalls:
        from . import kernel
        rng_k = random.Random(seed ^ 0x5EED)
        rng_k.shuffle(kcalls)
        cres = kernel.run_calls(kcalls, 48 if tier == "quick" else 1500)
        for c in cres["disagreements"][:5]:
            corr_bad.append({"suite": "calls (in-kernel, binary64)", "case": c, "line": enc.case_line(c),
                             "diffs": ["kernel evaluation (vm_compute on Flocq binary64) differs from the extracted model"], "impl": {}, "model": {}})
        if cres["error"]:
            corr_bad.append({"suite": "in-kernel", "case": {}, "line": "", "diffs": ["coqc failed on generated cases: " + cres["error"][-400:]],
                             "impl": {}, "model": {}})
    # ---------------- 4. monitor
    mon = None
    mon_budget = spec.get("mon_budget", 1500) * mult
    if spec.get("monitor"):
        mon = _run_monitor(pid, rng, mon_budget, tier)
        extra = table.extra_monitor(pid, rng, tier, seed)
        for f in extra:
            mon.failures.append(f)
    mon_fail = list(mon.failures) if mon else []

    # ---------------- search when a proof or the correspondence is broken but the monitor is quiet
    searched = 0
    if (proof_broken or corr_bad) and not mon_fail and spec.get("monitor"):
        srng = random.Random("%s-%d-search" % (pid, seed))
        m2 = _run_monitor(pid, srng, mon_budget * 20, tier)
        searched = m2.evaluations
        mon_fail = list(m2.failures)
        if not mon_fail and corr_bad:
            # the disagreeing cases themselves, judged by the property's predicate where it applies
            mon_fail = table.judge_corr_cases(pid, corr_bad)

    # ---------------- known findings
    known = table.load_known()
    reported_known = []
    real_fail = []
    for f in mon_fail:
        k = table.match_known(pid, f, known)
        if k:
            reported_known.append((k, f))
        else:
            real_fail.append(f)
    for k in table.always_known(pid, known, mon):
        reported_known.append((k, None))

    # ---------------- 5. decision
    os.makedirs(os.path.join(VERIF, "replays"), exist_ok=True)
    lines = []
    for k, f in {k["id"]: (k, f) for k, f in reported_known}.values():
        lines.append("KNOWN-FINDING: property=%s %s" % (pid, k["what"]))
    nviol = 0
    if real_fail:
        f = real_fail[0]
        path = _write_replay(pid, {"kind": "monitor", "property": pid, "seed": seed, "tier": tier, "failure": f,
                                   "all_failures": real_fail[:5],
                                   "correspondence_also_broken": [b["diffs"] for b in corr_bad[:3]],
                                   "proof_broken": proof_broken})
        lines.append("VIOLATION property=%s replay=%s" % (pid, path))
        nviol = len(real_fail)
    elif corr_bad or proof_broken:
        what = []
        if proof_broken:
            what.append({"broken": "proof", "file": "coq/theories/Props/%s.v" % pid, "theorems": pr["theorems"],
                         "log": pr["log"][-2000:]})
        for b in corr_bad[:5]:
            what.append({"broken": "correspondence", "suite": b["suite"], "diffs": b["diffs"], "driver_line": b["line"],
                         "impl": b["impl"], "model": b["model"], "case": b.get("case")})
        path = _write_replay(pid, {"kind": "no-failing-input-found", "property": pid, "seed": seed, "tier": tier,
                                   "no_longer_checks": what, "searched_evaluations": searched})
        lines.append("VIOLATION property=%s replay=%s no-failing-input-found" % (pid, path))
        nviol = 1

    # ---------------- 6. evidence
    tb = table.trusted_base(pid, pr)
    cov = {
        "obligations": len(pr["theorems"]),
        "discharged": len(pr["accepted"]) if pr["ok"] else 0,
        "checker_cmd": pr["cmd"],
        "trusted_base": tb,
        "theorems": pr["theorems"],
        "axioms_per_theorem": pr["axioms"],
        "coqchk": pr.get("coqchk"),
        "proof_result_cached": bool(pr.get("cached")),
        "evaluations": corr_cases + (mon.evaluations if mon else 0) + searched,
        "distinct_nontrivial": nontrivial + (mon.nontrivial if mon else 0),
        "rule": spec["rule"],
        "samples": samples + (mon.samples[:2] if mon else []),
        "correspondence": {"cases": corr_cases, "disagreements": len(corr_bad), "max_ulp_distance": stats.max_ulp,
                           "floats_compared": stats.floats, "projection": [s[2] and sorted(s[2]) for s in spec["corr"]],
                           "suites": [s[0] for s in spec["corr"]], "distribution": dist},
        "in_kernel_correspondence": kres and {"evaluated_by_vm_compute": kres["evaluated"],
                                              "evaluated_on_flocq_binary64": kres.get("evaluated_on_binary64", 0), "files": kres["files"],
                                              "disagreements": len(kres["disagreements"]), "error": kres["error"]},
        "in_kernel_whole_calls": cres and {"rate_predict_calls_evaluated_on_flocq_binary64": cres["evaluated"], "files": cres["files"],
                                           "libm_calls_tabulated": cres["libm_calls_tabulated"],
                                           "disagreements": len(cres["disagreements"]), "error": cres["error"]},
        "monitor": {"evaluations": mon.evaluations if mon else 0, "distinct_nontrivial": mon.nontrivial if mon else 0,
                    "failures": len(mon_fail), "distribution": mon.dist if mon else {}, "search_evaluations": searched},
        "known_findings_reported": sorted({k["id"] for k, _ in reported_known}),
        "partial": spec.get("partial", ""),
        "repo": impl.REPO,
    }
    ev = {"property_id": pid, "tier": tier, "seed": seed, "level": "proof", "coverage": cov,
          "assumptions": table.assumptions(pid), "wall_s": round(time.time() - t0, 2), "violations": nviol}
    evdir = os.environ.get("OSV_EVIDENCE_DIR") or os.path.join(VERIF, "evidence")
    os.makedirs(evdir, exist_ok=True)
    # --no-proofs is a development switch (the proof step is skipped, so the record would claim 0 obligations at level
    # "proof"): such a run never overwrites the evidence of a full run in the default directory
    if not (no_proofs and not os.environ.get("OSV_EVIDENCE_DIR")):
        with open(os.path.join(evdir, pid + ".json"), "w") as f:
            json.dump(ev, f, indent=1, default=str)
    for ln in lines:
        print(ln)
    print("%s %s: theorems %d/%d, correspondence %d cases (%d disagree, max %d ulp), monitor %d evaluations (%d fail), %.1fs" % (
        pid, tier, cov["discharged"], cov["obligations"], corr_cases, len(corr_bad), stats.max_ulp,
        mon.evaluations if mon else 0, len(mon_fail), time.time() - t0))
    return 1 if nviol else 0


def _run_monitor(pid, rng, budget, tier):
    """run the property's monitor; an exception raised by the implementation on a call the monitor made on a
    valid input is itself a failure of the property's predicate (there is no posterior / prediction to judge)"""
    from . import api, monbase, monitors
    try:
        return monitors.MONITORS[pid](rng, budget, tier)
    except api.ArgsWritten as e:
        mon = monbase.Mon(pid)
        mon.case(e.case)
        mon.fail("a call modified the caller's argument lists", e.case, str(e))
        return mon
    except api.ImplRaised as e:
        mon = monbase.Mon(pid)
        mon.case(e.case)
        mon.fail("valid call raised", e.case, "%s: %s" % (type(e.exc).__name__, e.exc))
        return mon
    except RecursionError:
        raise
    except Exception as e:  # noqa: BLE001  (IndexError, KeyError, TypeError, AttributeError, ValueError, ArithmeticError ...)
        # the predicate could not even be evaluated on what the implementation returned (wrong shape, None where a
        # number belongs, ...): reported against the case being examined
        import traceback
        case = monbase.LAST_CASE[0]
        mon = monbase.Mon(pid)
        mon.case(case)
        mon.fail("the result could not be evaluated (malformed result)", case,
                 "%s: %s | %s" % (type(e).__name__, e, traceback.format_exc().strip().splitlines()[-3].strip()))
        return mon


def _retuple(x):
    """JSON turned the value tuples of a case into lists; the harness indexes them the same way, only the sentinel
    comparisons need real tuples"""
    if isinstance(x, list):
        if x and isinstance(x[0], str) and x[0] in ("N", "B", "I", "F", "S", "O", "L", "T", "R"):
            return tuple(_retuple(y) for y in x)
        return [_retuple(y) for y in x]
    if isinstance(x, dict):
        return {k: _retuple(v) for k, v in x.items()}
    return x


def _strip(obs):
    return {k: v for k, v in obs.items() if not k.startswith("_") or k == "_msg"}


def _write_replay(pid, obj):
    from .monbase import jsonable
    body = json.dumps(jsonable(obj), indent=1, default=str)
    h = hashlib.sha1(body.encode()).hexdigest()[:10]
    rdir = os.environ.get("OSV_REPLAY_DIR") or os.path.join(VERIF, "replays")
    os.makedirs(rdir, exist_ok=True)
    path = os.path.join(rdir, "%s-%s.json" % (pid, h))
    with open(path, "w") as f:
        f.write(body)
    return os.path.relpath(path, VERIF)


def replay(pid, path):
    """re-run what a replay file records: the monitor with the recorded seed/tier (deterministic), or the
    disagreeing correspondence cases on both sides"""
    from . import compare, enc, impl, monitors, table
    obj = json.load(open(path if os.path.isabs(path) else os.path.join(VERIF, path)))
    print("replay of %s (%s)" % (path, obj["kind"]))
    if obj["kind"] == "monitor":
        f = obj["failure"]
        print("recorded failure: clause=%s\n detail=%s\n case=%s" % (f["clause"], f["detail"], json.dumps(f["case"])[:2000]))
        spec = table.PROPS[pid]
        rng = random.Random("%s-%d-%s" % (pid, obj["seed"], obj["tier"]))
        # the monitor's PRNG is consumed by the correspondence suites first, exactly as in the original run
        mult = 1 if obj["tier"] == "quick" else 20
        for suite_name, kwargs, proj, n in spec["corr"]:
            table.build_suite(suite_name, rng, n * mult, obj["tier"], **kwargs)
        m = monitors.MONITORS[pid](rng, spec.get("mon_budget", 1500) * mult, obj["tier"])
        hit = [g for g in m.failures if g["clause"] == f["clause"]]
        print("re-run now: %d failure(s), %d with the same clause" % (len(m.failures), len(hit)))
        for g in (hit or m.failures)[:1]:
            print(" detail now: %s" % g["detail"])
        return 1 if m.failures else 0
    bad = 0
    for w in obj["no_longer_checks"]:
        if w["broken"] != "correspondence":
            print("broken proof: %s\n%s" % (w.get("file"), w.get("log", "")[-1500:]))
            continue
        print("correspondence case (suite %s): recorded diffs %s" % (w["suite"], w["diffs"]))
        print(" driver line: %s" % w["driver_line"][:1500])
        if w.get("case") and w["case"].get("op"):
            # run the recorded case again on the implementation in $VERIF_REPO and on the extracted model
            c = _retuple(w["case"])
            i = impl.run_case(c)
            m = enc.run_model([c])[0]
            d = compare.compare(c, i, m, compare.Stats())
            print(" re-run now: implementation %s" % json.dumps(_strip(i), default=str)[:1200])
            print("             model          %s" % json.dumps(m, default=str)[:1200])
            print("             differences    %s" % (d or "none"))
            bad += 1 if d else 0
    return 1 if bad else 0


if __name__ == "__main__":
    sys.exit(main())

"""Building the Coq development and reading what the kernel accepted."""
import fcntl
import os
import re
import shutil
import subprocess
import time

from .enc import VERIF

COQ = os.path.join(VERIF, "coq")
OCAML = os.path.join(VERIF, "ocaml")
WORK = os.path.join(VERIF, ".work")

# Axioms a theorem may depend on: only ones the standard library itself declares.
ALLOWED_AXIOMS = {
    "ClassicalDedekindReals.sig_forall_dec": "real numbers (Coq stdlib)",
    "ClassicalDedekindReals.sig_not_dec": "real numbers (Coq stdlib)",
    "FunctionalExtensionality.functional_extensionality_dep": "functional extensionality (Coq stdlib; used by the stdlib reals)",
    "Classical_Prop.classic": "excluded middle (Coq stdlib)",
    "Eqdep.Eq_rect_eq.eq_rect_eq": "Streicher K (Coq stdlib)",
}
FORBIDDEN = re.compile(r"\b(Admitted|admit|give_up|Axiom|Axioms|Parameter|Parameters|Conjecture|Conjectures|Hypothesis|Hypotheses|Variable|Variables|Context)\b"
                       r"|Unset\s+Guard|bypass_check|type-in-type|impredicative-set|Admit\s+Obligations")


def _lock(shared=False):
    """exclusive while the development is (re)built; shared while a Props file is compiled against the .vo files, so
    that checks running in parallel never read a half-rebuilt tree"""
    os.makedirs(WORK, exist_ok=True)
    f = open(os.path.join(WORK, "build.lock"), "a")
    fcntl.flock(f, fcntl.LOCK_SH if shared else fcntl.LOCK_EX)
    return f


def ensure_built(clean=False, log=None):
    """make the Coq development (full .vo build), re-extract, rebuild the OCaml driver. Returns (ok, output)."""
    lock = _lock()
    try:
        out = []
        if clean:
            subprocess.run(["bash", "-c", "cd %s && [ -f Makefile ] && make -s clean >/dev/null 2>&1; rm -f Makefile Makefile.conf .Makefile.d" % COQ])
        mk, cp = os.path.join(COQ, "Makefile"), os.path.join(COQ, "_CoqProject")
        if not os.path.exists(mk) or os.path.getmtime(mk) < os.path.getmtime(cp):
            p = subprocess.run(["coq_makefile", "-f", "_CoqProject", "-o", "Makefile"], cwd=COQ, capture_output=True, text=True)
            out.append(p.stdout + p.stderr)
        # -k: a lemma file that no longer checks must only take down the properties that depend on it; each
        # property's own Props file is re-checked separately (check_props) and fails there if a dependency is missing
        p = subprocess.run(["timeout", "3000", "make", "-k", "-j16"], cwd=COQ, capture_output=True, text=True)
        out.append(p.stdout[-4000:] + p.stderr[-4000:])
        # a source that failed to rebuild must not leave a stale .vo behind for its dependents to load
        for root, _, files in os.walk(os.path.join(COQ, "theories")):
            for f in files:
                if f.endswith(".v"):
                    v, vo = os.path.join(root, f), os.path.join(root, f + "o")
                    if os.path.exists(vo) and os.path.getmtime(vo) < os.path.getmtime(v):
                        os.unlink(vo)
        p2 = subprocess.run(["timeout", "600", "make", "theories/Extract.vo"], cwd=COQ, capture_output=True, text=True)
        ok = p2.returncode == 0
        if not ok:
            out.append(p2.stdout[-2000:] + p2.stderr[-2000:])
        src = os.path.join(COQ, "model.ml")
        if ok and os.path.exists(src):
            dst = os.path.join(OCAML, "model.ml")
            if not os.path.exists(dst) or open(src).read() != open(dst).read():
                shutil.copy(src, dst)
                shutil.copy(os.path.join(COQ, "model.mli"), os.path.join(OCAML, "model.mli"))
        drv = os.path.join(OCAML, "driver")
        need = (not os.path.exists(drv)) or any(
            os.path.getmtime(os.path.join(OCAML, f)) > os.path.getmtime(drv) for f in ("model.ml", "model.mli", "driver.ml")
            if os.path.exists(os.path.join(OCAML, f)))
        if ok and need:
            p = subprocess.run(["ocamlfind", "ocamlopt", "-w", "-a", "model.mli", "model.ml", "driver.ml", "-o", "driver"],
                               cwd=OCAML, capture_output=True, text=True)
            out.append(p.stdout + p.stderr)
            ok = ok and p.returncode == 0
        return ok, "\n".join(out)
    finally:
        lock.close()


def forbidden_tokens():
    """scan every .v file of the development for declarations/flags that would weaken the result"""
    hits = []
    for root, _, files in os.walk(os.path.join(COQ, "theories")):
        for f in files:
            if not f.endswith(".v"):
                continue
            path = os.path.join(root, f)
            text = open(path).read()
            text_nc = _strip_comments(text)
            for m in FORBIDDEN.finditer(text_nc):
                # Hypothesis / Variable / Context inside a Section are premises of the closed theorem; outside a
                # section they would declare axioms
                if m.group(1) in ("Hypothesis", "Hypotheses", "Variable", "Variables", "Context") and _inside_section(text_nc, m.start()):
                    continue
                if m.group(1) is None and False:
                    continue
                hits.append("%s: %s" % (os.path.relpath(path, VERIF), m.group(0)))
    return hits


def _strip_comments(t):
    out, depth, i = [], 0, 0
    while i < len(t):
        if t.startswith("(*", i):
            depth += 1
            i += 2
        elif t.startswith("*)", i) and depth:
            depth -= 1
            i += 2
        else:
            if not depth:
                out.append(t[i])
            i += 1
    return "".join(out)


def _inside_section(text, pos):
    opened = len(re.findall(r"^\s*Section\s+\w+", text[:pos], re.M))
    closed = len(re.findall(r"^\s*End\s+\w+", text[:pos], re.M))
    return opened > closed


def props_file(pid):
    return os.path.join(COQ, "theories", "Props", pid + ".v")


def _dep_closure(pid):
    """the .v sources Props/<pid>.v depends on (transitively), read from coq_makefile's dependency file"""
    dfile = os.path.join(COQ, ".Makefile.d")
    if not os.path.exists(dfile):
        return None
    deps = {}
    for line in open(dfile).read().replace("\\\n", " ").splitlines():
        if ":" not in line:
            continue
        lhs, rhs = line.split(":", 1)
        tgt = [t for t in lhs.split() if t.endswith(".vo")]
        if not tgt:
            continue
        src = tgt[0][:-1]
        deps.setdefault(src, set()).update(d[:-1] for d in rhs.split() if d.endswith(".vo") and d.startswith("theories/"))
    root = "theories/Props/%s.v" % pid
    if root not in deps:
        return None
    seen, todo = set(), [root]
    while todo:
        x = todo.pop()
        if x in seen:
            continue
        seen.add(x)
        todo.extend(deps.get(x, ()))
    return sorted(seen)


def _sources_digest(pid=None):
    import hashlib
    h = hashlib.sha256()
    files = _dep_closure(pid) if pid else None
    if files is None:
        files = []
        for root, dirs, fs in sorted(os.walk(os.path.join(COQ, "theories"))):
            dirs.sort()
            files += [os.path.relpath(os.path.join(root, f), COQ) for f in sorted(fs) if f.endswith(".v")]
    for f in files:
        h.update(f.encode())
        h.update(open(os.path.join(COQ, f), "rb").read())
    return h.hexdigest()[:24]


def check_props(pid, use_cache=True):
    """The kernel's verdict on theories/Props/<pid>.v.  The result of compiling it (coqc, with the Print Assumptions
    output) is cached under .work/ keyed by a digest of EVERY .v source of the development, so the file is
    re-checked whenever any model, lemma or property source changes and re-used otherwise (the proofs do not depend
    on the repository under test; the correspondence check, which does, is never cached).  The digest covers the
    transitive dependency closure of the Props file (from coq_makefile's dependency file)."""
    import json
    cdir = os.path.join(WORK, "props-cache")
    key = os.path.join(cdir, "%s-%s.json" % (pid, _sources_digest(pid)))
    if use_cache and os.environ.get("OSV_NO_PROOF_CACHE") != "1" and os.path.exists(key):
        try:
            res = json.load(open(key))
            res["cached"] = True
            return res
        except Exception:  # noqa: BLE001
            pass
    res = _check_props(pid)
    if res["ok"]:
        os.makedirs(cdir, exist_ok=True)
        tmp = key + ".%d" % os.getpid()
        json.dump(res, open(tmp, "w"))
        os.replace(tmp, key)
    return res


def _check_props(pid):
    """Compile theories/Props/<pid>.v now and parse the Print Assumptions output.
    Returns dict(theorems=[...], accepted=[...], axioms={thm: [names]}, bad_axioms=[...], ok=bool, log=str)"""
    path = props_file(pid)
    res = {"theorems": [], "accepted": [], "axioms": {}, "bad_axioms": [], "ok": False, "log": "", "cmd": ""}
    if not os.path.exists(path):
        res["log"] = "no Props file"
        return res
    text = _strip_comments(open(path).read())
    res["theorems"] = re.findall(r"^\s*(?:Theorem|Lemma|Corollary|Example|Remark)\s+([A-Za-z0-9_']+)", text, re.M)
    os.makedirs(WORK, exist_ok=True)
    outdir = os.path.join(WORK, "props-%s-%d" % (pid, os.getpid()))
    os.makedirs(outdir, exist_ok=True)
    outvo = os.path.join(outdir, "%s.vo" % pid)
    cmd = ["timeout", "900", "coqc", "-q", "-Q", "theories", "OSV", "-o", outvo, os.path.relpath(path, COQ)]
    res["cmd"] = "cd coq && make -j16 && " + " ".join(cmd[2:])
    t0 = time.time()
    lk = _lock(shared=True)
    try:
        p = subprocess.run(cmd, cwd=COQ, capture_output=True, text=True)
    finally:
        lk.close()
    shutil.rmtree(outdir, ignore_errors=True)
    res["log"] = (p.stdout + p.stderr)[-6000:]
    res["coqc_s"] = round(time.time() - t0, 2)
    if p.returncode != 0:
        return res
    # Print Assumptions blocks, in order
    blocks = re.split(r"(?=^Closed under the global context|^Axioms:|^Section Variables:)", p.stdout, flags=re.M)
    blocks = [b for b in blocks if b.startswith(("Closed under", "Axioms:", "Section Variables:"))]
    printed = re.findall(r"Print\s+Assumptions\s+([A-Za-z0-9_'.]+)\s*\.", text)
    for name, b in zip(printed, blocks):
        if b.startswith("Closed under"):
            res["axioms"][name] = []
        else:
            names = [x for x in re.findall(r"^([A-Za-z_][A-Za-z0-9_'.]*)\s*:", b, re.M) if x not in ("Axioms", "Section")]
            res["axioms"][name] = names
            for nme in names:
                if nme not in ALLOWED_AXIOMS:
                    res["bad_axioms"].append("%s depends on %s" % (name, nme))
    res["accepted"] = list(res["theorems"])
    missing = [t for t in printed if t not in res["axioms"]]
    res["ok"] = not res["bad_axioms"] and not missing and len(printed) > 0
    if missing:
        res["log"] += "\nPrint Assumptions output missing for %s" % missing
    return res


CHK_ALLOWED = {
    "Coq.Logic.FunctionalExtensionality.functional_extensionality_dep",
    "Coq.Reals.ClassicalDedekindReals.sig_not_dec",
    "Coq.Reals.ClassicalDedekindReals.sig_forall_dec",
    "Coq.Logic.Classical_Prop.classic",            # loaded with the Reals library (Rtrigo etc.), not used by our theorems
    "Coq.Logic.Eqdep.Eq_rect_eq.eq_rect_eq",
    "Coq.Logic.ProofIrrelevance.proof_irrelevance",
    "Coq.Logic.ClassicalEpsilon.constructive_indefinite_description",
    "Coq.Logic.PropExtensionality.propositional_extensionality",
}


def coqchk(pid):
    """thorough tier: re-check the compiled Props file and everything it depends on with the independent checker;
    cached by source digest like check_props"""
    import json
    cdir = os.path.join(WORK, "props-cache")
    key = os.path.join(cdir, "chk-%s-%s.json" % (pid, _sources_digest(pid)))
    if os.environ.get("OSV_NO_PROOF_CACHE") != "1" and os.path.exists(key):
        return json.load(open(key))
    t0 = time.time()
    cmd = ["timeout", "3000", "coqchk", "-silent", "-o", "-Q", "theories", "OSV", "OSV.Props.%s" % pid]
    p = subprocess.run(cmd, cwd=COQ, capture_output=True, text=True)
    out = p.stdout + p.stderr
    res = {"cmd": "cd coq && " + " ".join(cmd[2:]), "rc": p.returncode, "wall_s": round(time.time() - t0, 1), "axioms": [], "ok": False,
           "tail": out[-1500:]}
    if p.returncode == 0 and "CONTEXT SUMMARY" in out:
        summ = out[out.index("CONTEXT SUMMARY"):]
        m = re.search(r"\* Axioms:(.*?)\n\s*\n\* Constants", summ, re.S)
        ax = [x.strip() for x in (m.group(1) if m else "").split("\n") if x.strip() and x.strip() != "<none>"]
        res["axioms"] = ax
        clean = all(re.search(r"%s: <none>" % re.escape(lbl), summ) for lbl in (
            "relying on type-in-type", "relying on unsafe (co)fixpoints", "whose positivity is assumed"))
        res["ok"] = clean and all(a in CHK_ALLOWED for a in ax)
    if res["ok"]:
        os.makedirs(cdir, exist_ok=True)
        json.dump(res, open(key, "w"))
    return res

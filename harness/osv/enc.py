"""Encoding of cases as driver lines, and running the extracted model."""
import json
import os
import subprocess
import tempfile

from .impl import hx, id_str  # noqa: F401

VERIF = os.path.realpath(os.path.join(os.path.dirname(__file__), "..", ".."))
DRIVER = os.path.join(VERIF, "ocaml", "driver")


def zhex(n):
    return ("-%x" % -n) if n < 0 else ("%x" % n)


def name_tok(nm):
    if nm is None:
        return "n"
    truthy, tag = nm
    return "%s:%d" % ("s1" if truthy else "s0", tag)


def val_toks(v, out):
    t = v[0]
    if t == "N":
        out.append("N")
    elif t == "B":
        out.append("B1" if v[1] else "B0")
    elif t == "I":
        out.append("I" + zhex(v[1]))
    elif t == "F":
        num, den = float(v[1]).as_integer_ratio()
        k = den.bit_length() - 1
        assert den == 1 << k
        out.append("F%s:%s:%d" % (hx(v[1]), zhex(num), k))
    elif t == "S":
        out.append("S1" if v[1] else "S0")
    elif t == "O":
        out.append("O1" if v[1] else "O0")
    elif t in ("L", "T"):
        out.append("%s%d" % (t, len(v[1])))
        for x in v[1]:
            val_toks(x, out)
    elif t == "R":
        _, kind, mu, sigma, rid, nm = v
        out.extend(["R" + kind, hx(mu), hx(sigma), str(rid), name_tok(nm)])
    else:
        raise ValueError(v)
    return out


def state_toks(st):
    return [hx(st["mu"]), hx(st["sigma"]), hx(st["beta"]), hx(st["kappa"]), hx(st["tau"]), st["gamma"],
            "1" if st["limit"] else "0"]


def case_line(c):
    op = c["op"]
    if op in ("rate", "pwin", "pdraw", "prank"):
        toks = [op, c["kind"]] + state_toks(c["st"])
        for a in c["args"]:
            val_toks(a, toks)
    elif op == "gauss":
        toks = ["gauss", c["fn"], hx(c["x"])] + ([hx(c["t"])] if "t" in c else [])
    elif op == "crt":
        toks = ["crt", c["kind"]] + val_toks(c["v"], []) + [name_tok(None if c.get("omit_name") else c.get("name"))]
    elif op == "mrating":
        toks = ["mrating"] + state_toks(c["st"]) + val_toks(c["mu"], []) + val_toks(c["sigma"], []) + [
            name_tok(c.get("name"))]
    elif op == "dcopy":
        toks = ["dcopy"] + val_toks(c["r"], [])
    elif op == "cmp":
        toks = ["cmp", c["cmp"]] + val_toks(c["a"], []) + val_toks(c["b"], [])
    elif op == "ordinal":
        toks = ["ordinal"] + val_toks(c["a"], []) + [hx(c.get("z", 3.0))]
    elif op == "minit":
        toks = ["minit"] + [("N" if c.get(k) is None else hx(c[k])) for k in ("mu", "sigma", "beta", "kappa", "tau")] + [
            c.get("gamma") or "N", "N" if c.get("limit") is None else ("1" if c["limit"] else "0")]
    elif op == "helpers":
        toks = ["helpers", hx(c["beta"])] + val_toks(c["teams"], []) + val_toks(c["ranks"], [])
    elif op == "order":
        f = c["fn"]
        if f in ("rankdata", "argsort", "pysum"):
            toks = [f, str(len(c["xs"]))] + [hx(x) for x in c["xs"]]
        elif f in ("unwind", "calcrank"):
            toks = [f] + val_toks(("L", c["keys"]), [])
        elif f == "ladder":
            toks = ["ladder", str(c["n"])]
        else:
            raise ValueError(f)
    else:
        raise ValueError(op)
    return " ".join(toks)


def run_model(cases, libm=False):
    """Run the extracted model on the cases; one JSON observation per case (libm: with the log of the libm calls)."""
    if not cases:
        return []
    with tempfile.NamedTemporaryFile("w", suffix=".cases", delete=False, dir=os.environ.get("OSV_WORK")) as f:
        for c in cases:
            f.write(case_line(c) + "\n")
        path = f.name
    try:
        with open(path) as fin:
            p = subprocess.run(["bash", "-c", "ulimit -s 1000000 2>/dev/null; exec \"$0\" \"$@\"", DRIVER] + (["--libm"] if libm else []), stdin=fin,
                               capture_output=True, text=True, timeout=3600)
        lines = p.stdout.splitlines()
        if p.returncode != 0 or len(lines) != len(cases):
            raise RuntimeError("driver failed rc=%s lines=%d/%d stderr=%s" % (
                p.returncode, len(lines), len(cases), p.stderr[-500:]))
        return [json.loads(x) for x in lines]
    finally:
        os.unlink(path)

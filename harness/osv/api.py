"""Number-level helpers to call the implementation with fresh objects."""
import copy
import math

from . import impl
from .impl import MODEL, RATING, hx, id_str, make_model, py_name, to_python

OMIT = ("N",)


class ImplRaised(Exception):
    """the implementation raised on a call that a monitor made expecting a normal return"""

    def __init__(self, case, exc):
        Exception.__init__(self, "%s: %s" % (type(exc).__name__, exc))
        self.case = case
        self.exc = exc


class ArgsWritten(ImplRaised):
    """the call returned, but the list the caller passed as ranks= / scores= / teams no longer holds what the caller wrote
    into it: the caller's own record of the game is changed behind its back, and a later call given the same list object
    rates a different game than the one the caller describes"""

    def __init__(self, case, what):
        Exception.__init__(self, what)
        self.case = case
        self.exc = None


_POOL = None


_SAME_IDS = False
_POOL_N = 0


def pool(active):
    """start a new iteration of a monitor: when active, all calls of this iteration that would construct a fresh model
    for the same (kind, parameters) go through ONE model object instead (nothing may be remembered between calls);
    every seventh pooled iteration all ratings built from plain numbers carry ONE id (stored states of one player / colliding
    user-assigned ids: nothing may be keyed by id)"""
    global _POOL, _SAME_IDS, _POOL_N
    _POOL = {} if active else None
    _POOL_N += 1
    _SAME_IDS = bool(active) and _POOL_N % 7 == 0      # 7: coprime with the 5 kinds and the on/off alternation


def _model_for(kind, st):
    if _POOL is None:
        return make_model(kind, st)
    key = (kind, repr(sorted(st.items())))
    if key not in _POOL:
        _POOL[key] = make_model(kind, st)
    return _POOL[key]


def nums_of(teams_val):
    """[(mu, sigma)] per team from a ("L", [("L", [("R", ...)])]) value"""
    return [[(p[2], p[3]) for p in t[1]] for t in teams_val[1]]


def teams_val(kind, nums, ids=None, names=None):
    out = []
    c = 0
    for t in nums:
        team = []
        for mu, sg in t:
            c += 1
            team.append(("R", kind, mu, sg, (ids[c - 1] if ids else (7 if _SAME_IDS else 10_000_000 + c)), (names[c - 1] if names else None)))
        out.append(("L", team))
    return ("L", out)


def call_rate(kind, st, teams, ranks=OMIT, scores=OMIT, tau=OMIT, lim=OMIT, model=None):
    """teams: a value or nums.  Returns (result nums, result objects, passed objects, model)"""
    if not (isinstance(teams, tuple) and teams and teams[0] == "L"):
        teams = teams_val(kind, teams)
    m = model if model is not None else _model_for(kind, st)
    objs = to_python(teams)
    kw = {}
    for nm, v in (("ranks", ranks), ("scores", scores), ("tau", tau), ("limit_sigma", lim)):
        if v != OMIT:
            kw[nm] = to_python(v)
    keep = {nm: [(type(x), repr(x)) for x in kw[nm]] for nm in ("ranks", "scores") if isinstance(kw.get(nm), list)}
    shape = [(id(t), [id(p) for p in t]) for t in objs]
    try:
        res = m.rate(objs, **kw)
    except Exception as e:  # noqa: BLE001
        raise ImplRaised({"op": "rate", "kind": kind, "st": st, "teams": teams, "ranks": ranks, "scores": scores,
                          "tau": tau, "lim": lim}, e) from e
    for nm, was in keep.items():
        if [(type(x), repr(x)) for x in kw[nm]] != was:
            raise ArgsWritten({"op": "rate", "kind": kind, "st": st, "teams": teams, "ranks": ranks, "scores": scores,
                               "tau": tau, "lim": lim},
                              "rate() changed the list passed as %s=: the caller wrote %s, after the call it reads %r" % (
                                  nm, [w[1] for w in was], kw[nm]))
    if [(id(t), [id(p) for p in t]) for t in objs] != shape:
        raise ArgsWritten({"op": "rate", "kind": kind, "st": st, "teams": teams, "ranks": ranks, "scores": scores,
                           "tau": tau, "lim": lim}, "rate() re-arranged the list of teams (or a team's list of players) it was passed")
    return [[(p.mu, p.sigma) for p in t] for t in res], res, objs, m


def rate_nums(kind, st, teams, **kw):
    return call_rate(kind, st, teams, **kw)[0]


def call_predict(op, kind, st, teams, model=None, share=False, alias=None):
    """alias: list of (j, i): position j holds the very same list object as position i"""
    if not (isinstance(teams, tuple) and teams and teams[0] == "L"):
        teams = teams_val(kind, teams)
    m = model if model is not None else _model_for(kind, st)
    objs = to_python(teams, share={} if share else None)
    for j, i in (alias or []):
        objs[j] = objs[i]
    f = {"pwin": m.predict_win, "pdraw": m.predict_draw, "prank": m.predict_rank}[op]
    try:
        return f(objs)
    except Exception as e:  # noqa: BLE001
        raise ImplRaised({"op": op, "kind": kind, "st": st, "teams": teams, "share": share, "alias": alias}, e) from e


def hexnums(res):
    return [[(hx(a), hx(b)) for a, b in t] for t in res]


def ulp(x):
    x = abs(x)
    if x == 0 or math.isinf(x) or math.isnan(x):
        return 5e-324
    return math.ulp(x)


def eff_tau(st, tau):
    if tau == OMIT:
        return st["tau"]
    return float(tau[1])


def eff_limit(st, lim):
    if lim == OMIT:
        return bool(st["limit"])
    return bool(lim[1])


def order_vals(ranks, scores):
    """numeric keys (smaller = better) or None"""
    if ranks != OMIT and ranks[0] == "L" and ranks[1]:
        return [v[1] for v in ranks[1]]
    if scores != OMIT and scores[0] == "L" and scores[1]:
        return [-v[1] for v in scores[1]]
    return None

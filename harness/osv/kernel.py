"""Thorough tier: the discrete entry points of the model evaluated INSIDE Coq (vm_compute on the very definitions the
theorems are about) on the same cases the extracted model and the implementation ran, three-way agreement
kernel = extracted = implementation.  This cross-checks extraction and the OCaml driver on the part of the model
that needs no floating point (sorting, rankings, validation, comparison of ordinals on a scaled integer carrier)."""
import os
import re
import subprocess
import tempfile

from .enc import VERIF

COQ = os.path.join(VERIF, "coq")
KIND = {"PL": "PL", "BTF": "BTF", "BTP": "BTP", "TMF": "TMF", "TMP": "TMP"}
HEADER = """From Coq Require Import List ZArith Bool Arith.
From OSV Require Import Num Order Gauss Core Predict PyVal Prog RatingOps.
From OSV.Lemmas Require Import ProgL.
Import ListNotations.
Local Open Scope nat_scope.
Definition same (a b : list (list nat)) : bool :=
  if list_eq_dec (list_eq_dec Nat.eq_dec) a b then true else false.
Definition vclass {A} (r : res A) : list (list nat) :=
  match r with Ok _ => [[0]] | Raise TypeError => [[1]] | Raise ValueError => [[2]] end.
Definition bclass (r : res bool) : list (list nat) :=
  match r with Ok false => [[0]] | Ok true => [[1]] | Raise TypeError => [[2]] | Raise ValueError => [[3]] end.
Definition zkeys (l : list (Z * Z)) : list key := l.
"""
# float-valued entry points evaluated on Flocq's binary64 (IEEE 754 round-to-nearest-even as specified in Coq):
# this checks the OCaml driver's float dictionary (native doubles) against the IEEE semantics on the arithmetic-only
# parts of the model (no exp/erfc/pow involved)
HEADER_F = """From Coq Require Import List ZArith Bool.
From Flocq Require Import IEEE754.Binary IEEE754.Bits.
From OSV Require Import Num Order Gauss Core Predict RatingOps FloatInst.
Import ListNotations.
Definition N64 := B64Num (fun x => x) (fun x => x) (fun x => x) (fun x => x).
Definition b (z : Z) : binary64 := b64_of_bits z.
Definition samez (a b : list Z) : bool := if list_eq_dec Z.eq_dec a b then true else false.
"""


def _z(n):
    if abs(n) >= 1 << 64:       # Coq parses long decimal numerals slowly; hexadecimal ones in linear time
        return "(%s0x%x)%%Z" % ("-" if n < 0 else "", abs(n))
    return "(%d)%%Z" % n


def _key(v):
    t = v[0]
    if t == "B":
        return "(%s, 0%%Z)" % _z(1 if v[1] else 0)
    if t == "I":
        return "(%s, 0%%Z)" % _z(v[1])
    num, den = float(v[1]).as_integer_ratio()
    return "(%s, %s)" % (_z(num), _z(den.bit_length() - 1))


def _val(v, scale=None):
    """a harness value as a Coq term of type [pyval Z]; rating numbers are scaled by 4 into Z (scale != None) or 0"""
    t = v[0]
    if t == "N":
        return "PNone"
    if t == "B":
        return "(PBool %s)" % ("true" if v[1] else "false")
    if t == "I":
        return "(PInt %s)" % _z(v[1])
    if t == "F":
        num, den = float(v[1]).as_integer_ratio()
        return "(PFloat 0%%Z %s %s)" % (_z(num), _z(den.bit_length() - 1))
    if t == "S":
        return "(PStr %s)" % ("true" if v[1] else "false")
    if t == "O":
        return "(POther %s)" % ("true" if v[1] else "false")
    if t in ("L", "T"):
        return "(%s [%s])" % ("PList" if t == "L" else "PTuple", "; ".join(_val(x, scale) for x in v[1]))
    if t == "R":
        _, kind, mu, sg, rid, nm = v
        m, s = (int(round(mu * 4)), int(round(sg * 4))) if scale else (0, 0)
        return "(PRating %s (mkRating %s %s %s NmNone))" % (KIND[kind], _z(m), _z(s), _z(rid))
    raise ValueError(v)


def _quarter(x):
    return float(x) * 4 == int(float(x) * 4) and abs(x) < 1e9


def _ll(x):
    return "[%s]" % "; ".join("[%s]" % "; ".join(str(int(a)) for a in row) for row in x)


def term_and_expected(case, model_obs):
    """(Coq term : list (list nat), expected : list (list nat) as python) or None when the case has no in-kernel form"""
    op = case["op"]
    if model_obs.get("exc") not in (None, "TypeError", "ValueError", "Arith"):
        return None
    if op == "order":
        f = case["fn"]
        if model_obs.get("exc") is not None:
            return None
        r = model_obs["res"]
        if f in ("unwind", "calcrank") and any(k[0] == "F" and float(k[1]).as_integer_ratio()[1].bit_length() > 130 for k in case["keys"]):
            return None      # 2^k with k ~ 1000 (subnormal keys) is computed by repeated multiplication in the VM: too slow
        if f == "unwind":
            n = len(case["keys"])
            ks = "zkeys [%s]" % "; ".join(_key(k) for k in case["keys"])
            return ("(let r := unwind key_leb (%s) (seq 0 %d) in [fst r; snd r])" % (ks, n), [r[0], r[1]])
        if f == "calcrank":
            ks = "zkeys [%s]" % "; ".join(_key(k) for k in case["keys"])
            return ("[calc_rankings key_ltb (%s)]" % ks, [r])
        if f == "ladder":
            return ("(ladder_pairs (seq 0 %d))" % case["n"], r)
        if f in ("rankdata", "argsort"):
            xs = case["xs"]
            dense = {x: i for i, x in enumerate(sorted(set(xs)))}
            zs = "[%s]" % "; ".join(_z(dense[x]) for x in xs)
            fn = "rank_data" if f == "rankdata" else "arg_sort"
            return ("[%s Z.ltb Z.eqb %s]" % (fn, zs), [r])
        return None
    if op in ("rate", "pwin", "pdraw", "prank") and "expect" in case:
        cls = {None: 0, "Arith": 0, "TypeError": 1, "ValueError": 2}[model_obs.get("exc")]
        k = KIND[case["kind"]]
        if op == "rate":
            a = case["args"]
            if a[3][0] != "N":
                return None
            return ("(vclass (@validate_rate Z %s %s %s %s))" % (k, _val(a[0]), _val(a[1]), _val(a[2])), [[cls]])
        return ("(vclass (@check_teams Z %s %s))" % (k, _val(case["args"][0])), [[cls]])
    if op == "cmp":
        a, b = case["a"], case["b"]
        nums = [a[2], a[3]] + ([b[2], b[3]] if b[0] == "R" else [])
        if not all(_quarter(x) for x in nums):
            return None
        if model_obs.get("exc") is None:
            cls = 1 if model_obs["res"] else 0
        else:
            cls = {"TypeError": 2, "ValueError": 3}[model_obs["exc"]]
        opn = {"lt": "OpLt", "le": "OpLe", "gt": "OpGt", "ge": "OpGe", "eq": "OpEq", "ne": "OpNe"}[case["cmp"]]
        ra = "(mkRating %s %s %s NmNone)" % (_z(int(a[2] * 4)), _z(int(a[3] * 4)), _z(a[4]))
        return ("(bclass (@rating_compare Z ZNum %s %s %s %s))" % (opn, KIND[a[1]], ra, _val(b, scale=True)), [[cls]])
    return None


def _bits(x):
    import struct
    return struct.unpack("<Q", struct.pack("<d", float(x)))[0]


def fterm_and_expected(case, model_obs):
    """(Coq term : list Z, expected list of ints) for the float-valued entry points, or None"""
    from .impl import fh
    if model_obs.get("exc") is not None:
        return None
    op = case["op"]
    if op == "order" and case["fn"] == "pysum":
        xs = case["xs"]
        return ("[bits_of_b64 (@py_sum binary64 N64 [%s])]" % "; ".join("b %d" % _bits(x) for x in xs),
                [_bits(fh(model_obs["res"]))])
    if op == "order" and case["fn"] in ("rankdata", "argsort"):
        fn = "rank_data" if case["fn"] == "rankdata" else "arg_sort"
        return ("(map Z.of_nat (%s (@fltb binary64 N64) (@feqb binary64 N64) [%s]))" % (
            fn, "; ".join("b %d" % _bits(x) for x in case["xs"])), [int(r) for r in model_obs["res"]])
    if op == "ordinal":
        a = case["a"]
        z = case.get("z", 3.0)
        return ("[bits_of_b64 (@ordinal binary64 N64 (mkRating (b %d) (b %d) 0%%Z NmNone) (b %d))]" % (
            _bits(a[2]), _bits(a[3]), _bits(z)), [_bits(fh(model_obs["res"]))])
    return None


# ---------------------------------------------------------------------------------------------------------------------
# whole rate / predict calls on Flocq's binary64: the libm functions (exp, erfc, x**2, inv_cdf) are the finite tables of the
# calls the extracted OCaml run made on the same case (driver --libm); every +, -, *, /, sqrt, comparison, conversion and
# the whole control flow are evaluated by vm_compute on the model's own definitions with IEEE semantics as Flocq specifies
# it.  Agreement (bit for bit) ties extraction, the OCaml compiler and the driver's native-double dictionary to the Coq
# model on these cases.
HEADER_R = """From Coq Require Import List ZArith Bool.
From Flocq Require Import IEEE754.BinarySingleNaN IEEE754.Binary IEEE754.Bits.
From OSV Require Import Num Order Gauss Core Predict PyVal Prog RatingOps FloatInst.
Import ListNotations.
Definition b (z : Z) : binary64 := b64_of_bits z.
Fixpoint look (l : list (Z * Z)) (k : Z) : binary64 :=
  match l with [] => b 0x7ff8000000000000%Z | (a, r) :: t => if Z.eqb a k then b r else look t k end.
Definition tab (l : list (Z * Z)) (x : binary64) : binary64 := look l (bits_of_b64 x).
Definition samez (a b : list Z) : bool := if list_eq_dec Z.eq_dec a b then true else false.
Definition rb (p : rating binary64) : list Z := [bits_of_b64 (r_mu p); bits_of_b64 (r_sigma p)].
Definition out_rate (r : res (list (list (rating binary64)))) : list Z :=
  match r with Ok l => flat_map (flat_map rb) l | Raise _ => [(-1)%Z] end.
Definition out_list (r : res (list binary64)) : list Z :=
  match r with Ok l => map bits_of_b64 l | Raise _ => [(-1)%Z] end.
Definition out_one (r : res binary64) : list Z :=
  match r with Ok x => [bits_of_b64 x] | Raise _ => [(-1)%Z] end.
Definition out_rank (r : res (list (nat * binary64))) : list Z :=
  match r with Ok l => flat_map (fun p => [Z.of_nat (fst p); bits_of_b64 (snd p)]) l | Raise _ => [(-1)%Z] end.
Definition gk (N : Num binary64) : gamma_fn binary64 := fun _ k _ _ _ _ => @fdiv _ N (@fone _ N) (@fofZ _ N (Z.of_nat k)).
Definition gr (N : Num binary64) : gamma_fn binary64 := fun _ _ _ _ _ r => @fdiv _ N (@fone _ N) (@fofZ _ N (Z.of_nat (r + 1))).
Definition gt (N : Num binary64) : gamma_fn binary64 :=
  fun _ k _ _ team _ => @fdiv _ N (@fofZ _ N (Z.of_nat (length team))) (@fofZ _ N (Z.of_nat k)).
Definition gm (N : Num binary64) : gamma_fn binary64 :=
  fun c _ mu _ _ _ => @fdiv _ N (@fabs _ N mu) (@fadd _ N (@fabs _ N mu) c).
Definition gp (N : Num binary64) : gamma_fn binary64 :=
  fun c _ _ _ team _ => @fdiv _ N (fold_left (fun acc r => @fadd _ N acc (r_sigma r)) team (@fzero _ N))
                                (@fmul _ N c (@fofZ _ N (Z.of_nat (length team)))).
"""


def _fval(v):
    """a harness value as a Coq term of type [pyval binary64], or None if it has no exact counterpart"""
    t = v[0]
    if t == "N":
        return "PNone"
    if t == "B":
        return "(PBool %s)" % ("true" if v[1] else "false")
    if t == "I":
        return "(PInt %s)" % _z(v[1])
    if t == "F":
        num, den = float(v[1]).as_integer_ratio()
        return "(PFloat (b %d) %s %s)" % (_bits(v[1]), _z(num), _z(den.bit_length() - 1))
    if t == "S":
        return "(PStr %s)" % ("true" if v[1] else "false")
    if t == "O":
        return "(POther %s)" % ("true" if v[1] else "false")
    if t in ("L", "T"):
        xs = [_fval(x) for x in v[1]]
        if any(x is None for x in xs):
            return None
        return "(%s [%s])" % ("PList" if t == "L" else "PTuple", "; ".join(xs))
    if t == "R":
        _, kind, mu, sg, rid, nm = v
        return "(PRating %s (mkRating (b %d) (b %d) %s NmNone))" % (KIND[kind], _bits(mu), _bits(sg), _z(rid))
    return None


def _gamma_term(tag):
    if tag == "gd":
        return "(@gamma_default binary64 N)"
    if tag.startswith("gc:"):
        return "(fun _ _ _ _ _ _ => b %d)" % _bits(float.fromhex(tag[3:]))
    if tag in ("gk", "gr", "gt", "gm", "gp"):
        return "(%s N)" % tag
    return None


def rterm_and_expected(case, obs):
    """(Coq term : list Z, expected) for a whole rate / predict call that returned normally in the extracted run [obs]
    (which carries the libm log), or None"""
    from .impl import fh
    op = case["op"]
    if op == "gauss" and obs.get("exc") is None and "libm" in obs and case["fn"] != "icdf":
        tabs = {"e": [], "c": [], "p": [], "i": []}
        for tag, x, r in obs["libm"]:
            pair = (int(x, 16), int(r, 16))
            if pair not in tabs[tag]:
                tabs[tag].append(pair)
        n = "(B64Num %s %s %s %s)" % tuple("(tab [%s])" % "; ".join("(%d, %d)%%Z" % p for p in tabs[k]) for k in "ecpi")
        f = case["fn"]
        call = "(@%s binary64 N (b %d)%s)" % (f, _bits(case["x"]), (" (b %d)" % _bits(case["t"])) if "t" in case else "")
        return ("(let N := %s in [bits_of_b64 %s])" % (n, call), [_bits(fh(obs["res"]))])
    if op not in ("rate", "pwin", "pdraw", "prank") or obs.get("exc") is not None or "libm" not in obs:
        return None
    st = case["st"]
    g = _gamma_term(st["gamma"])
    args = [_fval(a) for a in case["args"]]
    if g is None or any(a is None for a in args):
        return None
    tabs = {"e": [], "c": [], "p": [], "i": []}
    for tag, x, r in obs["libm"]:
        pair = (int(x, 16), int(r, 16))
        if pair not in tabs[tag]:
            tabs[tag].append(pair)
    if sum(len(v) for v in tabs.values()) > 4000:
        return None

    def tb(l):
        return "(tab [%s])" % "; ".join("(%d, %d)%%Z" % p for p in l)
    n = "(B64Num %s %s %s %s)" % (tb(tabs["e"]), tb(tabs["c"]), tb(tabs["p"]), tb(tabs["i"]))
    stt = "(mkState (b %d) (b %d) (b %d) (b %d) (b %d) %s %s)" % (
        _bits(st["mu"]), _bits(st["sigma"]), _bits(st["beta"]), _bits(st["kappa"]), _bits(st["tau"]), g,
        "true" if st["limit"] else "false")
    k = KIND[case["kind"]]
    if op == "rate":
        body = "out_rate (snd (run (@rate_prog binary64 N %s %s) %s))" % (k, " ".join(args), stt)
        want = [_bits(fh(x)) for t in obs["res"] for p in t for x in p[:2]]
    elif op == "pwin":
        body = "out_list (snd (run (@predict_win_prog binary64 N %s %s) %s))" % (k, args[0], stt)
        want = [_bits(fh(x)) for x in obs["res"]]
    elif op == "pdraw":
        body = "out_one (snd (run (@predict_draw_prog binary64 N %s %s) %s))" % (k, args[0], stt)
        want = [_bits(fh(obs["res"]))]
    else:
        body = "out_rank (snd (run (@predict_rank_prog binary64 N %s %s) %s))" % (k, args[0], stt)
        want = [y for r, p in obs["res"] for y in (int(r), _bits(fh(p)))]
    return ("(let N := %s in %s)" % (n, body), want)


def run_calls(cases, cap, chunk=12, jobs=16):
    """whole rate / predict calls: extracted OCaml run (with libm log) vs vm_compute on Flocq binary64.
    Returns dict(evaluated=, disagreements=[cases], error=)"""
    from . import enc
    res = {"evaluated": 0, "disagreements": [], "error": None, "files": 0, "libm_calls_tabulated": 0}
    elig = [c for c in cases if (c["op"] in ("rate", "pwin", "pdraw", "prank") and _gamma_term(c["st"]["gamma"]) is not None)
            or (c["op"] == "gauss" and c["fn"] != "icdf")][:3 * cap]
    if not elig:
        return res
    obs = enc.run_model(elig, libm=True)
    items = []
    for c, o in zip(elig, obs):
        te = rterm_and_expected(c, o)
        if te is not None:
            items.append((c, te[0], te[1]))
            res["libm_calls_tabulated"] += len(o["libm"])
        if len(items) >= cap:
            break
    res["evaluated"] = len(items)
    if not items:
        return res
    work = tempfile.mkdtemp(prefix="kernel-", dir=os.environ.get("OSV_WORK"))
    try:
        files = []
        for fi in range(0, len(items), chunk):
            part = items[fi:fi + chunk]
            path = os.path.join(work, "R%d.v" % (fi // chunk))
            with open(path, "w") as f:
                f.write(HEADER_R)
                f.write("Definition got : list (list Z) := [\n  %s].\n" % ";\n  ".join(t for _, t, _ in part))
                f.write("Definition want : list (list Z) := [\n  %s].\n" % ";\n  ".join(
                    "[%s]" % "; ".join("(%d)%%Z" % w for w in ws) for _, _, ws in part))
                f.write("Definition bad := filter (fun p => negb (samez (fst (snd p)) (snd (snd p)))) "
                        "(combine (seq 0 (length got)) (combine got want)).\n")
                f.write("Eval vm_compute in (length got, length want, map fst bad).\n")
            files.append((path, [(c, None, None) for c, _, _ in part]))
        res["files"] = len(files)
        procs = []
        for path, part in files:
            procs.append((subprocess.Popen(["timeout", "1200", "coqc", "-q", "-Q", os.path.join(COQ, "theories"), "OSV", path],
                                           stdout=subprocess.PIPE, stderr=subprocess.STDOUT, text=True), part))
            if len(procs) >= jobs:
                _drain(procs, res)
        _drain(procs, res)
        return res
    finally:
        import shutil
        shutil.rmtree(work, ignore_errors=True)


def run(pairs, chunk=400, jobs=16, fcap=None):
    """pairs: list of (case, model_obs). Returns dict(evaluated=, disagreements=[indices], files=, error=)"""
    items = []
    for idx, (c, m) in enumerate(pairs):
        te = term_and_expected(c, m)
        if te is not None:
            items.append((idx, te[0], te[1]))
    fitems = []
    for idx, (c, m) in enumerate(pairs):
        te = fterm_and_expected(c, m)
        if te is not None:
            fitems.append((idx, te[0], te[1]))
    if fcap is not None:
        fitems = fitems[:fcap]        # evaluation on Flocq's binary64 inside Coq is slow (~15 ms per case)
    res = {"evaluated": len(items), "evaluated_on_binary64": len(fitems), "disagreements": [], "error": None, "files": 0}
    if not items and not fitems:
        return res
    work = tempfile.mkdtemp(prefix="kernel-", dir=os.environ.get("OSV_WORK"))
    try:
        files = []
        for fi in range(0, len(items), chunk):
            part = items[fi:fi + chunk]
            name = "K%d" % (fi // chunk)
            path = os.path.join(work, name + ".v")
            with open(path, "w") as f:
                f.write(HEADER)
                f.write("Definition got : list (list (list nat)) := [\n  %s].\n" % ";\n  ".join(t for _, t, _ in part))
                f.write("Definition want : list (list (list nat)) := [\n  %s].\n" % ";\n  ".join(_ll(w) for _, _, w in part))
                f.write("Definition bad := filter (fun p => negb (same (fst (snd p)) (snd (snd p)))) "
                        "(combine (seq 0 (length got)) (combine got want)).\n")
                f.write("Eval vm_compute in (length got, length want, map fst bad).\n")
            files.append((path, part))
        for fi in range(0, len(fitems), 60):
            part = fitems[fi:fi + 60]
            path = os.path.join(work, "F%d.v" % (fi // 60))
            with open(path, "w") as f:
                f.write(HEADER_F)
                f.write("Definition got : list (list Z) := [\n  %s].\n" % ";\n  ".join(t for _, t, _ in part))
                f.write("Definition want : list (list Z) := [\n  %s].\n" % ";\n  ".join(
                    "[%s]" % "; ".join("(%d)%%Z" % w for w in ws) for _, _, ws in part))
                f.write("Definition bad := filter (fun p => negb (samez (fst (snd p)) (snd (snd p)))) "
                        "(combine (seq 0 (length got)) (combine got want)).\n")
                f.write("Eval vm_compute in (length got, length want, map fst bad).\n")
            files.append((path, part))
        res["files"] = len(files)
        procs = []
        for path, part in files:
            procs.append((subprocess.Popen(["timeout", "1200", "coqc", "-q", "-Q", os.path.join(COQ, "theories"), "OSV", path],
                                           stdout=subprocess.PIPE, stderr=subprocess.STDOUT, text=True), part))
            if len(procs) >= jobs:
                _drain(procs, res)
        _drain(procs, res)
        return res
    finally:
        import shutil
        shutil.rmtree(work, ignore_errors=True)


def _drain(procs, res):
    while procs:
        p, part = procs.pop(0)
        out = p.communicate()[0]
        m = re.search(r"=\s*\((\d+),\s*(\d+),\s*\[(.*?)\]\)", out.replace("\n", " "))
        if p.returncode != 0 or not m:
            res["error"] = (res["error"] or "") + out[-800:]
            continue
        if int(m.group(1)) != len(part) or int(m.group(2)) != len(part):
            res["error"] = (res["error"] or "") + "length mismatch %s" % m.group(0)
        for j in [x.strip() for x in m.group(3).split(";") if x.strip()]:
            res["disagreements"].append(part[int(j)][0])

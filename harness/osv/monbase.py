"""Common machinery for property monitors (tests of the implementation's outputs;
they search for failing inputs and guard the real/float gap — never a substitute for a theorem)."""
import hashlib
import json
import math


def jsonable(x):
    if isinstance(x, float):
        if math.isnan(x) or math.isinf(x):
            return repr(x)
        return x
    if isinstance(x, (list, tuple)):
        return [jsonable(y) for y in x]
    if isinstance(x, dict):
        return {str(k): jsonable(v) for k, v in x.items()}
    if isinstance(x, (int, str, bool)) or x is None:
        return x
    return repr(x)


LAST_CASE = [None]      # the case most recently registered by any monitor (for reporting when evaluation itself fails)


class Mon:
    def __init__(self, prop, max_failures=5):
        self.prop = prop
        self.evaluations = 0
        self.seen = set()
        self.nontrivial = 0
        self.failures = []
        self.samples = []
        self.dist = {}
        self.max_failures = max_failures

    def count(self, key, n=1):
        self.dist[key] = self.dist.get(key, 0) + n

    def case(self, case, nontrivial=True, sample_every=997):
        """register one explored case; returns True if it is new"""
        self.evaluations += 1
        LAST_CASE[0] = case
        h = hashlib.sha1(json.dumps(jsonable(case), sort_keys=True).encode()).hexdigest()
        new = h not in self.seen
        if new:
            self.seen.add(h)
            if nontrivial:
                self.nontrivial += 1
        if len(self.samples) < 3 and (self.evaluations % sample_every == 1):
            self.samples.append(jsonable(case))
        return new

    def fail(self, clause, case, detail, observed=None):
        if len(self.failures) < self.max_failures:
            self.failures.append({"property": self.prop, "clause": clause, "case": jsonable(case),
                                  "detail": detail, "observed": jsonable(observed)})
        self.count("FAIL:" + clause)

    @property
    def full(self):
        return len(self.failures) >= self.max_failures

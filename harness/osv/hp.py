"""Self-contained high-precision (decimal, 60 digits) reference for the standard normal and the
truncated-Gaussian corrections V, W, V~, W~.  Used only by monitors (tests)."""
from decimal import Decimal as D
from decimal import getcontext

getcontext().prec = 70
_SQRT2 = D(2).sqrt()
_PI = D("3.14159265358979323846264338327950288419716939937510582097494459230781640628620899862803")
_SQRTPI = _PI.sqrt()
_SQRT2PI = (2 * _PI).sqrt()


def erfc(x):
    x = D(x)
    if x < 0:
        return 2 - erfc(-x)
    if x < 3:
        # Taylor series of erf; terms grow to e^{x^2} <= 8e3 before decaying: 70 digits leave > 60
        s = D(0)
        term = x
        n = 0
        x2 = x * x
        while True:
            add = term / (2 * n + 1)
            s += add
            n += 1
            term = -term * x2 / n
            if abs(add) < D(10) ** -68 and n > 5:
                break
        return 1 - 2 * s / _SQRTPI
    # continued fraction (modified Lentz): erfc(x) = exp(-x^2)/sqrt(pi) * 1/(x+ (1/2)/(x+ 1/(x+ (3/2)/(x+ ...
    tiny = D(10) ** -200
    f = x
    c = x
    d = D(0)
    k = 1
    while True:
        a = D(k) / 2
        d = x + a * d
        d = tiny if d == 0 else d
        c = x + a / c
        c = tiny if c == 0 else c
        d = 1 / d
        delta = c * d
        f *= delta
        if abs(delta - 1) < D(10) ** -66:
            break
        k += 1
        if k > 200000:
            raise ArithmeticError("continued fraction did not converge")
    return (-(x * x)).exp() / _SQRTPI / f


def Phi(x):
    return erfc(-D(x) / _SQRT2) / 2


def phi(x):
    x = D(x)
    return (-(x * x) / 2).exp() / _SQRT2PI


def V(x, t):
    y = D(x) - D(t)
    return phi(y) / Phi(y)


def W(x, t):
    y = D(x) - D(t)
    v = phi(y) / Phi(y)
    return v * (v + y)


def Vt(x, t):
    x, t = D(x), D(t)
    if x < 0:            # V~ is odd in x; evaluate where both CDF values are small tails
        return -Vt(-x, t)
    return (phi(-t - x) - phi(t - x)) / (Phi(t - x) - Phi(-t - x))


def Wt(x, t):
    x, t = abs(D(x)), D(t)   # W~ is even in x
    b = Phi(t - x) - Phi(-t - x)
    vt = (phi(-t - x) - phi(t - x)) / b
    return ((t - x) * phi(t - x) + (t + x) * phi(t + x)) / b + vt * vt

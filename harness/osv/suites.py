"""Correspondence suites: lists of cases per area of the library."""
import math

from . import gen
from .gen import KINDS, logu

OTHER_KIND = {"PL": "BTF", "BTF": "BTP", "BTP": "TMF", "TMF": "TMP", "TMP": "PL"}


def suite_rate(rng, n, kinds=KINDS, max_size=8):
    return [gen.gen_rate_case(rng, kind=kinds[i % len(kinds)], max_size=max_size) for i in range(n)]


def suite_predict(rng, n, kinds=KINDS, ops=("pwin", "pdraw", "prank")):
    return [gen.gen_predict_case(rng, op=ops[i % len(ops)], kind=kinds[(i // len(ops)) % len(kinds)])
            for i in range(n)]


# ---------------------------------------------------------------- gauss
def _thresholds():
    """x where the guards of v/w/vt/wt flip, located by bisection on plain math (not on the library)."""
    def cdf(x):
        return 0.5 * math.erfc(-x / math.sqrt(2.0))
    lo, hi = -9.0, -7.0
    for _ in range(80):
        mid = (lo + hi) / 2
        if cdf(mid) < 2.0 ** -52:
            lo = mid
        else:
            hi = mid
    return [lo, -lo]


def suite_gauss(rng, n):
    cases = []
    th = _thresholds()
    fns2 = ["v", "w", "vt", "wt"]
    for i in range(n):
        f = (["cdf", "pdf"] + fns2 * 3)[i % 14]
        r = rng.random()
        if r < 0.5:
            x = rng.uniform(-40, 40)
        elif r < 0.75:
            x = rng.uniform(-9.5, 9.5)
        elif r < 0.9:
            x = rng.choice(th) + rng.uniform(-1e-3, 1e-3) * rng.choice([1, 1e-6, 1e-12])
        else:
            x = rng.choice([0.0, -0.0, 1e-300, -1e-300, 37.5, -37.5, 38.0, 40.0, -40.0, rng.uniform(-1e-3, 1e-3),
                            1e10, -1e10, 1e100, -1e100, 1.3e154, -1.3e154, 1.4e154, -1.4e154, 1e200, -1e200, 1e308, -1e308])
        c = {"op": "gauss", "fn": f, "x": x}
        if f in fns2:
            c["t"] = logu(rng, 1e-8, 1e-2) if rng.random() < 0.9 else rng.choice([1e-8, 1e-5, 8e-6, 1e-2, 1.25e-5])
            if r >= 0.75 and r < 0.9 and f in ("v", "w"):
                c["x"] = x + c["t"]
        cases.append(c)
    for _ in range(max(1, n // 10)):
        p = rng.uniform(0.5, 0.75) if rng.random() < 0.6 else rng.choice(
            [logu(rng, 1e-300, 0.5), 1 - logu(rng, 1e-16, 0.5), 0.5, 0.75, 0.075, 0.925, 1e-320])
        cases.append({"op": "gauss", "fn": "icdf", "x": p})
    return cases


# ---------------------------------------------------------------- rating operations
def _rv(rng, kind, mu=None, sigma=None):
    vals = [0, 0.0, -0.0, 1, -1, 25.0, 25, -3.5, 8.333333333333334, 1e-3, 1e6, -1e6, 0.5, 2.0, 3.0]
    mu = rng.choice(vals) if mu is None else mu
    sigma = rng.choice(vals) if sigma is None else sigma
    rid = gen.fresh_id()
    nm = rng.choice([None, (True, rid), (False, rid)])
    return ("R", kind, mu, sigma, rid, nm)


def tie_pairs():
    """pairs of (mu, sigma) with exactly equal ordinal mu - 3*sigma but different (mu, sigma), exact in binary"""
    return [((10.0, 2.0), (7.0, 1.0)), ((0.0, 0.0), (3.0, 1.0)), ((-3.0, 1.0), (0.0, 2.0)), ((1.5, 0.5), (0.0, 0.0)),
            ((6.0, 2.0), (0.0, 0.0)), ((25.0, 8.0), (4.0, 1.0)), ((-6.0, -2.0), (0.0, 0.0)), ((3, 1), (0.0, 0.0)),
            ((2.75, 0.25), (5.0, 1.0))]


def suite_ops(rng, n, kinds=KINDS):
    cases = []
    nums = [("I", 0), ("F", 0.0), ("I", -4), ("F", -2.5), ("F", 25.0), ("I", 7), ("B", True), ("F", 1e-9), ("F", 1e9)]
    for i in range(n):
        kind = kinds[i % len(kinds)]
        which = i % 6
        if which == 0:   # create_rating
            r = rng.random()
            if r < 0.45:
                v = ("L", [rng.choice(nums), rng.choice(nums)])
            else:
                bad = [("N",), ("S", True), ("S", False), ("L", []), ("T", []), ("O", True), ("L", [("I", 1)])]
                v = rng.choice([
                    ("L", [rng.choice(bad), rng.choice(nums)]), ("L", [rng.choice(nums), rng.choice(bad)]),
                    ("L", [rng.choice(nums)]), ("L", [rng.choice(nums)] * 3), ("L", []),
                    ("T", [rng.choice(nums), rng.choice(nums)]), ("N",), ("I", 2), ("F", 2.0), ("S", True),
                    ("S", False), ("O", True, rng.randrange(6)), ("O", False, rng.randrange(5)), _rv(rng, kind),
                    _rv(rng, OTHER_KIND[kind]), ("L", [_rv(rng, kind), rng.choice(nums)]), ("B", True)])
            c = {"op": "crt", "kind": kind, "v": v}
            r = rng.random()
            if r < 0.3:
                c["omit_name"] = True
            else:
                c["name"] = rng.choice([None, (True, gen.fresh_id()), (False, gen.fresh_id())])
            cases.append(c)
        elif which == 1:  # model.rating
            st = gen.gen_state(rng)
            cases.append({"op": "mrating", "kind": kind, "st": st,
                          "mu": rng.choice([("N",)] + nums[:7]), "sigma": rng.choice([("N",)] + nums[:7]),
                          "name": rng.choice([None, (True, gen.fresh_id()), (False, gen.fresh_id())])})
        elif which == 2:  # deepcopy
            cases.append({"op": "dcopy", "r": _rv(rng, kind), "nested": rng.random() < 0.5})
        elif which == 3:  # ordinal
            c = {"op": "ordinal", "a": _rv(rng, kind)}
            if rng.random() < 0.5:
                c["z"] = rng.choice([3.0, 0.0, -1.0, 1.5, 2.0, 1e3])
            cases.append(c)
        else:  # comparisons
            op = rng.choice(["lt", "le", "gt", "ge", "eq", "ne"])
            r = rng.random()
            if r < 0.35:
                (m1, s1), (m2, s2) = rng.choice(tie_pairs())
                a, b = _rv(rng, kind, m1, s1), _rv(rng, kind, m2, s2)
                if rng.random() < 0.5:
                    a, b = b, a
            elif r < 0.5:
                a = _rv(rng, kind)
                b = ("R", kind, a[2], a[3], gen.fresh_id(), None)
            elif r < 0.6:
                # one player at two moments: the same id (a deepcopy snapshot keeps it), other numbers
                a, b = _rv(rng, kind), _rv(rng, kind)
                b = ("R", kind, b[2], b[3], a[4], a[5])
            elif r < 0.75:
                a, b = _rv(rng, kind), _rv(rng, kind)
            else:
                a = _rv(rng, kind)
                b = rng.choice([("N",), ("I", 3), ("F", 2.5), ("S", True), ("S", False), ("L", []), ("O", True, 1),
                                ("B", True), ("T", [("I", 1)]), _rv(rng, OTHER_KIND[kind]),
                                _rv(rng, OTHER_KIND[OTHER_KIND[kind]])])
            cases.append({"op": "cmp", "cmp": op, "a": a, "b": b})
    return cases


# ---------------------------------------------------------------- constructor and the public helper methods
def suite_ctor_helpers(rng, n, kinds=KINDS):
    cases = []
    vals = [0.0, 1.0, 25.0, 7, -3.5, 1e-3, 4.166666666666667, 100, 0.5]
    for i in range(n):
        kind = kinds[i % len(kinds)]
        if (i // len(kinds)) % 3 == 0:
            c = {"op": "minit", "kind": kind}
            for k in ("mu", "sigma", "beta", "kappa", "tau"):
                c[k] = None if rng.random() < 0.5 else rng.choice(vals if k != "beta" else [v for v in vals if isinstance(v, float)])
            c["gamma"] = None if rng.random() < 0.6 else rng.choice(gen.GAMMAS)
            c["limit"] = rng.choice([None, True, False])
            cases.append(c)
        else:
            st = gen.gen_state(rng)
            shape = gen.gen_shape(rng)
            nums = gen.gen_teams_num(rng, st, shape, ints=False)
            nums = [[(mu, sg if sg > 0 else st["beta"]) for mu, sg in t] for t in nums]
            ranks = ("N",)
            if rng.random() < 0.7:
                order = sorted(gen.random_weak_order(rng, len(shape)))      # as _compute passes them: sorted rank values
                vals_, _ = gen.encode_order(rng, order)
                ranks = ("L", vals_)
            cases.append({"op": "helpers", "kind": kind, "beta": st["beta"], "teams": gen.rating_vals(kind, nums, rng), "ranks": ranks})
    return cases


# ---------------------------------------------------------------- order helpers
def suite_order(rng, n, kinds=KINDS):
    cases = []
    for i in range(n):
        which = i % 6
        if which in (0, 1):
            k = rng.randint(1, 10)
            pool = [rng.uniform(0, 1) for _ in range(rng.randint(1, k))] + [0.0, 0.5, 1.0]
            xs = [rng.choice(pool) for _ in range(k)]
            cases.append({"op": "order", "fn": "rankdata" if which == 0 else "argsort", "xs": xs})
        elif which == 2:
            k = rng.randint(1, 9)
            xs = [rng.choice([1.0, -1.0, 1e-16, 1e16, -1e16, 0.1, 0.3, rng.uniform(0, 1), rng.uniform(-1e-8, 1e-8)])
                  for _ in range(k)]
            cases.append({"op": "order", "fn": "pysum", "xs": xs})
        elif which in (3, 4):
            nn = rng.randint(2, 8)
            order = gen.random_weak_order(rng, nn)
            vals, _ = gen.encode_order(rng, order)
            if which == 4 and rng.random() < 0.7:
                vals = sorted(vals, key=lambda v: v[1])
            cases.append({"op": "order", "fn": "unwind" if which == 3 else "calcrank", "keys": vals,
                          "kind": kinds[i % len(kinds)]})
        else:
            cases.append({"op": "order", "fn": "ladder", "n": rng.randint(1, 9)})
    return cases


# ---------------------------------------------------------------- malformed / boundary arguments (C13 grammar)
BASE_SHAPES = [[1, 1], [2, 1], [1, 2, 1], [2, 2], [3, 1, 2, 1]]


def _base_game(kind, shape, k0=0):
    teams = []
    c = k0
    for sz in shape:
        t = []
        for _ in range(sz):
            c += 1
            t.append(("R", kind, 20.0 + c, 4.0 + 0.25 * c, gen.fresh_id(), (True, c)))
        teams.append(("L", t))
    return ("L", teams)


def _junk_scalars():
    return [("N",), ("I", 5), ("I", 0), ("F", 1.5), ("S", True), ("S", False), ("O", True, 0), ("O", False, 0),
            ("B", True), ("B", False), ("O", True, 6), ("O", True, 7), ("O", True, 8), ("O", True, 11)]


def malformed_cases(kind, shape, ops=("rate", "pwin", "pdraw", "prank"), st=None):
    """The full grammar of malformed (and boundary well-formed) calls on one base game.
    Yields (case, expectation) with expectation in {"reject", "accept", None}."""
    st = st or gen.default_state()
    n = len(shape)
    N = ("N",)

    def mk(op, teams, ranks=N, scores=N, tau=N, lim=N):
        if op == "rate":
            return {"op": "rate", "kind": kind, "st": st, "args": [teams, ranks, scores, tau, lim]}
        return {"op": op, "kind": kind, "st": st, "args": [teams]}
    g = lambda: _base_game(kind, shape)  # noqa: E731  (fresh objects/ids each time)
    foreign = [k for k in KINDS if k != kind]
    # --- teams argument
    for op in ops:
        for bad in _junk_scalars() + [("L", []), ("T", []), ("L", [g()[1][0]]), ("T", list(g()[1])),
                                      ("L", [("L", [])]), ("L", [("L", []), ("L", [])]),
                                      ("L", [("L", []), ("L", []), ("L", [])]), g()[1][0][1][0]]:
            yield mk(op, bad), "reject"
        for i in range(n):
            for bad in _junk_scalars() + [("L", []), ("T", list(g()[1][i][1])), g()[1][i][1][0]]:
                t = g()
                t[1][i] = bad
                yield mk(op, t), "reject"
            for j in range(shape[i]):
                for bad in _junk_scalars() + [("L", [g()[1][i][1][j]]), ("T", [])] + [
                        ("R", fk, 25.0, 8.0, gen.fresh_id(), None) for fk in foreign]:
                    t = g()
                    t[1][i][1][j] = bad
                    yield mk(op, t), "reject"
        yield mk(op, g()), "accept"
    if "rate" not in ops:
        return
    good = [("I", i + 1) for i in range(n)]
    goodf = [("F", float(i) - 1.0) for i in range(n)]
    wellformed = [good, goodf, [("I", 0)] * n, [("I", -i) for i in range(n)], [("B", i % 2 == 0) for i in range(n)],
                  [("F", -0.0)] * n, [("I", 1), ("F", 1.0)] + [("B", True)] * (n - 2), [("I", 2 ** 70 + i) for i in range(n)],
                  [("I", 10 ** 400 + i) for i in range(n)], [("I", -(1 << 1024) - i) for i in range(n)],
                  [("F", 1e308), ("F", -1e308)] + [("I", 0)] * (n - 2)]
    for sel in ("ranks", "scores"):
        def call(v, other=N):
            return mk("rate", g(), ranks=v, scores=other) if sel == "ranks" else mk("rate", g(), ranks=other, scores=v)
        for wf in wellformed:
            yield call(("L", list(wf))), "accept"
        # falsy values count as "not given"
        for falsy in [N, ("L", []), ("I", 0), ("S", False), ("T", []), ("B", False), ("F", 0.0), ("O", False, 0)]:
            yield call(falsy), "accept"
        # wrong container (truthy non-lists)
        for bad in [("T", list(good)), ("I", 5), ("S", True), ("O", True, 0), ("B", True), ("F", 1.5), ("O", True, 5),
                    g()[1][0][1][0]]:
            yield call(bad), "reject"
        # wrong length
        for ln in sorted({1, n - 1, n + 1, 2 * n} - {n}):
            yield call(("L", [("I", i) for i in range(ln)])), "reject"
        # non-numeric element at each position
        for p in range(n):
            for bad in [N, ("S", True), ("S", False), ("L", []), ("L", [("I", 1)]), ("T", []), ("O", True, 3),
                        ("O", True, 6), ("O", True, 7), ("O", True, 8), ("O", True, 10), ("O", True, 11), g()[1][0][1][0]]:
                v = list(good)
                v[p] = bad
                yield call(("L", v)), "reject"
        # every element looks like a number to float() and is not one
        yield call(("L", [("O", True, 6 + (i % 2)) for i in range(n)])), "reject"
        # wrong length AND non-numeric (length is checked first: still a rejection)
        yield call(("L", [("S", True)])), "reject"
    # both selectors
    yield mk("rate", g(), ranks=("L", list(good)), scores=("L", list(good))), "reject"
    yield mk("rate", g(), ranks=("L", list(goodf)), scores=("L", list(goodf))), "reject"
    yield mk("rate", g(), ranks=("L", list(good)), scores=("I", 5)), "reject"          # both truthy
    yield mk("rate", g(), ranks=("L", list(good)), scores=("L", [("S", True)] * n)), "reject"
    yield mk("rate", g(), ranks=("L", [("S", True)] * n), scores=("L", list(good))), "reject"
    yield mk("rate", g(), ranks=("L", []), scores=("L", list(good))), "accept"        # falsy ranks: scores used
    yield mk("rate", g(), ranks=("L", list(good)), scores=("L", [])), "accept"
    # malformed teams together with malformed ranks: still a rejection
    yield mk("rate", ("L", [g()[1][0]]), ranks=("L", [("S", True)])), "reject"


def suite_validate(rng, n=None, kinds=KINDS, exhaustive=False):
    out = []
    for kind in kinds:
        shapes = BASE_SHAPES if exhaustive else BASE_SHAPES[:3]
        for shape in shapes:
            for c, exp in malformed_cases(kind, shape):
                c["expect"] = exp
                out.append(c)
    if n is not None and not exhaustive and len(out) > n:
        # keep a seeded sample but always all classes of mutation: stride sample
        idx = sorted(rng.sample(range(len(out)), n))
        out = [out[i] for i in idx]
    return out

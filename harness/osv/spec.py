"""The published Weng-Lin updates written directly from the formulas, over the UNSORTED game with sums
over team indices (an evaluation order independent of the implementation's).  Used by the C01 monitor."""
import math

EPS = 2.0 ** -52


def Phi(x):
    return 0.5 * math.erfc(-x / math.sqrt(2.0))


def phi(x):
    return math.exp(-x * x / 2.0) / math.sqrt(2.0 * math.pi)


# the documented guarded forms of the corrections (exact ratio above the guard, asymptotic form below)
def V(x, t):
    y = x - t
    d = Phi(y)
    return -y if d < EPS else phi(y) / d


def W(x, t):
    y = x - t
    d = Phi(y)
    if d < EPS:
        return 1.0 if x < 0 else 0.0
    v = phi(y) / d
    return v * (v + y)


def Vt(x, t):
    a = abs(x)
    b = Phi(t - a) - Phi(-t - a)
    if b < 1e-5:
        return (-x - t) if x < 0 else (-x + t)
    r = (phi(-t - a) - phi(t - a)) / b
    return -r if x < 0 else r


def Wt(x, t):
    a = abs(x)
    b = Phi(t - a) - Phi(-t - a)
    if b < EPS:
        return 1.0
    val = ((t - a) * phi(t - a) + (t + a) * phi(-t - a)) / b + Vt(x, t) ** 2
    return min(max(val, 0.0), 1.0)


GAMMA = {
    "gd": lambda c, k, mu, ss, team, rank: math.sqrt(ss) / c,
    "gk": lambda c, k, mu, ss, team, rank: 1.0 / k,
    "gr": lambda c, k, mu, ss, team, rank: 1.0 / (rank + 1),
    "gt": lambda c, k, mu, ss, team, rank: len(team) / k,
    "gm": lambda c, k, mu, ss, team, rank: abs(mu) / (abs(mu) + c),
    "gp": lambda c, k, mu, ss, team, rank: math.fsum(sg for _, sg in team) / (c * len(team)),
}


def gamma_fn(tag):
    if tag.startswith("gc:"):
        x = float.fromhex(tag[3:])
        return lambda c, k, mu, ss, team, rank: x
    return GAMMA[tag]


def wl_update(kind, st, nums, keys, tau, limit, tm_part_factor=1.0):
    """nums: [[(mu, sigma)]]; keys: list of numbers (smaller = better) or None. Returns [[(mu', sigma')]]"""
    n = len(nums)
    beta, kappa = st["beta"], st["kappa"]
    g = gamma_fn(st["gamma"])
    if keys is None:
        keys = list(range(n))
    infl = [[(mu, math.sqrt(sg * sg + tau * tau)) for mu, sg in t] for t in nums]
    th = [math.fsum(mu for mu, _ in t) for t in infl]
    ss = [math.fsum(sg * sg for _, sg in t) for t in infl]
    rank = [sum(1 for s in range(n) if keys[s] < keys[i]) for i in range(n)]
    om = [0.0] * n
    de = [0.0] * n
    if kind == "PL":
        c = math.sqrt(math.fsum(ss[i] + beta * beta for i in range(n)))
        e = [math.exp(th[i] / c) for i in range(n)]
        S = [math.fsum(e[s] for s in range(n) if keys[s] >= keys[q]) for q in range(n)]
        A = [sum(1 for s in range(n) if keys[s] == keys[q]) for q in range(n)]
        for i in range(n):
            o = math.fsum(((1.0 if q == i else 0.0) - e[i] / S[q]) / A[q] for q in range(n) if keys[q] <= keys[i])
            d = math.fsum((e[i] / S[q]) * (1 - e[i] / S[q]) / A[q] for q in range(n) if keys[q] <= keys[i])
            om[i] = ss[i] / c * o
            de[i] = g(c, n, th[i], ss[i], infl[i], rank[i]) * ss[i] / (c * c) * d
    else:
        if kind in ("BTF", "TMF"):
            opp = [[q for q in range(n) if q != i] for i in range(n)]
        else:
            order = sorted(range(n), key=lambda i: keys[i])      # stable: ties keep input order
            pos = {t: p for p, t in enumerate(order)}
            opp = [[order[p] for p in (pos[i] - 1, pos[i] + 1) if 0 <= p < n] for i in range(n)]
        for i in range(n):
            terms_o, terms_d = [], []
            for q in opp[i]:
                c = math.sqrt(ss[i] + ss[q] + 2 * beta * beta)
                if kind == "TMP":
                    c *= tm_part_factor
                gam = g(c, n, th[i], ss[i], infl[i], rank[i])
                if kind in ("BTF", "BTP"):
                    p = 1.0 / (1.0 + math.exp((th[q] - th[i]) / c))
                    s = 1.0 if keys[q] > keys[i] else (0.5 if keys[q] == keys[i] else 0.0)
                    terms_o.append(ss[i] / c * (s - p))
                    terms_d.append(gam * ss[i] / (c * c) * p * (1 - p))
                else:
                    x = (th[i] - th[q]) / c
                    t = kappa / c
                    if keys[q] > keys[i]:
                        terms_o.append(ss[i] / c * V(x, t))
                        terms_d.append(gam * ss[i] / (c * c) * W(x, t))
                    elif keys[q] < keys[i]:
                        terms_o.append(-ss[i] / c * V(-x, t))
                        terms_d.append(gam * ss[i] / (c * c) * W(-x, t))
                    else:
                        terms_o.append(ss[i] / c * Vt(x, t))
                        terms_d.append(gam * ss[i] / (c * c) * Wt(x, t))
            om[i] = math.fsum(terms_o)
            de[i] = math.fsum(terms_d)
    out = []
    for i in range(n):
        team = []
        for j, (mu, sg) in enumerate(infl[i]):
            share = sg * sg / ss[i]
            m2 = mu + share * om[i]
            s2 = sg * math.sqrt(max(1 - share * de[i], kappa))
            if limit and s2 > nums[i][j][1]:
                s2 = nums[i][j][1]
            team.append((m2, s2))
        out.append(team)
    return out

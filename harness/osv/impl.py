"""Load the implementation from the repository under test and drive it.

The repository is $VERIF_REPO (default /repo); it is put first on sys.path so that
the working tree is what gets imported, never an installed copy.
"""
import copy
import math
import os
import statistics
import struct
import sys

REPO = os.path.realpath(os.environ.get("VERIF_REPO", "/repo"))
if sys.path[0] != REPO:
    sys.path.insert(0, REPO)
for _m in [m for m in sys.modules if m == "openskill" or m.startswith("openskill.")]:
    del sys.modules[_m]

import openskill  # noqa: E402
import openskill.models  # noqa: E402
import openskill.models.common as mcommon  # noqa: E402
import openskill.models.weng_lin.common as wcommon  # noqa: E402
from openskill.models import (  # noqa: E402
    BradleyTerryFull, BradleyTerryFullRating, BradleyTerryPart, BradleyTerryPartRating,
    PlackettLuce, PlackettLuceRating, ThurstoneMostellerFull, ThurstoneMostellerFullRating,
    ThurstoneMostellerPart, ThurstoneMostellerPartRating,
)

assert os.path.realpath(openskill.__file__).startswith(REPO + os.sep), (openskill.__file__, REPO)

KINDS = ["PL", "BTF", "BTP", "TMF", "TMP"]
MODEL = {"PL": PlackettLuce, "BTF": BradleyTerryFull, "BTP": BradleyTerryPart,
         "TMF": ThurstoneMostellerFull, "TMP": ThurstoneMostellerPart}
RATING = {"PL": PlackettLuceRating, "BTF": BradleyTerryFullRating, "BTP": BradleyTerryPartRating,
          "TMF": ThurstoneMostellerFullRating, "TMP": ThurstoneMostellerPartRating}
DATA_ATTRS = ("mu", "sigma", "beta", "kappa", "gamma", "tau", "limit_sigma")


# ---------------------------------------------------------------- floats
def hx(x):
    return float(x).hex()


def fh(s):
    return float.fromhex(s) if isinstance(s, str) else float(s)


def _ord(x):
    (i,) = struct.unpack("<q", struct.pack("<d", x))
    return i if i >= 0 else -(i & 0x7FFFFFFFFFFFFFFF)


def ulps(a, b):
    if a == b:
        return 0
    if math.isnan(a) or math.isnan(b):
        return 0 if (math.isnan(a) and math.isnan(b)) else 1 << 62
    return abs(_ord(a) - _ord(b))


# ---------------------------------------------------------------- gamma callbacks (same family as ocaml/driver.ml)
class _GammaTeamShare:
    """a callable object (not a function) as gamma callback"""

    def __call__(self, scale, n_teams, team_mu, team_var, members, place):
        return len(members) / n_teams


def _gm7(unused, c, k, mu, ss, team, rank):
    return abs(mu) / (abs(mu) + c)


def gamma_of_tag(tag, kind):
    """the callbacks are handed their six arguments POSITIONALLY (that is the library's contract: a user's callback names its
    parameters as it likes); they come as lambdas with arbitrary parameter names, *args functions, a callable object and a
    functools.partial, so that a call by keyword, a signature inspection or a pickling of the callback shows"""
    if tag == "gd":
        return None  # the model file's own default
    if tag.startswith("gc:"):
        x = float.fromhex(tag[3:])
        return lambda *six: x
    if tag == "gk":
        return lambda a0, a1, a2, a3, a4, a5: 1 / a1
    if tag == "gr":
        return lambda *six: 1 / (six[5] + 1)
    if tag == "gt":
        return _GammaTeamShare()
    if tag == "gm":
        import functools
        return functools.partial(_gm7, None)
    if tag == "gp":
        def gp(q1, q2, q3, q4, q5, q6):
            acc = 0.0
            for r in q5:
                acc = acc + r.sigma
            return acc / (q1 * float(len(q5)))
        return gp
    raise ValueError(tag)


# ---------------------------------------------------------------- tracing subclasses (no source hooks)
_TRACED = {}
_REASSIGN_N = 0


def traced_classes(kind):
    """Subclasses of the model and rating class that log attribute traffic.

    rating objects of the subclass pass isinstance checks of _check_teams."""
    if kind in _TRACED:
        return _TRACED[kind]
    M, R = MODEL[kind], RATING[kind]

    class TModel(M):
        _log = None

        def __setattr__(self, k, v):
            log = object.__getattribute__(self, "__dict__").get("_log")
            if log is not None and k != "_log":
                log.append(("w", k, v))
            object.__setattr__(self, k, v)

        def __getattribute__(self, k):
            if k in DATA_ATTRS:
                log = object.__getattribute__(self, "__dict__").get("_log")
                if log is not None:
                    log.append(("r", k))
            return object.__getattribute__(self, k)

    class TRating(R):
        def __setattr__(self, k, v):
            log = self.__dict__.get("_log")
            if log is not None and k != "_log":
                log.append((self.__dict__.get("_pos"), k, v))
            object.__setattr__(self, k, v)

    TModel.__name__ = M.__name__
    TRating.__name__ = R.__name__
    _TRACED[kind] = (TModel, TRating)
    return _TRACED[kind]


# ---------------------------------------------------------------- values
# A value is a tuple mirroring the Coq [pyval]:
#   ("N",) ("B", bool) ("I", int) ("F", float) ("S", truthy) ("O", truthy)
#   ("L", [v...]) ("T", [v...]) ("R", kind, mu, sigma, id, name)   name: None | (truthy, tag)
_OTHER_T = [lambda: {"a": 1}, lambda: object(), lambda: {1, 2}, lambda: 3 + 4j, lambda: b"x", lambda: range(3),
            # things that LOOK like numbers to float() but are not numbers: a validation that probes float(x) lets them through
            lambda: "2", lambda: "1.5", lambda: b"3", lambda: " 4 ", lambda: "1e3", lambda: "inf", lambda: "-0"]
_OTHER_F = [lambda: {}, lambda: set(), lambda: 0j, lambda: b"", lambda: range(0)]


def py_name(nm):
    if nm is None:
        return None
    truthy, tag = nm
    return ("p%d" % tag) if truthy else ""


def id_str(i):
    return "%032x" % i


def to_python(v, traced=False, log=None, pos=None, share=None):
    t = v[0]
    if t == "N":
        return None
    if t in ("B", "I", "F"):
        return v[1]
    if t == "S":
        return "abc" if v[1] else ""
    if t == "O":
        pool = _OTHER_T if v[1] else _OTHER_F
        return pool[(len(v) > 2 and v[2] or 0) % len(pool)]()
    if t in ("L", "T"):
        out = []
        for idx, x in enumerate(v[1]):
            if share is not None and x[0] == "L":
                key = repr(x)
                if key in share:
                    out.append(share[key])
                    continue
            y = to_python(x, traced, log, (idx,) if pos is None else pos + (idx,), share)
            if share is not None and x[0] == "L":
                share[repr(x)] = y
            out.append(y)
        return out if t == "L" else tuple(out)
    if t == "R":
        _, kind, mu, sigma, rid, nm = v
        cls = traced_classes(kind)[1] if traced else RATING[kind]
        r = cls(mu, sigma, py_name(nm))
        r.id = id_str(rid)
        if traced:
            object.__setattr__(r, "_pos", pos)
            object.__setattr__(r, "_log", log)
        return r
    raise ValueError(v)


def make_model(kind, st, traced=False):
    """st = dict(mu, sigma, beta, kappa, tau, gamma(tag), limit(bool))"""
    cls = traced_classes(kind)[0] if traced else MODEL[kind]
    kw = dict(mu=st["mu"], sigma=st["sigma"], beta=st["beta"], kappa=st["kappa"], tau=st["tau"],
              limit_sigma=st["limit"])
    g = gamma_of_tag(st["gamma"], kind)
    if g is not None:
        kw["gamma"] = g
    if st.get("ctor") == "reassign":
        # a model that has already been USED with other parameters (including calls that raised inside the update and
        # calls with per-call options), whose public attributes are then assigned the wanted values: anything the
        # implementation remembered from the first life of the object is stale now
        global _REASSIGN_N
        _REASSIGN_N += 1
        other = dict(kw)
        # the first life alternates between a much smaller and a larger beta / tau than the wanted ones
        other.update(beta=(kw["beta"] * 2.0 + 1.0) if _REASSIGN_N % 2 else kw["beta"] * 0.01,
                     tau=(kw["tau"] + kw["beta"]) if _REASSIGN_N % 3 else 0.0,
                     kappa=min(kw["kappa"] * 7.0, 1e-2), limit_sigma=not kw["limit_sigma"])
        m = cls(**other)
        R = RATING[kind]
        b = other["beta"]
        warm = [[R(6.0 * b, 2.0 * b), R(5.0 * b, 1.0 * b)], [R(4.0 * b, 3.0 * b)], [R(7.0 * b, 0.5 * b), R(1.0 * b, 2.5 * b)]]
        for call in (lambda: m.predict_win(warm), lambda: m.predict_draw(warm), lambda: m.predict_rank(warm),
                     lambda: m.predict_draw(warm[:2]), lambda: m.predict_win(warm[:2]),
                     lambda: m.rate([[R(6.0 * b, 2.0 * b)], [R(5.0 * b, 1.0 * b)], [R(4.0 * b, 3.0 * b)]], ranks=[2, 3, 1]),
                     lambda: m.rate([[R(1e9 * b, b)], [R(-1e9 * b, b)], [R(0.0, b)]], ranks=[3, 1, 2], tau=0.5 * b, limit_sigma=True),
                     lambda: m.rate([[R(6.0 * b, 2.0 * b)], [R(5.0 * b, 1.0 * b)]], scores=[1, "x"], tau=3.0 * b, limit_sigma=False),
                     lambda: m.rate([[R(6.0 * b, 2.0 * b)], [R(5.0 * b, 1.0 * b)]], tau=2.0 * b, limit_sigma=True)):
            try:
                call()
            except Exception:  # noqa: BLE001
                pass
        for k, v in kw.items():
            setattr(m, k, v)
        return m
    if st.get("ctor") == "subcls":
        # the model's rating-class attribute points at a subclass of the rating class (users may swap it to attach
        # behaviour); plain rating objects of the model must still be accepted
        m = cls(**kw)
        for a in [a for a in dir(m) if a.endswith("Rating") and not a.startswith("_")]:
            try:
                base = getattr(m, a)
                if isinstance(base, type) and issubclass(base, RATING[kind]):
                    setattr(m, a, type("Sub" + a, (base,), {}))
            except Exception:  # noqa: BLE001  (the attribute cannot be replaced on this implementation: nothing to vary)
                pass
        return m
    if st.get("ctor") == "setattr":
        # the same parameters reached by assigning the public attributes of a default-constructed model
        m = cls()
        for k, v in kw.items():
            setattr(m, k, v)
        return m
    return cls(**kw)


def snapshot(m):
    """every attribute of a model object, however it is stored (instance dict, slots, properties): the public
    parameters by name plus whatever the instance dict holds"""
    out = {}
    for k in DATA_ATTRS:
        try:
            out[k] = object.__getattribute__(m, k)
        except AttributeError:
            pass
    try:
        out.update({k: v for k, v in object.__getattribute__(m, "__dict__").items() if k != "_log"})
    except AttributeError:
        pass
    for cls in type(m).__mro__:
        for k in getattr(cls, "__slots__", ()) or ():
            if isinstance(k, str) and k not in ("__dict__", "__weakref__", "_log"):
                try:
                    out[k] = object.__getattribute__(m, k)
                except AttributeError:
                    pass
    return out


def state_obs(m):
    d = snapshot(m)
    return [hx(d["mu"]), hx(d["sigma"]), hx(d["beta"]), hx(d["kappa"]), hx(d["tau"]), bool(d["limit_sigma"])]


def exc_class(e):
    if isinstance(e, statistics.StatisticsError):
        return "Arith"
    if isinstance(e, (ZeroDivisionError, OverflowError)):
        return "Arith"
    if isinstance(e, ValueError) and "math domain error" in str(e):
        return "Arith"
    if isinstance(e, TypeError):
        return "TypeError"
    if isinstance(e, ValueError):
        return "ValueError"
    return "Other:" + type(e).__name__


def name_obs(n):
    if n is None:
        return None
    if n == "":
        return "s0"
    return "s1:" + n[1:] if isinstance(n, str) and n.startswith("p") else "s1:?"


def rating_obs(r):
    rid = r.id
    try:
        rid = int(rid, 16)
    except Exception:
        pass
    return [hx(r.mu), hx(r.sigma), rid, name_obs(r.name)]


# ---------------------------------------------------------------- running one case on the implementation
def run_case(case):
    """Execute a case on the implementation; returns an observation shaped like the driver's JSON."""
    op = case["op"]
    try:
        return _RUN[op](case)
    except RecursionError:
        raise
    except Exception as e:  # harness-level failure is distinguished from library exceptions below
        return {"exc": "HarnessError:" + type(e).__name__ + ":" + str(e)[:200]}


def _with_model(case, fn, pr):
    kind = case["kind"]
    log = []
    m = make_model(kind, case["st"], traced=True)
    share = {} if case.get("share") else None
    args = [to_python(a, traced=True, log=log, pos=None, share=share) for a in case["args"]]
    teams_obj = args[0]
    before_dict = snapshot(m)
    object.__setattr__(m, "_log", log)
    obs = {}
    try:
        res = fn(m, args)
        obs["exc"] = None
        obs["res"] = pr(res)
        obs["_identity"] = res
    except Exception as e:
        obs["exc"] = exc_class(e)
        obs["_msg"] = str(e)[:200]
    object.__setattr__(m, "_log", None)
    after_dict = snapshot(m)
    obs["rd"] = sorted({x[1] for x in log if x[0] == "r"})
    obs["wr"] = [[x[1], (hx(x[2]) if isinstance(x[2], float) else x[2])] for x in log
                 if x[0] == "w"]
    obs["mut"] = [[x[0][0], x[0][1], x[1], hx(x[2])] for x in log
                  if isinstance(x[0], tuple) and len(x[0]) == 2 and x[1] in ("mu", "sigma")]
    obs["mut_other"] = [[list(x[0]) if x[0] else None, x[1]] for x in log
                        if (isinstance(x[0], tuple) or x[0] is None) and x[0] not in ("r", "w")
                        and x[1] not in ("mu", "sigma")]
    obs["st"] = state_obs(m)
    obs["dict_same"] = (set(before_dict) == set(after_dict)
                        and all(before_dict[k] is after_dict[k] or before_dict[k] == after_dict[k]
                                for k in before_dict))
    # the passed objects afterwards
    try:
        if isinstance(teams_obj, list) and all(isinstance(t, list) for t in teams_obj):
            obs["after"] = [[[hx(p.mu), hx(p.sigma)] for p in t if hasattr(p, "mu")] for t in teams_obj]
    except Exception:
        pass
    if obs.get("exc") is None and case["op"] == "rate":
        res = obs.pop("_identity")
        try:
            obs["same_obj"] = [[res[i][j] is teams_obj[i][j] for j in range(len(res[i]))]
                               for i in range(len(res))]
        except Exception:
            obs["same_obj"] = None
    obs.pop("_identity", None)
    return obs


def _rate(case):
    def fn(m, a):
        kw = {}
        names = ["ranks", "scores", "tau", "limit_sigma"]
        for nm, val, raw in zip(names, a[1:], case["args"][1:]):
            if not (raw[0] == "N" and nm in case.get("omit", names)):
                kw[nm] = val
        return m.rate(a[0], **kw)
    return _with_model(case, fn, lambda res: [[rating_obs(p) for p in t] for t in res])


_RUN = {
    "rate": _rate,
    "pwin": lambda c: _with_model(c, lambda m, a: m.predict_win(a[0]), lambda r: [hx(x) for x in r]),
    "pdraw": lambda c: _with_model(c, lambda m, a: m.predict_draw(a[0]), lambda r: hx(r)),
    "prank": lambda c: _with_model(c, lambda m, a: m.predict_rank(a[0]),
                                   lambda r: [[int(k), hx(p)] for k, p in r]),
}


def _simple(fn):
    def run(case):
        try:
            return {"exc": None, "res": fn(case)}
        except Exception as e:
            return {"exc": exc_class(e), "_msg": str(e)[:200]}
    return run


def _gauss(case):
    f, x = case["fn"], case["x"]
    if f == "cdf":
        return hx(wcommon.phi_major(x))
    if f == "pdf":
        return hx(wcommon.phi_minor(x))
    if f == "icdf":
        return hx(wcommon.phi_major_inverse(x))
    return hx(getattr(wcommon, f)(x, case["t"]))


def _crt(case):
    v = to_python(case["v"])
    r = MODEL[case["kind"]].create_rating(v, py_name(case["name"])) if "name" in case and not case.get(
        "omit_name") else MODEL[case["kind"]].create_rating(v)
    o = rating_obs(r)
    o[2] = 777
    return o


def _mrating(case):
    m = make_model(case["kind"], case["st"])
    kw = {}
    if case["mu"][0] != "N":
        kw["mu"] = case["mu"][1]
    if case["sigma"][0] != "N":
        kw["sigma"] = case["sigma"][1]
    if case.get("name") is not None:
        kw["name"] = py_name(case["name"])
    r = m.rating(**kw)
    o = rating_obs(r)
    o[2] = 777
    return o


def _dcopy(case):
    r = to_python(case["r"])
    c = copy.deepcopy([[r]])[0][0] if case.get("nested") else copy.deepcopy(r)
    assert c is not r
    return rating_obs(c)


_OPS = {"lt": lambda a, b: a < b, "le": lambda a, b: a <= b, "gt": lambda a, b: a > b,
        "ge": lambda a, b: a >= b, "eq": lambda a, b: a == b, "ne": lambda a, b: a != b}


def _cmp(case):
    a = to_python(case["a"])
    b = to_python(case["b"])
    r = _OPS[case["cmp"]](a, b)
    if not isinstance(r, bool):
        raise RuntimeError("non-bool comparison result %r" % (r,))
    return r


def _order(case):
    f = case["fn"]
    if f == "rankdata":
        return list(mcommon._rank_data(list(case["xs"])))
    if f == "argsort":
        return list(mcommon._arg_sort(list(case["xs"])))
    if f == "pysum":
        return hx(sum(list(case["xs"])))
    if f == "unwind":
        ks = [to_python(k) for k in case["keys"]]
        o, t = wcommon._unwind(ks, list(range(len(ks))))
        return [list(o), [int(i) for i in t]]
    if f == "calcrank":
        ks = [to_python(k) for k in case["keys"]]
        m = MODEL[case["kind"]]()
        return list(m._calculate_rankings([None] * len(ks), ks))
    if f == "ladder":
        n = case["n"]
        return [[x - 1 for x in p] for p in wcommon._ladder_pairs(list(range(1, n + 1)))]
    raise ValueError(f)


def _minit(case):
    kw = {k: case[k] for k in ("mu", "sigma", "beta", "kappa", "tau") if case.get(k) is not None}
    if case.get("gamma"):
        kw["gamma"] = gamma_of_tag(case["gamma"], case["kind"])
    if case.get("limit") is not None:
        kw["limit_sigma"] = case["limit"]
    m = MODEL[case["kind"]](**kw)
    if not case.get("gamma") and m.gamma(2.0, 3, 1.0, 9.0, [], 0) != 1.5:
        raise RuntimeError("default gamma is not sqrt(ss)/c")
    return state_obs(m)


def _helpers(case):
    m = MODEL[case["kind"]](beta=case["beta"])
    teams = to_python(case["teams"])
    ranks = to_python(case["ranks"])
    tr = m._calculate_team_ratings(teams, ranks=ranks) if ranks is not None else m._calculate_team_ratings(teams)
    c = m._c(tr)
    return {"tr": [[hx(t.mu), hx(t.sigma_squared), int(t.rank)] for t in tr], "c": hx(c),
            "sum_q": [hx(x) for x in m._sum_q(tr, c)], "a": [int(x) for x in m._a(tr)]}


_RUN.update({
    "minit": _simple(_minit), "helpers": _simple(_helpers),
    "gauss": _simple(_gauss), "crt": _simple(_crt), "mrating": _simple(_mrating),
    "dcopy": _simple(_dcopy), "cmp": _simple(_cmp), "order": _simple(_order),
    "ordinal": _simple(lambda c: hx(to_python(c["a"]).ordinal(c["z"]) if "z" in c else to_python(c["a"]).ordinal())),
})

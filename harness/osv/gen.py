"""Generators of cases.  Every random choice comes from the one PRNG passed in."""
import itertools
import math

KINDS = ["PL", "BTF", "BTP", "TMF", "TMP"]
BETA0 = 25.0 / 6.0
GAMMAS = ["gd", "gd", "gd", "gd", "gc:" + (0.0).hex(), "gc:" + (1.0).hex(), "gc:" + (3.7).hex(), "gc:" + (20.0).hex(), "gk", "gr", "gt", "gm", "gp"]


def logu(rng, a, b):
    return math.exp(rng.uniform(math.log(a), math.log(b)))


def pow_sensitive(rng, lo, hi):
    """a double t in [lo, hi] with t ** 2 != t * t (libm's pow(t, 2) is not correctly rounded for roughly one double in a
    thousand): only such values tell a code path that squares with ** from one that multiplies"""
    for _ in range(200000):
        t = rng.uniform(lo, hi)
        if t ** 2 != t * t:
            return t
    return rng.uniform(lo, hi)


def gen_state(rng, scale=None, default_bias=0.4):
    """Model construction parameters."""
    if rng.random() < default_bias:
        k = 1.0
    else:
        k = scale if scale is not None else 10 ** rng.uniform(-3, 3)
    beta = BETA0 * k
    kappa = 1e-4 if rng.random() < 0.6 else logu(rng, 1e-8, 1e-2)
    tau = rng.choice([0.0, 1e-9 * beta, beta / 50.0, beta / 50.0, 3.0 * beta, rng.uniform(0, 2) * beta])
    if rng.random() < 0.08:
        tau = pow_sensitive(rng, 0.01 * beta, 30 * beta)
    st = {"mu": 25.0 * k, "sigma": 25.0 / 3.0 * k, "beta": beta, "kappa": kappa, "tau": tau,
          "gamma": rng.choice(GAMMAS), "limit": rng.random() < 0.3}
    if rng.random() < 0.06:
        # model parameters given as Python ints (the constructor float()s mu, sigma, kappa, tau but keeps beta as given)
        st.update(mu=25, sigma=8, beta=rng.choice([4, 1, 2, 10]), tau=rng.choice([0, 1, 2]))
    r = rng.random()
    if r < 0.10:
        st["ctor"] = "setattr"      # parameters assigned after construction instead of passed to the constructor
    elif r < 0.22:
        st["ctor"] = "reassign"     # a model already used with other parameters, then re-parameterised by assignment
    elif r < 0.25:
        st["ctor"] = "subcls"       # the model's rating-class attribute replaced by a subclass
    return st


def default_state():
    return {"mu": 25.0, "sigma": 25.0 / 3.0, "beta": BETA0, "kappa": 1e-4, "tau": 25.0 / 300.0, "gamma": "gd",
            "limit": False}


_counter = itertools.count(1)


def fresh_id():
    return next(_counter)


def gen_shape(rng, max_teams=8, max_size=8):
    n = rng.choice([2, 2, 2, 3, 3, 4, 4, 5, 6, 7, 8])
    n = min(n, max_teams)
    mode = rng.random()
    if mode < 0.35:
        return [1] * n
    if mode < 0.8:
        return [rng.choice([1, 1, 2, 2, 3, 4]) for _ in range(n)]
    return [rng.randint(1, max_size) for _ in range(n)]


def gen_teams_num(rng, st, shape, sigma0_ok=None, ints=True):
    """(mu, sigma) numbers for every player, in units of beta, with edge clusters."""
    beta = st["beta"]
    mode = rng.choice(["uniform", "uniform", "default", "equal", "ulp", "mismatch", "mismatch", "narrow", "twins", "near"])
    teams = []
    base_mu = rng.uniform(-20, 20)
    base_sg = logu(rng, 1e-4, 10)
    if mode == "ulp" and rng.random() < 0.5:
        base_mu *= rng.choice([1e-2, 1e-4, 1e-6])     # one-ulp differences far below the rounding of any probability
    for ti, sz in enumerate(shape):
        team = []
        for _ in range(sz):
            if mode == "uniform":
                mu, sg = rng.uniform(-20, 20), logu(rng, 1e-4, 10)
            elif mode == "default":
                mu, sg = 6.0, 2.0
            elif mode in ("equal", "twins"):
                mu, sg = base_mu, base_sg
            elif mode == "ulp":
                mu = base_mu * (1 + rng.choice([0, 1, -1, 2]) * 2.0 ** -52)
                sg = base_sg * (1 + rng.choice([0, 1, -1]) * 2.0 ** -52)
            elif mode == "near":
                # almost level: gaps between 1e-9 and 1e-3 beta (below any "these are equal" threshold a change might use,
                # far above rounding)
                mu = base_mu + rng.choice([-1, 1]) * logu(rng, 1e-9, 1e-3)
                sg = base_sg * (1 + rng.choice([0, 1, -1]) * logu(rng, 1e-9, 1e-3))
            elif mode == "narrow":
                mu, sg = rng.uniform(5, 7), logu(rng, 0.05, 0.5)
            else:  # mismatch: 4 .. 10 combined standard deviations between first team and the others
                sg = logu(rng, 0.02, 1.0)
                mu = 0.0
            team.append([mu, sg])
        teams.append(team)
    if mode == "mismatch":
        # shift teams so that team gaps are d combined deviations
        for ti, team in enumerate(teams):
            ss = sum(p[1] ** 2 for p in team) + sum(p[1] ** 2 for p in teams[0]) + 2.0
            d = rng.uniform(4.0, 10.0) * rng.choice([1, 1, -1]) if ti else 0.0
            per = d * math.sqrt(ss) / len(team)
            for p in team:
                p[0] = max(-20.0, min(20.0, p[0] + per))
    if mode == "twins" and len(teams) >= 3:
        # only two identical teams among different ones
        for ti in range(2, len(teams)):
            for p in teams[ti]:
                p[0], p[1] = rng.uniform(-20, 20), logu(rng, 1e-4, 10)
        rng.shuffle(teams)
    if rng.random() < 0.05:
        # every player has exactly the same ordinal mu - 3 sigma, with different (mu, sigma): small integers times a power of
        # two near beta / 4, so that mu = o + 3 sigma and mu - 3 sigma = o hold exactly in binary64
        u = 2.0 ** (math.frexp(beta)[1] - 3)
        o = rng.randint(-20, 20) * u
        out = []
        for team in teams:
            t = []
            for _ in team:
                sg = rng.randint(1, 12) * u
                t.append((o + 3 * sg, sg))
            out.append(t)
        return out
    if rng.random() < 0.04:
        # sigmas for which sigma ** 2 != sigma * sigma
        return [[(mu * beta, pow_sensitive(rng, 0.05 * beta, 8 * beta)) for mu, _ in team] for team in teams]
    out = []
    use_int = ints and rng.random() < 0.08
    for team in teams:
        t = []
        for mu, sg in team:
            mu, sg = mu * beta, sg * beta
            if use_int:
                mu, sg = int(round(mu)), max(1, int(round(sg)))
            elif sigma0_ok and st["tau"] > 0 and rng.random() < 0.03:
                sg = 0.0
            t.append((mu, sg))
        out.append(t)
    return out


def rating_vals(kind, nums, rng=None, ids="fresh", names=True):
    teams = []
    for t in nums:
        team = []
        for mu, sg in t:
            rid = fresh_id() if ids == "fresh" else 7
            nm = None
            if names and rng is not None:
                r = rng.random()
                nm = None if r < 0.3 else ((False, rid) if r < 0.35 else (True, rid))
            team.append(("R", kind, mu, sg, rid, nm))
        teams.append(("L", team))
    return ("L", teams)


# ------------------------------------------------------------------ outcomes
def weak_orders(n):
    """All ordered set partitions of range(n), as rank vectors with dense ranks 0..k-1."""
    def rec(i, cur, k):
        if i == n:
            if set(cur) == set(range(k)):
                yield tuple(cur)
            return
        for r in range(n):
            cur.append(r)
            yield from rec(i + 1, cur, max(k, r + 1))
            cur.pop()
    seen = set()
    for v in rec(0, [], 0):
        if v not in seen:
            seen.add(v)
            yield v


def random_weak_order(rng, n):
    mode = rng.random()
    if mode < 0.35:
        v = list(range(n))
        rng.shuffle(v)
        return v
    if mode < 0.5:
        return [0] * n
    k = rng.randint(1, n)
    v = [rng.randrange(k) for _ in range(n)]
    dense = {x: i for i, x in enumerate(sorted(set(v)))}
    return [dense[x] for x in v]


ENCODINGS = ["dense", "ints", "neg", "floats", "mixed", "bools", "zeros", "big", "huge", "negzero", "onebased", "bigmixed", "astro"]


def encode_order(rng, order, enc=None):
    """Map dense ranks 0..k-1 through a strictly increasing function into Python numbers."""
    k = max(order) + 1
    enc = enc or rng.choice(ENCODINGS)
    if enc == "bools" and k > 2:
        enc = "ints"
    if enc == "dense":
        vals = [("I", i) for i in range(k)]
    elif enc == "onebased":
        vals = [("I", i + 1) for i in range(k)]
    elif enc == "ints":
        xs = sorted(rng.sample(range(-50, 50), k))
        vals = [("I", x) for x in xs]
    elif enc == "neg":
        xs = sorted(rng.sample(range(-1000, 0), k))
        vals = [("I", x) for x in xs]
    elif enc == "floats":
        xs = sorted({round(rng.uniform(-10, 10), 3) for _ in range(4 * k + 4)})
        xs = sorted(rng.sample(xs, k))
        vals = [("F", x) for x in xs]
    elif enc == "mixed":
        xs = sorted(rng.sample(range(-20, 20), k))
        vals = [(("F", float(x) + rng.choice([0.0, 0.25])) if rng.random() < 0.5 else ("I", x)) for x in xs]
    elif enc == "bools":
        vals = [("B", False), ("B", True)][:k] if rng.random() < 0.5 or k == 2 else [("B", True)]
    elif enc == "zeros":
        # contains a zero-valued entry somewhere (falsy values inside a truthy list)
        z = rng.randrange(k)
        vals = [(("I", i - z) if rng.random() < 0.5 else ("F", float(i - z))) for i in range(k)]
    elif enc == "negzero":
        z = rng.randrange(k)
        vals = [("F", -0.0) if i == z else ("I", i - z) for i in range(k)]
    elif enc == "big":
        base = rng.choice([2 ** 53, -2 ** 53, 2 ** 60, 10 ** 18, -10 ** 18])
        vals = [("I", base + i) for i in range(k)]
    elif enc == "astro":
        # Python ints far beyond the range of a double (they compare exactly; they must never be coerced to float)
        base = rng.choice([10 ** 400, 1 << 1024, -(10 ** 400), (1 << 1100) + 12345])
        vals = [("I", base + i) for i in range(k)]
    elif enc == "bigmixed":
        # ints and floats interleaved just above 2^53, where a float cannot tell neighbouring ints apart:
        # 2^53 (float), 2^53 + 1 (int), 2^53 + 2 (float), ... compared exactly they are strictly increasing
        sgn = rng.choice([1, -1])
        base = 2 ** 53 + 2 * rng.randrange(0, 1000)
        raw = []
        for i in range(k):
            x = base + i
            raw.append(("F", float(x)) if (x % 2 == 0 and rng.random() < 0.7) else ("I", x))
        vals = raw if sgn > 0 else [((v[0], -v[1])) for v in reversed(raw)]
    elif enc == "huge":
        xs = sorted(rng.sample([-1e300, -1e18, -2.5e-300, 5e-324, 1e-5, 3.0, 2.0 ** 53, 1e18, 1e300,
                                1.7976931348623157e308], k)) if k <= 10 else None
        vals = [("F", x) for x in xs]
    else:
        raise ValueError(enc)
    # when some equal groups may be written in two equal-comparing ways (int vs float)
    out = []
    for r in order:
        v = vals[r]
        if enc in ("mixed", "zeros") and v[0] == "I" and rng.random() < 0.3:
            v = ("F", float(v[1]))
        out.append(v)
    return out, enc


def neg_val(v):
    if v[0] == "B":
        return ("I", -int(v[1]))
    return (v[0], -v[1])


def gen_outcome(rng, n):
    """(ranks, scores) values"""
    r = rng.random()
    if r < 0.2:
        return ("N",), ("N",)
    order = random_weak_order(rng, n)
    vals, _ = encode_order(rng, order)
    if r < 0.65:
        return ("L", vals), ("N",)
    return ("N",), ("L", [neg_val(v) for v in vals])


def gen_percall(rng, st):
    beta = st["beta"]
    tau = rng.choice([("N",), ("N",), ("N",), ("I", 0), ("F", 0.0), ("F", 1e-9 * beta), ("F", beta / 50.0),
                      ("F", 3.0 * beta), ("B", True), ("I", 1), ("F", rng.uniform(0.0, 5.0) * beta)])
    if tau[0] == "F" and rng.random() < 0.25:
        tau = ("F", pow_sensitive(rng, 0.01 * beta, 30 * beta))
    lim = rng.choice([("N",), ("N",), ("N",), ("B", True), ("B", False), ("I", 1), ("I", 0)])
    return tau, lim


def gen_rate_case(rng, kind=None, max_size=8, scale=None, state=None):
    kind = kind or rng.choice(KINDS)
    st = state or gen_state(rng, scale)
    shape = gen_shape(rng, max_size=max_size)
    tau, lim = gen_percall(rng, st)
    # sigma = 0 is valid whenever the EFFECTIVE tau (per-call if given, else the model's) is positive
    eff = st["tau"] if tau[0] == "N" else float(tau[1])
    nums = gen_teams_num(rng, dict(st, tau=eff), shape, sigma0_ok=True)
    if eff > 0 and rng.random() < 0.04:
        # a whole team of sigma-0 players (its variance comes from tau alone)
        z = rng.randrange(len(nums))
        nums[z] = [(mu, 0.0 if not isinstance(sg, int) else 0) for mu, sg in nums[z]]
    if rng.random() < 0.04:
        # one player of sigma 0 beside team-mates of positive sigma: the team's variance is positive, so the game is valid
        # whatever tau is (the player's share of the update is 0)
        multi = [ti for ti, t in enumerate(nums) if len(t) >= 2 and sum(1 for _, sg in t if sg > 0) >= 2]
        if multi:
            z = rng.choice(multi)
            j = rng.randrange(len(nums[z]))
            nums[z][j] = (nums[z][j][0], 0.0)
    ids = "same" if rng.random() < 0.05 else "fresh"
    teams = rating_vals(kind, nums, rng, ids=ids)
    ranks, scores = gen_outcome(rng, len(shape))
    return {"op": "rate", "kind": kind, "st": st, "args": [teams, ranks, scores, tau, lim]}


def gen_predict_case(rng, op=None, kind=None, scale=None):
    kind = kind or rng.choice(KINDS)
    st = gen_state(rng, scale)
    shape = gen_shape(rng)
    nums = gen_teams_num(rng, st, shape)
    if rng.random() < 0.05:
        nums = [[(mu, sg * 1e-3) for mu, sg in t] for t in nums]
    if rng.random() < 0.06:
        # teams whose players all have sigma exactly 0 (a prediction needs no positive variance: beta > 0)
        for z in range(len(nums)):
            if rng.random() < 0.5:
                nums[z] = [(mu, 0.0) for mu, _ in nums[z]]
    teams = rating_vals(kind, nums, rng, ids="same" if rng.random() < 0.08 else "fresh")
    c = {"op": op or rng.choice(["pwin", "pdraw", "prank"]), "kind": kind, "st": st, "args": [teams]}
    if rng.random() < 0.3:
        c["share"] = True
    if rng.random() < 0.12 and len(teams[1]) >= 2:
        # the very same team (same players, same list object) entered at two or more positions
        tl = list(teams[1])
        a = rng.randrange(len(tl))
        for b in range(len(tl)):
            if b != a and rng.random() < 0.5:
                tl[b] = tl[a]
        if all(t is tl[a] for t in tl) and len(tl) > 2:
            pass
        c["args"] = [("L", tl)]
        c["share"] = True
    return c


def nontrivial_rate(c):
    """a rate case is non-trivial if it has a tie, is unsorted, has a multi-player team, or per-call options"""
    teams, ranks, scores, tau, lim = c["args"]
    multi = any(len(t[1]) > 1 for t in teams[1])
    vals = None
    if ranks[0] == "L":
        vals = [v[1] for v in ranks[1]]
    elif scores[0] == "L":
        vals = [-v[1] for v in scores[1]]
    tie = vals is not None and len(set(vals)) < len(vals)
    unsorted_ = vals is not None and list(vals) != sorted(vals)
    return multi or tie or unsorted_ or tau[0] != "N" or lim[0] != "N"

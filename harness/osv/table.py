"""The per-property table: which correspondence suites and projections each property's theorems rest on,
the monitor budget, the known-findings file, the trusted base and assumptions written into the evidence."""
import json
import os

from . import gen, suites
from .enc import VERIF
from .gen import KINDS

ALL = None
RATE_TRACE = {"exc", "state", "trace", "objects"}


def build_suite(name, rng, n, tier, **kw):
    if name == "rate":
        return suites.suite_rate(rng, n, **kw)
    if name == "predict":
        return suites.suite_predict(rng, n, **kw)
    if name == "gauss":
        return suites.suite_gauss(rng, n)
    if name == "ops":
        return suites.suite_ops(rng, n, **kw)
    if name == "ctor_helpers":
        return suites.suite_ctor_helpers(rng, n, **kw)
    if name == "order":
        return suites.suite_order(rng, n, **kw)
    if name == "validate":
        whole = tier == "thorough" or n >= 4000      # C13 runs the whole grammar on 5 shapes even in quick (a few seconds)
        return suites.suite_validate(rng, None if whole else n, exhaustive=whole, **kw)
    raise ValueError(name)


def nontrivial(c):
    op = c["op"]
    if op == "rate":
        if "expect" in c:
            return c["expect"] == "reject" or c["args"][1][0] != "N" or c["args"][2][0] != "N"
        return gen.nontrivial_rate(c)
    if op in ("pwin", "pdraw", "prank"):
        if "expect" in c:
            return c["expect"] == "reject"
        return len(c["args"][0][1]) > 2 or any(len(t[1]) > 1 for t in c["args"][0][1])
    if op == "gauss":
        return c["x"] != 0
    if op == "cmp":
        return True
    if op == "order":
        return len(c.get("xs", c.get("keys", [0, 0]))) > 1 or c.get("n", 0) > 2
    return True


# (suite, kwargs, projection, quick case count)
PROPS = {
    "C01": dict(corr=[("rate", {}, ALL, 4500), ("ctor_helpers", {}, ALL, 900)], monitor=True, mon_budget=6000,
                rule="rate calls generated over kind x parameters x shapes x (mu, sigma) clusters x weak orders x encodings x per-call options; non-trivial = has a tie, is unsorted, has a multi-player team or a per-call option; distinct by hash of the canonical call",
                partial="agreement of the binary64 evaluation with the closed form to 1e-9 is decided by the monitor (a test), not by the theorem over R"),
    "C02": dict(corr=[("rate", {}, {"exc", "mu", "sigma", "ids", "shape", "objects", "slots"}, 4500), ("ops", {}, ALL, 900)], monitor=True, mon_budget=4800,
                rule="rate calls as for C01 with ids/names distinct per player, ids, shape, object identity, written slots and the numbers at each position compared with the model; non-trivial = tie/unsorted/multi-player/per-call option",
                partial=""),
    "C03": dict(corr=[("rate", {}, ALL, 3600), ("order", {}, ALL, 1800)], monitor=True, mon_budget=4000,
                rule="rate calls with every encoding of the weak order (ints, floats, mixed, bools, zeros, big, huge, negative zero); metamorphic relabellings in the monitor; non-trivial = tie or unsorted",
                partial=""),
    "C04": dict(corr=[("rate", {}, ALL, 3600)], monitor=True, mon_budget=3200,
                rule="rate calls and their images under team / player permutations; non-trivial = non-identity permutation of a game with >= 2 distinct teams",
                partial="rounding of re-ordered sums is outside the theorem over R (monitor tolerance 1e-9 on the natural scale)"),
    "C05": dict(corr=[("rate", {}, {"exc", "mu"}, 3600), ("gauss", {}, ALL, 1800)], monitor=True, mon_budget=4000,
                rule="valid games incl. 4-10 sigma mismatches, all outcomes of two-team games, place exchanges; non-trivial = as C01",
                partial="in binary64 proved without slack: Bradley-Terry first/last alone (sign of omega, direction of mu); the other direction clauses and kinds in binary64 are decided by the monitor"),
    "C06": dict(corr=[("rate", {}, {"exc", "sigma"}, 3600)], monitor=True, mon_budget=4000,
                rule="valid games x tau x limit_sigma (model-level and per-call), and league histories with ratings fed back; non-trivial = as C01",
                partial="in binary64 proved without slack (given no overflow): sigma' <= inflated sigma and the limit cap for whole BTF/BTP/PL games and all-tied TM games; TM win/loss pairs in binary64 (sign of w) and absence of overflow are decided by the monitor"),
    "C07": dict(corr=[("rate", {}, {"exc", "mu"}, 3600)], monitor=True, mon_budget=4000,
                rule="valid games incl. multi-way ties; non-trivial = as C01",
                partial="'to floating-point accuracy' is decided by the monitor with a tolerance derived from the observation noise"),
    "C08": dict(corr=[("rate", {"max_size": 16}, {"exc"}, 2400), ("predict", {}, {"exc", "value"}, 1800)], monitor=True, mon_budget=4000,
                rule="valid-domain corners and interior, beta over six decades, 16-player teams, sigma = 0 with tau > 0; non-trivial = as C01",
                partial="in binary64 proved: every divisor non-zero, every sqrt argument >= 0 (no ZeroDivisionError / math domain error); absence of overflow in binary64 is decided by the monitor"),
    "C09": dict(corr=[("predict", {"ops": ("pwin",)}, ALL, 2700)], monitor=True, mon_budget=3200,
                rule="predict_win on 2..8 teams; non-trivial = more than two teams or a multi-player team",
                partial="in binary64 proved: exact 1/2 for two identical teams, every value a finite double in [0,1]; rounding slack in sum-to-one / monotonicity decided by the monitor"),
    "C10": dict(corr=[("predict", {"ops": ("pdraw",)}, ALL, 2700)], monitor=True, mon_budget=3200,
                rule="predict_draw on 2..8 teams; non-trivial = more than two teams or a multi-player team",
                partial="in binary64 proved: finite, >= 0, <= 1 for n >= 3; the two-team upper bound and monotonicity in binary64 are decided by the monitor"),
    "C11": dict(corr=[("predict", {"ops": ("prank",)}, ALL, 2700), ("order", {}, ALL, 900)], monitor=True, mon_budget=3200,
                rule="predict_rank on 2..8 teams incl. exactly identical teams; non-trivial = more than two teams or a multi-player team",
                partial="in binary64 proved: probabilities finite in [0,1] and every rank clause (order, ties, best = 1, bounds) end to end; the 1e-9 sum with predict_draw in binary64 is decided by the monitor"),
    "C12": dict(corr=[("predict", {}, ALL, 2700)], monitor=True, mon_budget=2000,
                rule="all three predictions against a 60-digit evaluation of the closed forms; non-trivial = as C09",
                partial="the 1e-9 absolute agreement of the binary64 evaluation is decided by the monitor"),
    "C13": dict(corr=[("validate", {}, RATE_TRACE, 4500)], monitor=True, mon_budget=2400,
                rule="grammar of malformed / boundary arguments injected at every position of base games of 5 shapes (exhaustive in thorough, stride-sampled in quick); non-trivial = rejected call or a given ranks/scores argument",
                partial=""),
    "C14": dict(corr=[("rate", {}, ALL, 2000), ("predict", {}, ALL, 3000)], monitor=True, mon_budget=1500,
                rule="call histories, id/name renamings, hash seeds, access-granular thread schedules on one shared model, and first calls of a pristine interpreter interleaved at every library line with a second thread's first call (fork per line); non-trivial = history of >= 2 calls or a schedule with a context switch",
                partial="bytecode-level atomicity / free-threaded builds are outside the model; schedules are replayed at attribute-access granularity, first calls at source-line granularity"),
    "C15": dict(corr=[("rate", {}, ALL, 3600)], monitor=True, mon_budget=3200,
                rule="per-call tau in {0, 0.0, tiny, default, large}, limit_sigma in {True, False} against a model constructed with that setting; non-trivial = per-call option given",
                partial=""),
    "C16": dict(corr=[("rate", {}, ALL, 2400), ("predict", {}, ALL, 1500)], monitor=True, mon_budget=3200,
                rule="games rescaled by 10^U(-3,3) and shifted within range; non-trivial = as C01",
                partial="under rounding (FLX-53) proved exact for power-of-two factors; other factors and the shift law under rounding are decided by the monitor at 1e-9"),
    "C17": dict(corr=[("gauss", {}, ALL, 9000)], monitor=True, mon_budget=12000,
                rule="x dense in [-40,40] incl. neighbourhoods of every guard threshold, t log-dense in [1e-8,1e-2]; non-trivial = x != 0",
                partial="every binary64 accuracy figure (1e-6, 1e-12, the rounding terms, 20t) is decided by the monitor against a 60-digit reference; the theorems over R cover ranges, the exact branch and the asymptotic bounds; in binary64 proved from range/sign premises on libm: wt in [0,1], v >= 0, the guard branches"),
    "C18": dict(corr=[("ops", {}, ALL, 4500)], monitor=True, mon_budget=6000,
                rule="five rating classes x six operators x pairs incl. equal ordinals with different (mu, sigma), zeros, negatives, foreign operands; all cases non-trivial",
                partial=""),
    "C19": dict(corr=[("predict", {}, ALL, 1800), ("validate", {}, RATE_TRACE, 1800), ("ops", {}, ALL, 1800),
                      ("rate", {"kinds": ("BTF", "BTP")}, ALL, 1200), ("ctor_helpers", {}, ALL, 900)], monitor=True, mon_budget=2000,
                rule="every shared suite run against all five classes against ONE model function; cross-class monitor; signatures by reflection; non-trivial = as the respective suite",
                partial="signatures are compared by reflection (inspect), not semantics"),
    "C20": dict(corr=[("ops", {}, ALL, 2700), ("rate", {}, ALL, 1500), ("ctor_helpers", {}, ALL, 600)], monitor=True, mon_budget=1600,
                rule="constructor / create_rating / deepcopy cases and leagues with serialise-rebuild between games; non-trivial = all",
                partial="uniqueness of uuid4 ids is an assumption on the standard library, monitored on 1e4-1e5 constructions"),
}


def extra_monitor(pid, rng, tier, seed):
    """checks that need more than one interpreter"""
    out = []
    if pid == "C14":
        # the same calls under several PYTHONHASHSEEDs (separate interpreters): the numbers must not depend on it
        from . import monitors
        n = 80 if tier == "quick" else 1500
        seeds = (0, 1) if tier == "quick" else (0, 1, 4242, 99991)
        dig = monitors.hashseed_digests(seed, n, seeds=seeds)
        if len(set(dig.values())) != 1 or any(str(v).startswith("ERR") for v in dig.values()):
            out.append({"property": pid, "clause": "results depend on the process hash seed",
                        "case": {"calls": n, "generator_seed": seed, "PYTHONHASHSEED": list(seeds)},
                        "detail": "digest of the results of the same %d calls per hash seed: %s" % (n, dig), "observed": dig})
    return out


# ------------------------------------------------------------------ judging disagreeing correspondence cases
def judge_corr_cases(pid, corr_bad):
    """When a correspondence case disagrees and the monitor found nothing, decide whether the disagreement itself
    is a violation of THIS property (model and theorem say what the value must be; the implementation differs)."""
    out = []
    for b in corr_bad:
        for d in b["diffs"]:
            if _diff_concerns(pid, d):
                out.append({"property": pid, "clause": "implementation differs from the proved model: " + d.split(":")[0],
                            "case": {"driver_line": b["line"][:3000], "suite": b["suite"], "case": b.get("case")}, "detail": d,
                            "observed": {"impl": b["impl"], "model": b["model"]}})
                break
        if len(out) >= 3:
            break
    return out


_CONCERNS = {
    # model = closed form is a theorem (C01: Spec.wl_update, C12: the pairwise-Gaussian formulas), so an implementation
    # value that differs from the model's by more than 1e-9 differs from the closed form on the recorded input
    "C01": ("mu at", "sigma at", "shape"),
    "C12": ("predict_", "length"),
    # totality: the model's arithmetic guards passed (its run is the checked-carrier run proved total on the domain)
    # but the implementation raised an arithmetic exception on the same valid input
    "C08": ("outcome: impl Arith",),
    # a difference in these observables IS a counterexample to the property (the theorem fixes the value exactly,
    # carrier-polymorphically, so the model's output is what the property demands)
    "C02": ("mu at", "sigma at", "shape", "id/name", "moved", "passed object", "fields written", "result holds copies", "result mixes"),
    "C13": ("outcome", "rating objects written although", "attribute writes", "model attributes after call", "model __dict__"),
    "C14": ("attribute writes", "model attributes after call", "model __dict__"),
    "C18": ("cmp", "lt", "le", "gt", "ge", "eq", "ne", "ordinal", "outcome"),
    "C20": ("crt", "mrating", "dcopy", "minit"),
    # every shared operation of every class is tied to ONE model function: a class that departs from it departs
    # from the other four (which agree with it), on the recorded input
    "C19": ("minit", "helpers", "cmp", "lt", "le", "gt", "ge", "eq", "ne", "ordinal", "crt", "mrating", "dcopy", "predict_", "length", "outcome"),
}


def _diff_concerns(pid, d):
    return any(d.startswith(p) for p in _CONCERNS.get(pid, ()))


# ------------------------------------------------------------------ known findings
def load_known():
    p = os.path.join(VERIF, "KNOWN_FINDINGS.json")
    if not os.path.exists(p):
        return []
    return json.load(open(p))["findings"]


def match_known(pid, failure, known):
    """a monitor failure is a known finding only if an entry with status 'known' for this property matches it by
    its own predicate (clause + kind + substring of the detail)"""
    for k in known:
        if k.get("status") != "known" or k["property"] != pid:
            continue
        m = k.get("match", {})
        if not ({"clause", "kind", "detail_contains"} & set(m)):
            continue   # observed through a counter only (always_known); never swallows a failure
        if "clause" in m and m["clause"] != failure.get("clause"):
            continue
        case = failure.get("case") or {}
        if "kind" in m and (not isinstance(case, dict) or case.get("kind") != m["kind"]):
            continue
        if "detail_contains" in m and m["detail_contains"] not in str(failure.get("detail")):
            continue
        return k
    return None


def always_known(pid, known, mon):
    """known findings that the monitor observes through a counter rather than a failure (deviation explained
    exactly by the recorded cause)"""
    out = []
    for k in known:
        if k.get("status") != "known" or k["property"] != pid:
            continue
        ctr = k.get("match", {}).get("counter")
        if ctr and mon is not None and mon.dist.get(ctr, 0) > 0:
            out.append(k)
    return out


# ------------------------------------------------------------------ trusted base / assumptions for the evidence
def trusted_base(pid, pr):
    from .proofs import ALLOWED_AXIOMS
    axioms = sorted({a for l in pr.get("axioms", {}).values() for a in l})
    tb = ["Coq 8.16.1 kernel (coqc); no native_compute; vm_compute only in Examples and in-kernel correspondence"]
    if axioms:
        tb.append("axioms reported by Print Assumptions (all declared by the Coq standard library): " + ", ".join(
            "%s [%s]" % (a, ALLOWED_AXIOMS.get(a, "NOT ALLOWED")) for a in axioms))
    else:
        tb.append("Print Assumptions: every theorem of this property is closed under the global context (no axioms)")
    sv = sorted({a for l in pr.get("section_vars", {}).values() for a in l})
    if sv:
        tb.append("premises visible in the theorem statements (facts about the external normal CDF etc.): " + ", ".join(sv))
    tb += [
        "hand-written Gallina model coq/theories/{Num,Order,Gauss,Core,Predict,PyVal,Prog,RatingOps}.v (a transcription of the Python code, tied to it only by the correspondence check)",
        "extraction with ExtrOcamlBasic only (Extract Inductive for bool, option, unit, list, prod, sumbool, comparison; no Extract Constant), OCaml 4.13.1 compiler",
        "ocaml/driver.ml: float dictionary (+. -. *. /. sqrt exp Float.erfc **), AS241 inv_cdf port, I/O; glibc shared with CPython",
        "harness/osv (generators, canonicaliser, comparator, monitors): differential testing, reach bounded by the generators whose distribution is in this file",
    ]
    return tb


def assumptions(pid):
    a = ["rating objects passed within one call are pairwise distinct objects",
         "no NaN/inf among mu, sigma, rank or score values",
         "list.sort/sorted are stable sorts; copy.deepcopy calls __deepcopy__ once per element; math.sqrt/exp are the real functions rounded",
         "theorems over R do not speak about binary64 rounding; the monitors (tests) guard that gap",
         "PYTHONPATH forces the repository working tree ($VERIF_REPO, default /repo) to be the imported openskill"]
    if pid in ("C05", "C06", "C07", "C08", "C09", "C10", "C11", "C12", "C17"):
        a.append("facts about the standard normal CDF used as explicit premises (GaussFacts fields named in the theorem statements)")
    if pid == "C14":
        a.append("threads switch only at shared-attribute accesses (the granularity at which schedules are replayed)")
    if pid == "C20":
        a.append("uuid.uuid4 returns distinct ids")
    return a

"""Comparison of an implementation observation with a model observation."""
import math

from .impl import fh, ulps

REL = 1e-9   # the tolerance C01 itself states


class Stats:
    def __init__(self):
        self.max_ulp = 0
        self.floats = 0

    def see(self, a, b):
        u = ulps(a, b)
        self.floats += 1
        if u > self.max_ulp:
            self.max_ulp = u


def close(a, b, scale, stats=None, rel=REL):
    a, b = fh(a), fh(b)
    if stats is not None:
        stats.see(a, b)
    if a == b or (math.isnan(a) and math.isnan(b)):
        return True
    if math.isinf(a) or math.isinf(b) or math.isnan(a) or math.isnan(b):
        return False
    return abs(a - b) <= rel * max(scale, abs(a), abs(b), 5e-324)


def compare(case, impl, model, stats=None, proj=None):
    """Return a list of mismatch descriptions (empty = agree).

    proj: None (everything) or a set drawn from
      {"exc","mu","sigma","ids","shape","objects","state","trace","value"}"""
    def want(k):
        return proj is None or k in proj
    out = []
    ie, me = impl.get("exc"), model.get("exc")
    if isinstance(ie, str) and ie.startswith("HarnessError"):
        return ["harness error on implementation side: " + ie]
    if isinstance(me, str) and me.startswith("Driver"):
        return ["driver error on model side: %s %s" % (me, model.get("msg"))]
    # the properties demand "TypeError or ValueError" for a malformed call, not a particular one of the two (which one
    # depends on the order of the validation steps, C13_class): a rejection is compared as a rejection
    rej = ("TypeError", "ValueError")
    if ie != me and not (ie in rej and me in rej and (proj is None or "exc_class" not in proj)):
        if want("exc") or ie is None or me is None:
            out.append("outcome: impl %s (%s) / model %s" % (ie, impl.get("_msg"), me))
        return out
    op = case["op"]
    if op in ("rate", "pwin", "pdraw", "prank") and "st" in model:
        if want("state"):
            if impl["st"] != _canon_state(model["st"]):
                out.append("model attributes after call: impl %s / model %s" % (impl["st"], model["st"]))
            if not impl.get("dict_same", True):
                out.append("model __dict__ changed during the call")
        if want("trace"):
            if impl["wr"] != model["wr"]:
                out.append("attribute writes: impl %s / model %s" % (impl["wr"], model["wr"]))
            # reads of model attributes are not compared: no property is about them (an extra read is harmless)
            # fields other than mu/sigma written on the rating objects by a call that RETURNS are the implementation's own
            # business (private backing fields, scratch attributes); on a rejected call they count as a modification
            if ie is not None and ie != "Arith" and impl.get("mut_other"):
                out.append("rating fields written although the call was rejected: %s" % impl["mut_other"][:3])
    if ie is not None:
        if op == "rate" and want("objects") and ie != "Arith":
            if impl["mut"] or model.get("mut"):
                out.append("rating objects written although the call was rejected: impl %s / model %s" % (
                    impl["mut"][:3], model.get("mut", [])[:3]))
        return out
    ir, mr = impl["res"], model["res"]
    if op == "rate":
        beta = case["st"]["beta"]
        srel = _sigma_rel(case, mr)
        sinfl = _sigma_infl(case) if srel > REL else None
        if [len(t) for t in ir] != [len(t) for t in mr]:
            out.append("shape: impl %s / model %s" % ([len(t) for t in ir], [len(t) for t in mr]))
            return out
        for i, (ti, tm) in enumerate(zip(ir, mr)):
            for j, (pi, pm) in enumerate(zip(ti, tm)):
                if want("ids") and (pi[2] != pm[2] or _nm(pi[3]) != _nm(pm[3])):
                    out.append("id/name at [%d][%d]: impl %s / model %s" % (i, j, pi[2:], pm[2:]))
                sc = max(abs(fh(pm[0])), abs(fh(pm[1])), abs(fh(pi[1])))
                if want("mu") and not close(pi[0], pm[0], sc, stats) and not (
                        abs(fh(pi[0]) - fh(pm[0])) <= _tm_tie_mu_allow(case, i, j) + REL * max(sc, abs(fh(pi[0])))):
                    out.append("mu at [%d][%d]: impl %s / model %s" % (i, j, fh(pi[0]), fh(pm[0])))
                if want("sigma") and not close(pi[1], pm[1], 0.0, stats, rel=(
                        srel if srel <= REL or sinfl is None else tm_sigma_tol(srel, case["st"]["kappa"], sinfl[i][j], fh(pi[1]), fh(pm[1])))):
                    out.append("sigma at [%d][%d]: impl %s / model %s" % (i, j, fh(pi[1]), fh(pm[1])))
        if proj is not None and "slots" in proj:
            # C02 "no player is moved to another team or slot", on the VALUES: a result slot whose (mu, sigma) is not the
            # posterior the model assigns to the player passed there, but IS the (different) posterior it assigns to the
            # player passed in another slot.  (A changed formula does not reproduce another player's posterior.)
            def near(p, q, allow=0.0):
                sc_ = max(abs(fh(q[0])), abs(fh(q[1])), abs(fh(p[0])))
                return (close(p[0], q[0], sc_, None) or abs(fh(p[0]) - fh(q[0])) <= allow + REL * sc_) and close(p[1], q[1], 0.0, None, rel=srel)
            pos = [(i, j) for i, t in enumerate(mr) for j in range(len(t))]
            for (i, j) in pos:
                # (the side of vt's jump at x = 0 may differ between two correct evaluations of a Thurstone-Mosteller tie: a
                # value within that allowance of the slot's own posterior is the slot's own posterior)
                al = _tm_tie_mu_allow(case, i, j)
                if near(ir[i][j], mr[i][j], al):
                    continue
                src = [(k, l) for (k, l) in pos if (k, l) != (i, j) and near(ir[i][j], mr[k][l]) and not near(mr[k][l], mr[i][j], al)]
                if src:
                    out.append("moved: result[%d][%d] holds (%s, %s), the posterior of the player passed at [%d][%d]; its own is (%s, %s)" % (
                        i, j, fh(ir[i][j][0]), fh(ir[i][j][1]), src[0][0], src[0][1], fh(mr[i][j][0]), fh(mr[i][j][1])))
                    break
        if want("objects"):
            # set of fields written per object, and final values of the passed objects
            fi = sorted({(m[0], m[1], m[2]) for m in impl["mut"]})
            fm = sorted({(m[0], m[1], m[2]) for m in model["mut"]})
            same = impl.get("same_obj")
            if same is not None and all(all(r) for r in same):
                if fi != fm:
                    out.append("fields written on passed objects: impl %s / model %s" % (fi[:6], fm[:6]))
                after = impl.get("after")
                if after is not None:
                    for i, t in enumerate(after):
                        for j, p in enumerate(t):
                            if p != ir[i][j][:2]:
                                out.append("passed object [%d][%d] differs from the returned rating" % (i, j))
            elif same is not None and not any(any(r) for r in same):
                if impl["mut"]:
                    # copies returned: then the passed objects must be untouched
                    out.append("result holds copies but passed objects were written: %s" % impl["mut"][:3])
            else:
                out.append("result mixes passed objects and copies: %s" % same)
    elif op == "pwin":
        if len(ir) != len(mr):
            out.append("length: impl %d / model %d" % (len(ir), len(mr)))
        elif want("value"):
            for i, (a, b) in enumerate(zip(ir, mr)):
                if not close(a, b, 1.0, stats):
                    out.append("predict_win[%d]: impl %s / model %s" % (i, fh(a), fh(b)))
    elif op == "pdraw":
        if want("value") and not close(ir, mr, 1.0, stats):
            out.append("predict_draw: impl %s / model %s" % (fh(ir), fh(mr)))
    elif op == "prank":
        if len(ir) != len(mr):
            out.append("length: impl %d / model %d" % (len(ir), len(mr)))
        else:
            for i, (a, b) in enumerate(zip(ir, mr)):
                if want("value") and not close(a[1], b[1], 1.0, stats):
                    out.append("predict_rank prob[%d]: impl %s / model %s" % (i, fh(a[1]), fh(b[1])))
            # the integer ranks are a function of the probabilities (competition ranking, best = 1): the
            # implementation's ranks are compared with that function applied to ITS OWN probabilities, so that
            # probabilities differing from the model's in the last bits (a tie made or broken) do not count
            if want("value"):
                pr = [fh(a[1]) for a in ir]
                asc = [1 + sum(1 for y in pr if y < x) for x in pr]
                expect = [max(asc) - r + 1 for r in asc] if asc else []
                if [a[0] for a in ir] != expect:
                    out.append("predict_rank ranks: impl %s, but the ranking of its own probabilities %s is %s (model %s)" % (
                        [a[0] for a in ir], pr, expect, [b[0] for b in mr]))
    elif op in ("gauss", "ordinal") or (op == "order" and case["fn"] == "pysum"):
        sc = 0.0
        ok = close(ir, mr, sc, stats)
        if not ok and op == "gauss" and case.get("fn") == "wt" and "t" in case and case["t"] > 0:
            # W~ is a quotient of two cancelling differences: its computed value carries rounding noise of order 1e-13/t
            # (the term property C17 itself grants), and any other correct evaluation order of the same formula realises
            # that noise differently.  Two evaluations of the documented form agree to that noise, not to 1e-9.
            ok = abs(fh(ir) - fh(mr)) <= 1e-12 / case["t"]
        if not ok:
            out.append("%s: impl %s / model %s" % (case.get("fn", op), fh(ir), fh(mr)))
    elif op == "minit":
        if ir != _canon_state(mr):
            out.append("minit: impl %s / model %s" % (ir, mr))
    elif op == "helpers":
        if [t[2] for t in ir["tr"]] != [t[2] for t in mr["tr"]] or ir["a"] != mr["a"] or len(ir["sum_q"]) != len(mr["sum_q"]):
            out.append("helpers ranks/a/shape: impl %s %s / model %s %s" % ([t[2] for t in ir["tr"]], ir["a"], [t[2] for t in mr["tr"]], mr["a"]))
        else:
            for a, b in zip(ir["tr"], mr["tr"]):
                if not (close(a[0], b[0], abs(fh(b[0])), stats) and close(a[1], b[1], 0.0, stats)):
                    out.append("helpers team rating: impl %s / model %s" % (a, b))
            if not close(ir["c"], mr["c"], 0.0, stats):
                out.append("helpers c: impl %s / model %s" % (ir["c"], mr["c"]))
            for a, b in zip(ir["sum_q"], mr["sum_q"]):
                if not close(a, b, 0.0, stats):
                    out.append("helpers sum_q: impl %s / model %s" % (a, b))
    elif op in ("crt", "mrating", "dcopy"):
        if not (close(ir[0], mr[0], 0.0, stats, rel=0.0) and close(ir[1], mr[1], 0.0, stats, rel=0.0)):
            out.append("%s values: impl %s / model %s" % (op, ir[:2], mr[:2]))
        if ir[2] != mr[2] or _nm(ir[3]) != _nm(mr[3]):
            out.append("%s id/name: impl %s / model %s" % (op, ir[2:], mr[2:]))
    else:
        if ir != mr:
            out.append("%s: impl %s / model %s" % (case.get("fn", op), ir, mr))
    return out


def _nm(n):
    if n is None:
        return None
    return n.split(":")[0] if n.startswith("s0") else n


def _canon_state(st):
    from .impl import hx
    return [hx(fh(x)) if isinstance(x, str) else x for x in st]


def tm_sigma_tol(noise, kappa, sg_infl, a, b):
    """relative tolerance on a posterior sigma of a Thurstone-Mosteller game with ties.  sigma' = sigma_infl * sqrt(max(f,
    kappa)) with f = 1 - share * delta; the tie terms of delta carry W~'s cancellation noise [noise] (relative, W~ ~ 1), so
    two correct evaluations differ in f by at most about noise * share * delta <= noise, i.e. in sigma' by noise / (2 f)
    relative for each side: noise / f together.  f is read off the two posteriors themselves; it is small exactly when
    the variance factor comes close to its floor kappa (large gamma, dominant player), and there the noise is amplified
    by 1/f.  (seed 507: gamma = 3.7, f = 5e-5, noise 1.5e-6: the two sigmas differ by 6e-5 relative.)"""
    if noise <= REL:
        return REL
    try:
        f = (min(abs(a), abs(b)) / sg_infl) ** 2 if sg_infl > 0 else 1.0
    except (ZeroDivisionError, OverflowError):
        f = 1.0
    return max(REL, noise / max(f - noise, kappa, 1e-300))


def _sigma_infl(case):
    args = case["args"]
    try:
        tau = case["st"]["tau"] if args[3][0] == "N" else float(args[3][1])
        return [[math.sqrt(float(p[3]) ** 2 + tau * tau) for p in t[1]] for t in args[0][1]]
    except Exception:  # noqa: BLE001
        return None


def _sigma_rel(case, model_res):
    """relative tolerance on a posterior sigma: 1e-9 (C01's own), widened for Thurstone-Mosteller games WITH TIES, where
    W~ is evaluated with a cancellation error of order 1e-13/t that the properties explicitly allow (C01 "within that
    form's stated error", C17 "wt within 20t + 1e-13/t"), t = kappa / c_iq.  Same rule as the monitors use."""
    kind = case.get("kind")
    if kind not in ("TMF", "TMP"):
        return REL
    args = case["args"]
    vals = None
    for a in (args[1], args[2]):
        if a[0] == "L" and a[1] and all(v[0] in ("I", "F", "B") for v in a[1]):
            vals = [v[1] for v in a[1]]      # exact Python numbers (ints may exceed the range of a double)
            break
    if vals is None or len(set(vals)) == len(vals):
        return REL
    try:
        ss = [sum(fh(p[1]) ** 2 for p in t) for t in model_res]    # posterior variances bound the scale from below; use priors:
        prior = [[p for p in t[1]] for t in args[0][1]]
        tau = case["st"]["tau"] if args[3][0] == "N" else float(args[3][1])
        ss = [sum(float(p[3]) ** 2 + tau * tau for p in t) for t in prior]
        cmax = (2.0 if kind == "TMP" else 1.0) * math.sqrt(2 * max(ss) + 2 * case["st"]["beta"] ** 2)
        t_min = case["st"]["kappa"] / cmax
        return max(REL, 1e-12 / t_min)
    except Exception:  # noqa: BLE001
        return REL


def _tm_tie_mu_allow(case, t, j):
    """absolute allowance on a posterior mu in Thurstone-Mosteller games with ties: on the branch the code takes for small
    draw margins V~ is -x -/+ t, which jumps by 2t at x = 0 (within the 2t error C17 states for vt); two evaluations
    whose team totals differ in the last bit (another summation order) may land on either side.  The jump moves player
    (t, j) by sigma_tj^2 * 2 kappa / c_tq^2 per tied opponent q - the draw-margin term C05/C07 allow."""
    kind = case.get("kind")
    if kind not in ("TMF", "TMP"):
        return 0.0
    try:
        args = case["args"]
        vals = None
        for a, sgn in ((args[1], 1.0), (args[2], -1.0)):
            if a[0] == "L" and a[1] and all(v[0] in ("I", "F", "B") for v in a[1]):
                vals = [(v[1] if sgn > 0 else -v[1]) for v in a[1]]
                break
        if vals is None:
            return 0.0
        tau = case["st"]["tau"] if args[3][0] == "N" else float(args[3][1])
        prior = [t_[1] for t_ in args[0][1]]
        ss = [sum(float(p[3]) ** 2 + tau * tau for p in tm) for tm in prior]
        cm = 4.0 if kind == "TMP" else 1.0
        th = [math.fsum(float(p[2]) for p in tm) for tm in prior]
        tot = 0.0
        for q in range(len(vals)):
            if q != t and vals[q] == vals[t]:
                # ambiguous only if the totals agree up to rounding and a total can depend on the summation order
                # (a team of three or more players)
                if max(len(prior[t]), len(prior[q])) >= 3 and abs(th[t] - th[q]) <= 1e-9 * max(abs(th[t]), abs(th[q]), case["st"]["beta"]):
                    tot += 2 * case["st"]["kappa"] / (cm * (ss[t] + ss[q] + 2 * case["st"]["beta"] ** 2))
        return (float(prior[t][j][3]) ** 2 + tau * tau) * tot * (1 + 1e-9)
    except Exception:  # noqa: BLE001
        return 0.0

From Coq Require Import List ZArith Bool Reals Lra Lia.
From Flocq Require Import Core.
Open Scope R_scope.
Definition rnd : R -> R := round radix2 (FLX_exp 53) (Znearest (fun x => negb (Z.even x))).
Lemma rnd_0 : rnd 0 = 0.
Proof. apply round_0. apply valid_rnd_N. Qed.
Lemma rnd_scale k x : rnd (bpow radix2 k * x) = bpow radix2 k * rnd x.
Proof.
  destruct (Req_dec x 0) as [->|Hx].
  - rewrite Rmult_0_r, rnd_0. ring.
  - rewrite (Rmult_comm _ x). unfold rnd, round, F2R, scaled_mantissa, cexp, FLX_exp. cbn [Fnum Fexp].
    rewrite mag_mult_bpow by exact Hx.
    replace (mag radix2 x + k - 53)%Z with ((mag radix2 x - 53) + k)%Z by ring.
    rewrite Z.opp_add_distr, !bpow_plus.
    replace (x * bpow radix2 k * (bpow radix2 (- (mag radix2 x - 53)) * bpow radix2 (- k)))
      with (x * bpow radix2 (- (mag radix2 x - 53)) * (bpow radix2 k * bpow radix2 (-k))) by ring.
    rewrite <- (bpow_plus radix2 k (-k)), Z.add_opp_diag_r. cbn [bpow]. rewrite Rmult_1_r. ring.
Qed.
Print Assumptions rnd_scale.

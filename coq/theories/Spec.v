(** * Spec: the published Weng-Lin updates, as closed forms over the UNSORTED game.

    Definitions only.  This is the reference the algorithmic model ([Core.rate_core]) is proved
    equal to (property C01); it is written, like [harness/osv/spec.py], directly from the
    formulas of Weng & Lin (JMLR 2011), Algorithms 1-4, with the documented extensions of
    openskill.py:

    - the prior variance of every player is inflated by tau: sigma^2 + tau^2;
    - team skill theta_i = sum of the members' mu, team variance ss_i = sum of the members'
      (inflated) sigma^2;
    - each member's share of the team update is sigma_ij^2 / ss_i;
    - the variance factor 1 - share * Delta_i is floored at kappa;
    - Delta is scaled by the gamma callback
      gamma(c, number of teams, theta_i, ss_i, team_i, rank_i), rank_i = #{s | key_s < key_i};
    - limit_sigma: the posterior sigma is clamped against the prior (un-inflated) sigma.

    A game is the list of teams with their rank keys (smaller key = better place; keys are
    the exact rationals [num / 2^k] of [Order.key]); when no ranks are given, key_i := i.
    There is no sorting here: all sums range over the teams of the game in the order given,
    filtered by comparisons of keys.  [q = i] means identity of POSITION in the game.

    The truncated-Gaussian corrections V, W, V~, W~ are the guarded functions [v w vt wt] of
    [Gauss.v] themselves (exact ratio above the guard, documented asymptotic form below it). *)
From Coq Require Import List ZArith Bool Arith Reals.
From OSV Require Import Num Order Gauss Core RInst.
Import ListNotations.
Open Scope R_scope.

Section Spec.
Variables Phi Phiinv : R -> R.
Local Instance RN : Num R := RNum Phi Phiinv.

Definition team := list (rating R).
Definition entry := (key * team)%type.        (* a team with its rank key *)
Definition game := list entry.
Definition ientry := (nat * entry)%type.      (* ... and its position in the game *)

Definition indexed (g : game) : list ientry := combine (seq 0 (length g)) g.

Definition key_eqb (a b : key) : bool := key_leb a b && key_leb b a.

(** team aggregates *)
Definition theta (t : team) : R := Rsum (map r_mu t).
Definition ssq (t : team) : R := Rsum (map (fun p => r_sigma p * r_sigma p) t).

(** rank handed to the gamma callback: the number of teams placed strictly better *)
Definition rank_of (g : game) (k : key) : nat := length (filter (fun s : entry => key_ltb (fst s) k) g).
Definition gamma_at (P : params R) (g : game) (c : R) (e : entry) : R :=
  p_gamma P c (length g) (theta (snd e)) (ssq (snd e)) (snd e) (rank_of g (fst e)).

(** ** Plackett-Luce (Algorithm 4) *)
Definition pl_c (P : params R) (g : game) : R :=
  sqrt (Rsum (map (fun s : entry => ssq (snd s) + p_beta P * p_beta P) g)).
(** S_q = sum over the teams s placed no better than q of exp(theta_s / c) *)
Definition pl_S (P : params R) (g : game) (kq : key) : R :=
  Rsum (map (fun s : entry => exp (theta (snd s) / pl_c P g)) (filter (fun s : entry => key_leb kq (fst s)) g)).
(** A_q = number of teams tied with q *)
Definition pl_A (g : game) (kq : key) : R :=
  INR (length (filter (fun s : entry => key_eqb (fst s) kq) g)).
Definition pl_p (P : params R) (g : game) (ti : team) (kq : key) : R :=
  exp (theta ti / pl_c P g) / pl_S P g kq.
Definition kron (q i : nat) : R := if Nat.eqb q i then 1 else 0.

Definition pl_omega (P : params R) (g : game) (ie : ientry) : R :=
  let i := fst ie in let ki := fst (snd ie) in let ti := snd (snd ie) in
  ssq ti / pl_c P g *
  Rsum (map (fun qe : ientry => (kron (fst qe) i - pl_p P g ti (fst (snd qe))) / pl_A g (fst (snd qe)))
            (filter (fun qe : ientry => key_leb (fst (snd qe)) ki) (indexed g))).
Definition pl_delta (P : params R) (g : game) (ie : ientry) : R :=
  let ki := fst (snd ie) in let ti := snd (snd ie) in
  gamma_at P g (pl_c P g) (snd ie) * (ssq ti / (pl_c P g * pl_c P g)) *
  Rsum (map (fun qe : ientry => pl_p P g ti (fst (snd qe)) * (1 - pl_p P g ti (fst (snd qe))) / pl_A g (fst (snd qe)))
            (filter (fun qe : ientry => key_leb (fst (snd qe)) ki) (indexed g))).

(** ** pairwise terms (Algorithms 1-3) of team [ei] against team [eq] *)
Definition c_pair (P : params R) (ti tq : team) : R :=
  sqrt (ssq ti + ssq tq + 2 * (p_beta P * p_beta P)).

(** Bradley-Terry *)
Definition score (ki kq : key) : R :=
  if key_ltb ki kq then 1 else if key_eqb ki kq then / 2 else 0.
Definition bt_p (c : R) (ti tq : team) : R := 1 / (1 + exp ((theta tq - theta ti) / c)).
Definition bt_omega_term (P : params R) (ei eq : entry) : R :=
  let c := c_pair P (snd ei) (snd eq) in
  ssq (snd ei) / c * (score (fst ei) (fst eq) - bt_p c (snd ei) (snd eq)).
Definition bt_delta_term (P : params R) (g : game) (ei eq : entry) : R :=
  let c := c_pair P (snd ei) (snd eq) in
  let p := bt_p c (snd ei) (snd eq) in
  gamma_at P g c ei * (ssq (snd ei) / (c * c)) * (p * (1 - p)).

(** Thurstone-Mosteller; [f] scales c_iq (Algorithm 3: f = 1) *)
Definition tm_omega_term (f : R) (P : params R) (ei eq : entry) : R :=
  let c := f * c_pair P (snd ei) (snd eq) in
  let x := (theta (snd ei) - theta (snd eq)) / c in
  let t := p_kappa P / c in
  if key_ltb (fst ei) (fst eq) then ssq (snd ei) / c * v x t
  else if key_ltb (fst eq) (fst ei) then - (ssq (snd ei) / c) * v (- x) t
  else ssq (snd ei) / c * vt x t.
Definition tm_delta_term (f : R) (P : params R) (g : game) (ei eq : entry) : R :=
  let c := f * c_pair P (snd ei) (snd eq) in
  let x := (theta (snd ei) - theta (snd eq)) / c in
  let t := p_kappa P / c in
  gamma_at P g c ei * (ssq (snd ei) / (c * c)) *
  (if key_ltb (fst ei) (fst eq) then w x t
   else if key_ltb (fst eq) (fst ei) then w (- x) t
   else wt x t).

(** ** who is compared with whom *)
(** full pairing: every other team *)
Definition others (g : game) (i : nat) : list ientry :=
  filter (fun qe : ientry => negb (Nat.eqb (fst qe) i)) (indexed g).
(** partial pairing: the (at most two) neighbours in the STABLE order by key
    (mutually tied teams keep the order of the game) *)
Definition stable_order (g : game) : list ientry :=
  isort (fun a b : ientry => key_leb (fst (snd a)) (fst (snd b))) (indexed g).
Fixpoint adjacent (i : nat) (prev : option ientry) (l : list ientry) : list ientry :=
  match l with
  | [] => []
  | x :: xs => if Nat.eqb (fst x) i then opt_list prev ++ opt_list (hd_error xs)
               else adjacent i (Some x) xs
  end.
Definition neighbours (g : game) (i : nat) : list ientry := adjacent i None (stable_order g).

(** ** Omega_i and Delta_i of the five models; [f] only concerns TMP *)
Definition omega (f : R) (k : kind) (P : params R) (g : game) (ie : ientry) : R :=
  match k with
  | PL => pl_omega P g ie
  | BTF => Rsum (map (fun qe : ientry => bt_omega_term P (snd ie) (snd qe)) (others g (fst ie)))
  | BTP => Rsum (map (fun qe : ientry => bt_omega_term P (snd ie) (snd qe)) (neighbours g (fst ie)))
  | TMF => Rsum (map (fun qe : ientry => tm_omega_term 1 P (snd ie) (snd qe)) (others g (fst ie)))
  | TMP => Rsum (map (fun qe : ientry => tm_omega_term f P (snd ie) (snd qe)) (neighbours g (fst ie)))
  end.
Definition delta (f : R) (k : kind) (P : params R) (g : game) (ie : ientry) : R :=
  match k with
  | PL => pl_delta P g ie
  | BTF => Rsum (map (fun qe : ientry => bt_delta_term P g (snd ie) (snd qe)) (others g (fst ie)))
  | BTP => Rsum (map (fun qe : ientry => bt_delta_term P g (snd ie) (snd qe)) (neighbours g (fst ie)))
  | TMF => Rsum (map (fun qe : ientry => tm_delta_term 1 P g (snd ie) (snd qe)) (others g (fst ie)))
  | TMP => Rsum (map (fun qe : ientry => tm_delta_term f P g (snd ie) (snd qe)) (neighbours g (fst ie)))
  end.

(** ** the per-player split *)
Definition player_update (kappa ssi om de : R) (p : rating R) : rating R :=
  let share := r_sigma p * r_sigma p / ssi in
  set_mu_sigma p (r_mu p + share * om)
                 (r_sigma p * sqrt (Rmax (1 - share * de) kappa)).
Definition team_update (f : R) (k : kind) (P : params R) (g : game) (ie : ientry) : team :=
  map (player_update (p_kappa P) (ssq (snd (snd ie))) (omega f k P g ie) (delta f k P g ie)) (snd (snd ie)).

(** ** the whole update *)
Definition inflate_sigma (tau : R) (p : rating R) : rating R :=
  set_sigma p (sqrt (r_sigma p * r_sigma p + tau * tau)).
Definition limit_sigma (prior post : rating R) : rating R :=
  set_sigma post (Rmin (r_sigma post) (r_sigma prior)).
Definition keys_of (n : nat) (keys : option (list key)) : list key :=
  match keys with Some ks => ks | None => map key_of_nat (seq 0 n) end.
Definition game_of (tau : R) (teams : list team) (keys : option (list key)) : game :=
  combine (keys_of (length teams) keys) (map (map (inflate_sigma tau)) teams).

Definition wl_update_f (f : R) (k : kind) (P : params R) (tau : R) (limit : bool)
           (teams : list team) (keys : option (list key)) : list team :=
  let g := game_of tau teams keys in
  let post := map (team_update f k P g) (indexed g) in
  if limit
  then map (fun tt : team * team => map (fun pp : rating R * rating R => limit_sigma (fst pp) (snd pp))
                                        (combine (fst tt) (snd tt)))
           (combine teams post)
  else post.

(** the published update (c_iq as in Algorithms 1-4) *)
Definition wl_update := wl_update_f 1.
End Spec.

(** * Num: the abstract number type of the model.

    The model of openskill.py is written once, against this class, and is
    instantiated three ways: Coq's reals (theorems), OCaml floats (the extracted
    program that the correspondence check runs next to the Python code), and
    never anything else.  The class has NO laws: a theorem stated
    [forall F (N : Num F), ...] holds verbatim for IEEE doubles. *)
From Coq Require Import List ZArith Bool.
Import ListNotations.

Class Num (F : Type) := {
  fadd : F -> F -> F;  fsub : F -> F -> F;  fmul : F -> F -> F;  fdiv : F -> F -> F;
  fneg : F -> F;  fabs : F -> F;
  fsqrt : F -> F;      (* math.sqrt *)
  fexp : F -> F;       (* math.exp *)
  ferfc : F -> F;      (* math.erfc *)
  fpow2 : F -> F;      (* x ** 2 : CPython float_pow -> C pow(x, 2.0) *)
  ficdf : F -> F;      (* statistics.NormalDist().inv_cdf *)
  fltb : F -> F -> bool;  fleb : F -> F -> bool;  feqb : F -> F -> bool;
  ffinite : F -> bool; (* math.isfinite *)
  fofZ : Z -> F;       (* int -> float conversion (exact on the ints the code uses) *)
  fofdy : Z -> Z -> F; (* the float literal m * 2^e, exactly *)
  ftau : F             (* math.tau = 2*pi *)
}.

Section Derived.
Context {F : Type} `{Num F}.

Definition fzero : F := fofZ 0.
Definition fone : F := fofZ 1.
Definition ftwo : F := fofZ 2.
Definition fhalf : F := fofdy 1 (-1).
(** [sys.float_info.epsilon] = 2^-52 and the literal [1e-5] (the double nearest to it). *)
Definition feps : F := fofdy 1 (-52).
Definition f1em5 : F := fofdy 5902958103587057 (-69).

(** Python's [max(a, b)]: [b] iff [b > a], else [a]. *)
Definition fmax (a b : F) : F := if fltb a b then b else a.
(** Python's [min(a, b)]: [b] iff [b < a], else [a]. *)
Definition fmin (a b : F) : F := if fltb b a then b else a.

(** [functools.reduce(lambda x, y: x + y, l)] with no initial value. *)
Definition reduce_add (l : list F) : F :=
  match l with [] => fzero | x :: xs => fold_left fadd xs x end.

(** CPython 3.12 built-in [sum()] on floats: starts from int 0 ([0 + first]),
    then Neumaier-compensated accumulation, compensation added at the end if
    nonzero and finite. *)
Fixpoint neumaier (l : list F) (s c : F) : F * F :=
  match l with
  | [] => (s, c)
  | x :: xs =>
      let t := fadd s x in
      let c' := if fleb (fabs x) (fabs s)
                then fadd c (fadd (fsub s t) x)
                else fadd c (fadd (fsub x t) s) in
      neumaier xs t c'
  end.

Definition py_sum (l : list F) : F :=
  match l with
  | [] => fzero
  | x :: xs =>
      let sc := neumaier xs (fadd fzero x) fzero in
      if andb (negb (feqb (snd sc) fzero)) (ffinite (snd sc))
      then fadd (fst sc) (snd sc) else fst sc
  end.

End Derived.

(** * PyVal: the Python values a caller can pass, exceptions, and argument
    validation of [rate] / [predict_*] in the order the code performs it. *)
From Coq Require Import List ZArith Bool Arith.
From OSV Require Import Num Order Gauss Core.
Import ListNotations.

Inductive exn := TypeError | ValueError.
Inductive res (A : Type) := Ok (a : A) | Raise (e : exn).
Arguments Ok {A} a.
Arguments Raise {A} e.

Definition rbind {A B} (r : res A) (f : A -> res B) : res B :=
  match r with Ok a => f a | Raise e => Raise e end.

Fixpoint mapM {A B} (f : A -> res B) (l : list A) : res (list B) :=
  match l with
  | [] => Ok []
  | x :: xs => rbind (f x) (fun y => rbind (mapM f xs) (fun ys => Ok (y :: ys)))
  end.

Section PyVal.
Context {F : Type} `{Num F}.

(** A float carries its value in [F] and its exact rational [num / 2^k]. *)
Inductive pyval :=
| PNone
| PBool (b : bool)
| PInt (z : Z)
| PFloat (x : F) (num k : Z)
| PStr (truthy : bool)
| PList (l : list pyval)
| PTuple (l : list pyval)
| PRating (k : kind) (r : rating F)
| POther (truthy : bool).

Definition truthy (v : pyval) : bool :=
  match v with
  | PNone => false
  | PBool b => b
  | PInt z => negb (Z.eqb z 0)
  | PFloat _ num _ => negb (Z.eqb num 0)
  | PStr t => t
  | PList l => match l with [] => false | _ => true end
  | PTuple l => match l with [] => false | _ => true end
  | PRating _ _ => true
  | POther t => t
  end.

(** [isinstance(x, (int, float))] and the exact value *)
Definition as_key (v : pyval) : res key :=
  match v with
  | PBool b => Ok ((if b then 1 else 0)%Z, 0%Z)
  | PInt z => Ok (z, 0%Z)
  | PFloat _ num k => Ok (num, k)
  | _ => Raise TypeError
  end.

Definition as_float (v : pyval) : res F :=
  match v with
  | PBool b => Ok (fofZ (if b then 1 else 0))
  | PInt z => Ok (fofZ z)
  | PFloat x _ _ => Ok x
  | _ => Raise TypeError
  end.

(** [_check_teams] *)
Definition check_player (k : kind) (p : pyval) : res (rating F) :=
  match p with
  | PRating k' r => if kind_eqb k k' then Ok r else Raise TypeError
  | _ => Raise TypeError
  end.
Definition check_team (k : kind) (t : pyval) : res (list (rating F)) :=
  match t with
  | PList [] => Raise ValueError
  | PList ps => mapM (check_player k) ps
  | _ => Raise TypeError
  end.
Definition check_teams (k : kind) (teams : pyval) : res (list (list (rating F))) :=
  match teams with
  | PList ts => if Nat.ltb (length ts) 2 then Raise ValueError else mapM (check_team k) ts
  | _ => Raise TypeError
  end.

(** validation of a truthy [ranks] / [scores] argument against [n] teams *)
Definition check_keys (n : nat) (v : pyval) : res (list key) :=
  match v with
  | PList l => if negb (Nat.eqb (length l) n) then Raise ValueError else mapM as_key l
  | _ => Raise TypeError
  end.

(** the whole validation prefix of [rate], yielding the typed teams and the
    rank keys (scores negated) if any were given *)
Definition validate_rate (k : kind) (teams ranks scores : pyval)
  : res (list (list (rating F)) * option (list key)) :=
  rbind (check_teams k teams) (fun tms =>
  let n := length tms in
  rbind (if truthy ranks
         then rbind (check_keys n ranks) (fun rk =>
              if truthy scores then Raise ValueError else Ok (Some rk))
         else Ok None) (fun rk =>
  rbind (if truthy scores then rbind (check_keys n scores) (fun sc => Ok (Some sc)) else Ok None)
        (fun sc =>
  Ok (tms, match rk with
           | Some r => Some r
           | None => match sc with Some s => Some (map key_neg s) | None => None end
           end)))).
End PyVal.
Arguments pyval F : clear implicits.

(** * GaussCalc: the density/distribution facts of [GaussFacts] from calculus hypotheses.

    [GaussFacts] (RInst.v) contains six facts that mix the standard normal density
    [phi] and the distribution function [Phi] (Mills-ratio bounds, Sampford's inequality,
    mean and variance of the normal law truncated to an interval).  Here they are all
    PROVED, for any function [Phi] such that
      - [Phi] is differentiable everywhere with derivative [c * exp (- x^2 / 2)], [c > 0],
      - [Phi > 0],
      - [Phi x -> 0] as [x -> -oo].
    Only the mean value theorem is used (no integrals). *)
From Coq Require Import Reals Lra Lia.
From Coquelicot Require Import Coquelicot.
From OSV Require Import RInst.
Open Scope R_scope.

(** ** General tools *)

(** mean value theorem, for functions differentiable everywhere *)
Lemma mvt_all (f df : R -> R) (a b : R) :
  (forall x, is_derive f x (df x)) -> a < b ->
  exists t, a <= t <= b /\ f b - f a = df t * (b - a).
Proof.
  intros Hd Hab.
  destruct (MVT_gen f a b df) as [t [Ht E]].
  - intros x _. apply Hd.
  - intros x _. apply continuity_pt_filterlim.
    apply (ex_derive_continuous f x). exists (df x). apply Hd.
  - exists t. split; [|exact E].
    rewrite Rmin_left, Rmax_right in Ht by lra. exact Ht.
Qed.

Lemma deriv_nonneg_le (f df : R -> R) (a b : R) :
  (forall x, is_derive f x (df x)) ->
  (forall x, a <= x <= b -> 0 <= df x) -> a <= b -> f a <= f b.
Proof.
  intros Hd Hpos [Hab|Hab]; [|subst; lra].
  destruct (mvt_all f df a b Hd Hab) as [t [Ht E]].
  pose proof (Hpos t Ht) as P.
  assert (0 <= df t * (b - a)) by (apply Rmult_le_pos; lra). lra.
Qed.

Lemma deriv_pos_lt (f df : R -> R) (a b : R) :
  (forall x, is_derive f x (df x)) ->
  (forall x, 0 < df x) -> a < b -> f a < f b.
Proof.
  intros Hd Hpos Hab.
  destruct (mvt_all f df a b Hd Hab) as [t [Ht E]].
  pose proof (Hpos t) as P.
  assert (0 < df t * (b - a)) by (apply Rmult_lt_0_compat; lra). lra.
Qed.

(** a function with positive derivative that is bounded below by [- K / |x|] near -oo is positive *)
Lemma deriv_pos_vanishing_pos (f df : R -> R) (K : R) :
  (forall x, is_derive f x (df x)) ->
  (forall x, 0 < df x) ->
  (forall x, x < -1 -> - (K / - x) <= f x) ->
  forall x, 0 < f x.
Proof.
  intros Hd Hpos Hlow x0.
  destruct (Rlt_le_dec 0 (f x0)) as [H|H]; [exact H|exfalso].
  assert (L1 : f (x0 - 1) < f x0) by (apply (deriv_pos_lt f df); auto; lra).
  set (eps := - f (x0 - 1)). assert (Heps : 0 < eps) by (unfold eps; lra).
  set (x := Rmin (Rmin (x0 - 1) (-1)) (- (K / eps)) - 1).
  assert (X1 : x < x0 - 1).
  { unfold x. pose proof (Rmin_l (Rmin (x0 - 1) (-1)) (- (K / eps))).
    pose proof (Rmin_l (x0 - 1) (-1)). lra. }
  assert (X2 : x < -1).
  { unfold x. pose proof (Rmin_l (Rmin (x0 - 1) (-1)) (- (K / eps))).
    pose proof (Rmin_r (x0 - 1) (-1)). lra. }
  assert (X3 : K / eps < - x).
  { unfold x. pose proof (Rmin_r (Rmin (x0 - 1) (-1)) (- (K / eps))). lra. }
  assert (L2 : f x < f (x0 - 1)) by (apply (deriv_pos_lt f df); auto).
  pose proof (Hlow x X2) as L3.
  assert (L4 : K / - x < eps).
  { apply (Rmult_lt_reg_r (- x)); [lra|].
    replace (K / - x * - x) with K by (field; lra).
    apply (Rmult_lt_compat_r eps) in X3; [|exact Heps].
    replace (K / eps * eps) with K in X3 by (field; lra). lra. }
  unfold eps in L4. lra.
Qed.

(** [y * exp (- y) < 1] *)
Lemma x2_exp_bound x : (x * x) * exp (- (x * x) / 2) <= 2.
Proof.
  set (y := x * x / 2).
  assert (Hy : 0 <= y) by (unfold y; nra).
  replace (- (x * x) / 2) with (- y) by (unfold y; field).
  replace (x * x) with (2 * y) by (unfold y; field).
  rewrite exp_Ropp.
  assert (E : y < exp y).
  { destruct Hy as [Hy|Hy]; [assert (N : y <> 0) by lra; pose proof (exp_ineq1 y N); lra | rewrite <- Hy, exp_0; lra]. }
  assert (Q : y * / exp y <= 1).
  { apply (Rmult_le_reg_r (exp y)); [apply exp_pos|].
    rewrite Rmult_assoc, Rinv_l by (pose proof (exp_pos y); lra). lra. }
  lra.
Qed.

Section Calc.
Variable Phi : R -> R.          (* the distribution function *)
Variable c : R.                 (* the normalising constant of the density *)
Hypothesis c_pos : 0 < c.
Let dens x := c * exp (- (x * x) / 2).
Hypothesis Phi_derive : forall x, is_derive Phi x (dens x).
Hypothesis Phi_pos : forall x, 0 < Phi x.
Hypothesis Phi_lim_minf : is_lim Phi m_infty 0.

Lemma dens_pos x : 0 < dens x.
Proof. unfold dens. apply Rmult_lt_0_compat; [exact c_pos | apply exp_pos]. Qed.

Lemma Phi_ex_derive x : ex_derive Phi x.
Proof. exists (dens x). apply Phi_derive. Qed.
Lemma Phi_Derive x : Derive Phi x = dens x.
Proof. apply is_derive_unique, Phi_derive. Qed.

Lemma dens_derive x : is_derive dens x (- x * dens x).
Proof. unfold dens. auto_derive. - exact I. - unfold Rdiv; field. Qed.

Lemma x2_dens_bound x : (x * x) * dens x <= 2 * c.
Proof.
  unfold dens. pose proof (x2_exp_bound x).
  replace (x * x * (c * exp (- (x * x) / 2))) with (c * (x * x * exp (- (x * x) / 2))) by ring.
  nra.
Qed.

Lemma Phi_incr a b : a < b -> Phi a < Phi b.
Proof. intros H. apply (deriv_pos_lt Phi dens); auto. apply dens_pos. Qed.

Ltac dsolve :=
  unfold dens; auto_derive;
  [ repeat split; try apply Phi_ex_derive
  | rewrite ?Phi_Derive; unfold dens, Rdiv; field ].

(** *** 1. band *)
Lemma band_low_derive a x : is_derive (fun x => - dens x - a * Phi x) x ((x - a) * dens x).
Proof.
  dsolve.
Qed.
Lemma band_up_derive b x : is_derive (fun x => b * Phi x + dens x) x ((b - x) * dens x).
Proof.
  dsolve.
Qed.

Theorem calc_band : forall a b, a < b ->
  a * (Phi b - Phi a) <= dens a - dens b <= b * (Phi b - Phi a).
Proof.
  intros a b Hab. split.
  - pose proof (deriv_nonneg_le _ _ a b (band_low_derive a)) as H. cbv beta in H.
    assert (- dens a - a * Phi a <= - dens b - a * Phi b).
    { apply H; [|lra]. intros x Hx. apply Rmult_le_pos; [lra | left; apply dens_pos]. }
    lra.
  - pose proof (deriv_nonneg_le _ _ a b (band_up_derive b)) as H. cbv beta in H.
    assert (b * Phi a + dens a <= b * Phi b + dens b).
    { apply H; [|lra]. intros x Hx. apply Rmult_le_pos; [lra | left; apply dens_pos]. }
    lra.
Qed.

(** *** 2. Mills: [0 < dens x + x * Phi x] *)
Lemma Phi_small eps M : 0 < eps -> exists a, a < M /\ Phi a < eps.
Proof.
  intros Heps.
  pose proof (proj2 (is_lim_spec Phi m_infty 0) Phi_lim_minf (mkposreal eps Heps)) as [N HN].
  exists (Rmin M N - 1). split.
  - pose proof (Rmin_l M N). lra.
  - assert (L : Rmin M N - 1 < N) by (pose proof (Rmin_r M N); lra).
    specialize (HN _ L). cbn in HN. rewrite Rminus_0_r in HN.
    apply Rabs_def2 in HN. lra.
Qed.

Lemma mills_neg_le x : x < 0 -> - x * Phi x <= dens x.
Proof.
  intros Hx.
  destruct (Rle_lt_dec (- x * Phi x) (dens x)) as [H|H]; [exact H|exfalso].
  set (eps := (- x * Phi x - dens x) / - x).
  assert (Heps : 0 < eps) by (unfold eps; apply Rdiv_lt_0_compat; lra).
  destruct (Phi_small eps x Heps) as [a [Hax Ha]].
  pose proof (calc_band a x Hax) as [_ B].
  pose proof (dens_pos a).
  assert (E : - x * eps = - x * Phi x - dens x) by (unfold eps; field; lra).
  assert (- x * Phi a < - x * eps) by (apply Rmult_lt_compat_l; lra).
  lra.
Qed.

Definition mills_f x := dens x + x * Phi x.
Lemma mills_derive x : is_derive mills_f x (Phi x).
Proof. unfold mills_f. dsolve. Qed.

Theorem calc_mills : forall x, 0 < dens x + x * Phi x.
Proof.
  assert (N : forall x, x < 0 -> 0 <= mills_f x).
  { intros x Hx. pose proof (mills_neg_le x Hx). unfold mills_f. lra. }
  intros x. change (0 < mills_f x).
  destruct (Rlt_le_dec x 0) as [Hx|Hx].
  - assert (mills_f (x - 1) < mills_f x)
      by (apply (deriv_pos_lt mills_f Phi); auto using mills_derive; lra).
    pose proof (N (x - 1)). lra.
  - assert (mills_f (- 1) < mills_f x)
      by (apply (deriv_pos_lt mills_f Phi); auto using mills_derive; lra).
    pose proof (N (- 1)). lra.
Qed.

(** decay of the density at -oo, in the form needed by [deriv_pos_vanishing_pos] *)
Lemma xdens_low x : x < 0 -> - x * dens x <= 2 * c / - x.
Proof.
  intros Hx. pose proof (x2_dens_bound x) as B.
  apply (Rmult_le_reg_r (- x)); [lra|].
  replace (2 * c / - x * - x) with (2 * c) by (field; lra). lra.
Qed.
Lemma dens_low x : x < -1 -> dens x <= 2 * c / - x.
Proof.
  intros Hx. pose proof (xdens_low x) as B. pose proof (dens_pos x) as P.
  assert (dens x <= - x * dens x) by nra. lra.
Qed.

(** *** 3. upper Mills bound *)
Definition mu_f x := (x * x + 1) * Phi x + x * dens x.
Lemma mu_derive x : is_derive mu_f x (2 * mills_f x).
Proof. unfold mu_f, mills_f. dsolve. Qed.

Lemma mu_pos x : 0 < mu_f x.
Proof.
  apply (deriv_pos_vanishing_pos mu_f (fun x => 2 * mills_f x) (2 * c)).
  - apply mu_derive.
  - intros y. pose proof (calc_mills y). unfold mills_f. lra.
  - intros y Hy. unfold mu_f.
    assert (Hy0 : y < 0) by lra. pose proof (xdens_low y Hy0). pose proof (Phi_pos y).
    assert (0 < (y * y + 1) * Phi y) by (apply Rmult_lt_0_compat; nra). lra.
Qed.

Theorem calc_mills_up : forall x, x < 0 -> dens x * (- x) < (x * x + 1) * Phi x.
Proof. intros x _. pose proof (mu_pos x). unfold mu_f in *. lra. Qed.

(** *** 4. second lower Mills bound *)
Definition ml_f x := dens x * (x * x + 2) - (- x * (x * x) + 3 * - x) * Phi x.
Lemma ml_derive x : is_derive ml_f x (3 * mu_f x).
Proof. unfold ml_f, mu_f. dsolve. Qed.

Lemma ml_pos x : 0 < ml_f x.
Proof.
  apply (deriv_pos_vanishing_pos ml_f (fun x => 3 * mu_f x) (2 * c)).
  - apply ml_derive.
  - intros y. pose proof (mu_pos y). lra.
  - intros y Hy. unfold ml_f.
    assert (Hy0 : y < 0) by lra.
    pose proof (dens_low y Hy) as D. pose proof (mills_neg_le y Hy0) as M.
    assert (E : (- y * (y * y) + 3 * - y) * Phi y = (y * y + 3) * (- y * Phi y)) by ring.
    rewrite E.
    assert ((y * y + 3) * (- y * Phi y) <= (y * y + 3) * dens y)
      by (apply Rmult_le_compat_l; nra).
    lra.
Qed.

Theorem calc_mills_low2 : forall x, x < 0 ->
  (- x * (x * x) + 3 * - x) * Phi x < dens x * (x * x + 2).
Proof. intros x _. pose proof (ml_pos x). unfold ml_f in *. lra. Qed.

(** *** 5. Sampford's inequality *)
Definition sa_f x := Phi x * Phi x - dens x * (dens x + x * Phi x).
Lemma sa_derive x : is_derive sa_f x (dens x * mu_f x).
Proof. unfold sa_f, mu_f. dsolve. Qed.

Lemma sa_pos x : 0 < sa_f x.
Proof.
  apply (deriv_pos_vanishing_pos sa_f (fun x => dens x * mu_f x) (2 * c * (2 * c))).
  - apply sa_derive.
  - intros y. apply Rmult_lt_0_compat; [apply dens_pos | apply mu_pos].
  - intros y Hy. unfold sa_f.
    assert (Hy0 : y < 0) by lra.
    pose proof (dens_low y Hy) as D. pose proof (dens_pos y) as P.
    pose proof (Phi_pos y) as Q. pose proof (calc_mills y) as M.
    assert (B : 2 * c / - y <= 2 * c).
    { apply (Rmult_le_reg_r (- y)); [lra|].
      replace (2 * c / - y * - y) with (2 * c) by (field; lra). nra. }
    assert (S : dens y + y * Phi y <= dens y) by nra.
    assert (T : dens y * (dens y + y * Phi y) <= 2 * c * (2 * c / - y)).
    { apply Rmult_le_compat; lra. }
    replace (2 * c * (2 * c) / - y) with (2 * c * (2 * c / - y)) by (field; lra).
    assert (0 < Phi y * Phi y) by (apply Rmult_lt_0_compat; lra).
    lra.
Qed.

Theorem calc_sampford : forall x, dens x * (dens x + x * Phi x) < Phi x * Phi x.
Proof. intros x. pose proof (sa_pos x). unfold sa_f in *. lra. Qed.

(** *** 6. variance of the density restricted to a window *)
Lemma wv_low_derive m x :
  is_derive (fun x => Phi x - x * dens x + 2 * m * dens x + m * m * Phi x) x
            ((x - m) * (x - m) * dens x).
Proof. dsolve. Qed.
Lemma wv_up_derive a b x :
  is_derive (fun x => - (Phi x - x * dens x) - (a + b) * dens x - a * b * Phi x) x
            ((x - a) * (b - x) * dens x).
Proof. dsolve. Qed.

Theorem calc_window_var : forall a b, a < b ->
  let D := Phi b - Phi a in
  0 <= 1 + (a * dens a - b * dens b) / D - ((dens a - dens b) / D) * ((dens a - dens b) / D)
    <= ((b - a) / 2) * ((b - a) / 2).
Proof.
  intros a b Hab D.
  assert (HD : 0 < D) by (unfold D; pose proof (Phi_incr a b Hab); lra).
  set (m := (dens a - dens b) / D).
  set (Q := (a * dens a - b * dens b) / D).
  assert (Ep : dens a - dens b = m * D) by (unfold m; field; lra).
  assert (Eq : a * dens a - b * dens b = Q * D) by (unfold Q; field; lra).
  (* lower bound: the integral of (x - m)^2 dens over [a,b] is nonnegative *)
  pose proof (deriv_nonneg_le _ _ a b (wv_low_derive m)) as L. cbv beta in L.
  assert (L' : Phi a - a * dens a + 2 * m * dens a + m * m * Phi a
            <= Phi b - b * dens b + 2 * m * dens b + m * m * Phi b).
  { apply L; [|lra]. intros x _. apply Rmult_le_pos; [apply Rle_0_sqr | left; apply dens_pos]. }
  assert (L2 : 0 <= D * (1 + Q - m * m)).
  { replace (D * (1 + Q - m * m)) with (D + Q * D + m * m * D - 2 * m * (m * D)) by ring.
    rewrite <- Ep, <- Eq. unfold D. lra. }
  (* upper bound: the integral of (x - a)(b - x) dens over [a,b] is nonnegative *)
  pose proof (deriv_nonneg_le _ _ a b (wv_up_derive a b)) as U. cbv beta in U.
  assert (U' : - (Phi a - a * dens a) - (a + b) * dens a - a * b * Phi a
            <= - (Phi b - b * dens b) - (a + b) * dens b - a * b * Phi b).
  { apply U; [|lra]. intros x Hx. apply Rmult_le_pos; [nra | left; apply dens_pos]. }
  assert (U2 : 0 <= D * ((a + b) * m - a * b - (1 + Q))).
  { replace (D * ((a + b) * m - a * b - (1 + Q))) with (- D - Q * D + (a + b) * (m * D) - a * b * D) by ring.
    rewrite <- Ep, <- Eq. unfold D. lra. }
  assert (L3 : 0 <= 1 + Q - m * m).
  { apply (Rmult_le_reg_l D); [exact HD|]. lra. }
  assert (U3 : 0 <= (a + b) * m - a * b - (1 + Q)).
  { apply (Rmult_le_reg_l D); [exact HD|]. lra. }
  split; [exact L3|].
  assert (SQ : 0 <= (m - (a + b) / 2) * (m - (a + b) / 2)) by apply Rle_0_sqr.
  lra.
Qed.

(** all six mixed facts *)
Theorem GaussDensity_facts :
  (forall x, 0 < dens x + x * Phi x) /\
  (forall x, x < 0 -> dens x * (- x) < (x * x + 1) * Phi x) /\
  (forall x, x < 0 -> (- x * (x * x) + 3 * - x) * Phi x < dens x * (x * x + 2)) /\
  (forall x, dens x * (dens x + x * Phi x) < Phi x * Phi x) /\
  (forall a b, a < b -> a * (Phi b - Phi a) <= dens a - dens b <= b * (Phi b - Phi a)) /\
  (forall a b, a < b ->
      let D := Phi b - Phi a in
      0 <= 1 + (a * dens a - b * dens b) / D - ((dens a - dens b) / D) * ((dens a - dens b) / D)
        <= ((b - a) / 2) * ((b - a) / 2)).
Proof.
  repeat split.
  - apply calc_mills. - apply calc_mills_up; assumption. - apply calc_mills_low2; assumption.
  - apply calc_sampford. - apply calc_band; assumption. - apply calc_band; assumption.
  - apply calc_window_var; assumption. - apply calc_window_var; assumption.
Qed.
End Calc.

Print Assumptions GaussDensity_facts.

(** ** The bridge to [GaussFacts]

    [Phi] is any function with the distribution-only facts [GaussCDF] (instantiated
    without hypotheses in GaussInst.v), whose derivative is [c * exp (- x^2 / 2)] and
    which tends to 0 at -oo.  The only classical fact NOT proved here is the value of
    the Gaussian integral, i.e. that the normalising constant [c] of the standard normal
    density is [1 / sqrt (2 pi)] (hypothesis [Gauss_integral_value]); [gf_tail8] is a
    numeric fact and is kept as a hypothesis too. *)
Section Bridge.
Variables (Phi Phiinv : R -> R) (c : R).
Hypothesis Phi_derive : forall x, is_derive Phi x (c * exp (- (x * x) / 2)).
Hypothesis Phi_lim_minf : is_lim Phi m_infty 0.
Hypothesis Phi_cdf : GaussCDF Phi Phiinv.
Hypothesis Gauss_integral_value : c = / sqrt (2 * PI).
Hypothesis Phi_tail8 : / 4503599627370496 < Phi (- 8).

Lemma phi_dens x : phi x = c * exp (- (x * x) / 2).
Proof. unfold phi. rewrite Gauss_integral_value. unfold Rdiv. ring. Qed.

Theorem GaussFacts_from_calculus : GaussFacts Phi Phiinv.
Proof.
  assert (c_pos : 0 < c).
  { rewrite Gauss_integral_value. apply Rinv_0_lt_compat, sqrt_2PI_pos. }
  assert (Phi_pos : forall x, 0 < Phi x) by (intros x; apply (gc_range _ _ Phi_cdf x)).
  destruct (GaussDensity_facts Phi c c_pos Phi_derive Phi_pos Phi_lim_minf)
    as (F1 & F2 & F3 & F4 & F5 & F6).
  constructor.
  - apply (gc_mono _ _ Phi_cdf).
  - apply (gc_sym _ _ Phi_cdf).
  - apply (gc_range _ _ Phi_cdf).
  - apply (gc_inv _ _ Phi_cdf).
  - intros x. rewrite phi_dens. apply F1.
  - intros x Hx. rewrite phi_dens. apply F2, Hx.
  - intros x Hx. rewrite phi_dens. apply F3, Hx.
  - intros x. rewrite phi_dens. apply F4.
  - intros a b Hab. rewrite !phi_dens. apply F5, Hab.
  - intros a b Hab. rewrite !phi_dens. apply F6, Hab.
  - apply (gc_window _ _ Phi_cdf).
  - apply (gc_star _ _ Phi_cdf).
  - exact Phi_tail8.
Qed.
End Bridge.

Check GaussFacts_from_calculus.
Print Assumptions GaussFacts_from_calculus.

(** * FloatInst: the number class on Flocq's IEEE 754 binary64, and the exactness of
    "two identical teams get one half each" for doubles.

    [B64Num fexp ferfc fpow2 ficdf : Num binary64] instantiates the class of [Num.v] on
    Flocq's [binary64] with the IEEE 754 round-to-nearest-even operations ([b64_plus mode_NE],
    ...; NaN payloads chosen as in Flocq's [Bits.v]).  The libm / CPython functions
    [exp], [erfc], [x ** 2] (C [pow], not correctly rounded) and [inv_cdf] are PARAMETERS of the
    instance; what a theorem needs to know about them is an explicit hypothesis.

    No axiom is declared here.  Flocq's operations themselves ([b64_minus], [b64_div], ...)
    carry validity proofs obtained from its real-number specification, so every statement that
    mentions them depends on the standard library's real-number axioms and
    [Classical_Prop.classic] ([Print Assumptions b64_minus] already lists them). *)
From Coq Require Import List ZArith Bool Reals Lra.
From Flocq Require Import Core.Raux Core.Defs Core.Zaux IEEE754.BinarySingleNaN IEEE754.Binary IEEE754.Bits.
From OSV Require Import Num Gauss Core Predict.
Import ListNotations.

(** ** The instance *)

Definition Hprec64 : (0 < 53)%Z := eq_refl.
Definition Hmax64 : (53 < 1024)%Z := eq_refl.

(** the double nearest to the integer [z] / to [m * 2^e] (round to nearest even; exact when
    representable) *)
Definition b64_of_Z (z : Z) : binary64 := binary_normalize 53 1024 Hprec64 Hmax64 mode_NE z 0 false.
Definition b64_of_dyadic (m e : Z) : binary64 := binary_normalize 53 1024 Hprec64 Hmax64 mode_NE m e false.

Definition b64_ltb (x y : binary64) : bool :=
  match b64_compare x y with Some Lt => true | _ => false end.
Definition b64_leb (x y : binary64) : bool :=
  match b64_compare x y with Some Lt | Some Eq => true | _ => false end.
Definition b64_eqb (x y : binary64) : bool :=
  match b64_compare x y with Some Eq => true | _ => false end.

(** [math.tau]: the double nearest to 2*pi, 0x401921FB54442D18 *)
Definition b64_tau : binary64 := b64_of_bits 4618760256179416344.

Definition B64Num (fexp ferfc fpow2 ficdf : binary64 -> binary64) : Num binary64 := {|
  fadd := b64_plus mode_NE;  fsub := b64_minus mode_NE;
  fmul := b64_mult mode_NE;  fdiv := b64_div mode_NE;
  fneg := b64_opp;  fabs := b64_abs;
  fsqrt := b64_sqrt mode_NE;
  Num.fexp := fexp;  Num.ferfc := ferfc;  Num.fpow2 := fpow2;  Num.ficdf := ficdf;
  fltb := b64_ltb;  fleb := b64_leb;  feqb := b64_eqb;
  ffinite := is_finite 53 1024;
  fofZ := b64_of_Z;
  fofdy := b64_of_dyadic;
  ftau := b64_tau |}.

(** ** The polymorphic theorem with the four laws restricted to the values that occur *)
Section HalfAt.
Context {F : Type} {N : Num F}.
Variables (beta : F) (t : list (rating F)).
Let m : F := fst (agg t).
Let s : F := pair_scale beta (length t + length t) (agg t) (agg t).
Hypothesis sub_diag_m : fsub m m = fzero.
Hypothesis div_zero_s : fdiv fzero s = fzero.
Hypothesis cdf_zero : cdf (fzero : F) = fhalf.
Hypothesis one_minus_half : fsub (fone : F) fhalf = fhalf.

Lemma two_identical_half_at : predict_win beta [t; t] = [fhalf; fhalf].
Proof.
  unfold predict_win. cbv zeta. fold m. fold s.
  rewrite sub_diag_m, div_zero_s, cdf_zero, one_minus_half. reflexivity.
Qed.
End HalfAt.

(** ** The laws in binary64 *)

Definition b64_pzero : binary64 := B754_zero 53 1024 false.
Definition b64_nzero : binary64 := B754_zero 53 1024 true.

Section B64Laws.
Variables fexp ferfc fpow2 ficdf : binary64 -> binary64.
Local Instance NB : Num binary64 := B64Num fexp ferfc fpow2 ficdf.

Lemma b64_fzero : (fzero : binary64) = b64_pzero.
Proof. apply B2FF_inj. vm_compute. reflexivity. Qed.

(** the concrete constants *)
Lemma b64_fone_Bone : (fone : binary64) = Bone 53 1024 Hprec64 Hmax64.
Proof. apply B2FF_inj. vm_compute. reflexivity. Qed.

Lemma b64_fhalf_bits : (fhalf : binary64) = b64_of_bits 4602678819172646912.
Proof. apply B2FF_inj. vm_compute. reflexivity. Qed.

Lemma b64_fone_bits : (fone : binary64) = b64_of_bits 4607182418800017408.
Proof. apply B2FF_inj. vm_compute. reflexivity. Qed.

(** x - x = +0 for finite x (round to nearest) *)
Lemma b64_sub_diag (x : binary64) : is_finite 53 1024 x = true -> fsub x x = fzero.
Proof.
  intros Fx. rewrite b64_fzero.
  change (fsub x x) with (Bminus 53 1024 Hprec64 Hmax64 binop_nan_pl64 mode_NE x x).
  pose proof (Bminus_correct 53 1024 Hprec64 Hmax64 binop_nan_pl64 mode_NE x x Fx Fx) as H.
  replace (B2R 53 1024 x - B2R 53 1024 x)%R with 0%R in H by (symmetry; apply Rminus_diag_eq; reflexivity).
  rewrite Generic_fmt.round_0 in H by (apply valid_rnd_round_mode).
  rewrite Rabs_R0, Rlt_bool_true in H by (apply bpow_gt_0).
  rewrite Rcompare_Eq in H by reflexivity.
  destruct H as (HR & HF & HS).
  apply B2R_Bsign_inj; [exact HF | reflexivity | rewrite HR; reflexivity |].
  rewrite HS. unfold b64_pzero. cbn [Bsign]. apply andb_negb_r.
Qed.

(** the scale: a finite non-zero square root is a positive finite number *)
Lemma b64_sqrt_strict_pos (x : binary64) :
  is_finite_strict 53 1024 (b64_sqrt mode_NE x) = true ->
  Bsign 53 1024 (b64_sqrt mode_NE x) = false.
Proof.
  intros Hs.
  change (b64_sqrt mode_NE x) with (Bsqrt 53 1024 Hprec64 Hmax64 unop_nan_pl64 mode_NE x) in *.
  destruct (Bsqrt_correct 53 1024 Hprec64 Hmax64 unop_nan_pl64 mode_NE x) as (HR & HF & HS).
  assert (Hfin : is_finite 53 1024 (Bsqrt 53 1024 Hprec64 Hmax64 unop_nan_pl64 mode_NE x) = true).
  { destruct (Bsqrt 53 1024 Hprec64 Hmax64 unop_nan_pl64 mode_NE x); try discriminate Hs; reflexivity. }
  assert (Hnan : is_nan 53 1024 (Bsqrt 53 1024 Hprec64 Hmax64 unop_nan_pl64 mode_NE x) = false).
  { destruct (Bsqrt 53 1024 Hprec64 Hmax64 unop_nan_pl64 mode_NE x); try discriminate Hs; reflexivity. }
  rewrite (HS Hnan). rewrite Hfin in HF.
  destruct x as [sx|sx|sx pl Hpl|sx mx ex Hx]; try discriminate HF.
  - (* sqrt (+-0) has real value 0: not strictly finite *)
    exfalso. cbn [B2R] in HR. rewrite sqrt_0, Generic_fmt.round_0 in HR by (apply valid_rnd_round_mode).
    destruct (Bsqrt 53 1024 Hprec64 Hmax64 unop_nan_pl64 mode_NE (B754_zero 53 1024 sx)) as [s0|s0|s0 pl0 Hpl0|s0 m0 e0 H0];
      try discriminate Hs.
    cbn [B2R] in HR. revert HR. apply Float_prop.F2R_neq_0. now destruct s0.
  - destruct sx; [discriminate HF | reflexivity].
Qed.

(** +0 / s = +0 for positive finite non-zero s *)
Lemma b64_div_zero_pos (s : binary64) :
  is_finite_strict 53 1024 s = true -> Bsign 53 1024 s = false -> fdiv fzero s = fzero.
Proof.
  intros Hs Hp. rewrite b64_fzero.
  destruct s as [s0|s0|s0 pl0 Hpl0|s0 m0 e0 H0]; try discriminate Hs.
  cbn [Bsign] in Hp. subst s0. reflexivity.
Qed.

(** more generally: +0 / s is the zero whose sign is the sign of s *)
Lemma b64_div_zero_strict (s : binary64) :
  is_finite_strict 53 1024 s = true -> fdiv fzero s = B754_zero 53 1024 (Bsign 53 1024 s).
Proof.
  intros Hs. rewrite b64_fzero.
  destruct s as [s0|s0|s0 pl0 Hpl0|s0 m0 e0 H0]; try discriminate Hs.
  destruct s0; reflexivity.
Qed.

(** - (+0) / sqrt 2 = -0 *)
Lemma b64_cdf_arg_zero : fdiv (fneg (fzero : binary64)) (fsqrt ftwo) = b64_nzero.
Proof. apply B2FF_inj. vm_compute. reflexivity. Qed.

(** 0.5 * 1 = 0.5 and 1 - 0.5 = 0.5 *)
Lemma b64_half_times_one : fmul (fhalf : binary64) fone = fhalf.
Proof. apply B2FF_inj. vm_compute. reflexivity. Qed.

Lemma b64_one_minus_half : fsub (fone : binary64) fhalf = fhalf.
Proof. apply B2FF_inj. vm_compute. reflexivity. Qed.

(** cdf 0 = 1/2, given libm's erfc (-0.0) = 1.0 *)
Lemma b64_cdf_zero : ferfc b64_nzero = fone -> cdf (fzero : binary64) = fhalf.
Proof.
  intros He. unfold cdf. rewrite b64_cdf_arg_zero.
  change (Num.ferfc b64_nzero) with (ferfc b64_nzero). rewrite He. apply b64_half_times_one.
Qed.

(** ** Two identical teams get exactly 0.5 each, in binary64 *)
Lemma b64_two_identical_half (beta : binary64) (t : list (rating binary64)) :
  is_finite 53 1024 (fst (agg t)) = true ->
  is_finite_strict 53 1024 (pair_scale beta (length t + length t) (agg t) (agg t)) = true ->
  ferfc b64_nzero = fone ->
  predict_win beta [t; t] = [fhalf; fhalf].
Proof.
  intros Hm Hs He.
  apply two_identical_half_at.
  - apply b64_sub_diag; exact Hm.
  - apply b64_div_zero_pos; [exact Hs|].
    unfold pair_scale in *. apply b64_sqrt_strict_pos. exact Hs.
  - apply b64_cdf_zero; exact He.
  - apply b64_one_minus_half.
Qed.

End B64Laws.

(** closed forms (the section variables become arguments) *)
Theorem two_identical_half_binary64 :
  forall (fexp ferfc fpow2 ficdf : binary64 -> binary64) (beta : binary64) (t : list (rating binary64)),
  ferfc (B754_zero 53 1024 true) = b64_of_bits 4607182418800017408 ->
  is_finite 53 1024 (fst (@agg binary64 (B64Num fexp ferfc fpow2 ficdf) t)) = true ->
  is_finite_strict 53 1024
    (@pair_scale binary64 (B64Num fexp ferfc fpow2 ficdf) beta (length t + length t)
       (@agg binary64 (B64Num fexp ferfc fpow2 ficdf) t) (@agg binary64 (B64Num fexp ferfc fpow2 ficdf) t)) = true ->
  @predict_win binary64 (B64Num fexp ferfc fpow2 ficdf) beta [t; t]
  = [b64_of_bits 4602678819172646912; b64_of_bits 4602678819172646912].
Proof.
  intros fexp ferfc fpow2 ficdf beta t He Hm Hs.
  rewrite <- (b64_fhalf_bits fexp ferfc fpow2 ficdf).
  apply b64_two_identical_half; [exact Hm | exact Hs |].
  rewrite (b64_fone_bits fexp ferfc fpow2 ficdf). exact He.
Qed.

(** the two constants are the doubles 1.0 and 0.5 *)
Lemma b64_bits_one : B2R 53 1024 (b64_of_bits 4607182418800017408) = 1%R.
Proof.
  replace (b64_of_bits 4607182418800017408) with (B754_finite 53 1024 false 4503599627370496 (-52) eq_refl)
    by (apply B2FF_inj; vm_compute; reflexivity).
  unfold B2R, F2R. cbn. lra.
Qed.

Lemma b64_bits_half : B2R 53 1024 (b64_of_bits 4602678819172646912) = (/ 2)%R.
Proof.
  replace (b64_of_bits 4602678819172646912) with (B754_finite 53 1024 false 4503599627370496 (-53) eq_refl)
    by (apply B2FF_inj; vm_compute; reflexivity).
  unfold B2R, F2R. cbn. lra.
Qed.

(** ** A concrete instance satisfying the hypotheses (non-vacuity)

    The libm parameters are instantiated by stand-ins ([erfc := fun _ => 1.0], which has
    [erfc (-0.0) = 1.0]; [x ** 2 := x * x]); the team is [(25.0, 25/3); (30.5, 7.25)], beta = 25/6. *)
Definition ExNum : Num binary64 :=
  B64Num (fun x => x) (fun _ => b64_of_bits 4607182418800017408) (fun x => b64_mult mode_NE x x) (fun x => x).
Definition ex_team : list (rating binary64) :=
  [mkRating (b64_of_bits 4627730092099895296) (b64_of_bits 4620880867666602667) 0%Z NmNone;
   mkRating (b64_of_bits 4629278204471803904) (b64_of_bits 4619848792751996928) 1%Z NmNone].
Definition ex_beta : binary64 := b64_of_bits 4616377268039232171.

Lemma ex_hyps :
  is_finite 53 1024 (fst (@agg binary64 ExNum ex_team)) = true
  /\ is_finite_strict 53 1024
       (@pair_scale binary64 ExNum ex_beta (length ex_team + length ex_team)
          (@agg binary64 ExNum ex_team) (@agg binary64 ExNum ex_team)) = true.
Proof. split; vm_compute; reflexivity. Qed.

Lemma ex_value :
  @predict_win binary64 ExNum ex_beta [ex_team; ex_team]
  = [b64_of_bits 4602678819172646912; b64_of_bits 4602678819172646912].
Proof. apply two_identical_half_binary64; [reflexivity | apply ex_hyps | apply ex_hyps]. Qed.

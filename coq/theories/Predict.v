(** * Predict: [predict_win], [predict_draw], [predict_rank] (identical in the
    five model files). *)
From Coq Require Import List ZArith Bool Arith.
From OSV Require Import Num Order Gauss Core.
Import ListNotations.

Section Predict.
Context {F : Type} `{Num F}.

(** team aggregates as [_calculate_team_ratings([team])] computes them *)
Definition agg (team : list (rating F)) : F * F :=
  (reduce_add (map r_mu team), reduce_add (map (fun p => fpow2 (r_sigma p)) team)).

Definition nplayers (teams : list (list (rating F))) : nat :=
  fold_left (fun acc t => acc + length t) teams 0.

(** [sqrt(n * beta**2 + sigma_a + sigma_b)] *)
Definition pair_scale (beta : F) (n : nat) (a b : F * F) : F :=
  fsqrt (fadd (fadd (fmul (fofZ (Z.of_nat n)) (fpow2 beta)) (snd a)) (snd b)).

Definition half_pairs (n : nat) : F := fdiv (fofZ (Z.of_nat (n * (n - 1)))) ftwo.

Definition predict_win (beta : F) (teams : list (list (rating F))) : list F :=
  let n := length teams in
  match teams with
  | [ta; tb] =>
      let a := agg ta in let b := agg tb in
      let r := cdf (fdiv (fsub (fst a) (fst b)) (pair_scale beta (length ta + length tb) a b)) in
      [r; fsub fone r]
  | _ =>
      map (fun ro =>
             let a := agg (fst ro) in
             fdiv (py_sum (map (fun tb => let b := agg tb in
                      cdf (fdiv (fsub (fst a) (fst b)) (pair_scale beta n a b))) (snd ro)))
                  (half_pairs n))
          (rows teams)
  end.

Definition draw_margin (beta : F) (teams : list (list (rating F))) : F :=
  let np := fofZ (Z.of_nat (nplayers teams)) in
  fmul (fmul (fsqrt np) beta) (icdf (fdiv (fadd fone (fdiv fone np)) ftwo)).

Definition predict_draw (beta : F) (teams : list (list (rating F))) : F :=
  let n := length teams in
  let dm := draw_margin beta teams in
  let pairs := flat_map (fun ro =>
      let a := agg (fst ro) in
      map (fun tb => let b := agg tb in
             let s := pair_scale beta n a b in
             fsub (cdf (fdiv (fadd (fsub dm (fst a)) (fst b)) s))
                  (cdf (fdiv (fsub (fsub (fst a) (fst b)) dm) s))) (snd ro)) (rows teams) in
  let den := if Nat.ltb 2 n then fofZ (Z.of_nat (n * (n - 1))) else fone in
  fdiv (fabs (py_sum pairs)) den.

Definition predict_rank_probs (beta : F) (teams : list (list (rating F))) : list F :=
  let n := length teams in
  let dm := draw_margin beta teams in
  map (fun ro =>
         let a := agg (fst ro) in
         fabs (fdiv (py_sum (map (fun tb => let b := agg tb in
                  cdf (fdiv (fsub (fsub (fst a) (fst b)) dm) (pair_scale beta n a b))) (snd ro)))
              (half_pairs n)))
      (rows teams).

Definition predict_rank (beta : F) (teams : list (list (rating F))) : list (nat * F) :=
  let probs := predict_rank_probs beta teams in
  combine (reverse_ranks (rank_data fltb feqb probs)) probs.
End Predict.

(** * C06L: sigma after [rate] is positive, at most the tau-inflated prior sigma,
    and capped by the prior sigma under [limit_sigma]; league histories.
    Over the reals ([RNum Phi Phiinv]); the Gaussian facts are needed only for the
    Thurstone-Mosteller kinds (range of W). *)
From Coq Require Import List ZArith Bool Arith Reals Lra Lia Permutation.
From OSV Require Import Num Order Gauss Core RInst.
From OSV.Lemmas Require Import OrderL RateL GaussRangeL.
Import ListNotations.
Open Scope R_scope.

(** ** generic list facts *)
Lemma fold_left_inv {A B} (f : A -> B -> A) (Q : A -> Prop) l a :
  (forall a x, In x l -> Q a -> Q (f a x)) -> Q a -> Q (fold_left f l a).
Proof.
  revert a; induction l as [|x l IH]; intros a Hf Ha; cbn; [assumption|].
  apply IH; [intros b y Hy Hb; apply Hf; [now right|assumption] | apply Hf; [now left|assumption]].
Qed.

Lemma rows_aux_in {A} (pre l : list A) io :
  In io (rows_aux pre l) -> In (fst io) l /\ incl (snd io) (pre ++ l).
Proof.
  revert pre; induction l as [|x xs IH]; intros pre Hin; cbn in Hin; [contradiction|].
  destruct Hin as [<-|Hin].
  - cbn. split; [now left|]. intros y Hy. apply in_app_iff in Hy. apply in_app_iff.
    destruct Hy as [Hy|Hy]; [left; now apply in_rev | right; now right].
  - destruct (IH _ Hin) as [H1 H2]. split; [now right|].
    intros y Hy. specialize (H2 y Hy). cbn in H2. apply in_app_iff.
    destruct H2 as [<-|H2]; [right; now left|]. apply in_app_iff in H2.
    destruct H2 as [H2|H2]; [now left | right; now right].
Qed.
Lemma rows_in {A} (l : list A) io : In io (rows l) -> In (fst io) l /\ incl (snd io) l.
Proof. intros H. apply (rows_aux_in [] l io H). Qed.

Lemma ladder_aux_in {A} (prev : option A) (l : list A) o :
  In o (ladder_aux prev l) -> incl o (opt_list prev ++ l).
Proof.
  revert prev; induction l as [|x xs IH]; intros prev Hin; cbn in Hin; [contradiction|].
  destruct Hin as [<-|Hin].
  - intros y Hy. apply in_app_iff in Hy. apply in_app_iff. destruct Hy as [Hy|Hy]; [now left|].
    right. right. destruct xs as [|z zs]; cbn in Hy; [contradiction|]. destruct Hy as [<-|[]]. now left.
  - intros y Hy. specialize (IH _ Hin y Hy). cbn in IH. apply in_app_iff. right.
    destruct IH as [<-|IH]; [now left | now right].
Qed.
Lemma opponents_part_in {A} (l : list A) io :
  In io (combine l (ladder_pairs l)) -> In (fst io) l /\ incl (snd io) l.
Proof.
  destruct io as [a o]. intros H. split; [eapply in_combine_l; exact H|].
  apply in_combine_r in H. apply (ladder_aux_in None l o H).
Qed.

Lemma combine_self_map {A B} (h : A -> B) l : combine l (map h l) = map (fun e => (e, h e)) l.
Proof. induction l as [|a l IH]; cbn; [reflexivity|]. now rewrite IH. Qed.

Lemma Forall2_Forall_l {A B} (Pa : A -> Prop) (Q : A -> B -> Prop) l l' :
  Forall Pa l -> Forall2 Q l l' -> Forall2 (fun a b => Pa a /\ Q a b) l l'.
Proof. intros HP H. induction H; inversion HP; subst; constructor; auto. Qed.

Lemma Forall2_combine_map {A B C} (Q : A -> B -> Prop) (Q' : A -> C -> Prop) (f : A -> B -> C) l l' :
  (forall a b, Q a b -> Q' a (f a b)) -> Forall2 Q l l' ->
  Forall2 Q' l (map (fun pp => f (fst pp) (snd pp)) (combine l l')).
Proof. intros Hf H. induction H; cbn; constructor; auto. Qed.

Lemma Forall2_concat {A B} (Q : A -> B -> Prop) l l' :
  Forall2 (Forall2 Q) l l' -> Forall2 Q (concat l) (concat l').
Proof. induction 1; cbn; [constructor|]. now apply Forall2_app. Qed.

Lemma Rsum_ge_in l x : Forall (fun y => 0 <= y) l -> In x l -> x <= Rsum l.
Proof.
  induction 1 as [|y ys Hy Hys IH]; intros Hin; [contradiction|]. cbn [Rsum].
  pose proof (Rsum_nonneg ys Hys). destruct Hin as [->|Hin]; [lra|]. specialize (IH Hin). lra.
Qed.

Lemma fold_left_Rplus_map {A} (g : A -> R) l a :
  fold_left (fun acc t => acc + g t) l a = a + Rsum (map g l).
Proof. revert a; induction l as [|x xs IH]; intros a; cbn [fold_left map Rsum]; [lra|]. rewrite IH. lra. Qed.

(** ** Leagues: a state is the list of the players' ratings (by player index); a game names
    its teams by player indices.  Playing a game extracts the ratings, runs [rate_core] and
    writes the results back; a game that is not valid in the current state is skipped. *)
Record game := mkGame {
  g_teams : list (list nat);       (* teams as lists of distinct player indices *)
  g_keys : option (list key);      (* ranks (or negated scores), if given *)
  g_tau : R;                       (* the effective tau of this call *)
  g_limit : bool                   (* the effective limit_sigma of this call *)
}.
Definition dummy_rating : rating R := mkRating 0 0 0%Z NmNone.
Definition get (st : list (rating R)) (i : nat) : rating R := nth i st dummy_rating.
Definition extract (st : list (rating R)) (g : game) : list (list (rating R)) :=
  map (map (get st)) (g_teams g).
Fixpoint lookup (i : nat) (l : list (nat * rating R)) : option (rating R) :=
  match l with
  | [] => None
  | (j, r) :: l' => if Nat.eqb i j then Some r else lookup i l'
  end.
Definition write_back (st : list (rating R)) (idx : list (list nat)) (res : list (list (rating R)))
  : list (rating R) :=
  map (fun i => match lookup i (combine (concat idx) (concat res)) with
                | Some r => r | None => get st i end) (seq 0 (length st)).
Fixpoint nodupb (l : list nat) : bool :=
  match l with [] => true | x :: xs => negb (existsb (Nat.eqb x) xs) && nodupb xs end.
Definition plays (i : nat) (g : game) : bool := existsb (Nat.eqb i) (concat (g_teams g)).
(** the squared tau of a game, counted for the players who are listed in it *)
Definition tau2 (i : nat) (g : game) : R := if plays i g then g_tau g * g_tau g else 0.
(** the valid domain of [rate], decided in the current state *)
Definition game_ok (st : list (rating R)) (g : game) : bool :=
  Nat.leb 2 (length (g_teams g))
  && forallb (fun t => negb (Nat.eqb (length t) 0)) (g_teams g)
  && forallb (forallb (fun i => Nat.ltb i (length st))) (g_teams g)
  && nodupb (concat (g_teams g))
  && Rleb 0 (g_tau g)
  && forallb (forallb (fun i => Rleb 0 (r_sigma (get st i))
                               && Rltb 0 (r_sigma (get st i) * r_sigma (get st i) + g_tau g * g_tau g)))
             (g_teams g)
  && match g_keys g with None => true | Some ks => Nat.eqb (length ks) (length (g_teams g)) end.

Lemma nodupb_NoDup l : nodupb l = true -> NoDup l.
Proof.
  induction l as [|x xs IH]; cbn; intros H; [constructor|].
  apply andb_true_iff in H. destruct H as [H1 H2]. constructor; [|now apply IH].
  intros Hin. apply negb_true_iff in H1.
  assert (existsb (Nat.eqb x) xs = true) by (apply existsb_exists; exists x; split; [assumption|apply Nat.eqb_refl]).
  congruence.
Qed.

Lemma lookup_some (Q : nat -> rating R -> Prop) i l r :
  Forall (fun ir => Q (fst ir) (snd ir)) l -> lookup i l = Some r -> Q i r /\ In i (map fst l).
Proof.
  induction 1 as [|[j q] l Hj Hl IH]; cbn [lookup]; [discriminate|].
  destruct (Nat.eqb_spec i j) as [->|Hne].
  - intros [= <-]. split; [exact Hj|now left].
  - intros H. destruct (IH H) as [H1 H2]. split; [assumption|now right].
Qed.

Lemma get_write_back st idx res i :
  get (write_back st idx res) i
  = match lookup i (combine (concat idx) (concat res)) with
    | Some r => if Nat.ltb i (length st) then r else get st i
    | None => get st i end.
Proof.
  unfold write_back, get at 1.
  destruct (Nat.ltb_spec i (length st)) as [Hlt|Hge].
  - set (F := fun i => match lookup i _ with Some r => r | None => get st i end).
    rewrite (nth_indep _ dummy_rating (F 0%nat)) by (now rewrite map_length, seq_length).
    rewrite map_nth, seq_nth by assumption. reflexivity.
  - rewrite nth_overflow by (now rewrite map_length, seq_length).
    assert (E : get st i = dummy_rating) by (unfold get; now apply nth_overflow).
    rewrite E. destruct (lookup _ _); reflexivity.
Qed.
Lemma write_back_length st idx res : length (write_back st idx res) = length st.
Proof. unfold write_back. now rewrite map_length, seq_length. Qed.

Definition needs_gauss (k : kind) : Prop := k = TMF \/ k = TMP.

Section C06.
Variables Phi Phiinv : R -> R.
Local Instance RN : Num R := RNum Phi Phiinv.

Lemma Rreduce_add l : reduce_add l = Rsum l.
Proof. exact (R_reduce_add Phi Phiinv l). Qed.
Lemma Rfmax a b : fmax a b = Rmax a b.
Proof. exact (R_fmax Phi Phiinv a b). Qed.
Lemma R_fofnat n : fofZ (Z.of_nat n) = INR n.
Proof. cbn. now rewrite <- INR_IZR_INZ. Qed.

(** ** the common pairwise coefficient is non-negative *)
Lemma coef_nonneg g ss c : 0 <= g -> 0 <= ss -> 0 < c -> 0 <= g * (ss / c) / c.
Proof.
  intros Hg Hs Hc. assert (Hi : 0 < / c) by now apply Rinv_0_lt_compat.
  unfold Rdiv. apply Rmult_le_pos; [|lra]. apply Rmult_le_pos; [assumption|].
  apply Rmult_le_pos; lra.
Qed.

Lemma c_iq_pos P ti tq : 0 < p_beta P -> 0 <= t_ss ti -> 0 <= t_ss tq -> 0 < c_iq P ti tq.
Proof.
  intros Hb Hi Hq.
  change (c_iq P ti tq) with (sqrt (t_ss ti + t_ss tq + 2 * (p_beta P * p_beta P))).
  apply sqrt_lt_R0. assert (0 < p_beta P * p_beta P) by (apply Rmult_lt_0_compat; assumption). lra.
Qed.

Section Delta.
Variable P : params R.
Hypothesis Hbeta : 0 < p_beta P.
Hypothesis Hgamma : forall c n mu ss team rank, 0 <= p_gamma P c n mu ss team rank.

(** ** Bradley-Terry *)
Lemma bt_term_nonneg trs ti od tq :
  0 <= t_ss ti -> 0 <= t_ss tq -> 0 <= snd od -> 0 <= snd (bt_term P trs ti od tq).
Proof.
  intros Hi Hq Hod. pose proof (c_iq_pos P ti tq Hbeta Hi Hq) as Hc.
  set (c := c_iq P ti tq) in *.
  set (e := exp ((t_mu tq - t_mu ti) / c)).
  set (p := 1 / (1 + e)).
  change (snd (bt_term P trs ti od tq))
    with (snd od + gamma_of P c trs ti * (t_ss ti / c) / c * p * (1 - p)).
  assert (He : 0 < e) by apply exp_pos.
  assert (Hp : 0 < p) by (unfold p; apply Rdiv_lt_0_compat; lra).
  assert (Hp1 : p * (1 + e) = 1) by (unfold p; field; lra).
  assert (Hpe : 0 < p * e) by (apply Rmult_lt_0_compat; assumption).
  assert (Hlt : p < 1) by lra.
  assert (Hg : 0 <= gamma_of P c trs ti * (t_ss ti / c) / c).
  { apply coef_nonneg; [apply Hgamma|assumption|assumption]. }
  assert (0 <= gamma_of P c trs ti * (t_ss ti / c) / c * p * (1 - p)).
  { apply Rmult_le_pos; [apply Rmult_le_pos|]; lra. }
  lra.
Qed.

(** ** Thurstone-Mosteller *)
Lemma tm_term_nonneg (Hw : forall x t : R, 0 <= w x t <= 1) two_c trs ti od tq :
  0 <= t_ss ti -> 0 <= t_ss tq -> 0 <= snd od -> 0 <= snd (tm_term two_c P trs ti od tq).
Proof.
  intros Hi Hq Hod. pose proof (c_iq_pos P ti tq Hbeta Hi Hq) as Hc0.
  unfold tm_term. cbv zeta.
  set (c := if two_c then fmul ftwo (c_iq P ti tq) else c_iq P ti tq).
  assert (Hc : 0 < c).
  { unfold c. destruct two_c; [|assumption]. change (0 < 2 * c_iq P ti tq). lra. }
  assert (Hg : 0 <= gamma_of P c trs ti * (t_ss ti / c) / c).
  { apply coef_nonneg; [apply Hgamma|assumption|assumption]. }
  change (fdiv (fmul (gamma_of P c trs ti) (fdiv (t_ss ti) c)) c)
    with (gamma_of P c trs ti * (t_ss ti / c) / c).
  destruct (Nat.ltb (t_rank ti) (t_rank tq)); [|destruct (Nat.ltb (t_rank tq) (t_rank ti))]; cbn [snd].
  - match goal with |- 0 <= fadd _ (fmul _ (w ?x ?t)) => pose proof (Hw x t) as Hr; set (ww := w x t) in * end.
    change (0 <= snd od + gamma_of P c trs ti * (t_ss ti / c) / c * ww).
    assert (0 <= gamma_of P c trs ti * (t_ss ti / c) / c * ww) by (apply Rmult_le_pos; lra). lra.
  - match goal with |- 0 <= fadd _ (fmul _ (w ?x ?t)) => pose proof (Hw x t) as Hr; set (ww := w x t) in * end.
    change (0 <= snd od + gamma_of P c trs ti * (t_ss ti / c) / c * ww).
    assert (0 <= gamma_of P c trs ti * (t_ss ti / c) / c * ww) by (apply Rmult_le_pos; lra). lra.
  - match goal with |- 0 <= fadd _ (fmul _ (wt ?x ?t)) => pose proof (wt_range Phi Phiinv x t) as Hr; set (ww := wt x t) in * end.
    change (0 <= snd od + gamma_of P c trs ti * (t_ss ti / c) / c * ww).
    assert (0 <= gamma_of P c trs ti * (t_ss ti / c) / c * ww) by (apply Rmult_le_pos; lra). lra.
Qed.

(** ** Plackett-Luce *)
Definition pl_E (c : R) (t : trating R) : R := exp (t_mu t / c).
Definition pl_sq (trs : list (trating R)) (c : R) (tq : trating R) : R :=
  Rsum (map (pl_E c) (filter (fun ti => Nat.leb (t_rank tq) (t_rank ti)) trs)).
Definition pl_aq (trs : list (trating R)) (tq : trating R) : nat :=
  length (filter (fun t => Nat.eqb (t_rank tq) (t_rank t)) trs).
Definition pl_qs (trs : list (trating R)) (c : R) :=
  combine (seq 0 (length trs)) (combine trs (combine (pl_sum_q trs c) (pl_a trs))).

Lemma pl_qs_in trs c it : In it (pl_qs trs c) ->
  In (fst (snd it)) trs /\ fst (snd (snd it)) = pl_sq trs c (fst (snd it))
  /\ snd (snd (snd it)) = pl_aq trs (fst (snd it)).
Proof.
  destruct it as [q [tq [sq aq]]]. intros H. apply in_combine_r in H.
  unfold pl_sum_q, pl_a in H. rewrite combine_map_same, combine_self_map in H.
  apply in_map_iff in H. destruct H as [t [E Hin]]. injection E as <- <- <-. cbn [fst snd].
  split; [assumption|]. split; [|reflexivity]. unfold pl_sq. rewrite Rreduce_add. reflexivity.
Qed.

Lemma pl_sq_ge trs c tq ti :
  In ti trs -> Nat.leb (t_rank tq) (t_rank ti) = true -> pl_E c ti <= pl_sq trs c tq.
Proof.
  intros Hin Hle. unfold pl_sq. apply Rsum_ge_in.
  - apply Forall_forall. intros y Hy. apply in_map_iff in Hy. destruct Hy as [t [<- _]].
    unfold pl_E. apply Rlt_le, exp_pos.
  - apply in_map. apply filter_In. split; assumption.
Qed.

Lemma pl_aq_pos trs tq : In tq trs -> (1 <= pl_aq trs tq)%nat.
Proof.
  intros Hin. unfold pl_aq.
  assert (H : In tq (filter (fun t => Nat.eqb (t_rank tq) (t_rank t)) trs)).
  { apply filter_In. split; [assumption|apply Nat.eqb_refl]. }
  destruct (filter _ trs); [contradiction|cbn; lia].
Qed.

Lemma pl_step_nonneg trs c i ti od qt :
  In ti trs -> In qt (pl_qs trs c) -> 0 <= snd od -> 0 <= snd (pl_step i ti (pl_E c ti) od qt).
Proof.
  intros Hti Hqt Hod. destruct (pl_qs_in trs c qt Hqt) as [Htq [Esq Eaq]].
  unfold pl_step. cbv zeta.
  destruct (Nat.leb (t_rank (fst (snd qt))) (t_rank ti)) eqn:L; [|assumption].
  cbn [snd]. rewrite Esq, Eaq, R_fofnat.
  pose proof (pl_sq_ge trs c _ ti Hti L) as Hge.
  pose proof (pl_aq_pos trs _ Htq) as Ha. apply le_INR in Ha. change (INR 1) with 1 in Ha.
  set (tq := fst (snd qt)) in *. set (sq := pl_sq trs c tq) in *. set (a := INR (pl_aq trs tq)) in *.
  assert (He : 0 < pl_E c ti) by (unfold pl_E; apply exp_pos). set (e := pl_E c ti) in *.
  change (0 <= snd od + e / sq * (1 - e / sq) / a).
  assert (Hp : 0 < e / sq) by (apply Rdiv_lt_0_compat; lra).
  assert (Hp1 : e / sq <= 1).
  { apply (Rmult_le_reg_r sq); [lra|]. unfold Rdiv. rewrite Rmult_assoc, Rinv_l by lra. lra. }
  assert (0 <= e / sq * (1 - e / sq) / a).
  { unfold Rdiv at 1. apply Rmult_le_pos; [apply Rmult_le_pos; lra|]. apply Rlt_le, Rinv_0_lt_compat. lra. }
  lra.
Qed.

Lemma pl_c_pos trs ti : In ti trs -> Forall (fun t => 0 <= t_ss t) trs -> 0 < pl_c P trs.
Proof.
  intros Hin Hss.
  change (pl_c P trs) with
    (sqrt (fold_left (fun acc t => acc + (t_ss t + p_beta P * p_beta P)) trs 0)).
  rewrite fold_left_Rplus_map. apply sqrt_lt_R0. rewrite Rplus_0_l.
  apply Rsum_pos.
  - destruct trs; [contradiction|discriminate].
  - apply Forall_forall. intros y Hy. apply in_map_iff in Hy. destruct Hy as [t [<- Ht]].
    rewrite Forall_forall in Hss. specialize (Hss t Ht).
    assert (0 < p_beta P * p_beta P) by (apply Rmult_lt_0_compat; assumption). lra.
Qed.

Lemma pl_delta_nonneg trs i ti :
  In ti trs -> Forall (fun t => 0 <= t_ss t) trs ->
  0 <= snd (pl_omega_delta P trs (pl_c P trs) (pl_qs trs (pl_c P trs)) i ti).
Proof.
  intros Hin Hss. pose proof (pl_c_pos trs ti Hin Hss) as Hc. set (c := pl_c P trs) in *.
  unfold pl_omega_delta. cbv zeta. cbn [snd].
  set (od := fold_left _ _ _).
  assert (Hod : 0 <= snd od).
  { unfold od. apply (fold_left_inv _ (fun od => 0 <= snd od)).
    - intros a x Hx Ha. apply (pl_step_nonneg trs c i ti a x Hin Hx Ha).
    - cbn. lra. }
  change (0 <= snd od * (t_ss ti / (c * c)) * gamma_of P c trs ti).
  rewrite Forall_forall in Hss. specialize (Hss ti Hin).
  apply Rmult_le_pos; [apply Rmult_le_pos; [assumption|]|apply Hgamma].
  unfold Rdiv. apply Rmult_le_pos; [assumption|]. apply Rlt_le, Rinv_0_lt_compat. now apply Rmult_lt_0_compat.
Qed.

(** ** [compute]: every output team is an [update_team] with a non-negative delta *)
Definition is_update_nn (ti : trating R) (res : list (rating R)) : Prop :=
  exists od : R * R, res = update_team P ti od /\ 0 <= snd od.

Lemma compute_pairs_shape_nn term opp :
  (forall io, In io opp -> forall tq od, In tq (snd io) -> 0 <= snd od -> 0 <= snd (term (fst io) od tq)) ->
  Forall2 is_update_nn (map fst opp) (compute_pairs term opp P).
Proof.
  unfold compute_pairs. induction opp as [|io opp IH]; intros Ht; cbn [map]; constructor.
  - eexists. split; [reflexivity|].
    apply (fold_left_inv _ (fun od => 0 <= snd od)).
    + intros a x Hx Ha. apply Ht; [now left|assumption|assumption].
    + cbn. lra.
  - apply IH. intros io' Hio. apply Ht. now right.
Qed.

Lemma compute_shape_delta k trs :
  (needs_gauss k -> GaussFacts Phi Phiinv) ->
  Forall (fun t => 0 <= t_ss t) trs ->
  Forall2 is_update_nn trs (compute k P trs).
Proof.
  intros HG Hss. pose proof Hss as Hss'. rewrite Forall_forall in Hss'.
  assert (Hfull : forall term,
     (forall ti tq od, In ti trs -> In tq trs -> 0 <= snd od -> 0 <= snd (term ti od tq)) ->
     Forall2 is_update_nn trs (compute_pairs term (opponents_full trs) P)).
  { intros term Ht. rewrite <- (rows_fst trs) at 1. apply compute_pairs_shape_nn.
    intros io Hio tq od Htq Hod. destruct (rows_in trs io Hio) as [H1 H2]. apply Ht; auto. }
  assert (Hpart : forall term,
     (forall ti tq od, In ti trs -> In tq trs -> 0 <= snd od -> 0 <= snd (term ti od tq)) ->
     Forall2 is_update_nn trs (compute_pairs term (opponents_part trs) P)).
  { intros term Ht. replace trs with (map fst (opponents_part trs)) at 1.
    2:{ unfold opponents_part. apply combine_map_fst. now rewrite ladder_pairs_length. }
    apply compute_pairs_shape_nn.
    intros io Hio tq od Htq Hod. destruct (opponents_part_in trs io Hio) as [H1 H2]. apply Ht; auto. }
  destruct k; cbn [compute].
  - unfold compute_pl. fold (pl_qs trs (pl_c P trs)). set (qs := pl_qs trs (pl_c P trs)).
    assert (E : map (fun it : nat * (trating R * (R * nat)) => fst (snd it)) qs = trs).
    { unfold qs, pl_qs. rewrite <- (map_map snd fst). rewrite combine_map_snd.
      - apply combine_map_fst. unfold pl_sum_q, pl_a. rewrite combine_length, !map_length. lia.
      - unfold pl_sum_q, pl_a. rewrite seq_length, !combine_length, !map_length. lia. }
    rewrite <- E at 1.
    assert (G : forall l, incl l qs ->
       Forall2 is_update_nn (map (fun it : nat * (trating R * (R * nat)) => fst (snd it)) l)
         (map (fun it => update_team P (fst (snd it))
                 (pl_omega_delta P trs (pl_c P trs) qs (fst it) (fst (snd it)))) l)).
    { induction l as [|it l IH]; intros Hl; cbn [map]; constructor.
      - eexists. split; [reflexivity|]. apply pl_delta_nonneg; [|assumption].
        apply (pl_qs_in trs (pl_c P trs) it). apply Hl. now left.
      - apply IH. intros x Hx. apply Hl. now right. }
    apply G. apply incl_refl.
  - apply Hfull. intros ti tq od Hi Hq Hod. apply bt_term_nonneg; auto.
  - apply Hpart. intros ti tq od Hi Hq Hod. apply bt_term_nonneg; auto.
  - assert (GF : GaussFacts Phi Phiinv) by (apply HG; now left).
    apply Hfull. intros ti tq od Hi Hq Hod. apply tm_term_nonneg; auto. apply (w_range Phi Phiinv GF).
  - assert (GF : GaussFacts Phi Phiinv) by (apply HG; now right).
    apply Hpart. intros ti tq od Hi Hq Hod. apply tm_term_nonneg; auto. apply (w_range Phi Phiinv GF).
Qed.

End Delta.
(** ** the per-player sigma update *)
Lemma update_player_sigma P ti om de p :
  r_sigma (update_player P ti om de p)
  = r_sigma p * sqrt (Rmax (1 - r_sigma p * r_sigma p / t_ss ti * de) (p_kappa P)).
Proof. unfold update_player. cbv zeta. cbn [r_sigma set_mu_sigma]. rewrite Rfmax. reflexivity. Qed.

Lemma factor_range share de kappa :
  0 <= share -> 0 <= de -> 0 <= kappa <= 1 ->
  0 <= sqrt (Rmax (1 - share * de) kappa) <= 1 /\ (0 < kappa -> 0 < sqrt (Rmax (1 - share * de) kappa)).
Proof.
  intros Hs Hd Hk. assert (0 <= share * de) by (apply Rmult_le_pos; assumption).
  assert (Hm : kappa <= Rmax (1 - share * de) kappa) by apply Rmax_r.
  assert (Hm1 : Rmax (1 - share * de) kappa <= 1) by (apply Rmax_lub; lra).
  split; [split|].
  - apply sqrt_pos.
  - pose proof (sqrt_le_1_alt _ _ Hm1) as Hq. rewrite sqrt_1 in Hq. exact Hq.
  - intros Hk0. apply sqrt_lt_R0. lra.
Qed.

(** the per-player relation between the (inflated) input and the updated rating *)
Definition sig_rel (kappa : R) (p r : rating R) : Prop :=
  0 <= r_sigma r <= r_sigma p /\ (0 < kappa -> 0 < r_sigma r).

Lemma update_player_rel P ti om de p :
  0 <= p_kappa P <= 1 -> 0 < t_ss ti -> 0 <= de -> 0 < r_sigma p ->
  sig_rel (p_kappa P) p (update_player P ti om de p).
Proof.
  intros Hk Hss Hde Hp. unfold sig_rel. rewrite update_player_sigma.
  assert (Hsh : 0 <= r_sigma p * r_sigma p / t_ss ti).
  { apply Rlt_le. apply Rdiv_lt_0_compat; [apply Rmult_lt_0_compat|]; assumption. }
  destruct (factor_range _ de (p_kappa P) Hsh Hde Hk) as [[F1 F2] F3].
  set (f := sqrt _) in *.
  split; [split|].
  - apply Rmult_le_pos; lra.
  - rewrite <- (Rmult_1_r (r_sigma p)) at 2. apply Rmult_le_compat_l; lra.
  - intros Hk0. apply Rmult_lt_0_compat; auto.
Qed.

(** a team is good when it is non-empty and all its sigmas are positive *)
Definition good_team (t : list (rating R)) : Prop := t <> [] /\ Forall (fun p => 0 < r_sigma p) t.

Lemma team_rating_ss_pos t rk : good_team t -> 0 < t_ss (team_rating t rk).
Proof.
  intros [Hne Hpos]. unfold team_rating. cbn [t_ss]. rewrite Rreduce_add.
  apply Rsum_pos.
  - destruct t; [congruence|discriminate].
  - apply Forall_forall. intros y Hy. apply in_map_iff in Hy. destruct Hy as [q [<- Hq]].
    rewrite Forall_forall in Hpos. specialize (Hpos q Hq). change (0 < r_sigma q * r_sigma q).
    now apply Rmult_lt_0_compat.
Qed.

Lemma team_ratings_good g rk :
  Forall good_team g ->
  Forall (fun t => 0 < t_ss t /\ Forall (fun p => 0 < r_sigma p) (t_team t)) (team_ratings g rk).
Proof.
  intros Hg. unfold team_ratings. apply Forall_forall. intros t Ht.
  apply in_map_iff in Ht. destruct Ht as [[tm r] [<- Hin]]. cbn [fst snd].
  apply in_combine_l in Hin. rewrite Forall_forall in Hg. specialize (Hg tm Hin).
  split; [now apply team_rating_ss_pos|]. cbn [t_team team_rating]. apply Hg.
Qed.

Section Rate.
Variable P : params R.
Variable k : kind.
Hypothesis Hbeta : 0 < p_beta P.
Hypothesis Hkappa : 0 <= p_kappa P <= 1.
Hypothesis Hgamma : forall c n mu ss team rank, 0 <= p_gamma P c n mu ss team rank.
Hypothesis HG : needs_gauss k -> GaussFacts Phi Phiinv.

Lemma compute_sigma g rk :
  length rk = length g -> Forall good_team g ->
  Forall2 (Forall2 (sig_rel (p_kappa P))) g (compute k P (team_ratings g rk)).
Proof.
  intros El Hg. pose proof (team_ratings_good g rk Hg) as Hgood.
  set (trs := team_ratings g rk) in *.
  assert (Hss : Forall (fun t => 0 <= t_ss t) trs).
  { eapply Forall_impl; [|exact Hgood]. cbn. intros t [H1 _]. lra. }
  pose proof (compute_shape_delta P Hbeta Hgamma k trs HG Hss) as Hsh.
  pose proof (Forall2_Forall_l _ _ _ _ Hgood Hsh) as H2.
  rewrite <- (team_ratings_teams g rk El). fold trs.
  apply (proj1 (Forall2_map_l t_team (Forall2 (sig_rel (p_kappa P))) trs (compute k P trs))).
  eapply Forall2_weaken; [|exact H2].
  intros ti res [[Hpos Hsig] [od [-> Hod]]]. cbn beta.
  unfold update_team.
  apply (proj1 (Forall2_map_r (update_player P ti (fst od) (snd od)) (sig_rel (p_kappa P)) (t_team ti) (t_team ti))).
  apply Forall2_refl.
  intros p Hp. rewrite Forall_forall in Hsig. apply update_player_rel; auto.
Qed.

(** transfer through [rate_sorted]: the games [compute] sees are permutations of the input *)
Lemma rate_sorted_pointwise_perm teams keys (Rl : list (rating R) -> list (rating R) -> Prop) :
  match keys with Some ks => length ks = length teams | None => True end ->
  (forall g rk, length rk = length g -> Permutation teams g ->
                Forall2 Rl g (compute k P (team_ratings g rk))) ->
  Forall2 Rl teams (rate_sorted k P teams keys).
Proof.
  intros E HR. destruct keys as [ks|].
  - destruct (rate_sorted_some k P teams ks E) as [L Pm].
    assert (Lsg : length (fst (sorted_game teams ks)) = length (snd (sorted_game teams ks))).
    { unfold sorted_game. cbn [fst snd]. rewrite isort_length, unwind_fst_length; auto. }
    assert (Pt : Permutation teams (snd (sorted_game teams ks))).
    { pose proof (sorted_game_perm teams ks E) as Pc.
      apply (Permutation_map snd) in Pc.
      rewrite !combine_map_snd in Pc by assumption. exact Pc. }
    apply Forall2_combine; [now rewrite L|].
    assert (G : Forall (fun p : key * list (rating R) * list (rating R) => Rl (snd (fst p)) (snd p))
                  (combine (combine ks teams) (rate_sorted k P teams (Some ks)))).
    { eapply Permutation_Forall; [symmetry; exact Pm|].
      assert (HR' : Forall2 Rl (snd (sorted_game teams ks)) (compute k P (sorted_trs teams ks))).
      { unfold sorted_trs. apply HR; [|exact Pt].
        rewrite calc_rankings_length. exact Lsg. }
      apply Forall2_combine_inv in HR'. revert HR'.
      generalize (compute k P (sorted_trs teams ks)) (snd (sorted_game teams ks)) (fst (sorted_game teams ks)).
      intros cs ts kk. revert ts kk. induction cs as [|c cs IH]; intros [|t ts] [|k0 kk] HR'; cbn in *; try constructor.
      - inversion HR'; subst. assumption.
      - apply IH. inversion HR'; subst. assumption. }
    clear -G E. revert G. generalize (rate_sorted k P teams (Some ks)). revert ks E.
    induction teams as [|t teams IH]; intros [|k0 ks] E res G; cbn in *; try discriminate; [constructor|].
    destruct res as [|r res]; cbn in *; [constructor|]. inversion G; subst. constructor; [assumption|].
    apply (IH ks); [congruence|assumption].
  - rewrite rate_sorted_none. apply HR; [now rewrite seq_length|reflexivity].
Qed.

Lemma rate_sorted_sigma teams keys :
  match keys with Some ks => length ks = length teams | None => True end ->
  Forall good_team teams ->
  Forall2 (Forall2 (sig_rel (p_kappa P))) teams (rate_sorted k P teams keys).
Proof.
  intros E Hg. apply rate_sorted_pointwise_perm; [exact E|].
  intros g rk El Pg. apply compute_sigma; [exact El|].
  eapply Permutation_Forall; [exact Pg|exact Hg].
Qed.

(** ** [rate_core] *)
Definition final_rel (tau : R) (limit : bool) (p r : rating R) : Prop :=
  0 <= r_sigma r <= sqrt (r_sigma p * r_sigma p + tau * tau)
  /\ (0 < p_kappa P -> limit = false \/ 0 < r_sigma p -> 0 < r_sigma r)
  /\ (limit = true -> r_sigma r <= r_sigma p).

Lemma inflate_sigma tau p : r_sigma (inflate tau p) = sqrt (r_sigma p * r_sigma p + tau * tau).
Proof. reflexivity. Qed.

Lemma clamp_player_sigma orig res :
  r_sigma (clamp_player orig res) = if Rle_dec (r_sigma res) (r_sigma orig) then r_sigma res else r_sigma orig.
Proof.
  unfold clamp_player. change (fleb (r_sigma res) (r_sigma orig)) with (Rleb (r_sigma res) (r_sigma orig)).
  unfold Rleb. destruct (Rle_dec (r_sigma res) (r_sigma orig)); reflexivity.
Qed.

Theorem rate_core_sigma tau limit teams keys :
  match keys with Some ks => length ks = length teams | None => True end ->
  Forall (fun t => t <> []) teams ->
  Forall (Forall (fun p => 0 <= r_sigma p /\ 0 < r_sigma p * r_sigma p + tau * tau)) teams ->
  Forall2 (Forall2 (final_rel tau limit)) teams (rate_core k P tau limit teams keys).
Proof.
  intros E Hne Hsig.
  set (infl := map (map (inflate tau)) teams).
  assert (Hgood : Forall good_team infl).
  { unfold infl. apply Forall_forall. intros t Ht. apply in_map_iff in Ht. destruct Ht as [t0 [<- Hin]].
    rewrite Forall_forall in Hne, Hsig. specialize (Hne t0 Hin). specialize (Hsig t0 Hin).
    split.
    - destruct t0; [congruence|discriminate].
    - apply Forall_forall. intros q Hq. apply in_map_iff in Hq. destruct Hq as [q0 [<- Hq0]].
      rewrite inflate_sigma. apply sqrt_lt_R0. rewrite Forall_forall in Hsig. apply (Hsig q0 Hq0). }
  assert (E' : match keys with Some ks => length ks = length infl | None => True end).
  { unfold infl. rewrite map_length. exact E. }
  pose proof (rate_sorted_sigma infl keys E' Hgood) as H0.
  assert (H1 : Forall2 (Forall2 (fun p r => sig_rel (p_kappa P) (inflate tau p) r /\ 0 <= r_sigma p))
                 teams (rate_sorted k P infl keys)).
  { unfold infl in H0. apply Forall2_map_l in H0.
    apply (Forall2_Forall_l _ _ _ _ Hsig) in H0.
    eapply Forall2_weaken; [|exact H0]. intros t r [Ht Hr]. cbn beta in *.
    apply Forall2_map_l in Hr. apply (Forall2_Forall_l _ _ _ _ Ht) in Hr.
    eapply Forall2_weaken; [|exact Hr]. intros p q [[Hp _] Hq]. cbn beta in *. split; assumption. }
  unfold rate_core. fold infl. destruct limit.
  - unfold clamp.
    apply (Forall2_combine_map
             (Forall2 (fun p r => sig_rel (p_kappa P) (inflate tau p) r /\ 0 <= r_sigma p))
             (Forall2 (final_rel tau true))
             (fun t r => map (fun pp => clamp_player (fst pp) (snd pp)) (combine t r)));
      [|exact H1].
    intros t r Htr.
    apply (Forall2_combine_map
             (fun p r => sig_rel (p_kappa P) (inflate tau p) r /\ 0 <= r_sigma p)
             (final_rel tau true) clamp_player); [|exact Htr].
    intros p q [[[Q1 Q2] Q3] Q0]. rewrite inflate_sigma in Q2.
    unfold final_rel. rewrite clamp_player_sigma.
    destruct (Rle_dec (r_sigma q) (r_sigma p)) as [Hle|Hgt].
    + repeat split; auto; lra.
    + assert (Hlt : r_sigma p < r_sigma q) by lra.
      split; [lra|]. split; [|intros _; lra].
      intros _ [Hf|Hp]; [discriminate|assumption].
  - eapply Forall2_weaken; [|exact H1]. intros t r Htr. cbn beta in *.
    eapply Forall2_weaken; [|exact Htr]. intros p q [[[Q1 Q2] Q3] Q0]. rewrite inflate_sigma in Q2.
    unfold final_rel. repeat split; auto. intros Hf; discriminate.
Qed.

End Rate.

(** ** league histories *)
Section League.
Variable P : params R.
Variable k : kind.
Hypothesis Hbeta : 0 < p_beta P.
Hypothesis Hkappa : 0 <= p_kappa P <= 1.
Hypothesis Hgamma : forall c n mu ss team rank, 0 <= p_gamma P c n mu ss team rank.
Hypothesis HG : needs_gauss k -> GaussFacts Phi Phiinv.

Definition play (st : list (rating R)) (g : game) : list (rating R) :=
  if game_ok st g
  then write_back st (g_teams g) (rate_core k P (g_tau g) (g_limit g) (extract st g) (g_keys g))
  else st.
Definition run (st : list (rating R)) (gs : list game) : list (rating R) := fold_left play gs st.

Lemma play_length st g : length (play st g) = length st.
Proof. unfold play. destruct (game_ok st g); [apply write_back_length|reflexivity]. Qed.

(** one game: the player either keeps his rating (not in the game, or game skipped)
    or is related to it by [final_rel] and is listed in the game *)
Lemma play_step st g i :
  get (play st g) i = get st i
  \/ (plays i g = true /\ final_rel P (g_tau g) (g_limit g) (get st i) (get (play st g) i)).
Proof.
  unfold play. destruct (game_ok st g) eqn:Hok; [|now left].
  unfold game_ok in Hok. repeat (apply andb_true_iff in Hok; destruct Hok as [Hok ?]).
  rename H into Hkeys, H0 into Hsig, H1 into Htau, H2 into Hnd, H3 into Hidx, H4 into Hne.
  set (res := rate_core k P (g_tau g) (g_limit g) (extract st g) (g_keys g)).
  assert (Hrel : Forall2 (Forall2 (final_rel P (g_tau g) (g_limit g))) (extract st g) res).
  { apply (rate_core_sigma P k Hbeta Hkappa Hgamma HG).
    - unfold extract. rewrite map_length. destruct (g_keys g) as [ks|]; [|exact I]. now apply Nat.eqb_eq.
    - unfold extract. apply Forall_forall. intros t Ht. apply in_map_iff in Ht. destruct Ht as [t0 [<- Hin]].
      rewrite forallb_forall in Hne. specialize (Hne t0 Hin). apply negb_true_iff, Nat.eqb_neq in Hne.
      destruct t0; [cbn in Hne; congruence|discriminate].
    - unfold extract. apply Forall_forall. intros t Ht. apply in_map_iff in Ht. destruct Ht as [t0 [<- Hin]].
      rewrite forallb_forall in Hsig. specialize (Hsig t0 Hin). rewrite forallb_forall in Hsig.
      apply Forall_forall. intros q Hq. apply in_map_iff in Hq. destruct Hq as [j [<- Hj]].
      specialize (Hsig j Hj). apply andb_true_iff in Hsig. destruct Hsig as [S1 S2].
      apply Rleb_true in S1. apply Rltb_true in S2. split; assumption. }
  apply Forall2_concat in Hrel. unfold extract in Hrel. rewrite <- concat_map in Hrel.
  apply (proj2 (Forall2_map_l (get st) (final_rel P (g_tau g) (g_limit g)) (concat (g_teams g)) (concat res))) in Hrel.
  apply Forall2_combine_inv in Hrel.
  rewrite get_write_back. fold res.
  destruct (lookup i (combine (concat (g_teams g)) (concat res))) as [r|] eqn:Hl; [|now left].
  destruct (lookup_some (fun j q => final_rel P (g_tau g) (g_limit g) (get st j) q) i _ r Hrel Hl) as [H1 H2].
  destruct (Nat.ltb i (length st)); [|now left]. right. split; [|exact H1].
  unfold plays. apply existsb_exists. exists i. split; [|apply Nat.eqb_refl].
  apply in_map_iff in H2. destruct H2 as [[j q] [<- Hjq]]. cbn. eapply in_combine_l. exact Hjq.
Qed.

(** the inductive steps *)
Lemma play_limit st g i :
  (plays i g = true -> g_limit g = true) -> r_sigma (get (play st g) i) <= r_sigma (get st i).
Proof.
  intros Hl. destruct (play_step st g i) as [->|[Hp [_ [_ H]]]]; [lra|]. apply H. now apply Hl.
Qed.
Lemma play_quadrature st g i :
  r_sigma (get (play st g) i) * r_sigma (get (play st g) i)
  <= r_sigma (get st i) * r_sigma (get st i) + tau2 i g.
Proof.
  unfold tau2. destruct (play_step st g i) as [->|[Hp [[H0 H1] _]]].
  - destruct (plays i g); [|lra]. pose proof (Rle_0_sqr (g_tau g)) as Hq. unfold Rsqr in Hq. lra.
  - rewrite Hp. set (s' := r_sigma (get (play st g) i)) in *.
    set (b := r_sigma (get st i) * r_sigma (get st i) + g_tau g * g_tau g) in *.
    assert (Hb : 0 <= b).
    { unfold b. pose proof (Rle_0_sqr (g_tau g)) as Q1. pose proof (Rle_0_sqr (r_sigma (get st i))) as Q2.
      unfold Rsqr in Q1, Q2. lra. }
    rewrite <- (sqrt_sqrt b Hb). apply Rmult_le_compat; assumption.
Qed.
Lemma play_positive st g i :
  0 < p_kappa P -> 0 < r_sigma (get st i) -> 0 < r_sigma (get (play st g) i).
Proof.
  intros Hk Hs. destruct (play_step st g i) as [->|[_ [_ [H _]]]]; [assumption|]. apply H; auto.
Qed.

Theorem run_limit gs : forall st i,
  (forall g, In g gs -> plays i g = true -> g_limit g = true) ->
  r_sigma (get (run st gs) i) <= r_sigma (get st i).
Proof.
  induction gs as [|g gs IH]; intros st i Hall; cbn [run fold_left]; [lra|].
  assert (Hgs : forall g', In g' gs -> plays i g' = true -> g_limit g' = true)
    by (intros g' Hg'; apply Hall; now right).
  specialize (IH (play st g) i Hgs). unfold run in IH.
  pose proof (play_limit st g i (Hall g (or_introl eq_refl))). lra.
Qed.
Theorem run_quadrature gs : forall st i,
  r_sigma (get (run st gs) i) * r_sigma (get (run st gs) i)
  <= r_sigma (get st i) * r_sigma (get st i) + Rsum (map (tau2 i) gs).
Proof.
  induction gs as [|g gs IH]; intros st i; cbn [run fold_left map Rsum]; [lra|].
  specialize (IH (play st g) i). unfold run in IH. pose proof (play_quadrature st g i). lra.
Qed.
Theorem run_positive gs : forall st i,
  0 < p_kappa P -> 0 < r_sigma (get st i) -> 0 < r_sigma (get (run st gs) i).
Proof.
  induction gs as [|g gs IH]; intros st i Hk Hs; cbn [run fold_left]; [assumption|].
  apply (IH (play st g) i Hk). now apply play_positive.
Qed.
End League.

End C06.

(** ** final forms (the statements of Props/C06.v) *)
Lemma Forall2_weaken2 {A B} (R1 R2 : A -> B -> Prop) l l' :
  (forall a b, R1 a b -> R2 a b) -> Forall2 (Forall2 R1) l l' -> Forall2 (Forall2 R2) l l'.
Proof. intros H. apply Forall2_weaken. intros a b. now apply Forall2_weaken. Qed.

Lemma ng_gf Phi Phiinv k : GaussFacts Phi Phiinv -> needs_gauss k -> GaussFacts Phi Phiinv.
Proof. auto. Qed.
Lemma ng_plbt Phi Phiinv k : k = PL \/ k = BTF \/ k = BTP -> needs_gauss k -> GaussFacts Phi Phiinv.
Proof. unfold needs_gauss. intros [ -> | [ -> | -> ] ] [H|H]; discriminate. Qed.

Section Final.
Variables (Phi Phiinv : R -> R) (k : kind).
Hypothesis HG : needs_gauss k -> GaussFacts Phi Phiinv.

Lemma step_gen : forall (P : params R) (tau : R) (limit : bool)
         (teams : list (list (rating R))) (keys : option (list key)),
  (2 <= length teams)%nat ->
  Forall (fun t : list (rating R) => t <> []) teams ->
  0 < p_beta P -> 0 < p_kappa P <= 1 -> 0 <= tau ->
  Forall (Forall (fun p : rating R => 0 <= r_sigma p /\ 0 < r_sigma p * r_sigma p + tau * tau)) teams ->
  (forall (c : R) (n : nat) (mu ss : R) (team : list (rating R)) (rank : nat),
     0 <= p_gamma P c n mu ss team rank) ->
  match keys with Some ks => length ks = length teams | None => True end ->
  Forall2 (Forall2 (fun p r : rating R =>
      0 <= r_sigma r <= sqrt (r_sigma p * r_sigma p + tau * tau) /\
      (limit = false \/ 0 < r_sigma p -> 0 < r_sigma r)))
    teams (@rate_core R (RNum Phi Phiinv) k P tau limit teams keys).
Proof.
  intros P tau limit teams keys _ Hne Hb Hk _ Hsig Hg Hkeys.
  assert (Hk' : 0 <= p_kappa P <= 1) by lra.
  eapply Forall2_weaken2;
    [|apply (rate_core_sigma Phi Phiinv P k Hb Hk' Hg HG tau limit teams keys Hkeys Hne Hsig)].
  intros p r [H1 [H2 H3]]. split; [exact H1|]. intros H. apply H2; [apply Hk | exact H].
Qed.

Lemma kappa0_gen : forall (P : params R) (tau : R) (limit : bool)
         (teams : list (list (rating R))) (keys : option (list key)),
  (2 <= length teams)%nat ->
  Forall (fun t : list (rating R) => t <> []) teams ->
  0 < p_beta P -> p_kappa P = 0 -> 0 <= tau ->
  Forall (Forall (fun p : rating R => 0 <= r_sigma p /\ 0 < r_sigma p * r_sigma p + tau * tau)) teams ->
  (forall (c : R) (n : nat) (mu ss : R) (team : list (rating R)) (rank : nat),
     0 <= p_gamma P c n mu ss team rank) ->
  match keys with Some ks => length ks = length teams | None => True end ->
  Forall2 (Forall2 (fun p r : rating R =>
      0 <= r_sigma r <= sqrt (r_sigma p * r_sigma p + tau * tau) /\
      (limit = true -> r_sigma r <= r_sigma p)))
    teams (@rate_core R (RNum Phi Phiinv) k P tau limit teams keys).
Proof.
  intros P tau limit teams keys _ Hne Hb Hk _ Hsig Hg Hkeys.
  assert (Hk' : 0 <= p_kappa P <= 1) by (rewrite Hk; lra).
  eapply Forall2_weaken2;
    [|apply (rate_core_sigma Phi Phiinv P k Hb Hk' Hg HG tau limit teams keys Hkeys Hne Hsig)].
  intros p r [H1 [H2 H3]]. split; assumption.
Qed.

Lemma limit_gen : forall (P : params R) (tau : R)
         (teams : list (list (rating R))) (keys : option (list key)),
  (2 <= length teams)%nat ->
  Forall (fun t : list (rating R) => t <> []) teams ->
  0 < p_beta P -> 0 < p_kappa P <= 1 -> 0 <= tau ->
  Forall (Forall (fun p : rating R => 0 <= r_sigma p /\ 0 < r_sigma p * r_sigma p + tau * tau)) teams ->
  (forall (c : R) (n : nat) (mu ss : R) (team : list (rating R)) (rank : nat),
     0 <= p_gamma P c n mu ss team rank) ->
  match keys with Some ks => length ks = length teams | None => True end ->
  Forall2 (Forall2 (fun p r : rating R =>
      0 <= r_sigma r <= r_sigma p /\ (0 < r_sigma p -> 0 < r_sigma r)))
    teams (@rate_core R (RNum Phi Phiinv) k P tau true teams keys).
Proof.
  intros P tau teams keys _ Hne Hb Hk _ Hsig Hg Hkeys.
  assert (Hk' : 0 <= p_kappa P <= 1) by lra.
  eapply Forall2_weaken2;
    [|apply (rate_core_sigma Phi Phiinv P k Hb Hk' Hg HG tau true teams keys Hkeys Hne Hsig)].
  intros p r [[H0 H1] [H2 H3]]. specialize (H3 eq_refl). split; [lra|].
  intros Hp. apply H2; [apply Hk | now right].
Qed.

Lemma history_gen : forall (P : params R),
  0 < p_beta P -> 0 <= p_kappa P <= 1 ->
  (forall (c : R) (n : nat) (mu ss : R) (team : list (rating R)) (rank : nat),
     0 <= p_gamma P c n mu ss team rank) ->
  forall (gs : list game) (st : list (rating R)) (i : nat),
  ((forall g : game, In g gs -> plays i g = true -> g_limit g = true) ->
     r_sigma (get (run Phi Phiinv P k st gs) i) <= r_sigma (get st i))
  /\ r_sigma (get (run Phi Phiinv P k st gs) i) * r_sigma (get (run Phi Phiinv P k st gs) i)
     <= r_sigma (get st i) * r_sigma (get st i)
        + Rsum (map (fun g : game => if plays i g then g_tau g * g_tau g else 0) gs)
  /\ (0 < p_kappa P -> 0 < r_sigma (get st i) ->
      0 < r_sigma (get (run Phi Phiinv P k st gs) i)).
Proof.
  intros P Hb Hk Hg gs st i. split; [|split].
  - apply (run_limit Phi Phiinv P k Hb Hk Hg HG).
  - exact (run_quadrature Phi Phiinv P k Hb Hk Hg HG gs st i).
  - apply (run_positive Phi Phiinv P k Hb Hk Hg HG).
Qed.

Lemma history_step_gen : forall (P : params R),
  0 < p_beta P -> 0 <= p_kappa P <= 1 ->
  (forall (c : R) (n : nat) (mu ss : R) (team : list (rating R)) (rank : nat),
     0 <= p_gamma P c n mu ss team rank) ->
  forall (g : game) (st : list (rating R)) (i : nat),
  ((plays i g = true -> g_limit g = true) ->
     r_sigma (get (play Phi Phiinv P k st g) i) <= r_sigma (get st i))
  /\ r_sigma (get (play Phi Phiinv P k st g) i) * r_sigma (get (play Phi Phiinv P k st g) i)
     <= r_sigma (get st i) * r_sigma (get st i)
        + (if plays i g then g_tau g * g_tau g else 0)
  /\ (0 < p_kappa P -> 0 < r_sigma (get st i) ->
      0 < r_sigma (get (play Phi Phiinv P k st g) i)).
Proof.
  intros P Hb Hk Hg g st i. split; [|split].
  - apply (play_limit Phi Phiinv P k Hb Hk Hg HG).
  - exact (play_quadrature Phi Phiinv P k Hb Hk Hg HG st g i).
  - apply (play_positive Phi Phiinv P k Hb Hk Hg HG).
Qed.
End Final.

Theorem C06_step_thm :
  forall (Phi Phiinv : R -> R), GaussFacts Phi Phiinv ->
  forall (k : kind) (P : params R) (tau : R) (limit : bool)
         (teams : list (list (rating R))) (keys : option (list key)),
  (2 <= length teams)%nat ->
  Forall (fun t : list (rating R) => t <> []) teams ->
  0 < p_beta P -> 0 < p_kappa P <= 1 -> 0 <= tau ->
  Forall (Forall (fun p : rating R => 0 <= r_sigma p /\ 0 < r_sigma p * r_sigma p + tau * tau)) teams ->
  (forall (c : R) (n : nat) (mu ss : R) (team : list (rating R)) (rank : nat),
     0 <= p_gamma P c n mu ss team rank) ->
  match keys with Some ks => length ks = length teams | None => True end ->
  Forall2 (Forall2 (fun p r : rating R =>
      0 <= r_sigma r <= sqrt (r_sigma p * r_sigma p + tau * tau) /\
      (limit = false \/ 0 < r_sigma p -> 0 < r_sigma r)))
    teams (@rate_core R (RNum Phi Phiinv) k P tau limit teams keys).
Proof. intros Phi Phiinv GF k. exact (step_gen Phi Phiinv k (ng_gf Phi Phiinv k GF)). Qed.

Theorem C06_step_PL_BT_thm :
  forall (Phi Phiinv : R -> R) (k : kind), k = PL \/ k = BTF \/ k = BTP ->
  forall (P : params R) (tau : R) (limit : bool)
         (teams : list (list (rating R))) (keys : option (list key)),
  (2 <= length teams)%nat ->
  Forall (fun t : list (rating R) => t <> []) teams ->
  0 < p_beta P -> 0 < p_kappa P <= 1 -> 0 <= tau ->
  Forall (Forall (fun p : rating R => 0 <= r_sigma p /\ 0 < r_sigma p * r_sigma p + tau * tau)) teams ->
  (forall (c : R) (n : nat) (mu ss : R) (team : list (rating R)) (rank : nat),
     0 <= p_gamma P c n mu ss team rank) ->
  match keys with Some ks => length ks = length teams | None => True end ->
  Forall2 (Forall2 (fun p r : rating R =>
      0 <= r_sigma r <= sqrt (r_sigma p * r_sigma p + tau * tau) /\
      (limit = false \/ 0 < r_sigma p -> 0 < r_sigma r)))
    teams (@rate_core R (RNum Phi Phiinv) k P tau limit teams keys).
Proof. intros Phi Phiinv k Hk. exact (step_gen Phi Phiinv k (ng_plbt Phi Phiinv k Hk)). Qed.

Theorem C06_step_kappa0_thm :
  forall (Phi Phiinv : R -> R), GaussFacts Phi Phiinv ->
  forall (k : kind) (P : params R) (tau : R) (limit : bool)
         (teams : list (list (rating R))) (keys : option (list key)),
  (2 <= length teams)%nat ->
  Forall (fun t : list (rating R) => t <> []) teams ->
  0 < p_beta P -> p_kappa P = 0 -> 0 <= tau ->
  Forall (Forall (fun p : rating R => 0 <= r_sigma p /\ 0 < r_sigma p * r_sigma p + tau * tau)) teams ->
  (forall (c : R) (n : nat) (mu ss : R) (team : list (rating R)) (rank : nat),
     0 <= p_gamma P c n mu ss team rank) ->
  match keys with Some ks => length ks = length teams | None => True end ->
  Forall2 (Forall2 (fun p r : rating R =>
      0 <= r_sigma r <= sqrt (r_sigma p * r_sigma p + tau * tau) /\
      (limit = true -> r_sigma r <= r_sigma p)))
    teams (@rate_core R (RNum Phi Phiinv) k P tau limit teams keys).
Proof. intros Phi Phiinv GF k. exact (kappa0_gen Phi Phiinv k (ng_gf Phi Phiinv k GF)). Qed.

Theorem C06_step_kappa0_PL_BT_thm :
  forall (Phi Phiinv : R -> R) (k : kind), k = PL \/ k = BTF \/ k = BTP ->
  forall (P : params R) (tau : R) (limit : bool)
         (teams : list (list (rating R))) (keys : option (list key)),
  (2 <= length teams)%nat ->
  Forall (fun t : list (rating R) => t <> []) teams ->
  0 < p_beta P -> p_kappa P = 0 -> 0 <= tau ->
  Forall (Forall (fun p : rating R => 0 <= r_sigma p /\ 0 < r_sigma p * r_sigma p + tau * tau)) teams ->
  (forall (c : R) (n : nat) (mu ss : R) (team : list (rating R)) (rank : nat),
     0 <= p_gamma P c n mu ss team rank) ->
  match keys with Some ks => length ks = length teams | None => True end ->
  Forall2 (Forall2 (fun p r : rating R =>
      0 <= r_sigma r <= sqrt (r_sigma p * r_sigma p + tau * tau) /\
      (limit = true -> r_sigma r <= r_sigma p)))
    teams (@rate_core R (RNum Phi Phiinv) k P tau limit teams keys).
Proof. intros Phi Phiinv k Hk. exact (kappa0_gen Phi Phiinv k (ng_plbt Phi Phiinv k Hk)). Qed.

Theorem C06_limit_thm :
  forall (Phi Phiinv : R -> R), GaussFacts Phi Phiinv ->
  forall (k : kind) (P : params R) (tau : R)
         (teams : list (list (rating R))) (keys : option (list key)),
  (2 <= length teams)%nat ->
  Forall (fun t : list (rating R) => t <> []) teams ->
  0 < p_beta P -> 0 < p_kappa P <= 1 -> 0 <= tau ->
  Forall (Forall (fun p : rating R => 0 <= r_sigma p /\ 0 < r_sigma p * r_sigma p + tau * tau)) teams ->
  (forall (c : R) (n : nat) (mu ss : R) (team : list (rating R)) (rank : nat),
     0 <= p_gamma P c n mu ss team rank) ->
  match keys with Some ks => length ks = length teams | None => True end ->
  Forall2 (Forall2 (fun p r : rating R =>
      0 <= r_sigma r <= r_sigma p /\ (0 < r_sigma p -> 0 < r_sigma r)))
    teams (@rate_core R (RNum Phi Phiinv) k P tau true teams keys).
Proof. intros Phi Phiinv GF k. exact (limit_gen Phi Phiinv k (ng_gf Phi Phiinv k GF)). Qed.

Theorem C06_limit_PL_BT_thm :
  forall (Phi Phiinv : R -> R) (k : kind), k = PL \/ k = BTF \/ k = BTP ->
  forall (P : params R) (tau : R)
         (teams : list (list (rating R))) (keys : option (list key)),
  (2 <= length teams)%nat ->
  Forall (fun t : list (rating R) => t <> []) teams ->
  0 < p_beta P -> 0 < p_kappa P <= 1 -> 0 <= tau ->
  Forall (Forall (fun p : rating R => 0 <= r_sigma p /\ 0 < r_sigma p * r_sigma p + tau * tau)) teams ->
  (forall (c : R) (n : nat) (mu ss : R) (team : list (rating R)) (rank : nat),
     0 <= p_gamma P c n mu ss team rank) ->
  match keys with Some ks => length ks = length teams | None => True end ->
  Forall2 (Forall2 (fun p r : rating R =>
      0 <= r_sigma r <= r_sigma p /\ (0 < r_sigma p -> 0 < r_sigma r)))
    teams (@rate_core R (RNum Phi Phiinv) k P tau true teams keys).
Proof. intros Phi Phiinv k Hk. exact (limit_gen Phi Phiinv k (ng_plbt Phi Phiinv k Hk)). Qed.

Theorem C06_history_thm :
  forall (Phi Phiinv : R -> R), GaussFacts Phi Phiinv ->
  forall (k : kind) (P : params R),
  0 < p_beta P -> 0 <= p_kappa P <= 1 ->
  (forall (c : R) (n : nat) (mu ss : R) (team : list (rating R)) (rank : nat),
     0 <= p_gamma P c n mu ss team rank) ->
  forall (gs : list game) (st : list (rating R)) (i : nat),
  ((forall g : game, In g gs -> plays i g = true -> g_limit g = true) ->
     r_sigma (get (run Phi Phiinv P k st gs) i) <= r_sigma (get st i))
  /\ r_sigma (get (run Phi Phiinv P k st gs) i) * r_sigma (get (run Phi Phiinv P k st gs) i)
     <= r_sigma (get st i) * r_sigma (get st i)
        + Rsum (map (fun g : game => if plays i g then g_tau g * g_tau g else 0) gs)
  /\ (0 < p_kappa P -> 0 < r_sigma (get st i) ->
      0 < r_sigma (get (run Phi Phiinv P k st gs) i)).
Proof. intros Phi Phiinv GF k. exact (history_gen Phi Phiinv k (ng_gf Phi Phiinv k GF)). Qed.

Theorem C06_history_PL_BT_thm :
  forall (Phi Phiinv : R -> R) (k : kind), k = PL \/ k = BTF \/ k = BTP ->
  forall (P : params R),
  0 < p_beta P -> 0 <= p_kappa P <= 1 ->
  (forall (c : R) (n : nat) (mu ss : R) (team : list (rating R)) (rank : nat),
     0 <= p_gamma P c n mu ss team rank) ->
  forall (gs : list game) (st : list (rating R)) (i : nat),
  ((forall g : game, In g gs -> plays i g = true -> g_limit g = true) ->
     r_sigma (get (run Phi Phiinv P k st gs) i) <= r_sigma (get st i))
  /\ r_sigma (get (run Phi Phiinv P k st gs) i) * r_sigma (get (run Phi Phiinv P k st gs) i)
     <= r_sigma (get st i) * r_sigma (get st i)
        + Rsum (map (fun g : game => if plays i g then g_tau g * g_tau g else 0) gs)
  /\ (0 < p_kappa P -> 0 < r_sigma (get st i) ->
      0 < r_sigma (get (run Phi Phiinv P k st gs) i)).
Proof. intros Phi Phiinv k Hk. exact (history_gen Phi Phiinv k (ng_plbt Phi Phiinv k Hk)). Qed.

Theorem C06_history_step_thm :
  forall (Phi Phiinv : R -> R), GaussFacts Phi Phiinv ->
  forall (k : kind) (P : params R),
  0 < p_beta P -> 0 <= p_kappa P <= 1 ->
  (forall (c : R) (n : nat) (mu ss : R) (team : list (rating R)) (rank : nat),
     0 <= p_gamma P c n mu ss team rank) ->
  forall (g : game) (st : list (rating R)) (i : nat),
  ((plays i g = true -> g_limit g = true) ->
     r_sigma (get (play Phi Phiinv P k st g) i) <= r_sigma (get st i))
  /\ r_sigma (get (play Phi Phiinv P k st g) i) * r_sigma (get (play Phi Phiinv P k st g) i)
     <= r_sigma (get st i) * r_sigma (get st i)
        + (if plays i g then g_tau g * g_tau g else 0)
  /\ (0 < p_kappa P -> 0 < r_sigma (get st i) ->
      0 < r_sigma (get (play Phi Phiinv P k st g) i)).
Proof. intros Phi Phiinv GF k. exact (history_step_gen Phi Phiinv k (ng_gf Phi Phiinv k GF)). Qed.

Theorem C06_history_step_PL_BT_thm :
  forall (Phi Phiinv : R -> R) (k : kind), k = PL \/ k = BTF \/ k = BTP ->
  forall (P : params R),
  0 < p_beta P -> 0 <= p_kappa P <= 1 ->
  (forall (c : R) (n : nat) (mu ss : R) (team : list (rating R)) (rank : nat),
     0 <= p_gamma P c n mu ss team rank) ->
  forall (g : game) (st : list (rating R)) (i : nat),
  ((plays i g = true -> g_limit g = true) ->
     r_sigma (get (play Phi Phiinv P k st g) i) <= r_sigma (get st i))
  /\ r_sigma (get (play Phi Phiinv P k st g) i) * r_sigma (get (play Phi Phiinv P k st g) i)
     <= r_sigma (get st i) * r_sigma (get st i)
        + (if plays i g then g_tau g * g_tau g else 0)
  /\ (0 < p_kappa P -> 0 < r_sigma (get st i) ->
      0 < r_sigma (get (play Phi Phiinv P k st g) i)).
Proof. intros Phi Phiinv k Hk. exact (history_step_gen Phi Phiinv k (ng_plbt Phi Phiinv k Hk)). Qed.

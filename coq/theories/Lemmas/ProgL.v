(** * ProgL: general lemmas about effect programs ([prog], [bind], [run], traces)
    and the closed form of [run (rate_prog ...)] / [run (predict_prog ...)]. *)
From Coq Require Import List ZArith Bool Arith Lia.
From OSV Require Import Num Order Gauss Core Predict PyVal Prog.
Import ListNotations.

Section ProgL.
Context {F : Type} {N : Num F}.

(** ** classification of events *)
Definition is_read (e : event F) : bool :=
  match e with ERdF _ | ERdLimit | ERdGamma => true | _ => false end.
Definition is_write (e : event F) : bool :=
  match e with EWrF _ _ | EWrLimit _ => true | _ => false end.
Definition is_mut (e : event F) : bool :=
  match e with EMutMu _ _ _ | EMutSigma _ _ _ => true | _ => false end.

(** ** syntactic classes of programs *)

(** no write to the shared model state on any path *)
Fixpoint no_writes {A} (p : prog F A) : Prop :=
  match p with
  | Ret _ | Fail _ => True
  | RdF _ k => forall x, no_writes (k x)
  | RdLimit k => forall b, no_writes (k b)
  | RdGamma k => forall g, no_writes (k g)
  | WrF _ _ _ | WrLimit _ _ => False
  | MutMu _ _ _ k | MutSigma _ _ _ k => no_writes k
  end.

(** neither a write to the model nor a mutation of a rating object *)
Fixpoint no_effects {A} (p : prog F A) : Prop :=
  match p with
  | Ret _ | Fail _ => True
  | RdF _ k => forall x, no_effects (k x)
  | RdLimit k => forall b, no_effects (k b)
  | RdGamma k => forall g, no_effects (k g)
  | WrF _ _ _ | WrLimit _ _ | MutMu _ _ _ _ | MutSigma _ _ _ _ => False
  end.

(** never raises *)
Fixpoint no_fail {A} (p : prog F A) : Prop :=
  match p with
  | Ret _ => True
  | Fail _ => False
  | RdF _ k => forall x, no_fail (k x)
  | RdLimit k => forall b, no_fail (k b)
  | RdGamma k => forall g, no_fail (k g)
  | WrF _ _ k | WrLimit _ k | MutMu _ _ _ k | MutSigma _ _ _ k => no_fail k
  end.

Lemma no_effects_no_writes {A} (p : prog F A) : no_effects p -> no_writes p.
Proof. induction p; cbn; intros; auto; contradiction. Qed.

Lemma no_writes_bind {A B} (p : prog F A) (f : A -> prog F B) :
  no_writes p -> (forall a, no_writes (f a)) -> no_writes (bind p f).
Proof. induction p; cbn; intros; auto. Qed.

Lemma no_effects_bind {A B} (p : prog F A) (f : A -> prog F B) :
  no_effects p -> (forall a, no_effects (f a)) -> no_effects (bind p f).
Proof. induction p; cbn; intros; auto. Qed.

Lemma no_fail_bind {A B} (p : prog F A) (f : A -> prog F B) :
  no_fail p -> (forall a, no_fail (f a)) -> no_fail (bind p f).
Proof. induction p; cbn; intros; auto. Qed.

Lemma no_writes_lift {A} (r : res A) : no_writes (lift (F:=F) r).
Proof. destruct r; exact I. Qed.
Lemma no_effects_lift {A} (r : res A) : no_effects (lift (F:=F) r).
Proof. destruct r; exact I. Qed.

Lemma no_writes_mut_sigmas {A} l (k : prog F A) : no_writes k -> no_writes (mut_sigmas l k).
Proof. induction l as [|[[i j] r] l IH]; cbn; auto. Qed.
Lemma no_writes_mut_both {A} l (k : prog F A) : no_writes k -> no_writes (mut_both l k).
Proof. induction l as [|[[i j] r] l IH]; cbn; auto. Qed.
Lemma no_fail_mut_sigmas {A} l (k : prog F A) : no_fail k -> no_fail (mut_sigmas l k).
Proof. induction l as [|[[i j] r] l IH]; cbn; auto. Qed.
Lemma no_fail_mut_both {A} l (k : prog F A) : no_fail k -> no_fail (mut_both l k).
Proof. induction l as [|[[i j] r] l IH]; cbn; auto. Qed.

(** ** [run] *)
Lemma run_bind {A B} (p : prog F A) (f : A -> prog F B) st :
  run (bind p f) st =
  match snd (run p st) with
  | Ok a => let r := run (f a) (snd (fst (run p st))) in
            (fst (fst (run p st)) ++ fst (fst r), snd (fst r), snd r)
  | Raise e => (fst (fst (run p st)), snd (fst (run p st)), Raise e)
  end.
Proof.
  revert st; induction p as [a|e|a k IH|k IH|k IH|a x k IH|b k IH|i j x k IH|i j x k IH]; intros st;
    cbn [bind run fst snd app].
  - destruct (run (f a) st) as [[t s] r]; reflexivity.
  - reflexivity.
  - rewrite IH. destruct (snd (run (k (get_f st a)) st)); reflexivity.
  - rewrite IH. destruct (snd (run (k (m_limit st)) st)); reflexivity.
  - rewrite IH. destruct (snd (run (k (m_gamma st)) st)); reflexivity.
  - rewrite IH. destruct (snd (run k (set_f st a x))); reflexivity.
  - rewrite IH. destruct (snd (run k (set_limit st b))); reflexivity.
  - rewrite IH. destruct (snd (run k st)); reflexivity.
  - rewrite IH. destruct (snd (run k st)); reflexivity.
Qed.

Lemma bind_lift {A B} (r : res A) (f : A -> prog F B) :
  bind (lift r) f = match r with Ok a => f a | Raise e => Fail e end.
Proof. destruct r; reflexivity. Qed.

(** a program without writes leaves the model state alone and its trace has no write event *)
Lemma no_writes_run_state {A} (p : prog F A) st : no_writes p -> snd (fst (run p st)) = st.
Proof.
  revert st; induction p; intros st Hn; cbn in *; auto; contradiction.
Qed.

Lemma no_writes_run_trace {A} (p : prog F A) st :
  no_writes p -> forall ev, In ev (fst (fst (run p st))) -> is_write ev = false.
Proof.
  revert st; induction p; intros st Hn ev Hin; cbn in *; try contradiction;
    (destruct Hin as [<-|Hin]; [reflexivity|eauto]).
Qed.

Lemma no_effects_run_trace {A} (p : prog F A) st :
  no_effects p -> forall ev, In ev (fst (fst (run p st))) -> is_read ev = true.
Proof.
  revert st; induction p; intros st Hn ev Hin; cbn in *; try contradiction;
    (destruct Hin as [<-|Hin]; [reflexivity|eauto]).
Qed.

Lemma no_fail_run {A} (p : prog F A) st : no_fail p -> exists a, snd (run p st) = Ok a.
Proof.
  revert st; induction p; intros st Hn; cbn in *; eauto; contradiction.
Qed.

(** ** the events emitted by [mut_sigmas] / [mut_both] *)
Definition ev_sigmas (l : list (nat * nat * rating F)) : list (event F) :=
  map (fun x => EMutSigma (fst (fst x)) (snd (fst x)) (r_sigma (snd x))) l.
Definition ev_both (l : list (nat * nat * rating F)) : list (event F) :=
  flat_map (fun x => [EMutMu (fst (fst x)) (snd (fst x)) (r_mu (snd x));
                      EMutSigma (fst (fst x)) (snd (fst x)) (r_sigma (snd x))]) l.

Lemma run_mut_sigmas {A} l (k : prog F A) st :
  run (mut_sigmas l k) st =
  (ev_sigmas l ++ fst (fst (run k st)), snd (fst (run k st)), snd (run k st)).
Proof.
  induction l as [|[[i j] r] l IH]; cbn [mut_sigmas run ev_sigmas map app fst snd].
  - destruct (run k st) as [[t s] o]; reflexivity.
  - rewrite IH. reflexivity.
Qed.

Lemma run_mut_both {A} l (k : prog F A) st :
  run (mut_both l k) st =
  (ev_both l ++ fst (fst (run k st)), snd (fst (run k st)), snd (run k st)).
Proof.
  induction l as [|[[i j] r] l IH]; cbn [mut_both run ev_both flat_map app fst snd].
  - destruct (run k st) as [[t s] o]; reflexivity.
  - rewrite IH. reflexivity.
Qed.

(** ** [rate_prog]: syntactic facts *)

(** the part of [rate] after argument validation and the resolution of tau *)
Definition rate_tail (k : kind) (limit : pyval F) (tms : list (list (rating F)))
           (keys : option (list key)) (t : F) : prog F (list (list (rating F))) :=
  let infl := map (map (inflate t)) tms in
  mut_sigmas (indexed infl) (
  RdF ABeta (fun beta => RdF AKappa (fun kappa => RdGamma (fun g =>
  let res := rate_sorted k (mkParams beta kappa g) infl keys in
  mut_both (indexed res) (
  bind (match limit with PNone => RdLimit Ret | v => Ret (truthy v) end) (fun lim =>
  if lim then let res' := clamp tms res in mut_sigmas (indexed res') (Ret res')
  else Ret res)))))).

Definition tau_prog (tau : pyval F) : prog F F :=
  match tau with PNone => RdF ATau Ret | v => lift (as_float v) end.
Definition limit_prog (limit : pyval F) : prog F bool :=
  match limit with PNone => RdLimit Ret | v => Ret (truthy v) end.

Lemma rate_prog_unfold k teams ranks scores tau limit :
  rate_prog k teams ranks scores tau limit =
  bind (lift (validate_rate k teams ranks scores)) (fun tk =>
  bind (tau_prog tau) (rate_tail k limit (fst tk) (snd tk))).
Proof. reflexivity. Qed.

Lemma no_writes_limit_prog limit : no_writes (limit_prog limit).
Proof. destruct limit; cbn; auto. Qed.
Lemma no_fail_limit_prog limit : no_fail (limit_prog limit).
Proof. destruct limit; cbn; auto. Qed.
Lemma no_writes_tau_prog tau : no_writes (tau_prog tau).
Proof. destruct tau; cbn; auto; try apply no_writes_lift. Qed.

Lemma no_writes_rate_tail k limit tms keys t : no_writes (rate_tail k limit tms keys t).
Proof.
  unfold rate_tail. apply no_writes_mut_sigmas. cbn. intros beta kappa g.
  apply no_writes_mut_both. apply no_writes_bind.
  - apply no_writes_limit_prog.
  - intros [|]; [apply no_writes_mut_sigmas|]; exact I.
Qed.

Lemma no_fail_rate_tail k limit tms keys t : no_fail (rate_tail k limit tms keys t).
Proof.
  unfold rate_tail. apply no_fail_mut_sigmas. cbn. intros beta kappa g.
  apply no_fail_mut_both. apply no_fail_bind.
  - apply no_fail_limit_prog.
  - intros [|]; [apply no_fail_mut_sigmas|]; exact I.
Qed.

Lemma no_writes_rate_prog k teams ranks scores tau limit :
  no_writes (rate_prog k teams ranks scores tau limit).
Proof.
  rewrite rate_prog_unfold. apply no_writes_bind; [apply no_writes_lift|]. intros tk.
  apply no_writes_bind; [apply no_writes_tau_prog|]. intros t. apply no_writes_rate_tail.
Qed.

Lemma no_effects_predict_prog {A} (f : F -> list (list (rating F)) -> A) k teams :
  no_effects (predict_prog f k teams).
Proof.
  unfold predict_prog. apply no_effects_bind; [apply no_effects_lift|]. intros tms; cbn. auto.
Qed.

Lemma no_writes_predict_prog {A} (f : F -> list (list (rating F)) -> A) k teams :
  no_writes (predict_prog f k teams).
Proof. apply no_effects_no_writes, no_effects_predict_prog. Qed.

(** ** closed forms *)

(** the resolution of the per-call tau: the events it emits and the value *)
Definition tau_of (st : mstate F) (tau : pyval F) : res (list (event F) * F) :=
  match tau with
  | PNone => Ok ([ERdF ATau], m_tau st)
  | v => rbind (as_float v) (fun x => Ok ([], x))
  end.
Definition lim_of (st : mstate F) (limit : pyval F) : list (event F) * bool :=
  match limit with PNone => ([ERdLimit], m_limit st) | v => ([], truthy v) end.

Lemma run_tau_prog tau st :
  run (tau_prog tau) st =
  match tau_of st tau with
  | Ok ex => (fst ex, st, Ok (snd ex))
  | Raise e => ([], st, Raise e)
  end.
Proof. destruct tau; try reflexivity. Qed.

Lemma run_limit_prog limit st :
  run (limit_prog limit) st = (fst (lim_of st limit), st, Ok (snd (lim_of st limit))).
Proof. destruct limit; reflexivity. Qed.

Definition rate_tail_trace (k : kind) (st : mstate F) (limit : pyval F)
           (tms : list (list (rating F))) (keys : option (list key)) (t : F) : list (event F) :=
  let infl := map (map (inflate t)) tms in
  let res := rate_sorted k (params_of st) infl keys in
  ev_sigmas (indexed infl) ++ [ERdF ABeta; ERdF AKappa; ERdGamma] ++ ev_both (indexed res) ++
  fst (lim_of st limit) ++
  (if snd (lim_of st limit) then ev_sigmas (indexed (clamp tms res)) else []).

Lemma run_rate_tail k limit tms keys t st :
  run (rate_tail k limit tms keys t) st =
  (rate_tail_trace k st limit tms keys t, st,
   Ok (rate_core k (params_of st) t (snd (lim_of st limit)) tms keys)).
Proof.
  unfold rate_tail, rate_tail_trace, rate_core.
  rewrite run_mut_sigmas. cbn [run fst snd get_f].
  rewrite run_mut_both. fold (limit_prog limit). rewrite run_bind, run_limit_prog.
  cbn [fst snd]. unfold params_of.
  destruct (snd (lim_of st limit)).
  - cbn zeta. rewrite run_mut_sigmas. cbn [run fst snd]. rewrite app_nil_r. reflexivity.
  - cbn [run fst snd]. reflexivity.
Qed.

(** the whole of [rate] *)
Theorem run_rate_prog k teams ranks scores tau limit st :
  run (rate_prog k teams ranks scores tau limit) st =
  match validate_rate k teams ranks scores with
  | Raise e => ([], st, Raise e)
  | Ok tk =>
      match tau_of st tau with
      | Raise e => ([], st, Raise e)
      | Ok ex =>
          (fst ex ++ rate_tail_trace k st limit (fst tk) (snd tk) (snd ex), st,
           Ok (rate_core k (params_of st) (snd ex) (snd (lim_of st limit)) (fst tk) (snd tk)))
      end
  end.
Proof.
  rewrite rate_prog_unfold, bind_lift.
  destruct (validate_rate k teams ranks scores) as [tk|e]; [|reflexivity].
  rewrite run_bind, run_tau_prog.
  destruct (tau_of st tau) as [ex|e]; [|reflexivity].
  cbn [fst snd]. rewrite run_rate_tail. reflexivity.
Qed.

Theorem run_predict_prog {A} (f : F -> list (list (rating F)) -> A) k teams st :
  run (predict_prog f k teams) st =
  match check_teams k teams with
  | Raise e => ([], st, Raise e)
  | Ok tms => ([ERdF ABeta], st, Ok (f (m_beta st) tms))
  end.
Proof.
  unfold predict_prog. rewrite bind_lift. destruct (check_teams k teams); reflexivity.
Qed.

End ProgL.

(** ** a tiny concrete carrier, used only by the non-vacuity [Example]s of the
    property files: integers with integer arithmetic (no law is claimed) *)
Definition ZNum : Num Z :=
  {| fadd := Z.add; fsub := Z.sub; fmul := Z.mul; fdiv := Z.div; fneg := Z.opp; fabs := Z.abs;
     fsqrt := Z.sqrt; fexp := fun x => x; ferfc := fun x => x; fpow2 := fun x => Z.mul x x;
     ficdf := fun x => x; fltb := Z.ltb; fleb := Z.leb; feqb := Z.eqb; ffinite := fun _ => true;
     fofZ := fun z => z; fofdy := fun m e => Z.shiftl m e; ftau := 6%Z |}.

Definition ex_state : mstate Z :=
  {| m_mu := 25; m_sigma := 8; m_beta := 4; m_kappa := 1; m_tau := 1;
     m_gamma := @gamma_default Z ZNum; m_limit := false |}%Z.
Definition ex_rating (mu sigma id : Z) : rating Z := mkRating mu sigma id NmNone.
(** [[a, b], [c]] *)
Definition ex_teams (k : kind) : pyval Z :=
  PList [PList [PRating k (ex_rating 25 8 1); PRating k (ex_rating 30 6 2)];
         PList [PRating k (ex_rating 20 7 3)]].
(** ranks [[2, 1.5]] with an int and a float (1.5 = 3 / 2^1) *)
Definition ex_ranks : pyval Z := PList [PInt 2; PFloat 1%Z 3%Z 1%Z].
(** scores [[True, -3]] *)
Definition ex_scores : pyval Z := PList [PBool true; PInt (-3)].

(** * C05LiftL: exchanging places / identical teams, lifted to [rate_core] with explicit rank keys.

    For Plackett-Luce and the full-pairing models the result of [rate_sorted] is [compute] on
    the team ratings of the caller's game IN INPUT ORDER, each with its dense rank
    ([C01L.rate_sorted_val] and [C01L.compute_full_val]: both sides are the closed form
    [post_val] of C01).  So the compute-level theorems [C05L.exchange] and
    [C05L.identical_ordered] apply to the list [map (tr_of g) g], [g] the game of the call;
    exchanging the keys of two positions relabels the dense ranks by the transposition
    [C05L.sw] when no two keys are tied. *)
From Coq Require Import List ZArith Bool Arith Reals Lra Lia Permutation FinFun.
From OSV Require Import Num Order Gauss Core RInst Spec.
From OSV.Lemmas Require Import OrderL OrderL2 RateL.
From OSV.Lemmas Require OmegaL C05L C05RateL C01L SpecSumL.
Import ListNotations.
Open Scope R_scope.

(** ** a list with two entries exchanged is a permutation of the list *)
Lemma swap_perm {A} (l l' : list A) i j x y :
  length l' = length l -> nth_error l i = Some x -> nth_error l j = Some y ->
  nth_error l' i = Some y -> nth_error l' j = Some x ->
  (forall q, q <> i -> q <> j -> nth_error l' q = nth_error l q) -> Permutation l l'.
Proof.
  intros L Ei Ej Ei' Ej' Ho.
  assert (Li : (i < length l)%nat) by (apply nth_error_Some; congruence).
  assert (Lj : (j < length l)%nat) by (apply nth_error_Some; congruence).
  apply (Permutation_nth l l' x). split; [exact L|].
  exists (fun q => if Nat.eqb q i then j else if Nat.eqb q j then i else q). split; [|split].
  - intros q Hq. destruct (Nat.eqb q i); [exact Lj|]. destruct (Nat.eqb q j); [exact Li|exact Hq].
  - intros p q _ _. destruct (Nat.eqb_spec p i), (Nat.eqb_spec p j), (Nat.eqb_spec q i), (Nat.eqb_spec q j); lia.
  - intros q Hq. destruct (Nat.eqb_spec q i) as [->|Ni]; [|destruct (Nat.eqb_spec q j) as [->|Nj]].
    + now rewrite (nth_error_nth _ _ x Ei'), (nth_error_nth _ _ x Ej).
    + now rewrite (nth_error_nth _ _ x Ej'), (nth_error_nth _ _ x Ei).
    + specialize (Ho q Ni Nj). destruct (nth_error l q) as [z|] eqn:Ez; [|apply nth_error_None in Ez; lia].
      now rewrite (nth_error_nth _ _ x Ho), (nth_error_nth _ _ x Ez).
Qed.

Lemma nth_error_ext' {A} (l l' : list A) : (forall n, nth_error l n = nth_error l' n) -> l = l'.
Proof.
  revert l'. induction l as [|a l IH]; intros [|b l'] H; try reflexivity; try (specialize (H 0%nat); discriminate).
  f_equal; [specialize (H 0%nat); now injection H|]. apply IH. intros n. exact (H (S n)).
Qed.
Lemma nth_error_combine_none_l {A B} (l : list A) (l' : list B) n :
  nth_error l n = None -> nth_error (combine l l') n = None.
Proof. intros E. apply nth_error_None in E. apply nth_error_None. rewrite combine_length. lia. Qed.
Lemma nth_error_combine_none_r {A B} (l : list A) (l' : list B) n :
  nth_error l' n = None -> nth_error (combine l l') n = None.
Proof. intros E. apply nth_error_None in E. apply nth_error_None. rewrite combine_length. lia. Qed.

Section C05Lift.
Variables Phi Phiinv : R -> R.
Local Hint Extern 0 (Num R) => exact (RInst.RN Phi Phiinv) : typeclass_instances.

Notation tr_of := (C01L.tr_of Phi Phiinv).
Notation mu_eq := C05RateL.mu_eq.

Definition call_dom (tau : R) (teams : list team) : Prop :=
  Forall (fun t => t <> [] /\ Forall (fun p => 0 < r_sigma p * r_sigma p + tau * tau) t) teams.
(** no two positions carry equal rank values *)
Definition no_ties (ks : list key) : Prop :=
  forall a b ka kb, a <> b -> nth_error ks a = Some ka -> nth_error ks b = Some kb ->
    key_leb ka kb && key_leb kb ka = false.

(** ** [rate_sorted] is [compute] on the caller's game in input order (full kinds) *)
Lemma rate_sorted_compute k P tau (teams : list team) keys :
  C01L.full_kind k -> C01L.keys_ok (length teams) keys ->
  rate_sorted k P (map (map (inflate tau)) teams) keys
  = compute k P (map (tr_of (game_of tau teams keys)) (game_of tau teams keys)).
Proof.
  intros Hk K.
  etransitivity.
  - exact (C01L.rate_sorted_val Phi Phiinv k P
             (fun g sg => C01L.compute_full_val Phi Phiinv k P g sg Hk) tau teams keys K).
  - symmetry. apply (C01L.compute_full_val Phi Phiinv k P); [exact Hk| |reflexivity].
    now apply C01L.game_of_wfg.
Qed.

Lemma rate_full_nth k P tau limit (teams : list team) keys i res :
  C01L.full_kind k -> C01L.keys_ok (length teams) keys ->
  nth_error (rate_core k P tau limit teams keys) i = Some res ->
  exists res0,
    nth_error (compute k P (map (tr_of (game_of tau teams keys)) (game_of tau teams keys))) i = Some res0
    /\ mu_eq res0 res.
Proof.
  intros Hk K Er.
  assert (L : match keys with Some ks => length ks = length teams | None => True end)
    by (destruct keys; [exact (proj1 K)|exact I]).
  pose proof (C05RateL.rate_sorted_lengths Phi Phiinv k P tau teams keys L) as Hlen.
  pose proof (C05RateL.rate_core_mu_eq Phi Phiinv k P tau limit teams keys Hlen) as Hmu.
  rewrite (rate_sorted_compute k P tau teams keys Hk K) in Hmu.
  destruct (nth_error (compute k P (map (tr_of (game_of tau teams keys)) (game_of tau teams keys))) i) as [res0|] eqn:E0.
  - exists res0. split; [reflexivity|]. eapply C05RateL.Forall2_nth; eauto.
  - exfalso. apply nth_error_None in E0. apply Forall2_length' in Hmu.
    assert (i < length (rate_core k P tau limit teams keys))%nat by (apply nth_error_Some; congruence). lia.
Qed.

(** ** the game of a call with explicit keys, position by position *)
Lemma game_nth tau (teams : list team) ks i ki t :
  nth_error ks i = Some ki -> nth_error teams i = Some t ->
  nth_error (game_of tau teams (Some ks)) i = Some (ki, map (inflate tau) t).
Proof.
  intros Ek Et. unfold game_of. cbn [keys_of].
  apply OmegaL.nth_error_combine; [exact Ek|]. exact (map_nth_error (map (inflate tau)) _ _ Et).
Qed.
Lemma game_keys tau (teams : list team) ks : length ks = length teams ->
  map fst (game_of tau teams (Some ks)) = ks.
Proof. intros E. unfold game_of. cbn [keys_of]. apply combine_map_fst. now rewrite map_length. Qed.

Lemma game_trs_ss tau (teams : list team) keys : call_dom tau teams ->
  Forall (fun t => 0 < t_ss t) (map (tr_of (game_of tau teams keys)) (game_of tau teams keys)).
Proof.
  intros Hd. rewrite Forall_map, Forall_forall. intros [k t'] Hin.
  unfold game_of in Hin. apply in_combine_r in Hin. apply in_map_iff in Hin. destruct Hin as [t [<- Ht]].
  unfold call_dom in Hd. rewrite Forall_forall in Hd. destruct (Hd t Ht) as [Hne Hp].
  exact (C05RateL.team_ss_pos Phi Phiinv tau t _ Hne Hp).
Qed.

Lemma trs_rank_nodup (g : game) : C01L.wfg g -> no_ties (map fst g) ->
  NoDup (map t_rank (map (tr_of g) g)).
Proof.
  intros W NT. rewrite map_map. apply NoDup_nth_error. intros i j Hi E.
  rewrite map_length in Hi. rewrite !nth_error_map in E.
  destruct (nth_error g i) as [ei|] eqn:Ei; [|apply nth_error_None in Ei; lia].
  destruct (nth_error g j) as [ej|] eqn:Ej; [|discriminate]. cbn [option_map] in E.
  destruct (Nat.eq_dec i j) as [|Hne]; [assumption|exfalso].
  assert (Er : rank_of g (fst ei) = rank_of g (fst ej)) by (injection E as E; exact E).
  pose proof (C01L.rank_eqb g ei ej W (nth_error_In _ _ Ei) (nth_error_In _ _ Ej)) as Q.
  rewrite Er, Nat.eqb_refl in Q. unfold key_eqb in Q.
  rewrite (NT i j (fst ei) (fst ej) Hne (map_nth_error fst _ _ Ei) (map_nth_error fst _ _ Ej)) in Q.
  discriminate.
Qed.

(** ** identical teams, explicit keys without ties *)
Theorem rate_identical_keys k P tau limit (teams : list team) ks a b ka kb t resa resb :
  C05L.gf_if_tm Phi Phiinv k -> C05L.full_kind k -> 0 < p_kappa P -> call_dom tau teams ->
  length ks = length teams -> Forall key_wf ks -> no_ties ks ->
  nth_error ks a = Some ka -> nth_error ks b = Some kb -> key_ltb ka kb = true ->
  nth_error teams a = Some t -> nth_error teams b = Some t ->
  nth_error (rate_core k P tau limit teams (Some ks)) a = Some resa ->
  nth_error (rate_core k P tau limit teams (Some ks)) b = Some resb ->
  Forall2 (fun pb pa => r_mu pb <= r_mu pa) resb resa.
Proof.
  intros G Hk Hkap Hd E Wk NT Eka Ekb Hlt Eta Etb Era Erb.
  assert (K : C01L.keys_ok (length teams) (Some ks)) by (split; assumption).
  destruct (rate_full_nth k P tau limit teams (Some ks) a resa Hk K Era) as [ra0 [Ea0 Hmua]].
  destruct (rate_full_nth k P tau limit teams (Some ks) b resb Hk K Erb) as [rb0 [Eb0 Hmub]].
  set (g := game_of tau teams (Some ks)) in *.
  pose proof (C01L.game_of_wfg tau teams (Some ks) K) as W. fold g in W.
  pose proof (game_nth tau teams ks a ka t Eka Eta) as Ega. fold g in Ega.
  pose proof (game_nth tau teams ks b kb t Ekb Etb) as Egb. fold g in Egb.
  assert (NTg : no_ties (map fst g)) by (unfold g; now rewrite game_keys).
  pose proof (C01L.rank_ltb g _ _ W (nth_error_In _ _ Ega) (nth_error_In _ _ Egb)) as Hr.
  cbn [fst] in Hr. rewrite Hlt in Hr. apply Nat.ltb_lt in Hr.
  eapply (C05RateL.Forall2_mu_rel Rle); [|exact Hmub|exact Hmua].
  eapply (C05L.identical_ordered Phi Phiinv k P (map (tr_of g) g) a _ b _ ra0 rb0 G Hk).
  - now apply trs_rank_nodup.
  - now apply game_trs_ss.
  - exact Hkap.
  - apply map_nth_error. exact Ega.
  - apply map_nth_error. exact Egb.
  - reflexivity.
  - reflexivity.
  - reflexivity.
  - exact Hr.
  - exact Ea0.
  - exact Eb0.
Qed.

(** ** exchanging the keys of two positions relabels the dense ranks by the transposition *)
Lemma wfg_combine (ks : list key) (ts : list team) : Forall key_wf ks -> C01L.wfg (combine ks ts).
Proof.
  intros W. unfold C01L.wfg. rewrite Forall_forall in *. intros [k t] Hin. cbn [fst].
  apply W. eapply in_combine_l; exact Hin.
Qed.

Lemma relabel_swap_game (ks ks' : list key) (ts : list team) i j ki kj :
  length ks = length ts -> Forall key_wf ks -> no_ties ks ->
  nth_error ks i = Some ki -> nth_error ks j = Some kj -> key_ltb kj ki = true ->
  length ks' = length ks -> nth_error ks' i = Some kj -> nth_error ks' j = Some ki ->
  (forall q, q <> i -> q <> j -> nth_error ks' q = nth_error ks q) ->
  map (C05L.relabel (C05L.sw (rank_of (combine ks ts) ki) (rank_of (combine ks ts) kj)))
      (map (tr_of (combine ks ts)) (combine ks ts))
  = map (tr_of (combine ks' ts)) (combine ks' ts).
Proof.
  intros E Wk NT Eki Ekj Hlt E' Eki' Ekj' Ho.
  set (g := combine ks ts). set (g' := combine ks' ts).
  pose proof (wfg_combine ks ts Wk) as W. fold g in W.
  assert (Pk : Permutation ks ks') by (eapply (swap_perm ks ks' i j ki kj); eauto).
  assert (Eg : map fst g = ks) by (unfold g; now apply combine_map_fst).
  assert (Eg' : map fst g' = ks') by (unfold g'; apply combine_map_fst; congruence).
  assert (Hrank : forall k, rank_of g' k = rank_of g k).
  { intros k. rewrite !C01L.rank_of_count, Eg, Eg'. symmetry. now apply count_less_perm. }
  assert (Li : (i < length ks)%nat) by (apply nth_error_Some; congruence).
  assert (Lj : (j < length ks)%nat) by (apply nth_error_Some; congruence).
  destruct (nth_error ts i) as [t_i|] eqn:Eti; [|apply nth_error_None in Eti; lia].
  destruct (nth_error ts j) as [t_j|] eqn:Etj; [|apply nth_error_None in Etj; lia].
  assert (Egi : nth_error g i = Some (ki, t_i)) by (now apply OmegaL.nth_error_combine).
  assert (Egj : nth_error g j = Some (kj, t_j)) by (now apply OmegaL.nth_error_combine).
  set (ri := rank_of g ki). set (rj := rank_of g kj).
  assert (Hr : (rj < ri)%nat).
  { pose proof (C01L.rank_ltb g _ _ W (nth_error_In _ _ Egj) (nth_error_In _ _ Egi)) as Q.
    cbn [fst] in Q. rewrite Hlt in Q. now apply Nat.ltb_lt in Q. }
  apply nth_error_ext'. intros n. rewrite !nth_error_map.
  destruct (nth_error ts n) as [t|] eqn:Et.
  2:{ assert (H1 : @nth_error entry g n = None) by (apply nth_error_combine_none_r; exact Et).
      assert (H2 : @nth_error entry g' n = None) by (apply nth_error_combine_none_r; exact Et).
      now rewrite H1, H2. }
  destruct (nth_error ks n) as [kn|] eqn:Ekn.
  2:{ assert (nth_error ks' n = None) by (apply nth_error_None; apply nth_error_None in Ekn; lia).
      assert (H1 : @nth_error entry g n = None) by (apply nth_error_combine_none_l; exact Ekn).
      assert (H2 : @nth_error entry g' n = None) by (apply nth_error_combine_none_l; assumption).
      now rewrite H1, H2. }
  destruct (nth_error ks' n) as [kn'|] eqn:Ekn'.
  2:{ exfalso. apply nth_error_None in Ekn'. assert (n < length ks)%nat by (apply nth_error_Some; congruence). lia. }
  assert (Egn : @nth_error entry g n = Some (kn, t)) by (now apply OmegaL.nth_error_combine).
  assert (Egn' : @nth_error entry g' n = Some (kn', t)) by (now apply OmegaL.nth_error_combine).
  rewrite Egn, Egn'. cbn [option_map]. f_equal.
  unfold C05L.relabel, C01L.tr_of, team_rating. cbn [t_mu t_ss t_team t_rank fst snd]. f_equal.
  rewrite Hrank. fold ri rj.
  assert (Hdist : forall m km tm, m <> n -> nth_error g m = Some (km, tm) -> rank_of g kn <> rank_of g km).
  { intros m km tm Hm Egm Er.
    pose proof (C01L.rank_eqb g _ _ W (nth_error_In _ _ Egm) (nth_error_In _ _ Egn)) as Q. cbn [fst] in Q.
    rewrite Er, Nat.eqb_refl in Q. unfold key_eqb in Q.
    assert (Ekm : nth_error ks m = Some km) by (rewrite <- Eg; exact (map_nth_error fst _ _ Egm)).
    rewrite (NT m n km kn Hm Ekm Ekn) in Q. discriminate. }
  unfold C05L.sw.
  destruct (Nat.eq_dec n i) as [->|Ni]; [|destruct (Nat.eq_dec n j) as [->|Nj]].
  - assert (kn = ki) by congruence. assert (kn' = kj) by congruence. subst kn kn'.
    fold ri. now rewrite Nat.eqb_refl.
  - assert (kn = kj) by congruence. assert (kn' = ki) by congruence. subst kn kn'.
    fold rj. rewrite Nat.eqb_refl. destruct (Nat.eqb_spec rj ri); [lia|reflexivity].
  - assert (kn' = kn) by (rewrite (Ho n Ni Nj) in Ekn'; congruence). subst kn'.
    pose proof (Hdist i ki t_i (not_eq_sym Ni) Egi) as D1. pose proof (Hdist j kj t_j (not_eq_sym Nj) Egj) as D2.
    fold ri in D1. fold rj in D2.
    destruct (Nat.eqb_spec (rank_of g kn) ri); [contradiction|].
    destruct (Nat.eqb_spec (rank_of g kn) rj); [contradiction|reflexivity].
Qed.

Theorem rate_exchange k P tau limit (teams : list team) ks ks' i j ki kj res res' :
  C05L.gf_if_tm Phi Phiinv k -> C05L.full_kind k -> 0 < p_kappa P -> call_dom tau teams ->
  length ks = length teams -> Forall key_wf ks -> no_ties ks ->
  nth_error ks i = Some ki -> nth_error ks j = Some kj -> key_ltb kj ki = true ->
  length ks' = length ks -> nth_error ks' i = Some kj -> nth_error ks' j = Some ki ->
  (forall q, q <> i -> q <> j -> nth_error ks' q = nth_error ks q) ->
  nth_error (rate_core k P tau limit teams (Some ks)) i = Some res ->
  nth_error (rate_core k P tau limit teams (Some ks')) i = Some res' ->
  Forall2 (fun p p' => r_mu p <= r_mu p') res res'.
Proof.
  intros G Hk Hkap Hd E Wk NT Eki Ekj Hlt E' Eki' Ekj' Ho Er Er'.
  assert (Pk : Permutation ks ks') by (eapply (swap_perm ks ks' i j ki kj); eauto).
  assert (Wk' : Forall key_wf ks') by (eapply Permutation_Forall; eauto).
  assert (K : C01L.keys_ok (length teams) (Some ks)) by (split; assumption).
  assert (K' : C01L.keys_ok (length teams) (Some ks')) by (split; [congruence|assumption]).
  destruct (rate_full_nth k P tau limit teams (Some ks) i res Hk K Er) as [r0 [E0 Hmu]].
  destruct (rate_full_nth k P tau limit teams (Some ks') i res' Hk K' Er') as [r0' [E0' Hmu']].
  set (ts := map (map (inflate tau)) teams : list team).
  assert (Lts : length ks = length ts) by (unfold ts; now rewrite map_length).
  change (game_of tau teams (Some ks)) with (combine ks ts) in *.
  change (game_of tau teams (Some ks')) with (combine ks' ts) in *.
  set (g := combine ks ts) in *.
  pose proof (wfg_combine ks ts Wk) as W. fold g in W.
  assert (Li : (i < length ks)%nat) by (apply nth_error_Some; congruence).
  assert (Lj : (j < length ks)%nat) by (apply nth_error_Some; congruence).
  destruct (nth_error ts i) as [t_i|] eqn:Eti; [|apply nth_error_None in Eti; lia].
  destruct (nth_error ts j) as [t_j|] eqn:Etj; [|apply nth_error_None in Etj; lia].
  assert (Egi : nth_error g i = Some (ki, t_i)) by (now apply OmegaL.nth_error_combine).
  assert (Egj : nth_error g j = Some (kj, t_j)) by (now apply OmegaL.nth_error_combine).
  assert (NTg : no_ties (map fst g)) by (unfold g; now rewrite combine_map_fst).
  pose proof (C01L.rank_ltb g _ _ W (nth_error_In _ _ Egj) (nth_error_In _ _ Egi)) as Hr.
  cbn [fst] in Hr. rewrite Hlt in Hr. apply Nat.ltb_lt in Hr.
  rewrite <- (relabel_swap_game ks ks' ts i j ki kj Lts Wk NT Eki Ekj Hlt E' Eki' Ekj' Ho) in E0'. fold g in E0'.
  eapply (C05RateL.Forall2_mu_rel Rle); [|exact Hmu|exact Hmu'].
  eapply (C05L.exchange Phi Phiinv k P (map (tr_of g) g) i (tr_of g (ki, t_i)) j (tr_of g (kj, t_j)) r0 r0' G Hk).
  - now apply trs_rank_nodup.
  - exact (game_trs_ss tau teams (Some ks) Hd).
  - exact Hkap.
  - apply map_nth_error. exact Egi.
  - apply map_nth_error. exact Egj.
  - exact Hr.
  - exact E0.
  - exact E0'.
Qed.

(** ** identical teams up to the identity of the players: equal mu lists and equal sigma lists.
    The team-level mu increment omega that [compute] hands to [update_team] does not read the
    member list of a team rating (only [t_mu], [t_ss], [t_rank]); so the member lists can be
    replaced by anonymous copies, on which [C05L.identical_ordered] applies. *)
Definition bare (p : rating R) : rating R := mkRating (r_mu p) (r_sigma p) 0%Z NmNone.
Definition strip (t : trating R) : trating R := mkT (t_mu t) (t_ss t) (map bare (t_team t)) (t_rank t).

Lemma mu_eq_sym l l' : mu_eq l l' -> mu_eq l' l.
Proof. unfold C05RateL.mu_eq. induction 1; constructor; auto. Qed.

Lemma update_team_strip_mu P (ti : trating R) om de de' :
  mu_eq (update_team P ti (om, de)) (update_team P (strip ti) (om, de')).
Proof.
  unfold C05RateL.mu_eq, update_team. cbn [fst snd strip t_team]. rewrite map_map.
  generalize (t_team ti) as l. induction l as [|p l IH]; cbn [map]; constructor; [reflexivity|exact IH].
Qed.

Lemma pl_c_strip P (trs : list (trating R)) : Core.pl_c P (map strip trs) = Core.pl_c P trs.
Proof.
  unfold Core.pl_c. f_equal. generalize (fzero : R) as acc. induction trs as [|t l IH]; intros acc; [reflexivity|].
  cbn [map fold_left]. rewrite IH. reflexivity.
Qed.

Lemma pl_sum_strip (trs : list (trating R)) c i ti :
  OmegaL.pl_sum (map strip trs) c i (strip ti) = OmegaL.pl_sum trs c i ti.
Proof.
  unfold OmegaL.pl_sum. rewrite map_length.
  rewrite (SpecSumL.combine_map_r strip (seq 0 (length trs)) trs), map_map.
  apply Rsum_map_ext. intros [q tq] _. unfold OmegaL.pl_tm. cbn [fst snd strip t_rank].
  change (OmegaL.pl_e c (strip ti)) with (OmegaL.pl_e c ti).
  assert (ES : OmegaL.pl_S (map strip trs) c (strip tq) = OmegaL.pl_S trs c tq).
  { unfold OmegaL.pl_S. cbn [strip t_rank]. apply C05L.Rsum_filter_map; reflexivity. }
  assert (EA : OmegaL.pl_A (map strip trs) (strip tq) = OmegaL.pl_A trs tq).
  { unfold OmegaL.pl_A. cbn [strip t_rank]. rewrite SpecSumL.filter_map_comm, map_length. reflexivity. }
  rewrite ES, EA. reflexivity.
Qed.

Lemma compute_strip_nth k P (trs : list (trating R)) i res : C05L.full_kind k ->
  nth_error (compute k P trs) i = Some res ->
  exists res', nth_error (compute k P (map strip trs)) i = Some res' /\ mu_eq res res'.
Proof.
  intros Hk Er.
  assert (Li : (i < length trs)%nat) by (rewrite <- (compute_length k P trs); apply nth_error_Some; congruence).
  destruct (nth_error trs i) as [ti|] eqn:Ei; [|apply nth_error_None in Ei; lia].
  pose proof (map_nth_error strip _ _ Ei) as Ei'.
  destruct Hk as [->|Hk].
  - destruct (OmegaL.compute_nth_pl Phi Phiinv P trs i ti Ei) as [de Ec].
    destruct (OmegaL.compute_nth_pl Phi Phiinv P _ i _ Ei') as [de' Ec'].
    rewrite Ec in Er. injection Er as <-. eexists. split; [exact Ec'|].
    rewrite pl_c_strip, pl_sum_strip. cbn [strip t_ss]. apply update_team_strip_mu.
  - assert (Hk' : k <> PL) by (destruct Hk; subst k; discriminate).
    destruct (OmegaL.compute_nth_pairs Phi Phiinv k P trs i ti Hk' Ei) as [de Ec].
    destruct (OmegaL.compute_nth_pairs Phi Phiinv k P _ i _ Hk' Ei') as [de' Ec'].
    rewrite Ec in Er. injection Er as <-. eexists. split; [exact Ec'|].
    replace (OmegaL.pair_opps k i (map strip trs)) with (map strip (OmegaL.pair_opps k i trs))
      by (destruct Hk; subst k; cbn [OmegaL.pair_opps]; symmetry; apply OmegaL.others_map).
    rewrite map_map.
    (* [pair_om] does not read [t_team]: the two sums are convertible *)
    exact (update_team_strip_mu P ti _ de de').
Qed.

Lemma map_mu_sigma_ext {B} (G : R -> R -> B) (ta tb : list (rating R)) :
  map r_mu ta = map r_mu tb -> map r_sigma ta = map r_sigma tb ->
  map (fun p => G (r_mu p) (r_sigma p)) ta = map (fun p => G (r_mu p) (r_sigma p)) tb.
Proof.
  revert tb. induction ta as [|p ta IH]; intros [|q tb] Em Es; cbn in *; try discriminate; [reflexivity|].
  injection Em as Em1 Em. injection Es as Es1 Es. rewrite Em1, Es1. f_equal. now apply IH.
Qed.

Theorem rate_identical_keys_gen k P tau limit (teams : list team) ks a b ka kb ta tb resa resb :
  C05L.gf_if_tm Phi Phiinv k -> C05L.full_kind k -> 0 < p_kappa P -> call_dom tau teams ->
  length ks = length teams -> Forall key_wf ks -> no_ties ks ->
  nth_error ks a = Some ka -> nth_error ks b = Some kb -> key_ltb ka kb = true ->
  nth_error teams a = Some ta -> nth_error teams b = Some tb ->
  map r_mu ta = map r_mu tb -> map r_sigma ta = map r_sigma tb ->
  nth_error (rate_core k P tau limit teams (Some ks)) a = Some resa ->
  nth_error (rate_core k P tau limit teams (Some ks)) b = Some resb ->
  Forall2 (fun pb pa => r_mu pb <= r_mu pa) resb resa.
Proof.
  intros G Hk Hkap Hd E Wk NT Eka Ekb Hlt Eta Etb Emu Esig Era Erb.
  assert (K : C01L.keys_ok (length teams) (Some ks)) by (split; assumption).
  destruct (rate_full_nth k P tau limit teams (Some ks) a resa Hk K Era) as [ra0 [Ea0 Hmua]].
  destruct (rate_full_nth k P tau limit teams (Some ks) b resb Hk K Erb) as [rb0 [Eb0 Hmub]].
  set (g := game_of tau teams (Some ks)) in *.
  destruct (compute_strip_nth k P _ a ra0 Hk Ea0) as [ra1 [Ea1 Hmua1]].
  destruct (compute_strip_nth k P _ b rb0 Hk Eb0) as [rb1 [Eb1 Hmub1]].
  pose proof (C01L.game_of_wfg tau teams (Some ks) K) as W. fold g in W.
  pose proof (game_nth tau teams ks a ka ta Eka Eta) as Ega. fold g in Ega.
  pose proof (game_nth tau teams ks b kb tb Ekb Etb) as Egb. fold g in Egb.
  assert (NTg : no_ties (map fst g)) by (unfold g; now rewrite game_keys).
  pose proof (C01L.rank_ltb g _ _ W (nth_error_In _ _ Ega) (nth_error_In _ _ Egb)) as Hr.
  cbn [fst] in Hr. rewrite Hlt in Hr. apply Nat.ltb_lt in Hr.
  eapply (C05RateL.Forall2_mu_rel Rle); [|exact Hmub|exact Hmua].
  eapply (C05RateL.Forall2_mu_rel Rle); [|apply mu_eq_sym; exact Hmub1|apply mu_eq_sym; exact Hmua1].
  eapply (C05L.identical_ordered Phi Phiinv k P (map strip (map (tr_of g) g)) a _ b _ ra1 rb1 G Hk).
  - rewrite map_map. change (map (fun x : trating R => t_rank (strip x)) (map (tr_of g) g)) with (map t_rank (map (tr_of g) g)).
    now apply trs_rank_nodup.
  - rewrite Forall_map. pose proof (game_trs_ss tau teams (Some ks) Hd) as F. fold g in F.
    revert F. apply Forall_impl. intros t Ht. exact Ht.
  - exact Hkap.
  - apply map_nth_error. apply map_nth_error. exact Ega.
  - apply map_nth_error. apply map_nth_error. exact Egb.
  - cbn [strip t_mu C01L.tr_of team_rating snd]. f_equal. rewrite !map_map.
    apply (map_mu_sigma_ext (fun m _ => m)); assumption.
  - cbn [strip t_ss C01L.tr_of team_rating snd]. f_equal. rewrite !map_map.
    apply (map_mu_sigma_ext (fun m s => fpow2 (r_sigma (inflate tau (mkRating m s 0%Z NmNone))))); assumption.
  - cbn [strip t_team C01L.tr_of team_rating snd]. rewrite !map_map.
    apply (map_mu_sigma_ext (fun m s => bare (inflate tau (mkRating m s 0%Z NmNone)))); assumption.
  - exact Hr.
  - exact Ea1.
  - exact Eb1.
Qed.
End C05Lift.

(** * C05LiftL: exchanging places / identical teams, lifted to [rate_core] with explicit rank keys.

    For Plackett-Luce and the full-pairing models the result of [rate_sorted] is [compute] on
    the team ratings of the caller's game IN INPUT ORDER, each with its dense rank
    ([C01L.rate_sorted_val] and [C01L.compute_full_val]: both sides are the closed form
    [post_val] of C01).  So the compute-level theorems [C05L.exchange] and
    [C05L.identical_ordered] apply to the list [map (tr_of g) g], [g] the game of the call;
    exchanging the keys of two positions relabels the dense ranks by the transposition
    [C05L.sw] when no two keys are tied. *)
From Coq Require Import List ZArith Bool Arith Reals Lra Lia Permutation FinFun.
From OSV Require Import Num Order Gauss Core RInst Spec.
From OSV.Lemmas Require Import OrderL OrderL2 RateL.
From OSV.Lemmas Require OmegaL C05L C05RateL C01L.
Import ListNotations.
Open Scope R_scope.

(** ** a list with two entries exchanged is a permutation of the list *)
Lemma swap_perm {A} (l l' : list A) i j x y :
  length l' = length l -> nth_error l i = Some x -> nth_error l j = Some y ->
  nth_error l' i = Some y -> nth_error l' j = Some x ->
  (forall q, q <> i -> q <> j -> nth_error l' q = nth_error l q) -> Permutation l l'.
Proof.
  intros L Ei Ej Ei' Ej' Ho.
  assert (Li : (i < length l)%nat) by (apply nth_error_Some; congruence).
  assert (Lj : (j < length l)%nat) by (apply nth_error_Some; congruence).
  apply (Permutation_nth l l' x). split; [exact L|].
  exists (fun q => if Nat.eqb q i then j else if Nat.eqb q j then i else q). split; [|split].
  - intros q Hq. destruct (Nat.eqb q i); [exact Lj|]. destruct (Nat.eqb q j); [exact Li|exact Hq].
  - intros p q _ _. destruct (Nat.eqb_spec p i), (Nat.eqb_spec p j), (Nat.eqb_spec q i), (Nat.eqb_spec q j); lia.
  - intros q Hq. destruct (Nat.eqb_spec q i) as [->|Ni]; [|destruct (Nat.eqb_spec q j) as [->|Nj]].
    + now rewrite (nth_error_nth _ _ x Ei'), (nth_error_nth _ _ x Ej).
    + now rewrite (nth_error_nth _ _ x Ej'), (nth_error_nth _ _ x Ei).
    + specialize (Ho q Ni Nj). destruct (nth_error l q) as [z|] eqn:Ez; [|apply nth_error_None in Ez; lia].
      now rewrite (nth_error_nth _ _ x Ho), (nth_error_nth _ _ x Ez).
Qed.

Section C05Lift.
Variables Phi Phiinv : R -> R.
Local Hint Extern 0 (Num R) => exact (RInst.RN Phi Phiinv) : typeclass_instances.

Notation tr_of := (C01L.tr_of Phi Phiinv).
Notation mu_eq := C05RateL.mu_eq.

Definition call_dom (tau : R) (teams : list team) : Prop :=
  Forall (fun t => t <> [] /\ Forall (fun p => 0 < r_sigma p * r_sigma p + tau * tau) t) teams.
(** no two positions carry equal rank values *)
Definition no_ties (ks : list key) : Prop :=
  forall a b ka kb, a <> b -> nth_error ks a = Some ka -> nth_error ks b = Some kb ->
    key_leb ka kb && key_leb kb ka = false.

(** ** [rate_sorted] is [compute] on the caller's game in input order (full kinds) *)
Lemma rate_sorted_compute k P tau (teams : list team) keys :
  C01L.full_kind k -> C01L.keys_ok (length teams) keys ->
  rate_sorted k P (map (map (inflate tau)) teams) keys
  = compute k P (map (tr_of (game_of tau teams keys)) (game_of tau teams keys)).
Proof.
  intros Hk K.
  etransitivity.
  - exact (C01L.rate_sorted_val Phi Phiinv k P
             (fun g sg => C01L.compute_full_val Phi Phiinv k P g sg Hk) tau teams keys K).
  - symmetry. apply (C01L.compute_full_val Phi Phiinv k P); [exact Hk| |reflexivity].
    now apply C01L.game_of_wfg.
Qed.

Lemma rate_full_nth k P tau limit (teams : list team) keys i res :
  C01L.full_kind k -> C01L.keys_ok (length teams) keys ->
  nth_error (rate_core k P tau limit teams keys) i = Some res ->
  exists res0,
    nth_error (compute k P (map (tr_of (game_of tau teams keys)) (game_of tau teams keys))) i = Some res0
    /\ mu_eq res0 res.
Proof.
  intros Hk K Er.
  assert (L : match keys with Some ks => length ks = length teams | None => True end)
    by (destruct keys; [exact (proj1 K)|exact I]).
  pose proof (C05RateL.rate_sorted_lengths Phi Phiinv k P tau teams keys L) as Hlen.
  pose proof (C05RateL.rate_core_mu_eq Phi Phiinv k P tau limit teams keys Hlen) as Hmu.
  rewrite (rate_sorted_compute k P tau teams keys Hk K) in Hmu.
  destruct (nth_error (compute k P (map (tr_of (game_of tau teams keys)) (game_of tau teams keys))) i) as [res0|] eqn:E0.
  - exists res0. split; [reflexivity|]. eapply C05RateL.Forall2_nth; eauto.
  - exfalso. apply nth_error_None in E0. apply Forall2_length' in Hmu.
    assert (i < length (rate_core k P tau limit teams keys))%nat by (apply nth_error_Some; congruence). lia.
Qed.

(** ** the game of a call with explicit keys, position by position *)
Lemma game_nth tau (teams : list team) ks i ki t :
  nth_error ks i = Some ki -> nth_error teams i = Some t ->
  nth_error (game_of tau teams (Some ks)) i = Some (ki, map (inflate tau) t).
Proof.
  intros Ek Et. unfold game_of. cbn [keys_of].
  apply OmegaL.nth_error_combine; [exact Ek|]. exact (map_nth_error (map (inflate tau)) _ _ Et).
Qed.
Lemma game_keys tau (teams : list team) ks : length ks = length teams ->
  map fst (game_of tau teams (Some ks)) = ks.
Proof. intros E. unfold game_of. cbn [keys_of]. apply combine_map_fst. now rewrite map_length. Qed.

Lemma game_trs_ss tau (teams : list team) keys : call_dom tau teams ->
  Forall (fun t => 0 < t_ss t) (map (tr_of (game_of tau teams keys)) (game_of tau teams keys)).
Proof.
  intros Hd. rewrite Forall_map, Forall_forall. intros [k t'] Hin.
  unfold game_of in Hin. apply in_combine_r in Hin. apply in_map_iff in Hin. destruct Hin as [t [<- Ht]].
  unfold call_dom in Hd. rewrite Forall_forall in Hd. destruct (Hd t Ht) as [Hne Hp].
  exact (C05RateL.team_ss_pos Phi Phiinv tau t _ Hne Hp).
Qed.

Lemma trs_rank_nodup (g : game) : C01L.wfg g -> no_ties (map fst g) ->
  NoDup (map t_rank (map (tr_of g) g)).
Proof.
  intros W NT. rewrite map_map. apply NoDup_nth_error. intros i j Hi E.
  rewrite map_length in Hi. rewrite !nth_error_map in E.
  destruct (nth_error g i) as [ei|] eqn:Ei; [|apply nth_error_None in Ei; lia].
  destruct (nth_error g j) as [ej|] eqn:Ej; [|discriminate]. cbn [option_map] in E.
  destruct (Nat.eq_dec i j) as [|Hne]; [assumption|exfalso].
  assert (Er : rank_of g (fst ei) = rank_of g (fst ej)) by (injection E as E; exact E).
  pose proof (C01L.rank_eqb g ei ej W (nth_error_In _ _ Ei) (nth_error_In _ _ Ej)) as Q.
  rewrite Er, Nat.eqb_refl in Q. unfold key_eqb in Q.
  rewrite (NT i j (fst ei) (fst ej) Hne (map_nth_error fst _ _ Ei) (map_nth_error fst _ _ Ej)) in Q.
  discriminate.
Qed.

(** ** identical teams, explicit keys without ties *)
Theorem rate_identical_keys k P tau limit (teams : list team) ks a b ka kb t resa resb :
  C05L.gf_if_tm Phi Phiinv k -> C05L.full_kind k -> 0 < p_kappa P -> call_dom tau teams ->
  length ks = length teams -> Forall key_wf ks -> no_ties ks ->
  nth_error ks a = Some ka -> nth_error ks b = Some kb -> key_ltb ka kb = true ->
  nth_error teams a = Some t -> nth_error teams b = Some t ->
  nth_error (rate_core k P tau limit teams (Some ks)) a = Some resa ->
  nth_error (rate_core k P tau limit teams (Some ks)) b = Some resb ->
  Forall2 (fun pb pa => r_mu pb <= r_mu pa) resb resa.
Proof.
  intros G Hk Hkap Hd E Wk NT Eka Ekb Hlt Eta Etb Era Erb.
  assert (K : C01L.keys_ok (length teams) (Some ks)) by (split; assumption).
  destruct (rate_full_nth k P tau limit teams (Some ks) a resa Hk K Era) as [ra0 [Ea0 Hmua]].
  destruct (rate_full_nth k P tau limit teams (Some ks) b resb Hk K Erb) as [rb0 [Eb0 Hmub]].
  set (g := game_of tau teams (Some ks)) in *.
  pose proof (C01L.game_of_wfg tau teams (Some ks) K) as W. fold g in W.
  pose proof (game_nth tau teams ks a ka t Eka Eta) as Ega. fold g in Ega.
  pose proof (game_nth tau teams ks b kb t Ekb Etb) as Egb. fold g in Egb.
  assert (NTg : no_ties (map fst g)) by (unfold g; now rewrite game_keys).
  pose proof (C01L.rank_ltb g _ _ W (nth_error_In _ _ Ega) (nth_error_In _ _ Egb)) as Hr.
  cbn [fst] in Hr. rewrite Hlt in Hr. apply Nat.ltb_lt in Hr.
  eapply (C05RateL.Forall2_mu_rel Rle); [|exact Hmub|exact Hmua].
  eapply (C05L.identical_ordered Phi Phiinv k P (map (tr_of g) g) a _ b _ ra0 rb0 G Hk).
  - now apply trs_rank_nodup.
  - now apply game_trs_ss.
  - exact Hkap.
  - apply map_nth_error. exact Ega.
  - apply map_nth_error. exact Egb.
  - reflexivity.
  - reflexivity.
  - reflexivity.
  - exact Hr.
  - exact Ea0.
  - exact Eb0.
Qed.
End C05Lift.

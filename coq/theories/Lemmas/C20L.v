(** * C20L: building, copying, storing and restoring ratings. *)
From Coq Require Import List ZArith Bool Arith Lia.
From OSV Require Import Num Order Gauss Core Predict PyVal Prog RatingOps.
From OSV.Lemmas Require Import RelabelL.
Import ListNotations.

Section C20.
Context {F : Type} {N : Num F}.

(** ** constructors *)
Lemma model_rating_all (st : mstate F) mu sigma nm fresh :
  model_rating st (Some mu) (Some sigma) nm fresh = mkRating mu sigma fresh nm /\
  model_rating st None (Some sigma) nm fresh = mkRating (m_mu st) sigma fresh nm /\
  model_rating st (Some mu) None nm fresh = mkRating mu (m_sigma st) fresh nm /\
  model_rating st None None nm fresh = mkRating (m_mu st) (m_sigma st) fresh nm.
Proof. repeat split; reflexivity. Qed.

Lemma model_rating_fields (st : mstate F) mu sigma nm fresh :
  r_mu (model_rating st mu sigma nm fresh) = match mu with Some x => x | None => m_mu st end /\
  r_sigma (model_rating st mu sigma nm fresh)
    = match sigma with Some x => x | None => m_sigma st end /\
  r_name (model_rating st mu sigma nm fresh) = nm /\
  r_id (model_rating st mu sigma nm fresh) = fresh.
Proof. repeat split; reflexivity. Qed.

Lemma create_rating_ok k (a b : pyval F) x y nm fresh :
  as_float a = Ok x -> as_float b = Ok y ->
  create_rating k (PList [a; b]) nm fresh = Ok (mkRating x y fresh nm).
Proof. intros Ha Hb. cbn [create_rating]. rewrite Ha, Hb. reflexivity. Qed.

Lemma create_rating_bad_elem k (a b : pyval F) nm fresh :
  (exists e, as_float a = Raise e) \/ (exists e, as_float b = Raise e) ->
  create_rating k (PList [a; b]) nm fresh = Raise ValueError.
Proof.
  intros [[e Ha]|[e Hb]]; cbn [create_rating].
  - rewrite Ha. reflexivity.
  - rewrite Hb. destruct (as_float a); reflexivity.
Qed.

Lemma create_rating_bad_shape k (v : pyval F) nm fresh :
  (forall a b, v <> PList [a; b]) -> create_rating k v nm fresh = Raise TypeError.
Proof.
  intros Hv. destruct v as [| | | | |l| | |]; try reflexivity.
  destruct l as [|a [|b [|c l]]]; try reflexivity.
  exfalso. apply (Hv a b). reflexivity.
Qed.

(** what is numeric: exactly bool, int, float *)
Lemma as_float_cases (v : pyval F) :
  match v with
  | PBool b => as_float v = Ok (fofZ (if b then 1 else 0)%Z)
  | PInt z => as_float v = Ok (fofZ z)
  | PFloat x _ _ => as_float v = Ok x
  | _ => as_float v = Raise TypeError
  end.
Proof. destruct v; reflexivity. Qed.

(** ** deepcopy *)
Lemma deepcopy_id (r : rating F) fresh : deepcopy r fresh = r.
Proof. destruct r; reflexivity. Qed.

Lemma deepcopy_fields (r : rating F) fresh :
  r_mu (deepcopy r fresh) = r_mu r /\ r_sigma (deepcopy r fresh) = r_sigma r /\
  r_name (deepcopy r fresh) = r_name r /\ r_id (deepcopy r fresh) = r_id r.
Proof. repeat split; reflexivity. Qed.

Lemma deepcopy_nested (fresh : rating F -> Z) (teams : list (list (rating F))) :
  map (map (fun r => deepcopy r (fresh r))) teams = teams.
Proof.
  rewrite <- (map_id teams) at 2. apply map_ext. intros t.
  rewrite <- (map_id t) at 2. apply map_ext. intros r. apply deepcopy_id.
Qed.

(** ** rebuilding from stored numbers *)
Definition rebuild (fresh : rating F -> Z) (r : rating F) : rating F :=
  new_rating (r_mu r) (r_sigma r) NmNone (fresh r).

Lemma ms_rebuild fresh r : ms (rebuild fresh r) = ms r.
Proof. reflexivity. Qed.
Lemma map_ms_rebuild fresh l : map ms (map (rebuild fresh) l) = map ms l.
Proof. rewrite map_map. apply map_ext. intros; apply ms_rebuild. Qed.
Lemma nums_rebuild fresh teams : nums (map (map (rebuild fresh)) teams) = nums teams.
Proof. unfold nums. rewrite map_map. apply map_ext. intros; apply map_ms_rebuild. Qed.

Theorem rebuild_rate k P tau lim teams keys fresh :
  gamma_values_only P ->
  nums (rate_core k P tau lim (map (map (rebuild fresh)) teams) keys)
  = nums (rate_core k P tau lim teams keys).
Proof. intros HP. apply rate_core_values_only; [exact HP|apply nums_rebuild]. Qed.

Theorem rebuild_predict beta teams fresh :
  predict_win beta (map (map (rebuild fresh)) teams) = predict_win beta teams /\
  predict_draw beta (map (map (rebuild fresh)) teams) = predict_draw beta teams /\
  predict_rank beta (map (map (rebuild fresh)) teams) = predict_rank beta teams.
Proof.
  split; [|split].
  - apply predict_win_values_only, nums_rebuild.
  - apply predict_draw_values_only, nums_rebuild.
  - apply predict_rank_values_only, nums_rebuild.
Qed.

(** ** leagues: games played in sequence, results fed back *)
Definition dflt : rating F := mkRating fzero fzero 0%Z NmNone.

Fixpoint upd (i : nat) (x : rating F) (st : list (rating F)) {struct st} : list (rating F) :=
  match st with
  | [] => []
  | y :: ys => match i with O => x :: ys | S i' => y :: upd i' x ys end
  end.

(** a game: the player indices of each team, rank keys, tau, limit_sigma *)
Record game := mkGame {
  g_teams : list (list nat); g_keys : option (list key); g_tau : F; g_lim : bool }.

Definition fetch (st : list (rating F)) (idx : list (list nat)) : list (list (rating F)) :=
  map (map (fun i => nth i st dflt)) idx.

Definition pairs (idx : list (list nat)) (res : list (list (rating F))) : list (nat * rating F) :=
  flat_map (fun p => combine (fst p) (snd p)) (combine idx res).

Definition write_back (idx : list (list nat)) (res : list (list (rating F)))
           (st : list (rating F)) : list (rating F) :=
  fold_left (fun s ir => upd (fst ir) (snd ir) s) (pairs idx res) st.

Definition play (k : kind) (P : params F) (st : list (rating F)) (g : game) : list (rating F) :=
  write_back (g_teams g)
    (rate_core k P (g_tau g) (g_lim g) (fetch st (g_teams g)) (g_keys g)) st.

Definition league (k : kind) (P : params F) (games : list game) (st : list (rating F)) :=
  fold_left (play k P) games st.

(** the same league, where before each game the whole table may be rebuilt from
    its stored numbers (new ids, names dropped) *)
Definition maybe_rebuild (o : option (rating F -> Z)) (st : list (rating F)) :=
  match o with Some fresh => map (rebuild fresh) st | None => st end.
Definition league_rb (k : kind) (P : params F)
           (games : list (option (rating F -> Z) * game)) (st : list (rating F)) :=
  fold_left (fun s og => play k P (maybe_rebuild (fst og) s) (snd og)) games st.

Lemma upd_map (g : rating F -> rating F) i x st : upd i (g x) (map g st) = map g (upd i x st).
Proof.
  revert i; induction st as [|y ys IH]; intros i; cbn [upd map]; [reflexivity|].
  destruct i; cbn [map]; [reflexivity|]. rewrite IH. reflexivity.
Qed.

Lemma pairs_map (g : rating F -> rating F) idx res :
  pairs idx (map (map g) res) = map (fun ir => (fst ir, g (snd ir))) (pairs idx res).
Proof.
  unfold pairs. rewrite combine_map_r, flat_map_map.
  generalize (combine idx res). intros l.
  induction l as [|[ti tr] xs IH]; [reflexivity|].
  cbn [flat_map map fst snd] in *. rewrite map_app, <- IH, combine_map_r. reflexivity.
Qed.

Lemma write_back_map (g : rating F -> rating F) idx res st :
  write_back idx (map (map g) res) (map g st) = map g (write_back idx res st).
Proof.
  unfold write_back. rewrite pairs_map.
  generalize (pairs idx res). intros l. revert st.
  induction l as [|[i x] xs IH]; intros st; cbn [map fold_left]; [reflexivity|].
  cbn [fst snd]. rewrite upd_map. apply IH.
Qed.

Lemma fetch_erase st idx : fetch (map erase st) idx = map (map erase) (fetch st idx).
Proof.
  unfold fetch. rewrite map_map. apply map_ext. intros t. rewrite map_map. apply map_ext.
  intros i. change dflt with (erase dflt) at 1. apply map_nth.
Qed.

Lemma play_erase k P st g : gamma_values_only P ->
  play k P (map erase st) g = map erase (play k P st g).
Proof.
  intros HP. unfold play. rewrite fetch_erase.
  rewrite (rate_core_g erase erase_mu erase_sigma erase_set P (gamma_erase P HP)).
  apply write_back_map.
Qed.

Lemma play_values_only k P st st' g : gamma_values_only P ->
  map ms st = map ms st' -> map ms (play k P st g) = map ms (play k P st' g).
Proof.
  intros HP E.
  rewrite <- (map_ms_erase (play k P st g)), <- (map_ms_erase (play k P st' g)).
  rewrite <- !play_erase by exact HP. rewrite (erase_of_map_ms _ _ E). reflexivity.
Qed.

Theorem league_values_only k P games st st' : gamma_values_only P ->
  map ms st = map ms st' -> map ms (league k P games st) = map ms (league k P games st').
Proof.
  intros HP. revert st st'. induction games as [|g gs IH]; intros st st' E; [exact E|].
  cbn [league fold_left]. apply IH. apply play_values_only; assumption.
Qed.

Lemma map_ms_maybe_rebuild o st : map ms (maybe_rebuild o st) = map ms st.
Proof. destruct o; [apply map_ms_rebuild|reflexivity]. Qed.

Theorem league_rebuild_gen k P games st st' : gamma_values_only P ->
  map ms st = map ms st' ->
  map ms (league_rb k P games st) = map ms (league k P (map snd games) st').
Proof.
  intros HP. revert st st'. induction games as [|[o g] gs IH]; intros st st' E; [exact E|].
  cbn [league_rb league fold_left map fst snd]. apply IH.
  apply play_values_only; [exact HP|]. rewrite map_ms_maybe_rebuild. exact E.
Qed.

Theorem league_rebuild k P games st : gamma_values_only P ->
  map ms (league_rb k P games st) = map ms (league k P (map snd games) st).
Proof. intros HP. apply league_rebuild_gen; [exact HP|reflexivity]. Qed.
End C20.

(** ** the same at the level of the whole [rate] / [predict_*] calls:
    validation, attribute reads, the writes to the rating objects, the result *)
Definition res_map {A B} (f : A -> B) (r : res A) : res B :=
  match r with Ok a => Ok (f a) | Raise e => Raise e end.

Lemma mapM_map_res {A A' B B'} (f' : A' -> res B') (f : A -> res B) (h : A -> A') (g : B -> B')
  (E : forall x, f' (h x) = res_map g (f x)) l :
  mapM f' (map h l) = res_map (map g) (mapM f l).
Proof.
  induction l as [|x xs IH]; cbn [map mapM]; [reflexivity|]. rewrite E, IH.
  destruct (f x) as [y|e]; cbn [res_map rbind]; [|reflexivity].
  destruct (mapM f xs) as [ys|e]; reflexivity.
Qed.

Section C20Prog.
Context {F : Type} {N : Num F}.

(** rebuild every rating object inside a Python value *)
Fixpoint rebuild_val (fresh : rating F -> Z) (v : pyval F) : pyval F :=
  match v with
  | PList l => PList (map (rebuild_val fresh) l)
  | PTuple l => PTuple (map (rebuild_val fresh) l)
  | PRating k r => PRating k (rebuild fresh r)
  | x => x
  end.

Variable fresh : rating F -> Z.

Lemma check_player_rebuild k p :
  check_player k (rebuild_val fresh p) = res_map (rebuild fresh) (check_player k p).
Proof.
  destruct p as [| | | | | | |k' r|]; try reflexivity.
  cbn [rebuild_val check_player]. destruct (kind_eqb k k'); reflexivity.
Qed.

Lemma check_team_rebuild k t :
  check_team k (rebuild_val fresh t) = res_map (map (rebuild fresh)) (check_team k t).
Proof.
  destruct t as [| | | | |l| | |]; try reflexivity.
  cbn [rebuild_val]. destruct l as [|p ps]; [reflexivity|].
  change (map (rebuild_val fresh) (p :: ps))
    with (rebuild_val fresh p :: map (rebuild_val fresh) ps).
  unfold check_team.
  change (rebuild_val fresh p :: map (rebuild_val fresh) ps)
    with (map (rebuild_val fresh) (p :: ps)).
  apply mapM_map_res. intros x. apply check_player_rebuild.
Qed.

Lemma check_teams_rebuild k v :
  check_teams k (rebuild_val fresh v) = res_map (map (map (rebuild fresh))) (check_teams k v).
Proof.
  destruct v as [| | | | |l| | |]; try reflexivity.
  cbn [rebuild_val check_teams]. rewrite map_length.
  destruct (Nat.ltb (length l) 2); [reflexivity|].
  apply mapM_map_res. intros x. apply check_team_rebuild.
Qed.

Lemma validate_rate_rebuild k teams ranks scores :
  validate_rate k (rebuild_val fresh teams) ranks scores
  = res_map (fun tk => (map (map (rebuild fresh)) (fst tk), snd tk))
            (validate_rate k teams ranks scores).
Proof.
  unfold validate_rate. rewrite check_teams_rebuild.
  destruct (check_teams k teams) as [tms|e]; cbn [res_map rbind]; [|reflexivity].
  rewrite map_length.
  destruct (if truthy ranks then _ else _) as [rk|e]; cbn [res_map rbind]; [|reflexivity].
  destruct (if truthy scores then _ else _) as [sc|e]; cbn [res_map rbind]; reflexivity.
Qed.

(** predictions: the very same run *)
Lemma predict_prog_rebuild {A} (fn : F -> list (list (rating F)) -> A)
  (Hfn : forall beta t t', nums t = nums t' -> fn beta t = fn beta t') k teams st :
  run (predict_prog fn k (rebuild_val fresh teams)) st = run (predict_prog fn k teams) st.
Proof.
  unfold predict_prog. rewrite check_teams_rebuild.
  destruct (check_teams k teams) as [tms|e]; cbn [res_map lift bind run]; [|reflexivity].
  rewrite (Hfn _ (map (map (rebuild fresh)) tms) tms (nums_rebuild fresh tms)). reflexivity.
Qed.

Lemma predict_runs_rebuild k teams st :
  run (predict_win_prog k (rebuild_val fresh teams)) st = run (predict_win_prog k teams) st /\
  run (predict_draw_prog k (rebuild_val fresh teams)) st = run (predict_draw_prog k teams) st /\
  run (predict_rank_prog k (rebuild_val fresh teams)) st = run (predict_rank_prog k teams) st.
Proof.
  split; [|split].
  - apply (predict_prog_rebuild predict_win predict_win_values_only).
  - apply (predict_prog_rebuild predict_draw predict_draw_values_only).
  - apply (predict_prog_rebuild predict_rank predict_rank_values_only).
Qed.

(** [rate]: same trace (reads and the numbers written into the rating
    objects), same final model state, results with the same numbers / same
    exception *)
Definition outcome := (list (event F) * mstate F * res (list (list (rating F))))%type.
Definition same_outcome (r r' : outcome) : Prop :=
  fst r = fst r' /\
  match snd r, snd r' with
  | Ok a, Ok b => nums a = nums b
  | Raise e, Raise e' => e = e'
  | _, _ => False
  end.

Lemma so_app (l : list (event F)) (r r' : outcome) : same_outcome r r' ->
  same_outcome (l ++ fst (fst r), snd (fst r), snd r) (l ++ fst (fst r'), snd (fst r'), snd r').
Proof. intros [E1 E2]. split; cbn [fst snd]; [rewrite E1; reflexivity|exact E2]. Qed.
Lemma so_cons (e : event F) (r r' : outcome) : same_outcome r r' ->
  same_outcome (e :: fst (fst r), snd (fst r), snd r) (e :: fst (fst r'), snd (fst r'), snd r').
Proof. apply (so_app [e]). Qed.

Definition sig_ev (l : list (nat * nat * rating F)) : list (event F) :=
  map (fun x => EMutSigma (fst (fst x)) (snd (fst x)) (r_sigma (snd x))) l.
Definition both_ev (l : list (nat * nat * rating F)) : list (event F) :=
  flat_map (fun x => [EMutMu (fst (fst x)) (snd (fst x)) (r_mu (snd x));
                      EMutSigma (fst (fst x)) (snd (fst x)) (r_sigma (snd x))]) l.

Lemma run_mut_sigmas {A} l (K : prog F A) st :
  run (mut_sigmas l K) st
  = (sig_ev l ++ fst (fst (run K st)), snd (fst (run K st)), snd (run K st)).
Proof.
  induction l as [|[[i j] r] xs IH]; cbn [mut_sigmas run sig_ev map app].
  - destruct (run K st) as [[a b] c]. reflexivity.
  - rewrite IH. reflexivity.
Qed.

Lemma run_mut_both {A} l (K : prog F A) st :
  run (mut_both l K) st
  = (both_ev l ++ fst (fst (run K st)), snd (fst (run K st)), snd (run K st)).
Proof.
  induction l as [|[[i j] r] xs IH]; cbn [mut_both run both_ev flat_map app].
  - destruct (run K st) as [[a b] c]. reflexivity.
  - rewrite IH. reflexivity.
Qed.

Lemma indexed_map (g : rating F -> rating F) t :
  indexed (map (map g) t) = map (fun x => (fst x, g (snd x))) (indexed t).
Proof.
  unfold indexed. rewrite map_length, combine_map_r, flat_map_map.
  generalize (combine (seq 0 (length t)) t). intros l.
  induction l as [|[i tm] xs IH]; [reflexivity|].
  cbn [flat_map map fst snd] in *. rewrite map_app, <- IH. f_equal.
  rewrite map_length, combine_map_r, !map_map. reflexivity.
Qed.

Lemma sig_ev_erase t : sig_ev (indexed (map (map erase) t)) = sig_ev (indexed t).
Proof. unfold sig_ev. rewrite indexed_map, map_map. reflexivity. Qed.
Lemma both_ev_erase t : both_ev (indexed (map (map erase) t)) = both_ev (indexed t).
Proof. unfold both_ev. rewrite indexed_map, flat_map_map. reflexivity. Qed.

Lemma sig_ev_nums t t' : nums t = nums t' -> sig_ev (indexed t) = sig_ev (indexed t').
Proof. intros E. rewrite <- (sig_ev_erase t), <- (sig_ev_erase t'), (erase_of_nums _ _ E). reflexivity. Qed.
Lemma both_ev_nums t t' : nums t = nums t' -> both_ev (indexed t) = both_ev (indexed t').
Proof. intros E. rewrite <- (both_ev_erase t), <- (both_ev_erase t'), (erase_of_nums _ _ E). reflexivity. Qed.

Lemma inflate_nums tau t t' :
  nums t = nums t' -> nums (map (map (inflate tau)) t) = nums (map (map (inflate tau)) t').
Proof.
  intros E.
  assert (X : forall u, nums (map (map (inflate tau)) u)
                        = nums (map (map (inflate tau)) (map (map erase) u))).
  { intros u. unfold nums. rewrite !map_map. apply map_ext. intros l. rewrite !map_map.
    apply map_ext. intros r. reflexivity. }
  rewrite (X t), (X t'), (erase_of_nums _ _ E). reflexivity.
Qed.

Lemma clamp_nums o o' r r' :
  nums o = nums o' -> nums r = nums r' -> nums (clamp o r) = nums (clamp o' r').
Proof.
  intros Eo Er.
  rewrite <- (nums_erase (clamp o r)), <- (nums_erase (clamp o' r')).
  rewrite <- !(clamp_g erase erase_mu erase_sigma erase_set).
  rewrite (erase_of_nums _ _ Eo), (erase_of_nums _ _ Er). reflexivity.
Qed.

(** [rate_prog] after validation, cut in two at the tau read *)
Definition rate_body (k : kind) (tms : list (list (rating F))) (keys : option (list key))
           (t : F) (limit : pyval F) : prog F (list (list (rating F))) :=
  let infl := map (map (inflate t)) tms in
  mut_sigmas (indexed infl) (
  RdF ABeta (fun beta => RdF AKappa (fun kappa => RdGamma (fun g =>
  let res := rate_sorted k (mkParams beta kappa g) infl keys in
  mut_both (indexed res) (
  bind (match limit with PNone => RdLimit Ret | v => Ret (truthy v) end) (fun lim =>
  if lim then let res' := clamp tms res in mut_sigmas (indexed res') (Ret res')
  else Ret res)))))).

Definition tau_prog (tau : pyval F) : prog F F :=
  match tau with PNone => RdF ATau Ret | v => lift (as_float v) end.

Lemma rate_prog_unfold k teams ranks scores tau limit :
  rate_prog k teams ranks scores tau limit
  = bind (lift (validate_rate k teams ranks scores)) (fun tk =>
      bind (tau_prog tau) (fun t => rate_body k (fst tk) (snd tk) t limit)).
Proof. reflexivity. Qed.

Definition tau_val (st : mstate F) (tau : pyval F) : res F :=
  match tau with PNone => Ok (m_tau st) | v => as_float v end.
Definition tau_ev (tau : pyval F) : list (event F) :=
  match tau with PNone => [ERdF ATau] | _ => [] end.

Lemma run_tau {A} tau (f : F -> prog F A) st :
  run (bind (tau_prog tau) f) st
  = match tau_val st tau with
    | Ok t => (tau_ev tau ++ fst (fst (run (f t) st)), snd (fst (run (f t) st)), snd (run (f t) st))
    | Raise e => ([], st, Raise e)
    end.
Proof.
  destruct tau; cbn [tau_prog tau_val tau_ev as_float lift bind run get_f app]; try reflexivity;
    match goal with |- context [run ?p st] => destruct (run p st) as [[tr0 st0] r0] end; reflexivity.
Qed.

Definition lim_val (st : mstate F) (limit : pyval F) : bool :=
  match limit with PNone => m_limit st | v => truthy v end.
Definition lim_ev (limit : pyval F) : list (event F) :=
  match limit with PNone => [ERdLimit] | _ => [] end.

Lemma run_lim {A} limit (f : bool -> prog F A) st :
  run (bind (match limit with PNone => RdLimit Ret | v => Ret (truthy v) end) f) st
  = (lim_ev limit ++ fst (fst (run (f (lim_val st limit)) st)),
     snd (fst (run (f (lim_val st limit)) st)), snd (run (f (lim_val st limit)) st)).
Proof.
  destruct limit; cbn [lim_val lim_ev bind run app];
    match goal with |- context [run ?p st] => destruct (run p st) as [[tr0 st0] r0] end; reflexivity.
Qed.

Definition gamma_state_values_only (st : mstate F) : Prop :=
  forall c n mu ss (t1 t2 : list (rating F)) rank,
    map ms t1 = map ms t2 -> m_gamma st c n mu ss t1 rank = m_gamma st c n mu ss t2 rank.

Lemma rate_body_values_only k tms tms' keys t limit st :
  gamma_state_values_only st -> nums tms = nums tms' ->
  same_outcome (run (rate_body k tms keys t limit) st) (run (rate_body k tms' keys t limit) st).
Proof.
  intros Hg E. unfold rate_body. cbv zeta.
  pose proof (inflate_nums t _ _ E) as Ei.
  rewrite !run_mut_sigmas, (sig_ev_nums _ _ Ei). apply so_app.
  cbn [run]. do 3 apply so_cons.
  assert (Er : nums (rate_sorted k (mkParams (get_f st ABeta) (get_f st AKappa) (m_gamma st))
                                 (map (map (inflate t)) tms) keys)
             = nums (rate_sorted k (mkParams (get_f st ABeta) (get_f st AKappa) (m_gamma st))
                                 (map (map (inflate t)) tms') keys)).
  { apply rate_sorted_values_only; [exact Hg|exact Ei]. }
  rewrite !run_mut_both, (both_ev_nums _ _ Er). apply so_app.
  rewrite !run_lim. apply so_app.
  destruct (lim_val st limit).
  - pose proof (clamp_nums _ _ _ _ E Er) as Ec.
    rewrite !run_mut_sigmas, (sig_ev_nums _ _ Ec). apply so_app.
    cbn [run]. split; [reflexivity|exact Ec].
  - cbn [run]. split; [reflexivity|exact Er].
Qed.

Theorem rate_prog_values_only k (teams teams' ranks scores tau limit : pyval F) st :
  gamma_state_values_only st ->
  (match validate_rate k teams ranks scores, validate_rate k teams' ranks scores with
   | Ok a, Ok b => nums (fst a) = nums (fst b) /\ snd a = snd b
   | Raise e, Raise e' => e = e'
   | _, _ => False end) ->
  same_outcome (run (rate_prog k teams ranks scores tau limit) st)
               (run (rate_prog k teams' ranks scores tau limit) st).
Proof.
  intros Hg V. rewrite !rate_prog_unfold.
  destruct (validate_rate k teams ranks scores) as [[tms keys]|e];
    destruct (validate_rate k teams' ranks scores) as [[tms' keys']|e']; try contradiction.
  - cbn [fst snd] in V. destruct V as [E ->]. cbn [lift bind fst snd].
    rewrite !run_tau. destruct (tau_val st tau) as [t|e]; [|split; reflexivity].
    apply so_app. apply rate_body_values_only; assumption.
  - subst e'. split; reflexivity.
Qed.

Theorem rate_prog_rebuild k (teams ranks scores tau limit : pyval F) st :
  gamma_state_values_only st ->
  same_outcome (run (rate_prog k (rebuild_val fresh teams) ranks scores tau limit) st)
               (run (rate_prog k teams ranks scores tau limit) st).
Proof.
  intros Hg. apply rate_prog_values_only; [exact Hg|].
  rewrite validate_rate_rebuild.
  destruct (validate_rate k teams ranks scores) as [[tms keys]|e]; cbn [res_map fst snd].
  - split; [apply nums_rebuild|reflexivity].
  - reflexivity.
Qed.
End C20Prog.

(** * FloatGaussL: the truncated-Gaussian corrections [v], [w], [wt] of Gauss.v on IEEE 754
    binary64 (Flocq, round to nearest even) WITHOUT any accuracy assumption on libm, and the
    consequence for property C06 in Thurstone-Mosteller games whose compared teams are tied.

    The libm functions [exp], [erfc] are parameters of the instance [B64Num fe fc fp fi]; the
    only premises used about them are range / sign facts, each stated where it is used:
    - [Hexp]   : [fe x >= 0] for finite [x];
    - [Herfc]  : [fc] maps finite doubles to finite doubles in [0,2];
    - [Herfc1] : [fc y >= 1] for finite [y <= 0] (erfc of a non-positive argument is >= 1).

    1. [wt]: by the final clamp [min(max(value, 0), 1)] (Python's [max(a,b)] = [b] iff [a < b],
       [min(a,b)] = [b] iff [b < a]; a NaN passes through both), [wt x t] is either a NaN or a
       finite double in [0,1]; it is a NaN exactly when the unclamped value is; it is [1.0] on the
       guard branch.  No premise on libm at all.
    2. [v x t >= 0]: in the dividing branch pdf >= 0 and cdf >= epsilon > 0; in the guard branch
       the value is -(x - t) and [cdf(x - t) < epsilon] forces [x - t <= 0]: for z > 0 the
       argument fl(-z / fl(sqrt 2)) of erfc is a finite double <= 0 (rounding is monotone, 0 is a
       double), so erfc >= 1 and cdf = fl(0.5 * erfc) >= 0.5 > epsilon.
    3. [w]: exactly 1.0 or 0.0 on its guard branch; on the dividing branch [w = v * (v + (x-t))]
       is >= 0 GIVEN [0 <= v + (x - t)] computed in doubles - that hypothesis is the Mills-ratio
       inequality, which needs the accuracy of exp/erfc and is NOT proved here.
    4. Thurstone-Mosteller: a tied pair contributes fl(fl(fl(g * s2c) / c) * wt) >= 0 to delta;
       if every compared pair is tied, delta >= 0, hence sigma' <= sigma for the whole
       [compute TMF/TMP] (lifting as in FloatRateL). *)
From Coq Require Import List ZArith Bool Arith Reals Lra Lia.
From Flocq Require Import Core.Raux Core.Defs Core.Zaux Core.Generic_fmt Core.FLT
  IEEE754.BinarySingleNaN IEEE754.Binary IEEE754.Bits.
From OSV Require Import Num Order Gauss Core FloatInst.
From OSV.Lemmas Require Import OrderL RateL FloatOrderL FloatSignL FloatRangeL FloatDenomL FloatRateL.
From OSV.Lemmas Require C06L.
Import ListNotations.
Open Scope R_scope.

Notation nan := (is_nan 53 1024).

(** ** The clamp [min(max(v, 0.0), 1.0)] on doubles *)

Lemma b64_ltb_nan_l (s : bool) (pl : positive) (H : nan_pl 53 pl = true) (y : binary64) :
  b64_ltb (B754_nan 53 1024 s pl H) y = false.
Proof. destruct y; reflexivity. Qed.

Lemma b64_ltb_nan_r (s : bool) (pl : positive) (H : nan_pl 53 pl = true) (x : binary64) :
  b64_ltb x (B754_nan 53 1024 s pl H) = false.
Proof. destruct x as [sx|sx|sx plx Hx|sx mx ex Hx]; try reflexivity; destruct sx; reflexivity. Qed.

Definition b64_clamp (v : binary64) : binary64 :=
  let m := if b64_ltb v (b64_of_Z 0) then b64_of_Z 0 else v in
  if b64_ltb (b64_of_Z 1) m then b64_of_Z 1 else m.

(** a NaN passes through the clamp; anything else lands in [0,1] (also the infinities) *)
Lemma b64_clamp_nan (v : binary64) : nan (b64_clamp v) = nan v.
Proof.
  unfold b64_clamp.
  destruct v as [s|s|s pl H|s m e H].
  - (* zero *)
    destruct (b64_ltb (B754_zero 53 1024 s) (b64_of_Z 0));
      match goal with |- nan (if ?c then _ else _) = _ => destruct c end; reflexivity.
  - (* infinity *)
    destruct (b64_ltb (B754_infinity 53 1024 s) (b64_of_Z 0));
      match goal with |- nan (if ?c then _ else _) = _ => destruct c end; try reflexivity.
  - rewrite b64_ltb_nan_l, b64_ltb_nan_r. reflexivity.
  - destruct (b64_ltb (B754_finite 53 1024 s m e H) (b64_of_Z 0));
      match goal with |- nan (if ?c then _ else _) = _ => destruct c end; reflexivity.
Qed.

Lemma b64_clamp_01 (v : binary64) :
  nan v = false -> fin (b64_clamp v) = true /\ 0 <= RV (b64_clamp v) <= 1.
Proof.
  intros Hn. unfold b64_clamp.
  destruct (fin v) eqn:Fv.
  - rewrite (b64_ltb_spec v _ Fv b64_zero_fin), b64_zero_val.
    destruct (Rlt_bool_spec (RV v) 0) as [Hlt|Hge].
    + rewrite (b64_ltb_spec _ _ b64_one_fin b64_zero_fin), b64_one_val, b64_zero_val.
      rewrite Rlt_bool_false by lra. split; [exact b64_zero_fin|]. rewrite b64_zero_val. lra.
    + rewrite (b64_ltb_spec _ v b64_one_fin Fv), b64_one_val.
      destruct (Rlt_bool_spec 1 (RV v)) as [H1|H1].
      * split; [exact b64_one_fin|]. rewrite b64_one_val. lra.
      * split; [exact Fv | lra].
  - destruct v as [s|s|s pl H|s m e H]; try discriminate Fv; try discriminate Hn.
    destruct s.
    + assert (E1 : b64_ltb (B754_infinity 53 1024 true) (b64_of_Z 0) = true) by (vm_compute; reflexivity).
      assert (E2 : b64_ltb (b64_of_Z 1) (b64_of_Z 0) = false) by (vm_compute; reflexivity).
      rewrite E1, E2. split; [exact b64_zero_fin|]. rewrite b64_zero_val. lra.
    + assert (E1 : b64_ltb (B754_infinity 53 1024 false) (b64_of_Z 0) = false) by (vm_compute; reflexivity).
      assert (E2 : b64_ltb (b64_of_Z 1) (B754_infinity 53 1024 false) = true) by (vm_compute; reflexivity).
      rewrite E1, E2. split; [exact b64_one_fin|]. rewrite b64_one_val. lra.
Qed.

Lemma fin_not_nan (x : binary64) : fin x = true -> nan x = false.
Proof. destruct x; intros H; try discriminate H; reflexivity. Qed.

(** ** The model on binary64 *)
Section Model.
Variables fe fc fp fi : binary64 -> binary64.
Notation BN := (B64Num fe fc fp fi).

(** *** 1. [wt] *)
Lemma wt_clamp_b64 (x t : binary64) :
  @fltb binary64 BN
    (@fsub binary64 BN (@cdf binary64 BN (@fsub binary64 BN t (@fabs binary64 BN x)))
                       (@cdf binary64 BN (@fsub binary64 BN (@fneg binary64 BN t) (@fabs binary64 BN x))))
    (@feps binary64 BN) = false ->
  @wt binary64 BN x t
  = b64_clamp
      (@fadd binary64 BN
         (@fdiv binary64 BN
            (@fadd binary64 BN
               (@fmul binary64 BN (@fsub binary64 BN t (@fabs binary64 BN x))
                  (@pdf binary64 BN (@fsub binary64 BN t (@fabs binary64 BN x))))
               (@fmul binary64 BN (@fadd binary64 BN t (@fabs binary64 BN x))
                  (@pdf binary64 BN (@fsub binary64 BN (@fneg binary64 BN t) (@fabs binary64 BN x)))))
            (@fsub binary64 BN (@cdf binary64 BN (@fsub binary64 BN t (@fabs binary64 BN x)))
               (@cdf binary64 BN (@fsub binary64 BN (@fneg binary64 BN t) (@fabs binary64 BN x)))))
         (@fmul binary64 BN (@vt binary64 BN x t) (@vt binary64 BN x t))).
Proof. intros Hb. unfold wt. cbv zeta. rewrite Hb. reflexivity. Qed.

Lemma wt_guard_b64 (x t : binary64) :
  @fltb binary64 BN
    (@fsub binary64 BN (@cdf binary64 BN (@fsub binary64 BN t (@fabs binary64 BN x)))
                       (@cdf binary64 BN (@fsub binary64 BN (@fneg binary64 BN t) (@fabs binary64 BN x))))
    (@feps binary64 BN) = true ->
  @wt binary64 BN x t = @fone binary64 BN.
Proof. intros Hb. unfold wt. cbv zeta. rewrite Hb. reflexivity. Qed.

(** [wt x t] is a NaN or a finite double in [0,1] *)
Lemma wt_range_b64 (x t : binary64) :
  nan (@wt binary64 BN x t) = false ->
  fin (@wt binary64 BN x t) = true /\ 0 <= RV (@wt binary64 BN x t) <= 1.
Proof.
  intros Hn.
  destruct (@fltb binary64 BN
    (@fsub binary64 BN (@cdf binary64 BN (@fsub binary64 BN t (@fabs binary64 BN x)))
                       (@cdf binary64 BN (@fsub binary64 BN (@fneg binary64 BN t) (@fabs binary64 BN x))))
    (@feps binary64 BN)) eqn:Hb.
  - rewrite (wt_guard_b64 x t Hb). change (@fone binary64 BN) with (b64_of_Z 1).
    split; [exact b64_one_fin|]. rewrite b64_one_val. lra.
  - rewrite (wt_clamp_b64 x t Hb) in Hn |- *.
    apply b64_clamp_01. rewrite b64_clamp_nan in Hn. exact Hn.
Qed.

(** the three facts about [wt] together: range unless NaN; the guard branch returns 1.0; the
    result is a NaN only if the unclamped value is one *)
Lemma wt_facts_b64 (x t : binary64) :
  (nan (@wt binary64 BN x t) = false ->
   fin (@wt binary64 BN x t) = true /\ 0 <= RV (@wt binary64 BN x t) <= 1)
  /\ (@fltb binary64 BN
        (@fsub binary64 BN (@cdf binary64 BN (@fsub binary64 BN t (@fabs binary64 BN x)))
                           (@cdf binary64 BN (@fsub binary64 BN (@fneg binary64 BN t) (@fabs binary64 BN x))))
        (@feps binary64 BN) = true ->
      @wt binary64 BN x t = @fone binary64 BN)
  /\ (nan
        (@fadd binary64 BN
           (@fdiv binary64 BN
              (@fadd binary64 BN
                 (@fmul binary64 BN (@fsub binary64 BN t (@fabs binary64 BN x))
                    (@pdf binary64 BN (@fsub binary64 BN t (@fabs binary64 BN x))))
                 (@fmul binary64 BN (@fadd binary64 BN t (@fabs binary64 BN x))
                    (@pdf binary64 BN (@fsub binary64 BN (@fneg binary64 BN t) (@fabs binary64 BN x)))))
              (@fsub binary64 BN (@cdf binary64 BN (@fsub binary64 BN t (@fabs binary64 BN x)))
                 (@cdf binary64 BN (@fsub binary64 BN (@fneg binary64 BN t) (@fabs binary64 BN x)))))
           (@fmul binary64 BN (@vt binary64 BN x t) (@vt binary64 BN x t))) = false ->
      nan (@wt binary64 BN x t) = false).
Proof.
  split; [exact (wt_range_b64 x t)|]. split; [exact (wt_guard_b64 x t)|].
  intros Hv.
  destruct (@fltb binary64 BN
    (@fsub binary64 BN (@cdf binary64 BN (@fsub binary64 BN t (@fabs binary64 BN x)))
                       (@cdf binary64 BN (@fsub binary64 BN (@fneg binary64 BN t) (@fabs binary64 BN x))))
    (@feps binary64 BN)) eqn:Hb.
  - rewrite (wt_guard_b64 x t Hb). vm_compute. reflexivity.
  - rewrite (wt_clamp_b64 x t Hb), b64_clamp_nan. exact Hv.
Qed.

(** *** 2. [v] *)

Lemma feps_lt_half_b64 : RV (@feps binary64 BN) < / 2.
Proof.
  destruct (feps_pos_b64 fe fc fp fi) as (Fe & _).
  destruct (fhalf_ok fe fc fp fi) as (Fh & Hh).
  assert (E : b64_ltb (@feps binary64 BN) (@fhalf binary64 BN) = true) by (vm_compute; reflexivity).
  rewrite (b64_ltb_spec _ _ Fe Fh) in E. rewrite <- Hh.
  destruct (Rlt_bool_spec (RV (@feps binary64 BN)) (RV (@fhalf binary64 BN))) as [H|H];
    [exact H | discriminate E].
Qed.

Section WithErfc.
Hypothesis Herfc : forall y : binary64, fin y = true -> fin (fc y) = true /\ 0 <= RV (fc y) <= 2.
Hypothesis Herfc1 : forall y : binary64, fin y = true -> RV y <= 0 -> 1 <= RV (fc y).

(** cdf z >= 0.5 for a finite z > 0 *)
Lemma cdf_pos_ge_half_b64 (z : binary64) :
  fin z = true -> 0 < RV z -> / 2 <= RV (@cdf binary64 BN z).
Proof.
  intros Fz Hz.
  change (@cdf binary64 BN z)
    with (b64_mult mode_NE (@fhalf binary64 BN) (fc (b64_div mode_NE (b64_opp z) (b64_sqrt mode_NE (b64_of_Z 2))))).
  destruct sqrt2_ok as (Fs & Hs).
  destruct (b64_opp_ok z) as (Fo & Ho). rewrite Fz in Fo.
  destruct (b64_div_ge1_ok (b64_opp z) _ Fo Hs) as (Fd & Hd).
  assert (Hy : RV (b64_div mode_NE (b64_opp z) (b64_sqrt mode_NE (b64_of_Z 2))) <= 0).
  { rewrite Hd, Ho. apply rnd_le_0.
    assert (Hi : 0 < / RV (b64_sqrt mode_NE (b64_of_Z 2))) by (apply Rinv_0_lt_compat; lra).
    unfold Rdiv. nra. }
  pose proof (Herfc1 _ Fd Hy) as He1.
  destruct (Herfc _ Fd) as (Fe & He).
  destruct (fhalf_ok fe fc fp fi) as (Fh & Hh).
  set (y := fc (b64_div mode_NE (b64_opp z) (b64_sqrt mode_NE (b64_of_Z 2)))) in *.
  assert (Hb : Rabs (RV (@fhalf binary64 BN) * RV y) <= BIG).
  { rewrite Hh. rewrite Rabs_pos_eq by lra. pose proof one_le_BIG. lra. }
  destruct (b64_mult_ok _ y Fh Fe Hb) as (Fm & Hm).
  rewrite Hm. rewrite <- Hh at 1. apply rnd_ge_B2R. rewrite Hh. lra.
Qed.

(** hence the guard [cdf z < epsilon] forces z <= 0 *)
Lemma cdf_guard_nonpos_b64 (z : binary64) :
  fin z = true ->
  @fltb binary64 BN (@cdf binary64 BN z) (@feps binary64 BN) = true -> RV z <= 0.
Proof.
  intros Fz Hlt.
  destruct (Rle_or_lt (RV z) 0) as [H|H]; [exact H|exfalso].
  pose proof (cdf_pos_ge_half_b64 z Fz H) as Hh.
  destruct (cdf_ok fe fc fp fi Herfc z Fz) as (Fc & _).
  destruct (feps_pos_b64 fe fc fp fi) as (Fe & _).
  change (b64_ltb (@cdf binary64 BN z) (@feps binary64 BN) = true) in Hlt.
  rewrite (b64_ltb_spec _ _ Fc Fe) in Hlt.
  pose proof feps_lt_half_b64 as He.
  destruct (Rlt_bool_spec (RV (@cdf binary64 BN z)) (RV (@feps binary64 BN))) as [H1|H1];
    [lra | discriminate Hlt].
Qed.

Hypothesis Hexp : forall y : binary64, fin y = true -> 0 <= RV (fe y).

(** pdf z >= 0 when it is finite and the argument of exp is *)
Lemma pdf_nonneg_b64 (z : binary64) :
  fin (@fdiv binary64 BN (@fmul binary64 BN z z) (@fneg binary64 BN (@ftwo binary64 BN))) = true ->
  fin (@pdf binary64 BN z) = true -> 0 <= RV (@pdf binary64 BN z).
Proof.
  intros Fa Fp.
  destruct (constants_b64 fe fc fp fi) as (_ & _ & _ & _ & Hst & _).
  unfold pdf in *.
  change (@fdiv binary64 BN ?a ?b) with (b64_div mode_NE a b) in Fp |- *.
  apply b64_div_nonneg; [exact Fp | apply Hexp; exact Fa | exact Hst].
Qed.

Lemma v_nonneg_b64 (x t : binary64) :
  fin (@fsub binary64 BN x t) = true ->
  (@fltb binary64 BN (@cdf binary64 BN (@fsub binary64 BN x t)) (@feps binary64 BN) = false ->
   fin (@fdiv binary64 BN (@fmul binary64 BN (@fsub binary64 BN x t) (@fsub binary64 BN x t))
          (@fneg binary64 BN (@ftwo binary64 BN))) = true) ->
  fin (@v binary64 BN x t) = true ->
  0 <= RV (@v binary64 BN x t).
Proof.
  intros Fxt Farg Fv.
  destruct (cdf_ok fe fc fp fi Herfc _ Fxt) as (Fd & Hd).
  unfold v in *. cbv zeta in *.
  destruct (@fltb binary64 BN (@cdf binary64 BN (@fsub binary64 BN x t)) (@feps binary64 BN)) eqn:Hb.
  - pose proof (cdf_guard_nonpos_b64 _ Fxt Hb) as Hz.
    change (@fneg binary64 BN ?a) with (b64_opp a).
    rewrite (proj2 (b64_opp_ok _)). lra.
  - destruct (guard_eps_b64 fe fc fp fi _ Fd Hb) as (He & Hed).
    change (@fdiv binary64 BN ?a ?b) with (b64_div mode_NE a b) in Fv |- *.
    assert (Hnz : RV (@cdf binary64 BN (@fsub binary64 BN x t)) <> 0) by lra.
    destruct (b64_div_val _ _ Hnz Fv) as (_ & Fp).
    apply b64_div_nonneg; [exact Fv | | lra].
    apply pdf_nonneg_b64; [exact (Farg eq_refl) | exact Fp].
Qed.

(** on the guard branch the value is -(x - t) with x - t <= 0 *)
Lemma v_guard_b64 (x t : binary64) :
  fin (@fsub binary64 BN x t) = true ->
  @fltb binary64 BN (@cdf binary64 BN (@fsub binary64 BN x t)) (@feps binary64 BN) = true ->
  @v binary64 BN x t = @fneg binary64 BN (@fsub binary64 BN x t)
  /\ RV (@fsub binary64 BN x t) <= 0
  /\ fin (@v binary64 BN x t) = true.
Proof.
  intros Fxt Hb. unfold v. cbv zeta. rewrite Hb.
  split; [reflexivity|]. split; [exact (cdf_guard_nonpos_b64 _ Fxt Hb)|].
  change (@fneg binary64 BN ?a) with (b64_opp a). rewrite (proj1 (b64_opp_ok _)). exact Fxt.
Qed.

(** *** 3. [w]: >= 0 GIVEN the Mills-ratio fact [0 <= v + (x - t)] in doubles (not proved) *)
Lemma w_nonneg_partial_b64 (x t : binary64) :
  fin (@fsub binary64 BN x t) = true ->
  (@fltb binary64 BN (@cdf binary64 BN (@fsub binary64 BN x t)) (@feps binary64 BN) = false ->
   fin (@fdiv binary64 BN (@fmul binary64 BN (@fsub binary64 BN x t) (@fsub binary64 BN x t))
          (@fneg binary64 BN (@ftwo binary64 BN))) = true
   /\ 0 <= RV (@fadd binary64 BN (@v binary64 BN x t) (@fsub binary64 BN x t))) ->
  fin (@w binary64 BN x t) = true ->
  0 <= RV (@w binary64 BN x t).
Proof.
  intros Fxt Hdiv Fw. unfold w in *. cbv zeta in *.
  destruct (@fltb binary64 BN (@cdf binary64 BN (@fsub binary64 BN x t)) (@feps binary64 BN)) eqn:Hb.
  - destruct (@fltb binary64 BN x (@fzero binary64 BN)).
    + change (@fone binary64 BN) with (b64_of_Z 1). rewrite b64_one_val. lra.
    + change (@fzero binary64 BN) with (b64_of_Z 0). rewrite b64_zero_val. lra.
  - destruct (Hdiv eq_refl) as (Farg & Hmills).
    change (@fmul binary64 BN ?a ?b) with (b64_mult mode_NE a b) in Fw |- *.
    destruct (b64_mult_val _ _ Fw) as (_ & Fv & _).
    apply b64_mult_nonneg; [exact Fw | | exact Hmills].
    apply v_nonneg_b64; [exact Fxt | | exact Fv].
    intros _. exact Farg.
Qed.

End WithErfc.

(** [w] on its guard branch is exactly 1.0 (x < 0) or 0.0 *)
Lemma w_guard_b64 (x t : binary64) :
  @fltb binary64 BN (@cdf binary64 BN (@fsub binary64 BN x t)) (@feps binary64 BN) = true ->
  @w binary64 BN x t = (if @fltb binary64 BN x (@fzero binary64 BN) then @fone binary64 BN else @fzero binary64 BN)
  /\ (RV (@w binary64 BN x t) = 1 \/ RV (@w binary64 BN x t) = 0).
Proof.
  intros Hb. unfold w. cbv zeta. rewrite Hb. split; [reflexivity|].
  destruct (@fltb binary64 BN x (@fzero binary64 BN)).
  - left. exact b64_one_val.
  - right. exact b64_zero_val.
Qed.

(** *** 4. Thurstone-Mosteller: tied pairs *)

(** the scale of [tm_term]: [c_iq] (full pairing) or [2 * c_iq] (partial pairing) *)
Definition tm_c (two_c : bool) (P : params binary64) (ti tq : trating binary64) : binary64 :=
  if two_c then @fmul binary64 BN (@ftwo binary64 BN) (@c_iq binary64 BN P ti tq) else @c_iq binary64 BN P ti tq.

Lemma c_iq_nonneg (P : params binary64) (ti tq : trating binary64) : 0 <= RV (@c_iq binary64 BN P ti tq).
Proof.
  change (@c_iq binary64 BN P ti tq)
    with (b64_sqrt mode_NE (b64_plus mode_NE (b64_plus mode_NE (t_ss ti) (t_ss tq))
            (@fmul binary64 BN (@ftwo binary64 BN) (@fpow2 binary64 BN (p_beta P))))).
  apply b64_sqrt_nonneg.
Qed.

Lemma tm_c_nonneg (two_c : bool) (P : params binary64) (ti tq : trating binary64) :
  fin (tm_c two_c P ti tq) = true -> 0 <= RV (tm_c two_c P ti tq).
Proof.
  unfold tm_c. destruct two_c; intros Fc; [|apply c_iq_nonneg].
  change (@fmul binary64 BN ?a ?b) with (b64_mult mode_NE a b) in Fc |- *.
  apply b64_mult_nonneg; [exact Fc | | apply c_iq_nonneg].
  change (@ftwo binary64 BN) with (b64_of_Z 2). rewrite (proj2 b64_two_val). lra.
Qed.

Lemma tm_c_fin_inv (two_c : bool) (P : params binary64) (ti tq : trating binary64) :
  fin (tm_c two_c P ti tq) = true -> fin (t_ss ti) = true /\ fin (t_ss tq) = true.
Proof.
  unfold tm_c. destruct two_c; intros Fc; [|exact (c_iq_fin_inv fe fc fp fi P ti tq Fc)].
  change (@fmul binary64 BN ?a ?b) with (b64_mult mode_NE a b) in Fc.
  destruct (b64_mult_val _ _ Fc) as (_ & _ & Fc').
  exact (c_iq_fin_inv fe fc fp fi P ti tq Fc').
Qed.

(** the delta component of [tm_term] is always [snd od + something] *)
Lemma tm_term_snd_fin_inv (two_c : bool) (P : params binary64) (trs : list (trating binary64))
      (ti : trating binary64) (od : binary64 * binary64) (tq : trating binary64) :
  fin (snd (@tm_term binary64 BN two_c P trs ti od tq)) = true -> fin (snd od) = true.
Proof.
  unfold tm_term. cbv zeta.
  destruct (Nat.ltb (t_rank ti) (t_rank tq)); [|destruct (Nat.ltb (t_rank tq) (t_rank ti))];
    cbn [snd]; intros Hf; exact (proj1 (b64_plus_fin_inv _ _ Hf)).
Qed.

Lemma tm_fold_snd_fin_inv (two_c : bool) (P : params binary64) (trs : list (trating binary64))
      (ti : trating binary64) (opp : list (trating binary64)) (od : binary64 * binary64) :
  fin (snd (fold_left (@tm_term binary64 BN two_c P trs ti) opp od)) = true -> fin (snd od) = true.
Proof.
  revert od. induction opp as [|tq l IH]; intros od Hf; cbn [fold_left] in Hf; [exact Hf|].
  exact (tm_term_snd_fin_inv two_c P trs ti od tq (IH _ Hf)).
Qed.

(** the value of the delta component for a tied pair *)
Lemma tm_term_tie_snd (two_c : bool) (P : params binary64) (trs : list (trating binary64))
      (ti : trating binary64) (od : binary64 * binary64) (tq : trating binary64) :
  t_rank tq = t_rank ti ->
  snd (@tm_term binary64 BN two_c P trs ti od tq)
  = b64_plus mode_NE (snd od)
      (b64_mult mode_NE
         (b64_div mode_NE
            (b64_mult mode_NE (@gamma_of binary64 P (tm_c two_c P ti tq) trs ti)
               (b64_div mode_NE (t_ss ti) (tm_c two_c P ti tq)))
            (tm_c two_c P ti tq))
         (@wt binary64 BN
            (b64_div mode_NE (b64_minus mode_NE (t_mu ti) (t_mu tq)) (tm_c two_c P ti tq))
            (b64_div mode_NE (p_kappa P) (tm_c two_c P ti tq)))).
Proof.
  intros E. unfold tm_term. cbv zeta. rewrite E, Nat.ltb_irrefl. reflexivity.
Qed.

(** one tied pair adds a non-negative double to delta: gamma >= 0, sigma_i^2 >= 0, c finite;
    c > 0 and the finiteness of [wt] follow from the finiteness of the result *)
Lemma tm_term_tie_delta_nonneg_b64 (two_c : bool) (P : params binary64) (trs : list (trating binary64))
      (ti : trating binary64) (od : binary64 * binary64) (tq : trating binary64) :
  t_rank tq = t_rank ti ->
  fin (tm_c two_c P ti tq) = true ->
  0 <= RV (t_ss ti) ->
  0 <= RV (@gamma_of binary64 P (tm_c two_c P ti tq) trs ti) ->
  0 <= RV (snd od) ->
  fin (snd (@tm_term binary64 BN two_c P trs ti od tq)) = true ->
  0 <= RV (snd (@tm_term binary64 BN two_c P trs ti od tq)).
Proof.
  intros E Fc Hss Hg Hod Fres.
  pose proof (tm_term_snd_fin_inv two_c P trs ti od tq Fres) as Fod.
  rewrite (tm_term_tie_snd two_c P trs ti od tq E) in Fres |- *.
  set (c := tm_c two_c P ti tq) in *.
  set (g := @gamma_of binary64 P c trs ti) in *.
  destruct (b64_plus_fin_inv _ _ Fres) as (_ & Fterm).
  destruct (b64_mult_val _ _ Fterm) as (_ & Fd & Fwt).
  destruct (wt_range_b64 _ _ (fin_not_nan _ Fwt)) as (_ & Hwt0 & _).
  pose proof (b64_div_fin_nonzero _ _ Fd Fc) as Hnz.
  pose proof (tm_c_nonneg two_c P ti tq Fc) as Hc0. fold c in Hc0.
  assert (Hc : 0 < RV c) by lra.
  destruct (b64_div_val _ _ Hnz Fd) as (_ & Fgs).
  destruct (b64_mult_val _ _ Fgs) as (_ & Fg & Fs2c).
  pose proof (b64_div_nonneg _ _ Fs2c Hss Hc) as Hs2c.
  pose proof (b64_mult_nonneg _ _ Fgs Hg Hs2c) as Hgs.
  pose proof (b64_div_nonneg _ _ Fd Hgs Hc) as Hd.
  pose proof (b64_mult_nonneg _ _ Fterm Hd Hwt0) as Hterm.
  apply b64_plus_nonneg; assumption.
Qed.

(** the accumulated delta over opponents that are all tied with [ti] *)
Lemma tm_tie_fold_delta_nonneg_b64 (two_c : bool) (P : params binary64) (trs : list (trating binary64))
      (ti : trating binary64) (opp : list (trating binary64)) :
  0 <= RV (t_ss ti) ->
  forall od : binary64 * binary64,
  (forall tq : trating binary64, In tq opp ->
     t_rank tq = t_rank ti
     /\ fin (tm_c two_c P ti tq) = true
     /\ 0 <= RV (@gamma_of binary64 P (tm_c two_c P ti tq) trs ti)) ->
  0 <= RV (snd od) ->
  fin (snd (fold_left (@tm_term binary64 BN two_c P trs ti) opp od)) = true ->
  0 <= RV (snd (fold_left (@tm_term binary64 BN two_c P trs ti) opp od)).
Proof.
  intros Hss. induction opp as [|tq l IH]; intros od Hin Hod Hf; cbn [fold_left] in *; [exact Hod|].
  destruct (Hin tq (or_introl eq_refl)) as (E & Fc & Hg).
  apply IH.
  - intros t Ht. apply Hin. right. exact Ht.
  - apply tm_term_tie_delta_nonneg_b64; try assumption.
    exact (tm_fold_snd_fin_inv two_c P trs ti l _ Hf).
  - exact Hf.
Qed.

Lemma tm_tie_delta_nonneg_b64 (two_c : bool) (P : params binary64) (trs : list (trating binary64))
      (ti : trating binary64) (opp : list (trating binary64)) :
  0 <= RV (t_ss ti) ->
  (forall tq : trating binary64, In tq opp ->
     t_rank tq = t_rank ti
     /\ fin (if two_c then @fmul binary64 BN (@ftwo binary64 BN) (@c_iq binary64 BN P ti tq)
             else @c_iq binary64 BN P ti tq) = true
     /\ 0 <= RV (@gamma_of binary64 P
                   (if two_c then @fmul binary64 BN (@ftwo binary64 BN) (@c_iq binary64 BN P ti tq)
                    else @c_iq binary64 BN P ti tq) trs ti)) ->
  fin (snd (fold_left (@tm_term binary64 BN two_c P trs ti) opp (@fzero binary64 BN, @fzero binary64 BN))) = true ->
  0 <= RV (snd (fold_left (@tm_term binary64 BN two_c P trs ti) opp (@fzero binary64 BN, @fzero binary64 BN))).
Proof.
  intros Hss Hin Hf.
  apply (tm_tie_fold_delta_nonneg_b64 two_c P trs ti opp Hss); [exact Hin | | exact Hf].
  cbn [snd]. change (@fzero binary64 BN) with (b64_of_Z 0). rewrite b64_zero_val. apply Rle_refl.
Qed.

(** *** one player of one team whose opponents are all tied with it *)
Lemma tm_tied_team_sigma_le_b64 (two_c : bool) (P : params binary64) (trs : list (trating binary64))
      (ti : trating binary64) (opp : list (trating binary64)) (p : rating binary64) :
  (forall x : binary64, fin x = true -> 0 <= RV (fp x)) ->
  fin (p_kappa P) = true -> 0 <= RV (p_kappa P) <= 1 ->
  opp <> [] ->
  0 <= RV (r_sigma p) ->
  (fin (t_ss ti) = true -> 0 <= RV (t_ss ti)) ->
  (forall tq : trating binary64, In tq opp ->
     t_rank tq = t_rank ti
     /\ fin (tm_c two_c P ti tq) = true
     /\ 0 <= RV (@gamma_of binary64 P (tm_c two_c P ti tq) trs ti)) ->
  fin (@fmul binary64 BN (@fdiv binary64 BN (@fpow2 binary64 BN (r_sigma p)) (t_ss ti))
         (snd (fold_left (@tm_term binary64 BN two_c P trs ti) opp (@fzero binary64 BN, @fzero binary64 BN)))) = true ->
  fin (r_sigma (@update_player binary64 BN P ti
         (fst (fold_left (@tm_term binary64 BN two_c P trs ti) opp (@fzero binary64 BN, @fzero binary64 BN)))
         (snd (fold_left (@tm_term binary64 BN two_c P trs ti) opp (@fzero binary64 BN, @fzero binary64 BN))) p)) = true ->
  fin (r_sigma p) = true
  /\ 0 <= RV (r_sigma (@update_player binary64 BN P ti
         (fst (fold_left (@tm_term binary64 BN two_c P trs ti) opp (@fzero binary64 BN, @fzero binary64 BN)))
         (snd (fold_left (@tm_term binary64 BN two_c P trs ti) opp (@fzero binary64 BN, @fzero binary64 BN))) p))
     <= RV (r_sigma p).
Proof.
  intros Hpow Fk Hk Hne Hs Hss Hpair Fsd Fres.
  assert (Ftss : fin (t_ss ti) = true).
  { destruct opp as [|tq0 l]; [congruence|].
    destruct (Hpair tq0 (or_introl eq_refl)) as (_ & Fc & _).
    exact (proj1 (tm_c_fin_inv two_c P ti tq0 Fc)). }
  set (od := fold_left (@tm_term binary64 BN two_c P trs ti) opp (@fzero binary64 BN, @fzero binary64 BN)) in *.
  pose proof (update_player_sigma_fin_inv fe fc fp fi P ti (fst od) (snd od) p Fres) as Fs.
  destruct (b64_mult_val _ _ Fsd) as (_ & Fsh & Fd).
  assert (Hd : 0 <= RV (snd od)).
  { apply (tm_tie_delta_nonneg_b64 two_c P trs ti opp (Hss Ftss)); [exact Hpair | exact Fd]. }
  pose proof (b64_div_fin_nonzero _ _ Fsh Ftss) as Hnz.
  pose proof (Hss Ftss) as Hss0.
  assert (Hsh : 0 <= RV (@fdiv binary64 BN (@fpow2 binary64 BN (r_sigma p)) (t_ss ti))).
  { apply b64_div_nonneg; [exact Fsh | exact (Hpow _ Fs) | lra]. }
  pose proof (b64_mult_nonneg _ _ Fsd Hsh Hd) as Hsd.
  pose proof (b64_one_minus_fin _ Fsd Hsd) as Fom.
  split; [exact Fs|].
  exact (update_player_sigma_le_b64 fe fc fp fi P ti (fst od) (snd od) p Hs Hsh Hd Fk Hk Fsd Fom Fres).
Qed.

(** *** the whole [compute] for TMF / TMP when all teams share one rank *)
Definition tm_opps (k : kind) (trs : list (trating binary64)) : list (trating binary64 * list (trating binary64)) :=
  match k with TMF => opponents_full trs | _ => opponents_part trs end.
Definition tm_two_c (k : kind) : bool := match k with TMF => false | _ => true end.

Lemma compute_tm_all_tied_sigma_le_gen (k : kind) (P : params binary64) (trs : list (trating binary64)) :
  k = TMF \/ k = TMP ->
  (forall x : binary64, fin x = true -> 0 <= RV (fp x)) ->
  fin (p_kappa P) = true -> 0 <= RV (p_kappa P) <= 1 ->
  (2 <= length trs)%nat ->
  (forall ti tq, In ti trs -> In tq trs -> t_rank tq = t_rank ti) ->
  (forall ti, In ti trs -> forall p, In p (t_team ti) -> 0 <= RV (r_sigma p)) ->
  (forall ti, In ti trs -> fin (t_ss ti) = true ->
     (forall p, In p (t_team ti) -> fin (r_sigma p) = true) -> 0 <= RV (t_ss ti)) ->
  (forall ti opp, In (ti, opp) (tm_opps k trs) -> forall tq : trating binary64, In tq opp ->
     fin (tm_c (tm_two_c k) P ti tq) = true
     /\ 0 <= RV (@gamma_of binary64 P (tm_c (tm_two_c k) P ti tq) trs ti)) ->
  (forall ti opp, In (ti, opp) (tm_opps k trs) -> forall p, In p (t_team ti) ->
     fin (@fmul binary64 BN (@fdiv binary64 BN (@fpow2 binary64 BN (r_sigma p)) (t_ss ti))
            (snd (fold_left (@tm_term binary64 BN (tm_two_c k) P trs ti) opp
                    (@fzero binary64 BN, @fzero binary64 BN)))) = true) ->
  (forall res, In res (@compute binary64 BN k P trs) -> forall r, In r res -> fin (r_sigma r) = true) ->
  Forall2 (Forall2 bt_rel) (map t_team trs) (@compute binary64 BN k P trs).
Proof.
  intros Hkind Hpow Fk Hk Hlen Htied Hsig Hss Hpair Hsd Hres.
  assert (Ecomp : @compute binary64 BN k P trs
                  = @compute_pairs binary64 BN (@tm_term binary64 BN (tm_two_c k) P trs) (tm_opps k trs) P)
    by (destruct Hkind as [->| ->]; reflexivity).
  assert (Efst : map fst (tm_opps k trs) = trs).
  { destruct Hkind as [->| ->]; cbn [tm_opps].
    - apply rows_fst.
    - unfold opponents_part. apply combine_map_fst. now rewrite ladder_pairs_length. }
  assert (Hopp : forall io, In io (tm_opps k trs) -> In (fst io) trs /\ incl (snd io) trs /\ snd io <> []).
  { destruct Hkind as [->| ->]; cbn [tm_opps]; intros io Hio.
    - destruct (C06L.rows_in trs io Hio) as (H1 & H2).
      split; [exact H1|]. split; [exact H2 | exact (rows_snd_nonempty trs io Hlen Hio)].
    - destruct (C06L.opponents_part_in trs io Hio) as (H1 & H2).
      split; [exact H1|]. split; [exact H2|].
      apply (ladder_aux_nonempty None trs io); [right; exact Hlen | exact Hio]. }
  rewrite Ecomp in *. rewrite <- Efst at 1. apply compute_pairs_pointwise.
  intros [ti opp] Hio p Hp. cbn [fst snd] in *.
  destruct (Hopp _ Hio) as (Hti & Hincl & Hne). cbn [fst snd] in Hti, Hincl, Hne.
  set (od := fold_left (@tm_term binary64 BN (tm_two_c k) P trs ti) opp (@fzero binary64 BN, @fzero binary64 BN)).
  assert (Fresq : forall q, In q (t_team ti) ->
             fin (r_sigma (@update_player binary64 BN P ti (fst od) (snd od) q)) = true).
  { intros q Hq. apply (Hres (@update_team binary64 BN P ti od)).
    - unfold compute_pairs.
      exact (in_map (fun io => @update_team binary64 BN P (fst io)
                (fold_left (@tm_term binary64 BN (tm_two_c k) P trs (fst io)) (snd io)
                   (@fzero binary64 BN, @fzero binary64 BN)))
               _ (ti, opp) Hio).
    - unfold update_team. apply in_map. exact Hq. }
  assert (Fq : forall q, In q (t_team ti) -> fin (r_sigma q) = true).
  { intros q Hq. exact (update_player_sigma_fin_inv fe fc fp fi P ti _ _ q (Fresq q Hq)). }
  assert (Hpair' : forall tq : trating binary64, In tq opp ->
     t_rank tq = t_rank ti
     /\ fin (tm_c (tm_two_c k) P ti tq) = true
     /\ 0 <= RV (@gamma_of binary64 P (tm_c (tm_two_c k) P ti tq) trs ti)).
  { intros tq Hq. split; [exact (Htied ti tq Hti (Hincl tq Hq)) | exact (Hpair ti opp Hio tq Hq)]. }
  destruct (tm_tied_team_sigma_le_b64 (tm_two_c k) P trs ti opp p Hpow Fk Hk Hne (Hsig ti Hti p Hp)
              (fun Ft => Hss ti Hti Ft Fq) Hpair' (Hsd ti opp Hio p Hp) (Fresq p Hp)) as (Fs & Hb).
  split; [exact Fs|]. split; [exact (Fresq p Hp) | exact Hb].
Qed.

Theorem compute_tm_all_tied_sigma_le_b64 (k : kind) (P : params binary64) (trs : list (trating binary64)) :
  k = TMF \/ k = TMP ->
  (forall x : binary64, fin x = true -> 0 <= RV (fp x)) ->
  fin (p_kappa P) = true -> 0 <= RV (p_kappa P) <= 1 ->
  (2 <= length trs)%nat ->
  (forall ti tq : trating binary64, In ti trs -> In tq trs -> t_rank tq = t_rank ti) ->
  (forall ti, In ti trs -> 0 <= RV (t_ss ti)) ->
  (forall ti, In ti trs -> forall p, In p (t_team ti) -> 0 <= RV (r_sigma p)) ->
  forall (opps : list (trating binary64 * list (trating binary64))) (two_c : bool),
  opps = match k with TMF => @opponents_full binary64 trs | _ => @opponents_part binary64 trs end ->
  two_c = match k with TMF => false | _ => true end ->
  (forall ti opp, In (ti, opp) opps -> forall tq : trating binary64, In tq opp ->
     fin (if two_c then @fmul binary64 BN (@ftwo binary64 BN) (@c_iq binary64 BN P ti tq)
          else @c_iq binary64 BN P ti tq) = true
     /\ 0 <= RV (@gamma_of binary64 P
                   (if two_c then @fmul binary64 BN (@ftwo binary64 BN) (@c_iq binary64 BN P ti tq)
                    else @c_iq binary64 BN P ti tq) trs ti)) ->
  (forall ti opp, In (ti, opp) opps -> forall p, In p (t_team ti) ->
     fin (@fmul binary64 BN (@fdiv binary64 BN (@fpow2 binary64 BN (r_sigma p)) (t_ss ti))
            (snd (fold_left (@tm_term binary64 BN two_c P trs ti) opp (@fzero binary64 BN, @fzero binary64 BN)))) = true) ->
  (forall res, In res (@compute binary64 BN k P trs) -> forall r, In r res -> fin (r_sigma r) = true) ->
  Forall2 (Forall2 (fun p r : rating binary64 =>
      fin (r_sigma p) = true /\ fin (r_sigma r) = true /\ 0 <= RV (r_sigma r) <= RV (r_sigma p)))
    (map t_team trs) (@compute binary64 BN k P trs).
Proof.
  intros Hkind Hpow Fk Hk Hlen Htied Hss Hsig opps two_c -> -> Hpair Hsd Hres.
  apply (compute_tm_all_tied_sigma_le_gen k P trs); try assumption.
  intros ti Hti _ _. apply Hss. exact Hti.
Qed.

(** *** [rate_core] for TMF / TMP when the team ratings it builds all share one rank *)
Theorem rate_tm_all_tied_sigma_le_b64 (k : kind) (P : params binary64) (tau : binary64) (limit : bool)
        (teams : list (list (rating binary64))) (keys : option (list key)) :
  k = TMF \/ k = TMP ->
  match keys with Some ks => length ks = length teams | None => True end ->
  (2 <= length teams)%nat ->
  (forall x : binary64, fin x = true -> 0 <= RV (fp x)) ->
  fin (p_kappa P) = true -> 0 <= RV (p_kappa P) <= 1 ->
  (forall t, In t teams -> forall p, In p t -> 0 <= RV (r_sigma p)) ->
  forall trs : list (trating binary64),
  trs = match keys with
        | None => @team_ratings binary64 BN (map (map (@inflate binary64 BN tau)) teams)
                    (seq 0 (length (map (map (@inflate binary64 BN tau)) teams)))
        | Some ks => @team_ratings binary64 BN
                       (fst (unwind key_leb ks (map (map (@inflate binary64 BN tau)) teams)))
                       (calc_rankings key_ltb (isort key_leb ks))
        end ->
  (forall ti tq : trating binary64, In ti trs -> In tq trs -> t_rank tq = t_rank ti) ->
  forall (opps : list (trating binary64 * list (trating binary64))) (two_c : bool),
  opps = match k with TMF => @opponents_full binary64 trs | _ => @opponents_part binary64 trs end ->
  two_c = match k with TMF => false | _ => true end ->
  (forall ti opp, In (ti, opp) opps -> forall tq : trating binary64, In tq opp ->
     fin (if two_c then @fmul binary64 BN (@ftwo binary64 BN) (@c_iq binary64 BN P ti tq)
          else @c_iq binary64 BN P ti tq) = true
     /\ 0 <= RV (@gamma_of binary64 P
                   (if two_c then @fmul binary64 BN (@ftwo binary64 BN) (@c_iq binary64 BN P ti tq)
                    else @c_iq binary64 BN P ti tq) trs ti)) ->
  (forall ti opp, In (ti, opp) opps -> forall p, In p (t_team ti) ->
     fin (@fmul binary64 BN (@fdiv binary64 BN (@fpow2 binary64 BN (r_sigma p)) (t_ss ti))
            (snd (fold_left (@tm_term binary64 BN two_c P trs ti) opp (@fzero binary64 BN, @fzero binary64 BN)))) = true) ->
  (forall res, In res (@compute binary64 BN k P trs) -> forall r, In r res -> fin (r_sigma r) = true) ->
  Forall2 (Forall2 (fun p r : rating binary64 =>
      fin (r_sigma r) = true
      /\ 0 <= RV (r_sigma r) <= RV (r_sigma (@inflate binary64 BN tau p))
      /\ (limit = true -> RV (r_sigma r) <= RV (r_sigma p))))
    teams (@rate_core binary64 BN k P tau limit teams keys).
Proof.
  intros Hkind E Hlen Hpow Fk Hk Hprior trs Etrs Htied opps two_c -> -> Hpair Hsd Hres.
  change (trs = @rate_trs binary64 BN (map (map (@inflate binary64 BN tau)) teams) keys) in Etrs. subst trs.
  apply (rate_lift_b64 fe fc fp fi); try assumption.
  intros Hsig Hss.
  apply (compute_tm_all_tied_sigma_le_gen k P); try assumption.
  rewrite rate_trs_length; rewrite map_length; assumption.
Qed.

(** *** boolean checkers for concrete instances *)
Lemma tm_pair_check (two_c : bool) (P : params binary64) (trs : list (trating binary64))
      (opps : list (trating binary64 * list (trating binary64))) :
  forallb (fun io => forallb (fun tq =>
     fin (if two_c then @fmul binary64 BN (@ftwo binary64 BN) (@c_iq binary64 BN P (fst io) tq)
          else @c_iq binary64 BN P (fst io) tq)
     && negb (Bsign 53 1024 (@gamma_of binary64 P
                (if two_c then @fmul binary64 BN (@ftwo binary64 BN) (@c_iq binary64 BN P (fst io) tq)
                 else @c_iq binary64 BN P (fst io) tq) trs (fst io)))) (snd io)) opps = true ->
  forall ti opp, In (ti, opp) opps -> forall tq : trating binary64, In tq opp ->
     fin (if two_c then @fmul binary64 BN (@ftwo binary64 BN) (@c_iq binary64 BN P ti tq)
          else @c_iq binary64 BN P ti tq) = true
     /\ 0 <= RV (@gamma_of binary64 P
                   (if two_c then @fmul binary64 BN (@ftwo binary64 BN) (@c_iq binary64 BN P ti tq)
                    else @c_iq binary64 BN P ti tq) trs ti).
Proof.
  intros Hb ti opp Hio tq Hq.
  pose proof (proj1 (forallb_forall _ _) Hb (ti, opp) Hio) as H1. cbn [fst snd] in H1.
  pose proof (proj1 (forallb_forall _ _) H1 tq Hq) as H2.
  apply andb_true_iff in H2. destruct H2 as (H2 & H3). apply negb_true_iff in H3.
  split; [exact H2 | apply b64_sign_nonneg; exact H3].
Qed.

Lemma tm_share_delta_check (two_c : bool) (P : params binary64) (trs : list (trating binary64))
      (opps : list (trating binary64 * list (trating binary64))) :
  forallb (fun io => forallb (fun p =>
     fin (@fmul binary64 BN (@fdiv binary64 BN (@fpow2 binary64 BN (r_sigma p)) (t_ss (fst io)))
            (snd (fold_left (@tm_term binary64 BN two_c P trs (fst io)) (snd io)
                    (@fzero binary64 BN, @fzero binary64 BN))))) (t_team (fst io))) opps = true ->
  forall ti opp, In (ti, opp) opps -> forall p, In p (t_team ti) ->
     fin (@fmul binary64 BN (@fdiv binary64 BN (@fpow2 binary64 BN (r_sigma p)) (t_ss ti))
            (snd (fold_left (@tm_term binary64 BN two_c P trs ti) opp (@fzero binary64 BN, @fzero binary64 BN)))) = true.
Proof.
  intros Hb ti opp Hio p Hp.
  pose proof (proj1 (forallb_forall _ _) Hb (ti, opp) Hio) as H1. cbn [fst snd] in H1.
  exact (proj1 (forallb_forall _ _) H1 p Hp).
Qed.

End Model.

Lemma ranks_tied_check {F : Type} (trs : list (trating F)) :
  forallb (fun ti => forallb (fun tq => Nat.eqb (t_rank tq) (t_rank ti)) trs) trs = true ->
  forall ti tq : trating F, In ti trs -> In tq trs -> t_rank tq = t_rank ti.
Proof.
  intros Hb ti tq Hi Hq.
  pose proof (proj1 (forallb_forall _ _) Hb ti Hi) as H1.
  pose proof (proj1 (forallb_forall _ _) H1 tq Hq) as H2.
  apply Nat.eqb_eq. exact H2.
Qed.

(** ** Stand-ins for libm satisfying the premises (for the non-vacuity examples): the step
    function erfc := 2 / 1 / 0 on negative / zero / positive real values (1 on non-finite
    arguments), exp := |x| *)
Definition step_erfc (x : binary64) : binary64 :=
  if b64_ltb x (b64_of_Z 0) then b64_of_Z 2
  else if b64_ltb (b64_of_Z 0) x then b64_of_Z 0 else b64_of_Z 1.

Lemma step_erfc_range (y : binary64) : fin y = true -> fin (step_erfc y) = true /\ 0 <= RV (step_erfc y) <= 2.
Proof.
  intros _. unfold step_erfc. destruct b64_two_val as (F2 & E2).
  destruct (b64_ltb y (b64_of_Z 0)); [|destruct (b64_ltb (b64_of_Z 0) y)].
  - split; [exact F2 | rewrite E2; lra].
  - split; [exact b64_zero_fin | rewrite b64_zero_val; lra].
  - split; [exact b64_one_fin | rewrite b64_one_val; lra].
Qed.

Lemma step_erfc_ge1 (y : binary64) : fin y = true -> RV y <= 0 -> 1 <= RV (step_erfc y).
Proof.
  intros Fy Hy. unfold step_erfc. destruct b64_two_val as (F2 & E2).
  destruct (b64_ltb y (b64_of_Z 0)); [rewrite E2; lra|].
  rewrite (b64_ltb_spec _ y b64_zero_fin Fy), b64_zero_val.
  rewrite Rlt_bool_false by exact Hy. rewrite b64_one_val. lra.
Qed.

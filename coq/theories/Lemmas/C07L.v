(** * C07L: no rating inflation -- the precision-weighted mu change sums to zero over a game
    (over R).  Only the standard real-number axioms; no fact about the normal CDF is used
    (the Thurstone-Mosteller cancellation is purely algebraic: the winner's and the loser's
    correction are the same number [v x t]; [vt] is odd in [x] away from [x = 0]). *)
From Coq Require Import List ZArith Arith Bool Reals Lra Lia Permutation.
From OSV Require Import Num Order Gauss Core RInst.
From OSV.Lemmas Require Import OrderL RateL SumL.
Import ListNotations.
Open Scope R_scope.

Section C07.
Variables Phi Phiinv : R -> R.
Local Instance RN : Num R := RNum Phi Phiinv.

(** read the model's number operations as the real ones *)
Lemma fhalf_R : (fhalf : R) = / 2. Proof. exact (R_fhalf Phi Phiinv). Qed.
Lemma cdf_R x : cdf x = Phi x. Proof. exact (R_cdf Phi Phiinv x). Qed.
Lemma pdf_R x : pdf x = phi x. Proof. exact (R_pdf Phi Phiinv x). Qed.
Lemma reduce_add_R l : reduce_add l = Rsum l. Proof. exact (R_reduce_add Phi Phiinv l). Qed.
Ltac rnum := cbn [fadd fsub fmul fdiv fneg fabs fsqrt fexp fpow2 fltb fleb feqb fofZ fzero fone ftwo RN RNum].

(** ** what is observed: the total mu change of a team's members *)
Definition mu_gain (old new : list (rating R)) : R :=
  Rsum (map (fun pr => r_mu (snd pr) - r_mu (fst pr)) (combine old new)).
Definition sumsq (team : list (rating R)) : R := Rsum (map (fun p => r_sigma p * r_sigma p) team).

Lemma observable (P : params R) (ti : trating R) (om de : R) :
  t_ss ti = sumsq (t_team ti) -> t_ss ti <> 0 ->
  mu_gain (t_team ti) (update_team P ti (om, de)) = om.
Proof.
  intros Hss Hnz. unfold mu_gain, update_team. rewrite combine_map_r, map_map. cbn [fst snd].
  rewrite (Rsum_map_ext _ (fun p => (r_sigma p * r_sigma p) * (om / t_ss ti))).
  2:{ intros p _. unfold update_player, set_mu_sigma. cbn [r_mu]. rnum.
      field. exact Hnz. }
  rewrite Rsum_map_scal_r. fold (sumsq (t_team ti)). rewrite <- Hss. field. exact Hnz.
Qed.

(** ** the (omega, delta) pairs that [compute] hands to [update_team] *)
Definition pl_qs (P : params R) (trs : list (trating R)) : list (nat * (trating R * (R * nat))) :=
  combine (seq 0 (length trs)) (combine trs (combine (pl_sum_q trs (pl_c P trs)) (pl_a trs))).

Definition od_of (k : kind) (P : params R) (trs : list (trating R)) : list (R * R) :=
  match k with
  | PL => map (fun it => pl_omega_delta P trs (pl_c P trs) (pl_qs P trs) (fst it) (fst (snd it))) (pl_qs P trs)
  | BTF => map (fun io => fold_left (bt_term P trs (fst io)) (snd io) (fzero, fzero)) (opponents_full trs)
  | BTP => map (fun io => fold_left (bt_term P trs (fst io)) (snd io) (fzero, fzero)) (opponents_part trs)
  | TMF => map (fun io => fold_left (tm_term false P trs (fst io)) (snd io) (fzero, fzero)) (opponents_full trs)
  | TMP => map (fun io => fold_left (tm_term true P trs (fst io)) (snd io) (fzero, fzero)) (opponents_part trs)
  end.
Definition omega_of (k : kind) (P : params R) (trs : list (trating R)) : list R := map fst (od_of k P trs).

Lemma pl_qs_proj P trs : map (fun it : nat * (trating R * (R * nat)) => fst (snd it)) (pl_qs P trs) = trs.
Proof.
  unfold pl_qs. rewrite <- (map_map snd fst). rewrite combine_map_snd.
  - apply combine_map_fst. unfold pl_sum_q, pl_a. rewrite combine_length, !map_length. lia.
  - unfold pl_sum_q, pl_a. rewrite seq_length, !combine_length, !map_length. lia.
Qed.
Lemma opponents_part_fst (trs : list (trating R)) : map fst (opponents_part trs) = trs.
Proof. unfold opponents_part. apply combine_map_fst. now rewrite ladder_pairs_length. Qed.
Lemma opponents_full_fst (trs : list (trating R)) : map fst (opponents_full trs) = trs.
Proof. apply rows_fst. Qed.

Lemma map_update_combine {X} (P : params R) (proj : X -> trating R) (OD : X -> R * R) (l : list X) :
  map (fun x => update_team P (proj x) (OD x)) l
  = map (fun p => update_team P (fst p) (snd p)) (combine (map proj l) (map OD l)).
Proof. rewrite combine_map_same, map_map. reflexivity. Qed.

Lemma compute_od k P trs :
  compute k P trs = map (fun p => update_team P (fst p) (snd p)) (combine trs (od_of k P trs)).
Proof.
  destruct k; cbn [compute od_of].
  - unfold compute_pl. fold (pl_qs P trs).
    etransitivity; [apply (map_update_combine P (fun it => fst (snd it)))|].
    now rewrite pl_qs_proj.
  - unfold compute_pairs. etransitivity; [apply (map_update_combine P fst)|]. now rewrite opponents_full_fst.
  - unfold compute_pairs. etransitivity; [apply (map_update_combine P fst)|]. now rewrite opponents_part_fst.
  - unfold compute_pairs. etransitivity; [apply (map_update_combine P fst)|]. now rewrite opponents_full_fst.
  - unfold compute_pairs. etransitivity; [apply (map_update_combine P fst)|]. now rewrite opponents_part_fst.
Qed.
Lemma od_of_length k P trs : length (od_of k P trs) = length trs.
Proof.
  destruct k; cbn [od_of]; rewrite map_length.
  - rewrite <- (pl_qs_proj P trs) at 2. now rewrite map_length.
  - unfold opponents_full. apply rows_length.
  - rewrite <- (opponents_part_fst trs) at 2. now rewrite map_length.
  - unfold opponents_full. apply rows_length.
  - rewrite <- (opponents_part_fst trs) at 2. now rewrite map_length.
Qed.

(** the domain condition on one team rating *)
Definition tr_ok (t : trating R) : Prop := t_ss t = sumsq (t_team t) /\ 0 < t_ss t.

(** the observed sum is the sum of omega / team variance *)
Definition gain_sum (trs : list (trating R)) (res : list (list (rating R))) : R :=
  Rsum (map (fun p => mu_gain (t_team (fst p)) (snd p) / t_ss (fst p)) (combine trs res)).
Definition omega_sum (trs : list (trating R)) (ods : list (R * R)) : R :=
  Rsum (map (fun p => fst (snd p) / t_ss (fst p)) (combine trs ods)).

Lemma gain_sum_omega k P trs : Forall tr_ok trs ->
  gain_sum trs (compute k P trs) = omega_sum trs (od_of k P trs).
Proof.
  intros Hok. unfold gain_sum, omega_sum. rewrite compute_od, combine_map_combine, map_map.
  apply Rsum_map_ext. intros [t [om de]] Hin. cbn [fst snd].
  apply in_combine_l in Hin. rewrite Forall_forall in Hok. destruct (Hok t Hin) as [Hss Hpos].
  rewrite observable; [reflexivity|exact Hss|lra].
Qed.

(** ** the pairwise models: omega_i / ss_i is a sum of pair terms [h ti tq] *)
Lemma pairs_omega_sum (term : trating R -> R * R -> trating R -> R * R) (h : trating R -> trating R -> R)
      (opp : list (trating R * list (trating R))) :
  Forall (fun t => 0 < t_ss t) (map fst opp) ->
  (forall ti od tq, fst (term ti od tq) = fst od + t_ss ti * h ti tq) ->
  omega_sum (map fst opp) (map (fun io => fold_left (term (fst io)) (snd io) (fzero, fzero)) opp)
  = Rsum (map (fun io => Rsum (map (h (fst io)) (snd io))) opp).
Proof.
  intros Hpos Hterm. unfold omega_sum. rewrite combine_map_same, map_map.
  apply Rsum_map_ext. intros io Hin. cbn [fst snd].
  rewrite (fold_left_fst_sum _ (fun tq => t_ss (fst io) * h (fst io) tq)) by (intros; apply Hterm).
  rewrite Rsum_map_scal. cbn [fst]. rnum.
  rewrite Forall_forall in Hpos. assert (0 < t_ss (fst io)) by (apply Hpos; now apply in_map).
  field. lra.
Qed.

(** *** Bradley-Terry *)
Definition bt_s (ti tq : trating R) : R :=
  if Nat.ltb (t_rank ti) (t_rank tq) then 1 else if Nat.eqb (t_rank tq) (t_rank ti) then / 2 else 0.
Definition bt_p (P : params R) (ti tq : trating R) : R :=
  1 / (1 + exp ((t_mu tq - t_mu ti) / c_iq P ti tq)).
Definition bt_h (P : params R) (ti tq : trating R) : R := (bt_s ti tq - bt_p P ti tq) / c_iq P ti tq.

Lemma c_iq_sym P (ti tq : trating R) : c_iq P ti tq = c_iq P tq ti.
Proof. unfold c_iq. rnum. f_equal. ring. Qed.
Lemma c_iq_pos P (ti tq : trating R) : 0 < p_beta P -> 0 < t_ss ti -> 0 < t_ss tq -> 0 < c_iq P ti tq.
Proof.
  intros Hb Hi Hq. unfold c_iq. rnum. apply sqrt_lt_R0. nra.
Qed.

Lemma bt_term_fst P trs ti od tq : fst (bt_term P trs ti od tq) = fst od + t_ss ti * bt_h P ti tq.
Proof.
  unfold bt_term, bt_h, bt_s, bt_p. cbn [fst]. rewrite fhalf_R. rnum.
  destruct (Nat.ltb (t_rank ti) (t_rank tq)); [|destruct (Nat.eqb (t_rank tq) (t_rank ti))];
    unfold Rdiv; ring.
Qed.

Lemma bt_s_sym ti tq : bt_s ti tq + bt_s tq ti = 1.
Proof.
  unfold bt_s.
  destruct (Nat.ltb_spec (t_rank ti) (t_rank tq)), (Nat.ltb_spec (t_rank tq) (t_rank ti));
    destruct (Nat.eqb_spec (t_rank tq) (t_rank ti)), (Nat.eqb_spec (t_rank ti) (t_rank tq)); try lia; lra.
Qed.
Lemma bt_p_sym P ti tq : bt_p P ti tq + bt_p P tq ti = 1.
Proof.
  unfold bt_p. rewrite (c_iq_sym P tq ti).
  replace ((t_mu ti - t_mu tq) / c_iq P ti tq) with (- ((t_mu tq - t_mu ti) / c_iq P ti tq))
    by (unfold Rdiv; ring).
  rewrite exp_Ropp. pose proof (exp_pos ((t_mu tq - t_mu ti) / c_iq P ti tq)) as He.
  field. split; lra.
Qed.
Lemma bt_h_antisym P ti tq : bt_h P ti tq + bt_h P tq ti = 0.
Proof.
  unfold bt_h. rewrite (c_iq_sym P tq ti).
  pose proof (bt_s_sym ti tq). pose proof (bt_p_sym P ti tq).
  replace ((bt_s ti tq - bt_p P ti tq) / c_iq P ti tq + (bt_s tq ti - bt_p P tq ti) / c_iq P ti tq)
    with (((bt_s ti tq + bt_s tq ti) - (bt_p P ti tq + bt_p P tq ti)) / c_iq P ti tq)
    by (unfold Rdiv; ring).
  replace (bt_s ti tq + bt_s tq ti - (bt_p P ti tq + bt_p P tq ti)) with 0 by lra.
  unfold Rdiv; ring.
Qed.

Lemma omega_sum_btf P trs : Forall (fun t => 0 < t_ss t) trs -> omega_sum trs (od_of BTF P trs) = 0.
Proof.
  intros Hpos. cbn [od_of]. rewrite <- (opponents_full_fst trs) at 1.
  rewrite (pairs_omega_sum _ (bt_h P)).
  - apply Rsum_rows_antisym. apply bt_h_antisym.
  - now rewrite opponents_full_fst.
  - apply bt_term_fst.
Qed.
Lemma omega_sum_btp P trs : Forall (fun t => 0 < t_ss t) trs -> omega_sum trs (od_of BTP P trs) = 0.
Proof.
  intros Hpos. cbn [od_of]. rewrite <- (opponents_part_fst trs) at 1.
  rewrite (pairs_omega_sum _ (bt_h P)).
  - apply Rsum_ladder_antisym. apply bt_h_antisym.
  - now rewrite opponents_part_fst.
  - apply bt_term_fst.
Qed.

(** *** Plackett-Luce *)
Definition pl_payload (P : params R) (trs : list (trating R)) (t : trating R) : trating R * (R * nat) :=
  (t, (reduce_add (map (fun ti => fexp (fdiv (t_mu ti) (pl_c P trs)))
                       (filter (fun ti => Nat.leb (t_rank t) (t_rank ti)) trs)),
       length (filter (fun tq => Nat.eqb (t_rank t) (t_rank tq)) trs))).
Lemma pl_qs_shape P trs :
  pl_qs P trs = combine (seq 0 (length (map (pl_payload P trs) trs))) (map (pl_payload P trs) trs).
Proof. unfold pl_qs, pl_sum_q, pl_a. rewrite combine_map_same, combine_map_r, map_length. reflexivity. Qed.

(** the contribution of rank group member [qt] to the omega accumulator of [it] *)
Definition pl_w (c : R) (it qt : nat * (trating R * (R * nat))) : R :=
  (if Nat.leb (t_rank (fst (snd qt))) (t_rank (fst (snd it)))
   then (if Nat.eqb (fst qt) (fst it) then 1 else 0) else 0) / IZR (Z.of_nat (snd (snd (snd qt))))
  - (if Nat.leb (t_rank (fst (snd qt))) (t_rank (fst (snd it)))
     then exp (t_mu (fst (snd it)) / c) else 0) / fst (snd (snd qt)) / IZR (Z.of_nat (snd (snd (snd qt)))).

Lemma pl_step_fst c it od qt :
  fst (pl_step (fst it) (fst (snd it)) (fexp (fdiv (t_mu (fst (snd it))) c)) od qt) = fst od + pl_w c it qt.
Proof.
  unfold pl_step, pl_w. rnum.
  destruct (Nat.leb (t_rank (fst (snd qt))) (t_rank (fst (snd it)))); [|cbn [fst]; unfold Rdiv; ring].
  destruct (Nat.eqb (fst qt) (fst it)); cbn [fst]; unfold Rdiv; ring.
Qed.

Lemma mul_div_cancel x s c : s <> 0 -> x * (s / c) / s = x / c.
Proof.
  intros Hs. unfold Rdiv. replace (x * (s * / c) * / s) with (x * / c * (s * / s)) by ring.
  rewrite Rinv_r by assumption. ring.
Qed.

Lemma omega_sum_pl P trs : Forall (fun t => 0 < t_ss t) trs -> omega_sum trs (od_of PL P trs) = 0.
Proof.
  intros Hpos. cbn [od_of]. unfold omega_sum. rewrite <- (pl_qs_proj P trs) at 1.
  rewrite combine_map_same, map_map. cbn [fst snd].
  set (c := pl_c P trs). set (qs := pl_qs P trs).
  rewrite (Rsum_map_ext _ (fun it => Rsum (map (pl_w c it) qs) / c)).
  2:{ intros it Hin. unfold pl_omega_delta. cbn [fst].
      rewrite (fold_left_fst_sum _ (pl_w c it)) by (intros; apply pl_step_fst). rnum. cbn [fst].
      assert (Ht : In (fst (snd it)) trs).
      { rewrite <- (pl_qs_proj P trs). now apply (in_map (fun it : nat * (trating R * (R * nat)) => fst (snd it))). }
      rewrite Forall_forall in Hpos. specialize (Hpos _ Ht).
      rewrite Rplus_0_l. apply mul_div_cancel. lra. }
  rewrite Rsum_map_div, Rsum_swap. rewrite Rsum_map_zero_ext; [unfold Rdiv; ring|].
  intros [q x] Hqt. unfold pl_w. cbn [fst snd]. rewrite Rsum_map_minus, !Rsum_map_div.
  (* the payload of qt *)
  assert (Hx : exists t, In t trs /\ x = pl_payload P trs t).
  { unfold qs in Hqt. rewrite pl_qs_shape in Hqt. apply in_combine_r in Hqt.
    apply in_map_iff in Hqt. destruct Hqt as [t [E Ht]]. exists t. split; [exact Ht|now symmetry]. }
  destruct Hx as [tq [Htq ->]]. cbn [pl_payload fst snd].
  (* the indicator of "same index" *)
  assert (HU : Rsum (map (fun it : nat * (trating R * (R * nat)) =>
                 if Nat.leb (t_rank tq) (t_rank (fst (snd it))) then (if Nat.eqb q (fst it) then 1 else 0) else 0) qs) = 1).
  { rewrite (Rsum_map_ext _ (fun it => if Nat.eqb q (fst it)
               then (if Nat.leb (t_rank tq) (t_rank (fst (snd it))) then 1 else 0) else 0))
      by (intros it _; destruct (Nat.leb _ _), (Nat.eqb _ _); reflexivity).
    unfold qs in *. rewrite pl_qs_shape in *.
    rewrite (Rsum_index_pick (fun it : nat * (trating R * (R * nat)) =>
               if Nat.leb (t_rank tq) (t_rank (fst (snd it))) then 1 else 0) _ 0 q (pl_payload P trs tq) Hqt).
    cbn [pl_payload fst snd]. now rewrite Nat.leb_refl. }
  (* the sum of the exponentials of the teams ranked no better than tq *)
  set (F := fun ti : trating R => if Nat.leb (t_rank tq) (t_rank ti) then exp (t_mu ti / c) else 0).
  assert (HV : Rsum (map (fun it : nat * (trating R * (R * nat)) =>
                 if Nat.leb (t_rank tq) (t_rank (fst (snd it))) then exp (t_mu (fst (snd it)) / c) else 0) qs)
               = Rsum (map F trs)).
  { transitivity (Rsum (map F (map (fun it : nat * (trating R * (R * nat)) => fst (snd it)) qs))).
    - rewrite map_map. reflexivity.
    - unfold qs. now rewrite pl_qs_proj. }
  assert (HS : reduce_add (map (fun ti => fexp (fdiv (t_mu ti) (pl_c P trs)))
                 (filter (fun ti => Nat.leb (t_rank tq) (t_rank ti)) trs)) = Rsum (map F trs)).
  { rewrite reduce_add_R, Rsum_filter. reflexivity. }
  assert (HSpos : 0 < Rsum (map F trs)).
  { apply (Rsum_if_pos (fun ti => Nat.leb (t_rank tq) (t_rank ti)) (fun ti => exp (t_mu ti / c)) trs tq).
    - intros a _. apply exp_pos.
    - exact Htq.
    - apply Nat.leb_refl. }
  rewrite HU, HV, HS.
  replace (Rsum (map F trs) / Rsum (map F trs)) with 1 by (field; lra).
  unfold Rdiv; ring.
Qed.

(** *** Thurstone-Mosteller *)
Definition tm_c (two_c : bool) (P : params R) (ti tq : trating R) : R :=
  if two_c then 2 * c_iq P ti tq else c_iq P ti tq.
Definition tm_h (two_c : bool) (P : params R) (ti tq : trating R) : R :=
  (if Nat.ltb (t_rank ti) (t_rank tq) then v ((t_mu ti - t_mu tq) / tm_c two_c P ti tq) (p_kappa P / tm_c two_c P ti tq)
   else if Nat.ltb (t_rank tq) (t_rank ti)
        then - v (- ((t_mu ti - t_mu tq) / tm_c two_c P ti tq)) (p_kappa P / tm_c two_c P ti tq)
        else vt ((t_mu ti - t_mu tq) / tm_c two_c P ti tq) (p_kappa P / tm_c two_c P ti tq))
  / tm_c two_c P ti tq.

Lemma tm_term_fst two_c P trs ti od tq :
  fst (tm_term two_c P trs ti od tq) = fst od + t_ss ti * tm_h two_c P ti tq.
Proof.
  unfold tm_term, tm_h, tm_c.
  destruct two_c; destruct (Nat.ltb (t_rank ti) (t_rank tq)); try destruct (Nat.ltb (t_rank tq) (t_rank ti));
    cbn [fst]; rnum; unfold Rdiv; ring.
Qed.

Lemma tm_c_sym two_c P ti tq : tm_c two_c P ti tq = tm_c two_c P tq ti.
Proof. unfold tm_c. now rewrite (c_iq_sym P ti tq). Qed.
Lemma tm_c_pos two_c P ti tq : 0 < p_beta P -> 0 < t_ss ti -> 0 < t_ss tq -> 0 < tm_c two_c P ti tq.
Proof. intros Hb Hi Hq. pose proof (c_iq_pos P ti tq Hb Hi Hq). unfold tm_c. destruct two_c; lra. Qed.

(** [vt] is odd in [x], except at [x = 0] on the asymptotic branch, where the code returns [t] *)
Definition vt_half (x t : R) : R :=
  if Reqb x 0 then (if Rltb (Phi t - Phi (- t)) f1em5 then t else 0) else 0.

Lemma vt_sym_sum x t : vt x t + vt (- x) t = 2 * vt_half x t.
Proof.
  unfold vt, vt_half. rnum. rewrite Rabs_Ropp. rewrite !cdf_R, !pdf_R.
  destruct (Req_EM_T x 0) as [->|Hx].
  - rewrite Ropp_0, Rabs_R0, !Rminus_0_r.
    replace (Reqb 0 0) with true by (symmetry; now apply Reqb_true).
    replace (Rltb 0 0) with false by (symmetry; apply Rltb_false; lra).
    destruct (Rltb (Phi t - Phi (- t)) f1em5); [lra|].
    rewrite phi_even. unfold Rdiv; ring.
  - replace (Reqb x 0) with false by (symmetry; now apply Reqb_false).
    destruct (Rltb (Phi (t - Rabs x) - Phi (- t - Rabs x)) f1em5);
      unfold Rltb; destruct (Rlt_dec x 0), (Rlt_dec (- x) 0); try lra; try (unfold Rdiv; ring);
      exfalso; apply Hx; lra.
Qed.
Lemma vt_half_opp x t : vt_half (- x) t = vt_half x t.
Proof.
  unfold vt_half. destruct (Req_EM_T x 0) as [->|Hx]; [now rewrite Ropp_0|].
  replace (Reqb x 0) with false by (symmetry; now apply Reqb_false).
  replace (Reqb (- x) 0) with false; [reflexivity|]. symmetry. apply Reqb_false. lra.
Qed.

(** the residue of one ordered tied pair *)
Definition tm_res (two_c : bool) (P : params R) (ti tq : trating R) : R :=
  if Nat.eqb (t_rank ti) (t_rank tq)
  then vt_half ((t_mu ti - t_mu tq) / tm_c two_c P ti tq) (p_kappa P / tm_c two_c P ti tq) / tm_c two_c P ti tq
  else 0.

Lemma tm_h_sym two_c P ti tq :
  tm_h two_c P ti tq + tm_h two_c P tq ti = tm_res two_c P ti tq + tm_res two_c P tq ti.
Proof.
  unfold tm_h, tm_res. rewrite (tm_c_sym two_c P tq ti). set (c := tm_c two_c P ti tq).
  replace ((t_mu tq - t_mu ti) / c) with (- ((t_mu ti - t_mu tq) / c)) by (unfold Rdiv; ring).
  set (X := (t_mu ti - t_mu tq) / c). set (t := p_kappa P / c).
  destruct (Nat.ltb_spec (t_rank ti) (t_rank tq)), (Nat.ltb_spec (t_rank tq) (t_rank ti));
    destruct (Nat.eqb_spec (t_rank ti) (t_rank tq)), (Nat.eqb_spec (t_rank tq) (t_rank ti)); try lia.
  - rewrite Ropp_involutive. unfold Rdiv; ring.
  - unfold Rdiv; ring.
  - rewrite vt_half_opp. pose proof (vt_sym_sum X t) as E.
    replace (vt X t) with (2 * vt_half X t - vt (- X) t) by lra. unfold Rdiv; ring.
Qed.

Lemma tm_res_bounds two_c P ti tq : 0 < p_kappa P ->
  0 <= tm_res two_c P ti tq
    <= if Nat.eqb (t_rank ti) (t_rank tq) then p_kappa P / (tm_c two_c P ti tq * tm_c two_c P ti tq) else 0.
Proof.
  intros Hk. unfold tm_res. destruct (Nat.eqb (t_rank ti) (t_rank tq)); [|lra].
  set (c := tm_c two_c P ti tq).
  assert (Hcc : 0 <= p_kappa P / (c * c)).
  { unfold Rdiv. apply Rmult_le_pos; [lra|]. destruct (Req_EM_T (c * c) 0) as [E|E].
    - rewrite E, Rinv_0. lra.
    - left. apply Rinv_0_lt_compat. nra. }
  assert (Hkc : p_kappa P / c / c = p_kappa P / (c * c)).
  { unfold Rdiv. rewrite Rinv_mult. ring. }
  unfold vt_half. destruct (Reqb _ 0); [destruct (Rltb _ _)|].
  - rewrite Hkc. lra.
  - replace (0 / c) with 0 by (unfold Rdiv; ring). lra.
  - replace (0 / c) with 0 by (unfold Rdiv; ring). lra.
Qed.

Lemma tm_res_zero two_c P ti tq : 0 < tm_c two_c P ti tq ->
  (t_rank ti = t_rank tq -> t_mu ti <> t_mu tq) -> tm_res two_c P ti tq = 0.
Proof.
  intros Hc Hne. unfold tm_res. destruct (Nat.eqb_spec (t_rank ti) (t_rank tq)) as [E|E]; [|reflexivity].
  specialize (Hne E). unfold vt_half.
  replace (Reqb ((t_mu ti - t_mu tq) / tm_c two_c P ti tq) 0) with false; [unfold Rdiv; ring|].
  symmetry. apply Reqb_false. intros Hz. apply Hne.
  assert (t_mu ti - t_mu tq = 0); [|lra].
  replace (t_mu ti - t_mu tq) with ((t_mu ti - t_mu tq) / tm_c two_c P ti tq * tm_c two_c P ti tq) by (field; lra).
  rewrite Hz. ring.
Qed.

Lemma omega_sum_tmf P trs : Forall (fun t => 0 < t_ss t) trs ->
  omega_sum trs (od_of TMF P trs)
  = Rsum (map (fun io => Rsum (map (tm_res false P (fst io)) (snd io))) (opponents_full trs)).
Proof.
  intros Hpos. cbn [od_of]. rewrite <- (opponents_full_fst trs) at 1.
  rewrite (pairs_omega_sum _ (tm_h false P)).
  - unfold opponents_full. rewrite !Rsum_rows. apply Rsum_map_ext. intros [a b] _. apply tm_h_sym.
  - now rewrite opponents_full_fst.
  - apply tm_term_fst.
Qed.
Lemma omega_sum_tmp P trs : Forall (fun t => 0 < t_ss t) trs ->
  omega_sum trs (od_of TMP P trs)
  = Rsum (map (fun io => Rsum (map (tm_res true P (fst io)) (snd io))) (opponents_part trs)).
Proof.
  intros Hpos. cbn [od_of]. rewrite <- (opponents_part_fst trs) at 1.
  rewrite (pairs_omega_sum _ (tm_h true P)).
  - unfold opponents_part. rewrite !Rsum_ladder. apply Rsum_map_ext. intros [a b] _. apply tm_h_sym.
  - now rewrite opponents_part_fst.
  - apply tm_term_fst.
Qed.

(** ** the statements at the [compute] level, for any list of team ratings on the domain
    (whatever the [t_rank] values are) *)
Definition trs_dom (trs : list (trating R)) : Prop :=
  Forall (fun t => t_team t <> [] /\ t_ss t = Rsum (map (fun p => r_sigma p * r_sigma p) (t_team t)) /\ 0 < t_ss t) trs.
Lemma trs_dom_ok trs : trs_dom trs -> Forall tr_ok trs.
Proof. apply Forall_impl. intros t [_ [H1 H2]]. split; assumption. Qed.
Lemma trs_dom_pos trs : trs_dom trs -> Forall (fun t => 0 < t_ss t) trs.
Proof. apply Forall_impl. intros t [_ [H1 H2]]. assumption. Qed.

Lemma zero_compute k P trs : k = PL \/ k = BTF \/ k = BTP ->
  (2 <= length trs)%nat -> 0 < p_beta P -> trs_dom trs -> gain_sum trs (compute k P trs) = 0.
Proof.
  intros Hk _ _ Hd. rewrite gain_sum_omega by (now apply trs_dom_ok).
  apply trs_dom_pos in Hd. destruct Hk as [->|[->| ->]].
  - now apply omega_sum_pl.
  - now apply omega_sum_btf.
  - now apply omega_sum_btp.
Qed.

(** the omega-level reading of the same facts *)
Lemma zero_omega k P trs : k = PL \/ k = BTF \/ k = BTP ->
  (2 <= length trs)%nat -> 0 < p_beta P -> Forall (fun t => 0 < t_ss t) trs ->
  Rsum (map (fun p => snd p / t_ss (fst p)) (combine trs (omega_of k P trs))) = 0.
Proof.
  intros Hk _ _ Hd.
  assert (E : Rsum (map (fun p => snd p / t_ss (fst p)) (combine trs (omega_of k P trs))) = omega_sum trs (od_of k P trs)).
  { unfold omega_of, omega_sum. generalize (od_of k P trs). clear. induction trs as [|t trs IH]; intros [|od ods]; cbn; try reflexivity.
    now rewrite IH. }
  rewrite E. destruct Hk as [->|[->| ->]].
  - now apply omega_sum_pl.
  - now apply omega_sum_btf.
  - now apply omega_sum_btp.
Qed.

(** Thurstone-Mosteller: the draw-margin residue *)
Definition tm_opp (two_c : bool) (trs : list (trating R)) : list (trating R * list (trating R)) :=
  if two_c then opponents_part trs else opponents_full trs.
Definition tm_kind (two_c : bool) : kind := if two_c then TMP else TMF.
Lemma tm_opp_in two_c trs io tq : In io (tm_opp two_c trs) -> In tq (snd io) -> In (fst io) trs /\ In tq trs.
Proof.
  destruct two_c; cbn [tm_opp]; intros Hio Hq.
  - split; [unfold opponents_part in Hio; destruct io as [a nb]; now apply in_combine_l in Hio|].
    eapply ladder_in; [exact Hio|exact Hq].
  - split; [now apply rows_in_fst|]. eapply rows_in; [exact Hio|exact Hq].
Qed.
Lemma omega_sum_tm two_c P trs : Forall (fun t => 0 < t_ss t) trs ->
  omega_sum trs (od_of (tm_kind two_c) P trs)
  = Rsum (map (fun io => Rsum (map (tm_res two_c P (fst io)) (snd io))) (tm_opp two_c trs)).
Proof. destruct two_c; [apply omega_sum_tmp|apply omega_sum_tmf]. Qed.

Lemma tm_compute_bound two_c P trs :
  (2 <= length trs)%nat -> 0 < p_beta P -> 0 < p_kappa P -> trs_dom trs ->
  0 <= gain_sum trs (compute (tm_kind two_c) P trs)
    <= Rsum (map (fun io => Rsum (map (fun tq =>
          if Nat.eqb (t_rank (fst io)) (t_rank tq)
          then p_kappa P / (tm_c two_c P (fst io) tq * tm_c two_c P (fst io) tq) else 0) (snd io)))
         (tm_opp two_c trs)).
Proof.
  intros _ _ Hk Hd. rewrite gain_sum_omega by (now apply trs_dom_ok).
  rewrite omega_sum_tm by (now apply trs_dom_pos). split.
  - apply Rsum_map_nonneg. intros io _. apply Rsum_map_nonneg. intros tq _. now apply tm_res_bounds.
  - apply (Rsum_opp_le (tm_res two_c P)
             (fun ti tq => if Nat.eqb (t_rank ti) (t_rank tq)
                           then p_kappa P / (tm_c two_c P ti tq * tm_c two_c P ti tq) else 0)).
    intros io tq _ _. now apply tm_res_bounds.
Qed.

Lemma tm_compute_zero two_c P trs :
  (2 <= length trs)%nat -> 0 < p_beta P -> 0 < p_kappa P -> trs_dom trs ->
  Forall (fun io => Forall (fun tq => t_rank (fst io) = t_rank tq -> t_mu (fst io) <> t_mu tq) (snd io))
         (tm_opp two_c trs) ->
  gain_sum trs (compute (tm_kind two_c) P trs) = 0.
Proof.
  intros _ Hb _ Hd Hne. rewrite gain_sum_omega by (now apply trs_dom_ok).
  pose proof (trs_dom_pos trs Hd) as Hpos.
  rewrite omega_sum_tm by assumption.
  rewrite (Rsum_opp_ext _ (fun _ _ => 0)).
  - apply Rsum_map_zero_ext. intros io _. apply Rsum_map_zero.
  - intros io tq Hio Hq. destruct (tm_opp_in two_c trs io tq Hio Hq) as [Hi Hq'].
    rewrite Forall_forall in Hpos, Hne. specialize (Hne io Hio). rewrite Forall_forall in Hne.
    apply tm_res_zero; [apply tm_c_pos; auto|now apply Hne].
Qed.

(** ** the lift to [rate_core] *)
Definition infl_var (tau : R) (team : list (rating R)) : R :=
  Rsum (map (fun p => r_sigma p * r_sigma p + tau * tau) team).
Definition rate_sum (tau : R) (teams res : list (list (rating R))) : R :=
  Rsum (map (fun tr => mu_gain (fst tr) (snd tr) / infl_var tau (fst tr)) (combine teams res)).
Definition gsum' (teams res : list (list (rating R))) : R :=
  Rsum (map (fun p => mu_gain (fst p) (snd p) / sumsq (fst p)) (combine teams res)).

Lemma mu_gain_clamp old new :
  mu_gain old (map (fun pp => clamp_player (fst pp) (snd pp)) (combine old new)) = mu_gain old new.
Proof.
  unfold mu_gain. rewrite combine_map_combine, map_map. apply Rsum_map_ext. intros [a b] _. cbn [fst snd].
  unfold clamp_player. destruct (fleb (r_sigma b) (r_sigma a)); reflexivity.
Qed.
Lemma rate_sum_clamp tau teams res : rate_sum tau teams (clamp teams res) = rate_sum tau teams res.
Proof.
  unfold rate_sum, clamp. rewrite combine_map_combine, map_map. apply Rsum_map_ext. intros [t r] _.
  cbn [fst snd]. now rewrite mu_gain_clamp.
Qed.
Lemma mu_gain_inflate tau t r : mu_gain (map (inflate tau) t) r = mu_gain t r.
Proof. unfold mu_gain. rewrite combine_map_l, map_map. reflexivity. Qed.
Lemma inflate_sq tau p : 0 < r_sigma p * r_sigma p + tau * tau ->
  r_sigma (inflate tau p) * r_sigma (inflate tau p) = r_sigma p * r_sigma p + tau * tau.
Proof. intros H. unfold inflate, set_sigma, set_mu_sigma. cbn [r_sigma]. rnum. apply sqrt_sqrt. lra. Qed.
Lemma sumsq_inflate tau t : Forall (fun p => 0 < r_sigma p * r_sigma p + tau * tau) t ->
  sumsq (map (inflate tau) t) = infl_var tau t.
Proof.
  intros H. unfold sumsq, infl_var. rewrite map_map. apply Rsum_map_ext. intros p Hp.
  rewrite Forall_forall in H. now apply inflate_sq, H.
Qed.
Lemma rate_sum_inflate tau teams res :
  Forall (Forall (fun p => 0 < r_sigma p * r_sigma p + tau * tau)) teams ->
  rate_sum tau teams res = gsum' (map (map (inflate tau)) teams) res.
Proof.
  intros H. unfold rate_sum, gsum'. rewrite combine_map_l, map_map. apply Rsum_map_ext. intros [t r] Hin.
  cbn [fst snd]. apply in_combine_l in Hin. rewrite mu_gain_inflate, sumsq_inflate; [reflexivity|].
  rewrite Forall_forall in H. now apply H.
Qed.
Lemma gsum'_trs trs res : Forall tr_ok trs -> gsum' (map t_team trs) res = gain_sum trs res.
Proof.
  intros H. unfold gsum', gain_sum. rewrite combine_map_l, map_map. apply Rsum_map_ext. intros [t r] Hin.
  cbn [fst snd]. apply in_combine_l in Hin. rewrite Forall_forall in H. destruct (H t Hin) as [E _]. now rewrite E.
Qed.

Definition team_dom (t : list (rating R)) : Prop := t <> [] /\ Forall (fun p => 0 < r_sigma p * r_sigma p) t.
Lemma team_rating_ss t rk : t_ss (team_rating t rk) = Rsum (map (fun p => r_sigma p * r_sigma p) t).
Proof. unfold team_rating. cbn [t_ss]. rewrite reduce_add_R. reflexivity. Qed.
Lemma team_rating_mu t rk : t_mu (team_rating t rk) = Rsum (map r_mu t).
Proof. unfold team_rating. cbn [t_mu]. now rewrite reduce_add_R. Qed.
Lemma team_ratings_dom g rk : Forall team_dom g -> trs_dom (team_ratings g rk).
Proof.
  intros H. unfold trs_dom, team_ratings. rewrite Forall_map. rewrite Forall_forall in *. intros [t r] Hin.
  cbn [fst snd]. apply in_combine_l in Hin. destruct (H t Hin) as [Hne Hp].
  rewrite team_rating_ss. cbn [t_team team_rating]. split; [exact Hne|]. split; [reflexivity|].
  apply Rsum_pos; [destruct t; [congruence|discriminate]|]. now rewrite Forall_map.
Qed.
Lemma team_ratings_mu g rk : Forall (fun t => t_mu t = Rsum (map r_mu (t_team t))) (team_ratings g rk).
Proof.
  unfold team_ratings. rewrite Forall_map. rewrite Forall_forall. intros [t r] _. cbn [fst snd].
  now rewrite team_rating_mu.
Qed.
Lemma inflate_dom tau teams :
  Forall (fun t => t <> [] /\ Forall (fun p => 0 < r_sigma p * r_sigma p + tau * tau) t) teams ->
  Forall team_dom (map (map (inflate tau)) teams).
Proof.
  intros H. rewrite Forall_map. revert H. apply Forall_impl. intros t [Hne Hp]. split.
  - destruct t; [congruence|discriminate].
  - rewrite Forall_map. revert Hp. apply Forall_impl. intros p Hp. now rewrite inflate_sq.
Qed.

(** [rate_core] on the domain: the observed sum is the [compute]-level sum for some list of team
    ratings on the [compute]-level domain, whose teams are the tau-inflated teams up to order *)
Lemma rate_to_compute k P tau limit teams keys :
  match keys with Some ks => length ks = length teams | None => True end ->
  Forall (fun t => t <> [] /\ Forall (fun p => 0 < r_sigma p * r_sigma p + tau * tau) t) teams ->
  exists trs, length trs = length teams /\ trs_dom trs /\
    Forall (fun t => t_mu t = Rsum (map r_mu (t_team t))) trs /\
    Permutation (map (map (inflate tau)) teams) (map t_team trs) /\
    rate_sum tau teams (rate_core k P tau limit teams keys) = gain_sum trs (compute k P trs).
Proof.
  intros Hk Hd. set (teams' := map (map (inflate tau)) teams).
  assert (Hd' : Forall team_dom teams') by (now apply inflate_dom).
  assert (Hlen' : length teams' = length teams) by (unfold teams'; now rewrite map_length).
  assert (Hstep : rate_sum tau teams (rate_core k P tau limit teams keys) = gsum' teams' (rate_sorted k P teams' keys)).
  { assert (Hp : Forall (Forall (fun p => 0 < r_sigma p * r_sigma p + tau * tau)) teams)
      by (revert Hd; apply Forall_impl; intros t [_ Ht]; exact Ht).
    unfold rate_core. fold teams'. destruct limit; [rewrite rate_sum_clamp|]; now apply rate_sum_inflate. }
  rewrite Hstep. clear Hstep. destruct keys as [ks|].
  - assert (E : length ks = length teams') by congruence.
    destruct (rate_sorted_some k P teams' ks E) as [L Pm].
    pose proof (sorted_trs_teams teams' ks E) as Hst.
    assert (Lk : length (fst (sorted_game teams' ks)) = length teams')
      by (unfold sorted_game; cbn [fst]; rewrite isort_length; exact E).
    assert (Ls : length (snd (sorted_game teams' ks)) = length teams')
      by (unfold sorted_game; cbn [snd]; now apply unwind_fst_length).
    assert (Hperm : Permutation teams' (snd (sorted_game teams' ks))).
    { pose proof (sorted_game_perm teams' ks E) as Pg. apply (Permutation_map snd) in Pg.
      rewrite !combine_map_snd in Pg by congruence. exact Pg. }
    exists (sorted_trs teams' ks).
    assert (Hdom : trs_dom (sorted_trs teams' ks)).
    { unfold sorted_trs. apply team_ratings_dom. eapply Permutation_Forall; [exact Hperm|exact Hd']. }
    split; [rewrite <- (map_length t_team), Hst; congruence|].
    split; [exact Hdom|]. split; [apply team_ratings_mu|]. split; [now rewrite Hst|].
    set (G := fun (t r : list (rating R)) => mu_gain t r / sumsq t).
    transitivity (Rsum (map (fun t : key * list (rating R) * list (rating R) => G (snd (fst t)) (snd t))
                            (combine (combine ks teams') (rate_sorted k P teams' (Some ks))))).
    { unfold gsum'. f_equal. symmetry. apply (combine3_drop G). exact E. }
    rewrite (Rsum_perm _ _ (Permutation_map _ Pm)).
    rewrite (combine3_drop G) by congruence.
    rewrite <- Hst. apply gsum'_trs. now apply trs_dom_ok.
  - exists (team_ratings teams' (seq 0 (length teams'))).
    assert (Hst : map t_team (team_ratings teams' (seq 0 (length teams'))) = teams')
      by (apply team_ratings_teams; now rewrite seq_length).
    assert (Hdom : trs_dom (team_ratings teams' (seq 0 (length teams')))) by (now apply team_ratings_dom).
    split; [rewrite <- (map_length t_team), Hst; exact Hlen'|].
    split; [exact Hdom|]. split; [apply team_ratings_mu|]. split; [now rewrite Hst|].
    rewrite rate_sorted_none. rewrite <- Hst at 1. apply gsum'_trs. now apply trs_dom_ok.
Qed.

Lemma rate_zero k P tau limit teams keys : k = PL \/ k = BTF \/ k = BTP ->
  (2 <= length teams)%nat -> 0 < p_beta P ->
  match keys with Some ks => length ks = length teams | None => True end ->
  Forall (fun t => t <> [] /\ Forall (fun p => 0 < r_sigma p * r_sigma p + tau * tau) t) teams ->
  rate_sum tau teams (rate_core k P tau limit teams keys) = 0.
Proof.
  intros Hk Hn Hb Hks Hd. destruct (rate_to_compute k P tau limit teams keys Hks Hd) as [trs [L [D [_ [_ E]]]]].
  rewrite E. apply zero_compute; auto. lia.
Qed.

(** equal team variances: what some players gain in mu is exactly what the others lose *)
Lemma equal_variance_of_zero tau teams res V :
  (2 <= length teams)%nat ->
  Forall (fun t => t <> [] /\ Forall (fun p => 0 < r_sigma p * r_sigma p + tau * tau) t) teams ->
  Forall (fun t => infl_var tau t = V) teams ->
  rate_sum tau teams res = 0 ->
  Rsum (map (fun tr => mu_gain (fst tr) (snd tr)) (combine teams res)) = 0.
Proof.
  intros Hn Hd HV Z.
  assert (HVpos : 0 < V).
  { destruct teams as [|t ts]; [cbn in Hn; lia|]. inversion Hd as [|? ? [Hne Hp] _]; subst.
    inversion HV as [|? ? Ht _]; subst. unfold infl_var.
    apply Rsum_pos; [destruct t; [congruence|discriminate]|]. now rewrite Forall_map. }
  unfold rate_sum in Z.
  rewrite (Rsum_map_ext _ (fun tr => mu_gain (fst tr) (snd tr) / V)) in Z.
  2:{ intros [t r] Hin. cbn [fst snd]. apply in_combine_l in Hin. rewrite Forall_forall in HV. now rewrite (HV t Hin). }
  rewrite Rsum_map_div in Z.
  set (X := Rsum (map (fun tr : list (rating R) * list (rating R) => mu_gain (fst tr) (snd tr))
                      (combine teams res))) in *.
  replace X with (X / V * V) by (field; lra). rewrite Z. ring.
Qed.
Lemma rate_equal_variance k P tau limit teams keys V : k = PL \/ k = BTF \/ k = BTP ->
  (2 <= length teams)%nat -> 0 < p_beta P ->
  match keys with Some ks => length ks = length teams | None => True end ->
  Forall (fun t => t <> [] /\ Forall (fun p => 0 < r_sigma p * r_sigma p + tau * tau) t) teams ->
  Forall (fun t => infl_var tau t = V) teams ->
  Rsum (map (fun tr => mu_gain (fst tr) (snd tr)) (combine teams (rate_core k P tau limit teams keys))) = 0.
Proof.
  intros Hk Hn Hb Hks Hd HV. apply (equal_variance_of_zero tau teams _ V Hn Hd HV).
  now apply rate_zero.
Qed.

(** *** Thurstone-Mosteller through [rate_core] *)
Lemma rate_tm_distinct_mu two_c P tau limit teams keys :
  (2 <= length teams)%nat -> 0 < p_beta P -> 0 < p_kappa P ->
  match keys with Some ks => length ks = length teams | None => True end ->
  Forall (fun t => t <> [] /\ Forall (fun p => 0 < r_sigma p * r_sigma p + tau * tau) t) teams ->
  NoDup (map (fun t => Rsum (map r_mu t)) teams) ->
  rate_sum tau teams (rate_core (tm_kind two_c) P tau limit teams keys) = 0.
Proof.
  intros Hn Hb Hkap Hks Hd HND0.
  destruct (rate_to_compute (tm_kind two_c) P tau limit teams keys Hks Hd) as [trs [L [D [Hmu [Pm E]]]]].
  rewrite E. apply tm_compute_zero; auto; [lia|].
  assert (HND : NoDup (map t_mu trs)).
  { replace (map t_mu trs) with (map (fun t => Rsum (map r_mu t)) (map t_team trs)).
    2:{ rewrite map_map. apply map_ext_in. intros t Ht. rewrite Forall_forall in Hmu. symmetry. now apply Hmu. }
    eapply Permutation_NoDup; [apply Permutation_map; exact Pm|]. rewrite map_map.
    replace (map (fun x => Rsum (map r_mu (map (inflate tau) x))) teams)
      with (map (fun t => Rsum (map r_mu t)) teams); [exact HND0|].
    apply map_ext. intros t. now rewrite map_map. }
  rewrite Forall_forall. intros io Hio. rewrite Forall_forall. intros tq Hq _.
  destruct two_c; cbn [tm_opp] in Hio.
  - unfold opponents_part in Hio. now apply (ladder_nodup_neq t_mu trs io tq).
  - unfold opponents_full in Hio. now apply (rows_nodup_neq t_mu trs io tq).
Qed.

Lemma rate_equal_variance_tm two_c P tau limit teams keys V :
  (2 <= length teams)%nat -> 0 < p_beta P -> 0 < p_kappa P ->
  match keys with Some ks => length ks = length teams | None => True end ->
  Forall (fun t => t <> [] /\ Forall (fun p => 0 < r_sigma p * r_sigma p + tau * tau) t) teams ->
  NoDup (map (fun t => Rsum (map r_mu t)) teams) ->
  Forall (fun t => infl_var tau t = V) teams ->
  Rsum (map (fun tr => mu_gain (fst tr) (snd tr))
            (combine teams (rate_core (tm_kind two_c) P tau limit teams keys))) = 0.
Proof.
  intros Hn Hb Hkap Hks Hd HND HV. apply (equal_variance_of_zero tau teams _ V Hn Hd HV).
  now apply rate_tm_distinct_mu.
Qed.

Lemma c_iq_sqr P ti tq : 0 < t_ss ti -> 0 < t_ss tq ->
  c_iq P ti tq * c_iq P ti tq = t_ss ti + t_ss tq + 2 * (p_beta P * p_beta P).
Proof. intros Hi Hq. unfold c_iq. rnum. apply sqrt_sqrt. nra. Qed.

Lemma tm_B_le two_c P ti tq : 0 < p_beta P -> 0 < p_kappa P -> 0 < t_ss ti -> 0 < t_ss tq ->
  (if Nat.eqb (t_rank ti) (t_rank tq) then p_kappa P / (tm_c two_c P ti tq * tm_c two_c P ti tq) else 0)
  <= p_kappa P / ((if two_c then 8 else 2) * (p_beta P * p_beta P)).
Proof.
  intros Hb Hk Hi Hq. pose proof (c_iq_sqr P ti tq Hi Hq) as Hc.
  set (m := if two_c then 8 else 2). assert (Hm : 0 < m * (p_beta P * p_beta P)) by (unfold m; destruct two_c; nra).
  assert (HK : 0 < p_kappa P / (m * (p_beta P * p_beta P))) by (now apply Rdiv_lt_0_compat).
  destruct (Nat.eqb (t_rank ti) (t_rank tq)); [|lra].
  unfold Rdiv. apply Rmult_le_compat_l; [lra|]. apply Rinv_le_contravar; [exact Hm|].
  unfold tm_c, m. destruct two_c; nra.
Qed.

Lemma rate_tm_coarse two_c P tau limit teams keys :
  (2 <= length teams)%nat -> 0 < p_beta P -> 0 < p_kappa P ->
  match keys with Some ks => length ks = length teams | None => True end ->
  Forall (fun t => t <> [] /\ Forall (fun p => 0 < r_sigma p * r_sigma p + tau * tau) t) teams ->
  0 <= rate_sum tau teams (rate_core (tm_kind two_c) P tau limit teams keys)
    <= if two_c then INR (length teams) * 2 * (p_kappa P / (8 * (p_beta P * p_beta P)))
       else INR (length teams) * (INR (length teams) - 1) * (p_kappa P / (2 * (p_beta P * p_beta P))).
Proof.
  intros Hn Hb Hkap Hks Hd.
  destruct (rate_to_compute (tm_kind two_c) P tau limit teams keys Hks Hd) as [trs [L [D [_ [_ E]]]]].
  rewrite E. assert (Hn' : (2 <= length trs)%nat) by lia.
  destruct (tm_compute_bound two_c P trs Hn' Hb Hkap D) as [B0 B1]. split; [exact B0|].
  eapply Rle_trans; [exact B1|]. pose proof (trs_dom_pos trs D) as Hpos. rewrite Forall_forall in Hpos.
  set (K := p_kappa P / ((if two_c then 8 else 2) * (p_beta P * p_beta P))).
  assert (HK : 0 <= K).
  { unfold K. left. apply Rdiv_lt_0_compat; [lra|]. destruct two_c; nra. }
  eapply Rle_trans.
  { apply (Rsum_opp_le (fun ti tq => if Nat.eqb (t_rank ti) (t_rank tq)
                           then p_kappa P / (tm_c two_c P ti tq * tm_c two_c P ti tq) else 0)
                        (fun _ _ => K)). intros io tq Hio Hq.
    destruct (tm_opp_in two_c trs io tq Hio Hq) as [Hi Hq']. apply tm_B_le; auto. }
  rewrite (Rsum_map_ext _ (fun io => INR (length (snd io)) * K)) by (intros io _; apply Rsum_map_const).
  rewrite <- L. unfold K. destruct two_c; cbn [tm_opp].
  - eapply Rle_trans.
    { apply (Rsum_map_le _ (fun _ => 2 * (p_kappa P / (8 * (p_beta P * p_beta P))))). intros io Hio.
      unfold opponents_part in Hio. destruct io as [a nb]. apply in_combine_r in Hio. cbn [snd].
      pose proof (ladder_aux_snd_length None trs) as F. rewrite Forall_forall in F. specialize (F nb Hio).
      apply Rmult_le_compat_r; [exact HK|]. change 2 with (INR 2). now apply le_INR. }
    rewrite Rsum_map_const. unfold opponents_part. rewrite combine_length, ladder_pairs_length, Nat.min_id. lra.
  - rewrite (Rsum_map_ext _ (fun _ => (INR (length trs) - 1) * (p_kappa P / (2 * (p_beta P * p_beta P))))).
    + rewrite Rsum_map_const. unfold opponents_full. rewrite rows_length. lra.
    + intros io Hio. unfold opponents_full in Hio. pose proof (rows_snd_length trs) as F.
      rewrite Forall_forall in F. specialize (F io Hio). rewrite <- F, S_INR. f_equal. lra.
Qed.

End C07.

(** * GaussRangeL: the ranges of the variance corrections W and W~ of the model
    ([Gauss.w], [Gauss.wt]) over the reals: both lie in [0, 1].
    W~ is clamped by the code itself (no Gaussian fact needed); W needs the
    Mills-ratio bound [gf_mills] and Sampford's inequality [gf_sampford]. *)
From Coq Require Import List ZArith Bool Reals Lra Lia.
From OSV Require Import Num Gauss RInst.
Import ListNotations.
Open Scope R_scope.

Section GaussRange.
Variables Phi Phiinv : R -> R.
Local Instance RN : Num R := RNum Phi Phiinv.

(** W~ : the code clamps it into [0, 1] (and returns 1 on the guard branch). *)
Lemma wt_range x t : 0 <= wt x t <= 1.
Proof.
  unfold wt. cbv zeta.
  destruct (fltb _ feps).
  - change (fone : R) with 1. lra.
  - rewrite (R_fmin Phi Phiinv), (R_fmax Phi Phiinv).
    change (fone : R) with 1. change (fzero : R) with 0.
    split.
    + apply Rmin_glb; [apply Rmax_r | lra].
    + apply Rmin_r.
Qed.

Hypothesis GF : GaussFacts Phi Phiinv.

(** W : guard branch gives 1 or 0; otherwise V (V + y) with V = phi y / Phi y,
    positive by [gf_mills], below 1 by [gf_sampford]. *)
Lemma w_range x t : 0 <= w x t <= 1.
Proof.
  unfold w, v. cbv zeta.
  rewrite !(R_cdf Phi Phiinv), !(R_pdf Phi Phiinv).
  change (fsub x t) with (x - t).
  destruct (fltb (Phi (x - t)) feps) eqn:E.
  - destruct (fltb x fzero).
    + change (fone : R) with 1. lra.
    + change (fzero : R) with 0. lra.
  - change (fltb (Phi (x - t)) feps) with (Rltb (Phi (x - t)) feps) in E.
    apply Rltb_false in E.
    assert (He : 0 < (feps : R)) by exact (R_feps_pos Phi Phiinv).
    set (y := x - t) in *.
    assert (HP : 0 < Phi y) by lra.
    pose proof (phi_pos y) as Hphi.
    pose proof (gf_mills _ _ GF y) as Hm.
    pose proof (gf_sampford _ _ GF y) as Hs.
    change (fmul ?a ?b) with (a * b). change (fadd ?a ?b) with (a + b). change (fdiv ?a ?b) with (a / b).
    replace (phi y / Phi y * (phi y / Phi y + y))
      with (phi y * (phi y + y * Phi y) / (Phi y * Phi y)) by (field; lra).
    assert (HPP : 0 < Phi y * Phi y) by (apply Rmult_lt_0_compat; assumption).
    split.
    + apply Rlt_le. apply Rdiv_lt_0_compat; [apply Rmult_lt_0_compat; assumption | assumption].
    + apply Rlt_le. apply (Rmult_lt_reg_r (Phi y * Phi y)); [assumption|].
      unfold Rdiv. rewrite Rmult_assoc, Rinv_l by lra. lra.
Qed.
End GaussRange.

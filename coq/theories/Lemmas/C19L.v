(** * C19L: the five models differ only in their update rule. *)
From Coq Require Import List ZArith Bool Arith Lia.
From OSV Require Import Num Order Gauss Core Predict PyVal Prog RatingOps.
From OSV.Lemmas Require Import RelabelL.
Import ListNotations.

(** exchange two kinds: a bijective renaming of the five model classes *)
Definition swap (k k' x : kind) : kind :=
  if kind_eqb x k then k' else if kind_eqb x k' then k else x.

Lemma swap_l k k' : swap k k' k = k'.
Proof. destruct k, k'; reflexivity. Qed.
Lemma swap_r k k' : swap k k' k' = k.
Proof. destruct k, k'; reflexivity. Qed.
Lemma swap_inj k k' a b : swap k k' a = swap k k' b -> a = b.
Proof. destruct k, k', a, b; cbn; intros E; try reflexivity; discriminate E. Qed.
Lemma swap_invol k k' x : swap k k' (swap k k' x) = x.
Proof. destruct k, k', x; reflexivity. Qed.

Lemma kind_eqb_true a b : kind_eqb a b = true <-> a = b.
Proof. destruct a, b; cbn; split; intros E; try reflexivity; discriminate E. Qed.

Lemma kind_eqb_inj (f : kind -> kind) (Hf : forall a b, f a = f b -> a = b) a b :
  kind_eqb (f a) (f b) = kind_eqb a b.
Proof.
  destruct (kind_eqb a b) eqn:E.
  - apply kind_eqb_true in E. subst b. apply kind_eqb_true. reflexivity.
  - destruct (kind_eqb (f a) (f b)) eqn:E'; [|reflexivity].
    apply kind_eqb_true in E'. apply Hf in E'. subst b.
    assert (X : kind_eqb a a = true) by (apply kind_eqb_true; reflexivity). congruence.
Qed.

Lemma mapM_map_ext {A A' B} (f' : A' -> res B) (f : A -> res B) (h : A -> A')
  (E : forall x, f' (h x) = f x) l : mapM f' (map h l) = mapM f l.
Proof.
  induction l as [|x xs IH]; cbn [map mapM]; [reflexivity|]. rewrite E, IH. reflexivity.
Qed.

Lemma mapM_length {A B} (f : A -> res B) l l' : mapM f l = Ok l' -> length l' = length l.
Proof.
  revert l'; induction l as [|x xs IH]; intros l' E; cbn [mapM] in E.
  - inversion E. reflexivity.
  - destruct (f x) as [y|e]; cbn [rbind] in E; [|discriminate E].
    destruct (mapM f xs) as [ys|e]; cbn [rbind] in E; [|discriminate E].
    inversion E. cbn [length]. rewrite (IH ys eq_refl). reflexivity.
Qed.

Section C19.
Context {F : Type} {N : Num F}.

(** rename the model class of every rating object inside a Python value *)
Fixpoint retag (f : kind -> kind) (v : pyval F) : pyval F :=
  match v with
  | PList l => PList (map (retag f) l)
  | PTuple l => PTuple (map (retag f) l)
  | PRating k r => PRating (f k) r
  | x => x
  end.

Section Inj.
Variable f : kind -> kind.
Hypothesis f_inj : forall a b, f a = f b -> a = b.

Lemma check_player_retag k p : check_player (f k) (retag f p) = check_player k p.
Proof.
  destruct p as [| | | | | | |k' r|]; try reflexivity.
  cbn [retag check_player]. rewrite (kind_eqb_inj f f_inj). reflexivity.
Qed.

Lemma check_team_retag k t : check_team (f k) (retag f t) = check_team k t.
Proof.
  destruct t as [| | | | |l| | |]; try reflexivity.
  cbn [retag]. destruct l as [|p ps]; [reflexivity|].
  change (map (retag f) (p :: ps)) with (retag f p :: map (retag f) ps).
  unfold check_team.
  change (retag f p :: map (retag f) ps) with (map (retag f) (p :: ps)).
  apply mapM_map_ext. intros x. apply check_player_retag.
Qed.

Lemma check_teams_retag k v : check_teams (f k) (retag f v) = check_teams k v.
Proof.
  destruct v as [| | | | |l| | |]; try reflexivity.
  cbn [retag check_teams]. rewrite map_length.
  destruct (Nat.ltb (length l) 2); [reflexivity|].
  apply mapM_map_ext. intros x. apply check_team_retag.
Qed.

Lemma validate_rate_retag k teams ranks scores :
  validate_rate (f k) (retag f teams) ranks scores = validate_rate k teams ranks scores.
Proof. unfold validate_rate. rewrite check_teams_retag. reflexivity. Qed.

Lemma predict_prog_retag {A} (fn : F -> list (list (rating F)) -> A) k teams :
  predict_prog fn (f k) (retag f teams) = predict_prog fn k teams.
Proof. unfold predict_prog. rewrite check_teams_retag. reflexivity. Qed.

Lemma rating_compare_retag op k a other :
  rating_compare op (f k) a (retag f other) = rating_compare op k a other.
Proof.
  destruct other as [| | | | | | |k' r|]; try reflexivity.
  unfold rating_compare. cbn [retag]. rewrite (kind_eqb_inj f f_inj). reflexivity.
Qed.
End Inj.

Lemma as_float_retag f (v : pyval F) : as_float (retag f v) = as_float v.
Proof. destruct v; reflexivity. Qed.

Lemma create_rating_retag f k k' (v : pyval F) nm fresh :
  create_rating k' (retag f v) nm fresh = create_rating k v nm fresh.
Proof.
  destruct v as [| | | | |l| | |]; try reflexivity.
  destruct l as [|a [|b [|c l]]]; try reflexivity.
  cbn [retag map create_rating]. rewrite !as_float_retag. reflexivity.
Qed.

Lemma create_rating_kind k k' (v : pyval F) nm fresh :
  create_rating k' v nm fresh = create_rating k v nm fresh.
Proof. reflexivity. Qed.

(** ** Bradley-Terry partial pairing = full pairing on (at most) two teams *)
Lemma compute_btp_btf P (trs : list (trating F)) :
  length trs <= 2 -> compute BTP P trs = compute BTF P trs.
Proof.
  intros Hl. destruct trs as [|a [|b [|c rest]]]; try reflexivity.
  cbn [length] in Hl. lia.
Qed.

Lemma compute_btp_btf_two P (a b : trating F) : compute BTP P [a; b] = compute BTF P [a; b].
Proof. reflexivity. Qed.

Lemma team_ratings_length_le (game : list (list (rating F))) ranks :
  length (team_ratings game ranks) <= length game.
Proof. unfold team_ratings. rewrite map_length, combine_length. lia. Qed.

Lemma rate_sorted_btp_btf P (teams : list (list (rating F))) keys :
  length teams <= 2 -> rate_sorted BTP P teams keys = rate_sorted BTF P teams keys.
Proof.
  intros Hl. unfold rate_sorted. destruct keys as [ks|].
  - rewrite compute_btp_btf; [reflexivity|].
    eapply Nat.le_trans; [apply team_ratings_length_le|].
    eapply Nat.le_trans; [apply unwind_length_le|exact Hl].
  - apply compute_btp_btf. eapply Nat.le_trans; [apply team_ratings_length_le|exact Hl].
Qed.

Lemma rate_core_btp_btf P tau lim (teams : list (list (rating F))) keys :
  length teams <= 2 ->
  rate_core BTP P tau lim teams keys = rate_core BTF P tau lim teams keys.
Proof.
  intros Hl. unfold rate_core. rewrite rate_sorted_btp_btf; [reflexivity|].
  rewrite map_length. exact Hl.
Qed.

(** ** programs *)
Lemma run_bind_ext {A B} (p : prog F A) (f1 f2 : A -> prog F B)
  (E : forall a st, run (f1 a) st = run (f2 a) st) st :
  run (bind p f1) st = run (bind p f2) st.
Proof.
  revert st; induction p as [a|e|a k IH|k IH|k IH|a x k IH|b k IH|i j x k IH|i j x k IH];
    intros st; cbn [bind run].
  - apply E.
  - reflexivity.
  - rewrite IH. reflexivity.
  - rewrite IH. reflexivity.
  - rewrite IH. reflexivity.
  - rewrite IH. reflexivity.
  - rewrite IH. reflexivity.
  - rewrite IH. reflexivity.
  - rewrite IH. reflexivity.
Qed.

Lemma run_mut_sigmas_ext {A} l (k1 k2 : prog F A)
  (E : forall st, run k1 st = run k2 st) st :
  run (mut_sigmas l k1) st = run (mut_sigmas l k2) st.
Proof.
  induction l as [|[[i j] r] xs IH]; cbn [mut_sigmas run]; [apply E|]. rewrite IH. reflexivity.
Qed.

(** the part of [rate_prog] after validation, as a function of the kind *)
Lemma rate_prog_run_ext k1 k2 (teams ranks scores tau limit : pyval F) v1 :
  validate_rate k1 teams ranks scores = v1 ->
  forall teams2, validate_rate k2 teams2 ranks scores = v1 ->
  (forall tms keys P t, v1 = Ok (tms, keys) ->
     rate_sorted k1 P (map (map (inflate t)) tms) keys
     = rate_sorted k2 P (map (map (inflate t)) tms) keys) ->
  forall st, run (rate_prog k1 teams ranks scores tau limit) st
           = run (rate_prog k2 teams2 ranks scores tau limit) st.
Proof.
  intros V1 teams2 V2 HS st. unfold rate_prog. rewrite V1, V2.
  destruct v1 as [[tms keys]|e]; [|reflexivity].
  cbn [lift bind fst snd]. apply run_bind_ext. intros t st1.
  apply run_mut_sigmas_ext. intros st2. cbn [run].
  rewrite (HS tms keys _ t eq_refl). reflexivity.
Qed.

Lemma check_teams_length k (v : pyval F) tms l :
  v = PList l -> check_teams k v = Ok tms -> length tms = length l.
Proof.
  intros -> E. cbn [check_teams] in E.
  destruct (Nat.ltb (length l) 2); [discriminate E|]. apply mapM_length in E. exact E.
Qed.

Lemma validate_rate_length k (l : list (pyval F)) ranks scores tms keys :
  validate_rate k (PList l) ranks scores = Ok (tms, keys) -> length tms = length l.
Proof.
  unfold validate_rate. intros E.
  destruct (check_teams k (PList l)) as [tms0|e] eqn:C; cbn [rbind] in E; [|discriminate E].
  apply (check_teams_length k _ _ l eq_refl) in C.
  destruct (if truthy ranks then _ else _) as [rk|e]; cbn [rbind] in E; [|discriminate E].
  destruct (if truthy scores then _ else _) as [sc|e]; cbn [rbind] in E; [|discriminate E].
  inversion E. subst. exact C.
Qed.

Theorem rate_prog_btp_btf (t1 t2 ranks scores tau limit : pyval F) st :
  run (rate_prog BTP (retag (swap BTF BTP) (PList [t1; t2])) ranks scores tau limit) st
  = run (rate_prog BTF (PList [t1; t2]) ranks scores tau limit) st.
Proof.
  symmetry.
  apply (rate_prog_run_ext BTF BTP (PList [t1; t2]) ranks scores tau limit _ eq_refl).
  - rewrite <- (validate_rate_retag (swap BTF BTP) (swap_inj BTF BTP) BTF).
    rewrite swap_l. reflexivity.
  - intros tms keys P t V. symmetry. apply rate_sorted_btp_btf.
    apply validate_rate_length in V. rewrite map_length, V. cbn [length]. lia.
Qed.

(** ** equal numbers, whatever the classes: identical predictions *)
Lemma predict_prog_values {A} (fn : F -> list (list (rating F)) -> A)
  (Hfn : forall beta t t', nums t = nums t' -> fn beta t = fn beta t')
  k k' (v v' : pyval F) tms tms' :
  check_teams k v = Ok tms -> check_teams k' v' = Ok tms' -> nums tms = nums tms' ->
  forall st, run (predict_prog fn k v) st = run (predict_prog fn k' v') st.
Proof.
  intros C C' E st. unfold predict_prog. rewrite C, C'. cbn [lift bind run].
  rewrite (Hfn _ tms tms' E). reflexivity.
Qed.
(** the instance: exchanging two model classes *)
Lemma validate_rate_swap k k' (teams ranks scores : pyval F) :
  validate_rate k' (retag (swap k k') teams) ranks scores = validate_rate k teams ranks scores.
Proof.
  rewrite <- (validate_rate_retag (swap k k') (swap_inj k k') k). rewrite swap_l. reflexivity.
Qed.

Lemma predict_prog_swap {A} (fn : F -> list (list (rating F)) -> A) k k' (teams : pyval F) :
  predict_prog fn k' (retag (swap k k') teams) = predict_prog fn k teams.
Proof.
  rewrite <- (predict_prog_retag (swap k k') (swap_inj k k') fn k). rewrite swap_l. reflexivity.
Qed.

Lemma predict_progs_swap k k' (teams : pyval F) :
  predict_win_prog k' (retag (swap k k') teams) = predict_win_prog k teams /\
  predict_draw_prog k' (retag (swap k k') teams) = predict_draw_prog k teams /\
  predict_rank_prog k' (retag (swap k k') teams) = predict_rank_prog k teams.
Proof. repeat split; apply predict_prog_swap. Qed.

Lemma predict_progs_retag f (Hf : forall a b : kind, f a = f b -> a = b) k (teams : pyval F) :
  predict_win_prog (f k) (retag f teams) = predict_win_prog k teams /\
  predict_draw_prog (f k) (retag f teams) = predict_draw_prog k teams /\
  predict_rank_prog (f k) (retag f teams) = predict_rank_prog k teams.
Proof. repeat split; apply predict_prog_retag; exact Hf. Qed.

Lemma predict_runs_swap k k' (teams : pyval F) st :
  run (predict_win_prog k' (retag (swap k k') teams)) st = run (predict_win_prog k teams) st /\
  run (predict_draw_prog k' (retag (swap k k') teams)) st = run (predict_draw_prog k teams) st /\
  run (predict_rank_prog k' (retag (swap k k') teams)) st = run (predict_rank_prog k teams) st.
Proof.
  destruct (predict_progs_swap k k' teams) as (E1 & E2 & E3). rewrite E1, E2, E3.
  repeat split; reflexivity.
Qed.

Lemma rating_compare_swap op k k' a (other : pyval F) :
  rating_compare op k' a (retag (swap k k') other) = rating_compare op k a other.
Proof.
  rewrite <- (rating_compare_retag (swap k k') (swap_inj k k') op k). rewrite swap_l. reflexivity.
Qed.

Lemma predict_values k k' (v v' : pyval F) tms tms' :
  check_teams k v = Ok tms -> check_teams k' v' = Ok tms' -> nums tms = nums tms' ->
  forall st,
  run (predict_win_prog k v) st = run (predict_win_prog k' v') st /\
  run (predict_draw_prog k v) st = run (predict_draw_prog k' v') st /\
  run (predict_rank_prog k v) st = run (predict_rank_prog k' v') st.
Proof.
  intros C C' E st. split; [|split].
  - apply (predict_prog_values predict_win predict_win_values_only k k' v v' tms tms' C C' E).
  - apply (predict_prog_values predict_draw predict_draw_values_only k k' v v' tms tms' C C' E).
  - apply (predict_prog_values predict_rank predict_rank_values_only k k' v v' tms tms' C C' E).
Qed.
End C19.

(** * C12L: the predictions equal their documented pairwise-Gaussian closed forms (over R).

    The closed forms ("Spec") are index sums over the opponents of a team:
    [Tmu t] = sum of the members' mu, [Tvar t] = sum of the members' sigma^2
    (both from PredictL), [pscale beta k ta tb = sqrt (k beta^2 + Tvar ta + Tvar tb)],
    [margin beta N = sqrt N * beta * Phiinv ((1 + 1/N)/2)], and
    [idx_others n i] = the indices [0..n-1] other than [i]. *)
From Coq Require Import List ZArith Bool Arith Reals Lra Lia Permutation.
From OSV Require Import Num Order Gauss Core Predict RInst.
From OSV.Lemmas Require Import PredictL.
Import ListNotations.
Open Scope R_scope.

Section C12.
Variables Phi Phiinv : R -> R.
Local Instance RN : Num R := RNum Phi Phiinv.

(** ** Spec: the pairwise terms *)
Definition win_term (beta : R) (k : nat) (ta tb : list (rating R)) : R :=
  Phi ((Tmu ta - Tmu tb) / pscale beta k ta tb).
Definition rank_term (beta : R) (k np : nat) (ta tb : list (rating R)) : R :=
  Phi ((Tmu ta - Tmu tb - margin Phiinv beta np) / pscale beta k ta tb).
Definition draw_term (beta : R) (k np : nat) (ta tb : list (rating R)) : R :=
  Phi ((margin Phiinv beta np - (Tmu ta - Tmu tb)) / pscale beta k ta tb)
  - Phi ((Tmu ta - Tmu tb - margin Phiinv beta np) / pscale beta k ta tb).

(** the closed forms are well defined on the valid domain: no division by zero,
    and the argument of [Phiinv] is a probability *)
Lemma C12_welldefined beta (teams : list (list (rating R))) :
  0 < beta -> (2 <= length teams)%nat -> Forall (fun t => t <> []) teams ->
  (forall k ta tb, (1 <= k)%nat -> 0 < sqrt (INR k * (beta * beta) + Tvar ta + Tvar tb))
  /\ 0 < INR (length teams) * (INR (length teams) - 1) / 2
  /\ 0 < INR (length (concat teams))
  /\ 0 < (1 + 1 / INR (length (concat teams))) / 2 < 1.
Proof.
  intros Hb Hn Hne. pose proof (nplayers_pos teams Hn Hne) as HN.
  assert (H2 : 2 <= INR (length (concat teams))) by (change 2 with (INR 2); now apply le_INR).
  assert (Hi : 0 < / INR (length (concat teams)) <= / 2).
  { split; [apply Rinv_0_lt_compat; lra|apply Rinv_le_contravar; lra]. }
  repeat split.
  - intros k ta tb Hk. now apply pscale_pos.
  - now apply half_pairs_pos.
  - lra.
  - unfold Rdiv; lra.
  - unfold Rdiv; lra.
Qed.

(** ** predict_win *)
Lemma C12_win2 beta ta tb : 0 < beta -> ta <> [] -> tb <> [] ->
  predict_win beta [ta; tb]
  = [win_term beta (length ta + length tb) ta tb; 1 - win_term beta (length ta + length tb) ta tb].
Proof. intros _ _ _. apply (R_predict_win2 Phi Phiinv). Qed.

Lemma C12_winN beta teams i : 0 < beta -> (3 <= length teams)%nat -> (i < length teams)%nat ->
  nth i (predict_win beta teams) 0
  = Rsum (map (fun j => win_term beta (length teams) (nth i teams []) (nth j teams []))
              (idx_others (length teams) i))
    / (INR (length teams) * (INR (length teams) - 1) / 2).
Proof.
  intros _ Hn Hi. rewrite (R_predict_win_rows Phi Phiinv) by lia.
  exact (nth_rows_sum (fun a b => win_term beta (length teams) a b)
           (fun s => s / (INR (length teams) * (INR (length teams) - 1) / 2)) [] teams i Hi).
Qed.

(** ** predict_rank *)
Lemma C12_rank beta teams i :
  0 < beta -> (2 <= length teams)%nat -> Forall (fun t => t <> []) teams -> (i < length teams)%nat ->
  nth i (map snd (predict_rank beta teams)) 0
  = Rabs (Rsum (map (fun j => rank_term beta (length teams) (length (concat teams)) (nth i teams []) (nth j teams []))
                    (idx_others (length teams) i))
          / (INR (length teams) * (INR (length teams) - 1) / 2)).
Proof.
  intros _ Hn _ Hi. rewrite predict_rank_snd, (R_predict_rank_rows Phi Phiinv).
  exact (nth_rows_sum (fun a b => rank_term beta (length teams) (length (concat teams)) a b)
           (fun s => Rabs (s / (INR (length teams) * (INR (length teams) - 1) / 2))) [] teams i Hi).
Qed.

(** the [abs] is redundant *)
Lemma C12_rank_noabs beta teams i : GaussCDF Phi Phiinv ->
  0 < beta -> (2 <= length teams)%nat -> Forall (fun t => t <> []) teams -> (i < length teams)%nat ->
  nth i (map snd (predict_rank beta teams)) 0
  = Rsum (map (fun j => rank_term beta (length teams) (length (concat teams)) (nth i teams []) (nth j teams []))
              (idx_others (length teams) i))
    / (INR (length teams) * (INR (length teams) - 1) / 2).
Proof.
  intros GF Hb Hn Hne Hi. rewrite (C12_rank beta teams i Hb Hn Hne Hi).
  apply Rabs_right. apply Rle_ge. apply Rmult_le_pos.
  - apply Rsum_map_nonneg. intros j _. unfold rank_term. left. apply (gc_range _ _ GF).
  - left. apply Rinv_0_lt_compat. now apply half_pairs_pos.
Qed.

(** ** predict_draw *)
Lemma C12_drawN beta teams :
  0 < beta -> (3 <= length teams)%nat -> Forall (fun t => t <> []) teams ->
  predict_draw beta teams
  = Rabs (Rsum (map (fun i => Rsum (map (fun j =>
               draw_term beta (length teams) (length (concat teams)) (nth i teams []) (nth j teams []))
               (idx_others (length teams) i))) (seq 0 (length teams))))
    / (INR (length teams) * (INR (length teams) - 1)).
Proof.
  intros _ Hn _. rewrite (R_predict_draw_rows Phi Phiinv).
  assert (E : Nat.ltb 2 (length teams) = true) by (apply Nat.ltb_lt; lia). rewrite E.
  f_equal. f_equal.
  exact (rows_double_sum (fun a b => draw_term beta (length teams) (length (concat teams)) a b) [] teams).
Qed.

Lemma pscale_2 beta ta tb : pscale beta 2 ta tb = sqrt (2 * (beta * beta) + Tvar ta + Tvar tb).
Proof. unfold pscale. f_equal. Qed.

Lemma C12_draw2_abs beta ta tb : 0 < beta -> ta <> [] -> tb <> [] ->
  predict_draw beta [ta; tb]
  = Rabs (draw_term beta 2 (length ta + length tb) ta tb + draw_term beta 2 (length ta + length tb) tb ta).
Proof.
  intros _ _ _. rewrite (R_predict_draw_rows Phi Phiinv). cbn [length Nat.ltb Nat.leb concat rows rows_aux map Rsum fst snd rev app].
  rewrite !app_length. cbn [length]. rewrite Nat.add_0_r.
  unfold Rdiv. rewrite Rinv_1, Rmult_1_r. f_equal. unfold draw_term. lra.
Qed.

(** the two directed terms of a pair add up to something non-negative *)
Lemma draw_pair_nonneg beta k np ta tb : GaussCDF Phi Phiinv ->
  0 < beta -> (1 <= k)%nat -> (2 <= np)%nat ->
  0 <= draw_term beta k np ta tb + draw_term beta k np tb ta.
Proof.
  intros GF Hb Hk Hnp. unfold draw_term. rewrite (pscale_sym beta k ta tb).
  pose proof (margin_pos Phi Phiinv beta np GF Hb Hnp) as Hm.
  pose proof (pscale_pos beta k ta tb Hb Hk) as Hs.
  set (m := margin Phiinv beta np) in *. set (s := pscale beta k ta tb) in *.
  set (d := Tmu ta - Tmu tb). replace (Tmu tb - Tmu ta) with (- d) by (unfold d; lra).
  assert (Hi : 0 < / s) by now apply Rinv_0_lt_compat.
  assert (H1 : Phi ((- d - m) / s) <= Phi ((m - d) / s)).
  { apply (Phi_le Phi Phiinv GF). unfold Rdiv. apply Rmult_le_compat_r; lra. }
  assert (H2 : Phi ((d - m) / s) <= Phi ((m - - d) / s)).
  { apply (Phi_le Phi Phiinv GF). unfold Rdiv. apply Rmult_le_compat_r; lra. }
  lra.
Qed.

(** for two teams [predict_draw] is the plain sum of the two directed terms *)
Lemma C12_draw2 beta ta tb : GaussCDF Phi Phiinv -> 0 < beta -> ta <> [] -> tb <> [] ->
  predict_draw beta [ta; tb]
  = draw_term beta 2 (length ta + length tb) ta tb + draw_term beta 2 (length ta + length tb) tb ta.
Proof.
  intros GF Hb Ha Hb'. rewrite (C12_draw2_abs beta ta tb Hb Ha Hb').
  apply Rabs_right, Rle_ge. apply draw_pair_nonneg; try assumption; try lia.
  destruct ta; [congruence|]. destruct tb; [congruence|]. cbn [length]. lia.
Qed.

(** the two-team forms written with one difference [d] and one scale [s] *)
Lemma draw2_terms beta np ta tb :
  draw_term beta 2 np ta tb + draw_term beta 2 np tb ta
  = (Phi ((margin Phiinv beta np - (Tmu ta - Tmu tb)) / sqrt (2 * (beta * beta) + Tvar ta + Tvar tb))
     - Phi ((Tmu ta - Tmu tb - margin Phiinv beta np) / sqrt (2 * (beta * beta) + Tvar ta + Tvar tb)))
    + (Phi ((margin Phiinv beta np - - (Tmu ta - Tmu tb)) / sqrt (2 * (beta * beta) + Tvar ta + Tvar tb))
       - Phi ((- (Tmu ta - Tmu tb) - margin Phiinv beta np) / sqrt (2 * (beta * beta) + Tvar ta + Tvar tb))).
Proof.
  unfold draw_term. rewrite (pscale_sym beta 2 ta tb), pscale_2.
  replace (Tmu tb - Tmu ta) with (- (Tmu ta - Tmu tb)) by lra. reflexivity.
Qed.
Lemma C12_draw2_abs_R beta ta tb : 0 < beta -> ta <> [] -> tb <> [] ->
  predict_draw beta [ta; tb]
  = Rabs ((Phi ((margin Phiinv beta (length ta + length tb) - (Tmu ta - Tmu tb)) / sqrt (2 * (beta * beta) + Tvar ta + Tvar tb))
     - Phi ((Tmu ta - Tmu tb - margin Phiinv beta (length ta + length tb)) / sqrt (2 * (beta * beta) + Tvar ta + Tvar tb)))
    + (Phi ((margin Phiinv beta (length ta + length tb) - - (Tmu ta - Tmu tb)) / sqrt (2 * (beta * beta) + Tvar ta + Tvar tb))
       - Phi ((- (Tmu ta - Tmu tb) - margin Phiinv beta (length ta + length tb)) / sqrt (2 * (beta * beta) + Tvar ta + Tvar tb)))).
Proof. intros Hb Ha Hb'. rewrite (C12_draw2_abs beta ta tb Hb Ha Hb'), draw2_terms. reflexivity. Qed.
Lemma C12_draw2_R beta ta tb : GaussCDF Phi Phiinv -> 0 < beta -> ta <> [] -> tb <> [] ->
  predict_draw beta [ta; tb]
  = (Phi ((margin Phiinv beta (length ta + length tb) - (Tmu ta - Tmu tb)) / sqrt (2 * (beta * beta) + Tvar ta + Tvar tb))
     - Phi ((Tmu ta - Tmu tb - margin Phiinv beta (length ta + length tb)) / sqrt (2 * (beta * beta) + Tvar ta + Tvar tb)))
    + (Phi ((margin Phiinv beta (length ta + length tb) - - (Tmu ta - Tmu tb)) / sqrt (2 * (beta * beta) + Tvar ta + Tvar tb))
       - Phi ((- (Tmu ta - Tmu tb) - margin Phiinv beta (length ta + length tb)) / sqrt (2 * (beta * beta) + Tvar ta + Tvar tb))).
Proof. intros GF Hb Ha Hb'. rewrite (C12_draw2 beta ta tb GF Hb Ha Hb'), draw2_terms. reflexivity. Qed.

(** for more teams the [abs] is redundant too *)
Lemma C12_drawN_noabs beta teams : GaussCDF Phi Phiinv ->
  0 < beta -> (3 <= length teams)%nat -> Forall (fun t => t <> []) teams ->
  predict_draw beta teams
  = Rsum (map (fun i => Rsum (map (fun j =>
               draw_term beta (length teams) (length (concat teams)) (nth i teams []) (nth j teams []))
               (idx_others (length teams) i))) (seq 0 (length teams)))
    / (INR (length teams) * (INR (length teams) - 1)).
Proof.
  intros GF Hb Hn Hne. rewrite (C12_drawN beta teams Hb Hn Hne). f_equal.
  apply Rabs_right, Rle_ge.
  rewrite <- (rows_double_sum (fun a b => draw_term beta (length teams) (length (concat teams)) a b) [] teams).
  pose proof (rows_map_minus (fun a b => draw_term beta (length teams) (length (concat teams)) a b)
                (fun x => x) teams) as E. cbv beta in E. rewrite E.
  apply pair_sum_nonneg. intros x y _ _. apply draw_pair_nonneg; try assumption; try lia.
  apply nplayers_pos; [lia|assumption].
Qed.
End C12.

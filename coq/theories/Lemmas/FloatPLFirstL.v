(** * FloatPLFirstL: Plackett-Luce, a team alone in first place, on IEEE 754 binary64 (Flocq,
    round to nearest even), for property C05.

    In [pl_omega_delta P trs c qs i ti] the omega of team [ti] is
    fl(S * fl(sigma_i^2 / c)) where S accumulates, over the entries [(q, (tq, (sum_q, A_q)))] of
    [qs] with rank tq <= rank ti, the term fl(fl(1 - p) / A_q) for q = i and - fl(p / A_q) for
    q <> i, p = fl(e_i / sum_q).  Entries with rank tq > rank ti are skipped by the model.

    - [pl_step_omega_nonneg_b64], [pl_fold_omega_nonneg_b64]: for ANY list of entries in which
      every entry that is used (rank tq <= rank ti) is the team's own entry (q = i) with
      e_i <= sum_q, the accumulated S is >= 0 as a double.  The finiteness of every prefix of S
      is derived from the finiteness of the final S (a finite float sum has finite operands, a
      skipped entry leaves S unchanged).
    - [pl_first_alone_omega_nonneg_b64]: on the entries [compute_pl] builds, if every team at
      another position has a rank strictly greater than [ti]'s, omega >= 0.
    - [pl_first_alone_mu_b64]: composed with [FloatSignL.update_player_mu_direction_b64]: no
      member's mu falls.

    Premises: 0 <= exp x for finite x; number of teams <= 2^53; sigma_i^2 / c >= 0; no overflow
    in the arguments of exp, in the team's own sum_i, and in the result (omega resp. the new mu).
    Derived: finiteness of S and of all its prefixes, of the term, of 1 - p and p; sum_i <> 0;
    e_i <= sum_i; 1 <= A_i exactly converted. *)
From Coq Require Import List ZArith Bool Arith Reals Lra Lia.
From Flocq Require Import Core.Raux Core.Defs Core.Zaux Core.Generic_fmt Core.FLT
  IEEE754.BinarySingleNaN IEEE754.Binary IEEE754.Bits.
From OSV Require Import Num Order Gauss Core FloatInst.
From OSV.Lemmas Require Import FloatOrderL FloatSignL.
Import ListNotations.
Open Scope R_scope.

(** ** The entries [combine (seq s n) (combine l (combine (map f l) (map g l)))] by position *)
Lemma in_entries_nth {A B C : Type} (f : A -> B) (g : A -> C) (l : list A) (s q : nat)
      (x : A) (y : B) (z : C) :
  In (q, (x, (y, z))) (combine (seq s (length l)) (combine l (combine (map f l) (map g l)))) ->
  (s <= q)%nat /\ nth_error l (q - s) = Some x /\ y = f x /\ z = g x.
Proof.
  revert s. induction l as [|a l IH]; intros s H; cbn [length seq map combine In] in H; [destruct H|].
  destruct H as [E|H].
  - injection E as <- <- <- <-. rewrite Nat.sub_diag. cbn [nth_error].
    split; [apply Nat.le_refl|]. split; [reflexivity|]. split; reflexivity.
  - destruct (IH _ H) as (H0 & H1 & H2 & H3).
    replace (q - s)%nat with (S (q - S s)) by lia. cbn [nth_error].
    split; [lia|]. split; [exact H1|]. split; assumption.
Qed.

Section Model.
Variables fe fc fp fi : binary64 -> binary64.
Notation BN := (B64Num fe fc fp fi).

(** ** One step of the fold: the omega component.  An entry that is used is the team's own. *)
Lemma pl_step_omega_nonneg_b64 (i : nat) (ti : trating binary64) (e : binary64)
      (od : binary64 * binary64) (qt : nat * (trating binary64 * (binary64 * nat))) :
  0 <= RV e ->
  (Nat.leb (t_rank (fst (snd qt))) (t_rank ti) = true ->
     fst qt = i /\ fin (fst (snd (snd qt))) = true /\ RV e <= RV (fst (snd (snd qt)))
     /\ 0 < RV (b64_of_Z (Z.of_nat (snd (snd (snd qt)))))) ->
  fin (fst (@pl_step binary64 BN i ti e od qt)) = true ->
  fin (fst od) = true
  /\ (0 <= RV (fst od) -> 0 <= RV (fst (@pl_step binary64 BN i ti e od qt))).
Proof.
  intros He Hq Fres.
  destruct qt as (q & tq & sq & n). cbn [fst snd] in Hq.
  unfold pl_step in *. cbv zeta in *. cbn [fst snd] in *.
  destruct (Nat.leb (t_rank tq) (t_rank ti)) eqn:Hle; cbn [fst] in *.
  2:{ split; [exact Fres | intros Hod; exact Hod]. }
  destruct (Hq eq_refl) as (Eq & Fsq & Hes & Haq). subst q.
  rewrite Nat.eqb_refl in *.
  set (aq := b64_of_Z (Z.of_nat n)) in *.
  set (p := b64_div mode_NE e sq).
  change (fin (b64_plus mode_NE (fst od)
                 (b64_div mode_NE (b64_minus mode_NE (b64_of_Z 1) p) aq)) = true) in Fres.
  change (fin (fst od) = true
          /\ (0 <= RV (fst od) ->
              0 <= RV (b64_plus mode_NE (fst od)
                         (b64_div mode_NE (b64_minus mode_NE (b64_of_Z 1) p) aq)))).
  destruct (b64_plus_fin_inv _ _ Fres) as (Fod & Fterm).
  split; [exact Fod|]. intros Hod.
  destruct (b64_div_val _ _ (Rgt_not_eq _ _ Haq) Fterm) as (_ & F1p).
  destruct (b64_minus_fin_inv _ _ F1p) as (_ & Fp).
  destruct (b64_ratio_01 e sq Fsq He Hes Fp) as (Hp0 & Hp1). fold p in Hp0, Hp1.
  pose proof (b64_one_minus_nonneg p Fp F1p Hp1) as H1p.
  pose proof (b64_div_nonneg _ _ Fterm H1p Haq) as Hterm.
  apply b64_plus_nonneg; assumption.
Qed.

(** the fold over an arbitrary list of entries; only the final sum is assumed finite *)
Lemma pl_fold_omega_nonneg_b64 (i : nat) (ti : trating binary64) (e : binary64)
      (qs : list (nat * (trating binary64 * (binary64 * nat)))) :
  0 <= RV e ->
  (forall qt, In qt qs -> Nat.leb (t_rank (fst (snd qt))) (t_rank ti) = true ->
     fst qt = i /\ fin (fst (snd (snd qt))) = true /\ RV e <= RV (fst (snd (snd qt)))
     /\ 0 < RV (b64_of_Z (Z.of_nat (snd (snd (snd qt)))))) ->
  fin (fst (fold_left (@pl_step binary64 BN i ti e) qs (@fzero binary64 BN, @fzero binary64 BN))) = true ->
  0 <= RV (fst (fold_left (@pl_step binary64 BN i ti e) qs (@fzero binary64 BN, @fzero binary64 BN))).
Proof.
  intros He.
  induction qs as [|qt l IH] using rev_ind; intros Hin Ffin.
  - cbn [fold_left fst]. change (@fzero binary64 BN) with (b64_of_Z 0). rewrite b64_zero_val. apply Rle_refl.
  - rewrite fold_left_app in Ffin |- *. cbn [fold_left] in Ffin |- *.
    assert (Hqt : In qt (l ++ [qt])) by (apply in_or_app; right; left; reflexivity).
    destruct (pl_step_omega_nonneg_b64 i ti e _ qt He (Hin qt Hqt) Ffin) as (Fod & Hstep).
    apply Hstep. apply IH; [|exact Fod].
    intros t Ht. apply Hin. apply in_or_app. left. exact Ht.
Qed.

(** ** The model's own entries: a team alone in first place *)
Lemma pl_first_alone_omega_nonneg_b64 (P : params binary64) (trs : list (trating binary64)) (c : binary64)
      (i : nat) (ti : trating binary64) :
  (forall x : binary64, fin x = true -> 0 <= RV (fe x)) ->
  nth_error trs i = Some ti ->
  (forall (j : nat) (tq : trating binary64), nth_error trs j = Some tq -> j <> i ->
     (t_rank ti < t_rank tq)%nat) ->
  (Z.of_nat (length trs) <= 9007199254740992)%Z ->
  0 <= RV (@fdiv binary64 BN (t_ss ti) c) ->
  (forall t, In t trs -> fin (@fdiv binary64 BN (t_mu t) c) = true) ->
  (forall s, nth_error (@pl_sum_q binary64 BN trs c) i = Some s -> fin s = true) ->
  fin (fst (@pl_omega_delta binary64 BN P trs c
              (combine (seq 0 (length trs)) (combine trs (combine (@pl_sum_q binary64 BN trs c) (@pl_a binary64 trs))))
              i ti)) = true ->
  0 <= RV (fst (@pl_omega_delta binary64 BN P trs c
              (combine (seq 0 (length trs)) (combine trs (combine (@pl_sum_q binary64 BN trs c) (@pl_a binary64 trs))))
              i ti)).
Proof.
  intros Hexp Hi Halone Hlen Hfac Farg Fsum Fres.
  assert (Hti : In ti trs) by (eapply nth_error_In; exact Hi).
  set (e := @fexp binary64 BN (@fdiv binary64 BN (t_mu ti) c)).
  assert (He : 0 <= RV e) by (apply Hexp; apply Farg; exact Hti).
  unfold pl_omega_delta in *. cbv zeta in *. cbn [fst] in *. fold e in Fres |- *.
  set (qs := combine (seq 0 (length trs)) (combine trs (combine (@pl_sum_q binary64 BN trs c) (@pl_a binary64 trs)))) in *.
  set (so := fst (fold_left (@pl_step binary64 BN i ti e) qs (@fzero binary64 BN, @fzero binary64 BN))) in *.
  set (fac := @fdiv binary64 BN (t_ss ti) c) in *.
  change (fin (b64_mult mode_NE so fac) = true) in Fres.
  change (0 <= RV (b64_mult mode_NE so fac)).
  destruct (b64_mult_val _ _ Fres) as (_ & Fso & _).
  apply b64_mult_nonneg; [exact Fres | | exact Hfac].
  apply pl_fold_omega_nonneg_b64; [exact He | | exact Fso].
  intros (q & tq & sq & n) Hin Hle. cbn [fst snd] in *.
  unfold qs, pl_sum_q, pl_a in Hin.
  apply in_entries_nth in Hin. destruct Hin as (_ & Hnth & Esq & En).
  rewrite Nat.sub_0_r in Hnth.
  destruct (Nat.eq_dec q i) as [->|Hne].
  2:{ exfalso. pose proof (Halone q tq Hnth Hne) as Hlt. apply Nat.leb_le in Hle. lia. }
  rewrite Hi in Hnth. injection Hnth as <-.
  split; [reflexivity|].
  assert (Fsq : fin sq = true).
  { apply Fsum. rewrite Esq. unfold pl_sum_q.
    apply (map_nth_error (fun tq0 => @reduce_add binary64 BN
             (map (fun t => @fexp binary64 BN (@fdiv binary64 BN (t_mu t) c))
                  (filter (fun t => Nat.leb (t_rank tq0) (t_rank t)) trs))) i trs Hi). }
  split; [exact Fsq|]. split.
  - rewrite Esq in Fsq |- *.
    apply (reduce_add_ge fe fc fp fi _ e Fsq).
    + intros y Hy. apply in_map_iff in Hy. destruct Hy as (t & <- & Ht).
      apply filter_In in Ht. apply Hexp. apply Farg. apply Ht.
    + apply (in_map (fun t => @fexp binary64 BN (@fdiv binary64 BN (t_mu t) c))).
      apply filter_In. split; [exact Hti | apply Nat.leb_refl].
  - assert (H1 : (1 <= n)%nat).
    { rewrite En. apply (filter_length_pos _ trs ti Hti). apply Nat.eqb_refl. }
    assert (H2 : (n <= length trs)%nat) by (rewrite En; apply filter_length_le').
    assert (Fn : fin (b64_of_Z (Z.of_nat n)) = true) by (apply b64_of_Z_fin_small; lia).
    pose proof (b64_of_Z_ge_1 (Z.of_nat n) ltac:(lia) Fn). lra.
Qed.

(** composed with the mu update of a member [p]; the finiteness of omega is derived from the
    finiteness of the new mu *)
Lemma pl_first_alone_mu_b64 (P : params binary64) (trs : list (trating binary64)) (c : binary64)
      (i : nat) (ti : trating binary64) (p : rating binary64) :
  (forall x : binary64, fin x = true -> 0 <= RV (fe x)) ->
  nth_error trs i = Some ti ->
  (forall (j : nat) (tq : trating binary64), nth_error trs j = Some tq -> j <> i ->
     (t_rank ti < t_rank tq)%nat) ->
  (Z.of_nat (length trs) <= 9007199254740992)%Z ->
  0 <= RV (@fdiv binary64 BN (t_ss ti) c) ->
  (forall t, In t trs -> fin (@fdiv binary64 BN (t_mu t) c) = true) ->
  (forall s, nth_error (@pl_sum_q binary64 BN trs c) i = Some s -> fin s = true) ->
  0 <= RV (@fdiv binary64 BN (@fpow2 binary64 BN (r_sigma p)) (t_ss ti)) ->
  fin (r_mu (@update_player binary64 BN P ti
         (fst (@pl_omega_delta binary64 BN P trs c
                 (combine (seq 0 (length trs)) (combine trs (combine (@pl_sum_q binary64 BN trs c) (@pl_a binary64 trs))))
                 i ti))
         (snd (@pl_omega_delta binary64 BN P trs c
                 (combine (seq 0 (length trs)) (combine trs (combine (@pl_sum_q binary64 BN trs c) (@pl_a binary64 trs))))
                 i ti)) p)) = true ->
  RV (r_mu p) <= RV (r_mu (@update_player binary64 BN P ti
         (fst (@pl_omega_delta binary64 BN P trs c
                 (combine (seq 0 (length trs)) (combine trs (combine (@pl_sum_q binary64 BN trs c) (@pl_a binary64 trs))))
                 i ti))
         (snd (@pl_omega_delta binary64 BN P trs c
                 (combine (seq 0 (length trs)) (combine trs (combine (@pl_sum_q binary64 BN trs c) (@pl_a binary64 trs))))
                 i ti)) p)).
Proof.
  intros Hexp Hi Halone Hlen Hfac Farg Fsum Hsh Fres.
  apply (proj1 (update_player_mu_direction_b64 fe fc fp fi P ti _ _ p Hsh Fres)).
  apply pl_first_alone_omega_nonneg_b64; try assumption.
  set (om := fst (@pl_omega_delta binary64 BN P trs c _ i ti)) in *.
  set (dl := snd (@pl_omega_delta binary64 BN P trs c _ i ti)) in *.
  change (fin (b64_plus mode_NE (r_mu p)
                 (b64_mult mode_NE (@fdiv binary64 BN (@fpow2 binary64 BN (r_sigma p)) (t_ss ti)) om)) = true) in Fres.
  destruct (b64_plus_fin_inv _ _ Fres) as (_ & Fso).
  destruct (b64_mult_val _ _ Fso) as (_ & _ & Fom). exact Fom.
Qed.

End Model.

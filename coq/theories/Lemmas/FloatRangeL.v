(** * FloatRangeL: the RANGE clauses of the prediction properties (C09, C10, C11) on IEEE 754
    binary64 (Flocq, round to nearest even), with no rounding slack: the doubles the code
    computes are themselves in [0,1].

    Ingredients: rounding is monotone and fixes doubles ([rnd_le], [rnd_B2R] of FloatOrderL);
    small integers are doubles; a bounded result does not overflow (so finiteness is DERIVED
    from the finiteness of the arguments handed to the normal CDF); libm's erfc is only
    assumed to return a finite value in [0,2] on finite arguments.  CPython's [sum()] is the
    Neumaier-compensated summation of Num.v ([py_sum]); its running sum [s] is bounded by
    monotonicity and its compensation [c] by the relative error bound of a binary64 addition
    (|fl(a+b) - (a+b)| <= 2^-53 |a+b|, valid without underflow condition). *)
From Coq Require Import List ZArith Bool Arith Reals Lra Lia Permutation.
From Flocq Require Import Core.Raux Core.Defs Core.Zaux Core.Generic_fmt Core.FLT Core.Ulp Core.Float_prop
  Relative Plus_error Pff.Pff2Flocq IEEE754.BinarySingleNaN IEEE754.Binary IEEE754.Bits.
From OSV Require Import Num Order Gauss Core Predict FloatInst.
From OSV.Lemmas Require Import FloatOrderL.
From OSV.Lemmas Require PredictL.
Import ListNotations.
Open Scope R_scope.

Local Instance prec64_gt_0' : FLX.Prec_gt_0 53 := Hprec64.
Local Instance fexp64_valid' : Valid_exp (SpecFloat.fexp 53 1024) := fexp_correct 53 1024 Hprec64.

Notation fmt := (generic_format radix2 (SpecFloat.fexp 53 1024)).

Lemma fmt_B2R (x : binary64) : fmt (RV x).
Proof. apply (generic_format_B2R 53 1024). Qed.

(** ** Bounded results do not overflow *)

Definition BIG : R := bpow radix2 1000.

Lemma BIG_fmt : fmt BIG.
Proof. unfold BIG. apply generic_format_bpow. vm_compute. intros H; discriminate H. Qed.

Lemma BIG_lt_emax : BIG < bpow radix2 1024.
Proof. unfold BIG. apply bpow_lt. reflexivity. Qed.

Lemma rnd_abs_le (x y : R) : fmt y -> Rabs x <= y -> Rabs (rnd x) <= y.
Proof.
  intros Fy H. unfold rnd. apply abs_round_le_generic; try assumption.
  - exact fexp64_valid'.
  - apply valid_rnd_round_mode.
Qed.

Lemma rnd_no_overflow (x : R) :
  Rabs x <= BIG ->
  Rlt_bool (Rabs (round radix2 (SpecFloat.fexp 53 1024) (round_mode mode_NE) x)) (bpow radix2 1024) = true.
Proof.
  intros H. apply Rlt_bool_true.
  apply Rle_lt_trans with BIG; [|exact BIG_lt_emax].
  exact (rnd_abs_le x BIG BIG_fmt H).
Qed.

Lemma b64_plus_ok (x y : binary64) :
  fin x = true -> fin y = true -> Rabs (RV x + RV y) <= BIG ->
  fin (b64_plus mode_NE x y) = true /\ RV (b64_plus mode_NE x y) = rnd (RV x + RV y).
Proof.
  intros Fx Fy Hb.
  change (b64_plus mode_NE x y) with (Bplus 53 1024 Hprec64 Hmax64 binop_nan_pl64 mode_NE x y).
  pose proof (Bplus_correct 53 1024 Hprec64 Hmax64 binop_nan_pl64 mode_NE x y Fx Fy) as H.
  rewrite (rnd_no_overflow _ Hb) in H. destruct H as (HR & HF & _). split; assumption.
Qed.

Lemma b64_minus_ok (x y : binary64) :
  fin x = true -> fin y = true -> Rabs (RV x - RV y) <= BIG ->
  fin (b64_minus mode_NE x y) = true /\ RV (b64_minus mode_NE x y) = rnd (RV x - RV y).
Proof.
  intros Fx Fy Hb.
  change (b64_minus mode_NE x y) with (Bminus 53 1024 Hprec64 Hmax64 binop_nan_pl64 mode_NE x y).
  pose proof (Bminus_correct 53 1024 Hprec64 Hmax64 binop_nan_pl64 mode_NE x y Fx Fy) as H.
  rewrite (rnd_no_overflow _ Hb) in H. destruct H as (HR & HF & _). split; assumption.
Qed.

Lemma b64_mult_ok (x y : binary64) :
  fin x = true -> fin y = true -> Rabs (RV x * RV y) <= BIG ->
  fin (b64_mult mode_NE x y) = true /\ RV (b64_mult mode_NE x y) = rnd (RV x * RV y).
Proof.
  intros Fx Fy Hb.
  change (b64_mult mode_NE x y) with (Bmult 53 1024 Hprec64 Hmax64 binop_nan_pl64 mode_NE x y).
  pose proof (Bmult_correct 53 1024 Hprec64 Hmax64 binop_nan_pl64 mode_NE x y) as H.
  rewrite (rnd_no_overflow _ Hb) in H. destruct H as (HR & HF & _).
  rewrite Fx, Fy in HF. split; assumption.
Qed.

Lemma b64_div_ok (x y : binary64) :
  fin x = true -> RV y <> 0 -> Rabs (RV x / RV y) <= BIG ->
  fin (b64_div mode_NE x y) = true /\ RV (b64_div mode_NE x y) = rnd (RV x / RV y).
Proof.
  intros Fx Hy Hb.
  change (b64_div mode_NE x y) with (Bdiv 53 1024 Hprec64 Hmax64 binop_nan_pl64 mode_NE x y).
  pose proof (Bdiv_correct 53 1024 Hprec64 Hmax64 binop_nan_pl64 mode_NE x y Hy) as H.
  rewrite (rnd_no_overflow _ Hb) in H. destruct H as (HR & HF & _).
  rewrite Fx in HF. split; assumption.
Qed.

(** dividing by a double >= 1 never overflows *)
Lemma b64_div_ge1_ok (x y : binary64) :
  fin x = true -> 1 <= RV y ->
  fin (b64_div mode_NE x y) = true /\ RV (b64_div mode_NE x y) = rnd (RV x / RV y).
Proof.
  intros Fx Hy.
  assert (Hnz : RV y <> 0) by lra.
  change (b64_div mode_NE x y) with (Bdiv 53 1024 Hprec64 Hmax64 binop_nan_pl64 mode_NE x y).
  pose proof (Bdiv_correct 53 1024 Hprec64 Hmax64 binop_nan_pl64 mode_NE x y Hnz) as H.
  rewrite Rlt_bool_true in H.
  - destruct H as (HR & HF & _). rewrite Fx in HF. split; assumption.
  - apply Rle_lt_trans with (Rabs (RV x)); [|apply abs_B2R_lt_emax].
    apply (rnd_abs_le (RV x / RV y) (Rabs (RV x))).
    + apply generic_format_abs. apply fmt_B2R.
    + unfold Rdiv. rewrite Rabs_mult. rewrite <- (Rmult_1_r (Rabs (RV x))) at 2.
      apply Rmult_le_compat_l; [apply Rabs_pos|].
      rewrite Rabs_inv. rewrite Rabs_pos_eq by lra.
      rewrite <- Rinv_1. apply Rinv_le_contravar; lra.
Qed.

Lemma b64_opp_ok (x : binary64) : fin (b64_opp x) = fin x /\ RV (b64_opp x) = - RV x.
Proof.
  change (b64_opp x) with (Bopp 53 1024 unop_nan_pl64 x).
  split; [apply is_finite_Bopp | apply B2R_Bopp].
Qed.

Lemma b64_abs_ok (x : binary64) : fin (b64_abs x) = fin x /\ RV (b64_abs x) = Rabs (RV x).
Proof.
  change (b64_abs x) with (Babs 53 1024 unop_nan_pl64 x).
  split; [apply is_finite_Babs | apply B2R_Babs].
Qed.

(** ** Small integers are doubles *)

Lemma IZR_fmt (z : Z) : (Z.abs z <= 2 ^ 53)%Z -> fmt (IZR z).
Proof.
  intros Hz.
  destruct (Z.eq_dec (Z.abs z) (2 ^ 53)) as [E|NE].
  - (* +- 2^53 *)
    assert (Hp : fmt (bpow radix2 53)).
    { apply generic_format_bpow. vm_compute. intros H; discriminate H. }
    destruct (Z.abs_eq_or_opp z) as [Ez|Ez]; rewrite Ez in E.
    + rewrite E. replace (IZR (2 ^ 53)) with (bpow radix2 53); [exact Hp|].
      rewrite <- (IZR_Zpower radix2) by lia. reflexivity.
    + replace z with (- (2 ^ 53))%Z by lia. rewrite opp_IZR. apply generic_format_opp.
      replace (IZR (2 ^ 53)) with (bpow radix2 53); [exact Hp|].
      rewrite <- (IZR_Zpower radix2) by lia. reflexivity.
  - apply (generic_format_FLT radix2 (3 - 1024 - 53) 53).
    apply (FLT_spec radix2 (3 - 1024 - 53) 53 (IZR z) (Float radix2 z 0)).
    + unfold F2R. simpl. ring.
    + change (Z.abs z < 2 ^ 53)%Z. lia.
    + cbn [Fexp]. lia.
Qed.

Lemma rnd_IZR (z : Z) : (Z.abs z <= 2 ^ 53)%Z -> rnd (IZR z) = IZR z.
Proof.
  intros Hz. unfold rnd. apply round_generic; [apply valid_rnd_round_mode|]. apply IZR_fmt. exact Hz.
Qed.

Lemma IZR_le_BIG (z : Z) : (Z.abs z <= 2 ^ 53)%Z -> Rabs (IZR z) <= BIG.
Proof.
  intros Hz. rewrite <- abs_IZR. unfold BIG.
  apply Rle_trans with (IZR (2 ^ 53)); [apply IZR_le; exact Hz|].
  replace (IZR (2 ^ 53)) with (bpow radix2 53) by (rewrite <- (IZR_Zpower radix2) by lia; reflexivity).
  apply bpow_le. lia.
Qed.

Lemma b64_of_Z_ok (z : Z) : (Z.abs z <= 2 ^ 53)%Z ->
  fin (b64_of_Z z) = true /\ RV (b64_of_Z z) = IZR z.
Proof.
  intros Hz. unfold b64_of_Z.
  pose proof (binary_normalize_correct 53 1024 Hprec64 Hmax64 mode_NE z 0 false) as H.
  assert (E : F2R (Float radix2 z 0) = IZR z) by (unfold F2R; simpl; ring).
  rewrite E in H.
  rewrite (rnd_no_overflow _ (IZR_le_BIG z Hz)) in H. destruct H as (HR & HF & _).
  split; [exact HF|]. rewrite HR. exact (rnd_IZR z Hz).
Qed.

Lemma b64_of_nat_ok (k : nat) : (Z.of_nat k <= 2 ^ 53)%Z ->
  fin (b64_of_Z (Z.of_nat k)) = true /\ RV (b64_of_Z (Z.of_nat k)) = INR k.
Proof.
  intros Hk. rewrite INR_IZR_INZ. apply b64_of_Z_ok. lia.
Qed.

Lemma rnd_INR (k : nat) : (Z.of_nat k <= 2 ^ 53)%Z -> rnd (INR k) = INR k.
Proof. intros Hk. rewrite INR_IZR_INZ. apply rnd_IZR. lia. Qed.

Lemma INR_le_BIG (k : nat) : (Z.of_nat k <= 2 ^ 53)%Z -> INR k <= BIG.
Proof.
  intros Hk. rewrite INR_IZR_INZ. apply Rle_trans with (Rabs (IZR (Z.of_nat k))); [apply Rle_abs|].
  apply IZR_le_BIG. lia.
Qed.

Lemma one_le_BIG : 1 <= BIG.
Proof. unfold BIG. change 1 with (bpow radix2 0). apply bpow_le. lia. Qed.

Lemma rnd_fmt (x : R) : fmt (rnd x).
Proof. unfold rnd. apply generic_format_round; [exact fexp64_valid' | apply valid_rnd_round_mode]. Qed.

Lemma rnd_id (x : R) : fmt x -> rnd x = x.
Proof. intros H. unfold rnd. apply round_generic; [apply valid_rnd_round_mode | exact H]. Qed.

Lemma rnd_le_fmt (x y : R) : fmt y -> x <= y -> rnd x <= y.
Proof. intros Fy H. rewrite <- (rnd_id y Fy). apply rnd_le. exact H. Qed.

Lemma rnd_ge_fmt (x y : R) : fmt y -> y <= x -> y <= rnd x.
Proof. intros Fy H. rewrite <- (rnd_id y Fy). apply rnd_le. exact H. Qed.

Lemma INR_fmt (k : nat) : (Z.of_nat k <= 2 ^ 53)%Z -> fmt (INR k).
Proof. intros Hk. rewrite INR_IZR_INZ. apply IZR_fmt. lia. Qed.

(** ** The relative error of one binary64 addition: u = 2^-53, no underflow condition *)

Definition u : R := bpow radix2 (-53).

Lemma u_val : u = / 9007199254740992.
Proof. unfold u. simpl. reflexivity. Qed.

Lemma u_pos : 0 < u.
Proof. unfold u. apply bpow_gt_0. Qed.

Lemma add_err (a b : R) : fmt a -> fmt b -> Rabs (rnd (a + b) - (a + b)) <= u * Rabs (a + b).
Proof.
  intros Fa Fb.
  destruct (FLT_plus_error_N_ex radix2 (3 - 1024 - 53) 53 (fun x => negb (Z.even x)) a b Fa Fb)
    as (eps & Heps & Hr).
  change (round radix2 (FLT_exp (3 - 1024 - 53) 53) (Znearest (fun x : Z => negb (Z.even x))) (a + b))
    with (rnd (a + b)) in Hr.
  rewrite Hr.
  replace ((a + b) * (1 + eps) - (a + b)) with (eps * (a + b)) by ring.
  rewrite Rabs_mult. apply Rmult_le_compat_r; [apply Rabs_pos|].
  apply Rle_trans with (1 := Heps).
  apply Rle_trans with (u_ro radix2 53); [apply u_rod1pu_ro_le_u_ro|].
  unfold u_ro, u. right.
  change (-53 + 1)%Z with (-52)%Z. simpl. lra.
Qed.

Lemma sub_err (a b : R) : fmt a -> fmt b -> Rabs (rnd (a - b) - (a - b)) <= u * Rabs (a - b).
Proof. intros Fa Fb. apply (add_err a (- b)); [exact Fa | apply generic_format_opp; exact Fb]. Qed.

(** the correction term of Neumaier's summation, whichever branch is taken:
    t = fl(a+b), e = fl(fl(a - t) + b) is bounded by 4u (|a|+|b|) *)
Lemma comp_R (a b : R) : fmt a -> fmt b ->
  Rabs (rnd (a + b)) <= (1 + u) * (Rabs a + Rabs b)
  /\ Rabs (a - rnd (a + b)) <= 2 * (Rabs a + Rabs b)
  /\ Rabs (rnd (a - rnd (a + b)) + b) <= 3 * u * (Rabs a + Rabs b)
  /\ Rabs (rnd (rnd (a - rnd (a + b)) + b)) <= 4 * u * (Rabs a + Rabs b).
Proof.
  intros Fa Fb.
  pose proof u_pos as Hu. pose proof u_val as Huv.
  set (m := Rabs a + Rabs b).
  assert (Hm0 : 0 <= m) by (unfold m; pose proof (Rabs_pos a); pose proof (Rabs_pos b); lra).
  assert (Hab : Rabs (a + b) <= m) by (unfold m; apply Rabs_triang).
  set (t := rnd (a + b)).
  assert (Ht : Rabs (t - (a + b)) <= u * m).
  { apply Rle_trans with (1 := add_err a b Fa Fb). apply Rmult_le_compat_l; lra. }
  assert (Hum : u * m <= m / 4503599627370496).
  { rewrite Huv. unfold Rdiv. rewrite (Rmult_comm m).
    apply Rmult_le_compat_r; [exact Hm0|]. lra. }
  assert (Hat : Rabs (a - t) <= 2 * m).
  { replace (a - t) with (- (t - (a + b)) + - b) by ring.
    apply Rle_trans with (1 := Rabs_triang _ _). rewrite !Rabs_Ropp.
    unfold m in *. pose proof (Rabs_pos a). lra. }
  set (d := rnd (a - t)).
  assert (Hd : Rabs (d - (a - t)) <= 2 * (u * m)).
  { apply Rle_trans with (1 := sub_err a t Fa (rnd_fmt _)).
    replace (2 * (u * m)) with (u * (2 * m)) by ring. apply Rmult_le_compat_l; lra. }
  assert (Hy : Rabs (d + b) <= 3 * (u * m)).
  { replace (d + b) with ((d - (a - t)) + - (t - (a + b))) by ring.
    apply Rle_trans with (1 := Rabs_triang _ _). rewrite Rabs_Ropp. lra. }
  assert (He : Rabs (rnd (d + b)) <= 4 * (u * m)).
  { assert (H1 : Rabs (rnd (d + b) - (d + b)) <= u * Rabs (d + b)) by (apply add_err; [apply rnd_fmt | exact Fb]).
    assert (H2 : u * Rabs (d + b) <= Rabs (d + b) / 4503599627370496).
    { rewrite Huv. unfold Rdiv. rewrite (Rmult_comm (Rabs (d + b))).
      apply Rmult_le_compat_r; [apply Rabs_pos|]. lra. }
    replace (rnd (d + b)) with ((rnd (d + b) - (d + b)) + (d + b)) by ring.
    apply Rle_trans with (1 := Rabs_triang _ _).
    pose proof (Rabs_pos (d + b)). lra. }
  repeat split.
  - replace t with ((t - (a + b)) + (a + b)) by ring.
    apply Rle_trans with (1 := Rabs_triang _ _). lra.
  - exact Hat.
  - lra.
  - lra.
Qed.

(** ** The model on binary64 *)
Section Model.
Variables fe fc fp fi : binary64 -> binary64.
Notation BN := (B64Num fe fc fp fi).

(** the only premise on libm: erfc of a finite double is a finite double in [0,2] *)
Hypothesis Herfc : forall x : binary64, fin x = true -> fin (fc x) = true /\ 0 <= RV (fc x) <= 2.

Lemma sqrt2_ok : fin (b64_sqrt mode_NE (b64_of_Z 2)) = true /\ 1 <= RV (b64_sqrt mode_NE (b64_of_Z 2)).
Proof.
  split; [vm_compute; reflexivity|].
  rewrite b64_sqrt_val. apply rnd_ge_1.
  rewrite (proj2 (b64_of_Z_ok 2 ltac:(lia))).
  rewrite <- sqrt_1 at 1. apply sqrt_le_1_alt. lra.
Qed.

Lemma fhalf_ok : fin (@fhalf binary64 BN) = true /\ RV (@fhalf binary64 BN) = / 2.
Proof.
  split; [vm_compute; reflexivity|].
  replace (@fhalf binary64 BN) with (b64_of_bits 4602678819172646912)
    by (symmetry; exact (b64_fhalf_bits fe fc fp fi)).
  exact b64_bits_half.
Qed.

Lemma fzero_ok : fin (@fzero binary64 BN) = true /\ RV (@fzero binary64 BN) = 0.
Proof. split; [exact b64_zero_fin | exact b64_zero_val]. Qed.

Lemma fone_ok : fin (@fone binary64 BN) = true /\ RV (@fone binary64 BN) = 1.
Proof. split; [exact b64_one_fin | exact b64_one_val]. Qed.

(** the normal CDF of a finite double is a finite double in [0,1] *)
Lemma cdf_ok (x : binary64) : fin x = true ->
  fin (@cdf binary64 BN x) = true /\ 0 <= RV (@cdf binary64 BN x) <= 1.
Proof.
  intros Fx.
  change (@cdf binary64 BN x)
    with (b64_mult mode_NE (@fhalf binary64 BN) (fc (b64_div mode_NE (b64_opp x) (b64_sqrt mode_NE (b64_of_Z 2))))).
  destruct sqrt2_ok as (Fs & Hs).
  destruct (b64_opp_ok x) as (Fo & _). rewrite Fx in Fo.
  destruct (b64_div_ge1_ok (b64_opp x) _ Fo Hs) as (Fd & _).
  destruct (Herfc _ Fd) as (Fe & He).
  destruct fhalf_ok as (Fh & Hh).
  set (y := fc (b64_div mode_NE (b64_opp x) (b64_sqrt mode_NE (b64_of_Z 2)))) in *.
  assert (Hb : Rabs (RV (@fhalf binary64 BN) * RV y) <= BIG).
  { rewrite Hh. rewrite Rabs_pos_eq by lra. pose proof one_le_BIG. lra. }
  destruct (b64_mult_ok _ y Fh Fe Hb) as (Fm & Hm).
  split; [exact Fm|]. rewrite Hm, Hh. split; [apply rnd_ge_0 | apply rnd_le_1]; lra.
Qed.

(** ** Neumaier summation of terms in [0,1] *)

Definition unit01 (x : binary64) : Prop := fin x = true /\ 0 <= RV x <= 1.

Lemma INR_le_Z (k : nat) (z : Z) : (Z.of_nat k <= z)%Z -> INR k <= IZR z.
Proof. intros H. rewrite INR_IZR_INZ. apply IZR_le. exact H. Qed.

Lemma K_small (j : nat) : (Z.of_nat j <= 2 ^ 20)%Z -> 16 * u * INR j <= / 268435456.
Proof.
  intros Hj. apply INR_le_Z in Hj. change (2 ^ 20)%Z with 1048576%Z in Hj.
  rewrite u_val. pose proof (pos_INR j). lra.
Qed.

(** one step: the correction [fl(c + fl(fl(a - t) + b))] for t = fl(a + b), a, b >= 0 *)
Lemma neum_corr_nonneg (a b t c : binary64) (j : nat) :
  fin a = true -> fin b = true -> fin t = true -> fin c = true ->
  0 <= RV a -> 0 <= RV b -> RV a + RV b <= INR (S j) ->
  RV t = rnd (RV a + RV b) ->
  (Z.of_nat (S j) <= 2 ^ 20)%Z ->
  Rabs (RV c) <= 16 * u * INR j * RV t ->
  let c' := b64_plus mode_NE c (b64_plus mode_NE (b64_minus mode_NE a t) b) in
  fin c' = true /\ Rabs (RV c') <= 16 * u * INR (S j) * RV t.
Proof.
  intros Fa Fb Ft Fc Ha Hb Hab Et Hj Hc c'.
  pose proof u_pos as Hu. pose proof u_val as Huv.
  pose proof (K_small j ltac:(lia)) as HK. pose proof (pos_INR j) as Hj0.
  assert (HSj : INR (S j) <= 1048576).
  { apply INR_le_Z in Hj. exact Hj. }
  destruct (comp_R (RV a) (RV b) (fmt_B2R a) (fmt_B2R b)) as (Ht1 & Hat & Hy & He).
  rewrite <- Et in Ht1, Hat, Hy, He.
  rewrite (Rabs_pos_eq (RV a)) in * by exact Ha. rewrite (Rabs_pos_eq (RV b)) in * by exact Hb.
  set (m := RV a + RV b) in *.
  assert (Hm0 : 0 <= m) by (unfold m; lra).
  assert (Ht0 : 0 <= RV t) by (rewrite Et; apply rnd_ge_0; exact Hm0).
  (* m <= 2 t *)
  assert (Hmt : m <= 2 * RV t).
  { pose proof (add_err (RV a) (RV b) (fmt_B2R a) (fmt_B2R b)) as H. fold m in H. rewrite <- Et in H.
    rewrite (Rabs_pos_eq m) in H by exact Hm0.
    assert (u * m <= m / 2).
    { rewrite Huv. unfold Rdiv. rewrite (Rmult_comm m). apply Rmult_le_compat_r; [exact Hm0|]. lra. }
    apply Rabs_le_inv in H. lra. }
  assert (Hum : u * m <= m / 4503599627370496).
  { rewrite Huv. unfold Rdiv. rewrite (Rmult_comm m). apply Rmult_le_compat_r; [exact Hm0|]. lra. }
  assert (HBIG : 4194304 <= BIG).
  { apply Rle_trans with (Rabs (IZR 4194304)); [rewrite Rabs_pos_eq; lra|]. apply IZR_le_BIG. lia. }
  (* a - t *)
  destruct (b64_minus_ok a t Fa Ft) as (Fd & Hd); [lra|].
  (* fl(a - t) + b *)
  destruct (b64_plus_ok (b64_minus mode_NE a t) b Fd Fb) as (Fe & Hev); [rewrite Hd; lra|].
  rewrite Hd in Hev.
  (* c + e *)
  set (e := b64_plus mode_NE (b64_minus mode_NE a t) b) in *.
  assert (Hut : u * RV t <= RV t / 4503599627370496).
  { rewrite Huv. unfold Rdiv. rewrite (Rmult_comm (RV t)). apply Rmult_le_compat_r; [exact Ht0|]. lra. }
  assert (Hev' : Rabs (RV e) <= 8 * (u * RV t)).
  { rewrite Hev. apply Rle_trans with (1 := He).
    replace (4 * u * m) with (4 * (u * m)) by ring.
    assert (u * m <= u * (2 * RV t)) by (apply Rmult_le_compat_l; lra). lra. }
  assert (Hc' : Rabs (RV c) <= (16 * u * INR j) * RV t) by exact Hc.
  assert (HKt : (16 * u * INR j) * RV t <= RV t / 268435456).
  { unfold Rdiv. rewrite (Rmult_comm (RV t)). apply Rmult_le_compat_r; [exact Ht0 | exact HK]. }
  assert (Ht2 : RV t <= 2097152).
  { rewrite Et. apply rnd_le_fmt; [apply (IZR_fmt 2097152); lia|]. fold m. lra. }
  assert (Hce : Rabs (RV c + RV e) <= (16 * u * INR j + 8 * u) * RV t).
  { apply Rle_trans with (1 := Rabs_triang _ _). lra. }
  destruct (b64_plus_ok c e Fc Fe) as (Fc' & Hc'v); [lra|].
  split; [exact Fc'|].
  fold c' in Hc'v. rewrite Hc'v.
  pose proof (add_err (RV c) (RV e) (fmt_B2R c) (fmt_B2R e)) as Herr.
  set (z := RV c + RV e) in *.
  replace (rnd z) with ((rnd z - z) + z) by ring.
  apply Rle_trans with (1 := Rabs_triang _ _).
  assert (Huz : u * Rabs z <= u * ((16 * u * INR j + 8 * u) * RV t)).
  { apply Rmult_le_compat_l; lra. }
  apply Rle_trans with ((1 + u) * ((16 * u * INR j + 8 * u) * RV t)); [lra|].
  rewrite S_INR.
  replace (16 * u * (INR j + 1) * RV t) with ((16 * u * INR j + 16 * u) * RV t) by ring.
  rewrite <- Rmult_assoc. apply Rmult_le_compat_r; [exact Ht0|].
  (* (1+u)(K + 8u) <= K + 16 u  <=  u (K + 8u) <= 8 u *)
  assert (u * (16 * u * INR j + 8 * u) <= u * 8).
  { apply Rmult_le_compat_l; lra. }
  lra.
Qed.

Lemma nat_le_BIG (k : nat) : (Z.of_nat k <= 2 ^ 50)%Z -> INR k <= BIG.
Proof. intros Hk. apply INR_le_BIG. lia. Qed.

Lemma nat_fmt (k : nat) : (Z.of_nat k <= 2 ^ 50)%Z -> fmt (INR k).
Proof. intros Hk. apply INR_fmt. lia. Qed.

Lemma neum_nonneg (l : list binary64) : forall (s c : binary64) (j : nat),
  Forall unit01 l -> fin s = true -> fin c = true ->
  0 <= RV s <= INR j -> Rabs (RV c) <= 16 * u * INR j * RV s ->
  (Z.of_nat (j + length l) <= 2 ^ 20)%Z ->
  fin (fst (@neumaier binary64 BN l s c)) = true
  /\ fin (snd (@neumaier binary64 BN l s c)) = true
  /\ 0 <= RV (fst (@neumaier binary64 BN l s c)) <= INR (j + length l)
  /\ Rabs (RV (snd (@neumaier binary64 BN l s c)))
     <= 16 * u * INR (j + length l) * RV (fst (@neumaier binary64 BN l s c)).
Proof.
  induction l as [|x xs IH]; intros s c j Hl Fs Fc Hs Hc Hj; cbn [neumaier length].
  - rewrite Nat.add_0_r. cbn [fst snd]. auto.
  - inversion Hl as [|x' xs' (Fx & Hx) Hxs]; subst x' xs'.
    cbn [length] in Hj.
    change (@fadd binary64 BN s x) with (b64_plus mode_NE s x).
    change (@fsub binary64 BN) with (b64_minus mode_NE).
    change (@fadd binary64 BN) with (b64_plus mode_NE).
    pose proof u_pos as Hu. pose proof (pos_INR j) as Hj0.
    assert (HSj : INR (S j) <= BIG) by (apply nat_le_BIG; lia).
    rewrite S_INR in HSj.
    destruct (b64_plus_ok s x Fs Fx) as (Ft & Et); [rewrite Rabs_pos_eq; lra|].
    set (t := b64_plus mode_NE s x) in *.
    assert (Hst : RV s <= RV t) by (rewrite Et; apply rnd_ge_B2R; lra).
    assert (Ht : 0 <= RV t <= INR (S j)).
    { rewrite Et. split; [apply rnd_ge_0; lra|].
      apply rnd_le_fmt; [apply nat_fmt; lia | rewrite S_INR; lra]. }
    assert (Hc2 : Rabs (RV c) <= 16 * u * INR j * RV t).
    { apply Rle_trans with (1 := Hc). apply Rmult_le_compat_l; [|exact Hst].
      apply Rmult_le_pos; [lra | exact Hj0]. }
    replace (j + S (length xs))%nat with (S j + length xs)%nat by lia.
    destruct (@fleb binary64 BN (@fabs binary64 BN x) (@fabs binary64 BN s)).
    + destruct (neum_corr_nonneg s x t c j Fs Fx Ft Fc) as (Fc' & Hc'); try assumption; try lia; try lra.
      { rewrite S_INR; lra. }
      apply IH; try assumption. lia.
    + destruct (neum_corr_nonneg x s t c j Fx Fs Ft Fc) as (Fc' & Hc'); try assumption; try lia; try lra.
      { rewrite S_INR; lra. }
      { rewrite Et. f_equal. ring. }
      apply IH; try assumption. lia.
Qed.

Lemma b64_eqb_zero_zero : b64_eqb (b64_of_Z 0) (b64_of_Z 0) = true.
Proof. vm_compute. reflexivity. Qed.

(** CPython's [sum()] of k <= 2^20 doubles in [0,1]: a finite double in [0, k+1]
    (in [0, k] when k <= 1) *)
Lemma py_sum_01 (l : list binary64) :
  Forall unit01 l -> (Z.of_nat (length l) <= 2 ^ 20)%Z ->
  fin (@py_sum binary64 BN l) = true
  /\ 0 <= RV (@py_sum binary64 BN l) <= INR (length l) + 1
  /\ ((length l <= 1)%nat -> RV (@py_sum binary64 BN l) <= INR (length l)).
Proof.
  intros Hl Hlen. destruct l as [|x xs].
  - cbn [py_sum length INR]. destruct fzero_ok as (F0 & H0). rewrite H0. repeat split; try assumption; try lra.
  - inversion Hl as [|x' xs' (Fx & Hx) Hxs]; subst x' xs'.
    cbn [length] in Hlen. unfold py_sum.
    change (@fzero binary64 BN) with (b64_of_Z 0).
    change (@fadd binary64 BN (b64_of_Z 0) x) with (b64_plus mode_NE (b64_of_Z 0) x).
    destruct (b64_plus_ok (b64_of_Z 0) x b64_zero_fin Fx) as (Fs0 & Es0).
    { rewrite b64_zero_val, Rplus_0_l, Rabs_pos_eq by lra. pose proof one_le_BIG. lra. }
    rewrite b64_zero_val, Rplus_0_l, rnd_B2R in Es0.
    set (s0 := b64_plus mode_NE (b64_of_Z 0) x) in *.
    destruct (neum_nonneg xs s0 (b64_of_Z 0) 1 Hxs Fs0 b64_zero_fin) as (Fs & Fc & Hs & Hc).
    { rewrite Es0. cbn [INR]. lra. }
    { rewrite b64_zero_val, Rabs_R0, Es0. cbn [INR]. pose proof u_pos. apply Rmult_le_pos; lra. }
    { lia. }
    change (1 + length xs)%nat with (S (length xs)) in Hs, Hc.
    set (k := S (length xs)) in *. cbn [length]. fold k.
    set (sc := @neumaier binary64 BN xs s0 (b64_of_Z 0)) in *.
    pose proof (K_small k Hlen) as HK.
    assert (Hk : INR k <= 1048576) by (apply (INR_le_Z k (2 ^ 20)); exact Hlen).
    assert (Hk1 : 1 <= INR k) by (unfold k; rewrite S_INR; pose proof (pos_INR (length xs)); lra).
    assert (Hcs : Rabs (RV (snd sc)) <= RV (fst sc) / 268435456).
    { apply Rle_trans with (1 := Hc). unfold Rdiv. rewrite (Rmult_comm (RV (fst sc))).
      apply Rmult_le_compat_r; [apply Hs | exact HK]. }
    apply Rabs_le_inv in Hcs.
    assert (Hres : fin (b64_plus mode_NE (fst sc) (snd sc)) = true
                   /\ 0 <= RV (b64_plus mode_NE (fst sc) (snd sc)) <= INR k + 1).
    { assert (HB : INR (S k) <= BIG) by (apply nat_le_BIG; lia). rewrite S_INR in HB.
      destruct (b64_plus_ok (fst sc) (snd sc) Fs Fc) as (Fr & Er); [apply Rabs_le; lra|].
      split; [exact Fr|]. rewrite Er. split; [apply rnd_ge_0; lra|].
      rewrite <- S_INR. apply rnd_le_fmt; [apply nat_fmt; lia | rewrite S_INR; lra]. }
    split; [|split].
    + destruct (andb _ _); [apply Hres | exact Fs].
    + destruct (andb _ _); [apply Hres | lra].
    + intros Hk'. unfold k in Hk'. assert (xs = []) by (destruct xs; [reflexivity | cbn [length] in Hk'; lia]). subst xs.
      unfold sc. cbn [neumaier snd fst].
      change (@feqb binary64 BN (b64_of_Z 0) (b64_of_Z 0)) with (b64_eqb (b64_of_Z 0) (b64_of_Z 0)).
      rewrite b64_eqb_zero_zero. cbn [negb andb]. rewrite Es0. unfold k. cbn [length INR]. lra.
Qed.

(** ** n(n-1)/2 and the quotient *)
Lemma half_pairs_ok (n : nat) : (2 <= n)%nat -> (Z.of_nat n <= 2 ^ 20)%Z ->
  fin (@half_pairs binary64 BN n) = true
  /\ 1 <= RV (@half_pairs binary64 BN n)
  /\ ((3 <= n)%nat -> INR n <= RV (@half_pairs binary64 BN n)).
Proof.
  intros Hn2 Hn.
  change (@half_pairs binary64 BN n) with (b64_div mode_NE (b64_of_Z (Z.of_nat (n * (n - 1)))) (b64_of_Z 2)).
  set (m := (n * (n - 1))%nat).
  assert (Hm : (Z.of_nat m <= 2 ^ 40)%Z).
  { unfold m. rewrite Nat2Z.inj_mul. rewrite Nat2Z.inj_sub by lia. change (2 ^ 40)%Z with (2 ^ 20 * 2 ^ 20)%Z.
    apply Z.mul_le_mono_nonneg; lia. }
  destruct (b64_of_nat_ok m ltac:(lia)) as (Fm & Em).
  destruct (b64_of_Z_ok 2 ltac:(lia)) as (F2 & E2).
  destruct (b64_div_ge1_ok (b64_of_Z (Z.of_nat m)) (b64_of_Z 2) Fm) as (Fd & Ed); [rewrite E2; lra|].
  rewrite Em, E2 in Ed.
  split; [exact Fd|]. rewrite Ed. split.
  - apply rnd_ge_1.
    assert (H2 : (2 <= m)%nat) by (unfold m; nia).
    apply le_INR in H2. cbn [INR] in H2. lra.
  - intros Hn3. apply rnd_ge_fmt; [apply nat_fmt; lia|].
    assert (H2 : (2 * n <= m)%nat) by (unfold m; nia).
    apply le_INR in H2. rewrite mult_INR in H2. cbn [INR] in H2. lra.
Qed.

Lemma quot_01 (r d : binary64) (B : R) :
  fin r = true -> 0 <= RV r <= B -> B <= RV d -> 1 <= RV d ->
  fin (b64_div mode_NE r d) = true /\ 0 <= RV (b64_div mode_NE r d) <= 1.
Proof.
  intros Fr Hr HB Hd.
  destruct (b64_div_ge1_ok r d Fr Hd) as (Fq & Eq). split; [exact Fq|]. rewrite Eq.
  assert (Hinv : 0 < / RV d) by (apply Rinv_0_lt_compat; lra).
  split.
  - apply rnd_ge_0. unfold Rdiv. apply Rmult_le_pos; lra.
  - apply rnd_le_1. apply Rmult_le_reg_r with (RV d); [lra|].
    unfold Rdiv. rewrite Rmult_assoc, Rinv_l by lra. lra.
Qed.

(** one row: sum of the n-1 CDF values of a row, divided by n(n-1)/2 *)
Lemma row_quot_ok (n : nat) (l : list binary64) :
  (2 <= n)%nat -> (Z.of_nat n <= 2 ^ 20)%Z -> Forall unit01 l -> S (length l) = n ->
  fin (@fdiv binary64 BN (@py_sum binary64 BN l) (@half_pairs binary64 BN n)) = true
  /\ 0 <= RV (@fdiv binary64 BN (@py_sum binary64 BN l) (@half_pairs binary64 BN n)) <= 1.
Proof.
  intros Hn2 Hn Hl Hlen.
  destruct (py_sum_01 l Hl ltac:(lia)) as (Fr & Hr & Hr1).
  destruct (half_pairs_ok n Hn2 Hn) as (Fd & Hd1 & Hdn).
  change (@fdiv binary64 BN) with (b64_div mode_NE).
  destruct (Nat.eq_dec n 2) as [E2|N2].
  - assert (Hl1 : (length l <= 1)%nat) by lia. specialize (Hr1 Hl1).
    apply (quot_01 _ _ 1 Fr); [ | exact Hd1 | exact Hd1].
    split; [apply Hr|]. apply Rle_trans with (1 := Hr1).
    replace 1 with (INR 1) by reflexivity. apply le_INR. exact Hl1.
  - apply (quot_01 _ _ (INR n) Fr); [ | apply Hdn; lia | exact Hd1].
    rewrite <- Hlen, S_INR. exact Hr.
Qed.

(** ** C09: predict_win *)
Lemma rows_snd_length {A : Type} (l : list A) (ro : A * list A) :
  In ro (rows l) -> S (length (snd ro)) = length l.
Proof.
  intros Hin. pose proof (Permutation_length (PredictL.rows_perm l ro Hin)) as H.
  cbn [length] in H. symmetry. exact H.
Qed.

Lemma predict_win_range_b64 (beta : binary64) (teams : list (list (rating binary64))) :
  (2 <= length teams)%nat -> (Z.of_nat (length teams) <= 2 ^ 20)%Z ->
  match teams with
  | [ta; tb] =>
      fin (@fdiv binary64 BN (@fsub binary64 BN (fst (@agg binary64 BN ta)) (fst (@agg binary64 BN tb)))
             (@pair_scale binary64 BN beta (length ta + length tb) (@agg binary64 BN ta) (@agg binary64 BN tb))) = true
  | _ =>
      forall (ro : list (rating binary64) * list (list (rating binary64))) (tb : list (rating binary64)),
        In ro (rows teams) -> In tb (snd ro) ->
        fin (@fdiv binary64 BN (@fsub binary64 BN (fst (@agg binary64 BN (fst ro))) (fst (@agg binary64 BN tb)))
               (@pair_scale binary64 BN beta (length teams) (@agg binary64 BN (fst ro)) (@agg binary64 BN tb))) = true
  end ->
  Forall (fun p : binary64 => fin p = true /\ 0 <= RV p <= 1) (@predict_win binary64 BN beta teams).
Proof.
  intros Hn2 Hn Harg.
  assert (Hgen : forall teams' : list (list (rating binary64)),
             (3 <= length teams')%nat -> (Z.of_nat (length teams') <= 2 ^ 20)%Z ->
             (forall ro tb, In ro (rows teams') -> In tb (snd ro) ->
                fin (@fdiv binary64 BN (@fsub binary64 BN (fst (@agg binary64 BN (fst ro))) (fst (@agg binary64 BN tb)))
                       (@pair_scale binary64 BN beta (length teams') (@agg binary64 BN (fst ro)) (@agg binary64 BN tb))) = true) ->
             Forall (fun p : binary64 => fin p = true /\ 0 <= RV p <= 1)
               (map (fun ro : list (rating binary64) * list (list (rating binary64)) =>
                       @fdiv binary64 BN
                         (@py_sum binary64 BN
                            (map (fun tb => @cdf binary64 BN
                                    (@fdiv binary64 BN (@fsub binary64 BN (fst (@agg binary64 BN (fst ro))) (fst (@agg binary64 BN tb)))
                                       (@pair_scale binary64 BN beta (length teams') (@agg binary64 BN (fst ro)) (@agg binary64 BN tb))))
                                 (snd ro)))
                         (@half_pairs binary64 BN (length teams')))
                    (rows teams'))).
  { intros teams' H3 Hn' Harg'. apply Forall_forall. intros p Hp.
    apply in_map_iff in Hp. destruct Hp as (ro & <- & Hro).
    apply row_quot_ok; [lia | exact Hn' | | rewrite map_length; apply rows_snd_length; exact Hro].
    apply Forall_forall. intros y Hy. apply in_map_iff in Hy. destruct Hy as (tb & <- & Htb).
    apply cdf_ok. apply Harg'; assumption. }
  destruct teams as [|ta [|tb [|tc r]]]; cbn [length] in Hn2; try lia.
  - (* two teams *)
    unfold predict_win. cbv zeta.
    destruct (cdf_ok _ Harg) as (Fr & Hr).
    set (r := @cdf binary64 BN _) in *.
    change (@fsub binary64 BN (@fone binary64 BN) r) with (b64_minus mode_NE (b64_of_Z 1) r).
    destruct (b64_minus_ok (b64_of_Z 1) r b64_one_fin Fr) as (Fm & Em).
    { rewrite b64_one_val. pose proof one_le_BIG. apply Rabs_le. lra. }
    rewrite b64_one_val in Em.
    apply Forall_cons; [split; [exact Fr | exact Hr]|]. apply Forall_cons; [|apply Forall_nil].
    split; [exact Fm|]. rewrite Em. split; [apply rnd_ge_0 | apply rnd_le_1]; lra.
  - (* three or more *)
    exact (Hgen (ta :: tb :: tc :: r) ltac:(cbn [length]; lia) Hn Harg).
Qed.

(** ** C11: predict_rank_probs *)
Lemma rank_probs_range_b64 (beta : binary64) (teams : list (list (rating binary64))) :
  (2 <= length teams)%nat -> (Z.of_nat (length teams) <= 2 ^ 20)%Z ->
  (forall (ro : list (rating binary64) * list (list (rating binary64))) (tb : list (rating binary64)),
     In ro (rows teams) -> In tb (snd ro) ->
     fin (@fdiv binary64 BN
            (@fsub binary64 BN (@fsub binary64 BN (fst (@agg binary64 BN (fst ro))) (fst (@agg binary64 BN tb)))
               (@draw_margin binary64 BN beta teams))
            (@pair_scale binary64 BN beta (length teams) (@agg binary64 BN (fst ro)) (@agg binary64 BN tb))) = true) ->
  Forall (fun p : binary64 => fin p = true /\ 0 <= RV p <= 1) (@predict_rank_probs binary64 BN beta teams).
Proof.
  intros Hn2 Hn Harg. unfold predict_rank_probs. cbv zeta.
  apply Forall_forall. intros p Hp.
  apply in_map_iff in Hp. destruct Hp as (ro & <- & Hro).
  match goal with |- fin (@fabs binary64 BN ?q) = true /\ _ =>
    assert (Hq : fin q = true /\ 0 <= RV q <= 1) end.
  { apply row_quot_ok; [exact Hn2 | exact Hn | | rewrite map_length; apply rows_snd_length; exact Hro].
    apply Forall_forall. intros y Hy. apply in_map_iff in Hy. destruct Hy as (tb & <- & Htb).
    apply cdf_ok. apply Harg; assumption. }
  destruct Hq as (Fq & Hq).
  change (@fabs binary64 BN) with b64_abs.
  match goal with |- fin (b64_abs ?q) = true /\ _ => destruct (b64_abs_ok q) as (Fa & Ea) end.
  rewrite Fa, Ea, Rabs_pos_eq by apply Hq. split; assumption.
Qed.

(** ** Exactness of the compensation (Fast2Sum, Dekker) and the tight bound on a compensated sum
    of terms in [-1,1] *)

Lemma choiceE_sym : forall x : Z, negb (Z.even x) = negb (negb (Z.even (- (x + 1)))).
Proof.
  intros x. rewrite Z.even_opp, Z.add_1_r, Z.even_succ, <- Z.negb_even, negb_involutive. reflexivity.
Qed.

Lemma fast2sum_R (a b : R) : fmt a -> fmt b -> Rabs b <= Rabs a ->
  rnd (rnd (a - rnd (a + b)) + b) = a + b - rnd (a + b).
Proof.
  intros Fa Fb Hab.
  pose proof (Fast2Sum_correct (3 - 1024 - 53) 53 (fun x => negb (Z.even x)) ltac:(lia) ltac:(lia)
                choiceE_sym a b Fa Fb Hab) as H.
  change (round radix2 (FLT_exp (3 - 1024 - 53) 53) (Znearest (fun x : Z => negb (Z.even x)))) with rnd in H.
  rewrite (Rplus_comm b) in H. lra.
Qed.

Lemma rnd_mid_le (k v : R) : fmt k -> 0 <= k -> v <= k + k * u / 2 -> rnd v <= k.
Proof.
  intros Fk Hk Hv. unfold rnd.
  apply (round_N_le_midp radix2 (SpecFloat.fexp 53 1024) (fun x => negb (Z.even x)) k v Fk).
  rewrite succ_eq_pos by exact Hk.
  pose proof (ulp_FLT_gt radix2 (3 - 1024 - 53) 53 k) as Hul.
  change (ulp radix2 (FLT_exp (3 - 1024 - 53) 53) k) with (ulp radix2 (SpecFloat.fexp 53 1024) k) in Hul.
  rewrite Rabs_pos_eq in Hul by exact Hk. change (bpow radix2 (- (53))) with u in Hul. lra.
Qed.

Lemma rnd_mid_ge (k v : R) : fmt k -> 0 <= k -> - k - k * u / 2 <= v -> - k <= rnd v.
Proof.
  intros Fk Hk Hv. unfold rnd.
  apply (round_N_ge_midp radix2 (SpecFloat.fexp 53 1024) (fun x => negb (Z.even x)) (- k) v).
  - apply generic_format_opp. exact Fk.
  - unfold pred. rewrite Ropp_involutive. rewrite succ_eq_pos by exact Hk.
    pose proof (ulp_FLT_gt radix2 (3 - 1024 - 53) 53 k) as Hul.
    change (ulp radix2 (FLT_exp (3 - 1024 - 53) 53) k) with (ulp radix2 (SpecFloat.fexp 53 1024) k) in Hul.
    rewrite Rabs_pos_eq in Hul by exact Hk. change (bpow radix2 (- (53))) with u in Hul. lra.
Qed.

Definition unit11 (x : binary64) : Prop := fin x = true /\ Rabs (RV x) <= 1.

Fixpoint sumR (l : list binary64) : R :=
  match l with [] => 0 | x :: xs => RV x + sumR xs end.

Lemma sumR_bound (l : list binary64) : Forall unit11 l -> Rabs (sumR l) <= INR (length l).
Proof.
  induction 1 as [|x xs (Fx & Hx) Hxs IH]; cbn [sumR length].
  - rewrite Rabs_R0. cbn [INR]. lra.
  - rewrite S_INR. apply Rle_trans with (1 := Rabs_triang _ _). lra.
Qed.

Lemma INR_le_2p25 (k : nat) : (Z.of_nat k <= 2 ^ 25)%Z -> INR k <= 33554432.
Proof. intros H. apply (INR_le_Z k (2 ^ 25)). exact H. Qed.

(** the compensation term is the exact rounding error of [t = fl(a + b)] when |b| <= |a| *)
Lemma comp_exact (a b t : binary64) :
  fin a = true -> fin b = true -> fin t = true ->
  Rabs (RV a) + Rabs (RV b) <= 67108864 ->
  RV t = rnd (RV a + RV b) -> Rabs (RV b) <= Rabs (RV a) ->
  fin (b64_plus mode_NE (b64_minus mode_NE a t) b) = true
  /\ RV (b64_plus mode_NE (b64_minus mode_NE a t) b) = RV a + RV b - RV t.
Proof.
  intros Fa Fb Ft Hm Et Hba.
  pose proof u_pos as Hu. pose proof u_val as Huv.
  destruct (comp_R (RV a) (RV b) (fmt_B2R a) (fmt_B2R b)) as (_ & Hat & Hy & _).
  rewrite <- Et in Hat, Hy.
  assert (HBIG : 268435456 <= BIG).
  { apply Rle_trans with (Rabs (IZR 268435456)); [rewrite Rabs_pos_eq; lra|]. apply IZR_le_BIG. lia. }
  destruct (b64_minus_ok a t Fa Ft) as (Fd & Ed); [lra|].
  assert (Hum : 3 * u * (Rabs (RV a) + Rabs (RV b)) <= 67108864).
  { pose proof (Rabs_pos (RV a)). pose proof (Rabs_pos (RV b)).
    assert (3 * u * (Rabs (RV a) + Rabs (RV b)) <= 1 * (Rabs (RV a) + Rabs (RV b))).
    { apply Rmult_le_compat_r; lra. }
    lra. }
  destruct (b64_plus_ok (b64_minus mode_NE a t) b Fd Fb) as (Fe & Ee); [rewrite Ed; lra|].
  split; [exact Fe|]. rewrite Ee, Ed, Et. apply fast2sum_R; [apply fmt_B2R | apply fmt_B2R | exact Hba].
Qed.

(** the update [c' = fl(c + e)] of the compensation, e the exact error of the j+1-st addition:
    A = u K bounds every error, |c_j| <= 2 A j, and c_j differs from the exact accumulated
    error E_j by at most 2 A^2 j *)
Lemma c_update (c e : binary64) (j K : nat) (E : R) :
  fin c = true -> fin e = true -> (S j <= K)%nat -> (Z.of_nat K <= 2 ^ 25)%Z ->
  Rabs (RV e) <= u * INR (S j) ->
  Rabs (RV c) <= 2 * (u * INR K) * INR j ->
  Rabs (RV c - E) <= 2 * ((u * INR K) * (u * INR K)) * INR j ->
  fin (b64_plus mode_NE c e) = true
  /\ Rabs (RV (b64_plus mode_NE c e)) <= 2 * (u * INR K) * INR (S j)
  /\ Rabs (RV (b64_plus mode_NE c e) - (E + RV e)) <= 2 * ((u * INR K) * (u * INR K)) * INR (S j).
Proof.
  intros Fc Fe HjK HK He Hc HcE.
  pose proof u_pos as Hu. pose proof u_val as Huv.
  pose proof (INR_le_2p25 K HK) as HKr.
  pose proof (pos_INR j) as Hj0.
  assert (HjKr : INR j + 1 <= INR K) by (rewrite <- S_INR; apply le_INR; exact HjK).
  set (A := u * INR K) in *.
  assert (HA0 : 0 <= A) by (unfold A; apply Rmult_le_pos; lra).
  assert (HA : A <= / 268435456).
  { unfold A. rewrite Huv. lra. }
  rewrite S_INR in *.
  assert (HeA : Rabs (RV e) <= A).
  { apply Rle_trans with (1 := He). unfold A. apply Rmult_le_compat_l; lra. }
  assert (HAj : A * INR j <= / 8).
  { apply Rle_trans with (/ 268435456 * 33554432); [|lra].
    apply Rmult_le_compat; lra. }
  set (w := u * (2 * INR j + 1)).
  assert (Hw0 : 0 <= w) by (unfold w; apply Rmult_le_pos; lra).
  assert (Hw1 : w <= 1) by (unfold w; rewrite Huv; lra).
  assert (Hw2 : w <= 2 * A).
  { unfold w, A. replace (2 * (u * INR K)) with (u * (2 * INR K)) by ring.
    apply Rmult_le_compat_l; lra. }
  assert (HAw1 : A * w <= A * 1) by (apply Rmult_le_compat_l; lra).
  assert (HAw2 : A * w <= A * (2 * A)) by (apply Rmult_le_compat_l; lra).
  assert (Hce : Rabs (RV c + RV e) <= A * (2 * INR j + 1)).
  { apply Rle_trans with (1 := Rabs_triang _ _). lra. }
  assert (HBIG : 2 <= BIG).
  { apply Rle_trans with (Rabs (IZR 2)); [rewrite Rabs_pos_eq; lra|]. apply IZR_le_BIG. lia. }
  destruct (b64_plus_ok c e Fc Fe) as (Fc' & Ec'); [lra|].
  split; [exact Fc'|]. rewrite Ec'.
  pose proof (add_err (RV c) (RV e) (fmt_B2R c) (fmt_B2R e)) as Herr.
  assert (Hue : u * Rabs (RV c + RV e) <= A * w).
  { unfold w. replace (A * (u * (2 * INR j + 1))) with (u * (A * (2 * INR j + 1))) by ring.
    apply Rmult_le_compat_l; lra. }
  set (z := RV c + RV e) in *.
  split.
  - replace (rnd z) with ((rnd z - z) + z) by ring.
    apply Rle_trans with (1 := Rabs_triang _ _). lra.
  - replace (rnd z - (E + RV e)) with ((rnd z - z) + (RV c - E)) by (unfold z; ring).
    apply Rle_trans with (1 := Rabs_triang _ _). lra.
Qed.

Lemma neum_signed (K : nat) (HK : (Z.of_nat K <= 2 ^ 25)%Z) (l : list binary64) :
  forall (s c : binary64) (j : nat) (E : R),
  Forall unit11 l -> fin s = true -> fin c = true ->
  Rabs (RV s) <= INR j ->
  Rabs (RV c) <= 2 * (u * INR K) * INR j ->
  Rabs (RV c - E) <= 2 * ((u * INR K) * (u * INR K)) * INR j ->
  (j + length l <= K)%nat ->
  fin (fst (@neumaier binary64 BN l s c)) = true
  /\ fin (snd (@neumaier binary64 BN l s c)) = true
  /\ Rabs (RV (fst (@neumaier binary64 BN l s c))) <= INR (j + length l)
  /\ Rabs (RV (snd (@neumaier binary64 BN l s c))) <= 2 * (u * INR K) * INR (j + length l)
  /\ Rabs (RV (snd (@neumaier binary64 BN l s c))
           - (RV s + E + sumR l - RV (fst (@neumaier binary64 BN l s c))))
     <= 2 * ((u * INR K) * (u * INR K)) * INR (j + length l).
Proof.
  induction l as [|x xs IH]; intros s c j E Hl Fs Fc Hs Hc HcE Hj; cbn [neumaier length sumR].
  - rewrite Nat.add_0_r. cbn [fst snd]. repeat split; try assumption.
    replace (RV s + E + 0 - RV s) with E by ring. exact HcE.
  - inversion Hl as [|x' xs' (Fx & Hx) Hxs]; subst x' xs'.
    cbn [length] in Hj.
    change (@fadd binary64 BN s x) with (b64_plus mode_NE s x).
    change (@fsub binary64 BN) with (b64_minus mode_NE).
    change (@fadd binary64 BN) with (b64_plus mode_NE).
    change (@fleb binary64 BN (@fabs binary64 BN x) (@fabs binary64 BN s)) with (b64_leb (b64_abs x) (b64_abs s)).
    pose proof u_pos as Hu. pose proof u_val as Huv. pose proof (pos_INR j) as Hj0.
    pose proof (INR_le_2p25 K HK) as HKr.
    assert (HjK : INR j + 1 <= INR K) by (rewrite <- S_INR; apply le_INR; lia).
    assert (HBIG : 67108864 <= BIG).
    { apply Rle_trans with (Rabs (IZR 67108864)); [rewrite Rabs_pos_eq; lra|]. apply IZR_le_BIG. lia. }
    assert (Hsx : Rabs (RV s + RV x) <= INR (S j)).
    { rewrite S_INR. apply Rle_trans with (1 := Rabs_triang _ _). lra. }
    destruct (b64_plus_ok s x Fs Fx) as (Ft & Et); [rewrite S_INR in Hsx; lra|].
    set (t := b64_plus mode_NE s x) in *.
    assert (Ht : Rabs (RV t) <= INR (S j)).
    { rewrite Et. apply rnd_abs_le; [apply nat_fmt; lia | exact Hsx]. }
    (* the error of this addition *)
    assert (Herr : Rabs (RV s + RV x - RV t) <= u * INR (S j)).
    { rewrite Rabs_minus_sym, Et. apply Rle_trans with (1 := add_err _ _ (fmt_B2R s) (fmt_B2R x)).
      apply Rmult_le_compat_l; lra. }
    destruct (b64_abs_ok x) as (Fax & Eax). destruct (b64_abs_ok s) as (Fas & Eas).
    rewrite Fx in Fax. rewrite Fs in Fas.
    replace (j + S (length xs))%nat with (S j + length xs)%nat by lia.
    rewrite (b64_leb_spec _ _ Fax Fas), Eax, Eas.
    destruct (Rle_bool_spec (Rabs (RV x)) (Rabs (RV s))) as [Hle|Hlt].
    + destruct (comp_exact s x t Fs Fx Ft) as (Fe & Ee); [lra | exact Et | exact Hle |].
      set (e := b64_plus mode_NE (b64_minus mode_NE s t) x) in *.
      destruct (c_update c e j K E Fc Fe ltac:(lia) HK) as (Fc' & Hc' & HcE'); try assumption.
      { rewrite Ee. exact Herr. }
      destruct (IH t (b64_plus mode_NE c e) (S j) (E + RV e) Hxs Ft Fc' Ht Hc' HcE' ltac:(lia))
        as (R1 & R2 & R3 & R4 & R5).
      repeat split; try assumption.
      replace (RV s + E + (RV x + sumR xs)) with (RV t + (E + RV e) + sumR xs) by (rewrite Ee; ring).
      exact R5.
    + assert (Et' : RV t = rnd (RV x + RV s)) by (rewrite Et; f_equal; ring).
      destruct (comp_exact x s t Fx Fs Ft) as (Fe & Ee); [lra | exact Et' | lra |].
      set (e := b64_plus mode_NE (b64_minus mode_NE x t) s) in *.
      destruct (c_update c e j K E Fc Fe ltac:(lia) HK) as (Fc' & Hc' & HcE'); try assumption.
      { rewrite Ee. replace (RV x + RV s - RV t) with (RV s + RV x - RV t) by ring. exact Herr. }
      destruct (IH t (b64_plus mode_NE c e) (S j) (E + RV e) Hxs Ft Fc' Ht Hc' HcE' ltac:(lia))
        as (R1 & R2 & R3 & R4 & R5).
      repeat split; try assumption.
      replace (RV s + E + (RV x + sumR xs)) with (RV t + (E + RV e) + sumR xs) by (rewrite Ee; ring).
      exact R5.
Qed.

(** CPython's [sum()] of k <= 2^25 doubles in [-1,1] is a finite double in [-k, k]: no slack *)
Lemma py_sum_11 (l : list binary64) :
  Forall unit11 l -> (Z.of_nat (length l) <= 2 ^ 25)%Z ->
  fin (@py_sum binary64 BN l) = true /\ Rabs (RV (@py_sum binary64 BN l)) <= INR (length l).
Proof.
  intros Hl Hlen. destruct l as [|x xs].
  - cbn [py_sum length INR]. destruct fzero_ok as (F0 & H0). rewrite H0, Rabs_R0. split; [exact F0 | lra].
  - pose proof (sumR_bound _ Hl) as HT.
    inversion Hl as [|x' xs' (Fx & Hx) Hxs]; subst x' xs'.
    unfold py_sum.
    change (@fzero binary64 BN) with (b64_of_Z 0).
    change (@fadd binary64 BN (b64_of_Z 0) x) with (b64_plus mode_NE (b64_of_Z 0) x).
    destruct (b64_plus_ok (b64_of_Z 0) x b64_zero_fin Fx) as (Fs0 & Es0).
    { rewrite b64_zero_val, Rplus_0_l. pose proof one_le_BIG. lra. }
    rewrite b64_zero_val, Rplus_0_l, rnd_B2R in Es0.
    set (s0 := b64_plus mode_NE (b64_of_Z 0) x) in *.
    set (k := length (x :: xs)) in *.
    pose proof u_pos as Hu. pose proof u_val as Huv.
    pose proof (INR_le_2p25 k Hlen) as Hkr. pose proof (pos_INR k) as Hk0.
    set (A := u * INR k).
    assert (HA0 : 0 <= A) by (unfold A; apply Rmult_le_pos; lra).
    assert (HA : A <= / 268435456) by (unfold A; rewrite Huv; lra).
    destruct (neum_signed k Hlen xs s0 (b64_of_Z 0) 1 0 Hxs Fs0 b64_zero_fin)
      as (Fs & Fc & Hs & Hc & HcE).
    { rewrite Es0. cbn [INR]. exact Hx. }
    { rewrite b64_zero_val, Rabs_R0. cbn [INR]. fold A. lra. }
    { rewrite b64_zero_val, Rminus_0_r, Rabs_R0. cbn [INR]. fold A. nra. }
    { unfold k. cbn [length]. lia. }
    replace (1 + length xs)%nat with k in Hs, Hc, HcE by (unfold k; cbn [length]; lia).
    fold A in Hc, HcE.
    set (sc := @neumaier binary64 BN xs s0 (b64_of_Z 0)) in *.
    rewrite Es0, Rplus_0_r in HcE.
    change (RV x + sumR xs) with (sumR (x :: xs)) in HcE.
    set (T := sumR (x :: xs)) in *.
    (* 2 A^2 k <= k u / 4 *)
    assert (HAk : A * INR k <= / 8).
    { apply Rle_trans with (/ 268435456 * 33554432); [|lra]. apply Rmult_le_compat; lra. }
    assert (HAA : A * A <= u * / 8).
    { replace (A * A) with (u * (A * INR k)) by (unfold A; ring). apply Rmult_le_compat_l; lra. }
    assert (Hdk : 2 * (A * A) * INR k <= INR k * u / 2).
    { apply Rle_trans with (2 * (u * / 8) * INR k); [apply Rmult_le_compat_r; lra|].
      assert (0 <= INR k * u) by (apply Rmult_le_pos; lra). lra. }
    assert (Hku : INR k * u / 2 <= 1).
    { assert (INR k * u <= 33554432 * u) by (apply Rmult_le_compat_r; lra). rewrite Huv in *. lra. }
    assert (Hsum : - INR k - INR k * u / 2 <= RV (fst sc) + RV (snd sc) <= INR k + INR k * u / 2).
    { apply Rabs_le_inv in HT. apply Rabs_le_inv in HcE.
      replace (RV (fst sc) + RV (snd sc)) with (T + (RV (snd sc) - (T - RV (fst sc)))) by ring. lra. }
    assert (Hres : fin (b64_plus mode_NE (fst sc) (snd sc)) = true
                   /\ Rabs (RV (b64_plus mode_NE (fst sc) (snd sc))) <= INR k).
    { assert (HBIG : 67108864 <= BIG).
      { apply Rle_trans with (Rabs (IZR 67108864)); [rewrite Rabs_pos_eq; lra|]. apply IZR_le_BIG. lia. }
      destruct (b64_plus_ok (fst sc) (snd sc) Fs Fc) as (Fr & Er); [apply Rabs_le; lra|].
      split; [exact Fr|]. rewrite Er. apply Rabs_le. split.
      - apply rnd_mid_ge; [apply nat_fmt; lia | exact Hk0 | lra].
      - apply rnd_mid_le; [apply nat_fmt; lia | exact Hk0 | lra]. }
    change (@fadd binary64 BN (fst sc) (snd sc)) with (b64_plus mode_NE (fst sc) (snd sc)).
    destruct (andb _ _); [exact Hres | split; [exact Fs | exact Hs]].
Qed.

(** ** C10: predict_draw *)
Lemma flat_map_length_const {A B : Type} (f : A -> list B) (l : list A) (m : nat) :
  (forall a, In a l -> length (f a) = m) -> length (flat_map f l) = (length l * m)%nat.
Proof.
  induction l as [|a l IH]; intros H; cbn [flat_map length]; [reflexivity|].
  rewrite app_length, (H a (or_introl eq_refl)), IH; [reflexivity|].
  intros a' Ha'. apply H. right. exact Ha'.
Qed.

Lemma predict_draw_range_b64 (beta : binary64) (teams : list (list (rating binary64))) :
  (2 <= length teams)%nat -> (Z.of_nat (length teams) <= 2 ^ 12)%Z ->
  (forall (ro : list (rating binary64) * list (list (rating binary64))) (tb : list (rating binary64)),
     In ro (rows teams) -> In tb (snd ro) ->
     fin (@fdiv binary64 BN
            (@fadd binary64 BN (@fsub binary64 BN (@draw_margin binary64 BN beta teams) (fst (@agg binary64 BN (fst ro))))
               (fst (@agg binary64 BN tb)))
            (@pair_scale binary64 BN beta (length teams) (@agg binary64 BN (fst ro)) (@agg binary64 BN tb))) = true
     /\ fin (@fdiv binary64 BN
               (@fsub binary64 BN (@fsub binary64 BN (fst (@agg binary64 BN (fst ro))) (fst (@agg binary64 BN tb)))
                  (@draw_margin binary64 BN beta teams))
               (@pair_scale binary64 BN beta (length teams) (@agg binary64 BN (fst ro)) (@agg binary64 BN tb))) = true) ->
  fin (@predict_draw binary64 BN beta teams) = true
  /\ 0 <= RV (@predict_draw binary64 BN beta teams)
  /\ ((3 <= length teams)%nat -> RV (@predict_draw binary64 BN beta teams) <= 1).
Proof.
  intros Hn2 Hn Harg. unfold predict_draw. cbv zeta.
  set (n := length teams) in *.
  match goal with |- fin (@fdiv binary64 BN (@fabs binary64 BN (@py_sum binary64 BN ?p)) _) = true /\ _ =>
    set (pairs := p) end.
  assert (Hpairs : Forall unit11 pairs).
  { apply Forall_forall. intros y Hy. unfold pairs in Hy.
    apply in_flat_map in Hy. destruct Hy as (ro & Hro & Hy).
    apply in_map_iff in Hy. destruct Hy as (tb & <- & Htb).
    destruct (Harg ro tb Hro Htb) as (F1 & F2).
    destruct (cdf_ok _ F1) as (Fc1 & Hc1). destruct (cdf_ok _ F2) as (Fc2 & Hc2).
    change (@fsub binary64 BN (@cdf binary64 BN ?a) (@cdf binary64 BN ?b))
      with (b64_minus mode_NE (@cdf binary64 BN a) (@cdf binary64 BN b)).
    match goal with |- unit11 (b64_minus mode_NE ?a ?b) =>
      destruct (b64_minus_ok a b Fc1 Fc2) as (Fm & Em) end.
    { pose proof one_le_BIG. apply Rabs_le. lra. }
    split; [exact Fm|]. rewrite Em. apply rnd_abs_le; [apply (IZR_fmt 1); lia | apply Rabs_le; lra]. }
  assert (Hlen : length pairs = (n * (n - 1))%nat).
  { unfold pairs. rewrite (flat_map_length_const _ _ (n - 1)).
    - rewrite PredictL.rows_length. reflexivity.
    - intros ro Hro. rewrite map_length. pose proof (rows_snd_length teams ro Hro). fold n in H. lia. }
  set (m := (n * (n - 1))%nat) in *.
  assert (Hm : (Z.of_nat m <= 2 ^ 24)%Z).
  { unfold m. rewrite Nat2Z.inj_mul. rewrite Nat2Z.inj_sub by lia. change (2 ^ 24)%Z with (2 ^ 12 * 2 ^ 12)%Z.
    apply Z.mul_le_mono_nonneg; lia. }
  assert (Hm2 : (2 <= m)%nat) by (unfold m; nia).
  destruct (py_sum_11 pairs Hpairs ltac:(rewrite Hlen; lia)) as (FS & HS). rewrite Hlen in HS.
  change (@fabs binary64 BN) with b64_abs. change (@fdiv binary64 BN) with (b64_div mode_NE).
  destruct (b64_abs_ok (@py_sum binary64 BN pairs)) as (Fa & Ea). rewrite FS in Fa.
  set (a := b64_abs (@py_sum binary64 BN pairs)) in *.
  assert (Ha : 0 <= RV a <= INR m) by (rewrite Ea; split; [apply Rabs_pos | exact HS]).
  assert (Hm1 : 1 <= INR m) by (apply le_INR in Hm2; cbn [INR] in Hm2; lra).
  destruct (Nat.ltb 2 n) eqn:E3.
  - change (@fofZ binary64 BN (Z.of_nat m)) with (b64_of_Z (Z.of_nat m)).
    destruct (b64_of_nat_ok m ltac:(lia)) as (Fd & Ed).
    destruct (quot_01 a (b64_of_Z (Z.of_nat m)) (INR m) Fa Ha) as (Fq & Hq); [rewrite Ed; lra | rewrite Ed; exact Hm1 |].
    split; [exact Fq|]. split; [apply Hq|]. intros _. apply Hq.
  - apply Nat.ltb_ge in E3.
    change (@fone binary64 BN) with (b64_of_Z 1).
    destruct (b64_div_ge1_ok a (b64_of_Z 1) Fa) as (Fq & Eq); [rewrite b64_one_val; lra|].
    split; [exact Fq|]. split; [|intros H3; lia].
    rewrite Eq, b64_one_val. apply rnd_ge_0. lra.
Qed.

End Model.

(** ** A stand-in for libm's erfc satisfying the range premise (for the non-vacuity examples):
    the step function 2 / 1 / 0 on negative / zero (or NaN) / positive arguments *)
Definition ex_erfc (x : binary64) : binary64 :=
  match b64_compare x (B754_zero 53 1024 false) with
  | Some Lt => b64_of_Z 2
  | Some Gt => b64_of_Z 0
  | _ => b64_of_Z 1
  end.

Lemma ex_erfc_ok : forall x : binary64, fin x = true -> fin (ex_erfc x) = true /\ 0 <= RV (ex_erfc x) <= 2.
Proof.
  intros x _. unfold ex_erfc.
  destruct (b64_of_Z_ok 2 ltac:(lia)) as (F2 & E2).
  destruct (b64_compare x (B754_zero 53 1024 false)) as [[| |]|].
  - split; [exact b64_one_fin | rewrite b64_one_val; lra].
  - split; [exact F2 | rewrite E2; lra].
  - split; [exact b64_zero_fin | rewrite b64_zero_val; lra].
  - split; [exact b64_one_fin | rewrite b64_one_val; lra].
Qed.

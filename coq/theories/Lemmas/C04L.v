(** * C04L: permutation equivariance of [rate], from the closed form (C01).

    The value form [post_val k P g e] of the closed form (C01L) depends on the game [g] only as a
    multiset (all its sums are [Rsum]s over [g], filtered by key comparisons) and on the entry
    [e = (key, team)] itself; hence listing the teams in another order permutes the posteriors
    alongside.  Inside a team everything depends on the members through [Rsum]s only, except the
    gamma callback, which is handed the list of members: the player-level statements assume the
    callback does not depend on the order of that list (true of every gamma that is a function of
    (c, k, mu, sigma^2, rank) or of the size / multiset of the team). *)
From Coq Require Import List ZArith Arith Bool Lia Permutation Reals Lra Sorted.
From OSV Require Import Num Order Gauss Core RInst Spec.
From OSV.Lemmas Require Import OrderL OrderL2 RateL SpecSumL C01L.
Import ListNotations.
Open Scope R_scope.

(** ** a model-level shortcut, for every kind and every number type: if two presentations of
    a game have the same stably sorted form, [rate] computes the same thing for both and hands the
    results back to the same teams *)
Section SameSorted.
Context {F : Type} `{Num F}.

Lemma combine_clamp (ks : list key) (teams res : list (list (rating F))) :
  combine (combine ks teams) (clamp teams res) =
  map (fun p : key * list (rating F) * list (rating F) =>
         (fst p, map (fun pp : rating F * rating F => clamp_player (fst pp) (snd pp)) (combine (snd (fst p)) (snd p))))
      (combine (combine ks teams) res).
Proof.
  unfold clamp. revert teams res. induction ks as [|k ks IH]; intros [|t teams] [|r res]; cbn; try reflexivity.
  f_equal. apply IH.
Qed.

Theorem rate_core_same_sorted k P tau lim (teams teams' : list (list (rating F))) ks ks' :
  length ks = length teams -> length ks' = length teams' ->
  isort key_leb ks = isort key_leb ks' ->
  fst (unwind key_leb ks teams) = fst (unwind key_leb ks' teams') ->
  Permutation (combine (combine ks teams) (rate_core k P tau lim teams (Some ks)))
              (combine (combine ks' teams') (rate_core k P tau lim teams' (Some ks'))).
Proof.
  intros E E' Hk Ht.
  assert (G : forall (tms : list (list (rating F))) kk, length kk = length tms ->
     Permutation (combine (combine kk tms) (rate_sorted k P (map (map (inflate tau)) tms) (Some kk)))
       (combine (combine (isort key_leb kk) (fst (unwind key_leb kk tms)))
                (compute k P (team_ratings (map (map (inflate tau)) (fst (unwind key_leb kk tms)))
                                           (calc_rankings key_ltb (isort key_leb kk)))))).
  { intros tms kk Ek. unfold rate_sorted. cbv zeta.
    rewrite (unwind_snd_objs key_leb kk (map (map (inflate tau)) tms) tms) by apply map_length.
    rewrite unwind_fst_map.
    apply (unwind_unsort key_leb kk tms); [exact Ek|].
    rewrite compute_length, team_ratings_length; rewrite map_length.
    - now apply unwind_fst_length.
    - rewrite calc_rankings_length, isort_length, unwind_fst_length; auto. }
  assert (Pm : Permutation (combine (combine ks teams) (rate_sorted k P (map (map (inflate tau)) teams) (Some ks)))
                           (combine (combine ks' teams') (rate_sorted k P (map (map (inflate tau)) teams') (Some ks')))).
  { rewrite (G teams ks E), (G teams' ks' E'), Hk, Ht. reflexivity. }
  unfold rate_core. destruct lim; [|exact Pm].
  rewrite !combine_clamp. now apply Permutation_map.
Qed.

(** a list sorted by a total preorder that is antisymmetric on its elements is determined by
    its multiset *)
Lemma sorted_unique_on {A} (leb : A -> A -> bool) (l l' : list A) :
  Permutation l l' ->
  StronglySorted (fun a b => leb a b = true) l -> StronglySorted (fun a b => leb a b = true) l' ->
  (forall a b, In a l -> In b l -> leb a b = true -> leb b a = true -> a = b) -> l = l'.
Proof.
  revert l'. induction l as [|x xs IH]; intros l' Pm S S' Anti.
  - apply Permutation_nil in Pm. now subst.
  - destruct l' as [|y ys]. { symmetry in Pm. now apply Permutation_nil_cons in Pm. }
    inversion S as [|? ? Sx Fx]; inversion S' as [|? ? Sy Fy]; subst.
    assert (Ix : In x (y :: ys)) by (eapply Permutation_in; [exact Pm | now left]).
    assert (Iy : In y (x :: xs)) by (eapply Permutation_in; [symmetry; exact Pm | now left]).
    assert (x = y).
    { destruct Ix as [->|Ix]; [reflexivity|]. destruct Iy as [->|Iy]; [reflexivity|].
      rewrite Forall_forall in Fx, Fy. apply Anti; [now left | now right | now apply Fx | now apply Fy]. }
    subst y. f_equal. apply IH; auto.
    + now apply Permutation_cons_inv in Pm.
    + intros a b Ha Hb. apply Anti; now right.
Qed.

Lemma nodup_fst_inj {A B} (l : list (A * B)) a b : NoDup (map fst l) -> In a l -> In b l -> fst a = fst b -> a = b.
Proof.
  induction l as [|c l IH]; intros ND Ha Hb E; [destruct Ha|]. cbn in ND. inversion ND as [|? ? Hc ND']; subst.
  destruct Ha as [->|Ha], Hb as [->|Hb]; auto.
  - exfalso. apply Hc. rewrite E. now apply in_map.
  - exfalso. apply Hc. rewrite <- E. now apply in_map.
Qed.

(** no two teams tie: the stably sorted form is determined by the game as a multiset *)
Lemma sorted_game_unique (teams teams' : list (list (rating F))) ks ks' :
  length ks = length teams -> length ks' = length teams' -> Forall key_wf ks ->
  NoDup ks -> (forall a b, In a ks -> In b ks -> key_leb a b = true -> key_leb b a = true -> a = b) ->
  Permutation (combine ks teams) (combine ks' teams') ->
  isort key_leb ks = isort key_leb ks' /\ fst (unwind key_leb ks teams) = fst (unwind key_leb ks' teams').
Proof.
  intros E E' W ND Anti Pm.
  assert (W' : Forall key_wf ks').
  { rewrite <- (combine_map_fst ks' teams' E'). rewrite <- (combine_map_fst ks teams E) in W.
    eapply Permutation_Forall; [apply Permutation_map; exact Pm | exact W]. }
  set (sg := combine (isort key_leb ks) (fst (unwind key_leb ks teams))).
  set (sg' := combine (isort key_leb ks') (fst (unwind key_leb ks' teams'))).
  assert (P1 : Permutation (combine ks teams) sg) by (apply unwind_perm; exact E).
  assert (P2 : Permutation (combine ks' teams') sg') by (apply unwind_perm; exact E').
  assert (Esg : sg = sg').
  { apply (sorted_unique_on (fun a b : key * list (rating F) => key_leb (fst a) (fst b))).
    - rewrite <- P1, <- P2. exact Pm.
    - apply (combine_sorted_fst (fun a b => key_leb a b = true)). now apply isort_keys_sorted.
    - apply (combine_sorted_fst (fun a b => key_leb a b = true)). now apply isort_keys_sorted.
    - intros a b Ha Hb H1 H2.
      assert (Ia : In a (combine ks teams)) by (eapply Permutation_in; [symmetry; exact P1 | exact Ha]).
      assert (Ib : In b (combine ks teams)) by (eapply Permutation_in; [symmetry; exact P1 | exact Hb]).
      apply (nodup_fst_inj (combine ks teams)); auto.
      + now rewrite combine_map_fst.
      + apply Anti; auto.
        * destruct a as [ka ta]. eapply in_combine_l; exact Ia.
        * destruct b as [kb tb]. eapply in_combine_l; exact Ib. }
  assert (L1 : length (isort key_leb ks) = length (fst (unwind key_leb ks teams)))
    by (rewrite isort_length, unwind_fst_length; auto).
  assert (L2 : length (isort key_leb ks') = length (fst (unwind key_leb ks' teams')))
    by (rewrite isort_length, unwind_fst_length; auto).
  split.
  - rewrite <- (combine_map_fst _ _ L1), <- (combine_map_fst _ _ L2). fold sg sg'. now rewrite Esg.
  - rewrite <- (combine_map_snd _ _ L1), <- (combine_map_snd _ _ L2). fold sg sg'. now rewrite Esg.
Qed.

Theorem rate_core_no_ties k P tau lim (teams teams' : list (list (rating F))) ks ks' :
  length ks = length teams -> length ks' = length teams' -> Forall key_wf ks ->
  NoDup ks -> (forall a b, In a ks -> In b ks -> key_leb a b = true -> key_leb b a = true -> a = b) ->
  Permutation (combine ks teams) (combine ks' teams') ->
  Permutation (combine (combine ks teams) (rate_core k P tau lim teams (Some ks)))
              (combine (combine ks' teams') (rate_core k P tau lim teams' (Some ks'))).
Proof.
  intros E E' W ND Anti Pm.
  destruct (sorted_game_unique teams teams' ks ks' E E' W ND Anti Pm) as [Hk Ht].
  now apply rate_core_same_sorted.
Qed.
End SameSorted.

Section C04.
Variables Phi Phiinv : R -> R.
Local Hint Extern 0 (Num R) => exact (Spec.RN Phi Phiinv) : typeclass_instances.

Notation wl_update_f := (Spec.wl_update_f Phi Phiinv).
Notation wl_update := (Spec.wl_update Phi Phiinv).
Notation tm_omega_term := (Spec.tm_omega_term Phi Phiinv).
Notation tm_delta_term := (Spec.tm_delta_term Phi Phiinv).
Notation post_val := (C01L.post_val Phi Phiinv).
Notation omega_val := (C01L.omega_val Phi Phiinv).
Notation delta_val := (C01L.delta_val Phi Phiinv).

(** ** the value form depends on the game as a multiset *)
Lemma gamma_at_perm P g g' c e : Permutation g g' -> gamma_at P g c e = gamma_at P g' c e.
Proof. intros Pm. unfold gamma_at. now rewrite (Permutation_length Pm), (rank_of_perm g g' _ Pm). Qed.

Lemma pl_c_perm P g g' : Permutation g g' -> pl_c P g = pl_c P g'.
Proof. intros Pm. unfold pl_c. f_equal. now apply Rsum_map_perm. Qed.
Lemma pl_S_perm P g g' k : Permutation g g' -> pl_S P g k = pl_S P g' k.
Proof. intros Pm. unfold pl_S. rewrite (pl_c_perm P g g' Pm). now apply Rsum_map_filter_perm. Qed.
Lemma pl_A_perm g g' k : Permutation g g' -> pl_A g k = pl_A g' k.
Proof. intros Pm. unfold pl_A. f_equal. now apply filter_length_perm. Qed.
Lemma pl_p_perm P g g' t k : Permutation g g' -> pl_p P g t k = pl_p P g' t k.
Proof. intros Pm. unfold pl_p. now rewrite (pl_c_perm P g g' Pm), (pl_S_perm P g g' k Pm). Qed.

Lemma full_sum_perm (h h' : entry -> entry -> R) g g' e :
  Permutation g g' -> (forall x q, h x q = h' x q) -> full_sum h g e = full_sum h' g' e.
Proof.
  intros Pm H. unfold full_sum. rewrite (H e e). f_equal.
  rewrite (Rsum_map_perm (h e) g g' Pm). apply Rsum_map_ext_in. intros q _. apply H.
Qed.

Lemma omega_val_perm k P g g' e : Permutation g g' -> omega_val k P g e = omega_val k P g' e.
Proof.
  intros Pm. destruct k; cbn [C01L.omega_val]; try reflexivity.
  - unfold pl_omega_val. rewrite (pl_c_perm P g g' Pm), (pl_A_perm g g' _ Pm). f_equal. f_equal.
    rewrite (Rsum_map_filter_perm _ _ g g' Pm). apply Rsum_map_ext_in. intros q _.
    now rewrite (pl_p_perm P g g' _ _ Pm), (pl_A_perm g g' _ Pm).
  - now apply full_sum_perm.
  - now apply full_sum_perm.
Qed.
Lemma delta_val_perm k P g g' e : Permutation g g' -> delta_val k P g e = delta_val k P g' e.
Proof.
  intros Pm. destruct k; cbn [C01L.delta_val]; try reflexivity.
  - unfold pl_delta_val. rewrite (pl_c_perm P g g' Pm), (gamma_at_perm P g g' _ _ Pm). f_equal.
    rewrite (Rsum_map_filter_perm _ _ g g' Pm). apply Rsum_map_ext_in. intros q _.
    now rewrite (pl_p_perm P g g' _ _ Pm), (pl_A_perm g g' _ Pm).
  - apply full_sum_perm; [exact Pm|]. intros x q. unfold bt_delta_term. now rewrite (gamma_at_perm P g g' _ _ Pm).
  - apply full_sum_perm; [exact Pm|]. intros x q. unfold Spec.tm_delta_term. now rewrite (gamma_at_perm P g g' _ _ Pm).
Qed.
Lemma post_val_perm k P g g' e : Permutation g g' -> post_val k P g e = post_val k P g' e.
Proof. intros Pm. unfold C01L.post_val. now rewrite (omega_val_perm k P g g' e Pm), (delta_val_perm k P g g' e Pm). Qed.

(** ** the whole update as a function of the raw game (prior teams with their keys) *)
Definition infl_entry (tau : R) (e0 : key * team) : entry := (fst e0, map (inflate_sigma tau) (snd e0)).
Definition wl_val (k : kind) (P : params R) (tau : R) (lim : bool) (g0 : list (key * team)) (e0 : key * team) : team :=
  let post := post_val k P (map (infl_entry tau) g0) (infl_entry tau e0) in
  if lim then map (fun pp : rating R * rating R => limit_sigma (fst pp) (snd pp)) (combine (snd e0) post) else post.

Lemma game_of_raw tau (teams : list team) keys :
  game_of tau teams keys = map (infl_entry tau) (combine (keys_of (length teams) keys) teams).
Proof. unfold game_of. apply combine_map_r. Qed.

Lemma wl_update_full_val f k P tau lim (teams : list team) keys : full_kind k -> keys_ok (length teams) keys ->
  wl_update_f f k P tau lim teams keys =
  map (wl_val k P tau lim (combine (keys_of (length teams) keys) teams)) (combine (keys_of (length teams) keys) teams).
Proof.
  intros Hk K. unfold Spec.wl_update_f. cbv zeta.
  set (g0 := combine (keys_of (length teams) keys) teams).
  assert (Eg : game_of tau teams keys = map (infl_entry tau) g0) by apply game_of_raw.
  rewrite Eg. set (g := map (infl_entry tau) g0).
  assert (Epost : map (Spec.team_update Phi Phiinv f k P g) (indexed g) = map (post_val k P g) g).
  { unfold indexed. apply map_indexed_ext. intros ie Hin. now apply C01L.spec_full_val. }
  assert (E2 : map (post_val k P g) g = map (fun e0 : key * team => post_val k P g (infl_entry tau e0)) g0)
    by (subst g; apply map_map).
  rewrite Epost, E2. unfold wl_val. fold g.
  destruct lim; [|reflexivity].
  assert (Et : teams = map snd g0).
  { unfold g0. symmetry. apply combine_map_snd. now apply keys_of_length. }
  rewrite Et at 1. rewrite combine_map_same, map_map. reflexivity.
Qed.

Lemma wl_val_perm k P tau lim g0 g0' e0 : Permutation g0 g0' -> wl_val k P tau lim g0 e0 = wl_val k P tau lim g0' e0.
Proof.
  intros Pm. unfold wl_val.
  rewrite (post_val_perm k P (map (infl_entry tau) g0) (map (infl_entry tau) g0') _ (Permutation_map _ Pm)). reflexivity.
Qed.

(** ** C04, teams: the closed form, then [rate_core] through C01 *)
Theorem C04_teams_spec f k P tau lim (teams teams' : list team) ks ks' : full_kind k ->
  length ks = length teams -> length ks' = length teams' -> Forall key_wf ks ->
  Permutation (combine ks teams) (combine ks' teams') ->
  Permutation (combine (combine ks teams) (wl_update_f f k P tau lim teams (Some ks)))
              (combine (combine ks' teams') (wl_update_f f k P tau lim teams' (Some ks'))).
Proof.
  intros Hk E E' W Pm.
  assert (W' : Forall key_wf ks').
  { rewrite <- (combine_map_fst ks' teams' E'). rewrite <- (combine_map_fst ks teams E) in W.
    eapply Permutation_Forall; [apply Permutation_map; exact Pm | exact W]. }
  rewrite (wl_update_full_val f k P tau lim teams (Some ks) Hk (conj E W)).
  rewrite (wl_update_full_val f k P tau lim teams' (Some ks') Hk (conj E' W')).
  cbn [keys_of]. rewrite !combine_map_r_same.
  rewrite (Permutation_map _ Pm). apply Permutation_refl'.
  apply map_ext. intros e. f_equal. now apply wl_val_perm.
Qed.

Theorem C04_teams k P tau lim (teams teams' : list team) ks ks' : full_kind k ->
  length ks = length teams -> length ks' = length teams' -> Forall key_wf ks ->
  Permutation (combine ks teams) (combine ks' teams') ->
  Permutation (combine (combine ks teams) (rate_core k P tau lim teams (Some ks)))
              (combine (combine ks' teams') (rate_core k P tau lim teams' (Some ks'))).
Proof.
  intros Hk E E' W Pm.
  assert (W' : Forall key_wf ks').
  { rewrite <- (combine_map_fst ks' teams' E'). rewrite <- (combine_map_fst ks teams E) in W.
    eapply Permutation_Forall; [apply Permutation_map; exact Pm | exact W]. }
  rewrite (C01L.C01_full_refines Phi Phiinv 1 k P tau lim teams (Some ks) Hk (conj E W)).
  rewrite (C01L.C01_full_refines Phi Phiinv 1 k P tau lim teams' (Some ks') Hk (conj E' W')).
  now apply C04_teams_spec.
Qed.

(** ** C04, players: the closed form depends on the members of a team through sums only
    (and through the gamma callback, assumed insensitive to the order of the members) *)
Notation omega := (Spec.omega Phi Phiinv).
Notation delta := (Spec.delta Phi Phiinv).
Notation team_update := (Spec.team_update Phi Phiinv).

Definition eqv (e e' : entry) : Prop := fst e = fst e' /\ Permutation (snd e) (snd e').
Definition eqvi (a b : ientry) : Prop := fst a = fst b /\ eqv (snd a) (snd b).

Lemma theta_perm t t' : Permutation t t' -> theta t = theta t'.
Proof. intros Pm. unfold theta. now apply Rsum_map_perm. Qed.
Lemma ssq_perm t t' : Permutation t t' -> ssq t = ssq t'.
Proof. intros Pm. unfold ssq. now apply Rsum_map_perm. Qed.

Definition optrel (a b : option ientry) : Prop :=
  match a, b with Some x, Some y => eqvi x y | None, None => True | _, _ => False end.
Lemma adjacent_eqvi i l l' : Forall2 eqvi l l' -> forall prev prev', optrel prev prev' ->
  Forall2 eqvi (adjacent i prev l) (adjacent i prev' l').
Proof.
  induction 1 as [|a b l l' Hab H IH]; intros prev prev' Hp; cbn [adjacent]; [constructor|].
  destruct Hab as [Hf He]. rewrite <- Hf. destruct (Nat.eqb (fst a) i).
  - apply Forall2_app.
    + destruct prev, prev'; cbn in *; try contradiction; constructor; [assumption|constructor].
    + destruct H as [|a2 b2 l2 l2' H2 _]; cbn; constructor; [assumption|constructor].
  - apply IH. cbn. split; assumption.
Qed.

Section Players.
Variables (P : params R) (g g' : game).
Hypothesis HG : Forall2 eqv g g'.
Hypothesis Hgamma : forall c n mu ss t t' r, Permutation t t' -> p_gamma P c n mu ss t r = p_gamma P c n mu ss t' r.

Lemma eqv_keys : map fst g = map fst g'.
Proof. apply Forall2_map_eq. eapply Forall2_weaken; [|exact HG]. intros a b [H _]. exact H. Qed.
Lemma eqv_length : length g = length g'.
Proof. eapply Forall2_length'. exact HG. Qed.
Lemma rank_of_eqv k : rank_of g k = rank_of g' k.
Proof. rewrite !C01L.rank_of_count, eqv_keys. reflexivity. Qed.
Lemma gamma_at_eqv c e e' : eqv e e' -> gamma_at P g c e = gamma_at P g' c e'.
Proof.
  intros [Hk Hp]. unfold gamma_at.
  rewrite eqv_length, (theta_perm _ _ Hp), (ssq_perm _ _ Hp), rank_of_eqv, Hk. now apply Hgamma.
Qed.

Lemma pl_c_eqv : pl_c P g = pl_c P g'.
Proof.
  unfold pl_c. f_equal. apply (Rsum_map_Forall2 eqv _ _ _ _ HG). intros a b [_ Hp]. now rewrite (ssq_perm _ _ Hp).
Qed.
Lemma pl_S_eqv k : pl_S P g k = pl_S P g' k.
Proof.
  unfold pl_S. rewrite pl_c_eqv. apply (Rsum_map_Forall2 eqv).
  - apply (filter_Forall2 eqv _ _ _ _ HG). intros a b [Hk _]. now rewrite Hk.
  - intros a b [_ Hp]. now rewrite (theta_perm _ _ Hp).
Qed.
Lemma pl_A_eqv k : pl_A g k = pl_A g' k.
Proof. unfold pl_A. f_equal. apply (filter_length_Forall2 eqv _ _ _ _ HG). intros a b [Hk _]. now rewrite Hk. Qed.
Lemma pl_p_eqv t t' k : Permutation t t' -> pl_p P g t k = pl_p P g' t' k.
Proof. intros Hp. unfold pl_p. now rewrite pl_c_eqv, pl_S_eqv, (theta_perm _ _ Hp). Qed.

Lemma bt_omega_term_eqv ei ei' eq eq' : eqv ei ei' -> eqv eq eq' -> bt_omega_term P ei eq = bt_omega_term P ei' eq'.
Proof.
  intros [Hki Hi] [Hkq Hq]. unfold bt_omega_term, bt_p, c_pair.
  now rewrite (ssq_perm _ _ Hi), (ssq_perm _ _ Hq), (theta_perm _ _ Hi), (theta_perm _ _ Hq), Hki, Hkq.
Qed.
Lemma bt_delta_term_eqv ei ei' eq eq' : eqv ei ei' -> eqv eq eq' -> bt_delta_term P g ei eq = bt_delta_term P g' ei' eq'.
Proof.
  intros Ei Eq. pose proof Ei as [Hki Hi]. pose proof Eq as [Hkq Hq]. unfold bt_delta_term, bt_p, c_pair.
  rewrite (ssq_perm _ _ Hi), (ssq_perm _ _ Hq), (theta_perm _ _ Hi), (theta_perm _ _ Hq).
  now rewrite (gamma_at_eqv _ ei ei' Ei).
Qed.
Lemma tm_omega_term_eqv f ei ei' eq eq' : eqv ei ei' -> eqv eq eq' -> tm_omega_term f P ei eq = tm_omega_term f P ei' eq'.
Proof.
  intros [Hki Hi] [Hkq Hq]. unfold Spec.tm_omega_term, c_pair.
  now rewrite (ssq_perm _ _ Hi), (ssq_perm _ _ Hq), (theta_perm _ _ Hi), (theta_perm _ _ Hq), Hki, Hkq.
Qed.
Lemma tm_delta_term_eqv f ei ei' eq eq' : eqv ei ei' -> eqv eq eq' -> tm_delta_term f P g ei eq = tm_delta_term f P g' ei' eq'.
Proof.
  intros Ei Eq. pose proof Ei as [Hki Hi]. pose proof Eq as [Hkq Hq]. unfold Spec.tm_delta_term, c_pair.
  rewrite (ssq_perm _ _ Hi), (ssq_perm _ _ Hq), (theta_perm _ _ Hi), (theta_perm _ _ Hq), Hki, Hkq.
  now rewrite (gamma_at_eqv _ ei ei' Ei).
Qed.

Lemma indexed_eqvi : Forall2 eqvi (indexed g) (indexed g').
Proof. unfold indexed. apply (indexed_Forall2 eqv g g' 0 HG). Qed.
Lemma others_eqvi i : Forall2 eqvi (others g i) (others g' i).
Proof. unfold others. apply (filter_Forall2 eqvi _ _ _ _ indexed_eqvi). intros a b [Hf _]. now rewrite Hf. Qed.
Lemma stable_eqvi : Forall2 eqvi (stable_order g) (stable_order g').
Proof.
  unfold stable_order. apply isort_rel; [apply indexed_eqvi|].
  intros x x' y y' [_ [Hx _]] [_ [Hy _]] _ _. now rewrite Hx, Hy.
Qed.
Lemma neighbours_eqvi i : Forall2 eqvi (neighbours g i) (neighbours g' i).
Proof. unfold neighbours. apply adjacent_eqvi; [apply stable_eqvi | exact I]. Qed.
Lemma pl_filter_eqvi k : Forall2 eqvi (filter (fun qe : ientry => key_leb (fst (snd qe)) k) (indexed g))
                                      (filter (fun qe : ientry => key_leb (fst (snd qe)) k) (indexed g')).
Proof. apply (filter_Forall2 eqvi _ _ _ _ indexed_eqvi). intros a b [_ [Hk _]]. now rewrite Hk. Qed.

Lemma omega_eqv f k ie ie' : eqvi ie ie' -> omega f k P g ie = omega f k P g' ie'.
Proof.
  intros E. pose proof E as [Hf [Hk Hp]]. destruct k; cbn [Spec.omega].
  - unfold pl_omega. cbv zeta. rewrite (ssq_perm _ _ Hp), pl_c_eqv, Hk. f_equal.
    apply (Rsum_map_Forall2 eqvi _ _ _ _ (pl_filter_eqvi _)).
    intros a b [Ha [Hka _]]. now rewrite Ha, Hf, Hka, (pl_p_eqv _ _ _ Hp), pl_A_eqv.
  - rewrite Hf. apply (Rsum_map_Forall2 eqvi _ _ _ _ (others_eqvi _)).
    intros a b [_ Hab]. apply bt_omega_term_eqv; [exact (proj2 E) | exact Hab].
  - rewrite Hf. apply (Rsum_map_Forall2 eqvi _ _ _ _ (neighbours_eqvi _)).
    intros a b [_ Hab]. apply bt_omega_term_eqv; [exact (proj2 E) | exact Hab].
  - rewrite Hf. apply (Rsum_map_Forall2 eqvi _ _ _ _ (others_eqvi _)).
    intros a b [_ Hab]. apply tm_omega_term_eqv; [exact (proj2 E) | exact Hab].
  - rewrite Hf. apply (Rsum_map_Forall2 eqvi _ _ _ _ (neighbours_eqvi _)).
    intros a b [_ Hab]. apply tm_omega_term_eqv; [exact (proj2 E) | exact Hab].
Qed.
Lemma delta_eqv f k ie ie' : eqvi ie ie' -> delta f k P g ie = delta f k P g' ie'.
Proof.
  intros E. pose proof E as [Hf [Hk Hp]]. destruct k; cbn [Spec.delta].
  - unfold pl_delta. cbv zeta. rewrite (ssq_perm _ _ Hp), pl_c_eqv, Hk, (gamma_at_eqv _ _ _ (proj2 E)). f_equal.
    apply (Rsum_map_Forall2 eqvi _ _ _ _ (pl_filter_eqvi _)).
    intros a b [Ha [Hka _]]. now rewrite Hka, (pl_p_eqv _ _ _ Hp), pl_A_eqv.
  - rewrite Hf. apply (Rsum_map_Forall2 eqvi _ _ _ _ (others_eqvi _)).
    intros a b [_ Hab]. apply bt_delta_term_eqv; [exact (proj2 E) | exact Hab].
  - rewrite Hf. apply (Rsum_map_Forall2 eqvi _ _ _ _ (neighbours_eqvi _)).
    intros a b [_ Hab]. apply bt_delta_term_eqv; [exact (proj2 E) | exact Hab].
  - rewrite Hf. apply (Rsum_map_Forall2 eqvi _ _ _ _ (others_eqvi _)).
    intros a b [_ Hab]. apply tm_delta_term_eqv; [exact (proj2 E) | exact Hab].
  - rewrite Hf. apply (Rsum_map_Forall2 eqvi _ _ _ _ (neighbours_eqvi _)).
    intros a b [_ Hab]. apply tm_delta_term_eqv; [exact (proj2 E) | exact Hab].
Qed.
End Players.

(** the posterior of a member of team [ie] as a function of that member's prior rating *)
Definition player_fn (f : R) (k : kind) (P : params R) (tau : R) (lim : bool) (g : game) (ie : ientry)
           (p : rating R) : rating R :=
  let r := player_update (p_kappa P) (ssq (snd (snd ie))) (omega f k P g ie) (delta f k P g ie) (inflate_sigma tau p) in
  if lim then limit_sigma p r else r.

Lemma player_fn_eqv f k P tau lim g g' ie ie' p :
  Forall2 eqv g g' ->
  (forall c n mu ss t t' r, Permutation t t' -> p_gamma P c n mu ss t r = p_gamma P c n mu ss t' r) ->
  eqvi ie ie' -> player_fn f k P tau lim g ie p = player_fn f k P tau lim g' ie' p.
Proof.
  intros HG Hg E. unfold player_fn.
  rewrite (omega_eqv P g g' HG f k ie ie' E), (delta_eqv P g g' HG Hg f k ie ie' E).
  destruct E as [_ [_ Hp]]. now rewrite (ssq_perm _ _ Hp).
Qed.

Lemma wl_rows f k P tau (lim : bool) g (teams : list team) (L : list ientry) :
  Forall2 (fun (t : team) (ie : ientry) => snd (snd ie) = map (inflate_sigma tau) t) teams L ->
  (if lim
   then map (fun tt : team * team => map (fun pp : rating R * rating R => limit_sigma (fst pp) (snd pp))
                                         (combine (fst tt) (snd tt)))
            (combine teams (map (team_update f k P g) L))
   else map (team_update f k P g) L)
  = map (fun tie : team * ientry => map (player_fn f k P tau lim g (snd tie)) (fst tie)) (combine teams L).
Proof.
  intros H. induction H as [|t ie teams L Ht H IH].
  - destruct lim; reflexivity.
  - destruct lim; cbn [map combine fst snd] in *; f_equal; try exact IH.
    + unfold Spec.team_update, player_fn. rewrite Ht, map_map, combine_map_r_same, map_map. reflexivity.
    + unfold Spec.team_update, player_fn. rewrite Ht, map_map. reflexivity.
Qed.

Lemma teams_indexed tau (teams : list team) (ks : list key) s : length ks = length teams ->
  Forall2 (fun (t : team) (ie : ientry) => snd (snd ie) = map (inflate_sigma tau) t) teams
          (combine (seq s (length teams)) (combine ks (map (map (inflate_sigma tau)) teams))).
Proof.
  revert ks s. induction teams as [|t teams IH]; intros [|k ks] s E; cbn in *; try discriminate; constructor.
  - reflexivity.
  - apply IH. congruence.
Qed.

Lemma game_of_length tau (teams : list team) keys : keys_ok (length teams) keys ->
  length (game_of tau teams keys) = length teams.
Proof.
  intros K. unfold game_of. transitivity (length (map (map (inflate_sigma tau)) teams)); [|apply map_length].
  apply combine_length_eq. rewrite map_length. now apply keys_of_length.
Qed.

Lemma wl_update_rows f k P tau lim (teams : list team) keys : keys_ok (length teams) keys ->
  wl_update_f f k P tau lim teams keys =
  map (fun tie : team * ientry => map (player_fn f k P tau lim (game_of tau teams keys) (snd tie)) (fst tie))
      (combine teams (indexed (game_of tau teams keys))).
Proof.
  intros K. unfold Spec.wl_update_f. cbv zeta. apply wl_rows.
  unfold indexed. rewrite (game_of_length tau teams keys K). unfold game_of.
  apply teams_indexed. now apply keys_of_length.
Qed.

Lemma Forall2_combine2 {A A' B B'} (Q1 : A -> A' -> Prop) (Q2 : B -> B' -> Prop) l1 l1' l2 l2' :
  Forall2 Q1 l1 l1' -> Forall2 Q2 l2 l2' ->
  Forall2 (fun a b => Q1 (fst a) (fst b) /\ Q2 (snd a) (snd b)) (combine l1 l2) (combine l1' l2').
Proof.
  intros H. revert l2 l2'. induction H as [|a a' l1 l1' Ha H IH]; intros l2 l2' H2; cbn; [constructor|].
  destruct H2 as [|b b' l2 l2' Hb H2]; constructor; [cbn; auto | now apply IH].
Qed.
Lemma Forall2_map2 {A A' B B'} (Q : A -> A' -> Prop) (Rr : B -> B' -> Prop) (Ff : A -> B) (Ff' : A' -> B') l l' :
  Forall2 Q l l' -> (forall a b, Q a b -> Rr (Ff a) (Ff' b)) -> Forall2 Rr (map Ff l) (map Ff' l').
Proof. intros H HF. induction H; cbn; constructor; auto. Qed.

Theorem players_spec f k P tau lim (teams teams' : list team) keys :
  (forall c n mu ss t t' r, Permutation t t' -> p_gamma P c n mu ss t r = p_gamma P c n mu ss t' r) ->
  keys_ok (length teams) keys -> Forall2 (@Permutation (rating R)) teams teams' ->
  Forall2 (fun tr tr' : team * team =>
             Permutation (combine (fst tr) (snd tr)) (combine (fst tr') (snd tr')) /\
             (fst tr = fst tr' -> snd tr = snd tr'))
          (combine teams (wl_update_f f k P tau lim teams keys))
          (combine teams' (wl_update_f f k P tau lim teams' keys)).
Proof.
  intros Hg K HT.
  assert (EL : length teams' = length teams) by (symmetry; eapply Forall2_length'; exact HT).
  assert (K' : keys_ok (length teams') keys) by (now rewrite EL).
  rewrite (wl_update_rows f k P tau lim teams keys K), (wl_update_rows f k P tau lim teams' keys K').
  set (g := game_of tau teams keys). set (g' := game_of tau teams' keys).
  assert (HG : Forall2 eqv g g').
  { unfold g, g', game_of. rewrite EL. apply (Forall2_combine_l (@Permutation (rating R))).
    - rewrite map_length. now apply keys_of_length.
    - apply (Forall2_map2 (@Permutation (rating R))) with (1 := HT). intros a b Hab. now apply Permutation_map. }
  assert (Lg : length (indexed g) = length teams).
  { transitivity (length (map fst (indexed g))); [now rewrite map_length|].
    rewrite C01L.indexed_fst, seq_length. now apply game_of_length. }
  assert (Lg' : length (indexed g') = length teams').
  { transitivity (length (map fst (indexed g'))); [now rewrite map_length|].
    rewrite C01L.indexed_fst, seq_length. now apply game_of_length. }
  assert (HC : Forall2 (fun a b : team * ientry => Permutation (fst a) (fst b) /\ eqvi (snd a) (snd b))
                       (combine teams (indexed g)) (combine teams' (indexed g'))).
  { apply Forall2_combine2; [exact HT | now apply indexed_eqvi]. }
  set (G := fun (gg : game) (tie : team * ientry) => map (player_fn f k P tau lim gg (snd tie)) (fst tie)).
  assert (E1 : combine teams (map (G g) (combine teams (indexed g))) =
               map (fun tie : team * ientry => (fst tie, G g tie)) (combine teams (indexed g))).
  { rewrite <- (combine_map_fst teams (indexed g)) at 1 by (now rewrite Lg). apply combine_map_same. }
  assert (E2 : combine teams' (map (G g') (combine teams' (indexed g'))) =
               map (fun tie : team * ientry => (fst tie, G g' tie)) (combine teams' (indexed g'))).
  { rewrite <- (combine_map_fst teams' (indexed g')) at 1 by (now rewrite Lg'). apply combine_map_same. }
  match goal with |- Forall2 ?Rr _ _ =>
    change (Forall2 Rr (combine teams (map (G g) (combine teams (indexed g))))
                       (combine teams' (map (G g') (combine teams' (indexed g'))))) end.
  rewrite E1, E2.
  apply (Forall2_map2 _ _ _ _ _ _ HC). intros [t ie] [t' ie'] [Hp Hi]. cbn [fst snd] in *. unfold G. cbn [fst snd].
  assert (Hfn : forall p, player_fn f k P tau lim g ie p = player_fn f k P tau lim g' ie' p)
    by (intros p; now apply player_fn_eqv).
  split.
  - rewrite !combine_map_r_same. rewrite (Permutation_map _ Hp). apply Permutation_refl'.
    apply map_ext. intros p. now rewrite Hfn.
  - intros <-. apply map_ext. exact Hfn.
Qed.

Theorem C04_players k P tau lim (teams teams' : list team) keys :
  (forall c n mu ss t t' r, Permutation t t' -> p_gamma P c n mu ss t r = p_gamma P c n mu ss t' r) ->
  keys_ok (length teams) keys -> Forall2 (@Permutation (rating R)) teams teams' ->
  Forall2 (fun tr tr' : team * team =>
             Permutation (combine (fst tr) (snd tr)) (combine (fst tr') (snd tr')) /\
             (fst tr = fst tr' -> snd tr = snd tr'))
          (combine teams (rate_core k P tau lim teams keys))
          (combine teams' (rate_core k P tau lim teams' keys)).
Proof.
  intros Hg K HT.
  assert (EL : length teams' = length teams) by (symmetry; eapply Forall2_length'; exact HT).
  assert (K' : keys_ok (length teams') keys) by (now rewrite EL).
  rewrite (C01L.C01_all_refine Phi Phiinv k P tau lim teams keys K).
  rewrite (C01L.C01_all_refine Phi Phiinv k P tau lim teams' keys K').
  now apply players_spec.
Qed.

(** ** why the partial-pairing models need the tie-stability premise: a witness
    (three single-player teams of equal skill, the first two tied ahead of the third;
    swapping the two tied teams changes who is the neighbour of the third team) *)
Lemma btp_tied_omega P (tA tB tC : team) :
  let kA : key := (1, 0)%Z in let kB : key := (1, 0)%Z in let kC : key := (2, 0)%Z in
  omega 1 BTP P [(kA, tA); (kB, tB); (kC, tC)] (0%nat, (kA, tA)) = bt_omega_term P (kA, tA) (kB, tB) + 0 /\
  omega 1 BTP P [(kB, tB); (kA, tA); (kC, tC)] (1%nat, (kA, tA)) =
    bt_omega_term P (kA, tA) (kB, tB) + (bt_omega_term P (kA, tA) (kC, tC) + 0).
Proof. split; reflexivity. Qed.
Lemma bt_tie_term P k (tA tB : team) : theta tA = theta tB -> bt_omega_term P (k, tA) (k, tB) = 0.
Proof.
  intros E. unfold bt_omega_term, score, bt_p, key_eqb. cbn [fst snd].
  rewrite key_ltb_irrefl, key_leb_refl. cbn [andb]. rewrite E.
  replace ((theta tB - theta tB) / c_pair P tA tB) with 0 by (unfold Rdiv; ring).
  rewrite exp_0. lra.
Qed.
Lemma bt_win_term P (kA kC : key) (tA tC : team) : key_ltb kA kC = true -> theta tA = theta tC -> 0 < ssq tA -> 0 < p_beta P ->
  0 <= ssq tC -> 0 < bt_omega_term P (kA, tA) (kC, tC).
Proof.
  intros Hk E HA Hb HC. unfold bt_omega_term, score, bt_p. cbn [fst snd].
  rewrite Hk, E.
  replace ((theta tC - theta tC) / c_pair P tA tC) with 0 by (unfold Rdiv; ring).
  rewrite exp_0.
  assert (Hc : 0 < c_pair P tA tC) by (unfold c_pair; apply sqrt_lt_R0; nra).
  apply Rmult_lt_0_compat; [apply Rdiv_lt_0_compat; assumption | lra].
Qed.

Theorem partial_tied_refuted :
  let P : params R := mkParams 1 (1 / 10000) (fun c _ _ ss _ _ => sqrt ss / c) in
  let a := mkRating 25 1 1 NmNone in let b := mkRating 25 1 2 NmNone in let c := mkRating 25 1 3 NmNone in
  let ks := [(1, 0); (1, 0); (2, 0)]%Z in
  Permutation (combine ks [[a]; [b]; [c]]) (combine ks [[b]; [a]; [c]]) /\
  exists ra ra',
    nth_error (rate_core BTP P 0 false [[a]; [b]; [c]] (Some ks)) 0 = Some [ra] /\
    nth_error (rate_core BTP P 0 false [[b]; [a]; [c]] (Some ks)) 1 = Some [ra'] /\
    r_mu ra <> r_mu ra'.
Proof.
  intros P a b c ks. split; [apply perm_swap|].
  assert (K : keys_ok 3 (Some ks)) by (split; [reflexivity | repeat constructor; unfold key_wf; cbn; lia]).
  rewrite (C01L.C01_BTP_refines Phi Phiinv P 0 false [[a]; [b]; [c]] (Some ks) K).
  rewrite (C01L.C01_BTP_refines Phi Phiinv P 0 false [[b]; [a]; [c]] (Some ks) K).
  unfold Spec.wl_update, Spec.wl_update_f, game_of, keys_of, indexed, ks.
  cbn [map combine length seq nth_error].
  set (ia := inflate_sigma 0 a). set (ib := inflate_sigma 0 b). set (ic := inflate_sigma 0 c).
  unfold Spec.team_update. cbn [fst snd map].
  eexists. eexists. split; [reflexivity|]. split; [reflexivity|].
  assert (Hs : r_sigma ia = 1).
  { unfold ia, inflate_sigma, a. cbn [r_sigma set_sigma set_mu_sigma]. replace (1 * 1 + 0 * 0) with 1 by ring. apply sqrt_1. }
  assert (Hsc : r_sigma ic = 1).
  { unfold ic, inflate_sigma, c. cbn [r_sigma set_sigma set_mu_sigma]. replace (1 * 1 + 0 * 0) with 1 by ring. apply sqrt_1. }
  assert (SA : ssq [ia] = 1) by (unfold ssq; cbn [map Rsum]; rewrite Hs; ring).
  assert (SC : ssq [ic] = 1) by (unfold ssq; cbn [map Rsum]; rewrite Hsc; ring).
  assert (TA : theta [ia] = 25) by (unfold theta; cbn; ring).
  assert (TB : theta [ib] = 25) by (unfold theta; cbn; ring).
  assert (TC : theta [ic] = 25) by (unfold theta; cbn; ring).
  destruct (btp_tied_omega P [ia] [ib] [ic]) as [E1 E2]. cbv zeta in E1, E2.
  rewrite (bt_tie_term P ((1, 0)%Z : key) [ia] [ib]) in E1, E2 by congruence.
  assert (Hw : 0 < bt_omega_term P (((1, 0)%Z : key), [ia]) (((2, 0)%Z : key), [ic])).
  { apply bt_win_term; [reflexivity | congruence | lra | cbn; lra | lra]. }
  set (W := bt_omega_term P (((1, 0)%Z : key), [ia]) (((2, 0)%Z : key), [ic])) in *.
  match goal with |- r_mu (player_update _ _ ?o1 _ _) <> r_mu (player_update _ _ ?o2 _ _) =>
    assert (O1 : o1 = 0 + 0) by exact E1;
    assert (O2 : o2 = 0 + (W + 0)) by exact E2;
    rewrite O1, O2 end.
  unfold player_update. cbn [r_mu set_mu_sigma]. rewrite SA, Hs.
  replace (1 * 1 / 1) with 1 by field. lra.
Qed.

End C04.

(** * RelabelL: the numbers computed by [rate_core] and [predict_*] depend only
    on the (mu, sigma) of the ratings passed in, not on ids or names.

    Technique: a map [g] on ratings that keeps mu and sigma and commutes with
    [set_mu_sigma] commutes with every stage of [rate_core] (naturality); the
    map [erase] that forgets id and name is such a map, and two games with the
    same numbers have the same erasure. *)
From Coq Require Import List ZArith Bool Arith Lia.
From OSV Require Import Num Order Gauss Core Predict.
Import ListNotations.

(** ** list plumbing *)
Section ListLemmas.
Context {A B C : Type}.

Lemma combine_map_l (f : A -> B) (l : list A) (r : list C) :
  combine (map f l) r = map (fun p => (f (fst p), snd p)) (combine l r).
Proof.
  revert r; induction l as [|x xs IH]; intros [|y ys]; cbn [map combine]; try reflexivity.
  rewrite IH. reflexivity.
Qed.

Lemma combine_map_r (f : A -> B) (l : list C) (r : list A) :
  combine l (map f r) = map (fun p => (fst p, f (snd p))) (combine l r).
Proof.
  revert r; induction l as [|x xs IH]; intros [|y ys]; cbn [map combine]; try reflexivity.
  rewrite IH. reflexivity.
Qed.

Lemma filter_map_comm (p : B -> bool) (f : A -> B) (l : list A) :
  filter p (map f l) = map f (filter (fun x => p (f x)) l).
Proof.
  induction l as [|x xs IH]; cbn [map filter]; [reflexivity|].
  destruct (p (f x)); cbn [map]; rewrite IH; reflexivity.
Qed.

Lemma fold_left_map_ext (f' : C -> B -> C) (f : C -> A -> C) (h : A -> B)
  (E : forall a x, f' a (h x) = f a x) (l : list A) (a : C) :
  fold_left f' (map h l) a = fold_left f l a.
Proof.
  revert a; induction l as [|x xs IH]; intros a; cbn [map fold_left]; [reflexivity|].
  rewrite E. apply IH.
Qed.
End ListLemmas.

Lemma combine_map_both {A A' B B'} (f : A -> A') (h : B -> B') (l : list A) (r : list B) :
  combine (map f l) (map h r) = map (fun p => (f (fst p), h (snd p))) (combine l r).
Proof.
  rewrite combine_map_l, combine_map_r, map_map. reflexivity.
Qed.

Lemma flat_map_map {A B C} (f : B -> list C) (h : A -> B) (l : list A) :
  flat_map f (map h l) = flat_map (fun x => f (h x)) l.
Proof.
  induction l as [|x xs IH]; cbn [map flat_map]; [reflexivity|]. rewrite IH. reflexivity.
Qed.

(** ** sorting commutes with a map that the comparison does not see *)
Lemma insert_map {A B} (h : A -> B) (leb : A -> A -> bool) (leb' : B -> B -> bool)
  (Hl : forall x y, leb' (h x) (h y) = leb x y) x l :
  insert leb' (h x) (map h l) = map h (insert leb x l).
Proof.
  induction l as [|y ys IH]; cbn [insert map]; [reflexivity|].
  rewrite Hl. destruct (leb x y); cbn [map]; [reflexivity|]. rewrite IH. reflexivity.
Qed.

Lemma isort_map {A B} (h : A -> B) (leb : A -> A -> bool) (leb' : B -> B -> bool)
  (Hl : forall x y, leb' (h x) (h y) = leb x y) l :
  isort leb' (map h l) = map h (isort leb l).
Proof.
  induction l as [|x xs IH]; [reflexivity|].
  unfold isort in *. cbn [fold_right map]. rewrite IH. apply insert_map. exact Hl.
Qed.

Lemma unwind_map {K A B} (kleb : K -> K -> bool) (h : A -> B) (tenet : list K) (objs : list A) :
  unwind kleb tenet (map h objs)
  = (map h (fst (unwind kleb tenet objs)), snd (unwind kleb tenet objs)).
Proof.
  unfold unwind. rewrite map_length, combine_map_l, combine_map_r.
  rewrite (isort_map (fun p : K * (A * nat) => (fst p, (h (fst (snd p)), snd (snd p))))
                     (tag_leb kleb) (tag_leb kleb)); [|intros x y; reflexivity].
  cbn [fst snd]. rewrite !map_map. cbn [fst snd]. reflexivity.
Qed.

Lemma rows_aux_map {A B} (f : A -> B) (pre l : list A) :
  rows_aux (map f pre) (map f l)
  = map (fun ro => (f (fst ro), map f (snd ro))) (rows_aux pre l).
Proof.
  revert pre; induction l as [|x xs IH]; intros pre; cbn [rows_aux map]; [reflexivity|].
  cbn [fst snd]. rewrite map_app, map_rev. f_equal.
  change (f x :: map f pre) with (map f (x :: pre)). apply IH.
Qed.

Lemma rows_map {A B} (f : A -> B) (l : list A) :
  rows (map f l) = map (fun ro => (f (fst ro), map f (snd ro))) (rows l).
Proof. unfold rows. change (@nil B) with (map f []). apply rows_aux_map. Qed.

Lemma ladder_aux_map {A B} (f : A -> B) (prev : option A) (l : list A) :
  ladder_aux (option_map f prev) (map f l) = map (map f) (ladder_aux prev l).
Proof.
  revert prev; induction l as [|x xs IH]; intros prev; cbn [ladder_aux map]; [reflexivity|].
  f_equal.
  - rewrite map_app. f_equal.
    + destruct prev; reflexivity.
    + destruct xs; reflexivity.
  - change (Some (f x)) with (option_map f (Some x)). apply IH.
Qed.

Lemma ladder_pairs_map {A B} (f : A -> B) (l : list A) :
  ladder_pairs (map f l) = map (map f) (ladder_pairs l).
Proof. unfold ladder_pairs. change (@None B) with (option_map f None). apply ladder_aux_map. Qed.

Lemma isort_length {A} (leb : A -> A -> bool) (l : list A) : length (isort leb l) = length l.
Proof.
  induction l as [|x xs IH]; [reflexivity|]. unfold isort in *. cbn [fold_right length].
  rewrite <- IH. generalize (fold_right (insert leb) [] xs). intros m.
  induction m as [|y ys IHm]; cbn [insert length]; [reflexivity|].
  destruct (leb x y); cbn [length]; [reflexivity|]. rewrite IHm. reflexivity.
Qed.

Lemma unwind_length_le {K A} (kleb : K -> K -> bool) (tenet : list K) (objs : list A) :
  length (fst (unwind kleb tenet objs)) <= length objs.
Proof.
  unfold unwind. cbn [fst]. rewrite map_length, isort_length, !combine_length, seq_length. lia.
Qed.

(** ** naturality of the rating pipeline *)
Section Natural.
Context {F : Type} {N : Num F}.

(** the numbers of a rating / of a game *)
Definition ms (r : rating F) : F * F := (r_mu r, r_sigma r).
Definition nums (teams : list (list (rating F))) : list (list (F * F)) := map (map ms) teams.

Variable g : rating F -> rating F.
Hypothesis g_mu : forall r, r_mu (g r) = r_mu r.
Hypothesis g_sigma : forall r, r_sigma (g r) = r_sigma r.
Hypothesis g_set : forall r m s, g (set_mu_sigma r m s) = set_mu_sigma (g r) m s.

Definition tg (t : trating F) : trating F :=
  mkT (t_mu t) (t_ss t) (map g (t_team t)) (t_rank t).

Lemma map_mu_g l : map r_mu (map g l) = map r_mu l.
Proof. rewrite map_map. apply map_ext. exact g_mu. Qed.
Lemma map_ss_g l :
  map (fun p => fpow2 (r_sigma p)) (map g l) = map (fun p => fpow2 (r_sigma p)) l.
Proof. rewrite map_map. apply map_ext. intros r. rewrite g_sigma. reflexivity. Qed.

Lemma team_rating_g team rank : team_rating (map g team) rank = tg (team_rating team rank).
Proof. unfold team_rating, tg. cbn [t_mu t_ss t_team t_rank]. rewrite map_mu_g, map_ss_g. reflexivity. Qed.

Lemma team_ratings_g game ranks :
  team_ratings (map (map g) game) ranks = map tg (team_ratings game ranks).
Proof.
  unfold team_ratings. rewrite combine_map_l, !map_map. apply map_ext.
  intros [t r]. cbn [fst snd]. apply team_rating_g.
Qed.

Lemma inflate_g tau r : inflate tau (g r) = g (inflate tau r).
Proof. unfold inflate, set_sigma. rewrite g_set, g_mu, g_sigma. reflexivity. Qed.

Lemma clamp_player_g o r : clamp_player (g o) (g r) = g (clamp_player o r).
Proof.
  unfold clamp_player, set_sigma. rewrite !g_sigma, g_mu.
  destruct (fleb (r_sigma r) (r_sigma o)); [reflexivity|]. rewrite g_set. reflexivity.
Qed.

Lemma clamp_g o r : clamp (map (map g) o) (map (map g) r) = map (map g) (clamp o r).
Proof.
  unfold clamp. rewrite combine_map_both, !map_map. apply map_ext.
  intros [a b]. cbn [fst snd]. rewrite combine_map_both, !map_map. apply map_ext.
  intros [x y]. cbn [fst snd]. apply clamp_player_g.
Qed.

Variable P : params F.
Hypothesis gamma_g : forall c n mu ss t rank,
  p_gamma P c n mu ss (map g t) rank = p_gamma P c n mu ss t rank.

Lemma update_player_g ti o d p :
  update_player P (tg ti) o d (g p) = g (update_player P ti o d p).
Proof.
  unfold update_player. cbn [tg t_ss]. rewrite g_set, g_mu, g_sigma. reflexivity.
Qed.

Lemma update_team_g ti od : update_team P (tg ti) od = map g (update_team P ti od).
Proof.
  unfold update_team. cbn [tg t_team]. rewrite !map_map. apply map_ext.
  intros p. apply update_player_g.
Qed.

Lemma gamma_of_g c trs ti : gamma_of P c (map tg trs) (tg ti) = gamma_of P c trs ti.
Proof.
  unfold gamma_of, nteams. rewrite map_length. cbn [tg t_mu t_ss t_team t_rank]. apply gamma_g.
Qed.

Lemma c_iq_g ti tq : c_iq P (tg ti) (tg tq) = c_iq P ti tq.
Proof. reflexivity. Qed.

Lemma bt_term_g trs ti od tq :
  bt_term P (map tg trs) (tg ti) od (tg tq) = bt_term P trs ti od tq.
Proof. unfold bt_term. rewrite c_iq_g, gamma_of_g. reflexivity. Qed.

Lemma tm_term_g two trs ti od tq :
  tm_term two P (map tg trs) (tg ti) od (tg tq) = tm_term two P trs ti od tq.
Proof. unfold tm_term. rewrite c_iq_g, !gamma_of_g. reflexivity. Qed.

Definition iog (io : trating F * list (trating F)) := (tg (fst io), map tg (snd io)).

Lemma compute_pairs_g (term' term : trating F -> F * F -> trating F -> F * F)
  (E : forall ti od tq, term' (tg ti) od (tg tq) = term ti od tq) opp :
  compute_pairs term' (map iog opp) P = map (map g) (compute_pairs term opp P).
Proof.
  unfold compute_pairs. rewrite !map_map. apply map_ext. intros [ti os]. cbn [iog fst snd].
  rewrite (fold_left_map_ext (term' (tg ti)) (term ti) tg); [|intros; apply E].
  apply update_team_g.
Qed.

Lemma opponents_full_g trs : opponents_full (map tg trs) = map iog (opponents_full trs).
Proof. unfold opponents_full. apply rows_map. Qed.

Lemma opponents_part_g trs : opponents_part (map tg trs) = map iog (opponents_part trs).
Proof. unfold opponents_part. rewrite ladder_pairs_map, combine_map_both. reflexivity. Qed.

(** Plackett-Luce *)
Lemma pl_c_g trs : pl_c P (map tg trs) = pl_c P trs.
Proof.
  unfold pl_c. f_equal. apply fold_left_map_ext. intros a x. reflexivity.
Qed.

Lemma pl_sum_q_g trs c : pl_sum_q (map tg trs) c = pl_sum_q trs c.
Proof.
  unfold pl_sum_q. rewrite map_map. apply map_ext. intros tq.
  rewrite filter_map_comm, map_map. reflexivity.
Qed.

Lemma pl_a_g trs : pl_a (map tg trs) = pl_a trs.
Proof.
  unfold pl_a. rewrite map_map. apply map_ext. intros ti.
  rewrite filter_map_comm, map_length. reflexivity.
Qed.

Definition qg (q : nat * (trating F * (F * nat))) := (fst q, (tg (fst (snd q)), snd (snd q))).

Lemma pl_step_g i ti e od qt : pl_step i (tg ti) e od (qg qt) = pl_step i ti e od qt.
Proof. reflexivity. Qed.

Lemma pl_omega_delta_g trs c qs i ti :
  pl_omega_delta P (map tg trs) c (map qg qs) i (tg ti) = pl_omega_delta P trs c qs i ti.
Proof.
  unfold pl_omega_delta. rewrite gamma_of_g.
  rewrite (fold_left_map_ext (pl_step i (tg ti) (fexp (fdiv (t_mu (tg ti)) c)))
                             (pl_step i ti (fexp (fdiv (t_mu ti) c))) qg);
    [reflexivity|intros; apply pl_step_g].
Qed.

Lemma compute_pl_g trs : compute_pl P (map tg trs) = map (map g) (compute_pl P trs).
Proof.
  unfold compute_pl. rewrite pl_c_g, pl_sum_q_g, pl_a_g, map_length.
  rewrite combine_map_l, combine_map_r.
  change (fun p : nat * (trating F * (F * nat)) =>
            (fst p, (tg (fst (snd p)), snd (snd p)))) with qg.
  rewrite !map_map. apply map_ext. intros it.
  cbn [qg fst snd]. rewrite pl_omega_delta_g. apply update_team_g.
Qed.

Lemma compute_g k trs : compute k P (map tg trs) = map (map g) (compute k P trs).
Proof.
  destruct k; cbn [compute].
  - apply compute_pl_g.
  - rewrite opponents_full_g. apply compute_pairs_g. intros; apply bt_term_g.
  - rewrite opponents_part_g. apply compute_pairs_g. intros; apply bt_term_g.
  - rewrite opponents_full_g. apply compute_pairs_g. intros; apply tm_term_g.
  - rewrite opponents_part_g. apply compute_pairs_g. intros; apply tm_term_g.
Qed.

Lemma rate_sorted_g k teams keys :
  rate_sorted k P (map (map g) teams) keys = map (map g) (rate_sorted k P teams keys).
Proof.
  unfold rate_sorted. destruct keys as [ks|].
  - rewrite unwind_map. cbn [fst snd]. rewrite team_ratings_g, compute_g, unwind_map.
    reflexivity.
  - rewrite map_length, team_ratings_g. apply compute_g.
Qed.

Lemma rate_core_g k tau lim teams keys :
  rate_core k P tau lim (map (map g) teams) keys = map (map g) (rate_core k P tau lim teams keys).
Proof.
  unfold rate_core.
  assert (E : map (map (inflate tau)) (map (map g) teams)
              = map (map g) (map (map (inflate tau)) teams)).
  { rewrite !map_map. apply map_ext. intros t. rewrite !map_map. apply map_ext.
    intros r. apply inflate_g. }
  rewrite E, rate_sorted_g. destruct lim; [apply clamp_g|reflexivity].
Qed.
End Natural.

(** ** predictions only read mu and sigma *)
Section PredictNatural.
Context {F : Type} {N : Num F}.
Variable g : rating F -> rating F.
Hypothesis g_mu : forall r, r_mu (g r) = r_mu r.
Hypothesis g_sigma : forall r, r_sigma (g r) = r_sigma r.

Lemma agg_g t : agg (map g t) = agg t.
Proof. unfold agg. rewrite (map_mu_g g g_mu), (map_ss_g g g_sigma). reflexivity. Qed.

Lemma nplayers_g teams : nplayers (map (map g) teams) = nplayers teams.
Proof.
  unfold nplayers. apply fold_left_map_ext. intros a x. rewrite map_length. reflexivity.
Qed.

Lemma draw_margin_g beta teams : draw_margin beta (map (map g) teams) = draw_margin beta teams.
Proof. unfold draw_margin. rewrite nplayers_g. reflexivity. Qed.

Lemma predict_win_general_g beta n teams :
  map (fun ro => let a := agg (fst ro) in
         fdiv (py_sum (map (fun tb => let b := agg tb in
                  cdf (fdiv (fsub (fst a) (fst b)) (pair_scale beta n a b))) (snd ro)))
              (half_pairs n)) (rows (map (map g) teams))
  = map (fun ro => let a := agg (fst ro) in
         fdiv (py_sum (map (fun tb => let b := agg tb in
                  cdf (fdiv (fsub (fst a) (fst b)) (pair_scale beta n a b))) (snd ro)))
              (half_pairs n)) (rows teams).
Proof.
  rewrite rows_map, map_map. apply map_ext. intros [ta os]. cbn [fst snd].
  rewrite agg_g, map_map. do 2 f_equal. apply map_ext. intros tb. rewrite agg_g. reflexivity.
Qed.

Lemma predict_win_g beta teams : predict_win beta (map (map g) teams) = predict_win beta teams.
Proof.
  unfold predict_win. rewrite map_length.
  destruct teams as [|ta [|tb [|tc rest]]].
  - reflexivity.
  - apply (predict_win_general_g beta _ [ta]).
  - cbn [map]. rewrite !agg_g, !map_length. reflexivity.
  - apply (predict_win_general_g beta _ (ta :: tb :: tc :: rest)).
Qed.

Lemma predict_draw_g beta teams : predict_draw beta (map (map g) teams) = predict_draw beta teams.
Proof.
  unfold predict_draw. rewrite map_length, draw_margin_g. do 3 f_equal.
  rewrite rows_map, flat_map_map. apply flat_map_ext. intros [ta os]. cbn [fst snd].
  rewrite agg_g, map_map. apply map_ext. intros tb. rewrite agg_g. reflexivity.
Qed.

Lemma predict_rank_probs_g beta teams :
  predict_rank_probs beta (map (map g) teams) = predict_rank_probs beta teams.
Proof.
  unfold predict_rank_probs. rewrite map_length, draw_margin_g.
  rewrite rows_map, map_map. apply map_ext. intros [ta os]. cbn [fst snd].
  rewrite agg_g, map_map. do 3 f_equal. apply map_ext. intros tb. rewrite agg_g. reflexivity.
Qed.

Lemma predict_rank_g beta teams : predict_rank beta (map (map g) teams) = predict_rank beta teams.
Proof. unfold predict_rank. rewrite predict_rank_probs_g. reflexivity. Qed.
End PredictNatural.

(** ** erasure of identity, and the values-only theorems *)
Section Erase.
Context {F : Type} {N : Num F}.

Definition of_ms (p : F * F) : rating F := mkRating (fst p) (snd p) 0%Z NmNone.
Definition erase (r : rating F) : rating F := of_ms (ms r).

Lemma erase_mu r : r_mu (erase r) = r_mu r.
Proof. reflexivity. Qed.
Lemma erase_sigma r : r_sigma (erase r) = r_sigma r.
Proof. reflexivity. Qed.
Lemma erase_set r m s : erase (set_mu_sigma r m s) = set_mu_sigma (erase r) m s.
Proof. reflexivity. Qed.
Lemma ms_erase r : ms (erase r) = ms r.
Proof. reflexivity. Qed.

Lemma map_ms_erase l : map ms (map erase l) = map ms l.
Proof. rewrite map_map. apply map_ext. exact ms_erase. Qed.
Lemma nums_erase teams : nums (map (map erase) teams) = nums teams.
Proof. unfold nums. rewrite map_map. apply map_ext. exact map_ms_erase. Qed.

Lemma erase_of_map_ms l l' : map ms l = map ms l' -> map erase l = map erase l'.
Proof.
  intros E. unfold erase. rewrite <- !(map_map ms of_ms). rewrite E. reflexivity.
Qed.
Lemma erase_of_nums t t' : nums t = nums t' -> map (map erase) t = map (map erase) t'.
Proof.
  intros E.
  assert (X : forall u, map (map erase) u = map (map of_ms) (nums u)).
  { intros u. unfold nums. rewrite map_map. apply map_ext. intros l.
    rewrite map_map. reflexivity. }
  rewrite !X, E. reflexivity.
Qed.

(** the gamma callback looks at the team's numbers only *)
Definition gamma_values_only (P : params F) : Prop :=
  forall c n mu ss (t1 t2 : list (rating F)) rank,
    map ms t1 = map ms t2 -> p_gamma P c n mu ss t1 rank = p_gamma P c n mu ss t2 rank.

Lemma gamma_erase P : gamma_values_only P ->
  forall c n mu ss t rank, p_gamma P c n mu ss (map erase t) rank = p_gamma P c n mu ss t rank.
Proof. intros HP c n mu ss t rank. apply HP. apply map_ms_erase. Qed.

Theorem rate_core_values_only k P tau lim teams teams' keys :
  gamma_values_only P -> nums teams = nums teams' ->
  nums (rate_core k P tau lim teams keys) = nums (rate_core k P tau lim teams' keys).
Proof.
  intros HP E.
  rewrite <- (nums_erase (rate_core k P tau lim teams keys)).
  rewrite <- (nums_erase (rate_core k P tau lim teams' keys)).
  rewrite <- !(rate_core_g erase erase_mu erase_sigma erase_set P (gamma_erase P HP)).
  rewrite (erase_of_nums _ _ E). reflexivity.
Qed.

Theorem rate_sorted_values_only k P teams teams' keys :
  gamma_values_only P -> nums teams = nums teams' ->
  nums (rate_sorted k P teams keys) = nums (rate_sorted k P teams' keys).
Proof.
  intros HP E.
  rewrite <- (nums_erase (rate_sorted k P teams keys)).
  rewrite <- (nums_erase (rate_sorted k P teams' keys)).
  rewrite <- !(rate_sorted_g erase erase_mu erase_sigma erase_set P (gamma_erase P HP)).
  rewrite (erase_of_nums _ _ E). reflexivity.
Qed.

Theorem predict_win_values_only beta teams teams' :
  nums teams = nums teams' -> predict_win beta teams = predict_win beta teams'.
Proof.
  intros E. rewrite <- (predict_win_g erase erase_mu erase_sigma beta teams).
  rewrite <- (predict_win_g erase erase_mu erase_sigma beta teams').
  rewrite (erase_of_nums _ _ E). reflexivity.
Qed.
Theorem predict_draw_values_only beta teams teams' :
  nums teams = nums teams' -> predict_draw beta teams = predict_draw beta teams'.
Proof.
  intros E. rewrite <- (predict_draw_g erase erase_mu erase_sigma beta teams).
  rewrite <- (predict_draw_g erase erase_mu erase_sigma beta teams').
  rewrite (erase_of_nums _ _ E). reflexivity.
Qed.
Theorem predict_rank_values_only beta teams teams' :
  nums teams = nums teams' -> predict_rank beta teams = predict_rank beta teams'.
Proof.
  intros E. rewrite <- (predict_rank_g erase erase_mu erase_sigma beta teams).
  rewrite <- (predict_rank_g erase erase_mu erase_sigma beta teams').
  rewrite (erase_of_nums _ _ E). reflexivity.
Qed.

Lemma gamma_default_values_only beta kappa : gamma_values_only (mkParams beta kappa gamma_default).
Proof. intros c n mu ss t1 t2 rank _. reflexivity. Qed.
End Erase.

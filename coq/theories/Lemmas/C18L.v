(** * C18L: rating comparison operators = comparison of ordinals. *)
From Coq Require Import List ZArith Bool Arith Sorted Permutation.
From OSV Require Import Num Order Gauss Core PyVal Prog RatingOps.
Import ListNotations.

(** an ad-hoc number structure on Z, used only by non-vacuity examples *)
Definition ZNum : Num Z := {|
  fadd := Z.add; fsub := Z.sub; fmul := Z.mul; fdiv := Z.div;
  fneg := Z.opp; fabs := Z.abs; fsqrt := Z.sqrt; fexp := fun x => x;
  ferfc := fun x => x; fpow2 := fun x => Z.mul x x; ficdf := fun x => x;
  fltb := Z.ltb; fleb := Z.leb; feqb := Z.eqb; ffinite := fun _ => true;
  fofZ := fun z => z; fofdy := fun m _ => m; ftau := 6%Z |}.

(** ** generic facts about the stable insertion sort *)
Section SortGeneric.
Context {A : Type} (leb : A -> A -> bool).

Lemma insert_perm x l : Permutation (x :: l) (insert leb x l).
Proof.
  induction l as [|y ys IH]; cbn [insert]; [apply Permutation_refl|].
  destruct (leb x y); [apply Permutation_refl|].
  eapply perm_trans; [apply perm_swap|]. apply perm_skip. exact IH.
Qed.

Lemma isort_perm l : Permutation l (isort leb l).
Proof.
  induction l as [|x xs IH]; [apply Permutation_refl|].
  unfold isort in *. cbn [fold_right].
  eapply perm_trans; [|apply insert_perm]. apply perm_skip. exact IH.
Qed.

Hypothesis leb_total : forall x y, leb x y = false -> leb y x = true.

Lemma insert_hdrel a x l :
  leb a x = true -> HdRel (fun u v => leb u v = true) a l ->
  HdRel (fun u v => leb u v = true) a (insert leb x l).
Proof.
  intros Hax Hl. destruct l as [|y ys]; cbn [insert].
  - constructor. exact Hax.
  - destruct (leb x y); constructor; [exact Hax|]. inversion Hl; assumption.
Qed.

Lemma insert_sorted x l :
  Sorted (fun u v => leb u v = true) l -> Sorted (fun u v => leb u v = true) (insert leb x l).
Proof.
  induction l as [|y ys IH]; intros Hs; cbn [insert].
  - constructor; constructor.
  - destruct (leb x y) eqn:Exy.
    + constructor; [exact Hs|]. constructor. exact Exy.
    + inversion Hs as [|? ? Hs' Hhd]; subst. constructor; [apply IH; exact Hs'|].
      apply insert_hdrel; [apply leb_total; exact Exy|exact Hhd].
Qed.

Lemma isort_sorted l : Sorted (fun u v => leb u v = true) (isort leb l).
Proof.
  induction l as [|x xs IH]; [constructor|].
  unfold isort in *. cbn [fold_right]. apply insert_sorted. exact IH.
Qed.

Lemma isort_strongly_sorted
  (leb_trans : forall x y z, leb x y = true -> leb y z = true -> leb x z = true) l :
  StronglySorted (fun u v => leb u v = true) (isort leb l).
Proof.
  apply Sorted_StronglySorted; [|apply isort_sorted].
  intros x y z. apply leb_trans.
Qed.
End SortGeneric.

Lemma insert_ext {A} (l1 l2 : A -> A -> bool) (E : forall x y, l1 x y = l2 x y) x l :
  insert l1 x l = insert l2 x l.
Proof. induction l as [|y ys IH]; cbn [insert]; [reflexivity|]. rewrite E, IH. reflexivity. Qed.
Lemma isort_ext {A} (l1 l2 : A -> A -> bool) (E : forall x y, l1 x y = l2 x y) l :
  isort l1 l = isort l2 l.
Proof.
  induction l as [|x xs IH]; [reflexivity|]. unfold isort in *. cbn [fold_right].
  rewrite IH. apply insert_ext. exact E.
Qed.

Section C18.
Context {F : Type} {N : Num F}.

Lemma kind_eqb_refl k : kind_eqb k k = true.
Proof. destruct k; reflexivity. Qed.
Lemma kind_eqb_eq a b : kind_eqb a b = true <-> a = b.
Proof. destruct a, b; cbn; split; intros; try reflexivity; try discriminate. Qed.

Lemma ordinal_def (r : rating F) z : ordinal r z = fsub (r_mu r) (fmul z (r_sigma r)).
Proof. reflexivity. Qed.

Lemma cmp_lt k a b :
  rating_compare OpLt k a (PRating k b) = Ok (fltb (ordinal a (fofZ 3)) (ordinal b (fofZ 3))).
Proof. unfold rating_compare. rewrite kind_eqb_refl. reflexivity. Qed.
Lemma cmp_le k a b :
  rating_compare OpLe k a (PRating k b) = Ok (fleb (ordinal a (fofZ 3)) (ordinal b (fofZ 3))).
Proof. unfold rating_compare. rewrite kind_eqb_refl. reflexivity. Qed.
Lemma cmp_gt k a b :
  rating_compare OpGt k a (PRating k b) = Ok (fltb (ordinal b (fofZ 3)) (ordinal a (fofZ 3))).
Proof. unfold rating_compare. rewrite kind_eqb_refl. reflexivity. Qed.
Lemma cmp_ge k a b :
  rating_compare OpGe k a (PRating k b) = Ok (fleb (ordinal b (fofZ 3)) (ordinal a (fofZ 3))).
Proof. unfold rating_compare. rewrite kind_eqb_refl. reflexivity. Qed.
Lemma cmp_eq k a b :
  rating_compare OpEq k a (PRating k b)
  = Ok (andb (feqb (r_mu a) (r_mu b)) (feqb (r_sigma a) (r_sigma b))).
Proof. unfold rating_compare. rewrite kind_eqb_refl. reflexivity. Qed.
Lemma cmp_ne k a b :
  rating_compare OpNe k a (PRating k b)
  = Ok (negb (andb (feqb (r_mu a) (r_mu b)) (feqb (r_sigma a) (r_sigma b)))).
Proof. unfold rating_compare. rewrite kind_eqb_refl. reflexivity. Qed.

(** the operators agree with one another the way Python's do: [a > b] is
    [b < a], [a >= b] is [b <= a], [!=] is the negation of [==] *)
Lemma cmp_flip k a b :
  rating_compare OpGt k a (PRating k b) = rating_compare OpLt k b (PRating k a) /\
  rating_compare OpGe k a (PRating k b) = rating_compare OpLe k b (PRating k a).
Proof. rewrite cmp_gt, cmp_ge, cmp_lt, cmp_le. split; reflexivity. Qed.

Lemma cmp_foreign k a (other : pyval F) :
  (forall b, other <> PRating k b) ->
  rating_compare OpLt k a other = Raise ValueError /\
  rating_compare OpLe k a other = Raise ValueError /\
  rating_compare OpGt k a other = Raise ValueError /\
  rating_compare OpGe k a other = Raise ValueError /\
  rating_compare OpEq k a other = Ok false /\
  rating_compare OpNe k a other = Ok true.
Proof.
  intros Hf. unfold rating_compare.
  destruct other as [| | | | | | |k' b|]; try (repeat split; reflexivity).
  destruct (kind_eqb k k') eqn:E; [|repeat split; reflexivity].
  apply kind_eqb_eq in E. subst k'. exfalso. apply (Hf b). reflexivity.
Qed.

(** a rating of another model is foreign *)
Lemma cmp_other_kind k k' a b : k <> k' ->
  rating_compare OpLt k a (PRating k' b) = Raise ValueError /\
  rating_compare OpLe k a (PRating k' b) = Raise ValueError /\
  rating_compare OpGt k a (PRating k' b) = Raise ValueError /\
  rating_compare OpGe k a (PRating k' b) = Raise ValueError /\
  rating_compare OpEq k a (PRating k' b) = Ok false /\
  rating_compare OpNe k a (PRating k' b) = Ok true.
Proof.
  intros Hk. apply cmp_foreign. intros b0 E. inversion E. apply Hk. symmetry. assumption.
Qed.

(** ** sorting *)
Definition ord_le (a b : rating F) : Prop := fleb (ordinal a (fofZ 3)) (ordinal b (fofZ 3)) = true.

(** the comparison [sorted()] really uses: [x] goes before [y] unless [y < x] *)
Definition lt_leb (k : kind) (a b : rating F) : bool :=
  negb (match rating_compare OpLt k b (PRating k a) with Ok t => t | Raise _ => false end).
Definition le_leb (k : kind) (a b : rating F) : bool :=
  match rating_compare OpLe k a (PRating k b) with Ok t => t | Raise _ => false end.

Lemma lt_leb_eq k a b : lt_leb k a b = negb (fltb (ordinal b (fofZ 3)) (ordinal a (fofZ 3))).
Proof. unfold lt_leb. rewrite cmp_lt. reflexivity. Qed.
Lemma le_leb_eq k a b : le_leb k a b = fleb (ordinal a (fofZ 3)) (ordinal b (fofZ 3)).
Proof. unfold le_leb. rewrite cmp_le. reflexivity. Qed.

(** sorting rating objects IS sorting by the ordinal (no order law needed) *)
Lemma sort_lt_is_sort_by_ordinal k l :
  isort (lt_leb k) l
  = isort (fun a b => negb (fltb (ordinal b (fofZ 3)) (ordinal a (fofZ 3)))) l.
Proof. apply isort_ext. intros; apply lt_leb_eq. Qed.
Lemma sort_le_is_sort_by_ordinal k l :
  isort (le_leb k) l = isort (fun a b => fleb (ordinal a (fofZ 3)) (ordinal b (fofZ 3))) l.
Proof. apply isort_ext. intros; apply le_leb_eq. Qed.

Section Laws.
Hypothesis lt_irrefl : forall x : F, fltb x x = false.
Hypothesis lt_trans : forall x y z : F, fltb x y = true -> fltb y z = true -> fltb x z = true.
Hypothesis le_lt : forall x y : F, fleb x y = negb (fltb y x).

Lemma lt_asym x y : fltb x y = true -> fltb y x = false.
Proof.
  intros Hxy. destruct (fltb y x) eqn:Hyx; [|reflexivity].
  rewrite <- (lt_irrefl x). symmetry. eapply lt_trans; eassumption.
Qed.

Lemma fle_total x y : fleb x y = false -> fleb y x = true.
Proof.
  rewrite !le_lt. intros Hf. apply negb_false_iff in Hf. apply lt_asym in Hf.
  rewrite Hf. reflexivity.
Qed.

Lemma sorted_le k l :
  Sorted ord_le (isort (le_leb k) l) /\ Permutation l (isort (le_leb k) l).
Proof.
  split; [|apply isort_perm].
  rewrite sort_le_is_sort_by_ordinal.
  apply (isort_sorted (fun a b => fleb (ordinal a (fofZ 3)) (ordinal b (fofZ 3)))).
  intros x y. apply fle_total.
Qed.

Lemma sorted_lt k l :
  Sorted ord_le (isort (lt_leb k) l) /\ Permutation l (isort (lt_leb k) l).
Proof.
  split; [|apply isort_perm].
  rewrite sort_lt_is_sort_by_ordinal.
  rewrite (isort_ext _ (fun a b => fleb (ordinal a (fofZ 3)) (ordinal b (fofZ 3)))).
  - apply (isort_sorted (fun a b => fleb (ordinal a (fofZ 3)) (ordinal b (fofZ 3)))).
    intros x y. apply fle_total.
  - intros x y. rewrite le_lt. reflexivity.
Qed.

(** with negative transitivity ([fltb] a strict weak order) every earlier
    element is [<=] every later one *)
Hypothesis lt_negtrans : forall x y z : F, fltb x z = true -> fltb x y = true \/ fltb y z = true.

Lemma fle_trans x y z : fleb x y = true -> fleb y z = true -> fleb x z = true.
Proof.
  rewrite !le_lt. intros H1 H2. apply negb_true_iff in H1. apply negb_true_iff in H2.
  apply negb_true_iff. destruct (fltb z x) eqn:E; [|reflexivity].
  destruct (lt_negtrans z y x E) as [H|H]; congruence.
Qed.

Lemma strongly_sorted_le k l :
  StronglySorted ord_le (isort (le_leb k) l) /\ Permutation l (isort (le_leb k) l).
Proof.
  split; [|apply isort_perm].
  rewrite sort_le_is_sort_by_ordinal.
  apply (isort_strongly_sorted (fun a b => fleb (ordinal a (fofZ 3)) (ordinal b (fofZ 3)))).
  - intros x y. apply fle_total.
  - intros x y z. apply fle_trans.
Qed.

Lemma strongly_sorted_lt k l :
  StronglySorted ord_le (isort (lt_leb k) l) /\ Permutation l (isort (lt_leb k) l).
Proof.
  split; [|apply isort_perm].
  rewrite sort_lt_is_sort_by_ordinal.
  rewrite (isort_ext _ (fun a b => fleb (ordinal a (fofZ 3)) (ordinal b (fofZ 3)))).
  - apply (isort_strongly_sorted (fun a b => fleb (ordinal a (fofZ 3)) (ordinal b (fofZ 3)))).
    + intros x y. apply fle_total.
    + intros x y z. apply fle_trans.
  - intros x y. rewrite le_lt. reflexivity.
Qed.
End Laws.
End C18.

(** the order laws hold of [ZNum] *)
Lemma ZNum_irrefl : forall x : Z, @fltb Z ZNum x x = false.
Proof. intros x. cbn. apply Z.ltb_irrefl. Qed.
Lemma ZNum_trans : forall x y z : Z, @fltb Z ZNum x y = true -> @fltb Z ZNum y z = true -> @fltb Z ZNum x z = true.
Proof. cbn. intros x y z H1 H2. apply Z.ltb_lt in H1. apply Z.ltb_lt in H2. apply Z.ltb_lt. eapply Z.lt_trans; eassumption. Qed.
Lemma ZNum_le_lt : forall x y : Z, @fleb Z ZNum x y = negb (@fltb Z ZNum y x).
Proof. cbn. intros x y. rewrite Z.leb_antisym. reflexivity. Qed.
Lemma ZNum_negtrans : forall x y z : Z, @fltb Z ZNum x z = true -> @fltb Z ZNum x y = true \/ @fltb Z ZNum y z = true.
Proof.
  cbn. intros x y z H. apply Z.ltb_lt in H. destruct (Z.ltb x y) eqn:E; [left; reflexivity|].
  right. apply Z.ltb_ge in E. apply Z.ltb_lt. eapply Z.le_lt_trans; eassumption.
Qed.

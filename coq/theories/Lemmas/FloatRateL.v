(** * FloatRateL: property C06 for a WHOLE GAME in IEEE 754 binary64 (Flocq, round to nearest
    even): after [compute] / [rate_core] on doubles, every player's posterior sigma is a double
    with 0 <= sigma' <= sigma_inflated (the very double [r_sigma (inflate tau p)] the code
    computes), and <= the prior sigma under [limit_sigma]; no rounding slack.

    The per-step facts are those of FloatOrderL / FloatSignL; this file
    - derives every finiteness fact that is derivable (a finite sum/difference has finite
      operands, a finite square root has a finite argument, a finite product has finite factors,
      1 - x is finite for finite x >= 0, every prefix of a finite accumulated delta is finite,
      a finite quotient by a finite divisor has a non-zero divisor), so that the hypotheses left
      are: finiteness of the results, of [share * delta] per player, and per pair of opposing
      teams finiteness of [c_iq], of the argument of exp and of [1 + exp(..)];
    - lifts through [compute_pairs] (both opponent choices: all other teams / ladder neighbours)
      and through [rate_sorted] / [rate_core] with the polymorphic structure lemmas of RateL. *)
From Coq Require Import List ZArith Bool Arith Reals Lra Lia Permutation.
From Flocq Require Import Core.Raux Core.Defs Core.Zaux Core.Generic_fmt Core.FLT
  IEEE754.BinarySingleNaN IEEE754.Binary IEEE754.Bits.
From OSV Require Import Num Order Gauss Core FloatInst.
From OSV.Lemmas Require Import OrderL RateL FloatOrderL FloatSignL.
From OSV.Lemmas Require C06L.
Import ListNotations.
Open Scope nat_scope.

(** ** List facts: every team has an opponent when there are >= 2 teams *)
Lemma rows_aux_snd_length {A} (pre l : list A) io :
  In io (rows_aux pre l) -> S (length (snd io)) = length pre + length l.
Proof.
  revert pre; induction l as [|x xs IH]; intros pre Hin; cbn [rows_aux In] in Hin; [contradiction|].
  destruct Hin as [<-|Hin].
  - cbn [snd length]. rewrite app_length, rev_length. lia.
  - rewrite (IH _ Hin). cbn [length]. lia.
Qed.

Lemma rows_snd_nonempty {A} (l : list A) io : 2 <= length l -> In io (rows l) -> snd io <> [].
Proof.
  intros Hl Hin. apply rows_aux_snd_length in Hin. cbn [length] in Hin.
  intros E. rewrite E in Hin. cbn [length] in Hin. lia.
Qed.

Lemma ladder_aux_nonempty {A} (prev : option A) (l : list A) io :
  (prev <> None \/ 2 <= length l) -> In io (combine l (ladder_aux prev l)) -> snd io <> [].
Proof.
  revert prev. induction l as [|x xs IH]; intros prev Hc Hin; cbn [ladder_aux combine In] in Hin; [contradiction|].
  destruct Hin as [<-|Hin].
  - cbn [snd]. destruct prev as [a|]; [cbn; discriminate|].
    destruct Hc as [Hc|Hc]; [congruence|].
    destruct xs as [|y ys]; [cbn in Hc; lia|]. cbn. discriminate.
  - apply (IH (Some x)); [left; discriminate | exact Hin].
Qed.

Lemma Forall2_In_l {A B} (Q : A -> B -> Prop) l l' :
  Forall2 Q l l' -> Forall2 (fun a b => In a l /\ Q a b) l l'.
Proof.
  induction 1 as [|a b l l' Hab H IH]; constructor.
  - split; [left; reflexivity | exact Hab].
  - eapply Forall2_weaken; [|exact IH]. intros a' b' [Ha Hq]. split; [right|]; assumption.
Qed.

(** ** The team ratings [rate_sorted] hands to [compute], and the pointwise transfer for them *)
Section RateAt.
Context {F : Type} `{Num F}.

Definition rate_trs (teams : list (list (rating F))) (keys : option (list key)) : list (trating F) :=
  match keys with
  | None => team_ratings teams (seq 0 (length teams))
  | Some ks => team_ratings (fst (unwind key_leb ks teams)) (calc_rankings key_ltb (isort key_leb ks))
  end.

Lemma team_ratings_in (g : list (list (rating F))) rk ti :
  In ti (team_ratings g rk) ->
  In (t_team ti) g /\ t_ss ti = reduce_add (map (fun p => fpow2 (r_sigma p)) (t_team ti)).
Proof.
  unfold team_ratings. intros Hin. apply in_map_iff in Hin. destruct Hin as [[t r] [<- Hin]].
  cbn [fst snd team_rating t_team t_ss]. split; [|reflexivity]. eapply in_combine_l; exact Hin.
Qed.

Lemma rate_trs_in teams keys ti :
  In ti (rate_trs teams keys) ->
  In (t_team ti) teams /\ t_ss ti = reduce_add (map (fun p => fpow2 (r_sigma p)) (t_team ti)).
Proof.
  destruct keys as [ks|]; cbn [rate_trs]; intros Hin; apply team_ratings_in in Hin;
    destruct Hin as [Hin E]; (split; [|exact E]); [|exact Hin].
  unfold unwind in Hin. cbn [fst] in Hin. apply in_map_iff in Hin. destruct Hin as [[kx [tx ix]] [<- Hx]].
  apply isort_in in Hx. apply in_combine_r in Hx. apply in_combine_l in Hx. exact Hx.
Qed.

Lemma rate_trs_length teams keys :
  match keys with Some ks => length ks = length teams | None => True end ->
  length (rate_trs teams keys) = length teams.
Proof.
  intros E. destruct keys as [ks|]; cbn [rate_trs].
  - rewrite team_ratings_length; [now apply unwind_fst_length|].
    rewrite calc_rankings_length, isort_length, unwind_fst_length; auto.
  - apply team_ratings_length. now rewrite seq_length.
Qed.

Theorem rate_sorted_pointwise_at k P teams keys (R : list (rating F) -> list (rating F) -> Prop) :
  match keys with Some ks => length ks = length teams | None => True end ->
  Forall2 R (map t_team (rate_trs teams keys)) (compute k P (rate_trs teams keys)) ->
  Forall2 R teams (rate_sorted k P teams keys).
Proof.
  intros E HR. destruct keys as [ks|].
  - destruct (rate_sorted_some k P teams ks E) as [L Pm].
    apply Forall2_combine; [now rewrite L|].
    assert (G : Forall (fun p : key * list (rating F) * list (rating F) => R (snd (fst p)) (snd p))
                  (combine (combine ks teams) (rate_sorted k P teams (Some ks)))).
    { eapply Permutation_Forall; [symmetry; exact Pm|].
      change (rate_trs teams (Some ks)) with (sorted_trs teams ks) in HR.
      rewrite (sorted_trs_teams teams ks E) in HR.
      apply Forall2_combine_inv in HR. revert HR.
      generalize (compute k P (sorted_trs teams ks)) (snd (sorted_game teams ks)) (fst (sorted_game teams ks)).
      intros cs ts kk. revert ts kk. induction cs as [|c cs IH]; intros [|t ts] [|k0 kk] HR; cbn in *; try constructor.
      - inversion HR; subst. assumption.
      - apply IH. inversion HR; subst. assumption. }
    clear -G E. revert G. generalize (rate_sorted k P teams (Some ks)). revert ks E.
    induction teams as [|t teams IH]; intros [|k0 ks] E res G; cbn in *; try discriminate; [constructor|].
    destruct res as [|r res]; cbn in *; [constructor|]. inversion G; subst. constructor; [assumption|].
    apply (IH ks); [congruence|assumption].
  - rewrite rate_sorted_none. cbn [rate_trs] in HR.
    rewrite team_ratings_teams in HR by (now rewrite seq_length). exact HR.
Qed.

(** [compute_pairs]: a player-level relation holds position by position *)
Lemma compute_pairs_pointwise (term : trating F -> F * F -> trating F -> F * F)
      (opps : list (trating F * list (trating F))) (P : params F) (R : rating F -> rating F -> Prop) :
  (forall io, In io opps -> forall p, In p (t_team (fst io)) ->
     R p (update_player P (fst io) (fst (fold_left (term (fst io)) (snd io) (fzero, fzero)))
                                  (snd (fold_left (term (fst io)) (snd io) (fzero, fzero))) p)) ->
  Forall2 (Forall2 R) (map t_team (map fst opps)) (compute_pairs term opps P).
Proof.
  unfold compute_pairs. induction opps as [|io opps IH]; intros Hio; cbn [map]; constructor.
  - unfold update_team.
    apply (proj1 (Forall2_map_r (update_player P (fst io)
                    (fst (fold_left (term (fst io)) (snd io) (fzero, fzero)))
                    (snd (fold_left (term (fst io)) (snd io) (fzero, fzero)))) R
                    (t_team (fst io)) (t_team (fst io)))).
    apply Forall2_refl. intros p Hp.
    apply Hio; [left; reflexivity | exact Hp].
  - apply IH. intros io' Hin. apply Hio. right. exact Hin.
Qed.

(** the same for any list of (team rating, (omega, delta)) producers ([compute_pl]) *)
Lemma map_update_pointwise {X : Type} (l : list X) (tf : X -> trating F) (odf : X -> F * F)
      (P : params F) (R : rating F -> rating F -> Prop) :
  (forall x, In x l -> forall p, In p (t_team (tf x)) ->
     R p (update_player P (tf x) (fst (odf x)) (snd (odf x)) p)) ->
  Forall2 (Forall2 R) (map t_team (map tf l)) (map (fun x => update_team P (tf x) (odf x)) l).
Proof.
  induction l as [|x l IH]; intros Hx; cbn [map]; constructor.
  - unfold update_team.
    apply (proj1 (Forall2_map_r (update_player P (tf x) (fst (odf x)) (snd (odf x))) R
                    (t_team (tf x)) (t_team (tf x)))).
    apply Forall2_refl. intros p Hp. apply Hx; [left; reflexivity | exact Hp].
  - apply IH. intros x' Hin. apply Hx. right. exact Hin.
Qed.
End RateAt.

Open Scope R_scope.

(** ** More finiteness facts on binary64 operations *)

(** a finite square root has a finite argument (sqrt(+inf) = +inf, sqrt(x < 0) = NaN) *)
Lemma b64_sqrt_fin_inv (x : binary64) : fin (b64_sqrt mode_NE x) = true -> fin x = true.
Proof.
  change (b64_sqrt mode_NE x) with (Bsqrt 53 1024 Hprec64 Hmax64 unop_nan_pl64 mode_NE x).
  destruct (Bsqrt_correct 53 1024 Hprec64 Hmax64 unop_nan_pl64 mode_NE x) as (_ & HF & _).
  rewrite HF. destruct x as [s|s|s pl H|s m e H]; intros H0; try discriminate H0; reflexivity.
Qed.

(** 1 - a cannot overflow for a finite a >= 0: it rounds into [-a, 1] *)
Lemma b64_one_minus_fin (a : binary64) :
  fin a = true -> 0 <= RV a -> fin (b64_minus mode_NE (b64_of_Z 1) a) = true.
Proof.
  intros Fa Ha.
  change (b64_minus mode_NE (b64_of_Z 1) a)
    with (Bminus 53 1024 Hprec64 Hmax64 binop_nan_pl64 mode_NE (b64_of_Z 1) a).
  pose proof (Bminus_correct 53 1024 Hprec64 Hmax64 binop_nan_pl64 mode_NE (b64_of_Z 1) a b64_one_fin Fa) as H.
  rewrite Rlt_bool_true in H; [apply H|].
  rewrite b64_one_val. change (Rabs (rnd (1 - RV a)) < bpow radix2 1024).
  assert (H1 : rnd (1 - RV a) <= 1) by (apply rnd_le_1; lra).
  assert (H2 : - RV a <= rnd (1 - RV a)).
  { rewrite <- (B2R_Bopp 53 1024 unop_nan_pl64 a). apply rnd_ge_B2R. rewrite B2R_Bopp. lra. }
  pose proof (abs_B2R_lt_emax 53 1024 a) as H3.
  assert (H4 : 1 < bpow radix2 1024) by exact (bpow_lt radix2 0 1024 eq_refl).
  apply Rabs_def2 in H3. apply Rabs_def1; lra.
Qed.

(** a finite quotient of non-negative doubles is >= 0, also when the divisor is infinite
    (x / inf = 0) *)
Lemma b64_div_nonneg_gen (x y : binary64) :
  fin (b64_div mode_NE x y) = true -> 0 <= RV x -> 0 <= RV y -> 0 <= RV (b64_div mode_NE x y).
Proof.
  intros Hf Hx Hy. destruct (fin y) eqn:Fy.
  - pose proof (b64_div_fin_nonzero x y Hf Fy) as Hnz.
    apply b64_div_nonneg; [exact Hf | exact Hx | lra].
  - enough (E : RV (b64_div mode_NE x y) = 0) by (rewrite E; apply Rle_refl).
    revert Hf. unfold b64_div, Bdiv. rewrite is_finite_BSN2B, B2R_BSN2B.
    destruct y as [sy|sy|sy ply Hy0|sy my ey Hy0]; try discriminate Fy;
      destruct x as [sx|sx|sx plx Hx0|sx mx ex Hx0]; cbn; intros H0; try discriminate H0; reflexivity.
Qed.

(** a non-finite double has real value 0 *)
Lemma b64_nonfin_val (x : binary64) : fin x = false -> RV x = 0.
Proof. destruct x as [s|s|s pl H|s m e H]; intros H0; try discriminate H0; reflexivity. Qed.

(** the stand-in [x ** 2 := x * x] of the examples is >= 0 *)
Lemma b64_square_nonneg (x : binary64) : 0 <= RV (b64_mult mode_NE x x).
Proof.
  destruct (fin (b64_mult mode_NE x x)) eqn:Hf.
  - destruct (b64_mult_val x x Hf) as (HR & _). rewrite HR. apply rnd_ge_0.
    apply Rle_0_sqr.
  - rewrite (b64_nonfin_val _ Hf). apply Rle_refl.
Qed.

Lemma b64_abs_nonneg (x : binary64) : 0 <= RV (b64_abs x).
Proof.
  change (0 <= RV (Babs 53 1024 unop_nan_pl64 x)). rewrite B2R_Babs. apply Rabs_pos.
Qed.

(** ** The model on binary64 *)
Section Model.
Variables fe fc fp fi : binary64 -> binary64.
Notation BN := (B64Num fe fc fp fi).

(** the prior sigma is finite when the inflated sigma is *)
Lemma inflate_fin_inv (tau : binary64) (p : rating binary64) :
  fin (r_sigma (@inflate binary64 BN tau p)) = true -> fin (r_sigma p) = true.
Proof.
  intros Hf.
  change (r_sigma (@inflate binary64 BN tau p))
    with (b64_sqrt mode_NE (b64_plus mode_NE (b64_mult mode_NE (r_sigma p) (r_sigma p))
                                             (b64_mult mode_NE tau tau))) in Hf.
  apply b64_sqrt_fin_inv in Hf. destruct (b64_plus_fin_inv _ _ Hf) as (Hm & _).
  exact (proj1 (proj2 (b64_mult_val _ _ Hm))).
Qed.

Lemma inflate_sigma_nonneg (tau : binary64) (p : rating binary64) :
  0 <= RV (r_sigma (@inflate binary64 BN tau p)).
Proof.
  change (r_sigma (@inflate binary64 BN tau p))
    with (b64_sqrt mode_NE (b64_plus mode_NE (b64_mult mode_NE (r_sigma p) (r_sigma p))
                                             (b64_mult mode_NE tau tau))).
  apply b64_sqrt_nonneg.
Qed.

(** the sigma being updated is finite when the updated one is *)
Lemma update_player_sigma_fin_inv (P : params binary64) (ti : trating binary64)
      (omega delta : binary64) (p : rating binary64) :
  fin (r_sigma (@update_player binary64 BN P ti omega delta p)) = true -> fin (r_sigma p) = true.
Proof.
  intros Hf. unfold update_player in Hf. cbv zeta in Hf. cbn [r_sigma set_mu_sigma] in Hf.
  exact (proj1 (proj2 (b64_mult_val _ _ Hf))).
Qed.

(** the team variance [reduce_add (map (sigma ** 2))] is >= 0 when finite *)
Lemma team_ss_nonneg (team : list (rating binary64)) :
  (forall x : binary64, fin x = true -> 0 <= RV (fp x)) ->
  (forall p, In p team -> fin (r_sigma p) = true) ->
  fin (@reduce_add binary64 BN (map (fun p => @fpow2 binary64 BN (r_sigma p)) team)) = true ->
  0 <= RV (@reduce_add binary64 BN (map (fun p => @fpow2 binary64 BN (r_sigma p)) team)).
Proof.
  intros Hpow Fp Hf. destruct team as [|a xs].
  - cbn [map reduce_add]. change (@fzero binary64 BN) with (b64_of_Z 0). rewrite b64_zero_val. apply Rle_refl.
  - cbn [map reduce_add] in *.
    assert (Ha : 0 <= RV (@fpow2 binary64 BN (r_sigma a))) by (exact (Hpow _ (Fp a (or_introl eq_refl)))).
    assert (Hxs : forall y, In y (map (fun p => @fpow2 binary64 BN (r_sigma p)) xs) -> 0 <= RV y).
    { intros y Hy. apply in_map_iff in Hy. destruct Hy as (q & <- & Hq).
      exact (Hpow _ (Fp q (or_intror Hq))). }
    destruct (fold_fadd_ge fe fc fp fi _ _ Hf Ha Hxs) as (H1 & _). lra.
Qed.

(** *** Bradley-Terry: finiteness of the accumulated delta gives finiteness of every prefix *)
Lemma bt_fold_snd_fin_inv (P : params binary64) (trs : list (trating binary64)) (ti : trating binary64)
      (opp : list (trating binary64)) (od : binary64 * binary64) :
  fin (snd (fold_left (@bt_term binary64 BN P trs ti) opp od)) = true -> fin (snd od) = true.
Proof.
  revert od. induction opp as [|tq l IH]; intros od Hf; cbn [fold_left] in Hf; [exact Hf|].
  specialize (IH _ Hf). unfold bt_term in IH. cbv zeta in IH. cbn [snd] in IH.
  exact (proj1 (b64_plus_fin_inv _ _ IH)).
Qed.

Lemma bt_fold_prefix_fin (P : params binary64) (trs : list (trating binary64)) (ti : trating binary64)
      (opp : list (trating binary64)) :
  fin (snd (fold_left (@bt_term binary64 BN P trs ti) opp (@fzero binary64 BN, @fzero binary64 BN))) = true ->
  forall pre post : list (trating binary64), opp = pre ++ post ->
  fin (snd (fold_left (@bt_term binary64 BN P trs ti) pre (@fzero binary64 BN, @fzero binary64 BN))) = true.
Proof.
  intros Hf pre post E. rewrite E, fold_left_app in Hf.
  exact (bt_fold_snd_fin_inv P trs ti post _ Hf).
Qed.

Lemma c_iq_fin_inv (P : params binary64) (ti tq : trating binary64) :
  fin (@c_iq binary64 BN P ti tq) = true -> fin (t_ss ti) = true /\ fin (t_ss tq) = true.
Proof.
  intros Hc.
  change (@c_iq binary64 BN P ti tq)
    with (b64_sqrt mode_NE (b64_plus mode_NE (b64_plus mode_NE (t_ss ti) (t_ss tq))
            (@fmul binary64 BN (@ftwo binary64 BN) (@fpow2 binary64 BN (p_beta P))))) in Hc.
  apply b64_sqrt_fin_inv in Hc. destruct (b64_plus_fin_inv _ _ Hc) as (H1 & _).
  exact (b64_plus_fin_inv _ _ H1).
Qed.

(** a finite [c_iq] that divides to a finite quotient is > 0 *)
Lemma c_iq_pos (P : params binary64) (ti tq : trating binary64) (x : binary64) :
  fin (@c_iq binary64 BN P ti tq) = true ->
  fin (@fdiv binary64 BN x (@c_iq binary64 BN P ti tq)) = true ->
  0 < RV (@c_iq binary64 BN P ti tq).
Proof.
  intros Fc Fa. pose proof (b64_div_fin_nonzero _ _ Fa Fc) as Hnz.
  assert (H0 : 0 <= RV (@c_iq binary64 BN P ti tq)).
  { change (@c_iq binary64 BN P ti tq)
      with (b64_sqrt mode_NE (b64_plus mode_NE (b64_plus mode_NE (t_ss ti) (t_ss tq))
              (@fmul binary64 BN (@ftwo binary64 BN) (@fpow2 binary64 BN (p_beta P))))).
    apply b64_sqrt_nonneg. }
  lra.
Qed.

(** *** one player of one team, Bradley-Terry, any non-empty opponent list *)
Lemma bt_team_sigma_le_b64 (P : params binary64) (trs : list (trating binary64))
      (ti : trating binary64) (opp : list (trating binary64)) (p : rating binary64) :
  (forall x : binary64, fin x = true -> 0 <= RV (fe x)) ->
  (forall x : binary64, fin x = true -> 0 <= RV (fp x)) ->
  fin (p_kappa P) = true -> 0 <= RV (p_kappa P) <= 1 ->
  opp <> [] ->
  0 <= RV (r_sigma p) ->
  (fin (t_ss ti) = true -> 0 <= RV (t_ss ti)) ->
  (forall tq : trating binary64, In tq opp ->
     0 <= RV (@gamma_of binary64 P (@c_iq binary64 BN P ti tq) trs ti)
     /\ fin (@c_iq binary64 BN P ti tq) = true
     /\ fin (@fdiv binary64 BN (@fsub binary64 BN (t_mu tq) (t_mu ti)) (@c_iq binary64 BN P ti tq)) = true
     /\ fin (@fadd binary64 BN (@fone binary64 BN)
               (fe (@fdiv binary64 BN (@fsub binary64 BN (t_mu tq) (t_mu ti)) (@c_iq binary64 BN P ti tq)))) = true) ->
  fin (@fmul binary64 BN (@fdiv binary64 BN (@fpow2 binary64 BN (r_sigma p)) (t_ss ti))
         (snd (fold_left (@bt_term binary64 BN P trs ti) opp (@fzero binary64 BN, @fzero binary64 BN)))) = true ->
  fin (r_sigma (@update_player binary64 BN P ti
         (fst (fold_left (@bt_term binary64 BN P trs ti) opp (@fzero binary64 BN, @fzero binary64 BN)))
         (snd (fold_left (@bt_term binary64 BN P trs ti) opp (@fzero binary64 BN, @fzero binary64 BN))) p)) = true ->
  fin (r_sigma p) = true
  /\ 0 <= RV (r_sigma (@update_player binary64 BN P ti
         (fst (fold_left (@bt_term binary64 BN P trs ti) opp (@fzero binary64 BN, @fzero binary64 BN)))
         (snd (fold_left (@bt_term binary64 BN P trs ti) opp (@fzero binary64 BN, @fzero binary64 BN))) p))
     <= RV (r_sigma p).
Proof.
  intros Hexp Hpow Fk Hk Hne Hs Hss Hpair Fsd Fres.
  assert (Ftss : fin (t_ss ti) = true).
  { destruct opp as [|tq0 l]; [congruence|].
    destruct (Hpair tq0 (or_introl eq_refl)) as (_ & Fc & _).
    exact (proj1 (c_iq_fin_inv P ti tq0 Fc)). }
  set (od := fold_left (@bt_term binary64 BN P trs ti) opp (@fzero binary64 BN, @fzero binary64 BN)) in *.
  pose proof (update_player_sigma_fin_inv P ti (fst od) (snd od) p Fres) as Fs.
  destruct (b64_mult_val _ _ Fsd) as (_ & Fsh & Fd).
  assert (Hd : 0 <= RV (snd od)).
  { apply (bt_delta_nonneg_b64 fe fc fp fi P trs ti opp Hexp (Hss Ftss)).
    - intros tq Hq. destruct (Hpair tq Hq) as (Hg & Fc & Fa & F1e).
      split; [exact (c_iq_pos P ti tq _ Fc Fa)|]. repeat split; assumption.
    - apply bt_fold_prefix_fin. exact Fd. }
  pose proof (b64_div_fin_nonzero _ _ Fsh Ftss) as Hnz.
  pose proof (Hss Ftss) as Hss0.
  assert (Hsh : 0 <= RV (@fdiv binary64 BN (@fpow2 binary64 BN (r_sigma p)) (t_ss ti))).
  { apply b64_div_nonneg; [exact Fsh | exact (Hpow _ Fs) | lra]. }
  pose proof (b64_mult_nonneg _ _ Fsd Hsh Hd) as Hsd.
  pose proof (b64_one_minus_fin _ Fsd Hsd) as Fom.
  split; [exact Fs|].
  exact (update_player_sigma_le_b64 fe fc fp fi P ti (fst od) (snd od) p Hs Hsh Hd Fk Hk Fsd Fom Fres).
Qed.

(** *** the whole [compute] for BTF / BTP *)
Definition bt_opps (k : kind) (trs : list (trating binary64)) : list (trating binary64 * list (trating binary64)) :=
  match k with BTF => opponents_full trs | _ => opponents_part trs end.

Definition bt_rel (p r : rating binary64) : Prop :=
  fin (r_sigma p) = true /\ fin (r_sigma r) = true /\ 0 <= RV (r_sigma r) <= RV (r_sigma p).

Lemma compute_bt_sigma_le_gen (k : kind) (P : params binary64) (trs : list (trating binary64)) :
  k = BTF \/ k = BTP ->
  (forall x : binary64, fin x = true -> 0 <= RV (fe x)) ->
  (forall x : binary64, fin x = true -> 0 <= RV (fp x)) ->
  fin (p_kappa P) = true -> 0 <= RV (p_kappa P) <= 1 ->
  (2 <= length trs)%nat ->
  (forall ti, In ti trs -> forall p, In p (t_team ti) -> 0 <= RV (r_sigma p)) ->
  (forall ti, In ti trs -> fin (t_ss ti) = true ->
     (forall p, In p (t_team ti) -> fin (r_sigma p) = true) -> 0 <= RV (t_ss ti)) ->
  (forall ti opp, In (ti, opp) (bt_opps k trs) -> forall tq : trating binary64, In tq opp ->
     0 <= RV (@gamma_of binary64 P (@c_iq binary64 BN P ti tq) trs ti)
     /\ fin (@c_iq binary64 BN P ti tq) = true
     /\ fin (@fdiv binary64 BN (@fsub binary64 BN (t_mu tq) (t_mu ti)) (@c_iq binary64 BN P ti tq)) = true
     /\ fin (@fadd binary64 BN (@fone binary64 BN)
               (fe (@fdiv binary64 BN (@fsub binary64 BN (t_mu tq) (t_mu ti)) (@c_iq binary64 BN P ti tq)))) = true) ->
  (forall ti opp, In (ti, opp) (bt_opps k trs) -> forall p, In p (t_team ti) ->
     fin (@fmul binary64 BN (@fdiv binary64 BN (@fpow2 binary64 BN (r_sigma p)) (t_ss ti))
            (snd (fold_left (@bt_term binary64 BN P trs ti) opp (@fzero binary64 BN, @fzero binary64 BN)))) = true) ->
  (forall res, In res (@compute binary64 BN k P trs) -> forall r, In r res -> fin (r_sigma r) = true) ->
  Forall2 (Forall2 bt_rel) (map t_team trs) (@compute binary64 BN k P trs).
Proof.
  intros Hkind Hexp Hpow Fk Hk Hlen Hsig Hss Hpair Hsd Hres.
  assert (Ecomp : @compute binary64 BN k P trs
                  = @compute_pairs binary64 BN (@bt_term binary64 BN P trs) (bt_opps k trs) P)
    by (destruct Hkind as [->| ->]; reflexivity).
  assert (Efst : map fst (bt_opps k trs) = trs).
  { destruct Hkind as [->| ->]; cbn [bt_opps].
    - apply rows_fst.
    - unfold opponents_part. apply combine_map_fst. now rewrite ladder_pairs_length. }
  assert (Hopp : forall io, In io (bt_opps k trs) -> In (fst io) trs /\ snd io <> []).
  { destruct Hkind as [->| ->]; cbn [bt_opps]; intros io Hio.
    - split; [exact (proj1 (C06L.rows_in trs io Hio)) | exact (rows_snd_nonempty trs io Hlen Hio)].
    - split; [exact (proj1 (C06L.opponents_part_in trs io Hio))|].
      apply (ladder_aux_nonempty None trs io); [right; exact Hlen | exact Hio]. }
  rewrite Ecomp in *. rewrite <- Efst at 1. apply compute_pairs_pointwise.
  intros [ti opp] Hio p Hp. cbn [fst snd] in *.
  destruct (Hopp _ Hio) as (Hti & Hne). cbn [fst snd] in Hti, Hne.
  set (od := fold_left (@bt_term binary64 BN P trs ti) opp (@fzero binary64 BN, @fzero binary64 BN)).
  assert (Fresq : forall q, In q (t_team ti) ->
             fin (r_sigma (@update_player binary64 BN P ti (fst od) (snd od) q)) = true).
  { intros q Hq. apply (Hres (@update_team binary64 BN P ti od)).
    - unfold compute_pairs.
      exact (in_map (fun io => @update_team binary64 BN P (fst io)
                (fold_left (@bt_term binary64 BN P trs (fst io)) (snd io) (@fzero binary64 BN, @fzero binary64 BN)))
               _ (ti, opp) Hio).
    - unfold update_team. apply in_map. exact Hq. }
  assert (Fq : forall q, In q (t_team ti) -> fin (r_sigma q) = true).
  { intros q Hq. exact (update_player_sigma_fin_inv P ti _ _ q (Fresq q Hq)). }
  destruct (bt_team_sigma_le_b64 P trs ti opp p Hexp Hpow Fk Hk Hne (Hsig ti Hti p Hp)
              (fun Ft => Hss ti Hti Ft Fq) (Hpair ti opp Hio) (Hsd ti opp Hio p Hp) (Fresq p Hp)) as (Fs & Hb).
  split; [exact Fs|]. split; [exact (Fresq p Hp) | exact Hb].
Qed.

(** the compute-level statement: [trs] arbitrary team ratings with >= 2 teams *)
Theorem compute_bt_sigma_le_b64 (k : kind) (P : params binary64) (trs : list (trating binary64)) :
  k = BTF \/ k = BTP ->
  (forall x : binary64, fin x = true -> 0 <= RV (fe x)) ->
  (forall x : binary64, fin x = true -> 0 <= RV (fp x)) ->
  fin (p_kappa P) = true -> 0 <= RV (p_kappa P) <= 1 ->
  (2 <= length trs)%nat ->
  (forall ti, In ti trs -> 0 <= RV (t_ss ti)) ->
  (forall ti, In ti trs -> forall p, In p (t_team ti) -> 0 <= RV (r_sigma p)) ->
  forall opps : list (trating binary64 * list (trating binary64)),
  opps = match k with BTF => @opponents_full binary64 trs | _ => @opponents_part binary64 trs end ->
  (forall ti opp, In (ti, opp) opps -> forall tq : trating binary64, In tq opp ->
     0 <= RV (@gamma_of binary64 P (@c_iq binary64 BN P ti tq) trs ti)
     /\ fin (@c_iq binary64 BN P ti tq) = true
     /\ fin (@fdiv binary64 BN (@fsub binary64 BN (t_mu tq) (t_mu ti)) (@c_iq binary64 BN P ti tq)) = true
     /\ fin (@fadd binary64 BN (@fone binary64 BN)
               (fe (@fdiv binary64 BN (@fsub binary64 BN (t_mu tq) (t_mu ti)) (@c_iq binary64 BN P ti tq)))) = true) ->
  (forall ti opp, In (ti, opp) opps -> forall p, In p (t_team ti) ->
     fin (@fmul binary64 BN (@fdiv binary64 BN (@fpow2 binary64 BN (r_sigma p)) (t_ss ti))
            (snd (fold_left (@bt_term binary64 BN P trs ti) opp (@fzero binary64 BN, @fzero binary64 BN)))) = true) ->
  (forall res, In res (@compute binary64 BN k P trs) -> forall r, In r res -> fin (r_sigma r) = true) ->
  Forall2 (Forall2 (fun p r : rating binary64 =>
      fin (r_sigma p) = true /\ fin (r_sigma r) = true /\ 0 <= RV (r_sigma r) <= RV (r_sigma p)))
    (map t_team trs) (@compute binary64 BN k P trs).
Proof.
  intros Hkind Hexp Hpow Fk Hk Hlen Hss Hsig opps -> Hpair Hsd Hres.
  apply (compute_bt_sigma_le_gen k P trs); try assumption.
  intros ti Hti _ _. apply Hss. exact Hti.
Qed.

(** *** lifting to [rate_core]: from [compute] on the team ratings [rate_sorted] builds, through
    the unsorting and the clamp of [limit_sigma] *)
Lemma rate_lift_b64 (k : kind) (P : params binary64) (tau : binary64) (limit : bool)
      (teams : list (list (rating binary64))) (keys : option (list key)) :
  match keys with Some ks => length ks = length teams | None => True end ->
  (forall x : binary64, fin x = true -> 0 <= RV (fp x)) ->
  (forall t, In t teams -> forall p, In p t -> 0 <= RV (r_sigma p)) ->
  ((forall ti, In ti (@rate_trs binary64 BN (map (map (@inflate binary64 BN tau)) teams) keys) ->
      forall p, In p (t_team ti) -> 0 <= RV (r_sigma p)) ->
   (forall ti, In ti (@rate_trs binary64 BN (map (map (@inflate binary64 BN tau)) teams) keys) ->
      fin (t_ss ti) = true -> (forall p, In p (t_team ti) -> fin (r_sigma p) = true) -> 0 <= RV (t_ss ti)) ->
   Forall2 (Forall2 bt_rel)
     (map t_team (@rate_trs binary64 BN (map (map (@inflate binary64 BN tau)) teams) keys))
     (@compute binary64 BN k P (@rate_trs binary64 BN (map (map (@inflate binary64 BN tau)) teams) keys))) ->
  Forall2 (Forall2 (fun p r : rating binary64 =>
      fin (r_sigma r) = true
      /\ 0 <= RV (r_sigma r) <= RV (r_sigma (@inflate binary64 BN tau p))
      /\ (limit = true -> RV (r_sigma r) <= RV (r_sigma p))))
    teams (@rate_core binary64 BN k P tau limit teams keys).
Proof.
  intros E Hpow Hprior Hcomp.
  set (infl := map (map (@inflate binary64 BN tau)) teams) in *.
  assert (E' : match keys with Some ks => length ks = length infl | None => True end).
  { unfold infl. rewrite map_length. exact E. }
  assert (Hc : Forall2 (Forall2 bt_rel) (map t_team (@rate_trs binary64 BN infl keys))
                 (@compute binary64 BN k P (@rate_trs binary64 BN infl keys))).
  { apply Hcomp.
    - intros ti Hti p Hp. destruct (rate_trs_in infl keys ti Hti) as (Hin & _).
      unfold infl in Hin. apply in_map_iff in Hin. destruct Hin as (t0 & Et & _).
      rewrite <- Et in Hp. apply in_map_iff in Hp. destruct Hp as (p0 & <- & _).
      apply inflate_sigma_nonneg.
    - intros ti Hti Ft Fp. destruct (rate_trs_in infl keys ti Hti) as (_ & Ess).
      rewrite Ess in Ft |- *. apply team_ss_nonneg; assumption. }
  pose proof (rate_sorted_pointwise_at k P infl keys (Forall2 bt_rel) E' Hc) as H0.
  assert (H1 : Forall2 (fun t r => In t teams /\ Forall2 (fun p q => In p t /\ bt_rel (@inflate binary64 BN tau p) q) t r)
                 teams (@rate_sorted binary64 BN k P infl keys)).
  { unfold infl in H0. apply Forall2_map_l in H0. apply Forall2_In_l in H0.
    eapply Forall2_weaken; [|exact H0]. intros t r [Ht Hr]. cbn beta in *. split; [exact Ht|].
    apply Forall2_map_l in Hr. apply Forall2_In_l in Hr. exact Hr. }
  unfold rate_core. fold infl. destruct limit.
  - unfold clamp.
    apply (C06L.Forall2_combine_map
             (fun t r => In t teams /\ Forall2 (fun p q => In p t /\ bt_rel (@inflate binary64 BN tau p) q) t r)
             (Forall2 (fun p r : rating binary64 =>
                fin (r_sigma r) = true
                /\ 0 <= RV (r_sigma r) <= RV (r_sigma (@inflate binary64 BN tau p))
                /\ (true = true -> RV (r_sigma r) <= RV (r_sigma p))))
             (fun t r => map (fun pp => @clamp_player binary64 BN (fst pp) (snd pp)) (combine t r)));
      [|exact H1].
    intros t r [Ht Htr].
    apply (C06L.Forall2_combine_map
             (fun p q => In p t /\ bt_rel (@inflate binary64 BN tau p) q)
             (fun p r : rating binary64 =>
                fin (r_sigma r) = true
                /\ 0 <= RV (r_sigma r) <= RV (r_sigma (@inflate binary64 BN tau p))
                /\ (true = true -> RV (r_sigma r) <= RV (r_sigma p)))
             (@clamp_player binary64 BN)); [|exact Htr].
    intros p q [Hp (Fi & Fq & Hq0 & Hq1)].
    pose proof (inflate_fin_inv tau p Fi) as Fp.
    destruct (clamp_player_sigma_le_b64 fe fc fp fi p q Fp Fq) as (Fc & Hc1 & Hc2).
    split; [exact Fc|]. split; [split; [|lra]|intros _; exact Hc1].
    unfold clamp_player. destruct (@fleb binary64 BN (r_sigma q) (r_sigma p)).
    + exact Hq0.
    + cbn [set_sigma set_mu_sigma r_sigma]. exact (Hprior t Ht p Hp).
  - eapply Forall2_weaken; [|exact H1]. intros t r [_ Htr]. cbn beta in *.
    eapply Forall2_weaken; [|exact Htr]. intros p q [_ (Fi & Fq & Hq)].
    split; [exact Fq|]. split; [exact Hq|]. intros Hf; discriminate Hf.
Qed.

Theorem rate_bt_sigma_le_b64 (k : kind) (P : params binary64) (tau : binary64) (limit : bool)
        (teams : list (list (rating binary64))) (keys : option (list key)) :
  k = BTF \/ k = BTP ->
  match keys with Some ks => length ks = length teams | None => True end ->
  (2 <= length teams)%nat ->
  (forall x : binary64, fin x = true -> 0 <= RV (fe x)) ->
  (forall x : binary64, fin x = true -> 0 <= RV (fp x)) ->
  fin (p_kappa P) = true -> 0 <= RV (p_kappa P) <= 1 ->
  (forall t, In t teams -> forall p, In p t -> 0 <= RV (r_sigma p)) ->
  forall trs : list (trating binary64),
  trs = match keys with
        | None => @team_ratings binary64 BN (map (map (@inflate binary64 BN tau)) teams)
                    (seq 0 (length (map (map (@inflate binary64 BN tau)) teams)))
        | Some ks => @team_ratings binary64 BN
                       (fst (unwind key_leb ks (map (map (@inflate binary64 BN tau)) teams)))
                       (calc_rankings key_ltb (isort key_leb ks))
        end ->
  forall opps : list (trating binary64 * list (trating binary64)),
  opps = match k with BTF => @opponents_full binary64 trs | _ => @opponents_part binary64 trs end ->
  (forall ti opp, In (ti, opp) opps -> forall tq : trating binary64, In tq opp ->
     0 <= RV (@gamma_of binary64 P (@c_iq binary64 BN P ti tq) trs ti)
     /\ fin (@c_iq binary64 BN P ti tq) = true
     /\ fin (@fdiv binary64 BN (@fsub binary64 BN (t_mu tq) (t_mu ti)) (@c_iq binary64 BN P ti tq)) = true
     /\ fin (@fadd binary64 BN (@fone binary64 BN)
               (fe (@fdiv binary64 BN (@fsub binary64 BN (t_mu tq) (t_mu ti)) (@c_iq binary64 BN P ti tq)))) = true) ->
  (forall ti opp, In (ti, opp) opps -> forall p, In p (t_team ti) ->
     fin (@fmul binary64 BN (@fdiv binary64 BN (@fpow2 binary64 BN (r_sigma p)) (t_ss ti))
            (snd (fold_left (@bt_term binary64 BN P trs ti) opp (@fzero binary64 BN, @fzero binary64 BN)))) = true) ->
  (forall res, In res (@compute binary64 BN k P trs) -> forall r, In r res -> fin (r_sigma r) = true) ->
  Forall2 (Forall2 (fun p r : rating binary64 =>
      fin (r_sigma r) = true
      /\ 0 <= RV (r_sigma r) <= RV (r_sigma (@inflate binary64 BN tau p))
      /\ (limit = true -> RV (r_sigma r) <= RV (r_sigma p))))
    teams (@rate_core binary64 BN k P tau limit teams keys).
Proof.
  intros Hkind E Hlen Hexp Hpow Fk Hk Hprior trs Etrs opps -> Hpair Hsd Hres.
  change (trs = @rate_trs binary64 BN (map (map (@inflate binary64 BN tau)) teams) keys) in Etrs. subst trs.
  apply rate_lift_b64; try assumption.
  intros Hsig Hss.
  apply (compute_bt_sigma_le_gen k P); try assumption.
  rewrite rate_trs_length; rewrite map_length; assumption.
Qed.

(** *** Plackett-Luce *)
Definition pl_qs (trs : list (trating binary64)) (c : binary64) : list (nat * (trating binary64 * (binary64 * nat))) :=
  combine (seq 0 (length trs)) (combine trs (combine (@pl_sum_q binary64 BN trs c) (@pl_a binary64 trs))).

Lemma fold_fadd_g_fin_inv {A : Type} (g : A -> binary64) (l : list A) (a : binary64) :
  fin (fold_left (fun acc t => @fadd binary64 BN acc (g t)) l a) = true ->
  fin a = true /\ forall t, In t l -> fin (g t) = true.
Proof.
  revert a. induction l as [|y ys IH]; intros a Hf; cbn [fold_left] in Hf.
  - split; [exact Hf | intros t []].
  - destruct (IH _ Hf) as (Fa' & Fys).
    change (@fadd binary64 BN a (g y)) with (b64_plus mode_NE a (g y)) in Fa'.
    destruct (b64_plus_fin_inv _ _ Fa') as (Fa & Fy).
    split; [exact Fa|]. intros z [<-|Hz]; [exact Fy | apply Fys; exact Hz].
Qed.

Lemma pl_c_fin_inv (P : params binary64) (trs : list (trating binary64)) :
  fin (@pl_c binary64 BN P trs) = true -> forall t, In t trs -> fin (t_ss t) = true.
Proof.
  intros Hc t Ht.
  change (@pl_c binary64 BN P trs)
    with (b64_sqrt mode_NE (fold_left (fun acc t => @fadd binary64 BN acc
             (@fadd binary64 BN (t_ss t) (@fpow2 binary64 BN (p_beta P)))) trs (@fzero binary64 BN))) in Hc.
  apply b64_sqrt_fin_inv in Hc.
  destruct (fold_fadd_g_fin_inv (fun t => @fadd binary64 BN (t_ss t) (@fpow2 binary64 BN (p_beta P))) _ _ Hc) as (_ & H1).
  specialize (H1 t Ht). cbn beta in H1.
  exact (proj1 (b64_plus_fin_inv _ _ H1)).
Qed.

Lemma pl_fold_snd_fin_inv (i : nat) (ti : trating binary64) (e : binary64)
      (qs : list (nat * (trating binary64 * (binary64 * nat)))) (od : binary64 * binary64) :
  fin (snd (fold_left (@pl_step binary64 BN i ti e) qs od)) = true -> fin (snd od) = true.
Proof.
  revert od. induction qs as [|qt l IH]; intros od Hf; cbn [fold_left] in Hf; [exact Hf|].
  specialize (IH _ Hf). unfold pl_step in IH. cbv zeta in IH.
  destruct (Nat.leb (t_rank (fst (snd qt))) (t_rank ti)); [|exact IH].
  cbn [snd] in IH. exact (proj1 (b64_plus_fin_inv _ _ IH)).
Qed.

Lemma pl_fold_prefix_fin (i : nat) (ti : trating binary64) (e : binary64)
      (qs : list (nat * (trating binary64 * (binary64 * nat)))) :
  fin (snd (fold_left (@pl_step binary64 BN i ti e) qs (@fzero binary64 BN, @fzero binary64 BN))) = true ->
  forall pre post, qs = pre ++ post ->
  fin (snd (fold_left (@pl_step binary64 BN i ti e) pre (@fzero binary64 BN, @fzero binary64 BN))) = true.
Proof.
  intros Hf pre post E. rewrite E, fold_left_app in Hf.
  exact (pl_fold_snd_fin_inv i ti e post _ Hf).
Qed.

(** one player of one team *)
Lemma pl_team_sigma_le_b64 (P : params binary64) (trs : list (trating binary64)) (c : binary64)
      (i : nat) (ti : trating binary64) (p : rating binary64) :
  (forall x : binary64, fin x = true -> 0 <= RV (fe x)) ->
  (forall x : binary64, fin x = true -> 0 <= RV (fp x)) ->
  fin (p_kappa P) = true -> 0 <= RV (p_kappa P) <= 1 ->
  In ti trs ->
  (Z.of_nat (length trs) <= 9007199254740992)%Z ->
  0 <= RV (r_sigma p) ->
  fin (t_ss ti) = true -> 0 <= RV (t_ss ti) ->
  fin c = true ->
  0 <= RV (@gamma_of binary64 P c trs ti) ->
  (forall t, In t trs -> fin (@fdiv binary64 BN (t_mu t) c) = true) ->
  (forall s, In s (@pl_sum_q binary64 BN trs c) -> fin s = true) ->
  fin (@fmul binary64 BN (@fdiv binary64 BN (@fpow2 binary64 BN (r_sigma p)) (t_ss ti))
         (snd (@pl_omega_delta binary64 BN P trs c (pl_qs trs c) i ti))) = true ->
  fin (r_sigma (@update_player binary64 BN P ti
         (fst (@pl_omega_delta binary64 BN P trs c (pl_qs trs c) i ti))
         (snd (@pl_omega_delta binary64 BN P trs c (pl_qs trs c) i ti)) p)) = true ->
  fin (r_sigma p) = true
  /\ 0 <= RV (r_sigma (@update_player binary64 BN P ti
         (fst (@pl_omega_delta binary64 BN P trs c (pl_qs trs c) i ti))
         (snd (@pl_omega_delta binary64 BN P trs c (pl_qs trs c) i ti)) p))
     <= RV (r_sigma p).
Proof.
  intros Hexp Hpow Fk Hk Hti Hlen Hs Ftss Hss Fc Hg Farg Fsum Fsd Fres.
  unfold pl_qs in *.
  set (qs := combine (seq 0 (length trs)) (combine trs (combine (@pl_sum_q binary64 BN trs c) (@pl_a binary64 trs)))) in *.
  pose proof (update_player_sigma_fin_inv P ti _ _ p Fres) as Fs.
  destruct (b64_mult_val _ _ Fsd) as (_ & Fsh & Fd).
  assert (Hd : 0 <= RV (snd (@pl_omega_delta binary64 BN P trs c qs i ti))).
  { pose proof Fd as Fd'. unfold pl_omega_delta in Fd'. cbv zeta in Fd'. cbn [snd] in Fd'.
    destruct (b64_mult_val _ _ Fd') as (_ & Fdf & _).
    destruct (b64_mult_val _ _ Fdf) as (_ & Fsd0 & Ffac).
    apply (pl_delta_nonneg_b64 fe fc fp fi P trs c i ti Hexp Hti Hlen).
    - apply b64_div_nonneg_gen; [exact Ffac | exact Hss | exact (Hpow _ Fc)].
    - exact Hg.
    - exact Farg.
    - exact Fsum.
    - apply pl_fold_prefix_fin. exact Fsd0.
    - exact Fd. }
  pose proof (b64_div_fin_nonzero _ _ Fsh Ftss) as Hnz.
  assert (Hsh : 0 <= RV (@fdiv binary64 BN (@fpow2 binary64 BN (r_sigma p)) (t_ss ti))).
  { apply b64_div_nonneg; [exact Fsh | exact (Hpow _ Fs) | lra]. }
  pose proof (b64_mult_nonneg _ _ Fsd Hsh Hd) as Hsd.
  pose proof (b64_one_minus_fin _ Fsd Hsd) as Fom.
  split; [exact Fs|].
  exact (update_player_sigma_le_b64 fe fc fp fi P ti _ _ p Hs Hsh Hd Fk Hk Fsd Fom Fres).
Qed.

Lemma compute_pl_sigma_le_gen (P : params binary64) (trs : list (trating binary64)) :
  (forall x : binary64, fin x = true -> 0 <= RV (fe x)) ->
  (forall x : binary64, fin x = true -> 0 <= RV (fp x)) ->
  fin (p_kappa P) = true -> 0 <= RV (p_kappa P) <= 1 ->
  (Z.of_nat (length trs) <= 9007199254740992)%Z ->
  (forall ti, In ti trs -> forall p, In p (t_team ti) -> 0 <= RV (r_sigma p)) ->
  (forall ti, In ti trs -> fin (t_ss ti) = true ->
     (forall p, In p (t_team ti) -> fin (r_sigma p) = true) -> 0 <= RV (t_ss ti)) ->
  fin (@pl_c binary64 BN P trs) = true ->
  (forall ti, In ti trs ->
     0 <= RV (@gamma_of binary64 P (@pl_c binary64 BN P trs) trs ti)
     /\ fin (@fdiv binary64 BN (t_mu ti) (@pl_c binary64 BN P trs)) = true) ->
  (forall s, In s (@pl_sum_q binary64 BN trs (@pl_c binary64 BN P trs)) -> fin s = true) ->
  (forall i ti sq a, In (i, (ti, (sq, a))) (pl_qs trs (@pl_c binary64 BN P trs)) ->
   forall p, In p (t_team ti) ->
     fin (@fmul binary64 BN (@fdiv binary64 BN (@fpow2 binary64 BN (r_sigma p)) (t_ss ti))
            (snd (@pl_omega_delta binary64 BN P trs (@pl_c binary64 BN P trs)
                    (pl_qs trs (@pl_c binary64 BN P trs)) i ti))) = true) ->
  (forall res, In res (@compute binary64 BN PL P trs) -> forall r, In r res -> fin (r_sigma r) = true) ->
  Forall2 (Forall2 bt_rel) (map t_team trs) (@compute binary64 BN PL P trs).
Proof.
  intros Hexp Hpow Fk Hk Hlen Hsig Hss Fc Hteam Fsum Hsd Hres.
  cbn [compute] in *. unfold compute_pl in *. cbv zeta in *.
  fold (pl_qs trs (@pl_c binary64 BN P trs)) in *.
  set (c := @pl_c binary64 BN P trs) in *.
  assert (E : map (fun it : nat * (trating binary64 * (binary64 * nat)) => fst (snd it)) (pl_qs trs c) = trs).
  { unfold pl_qs. rewrite <- (map_map snd fst). rewrite combine_map_snd.
    - apply combine_map_fst. unfold pl_sum_q, pl_a. rewrite combine_length, !map_length. lia.
    - unfold pl_sum_q, pl_a. rewrite seq_length, !combine_length, !map_length. lia. }
  set (qs := pl_qs trs c) in *.
  rewrite <- E at 1.
  apply (map_update_pointwise qs (fun it => fst (snd it))
           (fun it => @pl_omega_delta binary64 BN P trs c qs (fst it) (fst (snd it))) P bt_rel).
  intros [i [ti [sq a]]] Hit p Hp. cbn [fst snd] in *.
  assert (Hti : In ti trs).
  { unfold qs, pl_qs in Hit. apply in_combine_r in Hit. apply in_combine_l in Hit. exact Hit. }
  set (od := @pl_omega_delta binary64 BN P trs c qs i ti).
  assert (Fresq : forall q, In q (t_team ti) ->
             fin (r_sigma (@update_player binary64 BN P ti (fst od) (snd od) q)) = true).
  { intros q Hq. apply (Hres (@update_team binary64 BN P ti od)).
    - exact (in_map (fun it : nat * (trating binary64 * (binary64 * nat)) =>
                @update_team binary64 BN P (fst (snd it))
                  (@pl_omega_delta binary64 BN P trs c qs (fst it) (fst (snd it))))
               qs (i, (ti, (sq, a))) Hit).
    - unfold update_team. apply in_map. exact Hq. }
  assert (Fq : forall q, In q (t_team ti) -> fin (r_sigma q) = true).
  { intros q Hq. exact (update_player_sigma_fin_inv P ti _ _ q (Fresq q Hq)). }
  pose proof (pl_c_fin_inv P trs Fc ti Hti) as Ftss.
  destruct (pl_team_sigma_le_b64 P trs c i ti p Hexp Hpow Fk Hk Hti Hlen (Hsig ti Hti p Hp)
              Ftss (Hss ti Hti Ftss Fq) Fc (proj1 (Hteam ti Hti))
              (fun t Ht => proj2 (Hteam t Ht)) Fsum (Hsd i ti sq a Hit p Hp) (Fresq p Hp)) as (Fs & Hb).
  split; [exact Fs|]. split; [exact (Fresq p Hp) | exact Hb].
Qed.

Theorem compute_pl_sigma_le_b64 (P : params binary64) (trs : list (trating binary64)) :
  (forall x : binary64, fin x = true -> 0 <= RV (fe x)) ->
  (forall x : binary64, fin x = true -> 0 <= RV (fp x)) ->
  fin (p_kappa P) = true -> 0 <= RV (p_kappa P) <= 1 ->
  (Z.of_nat (length trs) <= 9007199254740992)%Z ->
  (forall ti, In ti trs -> 0 <= RV (t_ss ti)) ->
  (forall ti, In ti trs -> forall p, In p (t_team ti) -> 0 <= RV (r_sigma p)) ->
  forall c : binary64, c = @pl_c binary64 BN P trs ->
  forall qs : list (nat * (trating binary64 * (binary64 * nat))),
  qs = combine (seq 0 (length trs)) (combine trs (combine (@pl_sum_q binary64 BN trs c) (@pl_a binary64 trs))) ->
  fin c = true ->
  (forall ti, In ti trs ->
     0 <= RV (@gamma_of binary64 P c trs ti) /\ fin (@fdiv binary64 BN (t_mu ti) c) = true) ->
  (forall s, In s (@pl_sum_q binary64 BN trs c) -> fin s = true) ->
  (forall i ti sq a, In (i, (ti, (sq, a))) qs -> forall p, In p (t_team ti) ->
     fin (@fmul binary64 BN (@fdiv binary64 BN (@fpow2 binary64 BN (r_sigma p)) (t_ss ti))
            (snd (@pl_omega_delta binary64 BN P trs c qs i ti))) = true) ->
  (forall res, In res (@compute binary64 BN PL P trs) -> forall r, In r res -> fin (r_sigma r) = true) ->
  Forall2 (Forall2 (fun p r : rating binary64 =>
      fin (r_sigma p) = true /\ fin (r_sigma r) = true /\ 0 <= RV (r_sigma r) <= RV (r_sigma p)))
    (map t_team trs) (@compute binary64 BN PL P trs).
Proof.
  intros Hexp Hpow Fk Hk Hlen Hss Hsig c -> qs -> Fc Hteam Fsum Hsd Hres.
  apply (compute_pl_sigma_le_gen P trs); try assumption.
  intros ti Hti _ _. apply Hss. exact Hti.
Qed.

Theorem rate_pl_sigma_le_b64 (P : params binary64) (tau : binary64) (limit : bool)
        (teams : list (list (rating binary64))) (keys : option (list key)) :
  match keys with Some ks => length ks = length teams | None => True end ->
  (Z.of_nat (length teams) <= 9007199254740992)%Z ->
  (forall x : binary64, fin x = true -> 0 <= RV (fe x)) ->
  (forall x : binary64, fin x = true -> 0 <= RV (fp x)) ->
  fin (p_kappa P) = true -> 0 <= RV (p_kappa P) <= 1 ->
  (forall t, In t teams -> forall p, In p t -> 0 <= RV (r_sigma p)) ->
  forall trs : list (trating binary64),
  trs = match keys with
        | None => @team_ratings binary64 BN (map (map (@inflate binary64 BN tau)) teams)
                    (seq 0 (length (map (map (@inflate binary64 BN tau)) teams)))
        | Some ks => @team_ratings binary64 BN
                       (fst (unwind key_leb ks (map (map (@inflate binary64 BN tau)) teams)))
                       (calc_rankings key_ltb (isort key_leb ks))
        end ->
  forall c : binary64, c = @pl_c binary64 BN P trs ->
  forall qs : list (nat * (trating binary64 * (binary64 * nat))),
  qs = combine (seq 0 (length trs)) (combine trs (combine (@pl_sum_q binary64 BN trs c) (@pl_a binary64 trs))) ->
  fin c = true ->
  (forall ti, In ti trs ->
     0 <= RV (@gamma_of binary64 P c trs ti) /\ fin (@fdiv binary64 BN (t_mu ti) c) = true) ->
  (forall s, In s (@pl_sum_q binary64 BN trs c) -> fin s = true) ->
  (forall i ti sq a, In (i, (ti, (sq, a))) qs -> forall p, In p (t_team ti) ->
     fin (@fmul binary64 BN (@fdiv binary64 BN (@fpow2 binary64 BN (r_sigma p)) (t_ss ti))
            (snd (@pl_omega_delta binary64 BN P trs c qs i ti))) = true) ->
  (forall res, In res (@compute binary64 BN PL P trs) -> forall r, In r res -> fin (r_sigma r) = true) ->
  Forall2 (Forall2 (fun p r : rating binary64 =>
      fin (r_sigma r) = true
      /\ 0 <= RV (r_sigma r) <= RV (r_sigma (@inflate binary64 BN tau p))
      /\ (limit = true -> RV (r_sigma r) <= RV (r_sigma p))))
    teams (@rate_core binary64 BN PL P tau limit teams keys).
Proof.
  intros E Hlen Hexp Hpow Fk Hk Hprior trs Etrs c -> qs -> Fc Hteam Fsum Hsd Hres.
  change (trs = @rate_trs binary64 BN (map (map (@inflate binary64 BN tau)) teams) keys) in Etrs. subst trs.
  apply rate_lift_b64; try assumption.
  intros Hsig Hss.
  apply (compute_pl_sigma_le_gen P); try assumption.
  rewrite rate_trs_length; rewrite map_length; assumption.
Qed.

Lemma pl_team_check (P : params binary64) (trs : list (trating binary64)) (c : binary64) :
  forallb (fun ti => negb (Bsign 53 1024 (@gamma_of binary64 P c trs ti))
                     && fin (@fdiv binary64 BN (t_mu ti) c)) trs = true ->
  forall ti, In ti trs ->
     0 <= RV (@gamma_of binary64 P c trs ti) /\ fin (@fdiv binary64 BN (t_mu ti) c) = true.
Proof.
  intros Hb ti Hti. pose proof (proj1 (forallb_forall _ _) Hb ti Hti) as H1.
  apply andb_true_iff in H1. destruct H1 as (H1 & H2). apply negb_true_iff in H1.
  split; [apply b64_sign_nonneg; exact H1 | exact H2].
Qed.

Lemma pl_share_delta_check (P : params binary64) (trs : list (trating binary64)) (c : binary64)
      (qs : list (nat * (trating binary64 * (binary64 * nat)))) :
  forallb (fun it => forallb (fun p =>
     fin (@fmul binary64 BN (@fdiv binary64 BN (@fpow2 binary64 BN (r_sigma p)) (t_ss (fst (snd it))))
            (snd (@pl_omega_delta binary64 BN P trs c qs (fst it) (fst (snd it))))))
     (t_team (fst (snd it)))) qs = true ->
  forall i ti sq a, In (i, (ti, (sq, a))) qs -> forall p, In p (t_team ti) ->
     fin (@fmul binary64 BN (@fdiv binary64 BN (@fpow2 binary64 BN (r_sigma p)) (t_ss ti))
            (snd (@pl_omega_delta binary64 BN P trs c qs i ti))) = true.
Proof.
  intros Hb i ti sq a Hit p Hp.
  pose proof (proj1 (forallb_forall _ _) Hb (i, (ti, (sq, a))) Hit) as H1. cbn [fst snd] in H1.
  exact (proj1 (forallb_forall _ _) H1 p Hp).
Qed.

(** *** boolean checkers for the quantified finiteness hypotheses (for concrete instances:
    the boolean is evaluated by [vm_compute]) *)
Definition bt_pair_okb (P : params binary64) (trs : list (trating binary64)) (ti tq : trating binary64) : bool :=
  negb (Bsign 53 1024 (@gamma_of binary64 P (@c_iq binary64 BN P ti tq) trs ti))
  && fin (@c_iq binary64 BN P ti tq)
  && fin (@fdiv binary64 BN (@fsub binary64 BN (t_mu tq) (t_mu ti)) (@c_iq binary64 BN P ti tq))
  && fin (@fadd binary64 BN (@fone binary64 BN)
            (fe (@fdiv binary64 BN (@fsub binary64 BN (t_mu tq) (t_mu ti)) (@c_iq binary64 BN P ti tq)))).

Lemma bt_pair_check (P : params binary64) (trs : list (trating binary64))
      (opps : list (trating binary64 * list (trating binary64))) :
  forallb (fun io => forallb (bt_pair_okb P trs (fst io)) (snd io)) opps = true ->
  forall ti opp, In (ti, opp) opps -> forall tq : trating binary64, In tq opp ->
     0 <= RV (@gamma_of binary64 P (@c_iq binary64 BN P ti tq) trs ti)
     /\ fin (@c_iq binary64 BN P ti tq) = true
     /\ fin (@fdiv binary64 BN (@fsub binary64 BN (t_mu tq) (t_mu ti)) (@c_iq binary64 BN P ti tq)) = true
     /\ fin (@fadd binary64 BN (@fone binary64 BN)
               (fe (@fdiv binary64 BN (@fsub binary64 BN (t_mu tq) (t_mu ti)) (@c_iq binary64 BN P ti tq)))) = true.
Proof.
  intros Hb ti opp Hio tq Hq.
  pose proof (proj1 (forallb_forall _ _) Hb (ti, opp) Hio) as H1. cbn [fst snd] in H1.
  pose proof (proj1 (forallb_forall _ _) H1 tq Hq) as H2. unfold bt_pair_okb in H2.
  apply andb_true_iff in H2. destruct H2 as (H2 & H4).
  apply andb_true_iff in H2. destruct H2 as (H2 & H3).
  apply andb_true_iff in H2. destruct H2 as (H2 & H2').
  apply negb_true_iff in H2.
  split; [apply b64_sign_nonneg; exact H2|]. repeat split; assumption.
Qed.

Lemma bt_share_delta_check (P : params binary64) (trs : list (trating binary64))
      (opps : list (trating binary64 * list (trating binary64))) :
  forallb (fun io => forallb (fun p =>
     fin (@fmul binary64 BN (@fdiv binary64 BN (@fpow2 binary64 BN (r_sigma p)) (t_ss (fst io)))
            (snd (fold_left (@bt_term binary64 BN P trs (fst io)) (snd io)
                    (@fzero binary64 BN, @fzero binary64 BN))))) (t_team (fst io))) opps = true ->
  forall ti opp, In (ti, opp) opps -> forall p, In p (t_team ti) ->
     fin (@fmul binary64 BN (@fdiv binary64 BN (@fpow2 binary64 BN (r_sigma p)) (t_ss ti))
            (snd (fold_left (@bt_term binary64 BN P trs ti) opp (@fzero binary64 BN, @fzero binary64 BN)))) = true.
Proof.
  intros Hb ti opp Hio p Hp.
  pose proof (proj1 (forallb_forall _ _) Hb (ti, opp) Hio) as H1. cbn [fst snd] in H1.
  exact (proj1 (forallb_forall _ _) H1 p Hp).
Qed.

End Model.

Lemma results_fin_check (res : list (list (rating binary64))) :
  forallb (forallb (fun r => fin (r_sigma r))) res = true ->
  forall t, In t res -> forall r, In r t -> fin (r_sigma r) = true.
Proof.
  intros Hb t Ht r Hr.
  pose proof (proj1 (forallb_forall _ _) Hb t Ht) as H1.
  exact (proj1 (forallb_forall _ _) H1 r Hr).
Qed.

Lemma sigmas_nonneg_check (teams : list (list (rating binary64))) :
  forallb (forallb (fun p => negb (Bsign 53 1024 (r_sigma p)))) teams = true ->
  forall t, In t teams -> forall p, In p t -> 0 <= RV (r_sigma p).
Proof.
  intros Hb t Ht p Hp.
  pose proof (proj1 (forallb_forall _ _) Hb t Ht) as H1.
  pose proof (proj1 (forallb_forall _ _) H1 p Hp) as H2.
  apply negb_true_iff in H2. apply b64_sign_nonneg. exact H2.
Qed.

Lemma b64_nonneg_check {A : Type} (f : A -> binary64) (l : list A) :
  forallb (fun x => negb (Bsign 53 1024 (f x))) l = true -> forall x, In x l -> 0 <= RV (f x).
Proof.
  intros Hb x Hx. pose proof (proj1 (forallb_forall _ _) Hb x Hx) as H1.
  apply negb_true_iff in H1. apply b64_sign_nonneg. exact H1.
Qed.

Lemma b64_nonneg_check2 {A B : Type} (g : A -> list B) (f : B -> binary64) (l : list A) :
  forallb (fun x => forallb (fun y => negb (Bsign 53 1024 (f y))) (g x)) l = true ->
  forall x, In x l -> forall y, In y (g x) -> 0 <= RV (f y).
Proof.
  intros Hb x Hx y Hy. pose proof (proj1 (forallb_forall _ _) Hb x Hx) as H1.
  exact (b64_nonneg_check f (g x) H1 y Hy).
Qed.

Lemma fin_list_check (l : list binary64) :
  forallb (fun s => fin s) l = true -> forall s, In s l -> fin s = true.
Proof. intros Hb. exact (proj1 (forallb_forall _ _) Hb). Qed.

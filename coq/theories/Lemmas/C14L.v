(** * C14L: stateless calls — state unchanged, history independence,
    interleavings, and independence of ids / names / object identity. *)
From Coq Require Import List ZArith Bool Arith Lia.
From OSV Require Import Num Order Gauss Core Predict PyVal Prog Threads.
From OSV.Lemmas Require Import ProgL RelabelL.
Import ListNotations.

Definition res_map {A B} (f : A -> B) (r : res A) : res B :=
  match r with Ok a => Ok (f a) | Raise e => Raise e end.

Section C14.
Context {F : Type} {N : Num F}.

(** ** the model state is never changed *)
Lemma state_unchanged {A} (p : prog F A) st :
  no_writes p ->
  snd (fst (run p st)) = st /\
  forall ev, In ev (fst (fst (run p st))) ->
             match ev with EWrF _ _ | EWrLimit _ => False | _ => True end.
Proof.
  intros Hn. split; [apply no_writes_run_state; exact Hn|].
  intros ev Hin. pose proof (no_writes_run_trace p st Hn ev Hin) as Hw.
  destruct ev; cbn in Hw; try exact I; discriminate.
Qed.

Lemma state_unchanged_rate k teams ranks scores tau limit (st : mstate F) :
  snd (fst (run (rate_prog k teams ranks scores tau limit) st)) = st /\
  forall ev, In ev (fst (fst (run (rate_prog k teams ranks scores tau limit) st))) ->
             match ev with EWrF _ _ | EWrLimit _ => False | _ => True end.
Proof. apply state_unchanged, no_writes_rate_prog. Qed.

Lemma state_unchanged_predict {A} (f : F -> list (list (rating F)) -> A) k teams (st : mstate F) :
  snd (fst (run (predict_prog f k teams) st)) = st /\
  forall ev, In ev (fst (fst (run (predict_prog f k teams) st))) ->
             match ev with EWrF _ _ | EWrLimit _ => False | _ => True end.
Proof. apply state_unchanged, no_writes_predict_prog. Qed.

(** ** calls and histories *)
Inductive call :=
| CRate (k : kind) (teams ranks scores tau limit : pyval F)
| CWin (k : kind) (teams : pyval F)
| CDraw (k : kind) (teams : pyval F)
| CRank (k : kind) (teams : pyval F).

(** what a call returns *)
Inductive value :=
| VRate (r : list (list (rating F)))
| VWin (l : list F)
| VDraw (x : F)
| VRank (l : list (nat * F)).

Definition call_prog (c : call) : prog F value :=
  match c with
  | CRate k teams ranks scores tau limit =>
      bind (rate_prog k teams ranks scores tau limit) (fun r => Ret (VRate r))
  | CWin k teams => bind (predict_win_prog k teams) (fun r => Ret (VWin r))
  | CDraw k teams => bind (predict_draw_prog k teams) (fun r => Ret (VDraw r))
  | CRank k teams => bind (predict_rank_prog k teams) (fun r => Ret (VRank r))
  end.

(** a history of calls on one model object: the state is threaded through;
    each call's observable outcome is its effect trace and its result *)
Fixpoint run_calls (cs : list call) (st : mstate F) : list (list (event F) * res value) * mstate F :=
  match cs with
  | [] => ([], st)
  | c :: cs' =>
      let r := run (call_prog c) st in
      let rest := run_calls cs' (snd (fst r)) in
      ((fst (fst r), snd r) :: fst rest, snd rest)
  end.

Lemma run_bind_ret {A B} (p : prog F A) (g : A -> B) st :
  run (bind p (fun a => Ret (g a))) st =
  (fst (fst (run p st)), snd (fst (run p st)), res_map g (snd (run p st))).
Proof.
  rewrite run_bind. destruct (snd (run p st)); cbn [run fst snd res_map].
  - rewrite app_nil_r. reflexivity.
  - reflexivity.
Qed.

(** [call_prog] is the underlying program with its result tagged *)
Lemma run_call_prog c st :
  run (call_prog c) st =
  match c with
  | CRate k teams ranks scores tau limit =>
      let r := run (rate_prog k teams ranks scores tau limit) st in
      (fst (fst r), snd (fst r), res_map VRate (snd r))
  | CWin k teams =>
      let r := run (predict_win_prog k teams) st in (fst (fst r), snd (fst r), res_map VWin (snd r))
  | CDraw k teams =>
      let r := run (predict_draw_prog k teams) st in (fst (fst r), snd (fst r), res_map VDraw (snd r))
  | CRank k teams =>
      let r := run (predict_rank_prog k teams) st in (fst (fst r), snd (fst r), res_map VRank (snd r))
  end.
Proof. destruct c; cbn [call_prog]; apply run_bind_ret. Qed.

Lemma no_writes_call_prog c : no_writes (call_prog c).
Proof.
  destruct c; cbn [call_prog]; apply no_writes_bind; try (intros; exact I).
  - apply no_writes_rate_prog.
  - apply no_writes_predict_prog.
  - apply no_writes_predict_prog.
  - apply no_writes_predict_prog.
Qed.

Lemma run_calls_closed cs st :
  run_calls cs st =
  (map (fun c => (fst (fst (run (call_prog c) st)), snd (run (call_prog c) st))) cs, st).
Proof.
  induction cs as [|c cs IH]; cbn [run_calls map]; [reflexivity|].
  rewrite (no_writes_run_state (call_prog c) st (no_writes_call_prog c)).
  rewrite IH. reflexivity.
Qed.

Lemma history cs st i c :
  nth_error cs i = Some c ->
  nth_error (fst (run_calls cs st)) i =
    Some (fst (fst (run (call_prog c) st)), snd (run (call_prog c) st)) /\
  snd (run_calls cs st) = st.
Proof.
  intros Hc. rewrite run_calls_closed. cbn [fst snd]. split; [|reflexivity].
  rewrite nth_error_map, Hc. reflexivity.
Qed.

(** ** interleavings *)
Section Interleave.
Context {A : Type}.

(** the invariant: every thread is a residual of its original program *)
Definition residual (st : mstate F) (p : prog F A) (tq : thread (F:=F) (A:=A)) : Prop :=
  no_writes (snd tq) /\
  run p st = (fst tq ++ fst (fst (run (snd tq) st)), st, snd (run (snd tq) st)).

Lemma Forall2_upd {X Y} (R : X -> Y -> Prop) l1 l2 i y' :
  Forall2 R l1 l2 ->
  (forall x, nth_error l1 i = Some x -> R x y') ->
  Forall2 R l1 (upd l2 i y').
Proof.
  intros H2; revert i; induction H2 as [|x y l1 l2 Hxy H2 IH]; intros i Hi; cbn.
  - constructor.
  - destruct i as [|i].
    + constructor; [apply Hi; reflexivity|exact H2].
    + constructor; [exact Hxy|apply IH; intros x0 Hx0; apply Hi; exact Hx0].
Qed.

Lemma Forall2_len {X Y} (R : X -> Y -> Prop) l1 l2 : Forall2 R l1 l2 -> length l1 = length l2.
Proof. induction 1; cbn; congruence. Qed.

Lemma Forall2_nth_error_r {X Y} (R : X -> Y -> Prop) l1 l2 i y :
  Forall2 R l1 l2 -> nth_error l2 i = Some y -> exists x, nth_error l1 i = Some x /\ R x y.
Proof.
  intros H2; revert i; induction H2 as [|x0 y0 l1 l2 Hxy H2 IH]; intros i Hi.
  - destruct i; discriminate.
  - destruct i as [|i]; cbn in *.
    + inversion Hi; subst. eauto.
    + apply IH; exact Hi.
Qed.

Lemma Forall2_nth_error {X Y} (R : X -> Y -> Prop) l1 l2 i x y :
  Forall2 R l1 l2 -> nth_error l1 i = Some x -> nth_error l2 i = Some y -> R x y.
Proof.
  intros H2; revert i; induction H2 as [|x0 y0 l1 l2 Hxy H2 IH]; intros i Hx Hy.
  - destruct i; discriminate.
  - destruct i as [|i]; cbn in *.
    + inversion Hx; inversion Hy; subst; exact Hxy.
    + eapply IH; eauto.
Qed.

Lemma step_no_writes (p : prog F A) st e p' st' :
  no_writes p -> step p st = Some (e, p', st') -> st' = st /\ no_writes p'.
Proof.
  destruct p; cbn; intros Hn Hs; inversion Hs; subst; auto; contradiction.
Qed.

Lemma sched_step_inv st ps pl i :
  Forall2 (residual st) ps pl ->
  Forall2 (residual st) ps (fst (sched_step (pl, st) i)) /\ snd (sched_step (pl, st) i) = st.
Proof.
  intros Hinv. unfold sched_step. cbn [fst snd].
  destruct (nth_error pl i) as [[tr q]|] eqn:Hnth; [|auto].
  destruct (step q st) as [[[e q'] st']|] eqn:Hstep; [|auto].
  cbn [fst snd].
  destruct (Forall2_nth_error_r _ _ _ _ _ Hinv Hnth) as [p [Hp [Hnw Hrun]]].
  cbn [fst snd] in Hnw, Hrun.
  destruct (step_no_writes q st e q' st' Hnw Hstep) as [-> Hnw'].
  split; [|reflexivity].
  apply Forall2_upd; [exact Hinv|].
  intros p0 Hp0. rewrite Hp in Hp0. inversion Hp0; subst p0.
  split; [exact Hnw'|]. cbn [fst snd].
  rewrite Hrun, (step_run q st e q' st Hstep). cbn [fst snd].
  rewrite <- app_assoc. reflexivity.
Qed.

Lemma exec_inv st ps sched : forall pl,
  Forall2 (residual st) ps pl ->
  Forall2 (residual st) ps (fst (exec sched (pl, st))) /\ snd (exec sched (pl, st)) = st.
Proof.
  induction sched as [|i sched IH]; intros pl Hinv; cbn [exec fold_left]; [auto|].
  destruct (sched_step_inv st ps pl i Hinv) as [Hinv' Hst].
  destruct (sched_step (pl, st) i) as [pl' st'] eqn:Hs. cbn [fst snd] in Hinv', Hst. subst st'.
  apply (IH pl' Hinv').
Qed.

Lemma init_inv st (ps : list (prog F A)) :
  Forall (fun p => no_writes p) ps -> Forall2 (residual st) ps (init ps).
Proof.
  induction 1 as [|p ps Hp Hps IH]; cbn; constructor; [|exact IH].
  split; cbn [fst snd app]; [exact Hp|].
  pose proof (no_writes_run_state p st Hp) as Hs.
  destruct (run p st) as [[t s] o]; cbn [fst snd] in *; subst s; reflexivity.
Qed.

(** threads without writes to the shared state: under EVERY schedule the
    shared state stays what it was, and every thread that has run to
    completion has emitted exactly the trace and reached exactly the result
    that it has when it runs alone from the initial state *)
Theorem interleaving (ps : list (prog F A)) (st : mstate F) (sched : list nat) :
  Forall (fun p => no_writes p) ps ->
  snd (exec sched (init ps, st)) = st /\
  length (fst (exec sched (init ps, st))) = length ps /\
  forall i p tr q o,
    nth_error ps i = Some p ->
    nth_error (fst (exec sched (init ps, st))) i = Some (tr, q) ->
    finished q = Some o ->
    run p st = (tr, st, o).
Proof.
  intros Hnw. destruct (exec_inv st ps sched (init ps) (init_inv st ps Hnw)) as [Hinv Hst].
  split; [exact Hst|]. split; [symmetry; eapply Forall2_len; exact Hinv|].
  intros i p tr q o Hp Hq Hfin.
  destruct (Forall2_nth_error _ _ _ _ _ _ Hinv Hp Hq) as [_ Hrun]. cbn [fst snd] in Hrun.
  rewrite Hrun, (finished_run q st o Hfin). cbn [fst snd]. rewrite app_nil_r. reflexivity.
Qed.

End Interleave.
End C14.

(** * Independence of ids, names and object identity

    The value-level facts (every stage of [rate_core] / [predict_*] commutes with a
    map on ratings that keeps mu and sigma and commutes with [set_mu_sigma]) are in
    Lemmas/RelabelL.v; here they are lifted to the effect programs, argument
    validation and traces included. *)

Lemma combine_map_r' {A B B'} (h : B -> B') (l : list A) (r : list B) :
  combine l (map h r) = map (fun x => (fst x, h (snd x))) (combine l r).
Proof. revert r; induction l as [|x xs IH]; intros [|y ys]; cbn; try reflexivity. rewrite IH; reflexivity. Qed.

Lemma flat_map_map' {A B C} (G : B -> list C) (h : A -> B) l :
  flat_map G (map h l) = flat_map (fun x => G (h x)) l.
Proof. induction l as [|x xs IH]; cbn; [reflexivity|]. rewrite IH; reflexivity. Qed.

Lemma map_flat_map' {A B C} (G : A -> list B) (h : B -> C) l :
  map h (flat_map G l) = flat_map (fun x => map h (G x)) l.
Proof. induction l as [|x xs IH]; cbn; [reflexivity|]. rewrite map_app, IH; reflexivity. Qed.

Lemma flat_map_ext' {A B} (G1 G2 : A -> list B) l :
  (forall x, G1 x = G2 x) -> flat_map G1 l = flat_map G2 l.
Proof. intros HG; induction l as [|x xs IH]; cbn; [reflexivity|]. rewrite HG, IH; reflexivity. Qed.

Lemma mapM_map_res {A A' B B'} (f1 : A -> res B) (f2 : A' -> res B') (h : A -> A') (g : B -> B') l :
  (forall x, f2 (h x) = res_map g (f1 x)) -> mapM f2 (map h l) = res_map (map g) (mapM f1 l).
Proof.
  intros Hf; induction l as [|x xs IH]; cbn [map mapM]; [reflexivity|].
  rewrite Hf, IH. destruct (f1 x); cbn; [|reflexivity]. destruct (mapM f1 xs); reflexivity.
Qed.

Lemma res_map_map {A B C} (g : A -> B) (h : B -> C) (r : res A) :
  res_map h (res_map g r) = res_map (fun x => h (g x)) r.
Proof. destruct r; reflexivity. Qed.

(** apply a map on rating objects everywhere inside a Python value *)
Fixpoint pv_map {F : Type} (f : rating F -> rating F) (v : pyval F) : pyval F :=
  match v with
  | PList l => PList (map (pv_map f) l)
  | PTuple l => PTuple (map (pv_map f) l)
  | PRating k r => PRating k (f r)
  | PNone => PNone
  | PBool b => PBool b
  | PInt z => PInt z
  | PFloat x num k => PFloat x num k
  | PStr t => PStr t
  | POther t => POther t
  end.

Section Ids.
Context {F : Type} {N : Num F}.
Variable f : rating F -> rating F.

(** *** argument validation (no hypothesis on [f]) *)
Lemma check_player_pv k p : check_player k (pv_map f p) = res_map f (check_player k p).
Proof.
  destruct p; cbn [pv_map check_player res_map]; try reflexivity.
  destruct (kind_eqb k k0); reflexivity.
Qed.

Lemma check_team_pv k t : check_team k (pv_map f t) = res_map (map f) (check_team k t).
Proof.
  destruct t as [| | | | |l| | |]; try reflexivity.
  destruct l as [|p ps]; [reflexivity|].
  change (check_team k (pv_map f (PList (p :: ps))))
    with (mapM (check_player k) (map (pv_map f) (p :: ps))).
  change (check_team k (PList (p :: ps))) with (mapM (check_player k) (p :: ps)).
  apply mapM_map_res. intros; apply check_player_pv.
Qed.

Lemma check_teams_pv k v :
  check_teams k (pv_map f v) = res_map (map (map f)) (check_teams k v).
Proof.
  destruct v as [| | | | |l| | |]; try reflexivity.
  cbn [pv_map check_teams]. rewrite map_length.
  destruct (length l <? 2); [reflexivity|].
  apply mapM_map_res. intros; apply check_team_pv.
Qed.

Lemma validate_pv k teams ranks scores :
  validate_rate k (pv_map f teams) ranks scores =
  res_map (fun tk => (map (map f) (fst tk), snd tk)) (validate_rate k teams ranks scores).
Proof.
  unfold validate_rate. rewrite check_teams_pv.
  destruct (check_teams k teams) as [tms|e]; cbn [res_map rbind]; [|reflexivity].
  rewrite map_length.
  match goal with |- context [rbind ?X _] => destruct X as [rk|e] end; cbn [res_map rbind]; [|reflexivity].
  match goal with |- context [rbind ?X _] => destruct X as [sc|e] end; cbn [res_map rbind]; reflexivity.
Qed.

(** *** the predict operations ([f] keeps the numbers) *)
Hypothesis f_mu : forall r, r_mu (f r) = r_mu r.
Hypothesis f_sigma : forall r, r_sigma (f r) = r_sigma r.

Lemma predict_prog_pv {A} (op : F -> list (list (rating F)) -> A) k teams st :
  (forall beta tms, op beta (map (map f) tms) = op beta tms) ->
  run (predict_prog op k (pv_map f teams)) st = run (predict_prog op k teams) st.
Proof.
  intros Hop. rewrite !run_predict_prog, check_teams_pv.
  destruct (check_teams k teams); cbn [res_map]; [rewrite Hop|]; reflexivity.
Qed.

Lemma predict_win_pv k teams st :
  run (predict_win_prog k (pv_map f teams)) st = run (predict_win_prog k teams) st.
Proof. apply predict_prog_pv. apply (predict_win_g f f_mu f_sigma). Qed.
Lemma predict_draw_pv k teams st :
  run (predict_draw_prog k (pv_map f teams)) st = run (predict_draw_prog k teams) st.
Proof. apply predict_prog_pv. apply (predict_draw_g f f_mu f_sigma). Qed.
Lemma predict_rank_pv k teams st :
  run (predict_rank_prog k (pv_map f teams)) st = run (predict_rank_prog k teams) st.
Proof. apply predict_prog_pv. apply (predict_rank_g f f_mu f_sigma). Qed.

(** *** the mutation events carry numbers only *)
Lemma indexed_map (teams : list (list (rating F))) :
  indexed (map (map f) teams) = map (fun x => (fst x, f (snd x))) (indexed teams).
Proof.
  unfold indexed. rewrite map_length, combine_map_r', flat_map_map', map_flat_map'.
  apply flat_map_ext'. intros it. cbn [fst snd].
  rewrite map_length, combine_map_r', !map_map. reflexivity.
Qed.

Lemma ev_sigmas_map l : ev_sigmas (map (fun x => (fst x, f (snd x))) l) = ev_sigmas l.
Proof.
  unfold ev_sigmas. rewrite map_map. apply map_ext. intros x. cbn [fst snd].
  rewrite f_sigma. reflexivity.
Qed.

Lemma ev_both_map l : ev_both (map (fun x => (fst x, f (snd x))) l) = ev_both l.
Proof.
  unfold ev_both. rewrite flat_map_map'. apply flat_map_ext'. intros x. cbn [fst snd].
  rewrite f_sigma, f_mu. reflexivity.
Qed.

(** *** [rate] *)
Hypothesis f_set : forall r m s, f (set_mu_sigma r m s) = set_mu_sigma (f r) m s.

Section WithState.
Variable st : mstate F.
Hypothesis gamma_f : forall c n mu ss t rank,
  m_gamma st c n mu ss (map f t) rank = m_gamma st c n mu ss t rank.

Lemma inflate_map t (tms : list (list (rating F))) :
  map (map (inflate t)) (map (map f) tms) = map (map f) (map (map (inflate t)) tms).
Proof.
  rewrite !map_map. apply map_ext. intros tm. rewrite !map_map. apply map_ext.
  intros r. apply (inflate_g f f_mu f_sigma f_set).
Qed.

Lemma rate_tail_trace_map k limit tms keys t :
  rate_tail_trace k st limit (map (map f) tms) keys t = rate_tail_trace k st limit tms keys t.
Proof.
  unfold rate_tail_trace. cbv zeta.
  rewrite inflate_map.
  rewrite (rate_sorted_g f f_mu f_sigma f_set (params_of st) gamma_f).
  rewrite (clamp_g f f_mu f_sigma f_set).
  rewrite !indexed_map, !ev_sigmas_map, ev_both_map. reflexivity.
Qed.

(** the call on relabelled ratings: same effect trace, same (unchanged) state, and the
    result is the relabelled result — in particular the same numbers *)
Theorem rate_prog_pv k teams ranks scores tau limit :
  run (rate_prog k (pv_map f teams) ranks scores tau limit) st =
  (fst (fst (run (rate_prog k teams ranks scores tau limit) st)),
   snd (fst (run (rate_prog k teams ranks scores tau limit) st)),
   res_map (map (map f)) (snd (run (rate_prog k teams ranks scores tau limit) st))).
Proof.
  rewrite !run_rate_prog, validate_pv.
  destruct (validate_rate k teams ranks scores) as [tk|e]; cbn [res_map fst snd]; [|reflexivity].
  destruct (tau_of st tau) as [ex|e]; cbn [res_map fst snd]; [|reflexivity].
  rewrite rate_tail_trace_map.
  rewrite (rate_core_g f f_mu f_sigma f_set (params_of st) gamma_f). reflexivity.
Qed.
End WithState.
End Ids.

(** ** results are a function of the numbers passed in *)
Section ValuesOnly.
Context {F : Type} {N : Num F}.

Lemma res_nums_erase (r : res (list (list (rating F)))) :
  res_map nums (res_map (map (map erase)) r) = res_map nums r.
Proof. destruct r; cbn [res_map]; [rewrite nums_erase|]; reflexivity. Qed.

(** two calls whose teams arguments agree up to ids and names (i.e. have the same shape,
    the same kinds and the same (mu, sigma) everywhere) *)
Theorem rate_values_only k teams1 teams2 ranks scores tau limit (st : mstate F) :
  (forall c n mu ss (t1 t2 : list (rating F)) rank,
     map ms t1 = map ms t2 -> m_gamma st c n mu ss t1 rank = m_gamma st c n mu ss t2 rank) ->
  pv_map erase teams1 = pv_map erase teams2 ->
  fst (run (rate_prog k teams1 ranks scores tau limit) st) =
  fst (run (rate_prog k teams2 ranks scores tau limit) st) /\
  res_map nums (snd (run (rate_prog k teams1 ranks scores tau limit) st)) =
  res_map nums (snd (run (rate_prog k teams2 ranks scores tau limit) st)).
Proof.
  intros Hg He.
  assert (Hge : forall c n mu ss t rank,
             m_gamma st c n mu ss (map erase t) rank = m_gamma st c n mu ss t rank).
  { intros. apply Hg. apply map_ms_erase. }
  pose proof (rate_prog_pv erase erase_mu erase_sigma erase_set st Hge
                k teams1 ranks scores tau limit) as H1.
  pose proof (rate_prog_pv erase erase_mu erase_sigma erase_set st Hge
                k teams2 ranks scores tau limit) as H2.
  rewrite He in H1. rewrite H1 in H2. clear H1.
  destruct (run (rate_prog k teams1 ranks scores tau limit) st) as [[tr1 s1] r1].
  destruct (run (rate_prog k teams2 ranks scores tau limit) st) as [[tr2 s2] r2].
  cbn [fst snd] in *. inversion H2 as [[Ht Hs Hr]]. split; [reflexivity|].
  rewrite <- (res_nums_erase r1), <- (res_nums_erase r2), Hr. reflexivity.
Qed.

Theorem predict_values_only k teams1 teams2 (st : mstate F) :
  pv_map erase teams1 = pv_map erase teams2 ->
  run (predict_win_prog k teams1) st = run (predict_win_prog k teams2) st /\
  run (predict_draw_prog k teams1) st = run (predict_draw_prog k teams2) st /\
  run (predict_rank_prog k teams1) st = run (predict_rank_prog k teams2) st.
Proof.
  intros He. repeat split.
  - rewrite <- (predict_win_pv erase erase_mu erase_sigma k teams1),
            <- (predict_win_pv erase erase_mu erase_sigma k teams2), He. reflexivity.
  - rewrite <- (predict_draw_pv erase erase_mu erase_sigma k teams1),
            <- (predict_draw_pv erase erase_mu erase_sigma k teams2), He. reflexivity.
  - rewrite <- (predict_rank_pv erase erase_mu erase_sigma k teams1),
            <- (predict_rank_pv erase erase_mu erase_sigma k teams2), He. reflexivity.
Qed.
End ValuesOnly.

(** ** progress: every pool has a schedule that runs all its threads to completion
    (run them one after the other), so the interleaving theorem is not vacuous *)
Section Progress.
Context {F A : Type}.

(** number of steps of a program run alone from a state *)
Fixpoint size (p : prog F A) (st : mstate F) : nat :=
  match p with
  | Ret _ | Fail _ => 0
  | RdF a k => S (size (k (get_f st a)) st)
  | RdLimit k => S (size (k (m_limit st)) st)
  | RdGamma k => S (size (k (m_gamma st)) st)
  | WrF a x k => S (size k (set_f st a x))
  | WrLimit b k => S (size k (set_limit st b))
  | MutMu _ _ _ k | MutSigma _ _ _ k => S (size k st)
  end.

Lemma size_zero p st : size p st = 0 -> finished p <> None.
Proof. destruct p; cbn; intros; congruence. Qed.

Lemma size_step p st n :
  size p st = S n -> exists e p' st', step p st = Some (e, p', st') /\ size p' st' = n.
Proof. destruct p; cbn; intros Hs; inversion Hs; eauto. Qed.

Lemma upd_length {X} (l : list X) i x : length (upd l i x) = length l.
Proof. revert i; induction l as [|y ys IH]; intros [|i]; cbn; auto. Qed.

Lemma nth_error_upd_eq {X} (l : list X) i x y :
  nth_error l i = Some y -> nth_error (upd l i x) i = Some x.
Proof.
  revert i; induction l as [|z zs IH]; intros [|i]; cbn; intros Hn; try discriminate; auto.
Qed.

Lemma nth_error_upd_neq {X} (l : list X) i j x :
  i <> j -> nth_error (upd l i x) j = nth_error l j.
Proof.
  revert i j; induction l as [|z zs IH]; intros [|i] [|j] Hne; cbn; auto; try congruence.
Qed.

Lemma upd_upd {X} (l : list X) i x y : upd (upd l i x) i y = upd l i y.
Proof. revert i; induction l as [|z zs IH]; intros [|i]; cbn; auto. rewrite IH; reflexivity. Qed.

Lemma exec_app sched1 sched2 (cfg : pool (F:=F) (A:=A) * mstate F) :
  exec (sched1 ++ sched2) cfg = exec sched2 (exec sched1 cfg).
Proof. unfold exec. apply fold_left_app. Qed.

(** run thread [i] alone until it has finished *)
Lemma run_thread i : forall n (q : prog F A) tr pl st,
  nth_error pl i = Some (tr, q) -> size q st = n ->
  exists tr' q' st',
    exec (repeat i n) (pl, st) = (upd pl i (tr', q'), st') /\ finished q' <> None.
Proof.
  induction n as [|n IH]; intros q tr pl st Hnth Hsize.
  - exists tr, q, st. cbn [repeat exec fold_left]. split; [|apply (size_zero q st Hsize)].
    f_equal. clear Hsize. revert i Hnth; induction pl as [|z zs IHl]; intros [|i] Hn; cbn in *;
      try discriminate.
    + inversion Hn; reflexivity.
    + rewrite <- (IHl i Hn) at 1. reflexivity.
  - destruct (size_step q st n Hsize) as [e [q1 [st1 [Hstep Hsize1]]]].
    destruct (IH q1 (tr ++ [e]) (upd pl i (tr ++ [e], q1)) st1
                (nth_error_upd_eq pl i _ _ Hnth) Hsize1) as [tr' [q' [st' [Hex Hfin]]]].
    exists tr', q', st'. split; [|exact Hfin].
    cbn [repeat exec fold_left].
    assert (Hs : sched_step (pl, st) i = (upd pl i (tr ++ [e], q1), st1)).
    { unfold sched_step, thread. cbn [fst snd]. rewrite Hnth, Hstep. reflexivity. }
    rewrite Hs.
    unfold exec in Hex. rewrite Hex, upd_upd. reflexivity.
Qed.

Lemma complete_prefix (pl : pool (F:=F) (A:=A)) (st : mstate F) : forall k,
  k <= length pl ->
  exists sched,
    length (fst (exec sched (pl, st))) = length pl /\
    forall i tq, i < k -> nth_error (fst (exec sched (pl, st))) i = Some tq ->
                 finished (snd tq) <> None.
Proof.
  induction k as [|k IH]; intros Hk.
  - exists []. split; [reflexivity|]. intros i tq Hi; lia.
  - destruct IH as [sched1 [Hlen Hfin]]; [lia|].
    destruct (exec sched1 (pl, st)) as [pl1 st1] eqn:Hcfg. cbn [fst snd] in Hlen, Hfin.
    destruct (nth_error pl1 k) as [[tr q]|] eqn:Hnth.
    2: { apply nth_error_None in Hnth. lia. }
    destruct (run_thread k (size q st1) q tr pl1 st1 Hnth eq_refl)
      as [tr' [q' [st' [Hex Hq']]]].
    exists (sched1 ++ repeat k (size q st1)).
    rewrite exec_app, Hcfg. unfold pool, thread in *. rewrite Hex. cbn [fst snd]. rewrite upd_length.
    split; [exact Hlen|].
    intros i tq Hi Hn. destruct (Nat.eq_dec k i) as [<-|Hne].
    + rewrite (nth_error_upd_eq pl1 k _ _ Hnth) in Hn. inversion Hn; subst. exact Hq'.
    + rewrite (nth_error_upd_neq pl1 k i _ Hne) in Hn. apply (Hfin i tq); [lia|exact Hn].
Qed.

Theorem complete_schedule_exists (ps : list (prog F A)) (st : mstate F) :
  exists sched, all_finished (fst (exec sched (init ps, st))).
Proof.
  destruct (complete_prefix (init ps) st (length (init ps)) (le_n _)) as [sched [Hlen Hfin]].
  exists sched. unfold all_finished. apply Forall_forall. intros tq Hin.
  destruct (In_nth_error _ _ Hin) as [i Hi].
  apply (Hfin i tq); [|exact Hi].
  rewrite <- Hlen. apply nth_error_Some. intros Hnone. unfold pool, thread in *.
  rewrite Hnone in Hi. discriminate.
Qed.
End Progress.

(** ** packaged forms used by Props/C14.v *)
Section Packaged.
Context {F : Type} {N : Num F}.

Lemma interleaving_calls (cs : list (call (F:=F))) (st : mstate F) (sched : list nat) :
  snd (exec sched (init (map call_prog cs), st)) = st /\
  forall i c tr q o,
    nth_error cs i = Some c ->
    nth_error (fst (exec sched (init (map call_prog cs), st))) i = Some (tr, q) ->
    finished q = Some o ->
    run (call_prog c) st = (tr, st, o).
Proof.
  destruct (interleaving (map call_prog cs) st sched) as [Hst [_ Hth]].
  - apply Forall_forall. intros p Hin. apply in_map_iff in Hin as [c [<- _]]. apply no_writes_call_prog.
  - split; [exact Hst|]. intros i c tr q o Hc. apply Hth. rewrite nth_error_map, Hc. reflexivity.
Qed.

Lemma rate_prog_relabel (fi : Z -> name -> Z) (fn : Z -> name -> name)
    (st : mstate F) k (teams ranks scores tau limit : pyval F) :
  let f := fun r : rating F =>
             mkRating (r_mu r) (r_sigma r) (fi (r_id r) (r_name r)) (fn (r_id r) (r_name r)) in
  (forall c n mu ss t rank, m_gamma st c n mu ss (map f t) rank = m_gamma st c n mu ss t rank) ->
  run (rate_prog k (pv_map f teams) ranks scores tau limit) st =
  (fst (fst (run (rate_prog k teams ranks scores tau limit) st)),
   snd (fst (run (rate_prog k teams ranks scores tau limit) st)),
   res_map (map (map f)) (snd (run (rate_prog k teams ranks scores tau limit) st))).
Proof.
  intros f Hg. apply (rate_prog_pv f); [reflexivity|reflexivity|reflexivity|exact Hg].
Qed.

Lemma predict_pv (f : rating F -> rating F) :
  (forall r, r_mu (f r) = r_mu r) -> (forall r, r_sigma (f r) = r_sigma r) ->
  forall k (teams : pyval F) (st : mstate F),
  run (predict_win_prog k (pv_map f teams)) st = run (predict_win_prog k teams) st /\
  run (predict_draw_prog k (pv_map f teams)) st = run (predict_draw_prog k teams) st /\
  run (predict_rank_prog k (pv_map f teams)) st = run (predict_rank_prog k teams) st.
Proof.
  intros Hmu Hsig k teams st. repeat split.
  - apply predict_win_pv; assumption.
  - apply predict_draw_pv; assumption.
  - apply predict_rank_pv; assumption.
Qed.
End Packaged.

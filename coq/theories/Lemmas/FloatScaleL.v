(** * FloatScaleL: ROUNDING cannot break the scale law when the factor is a power of two.

    The scale law of C16 (multiply every mu, sigma, beta, tau by [a > 0]: posterior mu, sigma
    are multiplied by [a], predictions are unchanged; Plackett-Luce and both Bradley-Terry
    kinds) is proved over the reals in C16L.v by field algebra.  Here it is proved for a model
    of floating-point arithmetic in which EVERY operation is followed by a rounding:

    [FlxNum ex erfc icdf pw2 : Num R] -- carrier R, [fadd a b := rnd (a + b)], likewise
    [fsub], [fmul], [fdiv], [fsqrt x := rnd (sqrt x)], [fofZ z := rnd (IZR z)], constants
    rounded, comparisons = the real comparisons, negation and absolute value exact, where

      [rnd := round radix2 (FLX_exp 53) ZnearestE]

    is Flocq's rounding to nearest, ties to even, in the format FLX with radix 2 and 53 bits
    of precision (unbounded exponent range: no overflow, no underflow).  The libm functions
    [exp], [erfc], [inv_cdf] are ARBITRARY functions (parameters; no accuracy, monotonicity
    or any other property is assumed); [x ** 2] (C [pow (x, 2.0)]) is a parameter [pw2] about
    which the theorems assume only that it is homogeneous for the factor at hand,
    [pw2 (s * x) = s * s * pw2 x]; the correctly rounded square [fun x => rnd (x * x)] is such
    a function for every power of two [s] ([pw2_rnd_sq_pow2]).

    Relation to the doubles the code computes: IEEE 754 binary64 is Flocq's format FLT with
    emin = -1074, prec = 53; on every real whose magnitude is at least 2^-1022 (no subnormal
    result) the two roundings coincide (Flocq [FLT.round_FLT_FLX]), and a binary64 operation
    returns the FLT rounding of the exact result unless that overflows.  So the binary64
    computation coincides with the [FlxNum] computation whenever no intermediate result
    overflows or is subnormal (and the libm functions are the same).

    Key fact ([rnd_pow2]): [rnd (2^k * x) = 2^k * rnd x] for every integer k and real x.

    Technique: the laws that the scale law needs from the arithmetic are collected in the
    record [homog N s] ("the operations of N are homogeneous for the factor s": e.g.
    [fadd (s * a) (s * b) = s * fadd a b], [fdiv (s * a) (s * b) = fdiv a b],
    [fsqrt (s * s * a) = s * fsqrt a]).  The scale law is then derived for ANY [N : Num R]
    with [homog N s], operation by operation along the structure of the computation (no
    field algebra: none is available, every operation rounds), and [FlxNum] is shown to
    satisfy [homog] for [s = 2^k].

    All statements hold for ALL inputs: no positivity or finiteness premise.  (Outside the
    domain of the Python code -- division by zero, square root of a negative number, where
    Python raises -- Coq's totalised [/ 0 = 0], [sqrt x = 0] for x < 0 happen to scale
    consistently as well; the statements restricted to the domain are instances.) *)
From Coq Require Import List ZArith Bool Arith Reals Lra Lia.
From Flocq Require Import Core.Zaux Core.Raux Core.Defs Core.Generic_fmt Core.FLX Core.Round_NE.
From OSV Require Import Num Order Gauss Core Predict RInst.
From OSV.Lemmas Require Import OrderL C16L.
Import ListNotations.
Open Scope R_scope.

(** ** The rounding and the instance *)

Definition rnd : R -> R := round radix2 (FLX_exp 53) (Znearest (fun x => negb (Z.even x))).

Definition FlxNum (ex erfc icdf pw2 : R -> R) : Num R := {|
  fadd := fun a b => rnd (a + b);  fsub := fun a b => rnd (a - b);
  fmul := fun a b => rnd (a * b);  fdiv := fun a b => rnd (a / b);
  fneg := Ropp;  fabs := Rabs;
  fsqrt := fun a => rnd (sqrt a);
  fexp := ex;  ferfc := erfc;  fpow2 := pw2;  ficdf := icdf;
  fltb := Rltb;  fleb := Rleb;  feqb := Reqb;
  ffinite := fun _ => true;
  fofZ := fun z => rnd (IZR z);
  fofdy := fun m e => rnd (IZR m * bpow radix2 e);
  ftau := rnd (2 * PI) |}.

Lemma rnd_0 : rnd 0 = 0.
Proof. apply round_0. apply valid_rnd_N. Qed.

(** rounding to 53 bits with unbounded exponent commutes with multiplication by a power of two *)
Lemma rnd_pow2 (k : Z) (x : R) : rnd (bpow radix2 k * x) = bpow radix2 k * rnd x.
Proof.
  destruct (Req_dec x 0) as [->|Hx].
  - rewrite Rmult_0_r, rnd_0. ring.
  - rewrite (Rmult_comm _ x). unfold rnd, round, F2R, scaled_mantissa, cexp, FLX_exp. cbn [Fnum Fexp].
    rewrite mag_mult_bpow by exact Hx.
    replace (mag radix2 x + k - 53)%Z with ((mag radix2 x - 53) + k)%Z by ring.
    rewrite Z.opp_add_distr, !bpow_plus.
    replace (x * bpow radix2 k * (bpow radix2 (- (mag radix2 x - 53)) * bpow radix2 (- k)))
      with (x * bpow radix2 (- (mag radix2 x - 53)) * (bpow radix2 k * bpow radix2 (-k))) by ring.
    rewrite <- (bpow_plus radix2 k (-k)), Z.add_opp_diag_r. cbn [bpow]. rewrite Rmult_1_r. ring.
Qed.

(** ** The laws: the operations of [N] are homogeneous for the factor [s] *)
Record homog (N : Num R) (s : R) : Prop := {
  h_zero : s * (@fzero R N) = fzero;
  h_add : forall a b, fadd (s * a) (s * b) = s * fadd a b;
  h_sub : forall a b, fsub (s * a) (s * b) = s * fsub a b;
  h_mul_l : forall a b, fmul (s * a) b = s * fmul a b;
  h_mul_r : forall a b, fmul a (s * b) = s * fmul a b;
  h_div : forall a b, fdiv (s * a) (s * b) = fdiv a b;
  h_div_l : forall a b, fdiv (s * a) b = s * fdiv a b;
  h_sqrt : forall a, fsqrt (s * s * a) = s * fsqrt a;
  h_pow2 : forall a, fpow2 (s * a) = s * s * fpow2 a;
  h_leb : forall a b, fleb (s * a) (s * b) = fleb a b }.

Lemma sqrt_scale_pos s x : 0 < s -> sqrt (s * s * x) = s * sqrt x.
Proof. intros Hs. rewrite sqrt_mult_alt by nra. rewrite sqrt_square by lra. reflexivity. Qed.

(** the rounded arithmetic is homogeneous for every positive factor that commutes with the
    rounding, provided [pw2] is *)
Lemma FlxNum_homog_gen (ex erfc icdf pw2 : R -> R) (s : R) :
  0 < s -> (forall x, rnd (s * x) = s * rnd x) ->
  (forall x, pw2 (s * x) = s * s * pw2 x) ->
  homog (FlxNum ex erfc icdf pw2) s.
Proof.
  intros Hs Hr Hp.
  assert (Hss : forall a b, s * a / (s * b) = a / b).
  { intros a b. unfold Rdiv. rewrite Rinv_mult.
    replace (s * a * (/ s * / b)) with (s * / s * (a * / b)) by ring.
    rewrite Rinv_r by lra. ring. }
  constructor; unfold fzero; cbn [fadd fsub fmul fdiv fsqrt fpow2 fleb fofZ FlxNum].
  - rewrite rnd_0. ring.
  - intros a b. rewrite <- Hr. f_equal. ring.
  - intros a b. rewrite <- Hr. f_equal. ring.
  - intros a b. rewrite <- Hr. f_equal. ring.
  - intros a b. rewrite <- Hr. f_equal. ring.
  - intros a b. f_equal. apply Hss.
  - intros a b. rewrite <- Hr. f_equal. unfold Rdiv. ring.
  - intros a. rewrite <- Hr. f_equal. now apply sqrt_scale_pos.
  - exact Hp.
  - intros a b. unfold Rleb. destruct (Rle_dec (s * a) (s * b)), (Rle_dec a b); try reflexivity; exfalso; nra.
Qed.

Lemma FlxNum_homog (ex erfc icdf pw2 : R -> R) (k : Z) :
  (forall x, pw2 (bpow radix2 k * x) = bpow radix2 k * bpow radix2 k * pw2 x) ->
  homog (FlxNum ex erfc icdf pw2) (bpow radix2 k).
Proof. intros Hp. apply FlxNum_homog_gen; [apply bpow_gt_0 | apply rnd_pow2 | exact Hp]. Qed.

(** the correctly rounded square is homogeneous for every power of two *)
Lemma pw2_rnd_sq_pow2 (k : Z) (x : R) :
  rnd (bpow radix2 k * x * (bpow radix2 k * x)) = bpow radix2 k * bpow radix2 k * rnd (x * x).
Proof.
  replace (bpow radix2 k * x * (bpow radix2 k * x)) with (bpow radix2 k * (bpow radix2 k * (x * x))) by ring.
  rewrite !rnd_pow2. ring.
Qed.

(** ** The scale law from the laws *)
Section Generic.
Context {N : Num R}.
Variable s : R.
Hypothesis H : homog N s.

Let fr := scale_rating s.
Let ft := scale_trating s.

Let Hz := h_zero N s H.
Let Hadd := h_add N s H.
Let Hsub := h_sub N s H.
Let Hml := h_mul_l N s H.
Let Hmr := h_mul_r N s H.
Let Hdiv := h_div N s H.
Let Hdl := h_div_l N s H.
Let Hsq := h_sqrt N s H.
Let Hpw := h_pow2 N s H.
Let Hleb := h_leb N s H.

(** derived laws for the factor [s * s] *)
Lemma zero_ss : s * s * (@fzero R N) = fzero.
Proof. rewrite Rmult_assoc, Hz. exact Hz. Qed.
Lemma add_ss a b : fadd (s * s * a) (s * s * b) = s * s * fadd a b.
Proof. rewrite !(Rmult_assoc s s), !Hadd. reflexivity. Qed.
Lemma mul_ss a b : fmul (s * a) (s * b) = s * s * fmul a b.
Proof. rewrite Hml, Hmr. ring. Qed.
Lemma mul_r_ss a b : fmul a (s * s * b) = s * s * fmul a b.
Proof. rewrite !(Rmult_assoc s s), !Hmr. reflexivity. Qed.
Lemma div_ss a b : fdiv (s * s * a) (s * s * b) = fdiv a b.
Proof. rewrite !(Rmult_assoc s s), !Hdiv. reflexivity. Qed.
Lemma div_ss_s a b : fdiv (s * s * a) (s * b) = s * fdiv a b.
Proof. rewrite (Rmult_assoc s s), Hdiv, Hdl. reflexivity. Qed.

(** sums *)
Lemma fold_add_scale c l : (forall a b, fadd (c * a) (c * b) = c * fadd a b) ->
  forall x, fold_left fadd (map (Rmult c) l) (c * x) = c * fold_left fadd l x.
Proof.
  intros Hc. induction l as [|y ys IH]; intros x; cbn [map fold_left]; [reflexivity|].
  rewrite Hc. apply IH.
Qed.
Lemma reduce_add_scale c l : (forall a b, fadd (c * a) (c * b) = c * fadd a b) -> c * fzero = fzero ->
  reduce_add (map (Rmult c) l) = c * reduce_add l.
Proof.
  intros Hc Hc0. destruct l as [|x xs]; cbn [map reduce_add]; [now rewrite Hc0|].
  now apply fold_add_scale.
Qed.

Lemma team_mu_scale t : reduce_add (map r_mu (map fr t)) = s * reduce_add (map r_mu t).
Proof.
  rewrite map_map. change (map (fun x => r_mu (fr x)) t) with (map (fun x => s * r_mu x) t).
  rewrite <- (map_map r_mu (Rmult s)). apply reduce_add_scale; [exact Hadd | exact Hz].
Qed.
Lemma team_ss_scale t :
  reduce_add (map (fun p => fpow2 (r_sigma p)) (map fr t)) = s * s * reduce_add (map (fun p => fpow2 (r_sigma p)) t).
Proof.
  rewrite map_map. change (map (fun x => fpow2 (r_sigma (fr x))) t) with (map (fun x => fpow2 (s * r_sigma x)) t).
  rewrite (map_ext (fun x => fpow2 (s * r_sigma x)) (fun x => s * s * fpow2 (r_sigma x))) by (intros; apply Hpw).
  rewrite <- (map_map (fun p => fpow2 (r_sigma p)) (Rmult (s * s))).
  apply reduce_add_scale; [exact add_ss | exact zero_ss].
Qed.

(** *** Predictions *)
Lemma agg_scale t : agg (map fr t) = (s * fst (agg t), s * s * snd (agg t)).
Proof. unfold agg. cbn [fst snd]. now rewrite team_mu_scale, team_ss_scale. Qed.

Lemma pair_scale_scale beta n x y va vb :
  pair_scale (s * beta) n (s * x, s * s * va) (s * y, s * s * vb) = s * pair_scale beta n (x, va) (y, vb).
Proof. unfold pair_scale. cbn [fst snd]. now rewrite Hpw, mul_r_ss, !add_ss, Hsq. Qed.

Lemma nplayers_map_gen (f : rating R -> rating R) teams : nplayers (map (map f) teams) = nplayers teams.
Proof. unfold nplayers. apply fold_left_map_in. intros acc t _. now rewrite map_length. Qed.

Lemma draw_margin_scale beta teams :
  draw_margin (s * beta) (map (map fr) teams) = s * draw_margin beta teams.
Proof. unfold draw_margin. cbv zeta. now rewrite nplayers_map_gen, Hmr, Hml. Qed.

(** the three kinds of argument handed to [cdf] are unchanged *)
Lemma arg_win_scale beta n ta tb :
  fdiv (fsub (fst (agg (map fr ta))) (fst (agg (map fr tb))))
       (pair_scale (s * beta) n (agg (map fr ta)) (agg (map fr tb)))
  = fdiv (fsub (fst (agg ta)) (fst (agg tb))) (pair_scale beta n (agg ta) (agg tb)).
Proof.
  rewrite !agg_scale. cbn [fst]. rewrite pair_scale_scale, <- !surjective_pairing, Hsub. apply Hdiv.
Qed.
Lemma arg_draw1_scale beta n dm ta tb :
  fdiv (fadd (fsub (s * dm) (fst (agg (map fr ta)))) (fst (agg (map fr tb))))
       (pair_scale (s * beta) n (agg (map fr ta)) (agg (map fr tb)))
  = fdiv (fadd (fsub dm (fst (agg ta))) (fst (agg tb))) (pair_scale beta n (agg ta) (agg tb)).
Proof.
  rewrite !agg_scale. cbn [fst]. rewrite pair_scale_scale, <- !surjective_pairing, Hsub, Hadd. apply Hdiv.
Qed.
Lemma arg_draw2_scale beta n dm ta tb :
  fdiv (fsub (fsub (fst (agg (map fr ta))) (fst (agg (map fr tb)))) (s * dm))
       (pair_scale (s * beta) n (agg (map fr ta)) (agg (map fr tb)))
  = fdiv (fsub (fsub (fst (agg ta)) (fst (agg tb))) dm) (pair_scale beta n (agg ta) (agg tb)).
Proof.
  rewrite !agg_scale. cbn [fst]. rewrite pair_scale_scale, <- !surjective_pairing, !Hsub. apply Hdiv.
Qed.

Lemma predict_win_rows_gen b tms : length tms <> 2%nat ->
  predict_win b tms
  = map (fun ro => fdiv (py_sum (map (fun tb =>
             cdf (fdiv (fsub (fst (agg (fst ro))) (fst (agg tb))) (pair_scale b (length tms) (agg (fst ro)) (agg tb))))
             (snd ro))) (half_pairs (length tms))) (rows tms).
Proof. intros Hn. destruct tms as [|x [|y [|z r]]]; try reflexivity. now cbn in Hn. Qed.

Theorem predict_win_scale beta teams :
  predict_win (s * beta) (map (map fr) teams) = predict_win beta teams.
Proof.
  destruct (Nat.eq_dec (length teams) 2) as [E|E].
  - destruct teams as [|ta [|tb [|tc r]]]; try discriminate E.
    cbn [map]. unfold predict_win. cbv zeta. rewrite !map_length. now rewrite arg_win_scale.
  - rewrite !predict_win_rows_gen by (rewrite ?map_length; exact E).
    rewrite rows_map, !map_map, map_length. apply map_ext. intros [ta os]. cbn [fst snd].
    f_equal. f_equal. rewrite map_map. apply map_ext. intros tb. f_equal. apply arg_win_scale.
Qed.

Theorem predict_rank_probs_scale beta teams :
  predict_rank_probs (s * beta) (map (map fr) teams) = predict_rank_probs beta teams.
Proof.
  unfold predict_rank_probs. cbv zeta. rewrite draw_margin_scale, rows_map, !map_map, map_length.
  apply map_ext. intros [ta os]. cbn [fst snd].
  f_equal. f_equal. f_equal. rewrite map_map. apply map_ext. intros tb. f_equal. apply arg_draw2_scale.
Qed.

Theorem predict_rank_scale beta teams :
  predict_rank (s * beta) (map (map fr) teams) = predict_rank beta teams.
Proof. unfold predict_rank. cbv zeta. now rewrite predict_rank_probs_scale. Qed.

Theorem predict_draw_scale beta teams :
  predict_draw (s * beta) (map (map fr) teams) = predict_draw beta teams.
Proof.
  unfold predict_draw. cbv zeta. rewrite draw_margin_scale, map_length. f_equal. f_equal. f_equal.
  rewrite !flat_map_concat_map. f_equal. rewrite rows_map, !map_map. apply map_ext.
  intros [ta os]. cbn [fst snd]. rewrite map_map. apply map_ext. intros tb.
  now rewrite arg_draw1_scale, arg_draw2_scale.
Qed.

(** the default gamma callback [sqrt(sigma^2) / c] is scale free *)
Lemma gamma_default_scale c (n : nat) mu ss (team : list (rating R)) (rank : nat) :
  gamma_default (s * c) n (s * mu) (s * s * ss) (map fr team) rank = gamma_default c n mu ss team rank.
Proof. unfold gamma_default. now rewrite Hsq, Hdiv. Qed.

(** *** The rating update *)
Variables (P : params R) (g' : gamma_fn R).
(** the gamma callback of the rescaled model is the old one read in the new unit *)
Hypothesis Hg : forall c n mu ss team rank,
  g' (s * c) n (s * mu) (s * s * ss) (map fr team) rank = p_gamma P c n mu ss team rank.
Let P' := mkParams (s * p_beta P) (p_kappa P) g'.

Definition sod (od : R * R) : R * R := (s * fst od, snd od).
Lemma sod_zero : sod (fzero, fzero) = ((fzero, fzero) : R * R).
Proof. unfold sod. cbn [fst snd]. now rewrite Hz. Qed.

Lemma upd_scale ti o d p :
  update_player P' (ft ti) (s * o) d (fr p) = fr (update_player P ti o d p).
Proof.
  unfold update_player, fr, ft, scale_rating, scale_trating, set_mu_sigma, P'. cbv zeta.
  cbn [r_mu r_sigma r_id r_name t_ss p_kappa].
  now rewrite Hpw, div_ss, Hmr, Hadd, Hml.
Qed.

Lemma update_team_scale ti od : update_team P' (ft ti) (sod od) = map fr (update_team P ti od).
Proof.
  unfold update_team. change (t_team (ft ti)) with (map fr (t_team ti)). rewrite !map_map.
  apply map_ext. intros p. unfold sod. cbn [fst snd]. apply upd_scale.
Qed.

Lemma gamma_of_scale c trs ti : gamma_of P' (s * c) (map ft trs) (ft ti) = gamma_of P c trs ti.
Proof.
  unfold gamma_of, nteams. rewrite map_length.
  unfold P', ft, scale_trating. cbn [p_gamma t_mu t_ss t_team t_rank]. apply Hg.
Qed.

Definition iog (io : trating R * list (trating R)) := (ft (fst io), map ft (snd io)).

Lemma compute_pairs_scale (term term' : trating R -> R * R -> trating R -> R * R) opp :
  (forall ti tq od, term' (ft ti) (sod od) (ft tq) = sod (term ti od tq)) ->
  compute_pairs term' (map iog opp) P' = map (map fr) (compute_pairs term opp P).
Proof.
  intros Ht. unfold compute_pairs. rewrite !map_map. apply map_ext. intros [ti os].
  cbn [iog fst snd]. rewrite <- sod_zero at 1.
  rewrite (fold_left_transport sod (term' (ft ti)) (term ti) ft os) by (intros; apply Ht).
  apply update_team_scale.
Qed.

Lemma opponents_full_scale trs : opponents_full (map ft trs) = map iog (opponents_full trs).
Proof. unfold opponents_full. apply rows_map. Qed.
Lemma opponents_part_scale trs : opponents_part (map ft trs) = map iog (opponents_part trs).
Proof. unfold opponents_part. rewrite ladder_pairs_map, combine_map_both. reflexivity. Qed.

(** Bradley-Terry *)
Lemma c_iq_scale ti tq : c_iq P' (ft ti) (ft tq) = s * c_iq P ti tq.
Proof.
  unfold c_iq, P', ft, scale_trating. cbn [t_ss p_beta].
  now rewrite Hpw, mul_r_ss, !add_ss, Hsq.
Qed.

Lemma bt_term_scale trs ti tq od :
  bt_term P' (map ft trs) (ft ti) (sod od) (ft tq) = sod (bt_term P trs ti od tq).
Proof.
  unfold bt_term. cbv zeta. rewrite c_iq_scale. set (c := c_iq P ti tq).
  rewrite gamma_of_scale. set (g := gamma_of P c trs ti).
  unfold ft, scale_trating, sod. cbn [t_mu t_ss t_rank fst snd].
  set (sc := if Nat.ltb (t_rank ti) (t_rank tq) then fone
             else if Nat.eqb (t_rank tq) (t_rank ti) then fhalf else fzero).
  rewrite Hsub, Hdiv, div_ss_s, Hml, Hadd, Hmr, Hdiv. reflexivity.
Qed.

(** Plackett-Luce *)
Lemma fold_acc_scale_ss (h h' : trating R -> R) l :
  (forall t, h' (ft t) = s * s * h t) ->
  forall x, fold_left (fun acc t => fadd acc (h' t)) (map ft l) (s * s * x)
            = s * s * fold_left (fun acc t => fadd acc (h t)) l x.
Proof.
  intros Hh. induction l as [|t l IH]; intros x; cbn [map fold_left]; [reflexivity|].
  rewrite Hh, add_ss. apply IH.
Qed.

Lemma pl_c_scale trs : pl_c P' (map ft trs) = s * pl_c P trs.
Proof.
  unfold pl_c. rewrite <- zero_ss at 1.
  rewrite (fold_acc_scale_ss (fun t => fadd (t_ss t) (fpow2 (p_beta P)))
             (fun t => fadd (t_ss t) (fpow2 (p_beta P')))).
  - apply Hsq.
  - intros t. unfold P', ft, scale_trating. cbn [t_ss p_beta]. now rewrite Hpw, add_ss.
Qed.

Lemma pl_a_scale trs : pl_a (map ft trs) = pl_a trs.
Proof.
  unfold pl_a. rewrite map_map. apply map_ext. intros ti.
  rewrite filter_map_comm, map_length. reflexivity.
Qed.

Lemma pl_sum_q_scale trs c : pl_sum_q (map ft trs) (s * c) = pl_sum_q trs c.
Proof.
  unfold pl_sum_q. rewrite map_map. apply map_ext. intros tq.
  rewrite filter_map_comm, map_map. f_equal.
  apply map_ext. intros ti. unfold ft, scale_trating. cbn [t_mu]. now rewrite Hdiv.
Qed.

Definition qg (q : nat * (trating R * (R * nat))) := (fst q, (ft (fst (snd q)), snd (snd q))).

Lemma pl_step_scale i ti e od qt : pl_step i (ft ti) e od (qg qt) = pl_step i ti e od qt.
Proof. reflexivity. Qed.

Lemma pl_omega_delta_scale trs c qs i ti :
  pl_omega_delta P' (map ft trs) (s * c) (map qg qs) i (ft ti) = sod (pl_omega_delta P trs c qs i ti).
Proof.
  unfold pl_omega_delta. cbv zeta. rewrite gamma_of_scale.
  change (t_mu (ft ti)) with (s * t_mu ti). change (t_ss (ft ti)) with (s * s * t_ss ti).
  rewrite Hdiv, Hpw, div_ss_s, div_ss, Hmr.
  rewrite (fold_left_map_in (pl_step i (ft ti) (fexp (fdiv (t_mu ti) c))) (pl_step i ti (fexp (fdiv (t_mu ti) c))) qg qs)
    by (intros; apply pl_step_scale).
  reflexivity.
Qed.

Lemma compute_pl_scale trs : compute_pl P' (map ft trs) = map (map fr) (compute_pl P trs).
Proof.
  unfold compute_pl. cbv zeta. rewrite pl_c_scale. set (c := pl_c P trs).
  rewrite pl_sum_q_scale, pl_a_scale, map_length.
  set (qs := combine (seq 0 (length trs)) (combine trs (combine (pl_sum_q trs c) (pl_a trs)))).
  assert (Eq : combine (seq 0 (length trs)) (combine (map ft trs) (combine (pl_sum_q trs c) (pl_a trs)))
               = map qg qs).
  { unfold qs. rewrite combine_map_l, combine_map_r. reflexivity. }
  rewrite Eq, !map_map. apply map_ext. intros [n [t [sq k]]]. cbn [qg fst snd].
  rewrite (pl_omega_delta_scale trs c qs n t). apply update_team_scale.
Qed.

Theorem compute_scale k trs : k = PL \/ k = BTF \/ k = BTP ->
  compute k P' (map ft trs) = map (map fr) (compute k P trs).
Proof.
  intros [->|[->| ->]]; cbn [compute].
  - apply compute_pl_scale.
  - rewrite opponents_full_scale. apply compute_pairs_scale. intros; apply bt_term_scale.
  - rewrite opponents_part_scale. apply compute_pairs_scale. intros; apply bt_term_scale.
Qed.

(** [rate_core]: tau inflation, team ratings, sorting / unsorting, clamp *)
Lemma team_rating_scale t rank : team_rating (map fr t) rank = ft (team_rating t rank).
Proof.
  unfold team_rating, ft, scale_trating. cbn [t_mu t_ss t_team t_rank].
  now rewrite team_mu_scale, team_ss_scale.
Qed.

Lemma team_ratings_scale G ranks : team_ratings (map (map fr) G) ranks = map ft (team_ratings G ranks).
Proof.
  unfold team_ratings. rewrite combine_map_l, !map_map. apply map_ext. intros [t r]. cbn [fst snd].
  apply team_rating_scale.
Qed.

Lemma inflate_scale tau r : inflate (s * tau) (fr r) = fr (inflate tau r).
Proof.
  unfold inflate, set_sigma, fr, scale_rating, set_mu_sigma. cbn [r_mu r_sigma r_id r_name].
  now rewrite !mul_ss, add_ss, Hsq.
Qed.

Lemma clamp_player_scale x y : clamp_player (fr x) (fr y) = fr (clamp_player x y).
Proof.
  unfold clamp_player, set_sigma, fr, scale_rating, set_mu_sigma. cbn [r_mu r_sigma r_id r_name].
  rewrite Hleb. destruct (fleb (r_sigma y) (r_sigma x)); reflexivity.
Qed.

Lemma clamp_scale o r : clamp (map (map fr) o) (map (map fr) r) = map (map fr) (clamp o r).
Proof.
  unfold clamp. rewrite combine_map_both, !map_map. apply map_ext.
  intros [x y]. cbn [fst snd]. rewrite combine_map_both, !map_map. apply map_ext.
  intros [u v]. cbn [fst snd]. apply clamp_player_scale.
Qed.

Lemma rate_sorted_scale k G keys : k = PL \/ k = BTF \/ k = BTP ->
  rate_sorted k P' (map (map fr) G) keys = map (map fr) (rate_sorted k P G keys).
Proof.
  intros Hk. unfold rate_sorted. destruct keys as [ks|]; cbv zeta.
  - rewrite unwind_map. cbn [fst snd]. rewrite team_ratings_scale, (compute_scale k _ Hk), unwind_map. reflexivity.
  - rewrite map_length, team_ratings_scale. now apply compute_scale.
Qed.

Theorem rate_core_scale k tau lim teams keys : k = PL \/ k = BTF \/ k = BTP ->
  rate_core k P' (s * tau) lim (map (map fr) teams) keys = map (map fr) (rate_core k P tau lim teams keys).
Proof.
  intros Hk. unfold rate_core. cbv zeta.
  assert (E : map (map (inflate (s * tau))) (map (map fr) teams) = map (map fr) (map (map (inflate tau)) teams)).
  { rewrite !map_map. apply map_ext. intros t. rewrite !map_map. apply map_ext. intros r. apply inflate_scale. }
  rewrite E, (rate_sorted_scale k _ keys Hk).
  destruct lim; [apply clamp_scale | reflexivity].
Qed.

End Generic.

(** ** The closed statements for [FlxNum] and the factor 2^k *)
Lemma bpow2_powerRZ k : bpow radix2 k = powerRZ 2 k.
Proof. exact (bpow_powerRZ radix2 k). Qed.

Lemma rnd_powerRZ2 k x : rnd (powerRZ 2 k * x) = powerRZ 2 k * rnd x.
Proof. rewrite <- bpow2_powerRZ. apply rnd_pow2. Qed.

Lemma pw2_rnd_sq_powerRZ2 k x :
  rnd (powerRZ 2 k * x * (powerRZ 2 k * x)) = powerRZ 2 k * powerRZ 2 k * rnd (x * x).
Proof. rewrite <- bpow2_powerRZ. apply pw2_rnd_sq_pow2. Qed.

Section Flx.
Variables (ex erfc icdf pw2 : R -> R) (k : Z).
Hypothesis Hp : forall x, pw2 (powerRZ 2 k * x) = powerRZ 2 k * powerRZ 2 k * pw2 x.
Local Instance FN : Num R := FlxNum ex erfc icdf pw2.

Lemma FN_homog : homog FN (powerRZ 2 k).
Proof. rewrite <- bpow2_powerRZ. apply FlxNum_homog. rewrite bpow2_powerRZ. exact Hp. Qed.

Let fr := fun r : rating R => set_mu_sigma r (powerRZ 2 k * r_mu r) (powerRZ 2 k * r_sigma r).

Theorem predict_win_pow2_scale_flx53 beta teams :
  predict_win (powerRZ 2 k * beta) (map (map fr) teams) = predict_win beta teams.
Proof. exact (predict_win_scale (powerRZ 2 k) FN_homog beta teams). Qed.

Theorem predict_draw_pow2_scale_flx53 beta teams :
  predict_draw (powerRZ 2 k * beta) (map (map fr) teams) = predict_draw beta teams.
Proof. exact (predict_draw_scale (powerRZ 2 k) FN_homog beta teams). Qed.

Theorem predict_rank_probs_pow2_scale_flx53 beta teams :
  predict_rank_probs (powerRZ 2 k * beta) (map (map fr) teams) = predict_rank_probs beta teams.
Proof. exact (predict_rank_probs_scale (powerRZ 2 k) FN_homog beta teams). Qed.

Theorem predict_rank_pow2_scale_flx53 beta teams :
  predict_rank (powerRZ 2 k * beta) (map (map fr) teams) = predict_rank beta teams.
Proof. exact (predict_rank_scale (powerRZ 2 k) FN_homog beta teams). Qed.

Theorem gamma_default_pow2_scale_flx53 c (n : nat) mu ss (team : list (rating R)) (rank : nat) :
  gamma_default (powerRZ 2 k * c) n (powerRZ 2 k * mu) (powerRZ 2 k * powerRZ 2 k * ss) (map fr team) rank
  = gamma_default c n mu ss team rank.
Proof. exact (gamma_default_scale (powerRZ 2 k) FN_homog c n mu ss team rank). Qed.

Theorem compute_pow2_scale_flx53 (P : params R) (g' : gamma_fn R) :
  (forall c n mu ss team rank,
     g' (powerRZ 2 k * c) n (powerRZ 2 k * mu) (powerRZ 2 k * powerRZ 2 k * ss) (map fr team) rank
     = p_gamma P c n mu ss team rank) ->
  forall (kd : kind) (trs : list (trating R)), kd = PL \/ kd = BTF \/ kd = BTP ->
  compute kd (mkParams (powerRZ 2 k * p_beta P) (p_kappa P) g')
    (map (fun t => mkT (powerRZ 2 k * t_mu t) (powerRZ 2 k * powerRZ 2 k * t_ss t) (map fr (t_team t)) (t_rank t)) trs)
  = map (map fr) (compute kd P trs).
Proof. intros Hg kd trs Hk. exact (compute_scale (powerRZ 2 k) FN_homog P g' Hg kd trs Hk). Qed.

Theorem rate_pow2_scale_flx53 (P : params R) (g' : gamma_fn R) :
  (forall c n mu ss team rank,
     g' (powerRZ 2 k * c) n (powerRZ 2 k * mu) (powerRZ 2 k * powerRZ 2 k * ss) (map fr team) rank
     = p_gamma P c n mu ss team rank) ->
  forall (kd : kind) (tau : R) (limit_sigma : bool) (teams : list (list (rating R))) (keys : option (list key)),
  kd = PL \/ kd = BTF \/ kd = BTP ->
  rate_core kd (mkParams (powerRZ 2 k * p_beta P) (p_kappa P) g') (powerRZ 2 k * tau) limit_sigma
    (map (map fr) teams) keys
  = map (map fr) (rate_core kd P tau limit_sigma teams keys).
Proof.
  intros Hg kd tau lim teams keys Hk.
  exact (rate_core_scale (powerRZ 2 k) FN_homog P g' Hg kd tau lim teams keys Hk).
Qed.
End Flx.

(** ** Relation to IEEE 754 binary64

    A binary64 operation (Flocq's [b64_plus mode_NE] etc., the operations of [FloatInst.B64Num])
    on finite operands returns the double whose real value is the [rnd] of the exact result --
    i.e. exactly what [FlxNum] computes -- provided the exact result is zero or at least 2^-1022
    in magnitude (not in the subnormal range) and the rounded result is below 2^1024 (no
    overflow).  ([Bplus_correct] etc. give the rounding in the format FLT(-1074, 53);
    [round_FLT_FLX] identifies it with the FLX(53) rounding on the normal range.) *)
From Flocq Require Import Core.FLT IEEE754.BinarySingleNaN IEEE754.Binary IEEE754.Bits.

Definition Hp53 : (0 < 53)%Z := eq_refl.
Definition Hm53 : (53 < 1024)%Z := eq_refl.

Definition normal_or_zero (x : R) : Prop := x = 0 \/ bpow radix2 (-1022) <= Rabs x.

Lemma rnd_FLT x : normal_or_zero x ->
  round radix2 (FLT_exp (-1074) 53) (Znearest (fun x => negb (Z.even x))) x = rnd x.
Proof.
  intros [->|Hx].
  - unfold rnd. rewrite !round_0 by (apply valid_rnd_N). reflexivity.
  - unfold rnd. apply round_FLT_FLX. exact Hx.
Qed.

Lemma b64_plus_flx x y : is_finite 53 1024 x = true -> is_finite 53 1024 y = true ->
  normal_or_zero (B2R 53 1024 x + B2R 53 1024 y) ->
  Rabs (rnd (B2R 53 1024 x + B2R 53 1024 y)) < bpow radix2 1024 ->
  B2R 53 1024 (b64_plus mode_NE x y) = rnd (B2R 53 1024 x + B2R 53 1024 y)
  /\ is_finite 53 1024 (b64_plus mode_NE x y) = true.
Proof.
  intros Fx Fy Hn Ho.
  pose proof (Bplus_correct 53 1024 Hp53 Hm53 binop_nan_pl64 mode_NE x y Fx Fy) as C.
  cbn [round_mode] in C. change (SpecFloat.fexp 53 1024) with (FLT_exp (-1074) 53) in C.
  rewrite (rnd_FLT _ Hn) in C. rewrite Rlt_bool_true in C by exact Ho.
  destruct C as (C1 & C2 & _). split; assumption.
Qed.

Lemma b64_minus_flx x y : is_finite 53 1024 x = true -> is_finite 53 1024 y = true ->
  normal_or_zero (B2R 53 1024 x - B2R 53 1024 y) ->
  Rabs (rnd (B2R 53 1024 x - B2R 53 1024 y)) < bpow radix2 1024 ->
  B2R 53 1024 (b64_minus mode_NE x y) = rnd (B2R 53 1024 x - B2R 53 1024 y)
  /\ is_finite 53 1024 (b64_minus mode_NE x y) = true.
Proof.
  intros Fx Fy Hn Ho.
  pose proof (Bminus_correct 53 1024 Hp53 Hm53 binop_nan_pl64 mode_NE x y Fx Fy) as C.
  cbn [round_mode] in C. change (SpecFloat.fexp 53 1024) with (FLT_exp (-1074) 53) in C.
  rewrite (rnd_FLT _ Hn) in C. rewrite Rlt_bool_true in C by exact Ho.
  destruct C as (C1 & C2 & _). split; assumption.
Qed.

Lemma b64_mult_flx x y : is_finite 53 1024 x = true -> is_finite 53 1024 y = true ->
  normal_or_zero (B2R 53 1024 x * B2R 53 1024 y) ->
  Rabs (rnd (B2R 53 1024 x * B2R 53 1024 y)) < bpow radix2 1024 ->
  B2R 53 1024 (b64_mult mode_NE x y) = rnd (B2R 53 1024 x * B2R 53 1024 y)
  /\ is_finite 53 1024 (b64_mult mode_NE x y) = true.
Proof.
  intros Fx Fy Hn Ho.
  pose proof (Bmult_correct 53 1024 Hp53 Hm53 binop_nan_pl64 mode_NE x y) as C.
  cbn [round_mode] in C. change (SpecFloat.fexp 53 1024) with (FLT_exp (-1074) 53) in C.
  rewrite (rnd_FLT _ Hn) in C. rewrite Rlt_bool_true in C by exact Ho.
  destruct C as (C1 & C2 & _). rewrite Fx, Fy in C2. split; assumption.
Qed.

Lemma b64_div_flx x y : is_finite 53 1024 x = true -> B2R 53 1024 y <> 0 ->
  normal_or_zero (B2R 53 1024 x / B2R 53 1024 y) ->
  Rabs (rnd (B2R 53 1024 x / B2R 53 1024 y)) < bpow radix2 1024 ->
  B2R 53 1024 (b64_div mode_NE x y) = rnd (B2R 53 1024 x / B2R 53 1024 y)
  /\ is_finite 53 1024 (b64_div mode_NE x y) = true.
Proof.
  intros Fx Hy Hn Ho.
  pose proof (Bdiv_correct 53 1024 Hp53 Hm53 binop_nan_pl64 mode_NE x y Hy) as C.
  cbn [round_mode] in C. change (SpecFloat.fexp 53 1024) with (FLT_exp (-1074) 53) in C.
  rewrite (rnd_FLT _ Hn) in C. rewrite Rlt_bool_true in C by exact Ho.
  destruct C as (C1 & C2 & _). rewrite Fx in C2. split; assumption.
Qed.

Lemma b64_sqrt_flx x : normal_or_zero (sqrt (B2R 53 1024 x)) ->
  B2R 53 1024 (b64_sqrt mode_NE x) = rnd (sqrt (B2R 53 1024 x)).
Proof.
  intros Hn.
  destruct (Bsqrt_correct 53 1024 Hp53 Hm53 unop_nan_pl64 mode_NE x) as (C & _).
  cbn [round_mode] in C. change (SpecFloat.fexp 53 1024) with (FLT_exp (-1074) 53) in C.
  rewrite (rnd_FLT _ Hn) in C. exact C.
Qed.

(** non-vacuity of the hypotheses of [b64_plus_flx]: the doubles 1.0 and 0.5 *)
Lemma b64_one_R : B2R 53 1024 (b64_of_bits 4607182418800017408) = 1.
Proof.
  replace (b64_of_bits 4607182418800017408) with (B754_finite 53 1024 false 4503599627370496 (-52) eq_refl)
    by (apply B2FF_inj; vm_compute; reflexivity).
  unfold B2R, F2R. cbn. lra.
Qed.
Lemma b64_half_R : B2R 53 1024 (b64_of_bits 4602678819172646912) = / 2.
Proof.
  replace (b64_of_bits 4602678819172646912) with (B754_finite 53 1024 false 4503599627370496 (-53) eq_refl)
    by (apply B2FF_inj; vm_compute; reflexivity).
  unfold B2R, F2R. cbn. lra.
Qed.
Lemma rnd_3half : rnd (1 + / 2) = 1 + / 2.
Proof.
  unfold rnd. apply round_generic; [apply valid_rnd_N|].
  apply generic_format_FLX. apply (FLX_spec radix2 53 _ (Float radix2 3 (-1))).
  - unfold F2R. cbn. lra.
  - cbn. lia.
Qed.
Lemma b64_plus_flx_ex_hyps :
  is_finite 53 1024 (b64_of_bits 4607182418800017408) = true /\
  is_finite 53 1024 (b64_of_bits 4602678819172646912) = true /\
  normal_or_zero (B2R 53 1024 (b64_of_bits 4607182418800017408) + B2R 53 1024 (b64_of_bits 4602678819172646912)) /\
  Rabs (rnd (B2R 53 1024 (b64_of_bits 4607182418800017408) + B2R 53 1024 (b64_of_bits 4602678819172646912)))
    < bpow radix2 1024.
Proof.
  rewrite b64_one_R, b64_half_R, rnd_3half.
  assert (H1 : bpow radix2 (-1022) <= 1) by (change 1 with (bpow radix2 0); apply bpow_le; lia).
  assert (H2 : 2 < bpow radix2 1024) by (change 2 with (bpow radix2 1); apply bpow_lt; lia).
  repeat split.
  - right. rewrite Rabs_pos_eq by lra. lra.
  - rewrite Rabs_pos_eq by lra. lra.
Qed.

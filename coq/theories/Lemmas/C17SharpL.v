(** * C17SharpL: the sharp distance of [wt] to the exact W~ ("within 20 t").

    On the middle branch of [wt] (2^-52 <= window mass < 1e-5) the code replaces the mean
    [m] of the standard normal truncated to the window (a, b) = (-t-|x|, t-|x|) by the edge
    [b] of the window that is nearest to the mode.  Two facts give the constant 20:

    1. [mean_ge_mid]: for a window left of the mode (b <= 0) the truncated mean lies in the
       half of the window nearer to the mode: (a+b)/2 <= m (<= b).  This is derived from
       [GaussFacts] ALONE (no calculus hypothesis): by induction on k, halving the window
       k times, [gf_band] (mean >= left edge) on the 2^k pieces and [gf_window] (the piece
       nearer to the mode carries more mass) give  m >= (a+b)/2 - (b-a)/2 / 2^k;  let k -> oo.
       Hence |b^2 - m^2| = (b - m) |b + m| <= t * 2|x|.

    2. [window_mass_ge_eps_bound]: window mass >= 2^-52 forces |x| - t < 33/4, because
       Phi(-33/4) < phi(33/4) / (33/4) (Mills, [gf_mills]) < 2^-52; the numeric bound
       exp(-34) < 1.956e-15 is obtained by twelve squarings of exp(-1/128) < 128/129
       (no interval-arithmetic tactic), and sqrt(2 pi) > 12/5 from pi > 3. *)
From Coq Require Import Reals Lra.
From OSV Require Import Num Gauss RInst.
From OSV.Lemmas Require Import GaussL C17L.
Open Scope R_scope.

(** ** Numeric part: phi(33/4) / (33/4) < 2^-52 *)
Lemma exp_sq_up (x y u u' : R) : exp x < u -> y = x + x -> u * u <= u' -> exp y < u'.
Proof.
  intros H -> Hu. rewrite exp_plus. pose proof (exp_pos x) as P.
  assert (exp x * exp x < u * u) by (apply Rmult_le_0_lt_compat; lra).
  lra.
Qed.

Lemma exp_m2_m32_up :
  exp (- 2) < 1363912134529 / 10000000000000
  /\ exp (- 32) < 1434109431810 / 100000000000000000000000000.
Proof.
  assert (H0 : exp (- / 128) < 128 / 129).
  { rewrite exp_Ropp. pose proof (exp_ineq1 (/ 128) ltac:(lra)) as H.
    replace (128 / 129) with (/ (129 / 128)) by field.
    apply Rinv_lt_contravar; [|lra].
    apply Rmult_lt_0_compat; [lra | apply exp_pos]. }
  assert (H1 : exp (- / 64) < 9845562165736 / 10000000000000)
    by (apply (exp_sq_up (- / 128) _ (128 / 129)); [exact H0 | lra | lra]).
  assert (H2 : exp (- / 32) < 9693509435938 / 10000000000000)
    by (apply (exp_sq_up (- / 64) _ (9845562165736 / 10000000000000)); [exact H1 | lra | lra]).
  assert (H3 : exp (- / 16) < 9396412518462 / 10000000000000)
    by (apply (exp_sq_up (- / 32) _ (9693509435938 / 10000000000000)); [exact H2 | lra | lra]).
  assert (H4 : exp (- / 8) < 8829256821711 / 10000000000000)
    by (apply (exp_sq_up (- / 16) _ (9396412518462 / 10000000000000)); [exact H3 | lra | lra]).
  assert (H5 : exp (- / 4) < 7795577602374 / 10000000000000)
    by (apply (exp_sq_up (- / 8) _ (8829256821711 / 10000000000000)); [exact H4 | lra | lra]).
  assert (H6 : exp (- / 2) < 6077103015464 / 10000000000000)
    by (apply (exp_sq_up (- / 4) _ (7795577602374 / 10000000000000)); [exact H5 | lra | lra]).
  assert (H7 : exp (- 1) < 3693118106057 / 10000000000000)
    by (apply (exp_sq_up (- / 2) _ (6077103015464 / 10000000000000)); [exact H6 | lra | lra]).
  assert (H8 : exp (- 2) < 1363912134529 / 10000000000000)
    by (apply (exp_sq_up (- 1) _ (3693118106057 / 10000000000000)); [exact H7 | lra | lra]).
  assert (H9 : exp (- 4) < 1860256310716 / 100000000000000)
    by (apply (exp_sq_up (- 2) _ (1363912134529 / 10000000000000)); [exact H8 | lra | lra]).
  assert (H10 : exp (- 8) < 3460553541559 / 10000000000000000)
    by (apply (exp_sq_up (- 4) _ (1860256310716 / 100000000000000)); [exact H9 | lra | lra]).
  assert (H11 : exp (- 16) < 1197543081400 / 10000000000000000000)
    by (apply (exp_sq_up (- 8) _ (3460553541559 / 10000000000000000)); [exact H10 | lra | lra]).
  assert (H12 : exp (- 32) < 1434109431810 / 100000000000000000000000000)
    by (apply (exp_sq_up (- 16) _ (1197543081400 / 10000000000000000000)); [exact H11 | lra | lra]).
  split; assumption.
Qed.

Lemma exp_m34_up : exp (- 34) < 1955999256289 / 1000000000000000000000000000.
Proof.
  destruct exp_m2_m32_up as [H2 H32].
  replace (- 34) with (- 32 + - 2) by lra. rewrite exp_plus.
  pose proof (exp_pos (- 32)) as P32. pose proof (exp_pos (- 2)) as P2.
  assert (exp (- 32) * exp (- 2)
          < 1434109431810 / 100000000000000000000000000 * (1363912134529 / 10000000000000))
    by (apply Rmult_le_0_lt_compat; lra).
  lra.
Qed.

Lemma sqrt_2PI_low : 12 / 5 < sqrt (2 * PI).
Proof.
  pose proof PI2_3_2 as HPI.
  rewrite <- (sqrt_square (12 / 5)) by lra.
  apply sqrt_lt_1_alt. lra.
Qed.

Lemma phi_33_4_up : phi (33 / 4) < 1955999256289 / 1000000000000000000000000000 / (12 / 5).
Proof.
  unfold phi. pose proof sqrt_2PI_low as Hs. pose proof exp_m34_up as He.
  assert (Hx : exp (- (33 / 4 * (33 / 4)) / 2) < exp (- 34)) by (apply exp_increasing; lra).
  pose proof (exp_pos (- (33 / 4 * (33 / 4)) / 2)) as P.
  set (E := exp (- (33 / 4 * (33 / 4)) / 2)) in *.
  set (U := 1955999256289 / 1000000000000000000000000000) in *.
  assert (HU : 0 < U) by (unfold U; lra).
  apply Rlt_trans with (E / (12 / 5)).
  - unfold Rdiv. apply Rmult_lt_compat_l; [exact P|].
    apply Rinv_lt_contravar; [|exact Hs].
    apply Rmult_lt_0_compat; lra.
  - unfold Rdiv. apply Rmult_lt_compat_r; [|lra].
    apply Rinv_0_lt_compat. lra.
Qed.

(** ** Consequences of [GaussFacts] *)
Section C17SharpL.
Variables Phi Phiinv : R -> R.
Hypothesis GF : GaussFacts Phi Phiinv.
Local Notation NR := (C17L.RNi Phi Phiinv).
Local Notation eps := C17L.eps.
Local Notation Wt := (C17L.Wt Phi).
Local Notation Vt_abs := (C17L.Vt_abs Phi).

(** *** 1. the window mass is below 2^-52 beyond 33/4 *)
Lemma Phi_m33_4 : Phi (- (33 / 4)) < / 4503599627370496.
Proof.
  pose proof (gf_mills _ _ GF (- (33 / 4))) as M. rewrite phi_even in M.
  pose proof phi_33_4_up as U. lra.
Qed.

Lemma Phi_ge_eps_gt y : / 4503599627370496 <= Phi y -> - (33 / 4) < y.
Proof.
  intros H. destruct (Rlt_le_dec (- (33 / 4)) y) as [L|L]; [exact L|exfalso].
  apply (Phi_le Phi Phiinv GF) in L. pose proof Phi_m33_4. lra.
Qed.

Lemma window_mass_ge_eps_bound x t :
  / 4503599627370496 <= Phi (t - Rabs x) - Phi (- t - Rabs x) -> Rabs x < 33 / 4 + t.
Proof.
  intros H. pose proof (Phi_pos Phi Phiinv GF (- t - Rabs x)) as P.
  assert (H' : / 4503599627370496 <= Phi (t - Rabs x)) by lra.
  apply Phi_ge_eps_gt in H'. lra.
Qed.

(** *** 2. the truncated mean lies in the half of the window nearer to the mode *)
Lemma mean_ge_mid_k (k : nat) : forall c h, 0 < h -> c + h <= 0 ->
  (c - h * (/ 2) ^ k) * (Phi (c + h) - Phi (c - h)) <= phi (c - h) - phi (c + h).
Proof.
  induction k as [|k IH]; intros c h Hh Hc.
  - simpl. rewrite Rmult_1_r.
    pose proof (gf_band _ _ GF (c - h) (c + h) ltac:(lra)) as [H _]. exact H.
  - pose proof (IH (c - h / 2) (h / 2) ltac:(lra) ltac:(lra)) as H1.
    pose proof (IH (c + h / 2) (h / 2) ltac:(lra) ltac:(lra)) as H2.
    replace (c - h / 2 + h / 2) with c in H1 by field.
    replace (c - h / 2 - h / 2) with (c - h) in H1 by field.
    replace (c + h / 2 + h / 2) with (c + h) in H2 by field.
    replace (c + h / 2 - h / 2) with c in H2 by field.
    assert (HW : Phi c - Phi (c - h) <= Phi (c + h) - Phi c).
    { pose proof (gf_window _ _ GF (c + h / 2) (c - h / 2) (h / 2) ltac:(lra)) as W.
      replace (c - h / 2 + h / 2) with c in W by field.
      replace (c - h / 2 - h / 2) with (c - h) in W by field.
      replace (c + h / 2 + h / 2) with (c + h) in W by field.
      replace (c + h / 2 - h / 2) with c in W by field.
      apply W. rewrite !Rabs_left1 by lra. lra. }
    assert (K : 0 <= h / 2 * ((Phi (c + h) - Phi c) - (Phi c - Phi (c - h))))
      by (apply Rmult_le_pos; lra).
    simpl pow. set (E := (/ 2) ^ k) in *.
    set (Pm := Phi (c - h)) in *. set (P0 := Phi c) in *. set (Pp := Phi (c + h)) in *.
    set (fm := phi (c - h)) in *. set (f0 := phi c) in *. set (fp := phi (c + h)) in *.
    replace ((c - h * (/ 2 * E)) * (Pp - Pm))
      with ((c - h / 2 - h / 2 * E) * (P0 - Pm) + (c + h / 2 - h / 2 * E) * (Pp - P0)
            - h / 2 * (Pp - P0 - (P0 - Pm))) by field.
    lra.
Qed.

Lemma mean_ge_mid_ch c h : 0 < h -> c + h <= 0 ->
  c * (Phi (c + h) - Phi (c - h)) <= phi (c - h) - phi (c + h).
Proof.
  intros Hh Hc.
  pose proof (Phi_diff_pos Phi Phiinv GF (c - h) (c + h) ltac:(lra)) as HD.
  set (D := Phi (c + h) - Phi (c - h)) in *. set (f := phi (c - h) - phi (c + h)).
  destruct (Rle_lt_dec (c * D) f) as [L|L]; [exact L|exfalso].
  set (g := c * D - f). assert (Hg : 0 < g) by (unfold g; lra).
  assert (HhD : 0 < h * D) by (apply Rmult_lt_0_compat; lra).
  assert (Hy : 0 < g / (h * D)) by (apply Rdiv_lt_0_compat; assumption).
  assert (Hhalf : Rabs (/ 2) < 1) by (rewrite Rabs_right; lra).
  destruct (pow_lt_1_zero (/ 2) Hhalf (g / (h * D)) Hy) as [N HN].
  specialize (HN N (le_n N)).
  assert (HE : 0 < (/ 2) ^ N) by (apply pow_lt; lra).
  rewrite Rabs_right in HN by lra.
  pose proof (mean_ge_mid_k N c h Hh Hc) as HK. fold D in HK. fold f in HK.
  set (E := (/ 2) ^ N) in *.
  assert (HM : h * D * E < g).
  { apply (Rmult_lt_compat_l (h * D)) in HN; [|exact HhD].
    replace (h * D * (g / (h * D))) with g in HN by (field; lra). exact HN. }
  unfold g in HM.
  replace ((c - h * E) * D) with (c * D - h * D * E) in HK by ring.
  lra.
Qed.

Lemma mean_ge_mid a b : a < b -> b <= 0 ->
  (a + b) / 2 <= (phi a - phi b) / (Phi b - Phi a).
Proof.
  intros Hab Hb.
  pose proof (Phi_diff_pos Phi Phiinv GF a b Hab) as HD.
  pose proof (mean_ge_mid_ch ((a + b) / 2) ((b - a) / 2) ltac:(lra) ltac:(lra)) as H.
  replace ((a + b) / 2 + (b - a) / 2) with b in H by field.
  replace ((a + b) / 2 - (b - a) / 2) with a in H by field.
  apply (Rmult_le_reg_r (Phi b - Phi a)); [exact HD|].
  unfold Rdiv at 2. rewrite Rmult_assoc, Rinv_l, Rmult_1_r by lra. exact H.
Qed.

Lemma mean_mode_half a b : a < b -> b <= 0 ->
  (a + b) / 2 <= (phi a - phi b) / (Phi b - Phi a) <= b.
Proof.
  intros Hab Hb. split; [apply mean_ge_mid; assumption|].
  apply (trunc_mean_in_window Phi Phiinv GF). exact Hab.
Qed.

(** in the |x| picture: for t <= y the mean of the window (-t-y, t-y) lies in [-y, t-y] *)
Lemma trunc_mean_mode_half y t : 0 < t -> t <= y ->
  - y <= (phi (- t - y) - phi (t - y)) / (Phi (t - y) - Phi (- t - y)) <= t - y.
Proof.
  intros Ht Hy. split.
  - pose proof (mean_ge_mid (- t - y) (t - y) ltac:(lra) ltac:(lra)) as H.
    replace ((- t - y + (t - y)) / 2) with (- y) in H by field. exact H.
  - apply (trunc_mean_in_window Phi Phiinv GF). lra.
Qed.

Lemma edge_sq_dist y t m : 0 < t -> t <= y -> - y <= m <= t - y ->
  Rabs ((t - y) * (t - y) - m * m) <= 2 * t * y.
Proof.
  intros Ht Hy [H1 H2].
  replace ((t - y) * (t - y) - m * m) with (- ((t - y - m) * (- (t - y + m)))) by ring.
  rewrite Rabs_Ropp, Rabs_mult.
  rewrite (Rabs_right (t - y - m)) by lra. rewrite (Rabs_right (- (t - y + m))) by lra.
  replace (2 * t * y) with (t * (2 * y)) by ring.
  apply Rmult_le_compat; lra.
Qed.

(** *** 3. the middle branch of wt *)
Lemma vt_sq x t :
  Phi (t - Rabs x) - Phi (- t - Rabs x) < @f1em5 R NR ->
  @vt R NR x t * @vt R NR x t = (t - Rabs x) * (t - Rabs x).
Proof.
  intros H. rewrite (C17L.vt_asym_value Phi Phiinv x t H).
  destruct (Rltb x 0) eqn:E.
  - apply Rltb_true in E. rewrite (Rabs_left x E). ring.
  - apply Rltb_false in E. rewrite (Rabs_pos_eq x E). ring.
Qed.

Lemma Vt_abs_sq x t :
  Vt_abs x t * Vt_abs x t
  = (phi (- t - Rabs x) - phi (t - Rabs x)) / (Phi (t - Rabs x) - Phi (- t - Rabs x))
    * ((phi (- t - Rabs x) - phi (t - Rabs x)) / (Phi (t - Rabs x) - Phi (- t - Rabs x))).
Proof. unfold C17L.Vt_abs; cbv zeta. destruct (Rlt_dec x 0); ring. Qed.

Lemma wt_middle_sharp x t :
  0 < t <= 1 -> t <= Rabs x ->
  eps <= Phi (t - Rabs x) - Phi (- t - Rabs x) ->
  Phi (t - Rabs x) - Phi (- t - Rabs x) < @f1em5 R NR ->
  Rabs (@wt R NR x t - Wt x t) <= 2 * t * Rabs x.
Proof.
  intros [Ht Ht1] Hx He H5.
  pose proof (C17L.Wt_range Phi Phiinv GF x t Ht) as HW.
  assert (HW01 : 0 <= Wt x t <= 1) by nra.
  rewrite (C17L.wt_eq Phi Phiinv x t).
  apply Rltb_false in He. rewrite He.
  eapply Rle_trans; [apply clamp_dist; exact HW01|].
  rewrite <- (C17L.Wt_abs_eq Phi Phiinv GF x t). unfold C17L.Wt_abs.
  match goal with |- Rabs (?q + ?a - (?q + ?b)) <= _ => replace (q + a - (q + b)) with (a - b) by ring end.
  rewrite (vt_sq x t H5), Vt_abs_sq.
  apply edge_sq_dist; [exact Ht | exact Hx |].
  apply trunc_mean_mode_half; assumption.
Qed.

(** *** 4. every branch *)
Lemma middle_branch_x_bound x t :
  eps <= Phi (t - Rabs x) - Phi (- t - Rabs x) -> Rabs x < 33 / 4 + t.
Proof. unfold C17L.eps. apply window_mass_ge_eps_bound. Qed.

(** general form: 2 t |x| + 8 t^2 for every x and 0 < t <= 1 *)
Lemma wt_distance_sharp x t :
  0 < t <= 1 -> Rabs (@wt R NR x t - Wt x t) <= 2 * t * Rabs x + 8 * (t * t).
Proof.
  intros [Ht Ht1]. pose proof (Rabs_pos x) as Hax.
  destruct (Rlt_le_dec (Phi (t - Rabs x) - Phi (- t - Rabs x)) eps) as [He|He].
  { pose proof (C17L.wt_guard_distance Phi Phiinv GF x t Ht He). nra. }
  destruct (Rlt_le_dec (Phi (t - Rabs x) - Phi (- t - Rabs x)) (@f1em5 R NR)) as [H5|H5].
  2:{ rewrite (C17L.wt_exact_small_t Phi Phiinv GF x t H5 Ht1).
      rewrite Rminus_diag_eq, Rabs_R0 by reflexivity. nra. }
  destruct (Rle_lt_dec t (Rabs x)) as [Hx|Hx].
  - pose proof (wt_middle_sharp x t (conj Ht Ht1) Hx He H5). nra.
  - pose proof (C17L.wt_distance Phi Phiinv GF x t (conj Ht Ht1)). nra.
Qed.

(** the constant of the property: 20 t for 0 < t <= 1/100 *)
Lemma wt_distance_20t x t :
  0 < t <= / 100 -> Rabs (@wt R NR x t - Wt x t) <= 20 * t.
Proof.
  intros [Ht Ht1]. pose proof (Rabs_pos x) as Hax.
  destruct (Rlt_le_dec (Phi (t - Rabs x) - Phi (- t - Rabs x)) eps) as [He|He].
  { pose proof (C17L.wt_guard_distance Phi Phiinv GF x t Ht He). nra. }
  pose proof (wt_distance_sharp x t ltac:(lra)) as H.
  pose proof (middle_branch_x_bound x t He) as Hb.
  set (y := Rabs x) in *. nra.
Qed.

End C17SharpL.

(** * C01RefutedL: the Thurstone-Mosteller PARTIAL model does NOT compute the published
    closed form (finding K1), by witness.

    [C01L.C01_TMP_refines_scaled] says [rate_core TMP = wl_update_f 2 TMP] (c_iq doubled).
    Here: on a concrete valid game the closed form with factor 2 differs from the published
    one (factor 1), hence [rate_core TMP <> wl_update TMP].

    Witness: two single-player teams, mu = 0, sigma = 1 each; beta = 1, kappa = 1/1000,
    gamma_default, tau = 0, limit_sigma off, rank keys 0 < 1 (the first team wins).
    Then c = sqrt (1 + 1 + 2) = 2, x = 0, and the posterior mu of the winner is
      (1 / (2 f)) * V (- 1 / (2000 f)),      V y = phi y / Phi y,
    i.e. 1/2 V(-1/2000) for the paper (f = 1) and 1/4 V(-1/4000) for the code (f = 2).
    They differ because V(-1/4000) < 2 V(-1/2000): from Sampford's inequality
    Phi(y)^2 > phi y (phi y + y Phi y), Phi(y) < 1/2 for y < 0, phi >= (1 - y^2/2)/3
    (PI <= 4, exp u >= 1 + u). *)
From Coq Require Import List ZArith Bool Reals Lra Lia.
From OSV Require Import Num Order Gauss Core RInst Spec.
From OSV Require GaussInst GaussFull.
From OSV.Lemmas Require Import GaussL.
From OSV.Lemmas Require C01L.
Import ListNotations.
Open Scope R_scope.

(** the observation that separates the two results: posterior mu of the first player of the
    first team *)
Definition mu00 (res : list (list (rating R))) : R :=
  r_mu (hd (mkRating 0 0 0%Z NmNone) (hd [] res)).

Section Reduce.
Variables Phi Phiinv : R -> R.

(** ** the closed form on a two-team, one-player-each game with keys 0 < 1 *)
Lemma mu00_two_singletons (f : R) (P : params R) (tau : R) (p0 p1 : rating R) :
  mu00 (wl_update_f Phi Phiinv f TMP P tau false [[p0]; [p1]] (Some [(0, 0); (1, 0)]%Z))
  = let q0 := inflate_sigma tau p0 in
    let q1 := inflate_sigma tau p1 in
    r_mu q0 + r_sigma q0 * r_sigma q0 / ssq [q0]
              * Rsum [tm_omega_term Phi Phiinv f P ((0, 0)%Z, [q0]) ((1, 0)%Z, [q1])].
Proof. reflexivity. Qed.

(** the witness: beta = 1, kappa = 1/1000, the default gamma; two players N(0, 1) *)
Definition P0 : params R := mkParams 1 (1 / 1000) (fun c _ _ ss _ _ => sqrt ss / c).
Definition pa : rating R := mkRating 0 1 0%Z NmNone.
Definition pb : rating R := mkRating 0 1 1%Z NmNone.
Definition teams0 : list (list (rating R)) := [[pa]; [pb]].
Definition keys0 : option (list key) := Some [(0, 0); (1, 0)]%Z.

(** on the witness the winner's posterior mu is (1 / (2 f)) V(- 1/1000 / (2 f)), provided the
    exact branch of V is taken *)
Lemma mu00_witness (f : R) : 0 < f ->
  / 4503599627370496 <= Phi (0 - 1 / 1000 / (f * 2)) ->
  mu00 (wl_update_f Phi Phiinv f TMP P0 0 false teams0 keys0)
  = / (f * 2) * (phi (0 - 1 / 1000 / (f * 2)) / Phi (0 - 1 / 1000 / (f * 2))).
Proof.
  intros Hf Hg. unfold teams0, keys0. rewrite mu00_two_singletons. cbv zeta.
  unfold tm_omega_term. cbv zeta. cbn [fst snd].
  change (key_ltb (0, 0)%Z (1, 0)%Z) with true. cbv iota.
  unfold c_pair, theta, ssq, inflate_sigma, set_sigma, set_mu_sigma, pa, pb, P0.
  cbn [map Rsum r_mu r_sigma p_beta p_kappa].
  replace (1 * 1 + 0 * 0) with 1 by ring. rewrite sqrt_1.
  replace (1 * 1 + 0 + (1 * 1 + 0) + 2 * (1 * 1)) with (2 * 2) by ring.
  rewrite sqrt_square by lra.
  replace ((0 + 0 - (0 + 0)) / (f * 2)) with 0 by (field; lra).
  destruct (C01L.gauss_exact_branch Phi Phiinv 0 (1 / 1000 / (f * 2))) as [Hv _].
  destruct Hv as [Ev _].
  { pose proof (R_feps Phi Phiinv) as E.
    change (@feps R (RInst.RN Phi Phiinv)) with (@feps R (Spec.RN Phi Phiinv)) in E.
    rewrite E. exact Hg. }
  rewrite Ev.
  set (V := phi _ / Phi _). field. lra.
Qed.

End Reduce.

(** ** numeric part *)
Lemma sqrt_2PI_lt_3 : sqrt (2 * PI) < 3.
Proof.
  pose proof PI_4 as H4. pose proof PI_RGT_0 as H0.
  replace 3 with (sqrt (3 * 3)) by (apply sqrt_square; lra).
  apply sqrt_lt_1_alt. lra.
Qed.

Lemma phi_gt_033 (t : R) : t * t <= 1 / 100 -> 33 / 100 < phi t.
Proof.
  intros Ht. unfold phi.
  pose proof (exp_ineq1_le (- (t * t) / 2)) as He.
  pose proof sqrt_2PI_lt_3 as Hs. pose proof sqrt_2PI_pos as Hp.
  set (e := exp (- (t * t) / 2)) in *. set (s := sqrt (2 * PI)) in *.
  assert (He' : 199 / 200 <= e) by lra.
  apply (Rmult_lt_reg_r s); [exact Hp|].
  replace (e / s * s) with e by (field; lra). nra.
Qed.

Section Numeric.
Variables Phi Phiinv : R -> R.
Hypothesis GF : GaussFacts Phi Phiinv.

(** V(-1/4000) < 2 V(-1/2000): halving a small margin does not double V *)
Lemma V_halving :
  phi (0 - 1 / 1000 / (2 * 2)) / Phi (0 - 1 / 1000 / (2 * 2))
  < 2 * (phi (0 - 1 / 1000 / (1 * 2)) / Phi (0 - 1 / 1000 / (1 * 2))).
Proof.
  replace (0 - 1 / 1000 / (2 * 2)) with (- (1 / 4000)) by field.
  replace (0 - 1 / 1000 / (1 * 2)) with (- (1 / 2000)) by field.
  pose proof (Phi_pos Phi Phiinv GF (- (1 / 4000))) as HA0.
  pose proof (Phi_neg_lt_half Phi Phiinv GF (- (1 / 4000)) ltac:(lra)) as HA1.
  pose proof (Phi_pos Phi Phiinv GF (- (1 / 2000))) as HB0.
  pose proof (Phi_neg_lt_half Phi Phiinv GF (- (1 / 2000)) ltac:(lra)) as HB1.
  pose proof (phi_gt_033 (- (1 / 4000)) ltac:(lra)) as Hp.
  pose proof (phi_gt_033 (- (1 / 2000)) ltac:(lra)) as Hq.
  pose proof (gf_sampford _ _ GF (- (1 / 4000))) as HS.
  set (A := Phi (- (1 / 4000))) in *. set (B := Phi (- (1 / 2000))) in *.
  set (p := phi (- (1 / 4000))) in *. set (q := phi (- (1 / 2000))) in *.
  assert (HAB : 0 < A * B) by (apply Rmult_lt_0_compat; assumption).
  apply (Rmult_lt_reg_r (A * B)); [exact HAB|].
  replace (p / A * (A * B)) with (p * B) by (field; lra).
  replace (2 * (q / B) * (A * B)) with (2 * q * A) by (field; lra).
  destruct (Rlt_le_dec (p * B) (2 * q * A)) as [L|L]; [exact L|exfalso].
  assert (H1 : p * B < p * / 2) by (apply Rmult_lt_compat_l; lra).
  assert (H2 : 66 / 100 * A < 2 * q * A) by (apply Rmult_lt_compat_r; lra).
  assert (H3 : A < 76 / 100 * p) by lra.
  assert (H4 : A * A < 76 / 100 * p * (76 / 100 * p))
    by (apply Rmult_le_0_lt_compat; lra).
  assert (H5 : p * A < p * / 2) by (apply Rmult_lt_compat_l; lra).
  assert (H6 : 33 / 100 * p < p * p) by (apply Rmult_lt_compat_r; lra).
  lra.
Qed.

(** the exact branch of V is taken at both margins *)
Lemma guard_ok (t : R) : t < 8 -> / 4503599627370496 <= Phi (0 - t).
Proof.
  intros Ht. pose proof (gf_tail8 _ _ GF) as H8.
  pose proof (gf_mono _ _ GF (- 8) (0 - t) ltac:(lra)). lra.
Qed.

(** the closed form with the code's factor 2 gives the winner a strictly smaller mu than
    the published one *)
Lemma scaled_mu_lt :
  mu00 (wl_update_f Phi Phiinv 2 TMP P0 0 false teams0 keys0)
  < mu00 (wl_update Phi Phiinv TMP P0 0 false teams0 keys0).
Proof.
  unfold wl_update.
  rewrite (mu00_witness Phi Phiinv 2) by (try lra; apply guard_ok; lra).
  rewrite (mu00_witness Phi Phiinv 1) by (try lra; apply guard_ok; lra).
  pose proof V_halving as H.
  set (V2 := phi _ / Phi _) in *. set (V1 := phi _ / Phi (0 - 1 / 1000 / (1 * 2))) in *.
  replace (/ (2 * 2)) with (/ 4) by (f_equal; ring).
  replace (/ (1 * 2)) with (/ 2) by (f_equal; ring). lra.
Qed.

Lemma witness_valid :
  0 < p_beta P0 /\ 0 < p_kappa P0 <= 1 /\ 0 <= 0 /\
  (2 <= length teams0)%nat /\ Forall (fun t => t <> []) teams0 /\
  Forall (Forall (fun p : rating R => 0 <= r_sigma p /\ 0 < r_sigma p * r_sigma p + 0 * 0)) teams0 /\
  match keys0 with
  | Some ks => length ks = length teams0 /\ Forall (fun k : key => (0 <= snd k)%Z) ks
  | None => True
  end.
Proof.
  cbn. repeat split; try lra; try (repeat constructor; discriminate); try (repeat constructor; cbn; lia).
  repeat constructor; cbn; lra.
Qed.

Lemma witness_keys_ok : C01L.keys_ok (length teams0) keys0.
Proof. cbn. split; [reflexivity|]. repeat constructor; unfold OrderL2.key_wf; cbn; lia. Qed.

(** the code's result on the witness: strictly smaller winner's mu than the published form *)
Theorem TMP_witness_mu_lt :
  mu00 (@rate_core R (RNum Phi Phiinv) TMP P0 0 false teams0 keys0)
  < mu00 (wl_update Phi Phiinv TMP P0 0 false teams0 keys0).
Proof.
  pose proof (C01L.C01_TMP_refines_scaled Phi Phiinv P0 0 false teams0 keys0 witness_keys_ok) as E.
  change (@rate_core R (Spec.RN Phi Phiinv)) with (@rate_core R (RNum Phi Phiinv)) in E.
  rewrite E. exact scaled_mu_lt.
Qed.

Theorem TMP_witness_neq :
  @rate_core R (RNum Phi Phiinv) TMP P0 0 false teams0 keys0
  <> wl_update Phi Phiinv TMP P0 0 false teams0 keys0.
Proof.
  intros E. pose proof TMP_witness_mu_lt as H. rewrite E in H. lra.
Qed.

Theorem TMP_refuted_gen :
  exists (P : params R) (tau : R) (teams : list (list (rating R))) (keys : option (list key)),
    (0 < p_beta P /\ 0 < p_kappa P <= 1 /\ 0 <= tau /\
     (2 <= length teams)%nat /\ Forall (fun t => t <> []) teams /\
     Forall (Forall (fun p : rating R => 0 <= r_sigma p /\ 0 < r_sigma p * r_sigma p + tau * tau)) teams /\
     match keys with
     | Some ks => length ks = length teams /\ Forall (fun k : key => (0 <= snd k)%Z) ks
     | None => True
     end) /\
    @rate_core R (RNum Phi Phiinv) TMP P tau false teams keys
    <> wl_update Phi Phiinv TMP P tau false teams keys.
Proof.
  exists P0, 0, teams0, keys0. split; [exact witness_valid | exact TMP_witness_neq].
Qed.

End Numeric.

(** the reduction, for every valid call: a difference between the factor-2 and the factor-1
    closed forms IS a difference between the code and the published form *)
Lemma TMP_refuted_reduction (Phi Phiinv : R -> R) (P : params R) (tau : R) (lim : bool)
    (teams : list (list (rating R))) (keys : option (list key)) :
  C01L.keys_ok (length teams) keys ->
  wl_update_f Phi Phiinv 2 TMP P tau lim teams keys <> wl_update Phi Phiinv TMP P tau lim teams keys ->
  @rate_core R (RNum Phi Phiinv) TMP P tau lim teams keys <> wl_update Phi Phiinv TMP P tau lim teams keys.
Proof.
  intros K Hne E. apply Hne. rewrite <- E. symmetry.
  exact (C01L.C01_TMP_refines_scaled Phi Phiinv P tau lim teams keys K).
Qed.

(** ** the concrete normal distribution function: no hypothesis left *)
Theorem TMP_refuted :
  exists (P : params R) (tau : R) (teams : list (list (rating R))) (keys : option (list key)),
    (0 < p_beta P /\ 0 < p_kappa P <= 1 /\ 0 <= tau /\
     (2 <= length teams)%nat /\ Forall (fun t => t <> []) teams /\
     Forall (Forall (fun p : rating R => 0 <= r_sigma p /\ 0 < r_sigma p * r_sigma p + tau * tau)) teams /\
     match keys with
     | Some ks => length ks = length teams /\ Forall (fun k : key => (0 <= snd k)%Z) ks
     | None => True
     end) /\
    @rate_core R (RNum GaussInst.PhiK GaussInst.PhiinvK) TMP P tau false teams keys
    <> wl_update GaussInst.PhiK GaussInst.PhiinvK TMP P tau false teams keys.
Proof. exact (TMP_refuted_gen _ _ GaussFull.GaussFacts_inst). Qed.
Print Assumptions TMP_refuted.

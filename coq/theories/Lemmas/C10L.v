(** * C10L: predict_draw is a probability, symmetric, and largest for evenly
    matched teams (on R, under [GaussCDF]). *)
From Coq Require Import List ZArith Arith Bool Lia Permutation Reals Lra.
From OSV Require Import Num Order Gauss Core Predict RInst.
From OSV.Lemmas Require Import PredictDrawL.
Import ListNotations.

Section OnR.
Variables Phi Phiinv : R -> R.
Hypothesis GF : GaussCDF Phi Phiinv.
Local Hint Extern 0 (Num R) => exact (RN Phi Phiinv) : typeclass_instances.

Implicit Types (beta : R) (t : list (rating R)) (teams : list (list (rating R))) (a b : R * R).

Notation wterm := (wterm Phi Phiinv).
Notation margin := (margin Phiinv).
Notation W := (W Phi).
Notation PD := (PD Phi Phiinv).

Lemma wterm_sym beta n N a b : wterm beta n N b a = wterm beta n N a b.
Proof.
  unfold PredictDrawL.wterm. rewrite (sc_sym beta n b a).
  replace ((fst b - fst a) / sc beta n a b) with (- ((fst a - fst b) / sc beta n a b))
    by (unfold Rdiv; ring).
  apply (W_even Phi Phiinv GF).
Qed.

Lemma den_pos n : 0 < den n.
Proof.
  unfold den. destruct (Nat.ltb 2 n) eqn:E; [|lra].
  apply Nat.ltb_lt in E. apply lt_0_INR. destruct n as [|[|n]]; lia.
Qed.

(** *** range *)
Lemma PD_nonneg beta n N aggs : 0 <= PD beta n N aggs.
Proof.
  unfold PredictDrawL.PD. apply Rmult_le_pos; [apply Rabs_pos|].
  apply Rlt_le, Rinv_0_lt_compat, den_pos.
Qed.

Lemma valid_N teams : (2 <= length teams)%nat -> Forall (fun t => t <> []) teams ->
  (2 <= nplayers teams)%nat.
Proof. intros Hn Hne. pose proof (nplayers_ge teams Hne). lia. Qed.

Lemma C10_range_lower_l beta teams :
  0 < beta -> (2 <= length teams)%nat -> Forall (fun t => t <> []) teams ->
  0 <= predict_draw beta teams.
Proof. intros _ _ _. rewrite (predict_draw_norm Phi Phiinv GF). apply PD_nonneg. Qed.

Lemma C10_range_upper_n_gt_2_l beta teams :
  0 < beta -> (2 < length teams)%nat -> Forall (fun t => t <> []) teams ->
  predict_draw beta teams <= 1.
Proof.
  intros Hb Hn Hne. rewrite (predict_draw_norm Phi Phiinv GF). unfold PredictDrawL.PD.
  destruct (pairsum_wterm_range Phi Phiinv GF beta (length teams) (nplayers teams) (map agg teams))
    as [Hw0 Hw1]; try assumption; try lia.
  { apply valid_N; [lia|assumption]. }
  { apply aggs_var_nonneg. }
  rewrite map_length in Hw1. rewrite Rabs_pos_eq by assumption.
  unfold den. replace (Nat.ltb 2 (length teams)) with true by (symmetry; now apply Nat.ltb_lt).
  assert (0 < INR (length teams * (length teams - 1))).
  { apply lt_0_INR. destruct (length teams) as [|[|n]]; lia. }
  apply (Rmult_le_reg_r (INR (length teams * (length teams - 1)))); [assumption|].
  unfold Rdiv. rewrite Rmult_assoc, Rinv_l by lra. lra.
Qed.

(** two teams: the margin over the scale is at most the 3/4 quantile *)
Lemma Phi_h_two beta N a b : 0 < beta -> (2 <= N)%nat -> 0 <= snd a -> 0 <= snd b ->
  Phi (margin beta N / sc beta 2 a b) <= 3 / 4.
Proof.
  intros Hb HN Ha Hbb.
  assert (H12 : (1 <= 2)%nat) by lia.
  pose proof (sc_pos beta 2 a b Hb H12 Ha Hbb) as Hs.
  assert (Hs2 : sc beta 2 a b * sc beta 2 a b = 2 * (beta * beta) + snd a + snd b).
  { unfold sc. rewrite sqrt_sqrt; cbn [INR]; nra. }
  destruct (zN_facts Phi Phiinv GF N HN) as [Hz HPz].
  assert (Hn2 : 2 <= INR N) by (change 2 with (INR 2); now apply le_INR).
  assert (HsN : 0 < sqrt (INR N)) by (apply sqrt_lt_R0; lra).
  assert (HsN2 : sqrt (INR N) * sqrt (INR N) = INR N) by (apply sqrt_sqrt; lra).
  unfold PredictDrawL.margin.
  set (z := Phiinv ((1 + 1 / INR N) / 2)) in *.
  set (s := sc beta 2 a b) in *. set (r := sqrt (INR N)) in *.
  set (q := r * beta / s).
  assert (Hq : 0 < q).
  { unfold q. apply Rdiv_lt_0_compat; [|assumption]. now apply Rmult_lt_0_compat. }
  replace (r * beta * z / s) with (q * z) by (unfold q, Rdiv; ring).
  assert (Hq2 : q * q <= INR N / 2).
  { assert (E : q * q * (s * s) = INR N * (beta * beta)).
    { unfold q. rewrite <- HsN2. field. lra. }
    apply (Rmult_le_reg_r (s * s)); [nra|]. rewrite E, Hs2.
    assert (0 <= INR N * (snd a + snd b)) by nra. lra. }
  assert (HNinv : / (2 * INR N) <= / 4) by (apply Rinv_le_contravar; lra).
  destruct (Rle_dec q 1) as [Hq1|Hq1].
  - assert (Phi (q * z) <= Phi z) by (apply (Phi_le Phi Phiinv GF); nra). lra.
  - assert (Hq1' : 1 < q) by lra.
    assert (Hl : 0 <= / q <= 1).
    { split; [apply Rlt_le, Rinv_0_lt_compat; lra|].
      rewrite <- Rinv_1. apply Rinv_le_contravar; lra. }
    assert (Hx : 0 <= q * z) by nra.
    pose proof (gc_star _ _ GF (/ q) (q * z) Hl Hx) as Hst.
    replace (/ q * (q * z)) with z in Hst by (field; lra).
    assert (HX : Phi (q * z) - / 2 <= q * / (2 * INR N)).
    { replace (Phi (q * z) - / 2) with (q * (/ q * (Phi (q * z) - / 2))) by (field; lra).
      apply Rmult_le_compat_l; lra. }
    assert (H2q : 2 * q <= INR N) by nra.
    assert (q * / (2 * INR N) <= / 4).
    { apply (Rmult_le_reg_r (2 * INR N)); [lra|].
      rewrite Rmult_assoc, Rinv_l by lra. lra. }
    lra.
Qed.

Lemma PD_two beta N a b : 0 < beta -> (2 <= N)%nat -> 0 <= snd a -> 0 <= snd b ->
  PD beta 2 N [a; b] = 2 * wterm beta 2 N a b.
Proof.
  intros Hb HN Ha Hbb. unfold PredictDrawL.PD. rewrite pairsum_two, (wterm_sym beta 2 N a b).
  assert (H12 : (1 <= 2)%nat) by lia.
  destruct (wterm_range Phi Phiinv GF beta 2 N a b Hb H12 HN Ha Hbb) as [H0 _].
  rewrite Rabs_pos_eq by lra. unfold den. cbn [Nat.ltb Nat.leb]. lra.
Qed.

Lemma margin_over_sc_nonneg beta n N a b :
  0 < beta -> (1 <= n)%nat -> (2 <= N)%nat -> 0 <= snd a -> 0 <= snd b ->
  0 <= margin beta N / sc beta n a b.
Proof.
  intros Hb Hn HN Ha Hbb. apply Rlt_le. apply Rdiv_lt_0_compat.
  - now apply (margin_pos Phi Phiinv GF).
  - now apply sc_pos.
Qed.

Lemma C10_range_upper_n_eq_2_l beta ta tb :
  0 < beta -> ta <> [] -> tb <> [] -> predict_draw beta [ta; tb] <= 1.
Proof.
  intros Hb Hna Hnb. rewrite (predict_draw_norm Phi Phiinv GF).
  cbn [length map].
  assert (HN : (2 <= nplayers [ta; tb])%nat).
  { apply valid_N; [cbn; lia|]. repeat constructor; assumption. }
  pose proof (agg_var_nonneg Phi Phiinv ta) as Ha. pose proof (agg_var_nonneg Phi Phiinv tb) as Hbb.
  rewrite PD_two by assumption.
  assert (H12 : (1 <= 2)%nat) by lia.
  pose proof (margin_over_sc_nonneg beta 2 _ (agg ta) (agg tb) Hb H12 HN Ha Hbb) as Hh.
  unfold PredictDrawL.wterm.
  pose proof (W_window Phi Phiinv GF 0 ((fst (agg ta) - fst (agg tb)) / sc beta 2 (agg ta) (agg tb)) _ Hh) as Hw.
  rewrite (W_0 Phi Phiinv GF) in Hw.
  pose proof (Phi_h_two beta _ (agg ta) (agg tb) Hb HN Ha Hbb) as H34.
  assert (Hw' : Rabs 0 <= Rabs ((fst (agg ta) - fst (agg tb)) / sc beta 2 (agg ta) (agg tb))).
  { rewrite Rabs_R0. apply Rabs_pos. }
  specialize (Hw Hw'). lra.
Qed.

Lemma C10_range_l beta teams :
  0 < beta -> (2 <= length teams)%nat -> Forall (fun t => t <> []) teams ->
  0 <= predict_draw beta teams <= 1.
Proof.
  intros Hb Hn Hne. split; [now apply C10_range_lower_l|].
  destruct (Nat.eq_dec (length teams) 2) as [E|E].
  - destruct teams as [|ta [|tb [|tc ts]]]; try discriminate.
    inversion Hne as [|? ? Hna Hne']; subst. inversion Hne' as [|? ? Hnb _]; subst.
    now apply C10_range_upper_n_eq_2_l.
  - apply C10_range_upper_n_gt_2_l; try assumption. lia.
Qed.

(** *** symmetry *)
Lemma C10_symmetric_teams_l beta teams teams' :
  Permutation teams teams' -> predict_draw beta teams = predict_draw beta teams'.
Proof.
  intros HP. rewrite !(predict_draw_norm Phi Phiinv GF). unfold PredictDrawL.PD.
  rewrite (Permutation_length HP), (nplayers_perm _ _ HP).
  f_equal. f_equal. apply pairsum_perm. now apply Permutation_map.
Qed.

Lemma Forall2_perm_facts teams teams' : Forall2 (@Permutation (rating R)) teams teams' ->
  length teams = length teams' /\ nplayers teams = nplayers teams' /\ map agg teams = map agg teams'.
Proof.
  intros H. rewrite !R_nplayers.
  induction H as [|t t' ts ts' HP _ [IH1 [IH2 IH3]]]; [repeat split|].
  cbn [length map]. unfold list_sum in *. cbn [fold_right].
  rewrite IH1, IH2, IH3, (Permutation_length HP), (agg_perm Phi Phiinv t t' HP). repeat split.
Qed.

Lemma C10_symmetric_players_l beta teams teams' :
  Forall2 (@Permutation (rating R)) teams teams' -> predict_draw beta teams = predict_draw beta teams'.
Proof.
  intros H. rewrite !(predict_draw_norm Phi Phiinv GF).
  destruct (Forall2_perm_facts _ _ H) as [E1 [E2 E3]]. now rewrite E1, E2, E3.
Qed.

(** *** evenly matched teams draw most *)
Lemma C10_two_team_gap_l beta ta tb ta' tb' :
  0 < beta -> ta <> [] -> tb <> [] ->
  map r_sigma ta' = map r_sigma ta -> map r_sigma tb' = map r_sigma tb ->
  Rabs (fst (agg ta) - fst (agg tb)) <= Rabs (fst (agg ta') - fst (agg tb')) ->
  predict_draw beta [ta'; tb'] <= predict_draw beta [ta; tb].
Proof.
  intros Hb Hna Hnb Hsa Hsb Hgap. rewrite !(predict_draw_norm Phi Phiinv GF).
  cbn [length map].
  assert (HN : (2 <= nplayers [ta; tb])%nat).
  { apply valid_N; [cbn; lia|]. repeat constructor; assumption. }
  assert (EN : nplayers [ta'; tb'] = nplayers [ta; tb]).
  { rewrite !R_nplayers. cbn [map].
    now rewrite <- (map_length r_sigma ta'), <- (map_length r_sigma tb'), Hsa, Hsb, !map_length. }
  rewrite EN.
  pose proof (agg_var_nonneg Phi Phiinv ta) as Ha. pose proof (agg_var_nonneg Phi Phiinv tb) as Hbb.
  pose proof (agg_sigma_eq Phi Phiinv _ _ Hsa) as Eva. pose proof (agg_sigma_eq Phi Phiinv _ _ Hsb) as Evb.
  rewrite !PD_two; try assumption; try (rewrite ?Eva, ?Evb; assumption).
  assert (H12 : (1 <= 2)%nat) by lia.
  pose proof (sc_pos beta 2 (agg ta) (agg tb) Hb H12 Ha Hbb) as Hs.
  pose proof (margin_over_sc_nonneg beta 2 _ (agg ta) (agg tb) Hb H12 HN Ha Hbb) as Hh.
  unfold PredictDrawL.wterm.
  assert (Es : sc beta 2 (agg ta') (agg tb') = sc beta 2 (agg ta) (agg tb)).
  { unfold sc. now rewrite Eva, Evb. }
  rewrite Es.
  apply Rmult_le_compat_l; [lra|]. apply (W_window Phi Phiinv GF); [assumption|].
  unfold Rdiv. rewrite !Rabs_mult. apply Rmult_le_compat_r; [apply Rabs_pos|assumption].
Qed.

Lemma sigma_var (t : list (rating R)) :
  snd (agg t) = Rsum (map (fun s => s * s) (map r_sigma t)).
Proof. rewrite (R_agg Phi Phiinv). cbn [snd]. now rewrite map_map. Qed.

Lemma C10_equalise_l beta teams teams' :
  0 < beta -> (2 <= length teams)%nat -> Forall (fun t => t <> []) teams ->
  map (map r_sigma) teams' = map (map r_sigma) teams ->
  (forall t1 t2, In t1 teams' -> In t2 teams' -> fst (agg t1) = fst (agg t2)) ->
  predict_draw beta teams <= predict_draw beta teams'.
Proof.
  intros Hb Hn Hne Hsig Heq. rewrite !(predict_draw_norm Phi Phiinv GF).
  assert (HN : (2 <= nplayers teams)%nat) by now apply valid_N.
  assert (El : length teams' = length teams).
  { now rewrite <- (map_length (map r_sigma) teams'), Hsig, map_length. }
  assert (EN : nplayers teams' = nplayers teams).
  { rewrite !R_nplayers.
    rewrite (map_ext _ (fun t => length (map r_sigma t))) by (intros; now rewrite map_length).
    rewrite <- (map_map (map r_sigma) (@length R)), Hsig, map_map.
    f_equal. apply map_ext. intros; now rewrite map_length. }
  assert (Ev : map snd (map agg teams) = map snd (map agg teams')).
  { rewrite !map_map.
    rewrite (map_ext _ (fun t => Rsum (map (fun s => s * s) (map r_sigma t))) sigma_var).
    rewrite (map_ext (fun t => snd (agg t)) (fun t => Rsum (map (fun s => s * s) (map r_sigma t))) sigma_var).
    rewrite <- (map_map (map r_sigma) (fun sg => Rsum (map (fun s => s * s) sg)) teams), <- Hsig.
    now rewrite map_map. }
  rewrite El, EN. unfold PredictDrawL.PD.
  set (n := length teams) in *. set (N := nplayers teams) in *.
  set (c := combine (map agg teams) (map agg teams')).
  assert (Elen : length (map agg teams) = length (map agg teams')) by now rewrite !map_length.
  assert (E1 : map fst c = map agg teams) by now apply map_fst_combine'.
  assert (E2 : map snd c = map agg teams') by now apply map_snd_combine'.
  assert (Hc : forall p, In p c -> snd (fst p) = snd (snd p)).
  { apply Forall_forall. apply map_eq_Forall.
    rewrite <- (map_map fst snd), <- (map_map snd snd), E1, E2. exact Ev. }
  assert (Hc1 : forall p, In p c -> 0 <= snd (fst p)).
  { intros p Hp. pose proof (aggs_var_nonneg Phi Phiinv teams) as H. rewrite Forall_forall in H.
    apply H. rewrite <- E1. now apply in_map. }
  assert (Hc2 : forall p q, In p c -> In q c -> fst (snd p) = fst (snd q)).
  { intros p q Hp Hq.
    assert (Hp' : In (snd p) (map agg teams')) by (rewrite <- E2; now apply in_map).
    assert (Hq' : In (snd q) (map agg teams')) by (rewrite <- E2; now apply in_map).
    apply in_map_iff in Hp'. destruct Hp' as [t1 [<- Ht1]].
    apply in_map_iff in Hq'. destruct Hq' as [t2 [<- Ht2]]. now apply Heq. }
  assert (Hle : pairsum (wterm beta n N) (map agg teams) <= pairsum (wterm beta n N) (map agg teams')).
  { rewrite <- E1, <- E2, !pairsum_map. apply pairsum_le. intros p q Hp Hq.
    unfold PredictDrawL.wterm.
    assert (Es : sc beta n (snd p) (snd q) = sc beta n (fst p) (fst q)).
    { unfold sc. now rewrite (Hc p Hp), (Hc q Hq). }
    rewrite Es, (Hc2 p q Hp Hq).
    apply (W_window Phi Phiinv GF).
    - apply margin_over_sc_nonneg; auto. unfold n; lia.
    - replace (fst (snd q) - fst (snd q)) with 0 by ring. unfold Rdiv. rewrite Rmult_0_l, Rabs_R0.
      apply Rabs_pos. }
  assert (H0 : 0 <= pairsum (wterm beta n N) (map agg teams)).
  { apply (pairsum_wterm_range Phi Phiinv GF); try assumption; [unfold n; lia|apply aggs_var_nonneg]. }
  rewrite !Rabs_pos_eq by lra.
  apply Rmult_le_compat_r; [|assumption]. apply Rlt_le, Rinv_0_lt_compat, den_pos.
Qed.
End OnR.

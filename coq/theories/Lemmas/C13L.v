(** * C13L: well-formed / malformed arguments and what validation does with them. *)
From Coq Require Import List ZArith Bool Arith Lia.
From OSV Require Import Num Order Gauss Core Predict PyVal Prog.
From OSV.Lemmas Require Import ProgL.
Import ListNotations.

Definition is_ok {A} (r : res A) : bool := match r with Ok _ => true | Raise _ => false end.

Lemma kind_eqb_eq a b : kind_eqb a b = true <-> a = b.
Proof. destruct a, b; cbn; split; intros; congruence. Qed.

Lemma is_ok_mapM {A B} (f : A -> res B) l :
  is_ok (mapM f l) = forallb (fun x => is_ok (f x)) l.
Proof.
  induction l as [|x xs IH]; cbn; [reflexivity|].
  destruct (f x); cbn; [|reflexivity].
  rewrite <- IH. destruct (mapM f xs); reflexivity.
Qed.

Lemma mapM_length {A B} (f : A -> res B) l ys : mapM f l = Ok ys -> length ys = length l.
Proof.
  revert ys; induction l as [|x xs IH]; cbn; intros ys Hm.
  - inversion Hm; reflexivity.
  - destruct (f x); cbn in Hm; [|discriminate].
    destruct (mapM f xs); cbn in Hm; [|discriminate].
    inversion Hm; subst. cbn. f_equal. apply IH. reflexivity.
Qed.

Lemma forallb_ext' {A} (f g : A -> bool) l : (forall x, f x = g x) -> forallb f l = forallb g l.
Proof. intros Hfg; induction l as [|x xs IH]; cbn; [reflexivity|]. rewrite Hfg, IH; reflexivity. Qed.

Lemma is_ok_false {A} (r : res A) : is_ok r = false -> exists e, r = Raise e.
Proof. destruct r; cbn; [discriminate|eauto]. Qed.
Lemma is_ok_true {A} (r : res A) : is_ok r = true -> exists a, r = Ok a.
Proof. destruct r; cbn; [eauto|discriminate]. Qed.

Section C13.
Context {F : Type} {N : Num F}.

(** ** the grammar of well-formed arguments, from the property text *)

(** a rating object of the model [k] *)
Definition wf_player (k : kind) (p : pyval F) : bool :=
  match p with PRating k' _ => kind_eqb k k' | _ => false end.
(** a non-empty list of such *)
Definition wf_team (k : kind) (t : pyval F) : bool :=
  match t with PList (p :: ps) => forallb (wf_player k) (p :: ps) | _ => false end.
(** a list of at least two such teams *)
Definition wf_teams (k : kind) (v : pyval F) : bool :=
  match v with
  | PList ts => Nat.leb 2 (length ts) && forallb (wf_team k) ts
  | _ => false
  end.
(** int, float or bool *)
Definition is_number (v : pyval F) : bool :=
  match v with PBool _ | PInt _ | PFloat _ _ _ => true | _ => false end.
(** a list of [n] numbers *)
Definition wf_keys (n : nat) (v : pyval F) : bool :=
  match v with
  | PList l => Nat.eqb (length l) n && forallb is_number l
  | _ => false
  end.

(** the predicates say what they are meant to say *)
Lemma wf_players_spec k l :
  forallb (wf_player k) l = true <-> exists rs, l = map (PRating k) rs.
Proof.
  split.
  - induction l as [|q qs IH]; intros Hf.
    + exists []; reflexivity.
    + cbn [forallb] in Hf. apply andb_true_iff in Hf as [Hq Hqs].
      destruct (IH Hqs) as [rs ->].
      destruct q; cbn in Hq; try discriminate. apply kind_eqb_eq in Hq; subst.
      exists (r :: rs); reflexivity.
  - intros [rs ->]. induction rs as [|r rs IH]; cbn [map forallb]; [reflexivity|].
    rewrite IH, andb_true_r. cbn. apply kind_eqb_eq; reflexivity.
Qed.

Lemma wf_team_spec k t :
  wf_team k t = true <-> exists rs, rs <> [] /\ t = PList (map (PRating k) rs).
Proof.
  split.
  - destruct t as [| | | | |l| | |]; cbn [wf_team]; try discriminate.
    destruct l as [|p ps]; [discriminate|]. intros Hf.
    apply wf_players_spec in Hf as [rs Hrs]. exists rs. split; [|rewrite Hrs; reflexivity].
    destruct rs; [discriminate|congruence].
  - intros [rs [Hne ->]]. destruct rs as [|r rs]; [congruence|].
    change (map (PRating k) (r :: rs)) with (PRating k r :: map (PRating k) rs).
    cbn [wf_team]. change (PRating k r :: map (PRating k) rs) with (map (PRating k) (r :: rs)).
    apply wf_players_spec. eauto.
Qed.

Lemma wf_teams_spec k v :
  wf_teams k v = true <->
  exists tms, 2 <= length tms /\ Forall (fun t => t <> []) tms /\
              v = PList (map (fun t => PList (map (PRating k) t)) tms).
Proof.
  split.
  - destruct v as [| | | | |ts| | |]; cbn [wf_teams]; try discriminate.
    intros Hw. apply andb_true_iff in Hw as [Hlen Hall]. apply Nat.leb_le in Hlen.
    assert (Hex : exists tms, Forall (fun t => t <> []) tms /\
                              ts = map (fun t => PList (map (PRating k) t)) tms).
    { clear Hlen. induction ts as [|t ts IH].
      - exists []; split; [constructor|reflexivity].
      - cbn [forallb] in Hall. apply andb_true_iff in Hall as [Ht Hts].
        destruct (IH Hts) as [tms [Hne ->]].
        apply wf_team_spec in Ht as [rs [Hrs ->]].
        exists (rs :: tms); split; [constructor; assumption|reflexivity]. }
    destruct Hex as [tms [Hne ->]]. exists tms. rewrite map_length in Hlen. auto.
  - intros [tms [Hlen [Hne ->]]]. cbn [wf_teams]. rewrite map_length.
    apply andb_true_iff; split; [apply Nat.leb_le; exact Hlen|].
    clear Hlen. induction Hne as [|t tms Ht Hne IH]; cbn [map forallb]; [reflexivity|].
    rewrite IH, andb_true_r. apply wf_team_spec. exists t; auto.
Qed.

Lemma wf_keys_spec n v :
  wf_keys n v = true <->
  exists l, length l = n /\ v = PList l /\
            Forall (fun x => (exists b, x = PBool b) \/ (exists z, x = PInt z) \/
                             (exists f num e, x = PFloat f num e)) l.
Proof.
  split.
  - destruct v as [| | | | |l| | |]; cbn [wf_keys]; try discriminate.
    intros Hw. apply andb_true_iff in Hw as [Hlen Hall]. apply Nat.eqb_eq in Hlen.
    exists l; split; [exact Hlen|split; [reflexivity|]].
    apply Forall_forall. intros x Hx.
    rewrite forallb_forall in Hall. specialize (Hall x Hx).
    destruct x; cbn in Hall; try discriminate; eauto 6.
  - intros [l [Hlen [-> Hall]]]. cbn [wf_keys]. apply andb_true_iff; split; [apply Nat.eqb_eq; exact Hlen|].
    apply forallb_forall. intros x Hx. rewrite Forall_forall in Hall.
    destruct (Hall x Hx) as [[b ->]|[[z ->]|[f [num [e ->]]]]]; reflexivity.
Qed.

(** ** validation accepts exactly the well-formed values *)
Lemma is_ok_check_player k p : is_ok (check_player k p) = wf_player k p.
Proof. destruct p; cbn; try reflexivity. destruct (kind_eqb k k0); reflexivity. Qed.

Lemma is_ok_check_team k t : is_ok (check_team k t) = wf_team k t.
Proof.
  destruct t as [| | | | |l| | |]; cbn [check_team wf_team]; try reflexivity.
  destruct l as [|p ps]; [reflexivity|].
  rewrite is_ok_mapM. apply forallb_ext'. intros; apply is_ok_check_player.
Qed.

Lemma is_ok_check_teams k v : is_ok (check_teams k v) = wf_teams k v.
Proof.
  destruct v as [| | | | |ts| | |]; cbn [check_teams wf_teams]; try reflexivity.
  destruct (length ts) as [|[|n]] eqn:Hlen; cbn [Nat.ltb Nat.leb andb]; try reflexivity.
  change (S (S n) <? 2) with false. cbn iota.
  rewrite is_ok_mapM. apply forallb_ext'. intros; apply is_ok_check_team.
Qed.

Lemma check_teams_length k (ts : list (pyval F)) tms :
  check_teams k (PList ts) = Ok tms -> length tms = length ts.
Proof.
  cbn [check_teams]. destruct (length ts <? 2); [discriminate|]. apply mapM_length.
Qed.

Lemma is_ok_as_key v : is_ok (as_key v) = is_number v.
Proof. destruct v; reflexivity. Qed.
Lemma is_ok_as_float v : is_ok (as_float v) = is_number v.
Proof. destruct v; reflexivity. Qed.

Lemma is_ok_check_keys n v : is_ok (check_keys n v) = wf_keys n v.
Proof.
  destruct v as [| | | | |l| | |]; cbn [check_keys wf_keys]; try reflexivity.
  destruct (length l =? n); cbn [negb andb]; [|reflexivity].
  rewrite is_ok_mapM. apply forallb_ext'. intros; apply is_ok_as_key.
Qed.

(** ** [validate_rate] *)
Lemma validate_reject_teams k teams ranks scores :
  wf_teams k teams = false -> exists e, validate_rate k teams ranks scores = Raise e.
Proof.
  intros Hw. rewrite <- is_ok_check_teams in Hw. apply is_ok_false in Hw as [e He].
  exists e. unfold validate_rate. rewrite He. reflexivity.
Qed.

Lemma validate_reject_ranks k (ts : list (pyval F)) ranks scores :
  wf_teams k (PList ts) = true -> truthy ranks = true -> wf_keys (length ts) ranks = false ->
  exists e, validate_rate k (PList ts) ranks scores = Raise e.
Proof.
  intros Hw Ht Hk. rewrite <- is_ok_check_teams in Hw. apply is_ok_true in Hw as [tms Htms].
  unfold validate_rate. rewrite Htms. cbn [rbind]. rewrite Ht.
  rewrite (check_teams_length _ _ _ Htms).
  rewrite <- is_ok_check_keys in Hk. apply is_ok_false in Hk as [e He]. rewrite He.
  exists e; reflexivity.
Qed.

Lemma validate_reject_scores k (ts : list (pyval F)) ranks scores :
  wf_teams k (PList ts) = true -> truthy scores = true -> wf_keys (length ts) scores = false ->
  exists e, validate_rate k (PList ts) ranks scores = Raise e.
Proof.
  intros Hw Ht Hk. rewrite <- is_ok_check_teams in Hw. apply is_ok_true in Hw as [tms Htms].
  unfold validate_rate. rewrite Htms. cbn [rbind]. rewrite Ht.
  rewrite (check_teams_length _ _ _ Htms).
  rewrite <- is_ok_check_keys in Hk. apply is_ok_false in Hk as [e He]. rewrite He.
  destruct (truthy ranks).
  - destruct (check_keys (length ts) ranks); cbn [rbind]; eauto.
  - cbn [rbind]. eauto.
Qed.

Lemma validate_reject_both k (teams ranks scores : pyval F) :
  truthy ranks = true -> truthy scores = true ->
  exists e, validate_rate k teams ranks scores = Raise e.
Proof.
  intros Hr Hs. unfold validate_rate.
  destruct (check_teams k teams); cbn [rbind]; [|eauto].
  rewrite Hr, Hs. destruct (check_keys (length a) ranks); cbn [rbind]; eauto.
Qed.

Lemma validate_accept k (ts : list (pyval F)) ranks scores :
  wf_teams k (PList ts) = true ->
  (truthy ranks = false \/ wf_keys (length ts) ranks = true) ->
  (truthy scores = false \/ wf_keys (length ts) scores = true) ->
  ~ (truthy ranks = true /\ truthy scores = true) ->
  exists tk, validate_rate k (PList ts) ranks scores = Ok tk.
Proof.
  intros Hw Hr Hs Hnb. rewrite <- is_ok_check_teams in Hw. apply is_ok_true in Hw as [tms Htms].
  unfold validate_rate. rewrite Htms. cbn [rbind].
  rewrite (check_teams_length _ _ _ Htms).
  destruct (truthy ranks) eqn:Htr.
  - destruct Hr as [Hr|Hr]; [discriminate|].
    rewrite <- is_ok_check_keys in Hr. apply is_ok_true in Hr as [rk Hrk]. rewrite Hrk.
    destruct (truthy scores) eqn:Hts; [exfalso; apply Hnb; auto|].
    cbn [rbind]. eauto.
  - cbn [rbind]. destruct (truthy scores) eqn:Hts.
    + destruct Hs as [Hs|Hs]; [discriminate|].
      rewrite <- is_ok_check_keys in Hs. apply is_ok_true in Hs as [sc Hsc]. rewrite Hsc.
      cbn [rbind]. eauto.
    + cbn [rbind]. eauto.
Qed.

(** ** [rate] *)
Lemma rate_rejects k teams ranks scores tau limit st e :
  validate_rate k teams ranks scores = Raise e ->
  snd (run (rate_prog k teams ranks scores tau limit) st) = Raise e.
Proof. intros Hv. rewrite run_rate_prog, Hv. reflexivity. Qed.

Lemma reject_teams k teams ranks scores tau limit st :
  wf_teams k teams = false ->
  exists e, snd (run (rate_prog k teams ranks scores tau limit) st) = Raise e.
Proof.
  intros Hw. destruct (validate_reject_teams k teams ranks scores Hw) as [e He].
  exists e. apply rate_rejects, He.
Qed.

Lemma reject_ranks k ts ranks scores tau limit st :
  wf_teams k (PList ts) = true -> truthy ranks = true -> wf_keys (length ts) ranks = false ->
  exists e, snd (run (rate_prog k (PList ts) ranks scores tau limit) st) = Raise e.
Proof.
  intros Hw Ht Hk. destruct (validate_reject_ranks k ts ranks scores Hw Ht Hk) as [e He].
  exists e. apply rate_rejects, He.
Qed.

Lemma reject_scores k ts ranks scores tau limit st :
  wf_teams k (PList ts) = true -> truthy scores = true -> wf_keys (length ts) scores = false ->
  exists e, snd (run (rate_prog k (PList ts) ranks scores tau limit) st) = Raise e.
Proof.
  intros Hw Ht Hk. destruct (validate_reject_scores k ts ranks scores Hw Ht Hk) as [e He].
  exists e. apply rate_rejects, He.
Qed.

Lemma reject_both k (teams ranks scores tau limit : pyval F) st :
  truthy ranks = true -> truthy scores = true ->
  exists e, snd (run (rate_prog k teams ranks scores tau limit) st) = Raise e.
Proof.
  intros Hr Hs. destruct (validate_reject_both k teams ranks scores Hr Hs) as [e He].
  exists e. apply rate_rejects, He.
Qed.

(** whenever [rate] raises — whatever the reason — nothing at all has happened:
    the effect trace is empty and the model state is the initial one *)
Lemma atomic k teams ranks scores tau limit st e :
  snd (run (rate_prog k teams ranks scores tau limit) st) = Raise e ->
  fst (fst (run (rate_prog k teams ranks scores tau limit) st)) = [] /\
  snd (fst (run (rate_prog k teams ranks scores tau limit) st)) = st.
Proof.
  rewrite run_rate_prog.
  destruct (validate_rate k teams ranks scores) as [tk|e1]; [|auto].
  destruct (tau_of st tau) as [ex|e1]; [|auto].
  cbn [snd]. discriminate.
Qed.

Lemma accept k ts ranks scores tau limit st :
  wf_teams k (PList ts) = true ->
  (truthy ranks = false \/ wf_keys (length ts) ranks = true) ->
  (truthy scores = false \/ wf_keys (length ts) scores = true) ->
  ~ (truthy ranks = true /\ truthy scores = true) ->
  (tau = PNone \/ is_number tau = true) ->
  exists r, snd (run (rate_prog k (PList ts) ranks scores tau limit) st) = Ok r.
Proof.
  intros Hw Hr Hs Hnb Htau.
  destruct (validate_accept k ts ranks scores Hw Hr Hs Hnb) as [tk Htk].
  rewrite run_rate_prog, Htk.
  assert (Hex : exists ex, tau_of st tau = Ok ex).
  { destruct Htau as [->|Hn]; [cbn; eauto|].
    destruct tau; cbn in Hn; try discriminate; cbn; eauto. }
  destruct Hex as [ex ->]. cbn [snd]. eauto.
Qed.

(** a non-numeric per-call tau (other than None) is rejected too *)
Lemma reject_tau k teams ranks scores tau limit st :
  tau <> PNone -> is_number tau = false ->
  exists e, snd (run (rate_prog k teams ranks scores tau limit) st) = Raise e.
Proof.
  intros Hne Hn. rewrite run_rate_prog.
  destruct (validate_rate k teams ranks scores) as [tk|e1]; [|cbn [snd]; eauto].
  assert (Hex : exists e, tau_of st tau = Raise e).
  { destruct tau; cbn in Hn; try discriminate; try congruence; cbn; eauto. }
  destruct Hex as [e ->]. cbn [snd]. eauto.
Qed.

(** ** [predict_*] *)
Lemma predict_reject {A} (f : F -> list (list (rating F)) -> A) k teams st :
  wf_teams k teams = false -> exists e, snd (run (predict_prog f k teams) st) = Raise e.
Proof.
  intros Hw. rewrite <- is_ok_check_teams in Hw. apply is_ok_false in Hw as [e He].
  exists e. rewrite run_predict_prog, He. reflexivity.
Qed.

Lemma predict_accept {A} (f : F -> list (list (rating F)) -> A) k teams st :
  wf_teams k teams = true -> exists r, snd (run (predict_prog f k teams) st) = Ok r.
Proof.
  intros Hw. rewrite <- is_ok_check_teams in Hw. apply is_ok_true in Hw as [tms He].
  rewrite run_predict_prog, He. cbn [snd]. eauto.
Qed.

Lemma predict_no_effects {A} (f : F -> list (list (rating F)) -> A) k teams st :
  snd (fst (run (predict_prog f k teams) st)) = st /\
  forall ev, In ev (fst (fst (run (predict_prog f k teams) st))) ->
             match ev with ERdF _ | ERdLimit | ERdGamma => True | _ => False end.
Proof.
  split.
  - apply no_writes_run_state, no_writes_predict_prog.
  - intros ev Hin.
    pose proof (no_effects_run_trace _ st (no_effects_predict_prog f k teams) ev Hin) as Hr.
    destruct ev; cbn in Hr; try discriminate; exact I.
Qed.

(** ** which exception class (first-level causes, in the order of the checks) *)
Lemma class_cases k (ts : list (pyval F)) (teams ranks scores tau limit : pyval F) st :
  ((forall l, teams <> PList l) ->
     snd (run (rate_prog k teams ranks scores tau limit) st) = Raise TypeError) /\
  (length ts < 2 ->
     snd (run (rate_prog k (PList ts) ranks scores tau limit) st) = Raise ValueError) /\
  (wf_teams k (PList ts) = true -> truthy ranks = true -> (forall l, ranks <> PList l) ->
     snd (run (rate_prog k (PList ts) ranks scores tau limit) st) = Raise TypeError) /\
  (wf_teams k (PList ts) = true -> truthy ranks = true ->
     (forall l, ranks = PList l -> length l <> length ts) -> (exists l, ranks = PList l) ->
     snd (run (rate_prog k (PList ts) ranks scores tau limit) st) = Raise ValueError) /\
  (wf_teams k (PList ts) = true -> truthy ranks = true -> wf_keys (length ts) ranks = true ->
     truthy scores = true ->
     snd (run (rate_prog k (PList ts) ranks scores tau limit) st) = Raise ValueError) /\
  (wf_teams k (PList ts) = true -> truthy ranks = false -> truthy scores = true ->
     (forall l, scores <> PList l) ->
     snd (run (rate_prog k (PList ts) ranks scores tau limit) st) = Raise TypeError) /\
  (wf_teams k (PList ts) = true -> truthy ranks = false -> truthy scores = true ->
     (forall l, scores = PList l -> length l <> length ts) -> (exists l, scores = PList l) ->
     snd (run (rate_prog k (PList ts) ranks scores tau limit) st) = Raise ValueError).
Proof.
  repeat apply conj.
  - intros Hnl. apply rate_rejects. unfold validate_rate.
    destruct teams; try reflexivity. exfalso; eapply Hnl; reflexivity.
  - intros Hlen. apply rate_rejects. unfold validate_rate. cbn [check_teams].
    apply Nat.ltb_lt in Hlen. rewrite Hlen. reflexivity.
  - intros Hw Ht Hnl. apply rate_rejects.
    rewrite <- is_ok_check_teams in Hw. apply is_ok_true in Hw as [tms Htms].
    unfold validate_rate. rewrite Htms. cbn [rbind]. rewrite Ht.
    destruct ranks; try reflexivity. exfalso; eapply Hnl; reflexivity.
  - intros Hw Ht Hlen [l ->]. apply rate_rejects.
    rewrite <- is_ok_check_teams in Hw. apply is_ok_true in Hw as [tms Htms].
    unfold validate_rate. rewrite Htms. cbn [rbind]. rewrite Ht.
    rewrite (check_teams_length _ _ _ Htms). cbn [check_keys].
    specialize (Hlen l eq_refl). apply Nat.eqb_neq in Hlen. rewrite Hlen. reflexivity.
  - intros Hw Ht Hk Hs. apply rate_rejects.
    rewrite <- is_ok_check_teams in Hw. apply is_ok_true in Hw as [tms Htms].
    unfold validate_rate. rewrite Htms. cbn [rbind]. rewrite Ht, Hs.
    rewrite (check_teams_length _ _ _ Htms).
    rewrite <- is_ok_check_keys in Hk. apply is_ok_true in Hk as [rk Hrk]. rewrite Hrk.
    reflexivity.
  - intros Hw Ht Hs Hnl. apply rate_rejects.
    rewrite <- is_ok_check_teams in Hw. apply is_ok_true in Hw as [tms Htms].
    unfold validate_rate. rewrite Htms. cbn [rbind]. rewrite Ht, Hs. cbn [rbind].
    destruct scores; try reflexivity. exfalso; eapply Hnl; reflexivity.
  - intros Hw Ht Hs Hlen [l ->]. apply rate_rejects.
    rewrite <- is_ok_check_teams in Hw. apply is_ok_true in Hw as [tms Htms].
    unfold validate_rate. rewrite Htms. cbn [rbind]. rewrite Ht, Hs. cbn [rbind].
    rewrite (check_teams_length _ _ _ Htms). cbn [check_keys].
    specialize (Hlen l eq_refl). apply Nat.eqb_neq in Hlen. rewrite Hlen. reflexivity.
Qed.

End C13.

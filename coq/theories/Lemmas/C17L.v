(** * C17L: the Gaussian correction functions v, w, vt, wt of the model over the reals.

    Mathematical reference functions (Weng & Lin 2011, section 3.3 / appendix):
    - [V y  = phi y / Phi y],  [W y = V y (V y + y)];
    - [Vt x t = (phi(-t-x) - phi(t-x)) / (Phi(t-x) - Phi(-t-x))]
    - [Wt x t = ((t-x) phi(t-x) + (t+x) phi(-t-x)) / (Phi(t-x) - Phi(-t-x)) + (Vt x t)^2]
    and the forms written with |x| that the Python code evaluates ([Vt_abs], [Wt_abs]),
    proved equal to them ([Vt_abs_eq], [Wt_abs_eq]).

    With a = -t-x and b = t-x, [Vt x t] is the negated mean of a standard normal
    truncated to (a, b) and [Wt x t] is one minus its variance. *)
From Coq Require Import Reals Lra ZArith.
From OSV Require Import Num Gauss RInst.
From OSV.Lemmas Require Import GaussL.
Open Scope R_scope.

(** the clamp [min(max(u, 0), 1)] does not move away from a point of [0,1] *)
Lemma clamp_range u : 0 <= Rmin (Rmax u 0) 1 <= 1.
Proof.
  unfold Rmin, Rmax. destruct (Rle_dec u 0); destruct (Rle_dec _ 1); lra.
Qed.

Lemma clamp_id u : 0 <= u <= 1 -> Rmin (Rmax u 0) 1 = u.
Proof.
  intros H. unfold Rmin, Rmax. destruct (Rle_dec u 0); destruct (Rle_dec _ 1); lra.
Qed.

Lemma clamp_dist u w : 0 <= w <= 1 -> Rabs (Rmin (Rmax u 0) 1 - w) <= Rabs (u - w).
Proof.
  intros H. unfold Rmin, Rmax, Rabs.
  destruct (Rle_dec u 0); destruct (Rle_dec _ 1);
    repeat match goal with |- context [Rcase_abs ?a] => destruct (Rcase_abs a) end; lra.
Qed.

Section C17L.
Variables Phi Phiinv : R -> R.
Hypothesis GF : GaussFacts Phi Phiinv.
Local Instance RNi : Num R := RNum Phi Phiinv.

(** ** The mathematical functions. *)
Definition V (y : R) : R := phi y / Phi y.
Definition W (y : R) : R := V y * (V y + y).
Definition Vt (x t : R) : R :=
  (phi (- t - x) - phi (t - x)) / (Phi (t - x) - Phi (- t - x)).
Definition Wt (x t : R) : R :=
  ((t - x) * phi (t - x) + (t + x) * phi (- t - x)) / (Phi (t - x) - Phi (- t - x))
  + Vt x t * Vt x t.
(** the forms with |x| and an explicit sign, as the code evaluates them *)
Definition Vt_abs (x t : R) : R :=
  let m := (phi (- t - Rabs x) - phi (t - Rabs x)) / (Phi (t - Rabs x) - Phi (- t - Rabs x)) in
  if Rlt_dec x 0 then - m else m.
Definition Wt_abs (x t : R) : R :=
  ((t - Rabs x) * phi (t - Rabs x) + (t + Rabs x) * phi (- t - Rabs x))
    / (Phi (t - Rabs x) - Phi (- t - Rabs x))
  + Vt_abs x t * Vt_abs x t.

(** the two library constants *)
Definition eps : R := / 4503599627370496.

Lemma R_f1em5 : (f1em5 : R) = 5902958103587057 / 590295810358705651712.
Proof.
  unfold f1em5; cbn -[pow]. unfold Rdiv. f_equal. f_equal.
  rewrite pow_IZR. f_equal.
Qed.

Lemma eps_lt_f1em5 : eps < (f1em5 : R).
Proof. rewrite R_f1em5. unfold eps. lra. Qed.

(** ** The model functions, unfolded on the reals. *)
Lemma v_eq x t :
  v x t = if Rltb (Phi (x - t)) eps then - (x - t) else phi (x - t) / Phi (x - t).
Proof.
  change RNi with (RN Phi Phiinv). unfold v; cbv zeta. rewrite (R_cdf Phi Phiinv), (R_pdf Phi Phiinv), (R_feps Phi Phiinv).
  reflexivity.
Qed.

Lemma w_eq x t :
  w x t = if Rltb (Phi (x - t)) eps then (if Rltb x 0 then 1 else 0)
          else v x t * (v x t + (x - t)).
Proof.
  change RNi with (RN Phi Phiinv). unfold w; cbv zeta. rewrite (R_cdf Phi Phiinv), (R_feps Phi Phiinv). reflexivity.
Qed.

Lemma vt_eq x t :
  vt x t =
  if Rltb (Phi (t - Rabs x) - Phi (- t - Rabs x)) f1em5
  then (if Rltb x 0 then - x - t else - x + t)
  else (if Rltb x 0 then - (phi (- t - Rabs x) - phi (t - Rabs x))
        else phi (- t - Rabs x) - phi (t - Rabs x))
       / (Phi (t - Rabs x) - Phi (- t - Rabs x)).
Proof.
  change RNi with (RN Phi Phiinv). unfold vt; cbv zeta. rewrite !(R_cdf Phi Phiinv), !(R_pdf Phi Phiinv). reflexivity.
Qed.

Lemma wt_eq x t :
  wt x t =
  if Rltb (Phi (t - Rabs x) - Phi (- t - Rabs x)) eps then 1
  else Rmin (Rmax (((t - Rabs x) * phi (t - Rabs x) + (t + Rabs x) * phi (- t - Rabs x))
                     / (Phi (t - Rabs x) - Phi (- t - Rabs x))
                   + vt x t * vt x t) 0) 1.
Proof.
  change RNi with (RN Phi Phiinv). unfold wt; cbv zeta.
  rewrite (R_fmin Phi Phiinv), (R_fmax Phi Phiinv).
  rewrite !(R_cdf Phi Phiinv), !(R_pdf Phi Phiinv), (R_feps Phi Phiinv). reflexivity.
Qed.

(** ** The |x| forms are the signed forms. *)
Lemma phi_flip1 x t : phi (t - - x) = phi (- t - x).
Proof. rewrite <- phi_even. f_equal. ring. Qed.
Lemma phi_flip2 x t : phi (- t - - x) = phi (t - x).
Proof. rewrite <- phi_even. f_equal. ring. Qed.

Lemma Vt_abs_eq x t : Vt_abs x t = Vt x t.
Proof.
  unfold Vt_abs, Vt; cbv zeta.
  rewrite (window_abs Phi Phiinv GF).
  destruct (Rlt_dec x 0) as [Hx|Hx].
  - rewrite (Rabs_left x Hx), (phi_flip1 x t), (phi_flip2 x t). unfold Rdiv. ring.
  - rewrite (Rabs_pos_eq x) by lra. reflexivity.
Qed.

Lemma Q_abs_eq x t :
  ((t - Rabs x) * phi (t - Rabs x) + (t + Rabs x) * phi (- t - Rabs x))
    / (Phi (t - Rabs x) - Phi (- t - Rabs x))
  = ((t - x) * phi (t - x) + (t + x) * phi (- t - x)) / (Phi (t - x) - Phi (- t - x)).
Proof.
  rewrite (window_abs Phi Phiinv GF).
  destruct (Rlt_dec x 0) as [Hx|Hx].
  - rewrite (Rabs_left x Hx), (phi_flip1 x t), (phi_flip2 x t). unfold Rdiv. ring.
  - rewrite (Rabs_pos_eq x) by lra. reflexivity.
Qed.

Lemma Wt_abs_eq x t : Wt_abs x t = Wt x t.
Proof. unfold Wt_abs, Wt. rewrite Vt_abs_eq, Q_abs_eq. reflexivity. Qed.

(** ** Ranges. *)
Lemma v_pos x t : 0 < v x t.
Proof.
  rewrite v_eq. destruct (Rltb _ _) eqn:E.
  - apply Rltb_true in E. apply (Phi_lt_eps_lt_m8 Phi Phiinv GF) in E. lra.
  - apply (V_pos Phi Phiinv GF).
Qed.

Lemma v_nonneg x t : 0 <= v x t.
Proof. left. apply v_pos. Qed.

Lemma w_range x t : 0 <= w x t <= 1.
Proof.
  rewrite w_eq. destruct (Rltb (Phi _) _) eqn:E.
  - destruct (Rltb x 0); lra.
  - rewrite v_eq, E.
    pose proof (W_pos Phi Phiinv GF (x - t)). pose proof (W_lt_1 Phi Phiinv GF (x - t)). lra.
Qed.

Lemma wt_range x t : 0 <= wt x t <= 1.
Proof.
  rewrite wt_eq. destruct (Rltb _ _); [lra | apply clamp_range].
Qed.

(** ** Above the guards the code evaluates the mathematical formulas. *)
Lemma v_exact x t : eps <= Phi (x - t) -> v x t = V (x - t).
Proof. intros H. rewrite v_eq. apply Rltb_false in H. rewrite H. reflexivity. Qed.

Lemma w_exact x t : eps <= Phi (x - t) -> w x t = W (x - t).
Proof.
  intros H. rewrite w_eq, (v_exact x t H). apply Rltb_false in H. rewrite H. reflexivity.
Qed.

Lemma vt_exact x t :
  f1em5 <= Phi (t - Rabs x) - Phi (- t - Rabs x) -> vt x t = Vt x t.
Proof.
  intros H. rewrite vt_eq. apply Rltb_false in H. rewrite H.
  rewrite <- Vt_abs_eq. unfold Vt_abs; cbv zeta.
  destruct (Rlt_dec x 0) as [Hx|Hx].
  - apply Rltb_true in Hx. rewrite Hx. unfold Rdiv. ring.
  - apply Rnot_lt_le, Rltb_false in Hx. rewrite Hx. reflexivity.
Qed.

(** the exact Wt is 1 - (variance of the truncated normal): in [1 - t^2, 1] *)
Lemma Wt_range x t : 0 < t -> 1 - t * t <= Wt x t <= 1.
Proof.
  intros Ht.
  assert (- t - x < t - x) as Hab by lra.
  pose proof (trunc_var_range Phi Phiinv GF _ _ Hab) as H.
  replace ((t - x - (- t - x)) / 2) with t in H by field.
  replace ((t - x) * phi (t - x) - (- t - x) * phi (- t - x))
    with ((t - x) * phi (t - x) + (t + x) * phi (- t - x)) in H by ring.
  exact H.
Qed.

Lemma window_mass_pos_t x t : 0 < Phi (t - Rabs x) - Phi (- t - Rabs x) -> 0 < t.
Proof. intros H. apply (window_mass_pos_iff Phi Phiinv GF (Rabs x) t). exact H. Qed.

Lemma wt_exact x t :
  f1em5 <= Phi (t - Rabs x) - Phi (- t - Rabs x) -> 0 <= Wt x t -> wt x t = Wt x t.
Proof.
  intros H H0. pose proof eps_lt_f1em5 as He. pose proof (R_f1em5_pos Phi Phiinv) as H5.
  assert (0 < t) as Ht by (apply (window_mass_pos_t x); change (@f1em5 R RNi) with (@f1em5 R (RN Phi Phiinv)) in *; lra).
  rewrite wt_eq, (vt_exact x t H).
  assert (Rltb (Phi (t - Rabs x) - Phi (- t - Rabs x)) eps = false) as -> by (apply Rltb_false; lra).
  rewrite Q_abs_eq. fold (Wt x t). apply clamp_id.
  pose proof (Wt_range x t Ht). lra.
Qed.

Lemma wt_exact_small_t x t :
  f1em5 <= Phi (t - Rabs x) - Phi (- t - Rabs x) -> t <= 1 -> wt x t = Wt x t.
Proof.
  intros H H1. apply wt_exact; [exact H|].
  pose proof (R_f1em5_pos Phi Phiinv) as H5.
  assert (0 < t) as Ht by (apply (window_mass_pos_t x); change (@f1em5 R RNi) with (@f1em5 R (RN Phi Phiinv)) in *; lra).
  pose proof (Wt_range x t Ht). nra.
Qed.

(** ** The asymptotic branches. *)
Lemma v_asymptotic_math y : Phi y < eps -> Rabs (- y - V y) <= 2 / 100 * V y.
Proof.
  intros H. apply (Phi_lt_eps_lt_m8 Phi Phiinv GF) in H.
  assert (y < 0) as Hy by lra.
  pose proof (V_gt_neg Phi Phiinv GF y) as H1.
  pose proof (V_upper_neg Phi Phiinv GF y Hy) as H2. fold (V y) in H1, H2.
  assert (/ - y < / 8) as H3 by (apply Rinv_lt_contravar; lra).
  rewrite Rabs_left by lra. lra.
Qed.

Lemma v_asymptotic x t :
  Phi (x - t) < eps -> Rabs (v x t - V (x - t)) <= 2 / 100 * V (x - t).
Proof.
  intros H. rewrite v_eq. pose proof H as H'. apply Rltb_true in H'. rewrite H'.
  apply v_asymptotic_math. exact H.
Qed.

Lemma w_asymptotic_math y : Phi y < eps -> Rabs (1 - W y) <= 2 / 100.
Proof.
  intros H. apply (Phi_lt_eps_lt_m8 Phi Phiinv GF) in H.
  assert (y < 0) as Hy by lra.
  pose proof (W_lt_1 Phi Phiinv GF y) as H1.
  pose proof (W_lower_neg Phi Phiinv GF y Hy) as H2. fold (V y) in H1, H2. fold (W y) in H1, H2.
  assert (64 < y * y) as Hs by nra.
  set (s := y * y) in *.
  assert ((s + 4) / ((s + 2) * (s + 2)) <= 2 / 100) as H3.
  { apply (Rmult_le_reg_r ((s + 2) * (s + 2))); [nra|].
    unfold Rdiv at 1. rewrite Rmult_assoc, Rinv_l, Rmult_1_r by nra. nra. }
  rewrite Rabs_right by lra. lra.
Qed.

Lemma w_asymptotic x t :
  Phi (x - t) < eps -> x < 0 -> Rabs (w x t - W (x - t)) <= 2 / 100.
Proof.
  intros H Hx. rewrite w_eq. pose proof H as H'. apply Rltb_true in H'. rewrite H'.
  apply Rltb_true in Hx. rewrite Hx. apply w_asymptotic_math. exact H.
Qed.

(** on the guard branch the code returns 0 for x >= 0 (where W is within 2% of 1): this
    needs a draw margin t > 8 *)
Lemma w_guard_nonneg_x x t :
  Phi (x - t) < eps -> 0 <= x -> w x t = 0 /\ 8 < t.
Proof.
  intros H Hx. split.
  - rewrite w_eq. pose proof H as H'. apply Rltb_true in H'. rewrite H'.
    apply Rltb_false in Hx. rewrite Hx. reflexivity.
  - apply (Phi_lt_eps_lt_m8 Phi Phiinv GF) in H. lra.
Qed.

(** Vt lies in the window (a, b) = (-t-x, t-x), and the code's asymptotic value is one
    of its edges *)
Lemma Vt_in_window x t : 0 < t -> - t - x <= Vt x t <= t - x.
Proof.
  intros Ht. apply (trunc_mean_in_window Phi Phiinv GF). lra.
Qed.

Lemma vt_asym_value x t :
  Phi (t - Rabs x) - Phi (- t - Rabs x) < f1em5 ->
  vt x t = if Rltb x 0 then - t - x else t - x.
Proof.
  intros H. rewrite vt_eq. apply Rltb_true in H. rewrite H.
  destruct (Rltb x 0); ring.
Qed.

Lemma vt_asymptotic x t :
  0 < t -> Phi (t - Rabs x) - Phi (- t - Rabs x) < f1em5 ->
  Rabs (vt x t - Vt x t) <= 2 * t.
Proof.
  intros Ht H. rewrite (vt_asym_value x t H). pose proof (Vt_in_window x t Ht) as [H1 H2].
  apply Rabs_le. destruct (Rltb x 0); lra.
Qed.

Lemma vt_distance x t : 0 < t -> Rabs (vt x t - Vt x t) <= 2 * t.
Proof.
  intros Ht.
  destruct (Rlt_le_dec (Phi (t - Rabs x) - Phi (- t - Rabs x)) f1em5) as [H|H].
  - apply vt_asymptotic; assumption.
  - rewrite (vt_exact x t H). rewrite Rminus_diag_eq, Rabs_R0 by reflexivity. lra.
Qed.

(** distance of wt to the exact Wt *)
Lemma sqr_diff_bound e m s d :
  Rabs e <= s -> Rabs m <= s -> Rabs (e - m) <= d -> Rabs (e * e - m * m) <= d * (2 * s).
Proof.
  intros He Hm Hd.
  replace (e * e - m * m) with ((e - m) * (e + m)) by ring.
  rewrite Rabs_mult.
  pose proof (Rabs_pos (e - m)). pose proof (Rabs_pos (e + m)).
  pose proof (Rabs_triang e m).
  apply Rmult_le_compat; lra.
Qed.

Lemma wt_distance x t :
  0 < t <= 1 -> Rabs (wt x t - Wt x t) <= 4 * t * (Rabs x + t).
Proof.
  intros [Ht Ht1]. pose proof (Wt_range x t Ht) as HW. pose proof (Rabs_pos x) as Hax.
  assert (0 <= Wt x t <= 1) as HW01 by nra.
  destruct (Rlt_le_dec (Phi (t - Rabs x) - Phi (- t - Rabs x)) f1em5) as [H|H].
  2:{ rewrite (wt_exact x t H) by lra. rewrite Rminus_diag_eq, Rabs_R0 by reflexivity. nra. }
  rewrite wt_eq. destruct (Rltb _ eps) eqn:E.
  - rewrite Rabs_right by lra. nra.
  - eapply Rle_trans; [apply clamp_dist; exact HW01|].
    rewrite Q_abs_eq. unfold Wt.
    match goal with |- Rabs (?q + ?a - (?q + ?b)) <= _ => replace (q + a - (q + b)) with (a - b) by ring end.
    replace (4 * t * (Rabs x + t)) with ((2 * t) * (2 * (Rabs x + t))) by ring.
    pose proof (Vt_in_window x t Ht) as [H1 H2].
    pose proof (Rle_abs x) as Hx1. pose proof (Rle_abs (- x)) as Hx2. rewrite Rabs_Ropp in Hx2.
    apply sqr_diff_bound.
    + rewrite (vt_asym_value x t H). apply Rabs_le. destruct (Rltb x 0); lra.
    + apply Rabs_le. lra.
    + apply vt_asymptotic; assumption.
Qed.

(** on the branch below the epsilon guard the code returns 1, within t^2 of Wt *)
Lemma wt_guard_distance x t :
  0 < t -> Phi (t - Rabs x) - Phi (- t - Rabs x) < eps -> Rabs (wt x t - Wt x t) <= t * t.
Proof.
  intros Ht H. rewrite wt_eq. apply Rltb_true in H. rewrite H.
  pose proof (Wt_range x t Ht). rewrite Rabs_right by lra. lra.
Qed.

(** ** Packaged statements for Props/C17.v *)
Lemma exact_branch x t :
  (eps <= Phi (x - t) -> v x t = V (x - t) /\ w x t = W (x - t))
  /\ (f1em5 <= Phi (t - Rabs x) - Phi (- t - Rabs x) ->
        0 < t
        /\ vt x t = Vt x t
        /\ (0 <= Wt x t -> wt x t = Wt x t)
        /\ (t <= 1 -> wt x t = Wt x t)).
Proof.
  split.
  - intros H. split; [apply v_exact | apply w_exact]; exact H.
  - intros H. pose proof (R_f1em5_pos Phi Phiinv) as H5.
    repeat split.
    + apply (window_mass_pos_t x). change (@f1em5 R RNi) with (@f1em5 R (RN Phi Phiinv)) in *. lra.
    + apply vt_exact; exact H.
    + intros H0. apply wt_exact; assumption.
    + intros H1. apply wt_exact_small_t; assumption.
Qed.

Lemma exact_forms x t : Vt_abs x t = Vt x t /\ Wt_abs x t = Wt x t.
Proof. split; [apply Vt_abs_eq | apply Wt_abs_eq]. Qed.

Lemma v_asymptotic_full x t :
  Phi (x - t) < eps ->
  x - t < - 8 /\ v x t = - (x - t) /\ Rabs (v x t - V (x - t)) <= 2 / 100 * V (x - t).
Proof.
  intros H. split; [apply (Phi_lt_eps_lt_m8 Phi Phiinv GF); exact H|].
  split; [|apply v_asymptotic; exact H].
  rewrite v_eq. apply Rltb_true in H. rewrite H. reflexivity.
Qed.

Lemma w_asymptotic_full x t :
  Phi (x - t) < eps -> x < 0 ->
  w x t = 1 /\ Rabs (w x t - W (x - t)) <= 2 / 100.
Proof.
  intros H Hx. split; [|apply w_asymptotic; assumption].
  rewrite w_eq. apply Rltb_true in H. rewrite H. apply Rltb_true in Hx. rewrite Hx. reflexivity.
Qed.

End C17L.

(** * C08L: totality — the model run on the checked carrier [option R] (Checked.v)
    never raises on the valid domain, and agrees with the run on the reals.

    Method: for every model function [f] a lemma [C_f]: on lifted ([Some]) inputs that
    satisfy the guards of the arithmetic sites inside [f], the checked [f] returns the
    lifting of the real [f].  [cpush] pushes [Some] through the unguarded operations;
    the guarded ones ([C_fdiv], [C_fsqrt], [C_fexp], [C_ficdf]) are rewritten one site at
    a time, each with the proof of its guard. *)
From Coq Require Import List ZArith Bool Arith Reals Lra Lia Permutation.
From OSV Require Import Num Order Gauss Core Predict RInst Checked.
From OSV.Lemmas Require Import OrderL RateL.
Import ListNotations.
Open Scope R_scope.

(** ** generic list facts *)
Lemma map_sim {A B X Y} (lift : A -> B) (inj : X -> Y) (fC : B -> Y) (fR : A -> X) l :
  (forall x, In x l -> fC (lift x) = inj (fR x)) -> map fC (map lift l) = map inj (map fR l).
Proof.
  intros H. rewrite !map_map. apply map_ext_in. exact H.
Qed.

Lemma rows_aux_map {A B} (f : A -> B) pre l :
  rows_aux (map f pre) (map f l) = map (fun ro => (f (fst ro), map f (snd ro))) (rows_aux pre l).
Proof.
  revert pre; induction l as [|x xs IH]; intros pre; cbn [rows_aux map]; [reflexivity|].
  f_equal.
  - cbn [fst snd]. now rewrite map_app, map_rev.
  - apply (IH (x :: pre)).
Qed.
Lemma rows_map {A B} (f : A -> B) l :
  rows (map f l) = map (fun ro => (f (fst ro), map f (snd ro))) (rows l).
Proof. apply (rows_aux_map f [] l). Qed.

Lemma rows_aux_In {A} (pre l : list A) ro : In ro (rows_aux pre l) ->
  In (fst ro) l /\ forall x, In x (snd ro) -> In x pre \/ In x l.
Proof.
  revert pre; induction l as [|y ys IH]; intros pre Hin; cbn in Hin; [contradiction|].
  destruct Hin as [<-|Hin].
  - cbn [fst snd]. split; [now left|]. intros x Hx. apply in_app_or in Hx.
    destruct Hx as [Hx|Hx]; [left; now apply in_rev|right; now right].
  - destruct (IH _ Hin) as [H1 H2]. split; [now right|]. intros x Hx.
    destruct (H2 x Hx) as [[<-|Hp]|Hl]; [right; now left|now left|right; now right].
Qed.
Lemma rows_In {A} (l : list A) ro : In ro (rows l) ->
  In (fst ro) l /\ forall x, In x (snd ro) -> In x l.
Proof.
  intros Hin. destruct (rows_aux_In [] l ro Hin) as [H1 H2]. split; [exact H1|].
  intros x Hx. destruct (H2 x Hx) as [[]|Hl]. exact Hl.
Qed.

Lemma Rsum_sq_nonneg {A} (f : A -> R) l : 0 <= Rsum (map (fun p => f p * f p) l).
Proof. induction l as [|a l IH]; cbn; [lra|]. pose proof (Rle_0_sqr (f a)) as H. unfold Rsqr in H. lra. Qed.

Lemma sqrt2_lower : 141 / 100 < sqrt 2.
Proof.
  rewrite <- (sqrt_Rsqr (141 / 100)) by lra. apply sqrt_lt_1; unfold Rsqr; lra.
Qed.

Lemma combine_map_l {A B C} (f : A -> B) (l : list A) (l' : list C) :
  combine (map f l) l' = map (fun e => (f (fst e), snd e)) (combine l l').
Proof. revert l'; induction l as [|a l IH]; intros [|c l']; cbn; try reflexivity. now rewrite IH. Qed.
Lemma combine_map_r {A B C} (f : A -> B) (l : list C) (l' : list A) :
  combine l (map f l') = map (fun e => (fst e, f (snd e))) (combine l l').
Proof. revert l'; induction l as [|a l IH]; intros [|c l']; cbn; try reflexivity. now rewrite IH. Qed.

Lemma filter_map_comm {A B} (f : A -> B) (p : B -> bool) l :
  filter p (map f l) = map f (filter (fun a => p (f a)) l).
Proof. induction l as [|a l IH]; cbn; [reflexivity|]. destruct (p (f a)); cbn; now rewrite IH. Qed.

Lemma ladder_aux_map {A B} (f : A -> B) prev l :
  ladder_aux (option_map f prev) (map f l) = map (map f) (ladder_aux prev l).
Proof.
  revert prev; induction l as [|x xs IH]; intros prev; cbn [ladder_aux map]; [reflexivity|].
  f_equal.
  - rewrite map_app. f_equal; [destruct prev; reflexivity|destruct xs; reflexivity].
  - apply (IH (Some x)).
Qed.
Lemma ladder_pairs_map {A B} (f : A -> B) l : ladder_pairs (map f l) = map (map f) (ladder_pairs l).
Proof. apply (ladder_aux_map f None l). Qed.
Lemma ladder_aux_In {A} (prev : option A) l row : In row (ladder_aux prev l) ->
  forall x, In x row -> prev = Some x \/ In x l.
Proof.
  revert prev; induction l as [|y ys IH]; intros prev Hin x Hx; cbn in Hin; [contradiction|].
  destruct Hin as [<-|Hin].
  - apply in_app_or in Hx. destruct Hx as [Hx|Hx].
    + destruct prev as [z|]; cbn in Hx; [|contradiction]. destruct Hx as [->|[]]. now left.
    + destruct ys as [|z zs]; cbn in Hx; [contradiction|]. destruct Hx as [->|[]]. right. right. now left.
  - destruct (IH _ Hin x Hx) as [E|Hl]; [injection E as ->; right; now left|right; now right].
Qed.
Lemma ladder_pairs_In {A} (l : list A) row : In row (ladder_pairs l) -> forall x, In x row -> In x l.
Proof. intros Hin x Hx. destruct (ladder_aux_In None l row Hin x Hx) as [E|H]; [discriminate|exact H]. Qed.

Lemma unwind_map {K A B} (kleb : K -> K -> bool) (f : A -> B) ks xs :
  unwind kleb ks (map f xs) = (map f (fst (unwind kleb ks xs)), snd (unwind kleb ks xs)).
Proof.
  unfold unwind. cbv zeta. cbn [fst snd]. rewrite map_length.
  rewrite (combine_map_l f xs), (combine_map_r (fun e : A * nat => (f (fst e), snd e)) ks).
  rewrite (isort_map (tag_leb kleb) (tag_leb kleb)
            (fun e : K * (A * nat) => (fst e, (f (fst (snd e)), snd (snd e))))) by reflexivity.
  rewrite !map_map. reflexivity.
Qed.
Lemma unwind_fst_In {K A} (kleb : K -> K -> bool) ks (xs : list A) x :
  In x (fst (unwind kleb ks xs)) -> In x xs.
Proof.
  unfold unwind. cbn [fst]. intros Hin. apply in_map_iff in Hin. destruct Hin as [[k [y i]] [<- Hin]].
  apply isort_in in Hin. apply in_combine_r in Hin. apply in_combine_l in Hin. exact Hin.
Qed.

Lemma Rabs_le_both x a : Rabs x <= a -> - a <= x <= a.
Proof. unfold Rabs. destruct (Rcase_abs x); lra. Qed.
Lemma sqrt_lower x b : 0 <= b -> b * b <= x -> b <= sqrt x.
Proof. intros Hb Hx. rewrite <- (sqrt_square b Hb). now apply sqrt_le_1_alt. Qed.
Lemma div_le_bound x c M : 0 < c -> x <= M * c -> x / c <= M.
Proof.
  intros Hc Hx. apply Rmult_le_reg_r with c; [exact Hc|]. unfold Rdiv. rewrite Rmult_assoc, Rinv_l by lra. lra.
Qed.

(** a real team rating, seen as a checked team rating *)
Definition lift_tr (t : trating R) : trating (option R) :=
  {| t_mu := Some (t_mu t); t_ss := Some (t_ss t); t_team := lift_team (t_team t); t_rank := t_rank t |}.
(** a checked gamma callback simulates a real one: on defined arguments ([c > 0],
    [sigma^2 >= 0]) it returns the real callback's value, without raising *)
Definition gamma_sim (gC : gamma_fn (option R)) (gR : gamma_fn R) : Prop :=
  forall c k mu ss team rank, 0 < c -> 0 <= ss ->
    gC (Some c) k (Some mu) (Some ss) (lift_team team) rank = Some (gR c k mu ss team rank).

Section C08.
Variables Phi Phiinv : R -> R.
Local Notation CN := (CNum Phi Phiinv).
Local Notation RN := (RNum Phi Phiinv).

Ltac cpush1 :=
  rewrite ?C_fzero, ?C_fone, ?C_ftwo, ?C_fhalf, ?C_feps, ?C_f1em5,
          ?C_fadd, ?C_fsub, ?C_fmul, ?C_fneg, ?C_fabs, ?C_ferfc, ?C_fpow2,
          ?C_fofZ, ?C_fofdy, ?C_ftau, ?C_fltb, ?C_fleb, ?C_feqb, ?C_ffinite.
Ltac cpush := repeat (progress cpush1).

(** ** sums *)
Lemma C_fold_add l a :
  fold_left (@fadd _ CN) (map Some l) (Some a) = Some (fold_left (@fadd _ RN) l a).
Proof. revert a; induction l as [|x xs IH]; intros a; cbn [fold_left map]; [reflexivity|]. cpush. apply IH. Qed.

Lemma C_reduce_add l : @reduce_add _ CN (map Some l) = Some (@reduce_add _ RN l).
Proof. destruct l as [|x xs]; cbn [reduce_add map]; [reflexivity|]. apply C_fold_add. Qed.

Lemma C_neumaier l s c :
  @neumaier _ CN (map Some l) (Some s) (Some c)
  = (Some (fst (@neumaier _ RN l s c)), Some (snd (@neumaier _ RN l s c))).
Proof.
  revert s c; induction l as [|x xs IH]; intros s c; cbn [neumaier map]; [reflexivity|].
  cpush. destruct (@fleb _ RN (@fabs _ RN x) (@fabs _ RN s)); cpush; apply IH.
Qed.

Lemma C_py_sum l : @py_sum _ CN (map Some l) = Some (@py_sum _ RN l).
Proof.
  destruct l as [|x xs]; cbn [py_sum map]; [reflexivity|].
  cpush. rewrite C_neumaier. cbn [fst snd]. cpush.
  destruct (negb _ && true)%bool eqn:E.
  - cpush. cbn [ffinite RNum] in *. rewrite E. reflexivity.
  - cbn [ffinite RNum] in *. rewrite E. reflexivity.
Qed.

(** ** the Gaussian functions: [cdf], [pdf] are total; [v w vt wt] are total thanks
    to the code's own epsilon tests *)
Lemma C_cdf x : @cdf _ CN (Some x) = Some (@cdf _ RN x).
Proof.
  unfold cdf. cpush. rewrite C_fsqrt by (cbn; lra). rewrite C_fdiv; [cpush; reflexivity|].
  cbn. pose proof sqrt2_pos. lra.
Qed.

Lemma C_pdf x : @pdf _ CN (Some x) = Some (@pdf _ RN x).
Proof.
  unfold pdf. cpush. rewrite (C_fdiv _ _ (@fmul _ RN x x) (@fneg _ RN (@ftwo _ RN))) by (cbn; lra).
  rewrite C_fexp.
  - rewrite C_fsqrt by (cbn; pose proof PI_RGT_0; lra).
    rewrite C_fdiv; [reflexivity|]. cbn. pose proof sqrt_2PI_pos. lra.
  - cbn. unfold EXPMAX. pose proof (Rle_0_sqr x) as Hx. unfold Rsqr in Hx.
    replace (x * x / - (2)) with (- (x * x / 2)) by (field; lra). lra.
Qed.

Lemma C_if (b : bool) (x y : R) : (if b then Some x else Some y) = Some (if b then x else y).
Proof. destruct b; reflexivity. Qed.

Lemma C_fmax a b : @fmax _ CN (Some a) (Some b) = Some (@fmax _ RN a b).
Proof. unfold fmax. cpush. apply C_if. Qed.
Lemma C_fmin a b : @fmin _ CN (Some a) (Some b) = Some (@fmin _ RN a b).
Proof. unfold fmin. cpush. apply C_if. Qed.

Lemma feps_pos : 0 < @feps _ RN.
Proof. apply (R_feps_pos Phi Phiinv). Qed.
Lemma f1em5_pos : 0 < @f1em5 _ RN.
Proof. apply (R_f1em5_pos Phi Phiinv). Qed.

(** [v]: the division is by [cdf (x - t) >= 2^-52 > 0] (the code's epsilon test) *)
Lemma C_v x t : @v _ CN (Some x) (Some t) = Some (@v _ RN x t).
Proof.
  unfold v; cbv zeta. cpush. rewrite C_cdf. cpush.
  destruct (@fltb _ RN (@cdf _ RN (@fsub _ RN x t)) (@feps _ RN)) eqn:E; cpush; [reflexivity|].
  rewrite C_pdf. apply C_fdiv. apply Rltb_false in E. pose proof feps_pos. lra.
Qed.

Lemma C_w x t : @w _ CN (Some x) (Some t) = Some (@w _ RN x t).
Proof.
  unfold w; cbv zeta. cpush. rewrite C_cdf, C_v. cpush.
  destruct (@fltb _ RN (@cdf _ RN (@fsub _ RN x t)) (@feps _ RN)); [|reflexivity].
  destruct (@fltb _ RN x (@fzero _ RN)); reflexivity.
Qed.

(** [vt]: the division is by the window mass [>= 1e-5 > 0] *)
Lemma C_vt x t : @vt _ CN (Some x) (Some t) = Some (@vt _ RN x t).
Proof.
  unfold vt; cbv zeta. cpush. rewrite !C_cdf. cpush.
  set (b := @fsub _ RN (@cdf _ RN (@fsub _ RN t (@fabs _ RN x)))
                       (@cdf _ RN (@fsub _ RN (@fneg _ RN t) (@fabs _ RN x)))).
  destruct (@fltb _ RN b (@f1em5 _ RN)) eqn:E.
  - destruct (@fltb _ RN x (@fzero _ RN)); cpush; reflexivity.
  - rewrite !C_pdf. cpush. apply Rltb_false in E.
    assert (Hb : b <> 0) by (pose proof f1em5_pos; lra).
    destruct (@fltb _ RN x (@fzero _ RN)); cpush; now apply C_fdiv.
Qed.

(** [wt]: the division is by the window mass [>= 2^-52 > 0] *)
Lemma C_wt x t : @wt _ CN (Some x) (Some t) = Some (@wt _ RN x t).
Proof.
  unfold wt; cbv zeta. cpush. rewrite !C_cdf. cpush.
  set (b := @fsub _ RN (@cdf _ RN (@fsub _ RN t (@fabs _ RN x)))
                       (@cdf _ RN (@fsub _ RN (@fneg _ RN t) (@fabs _ RN x)))).
  destruct (@fltb _ RN b (@feps _ RN)) eqn:E; [reflexivity|].
  rewrite !C_pdf, !C_vt. cpush. apply Rltb_false in E.
  rewrite C_fdiv by (pose proof feps_pos; lra). cpush.
  rewrite C_fmax, C_fmin. reflexivity.
Qed.

(** ** team aggregates *)
Lemma lift_team_length t : length (lift_team t) = length t.
Proof. apply map_length. Qed.
Lemma lift_game_length g : length (lift_game g) = length g.
Proof. apply map_length. Qed.

Lemma C_sum_mu t : @reduce_add _ CN (map (@r_mu _) (lift_team t)) = Some (@reduce_add _ RN (map (@r_mu _) t)).
Proof.
  unfold lift_team. rewrite (map_sim lift_rating Some (@r_mu _) (@r_mu _)) by reflexivity. apply C_reduce_add.
Qed.
Lemma C_sum_ss t :
  @reduce_add _ CN (map (fun p => @fpow2 _ CN (r_sigma p)) (lift_team t))
  = Some (@reduce_add _ RN (map (fun p => @fpow2 _ RN (r_sigma p)) t)).
Proof.
  unfold lift_team.
  rewrite (map_sim lift_rating Some (fun p => @fpow2 _ CN (r_sigma p)) (fun p => @fpow2 _ RN (r_sigma p))) by reflexivity.
  apply C_reduce_add.
Qed.
Lemma ss_nonneg (t : list (rating R)) : 0 <= @reduce_add _ RN (map (fun p => @fpow2 _ RN (r_sigma p)) t).
Proof. rewrite (R_reduce_add Phi Phiinv). cbn [fpow2 RNum]. apply Rsum_sq_nonneg. Qed.

Lemma C_agg t : @agg _ CN (lift_team t) = (Some (fst (@agg _ RN t)), Some (snd (@agg _ RN t))).
Proof. unfold agg. cbn [fst snd]. now rewrite C_sum_mu, C_sum_ss. Qed.
Lemma agg_snd_nonneg t : 0 <= snd (@agg _ RN t).
Proof. apply ss_nonneg. Qed.

Lemma IZR_nat_nonneg n : 0 <= IZR (Z.of_nat n).
Proof. apply IZR_le. lia. Qed.
Lemma IZR_nat_ge1 n : (1 <= n)%nat -> 1 <= IZR (Z.of_nat n).
Proof. intros. apply IZR_le. lia. Qed.

(** [pair_scale]: the root of a non-negative number; positive when [beta > 0], [n >= 1] *)
Lemma pair_scale_arg beta n a2 b2 : 0 <= a2 -> 0 <= b2 ->
  0 <= IZR (Z.of_nat n) * (beta * beta) + a2 + b2.
Proof. intros. pose proof (IZR_nat_nonneg n). pose proof (Rle_0_sqr beta) as Hb. unfold Rsqr in Hb. nra. Qed.
Lemma C_pair_scale beta n a1 a2 b1 b2 : 0 <= a2 -> 0 <= b2 ->
  @pair_scale _ CN (Some beta) n (Some a1, Some a2) (Some b1, Some b2)
  = Some (@pair_scale _ RN beta n (a1, a2) (b1, b2)).
Proof.
  intros Ha Hb. unfold pair_scale. cbn [fst snd]. cpush. apply C_fsqrt. cbn. now apply pair_scale_arg.
Qed.
Lemma pair_scale_pos beta n a b : 0 < beta -> (1 <= n)%nat -> 0 <= snd a -> 0 <= snd b ->
  0 < @pair_scale _ RN beta n a b.
Proof.
  intros Hbeta Hn Ha Hb. unfold pair_scale. cbn. apply sqrt_lt_R0.
  pose proof (IZR_nat_ge1 n Hn). nra.
Qed.

(** one pairwise term [cdf (X / pair_scale)] *)
Lemma C_pair_term beta n X ta tb : 0 < beta -> (1 <= n)%nat ->
  @cdf _ CN (@fdiv _ CN (Some X) (@pair_scale _ CN (Some beta) n (@agg _ CN (lift_team ta)) (@agg _ CN (lift_team tb))))
  = Some (@cdf _ RN (@fdiv _ RN X (@pair_scale _ RN beta n (@agg _ RN ta) (@agg _ RN tb)))).
Proof.
  intros Hbeta Hn. rewrite !C_agg.
  rewrite C_pair_scale by apply agg_snd_nonneg.
  rewrite <- !surjective_pairing.
  rewrite C_fdiv; [apply C_cdf|].
  pose proof (pair_scale_pos beta n (@agg _ RN ta) (@agg _ RN tb) Hbeta Hn (agg_snd_nonneg ta) (agg_snd_nonneg tb)). lra.
Qed.

Lemma C_half_pairs n : @half_pairs _ CN n = Some (@half_pairs _ RN n).
Proof. unfold half_pairs. cpush. apply C_fdiv. cbn. lra. Qed.
Lemma half_pairs_pos n : (2 <= n)%nat -> 0 < @half_pairs _ RN n.
Proof.
  intros Hn. unfold half_pairs. cbn. assert (1 <= IZR (Z.of_nat (n * (n - 1)))) by (apply IZR_nat_ge1; nia). lra.
Qed.

(** ** predict_win *)
Lemma predict_win_rows {F} {N : Num F} (beta : F) (teams : list (list (rating F))) :
  length teams <> 2%nat ->
  predict_win beta teams =
  map (fun ro => let a := agg (fst ro) in
         fdiv (py_sum (map (fun tb => let b := agg tb in
                  cdf (fdiv (fsub (fst a) (fst b)) (pair_scale beta (length teams) a b))) (snd ro)))
              (half_pairs (length teams))) (rows teams).
Proof. destruct teams as [|a [|b [|c r]]]; intros Hl; try reflexivity. now elim Hl. Qed.

Theorem C_predict_win beta teams : 0 < beta -> (2 <= length teams)%nat -> Forall (fun t => t <> []) teams ->
  @predict_win _ CN (Some beta) (lift_game teams) = map Some (@predict_win _ RN beta teams).
Proof.
  intros Hbeta Hn Hne. destruct (Nat.eq_dec (length teams) 2) as [E|E].
  - destruct teams as [|ta [|tb [|tc r]]]; try discriminate. clear E Hn.
    assert (Hta : ta <> []) by (inversion Hne; assumption).
    unfold predict_win, lift_game. cbn [map]. cbv zeta. rewrite !lift_team_length.
    rewrite !C_agg at 1. cbn [fst]. cpush.
    rewrite <- (C_agg ta), <- (C_agg tb).
    rewrite C_pair_term by (first [assumption | destruct ta; [congruence|cbn; lia]]). cpush. reflexivity.
  - rewrite !predict_win_rows by (rewrite ?lift_game_length; exact E).
    rewrite lift_game_length. unfold lift_game. rewrite rows_map, !map_map.
    apply map_ext_in. intros ro Hro. cbv zeta. cbn [fst snd].
    rewrite (map_sim lift_team Some _
      (fun tb => @cdf _ RN (@fdiv _ RN (@fsub _ RN (fst (@agg _ RN (fst ro))) (fst (@agg _ RN tb)))
                  (@pair_scale _ RN beta (length teams) (@agg _ RN (fst ro)) (@agg _ RN tb))))).
    + rewrite C_py_sum, C_half_pairs. apply C_fdiv. pose proof (half_pairs_pos _ Hn). lra.
    + intros tb _. rewrite !C_agg at 1. cbn [fst]. cpush. rewrite <- !C_agg. apply C_pair_term; [assumption|lia].
Qed.

(** ** the draw margin: [sqrt N * beta * inv_cdf ((1 + 1/N) / 2)], [N] = number of players *)
Lemma nplayers_acc {F} (teams : list (list (rating F))) a :
  fold_left (fun acc t => (acc + length t)%nat) teams a = (a + nplayers teams)%nat.
Proof.
  unfold nplayers. revert a. induction teams as [|t ts IH]; intros a; cbn [fold_left]; [lia|].
  rewrite IH, (IH (0 + length t)%nat). lia.
Qed.
Lemma nplayers_cons {F} (t : list (rating F)) ts : nplayers (t :: ts) = (length t + nplayers ts)%nat.
Proof. unfold nplayers at 1. cbn [fold_left]. now rewrite nplayers_acc. Qed.
Lemma nplayers_lift teams : nplayers (lift_game teams) = nplayers teams.
Proof.
  induction teams as [|t ts IH]; [reflexivity|]. unfold lift_game in *. cbn [map].
  now rewrite !nplayers_cons, IH, lift_team_length.
Qed.
Lemma nplayers_ge (teams : list (list (rating R))) :
  Forall (fun t => t <> []) teams -> (length teams <= nplayers teams)%nat.
Proof.
  induction 1 as [|t ts Ht Hts IH]; [cbn; lia|]. rewrite nplayers_cons. cbn [length].
  destruct t; [congruence|]. cbn [length]. lia.
Qed.

(** the argument of the inverse CDF is a probability: [1/2 < (1 + 1/N)/2 <= 3/4] for [N >= 2] *)
Lemma icdf_arg_range (np : nat) : (2 <= np)%nat ->
  0 < (1 + 1 / IZR (Z.of_nat np)) / 2 < 1.
Proof.
  intros Hn. assert (H2 : 2 <= IZR (Z.of_nat np)) by (apply IZR_le; lia).
  assert (Hi : 0 < / IZR (Z.of_nat np) <= / 2).
  { split; [apply Rinv_0_lt_compat; lra|apply Rinv_le_contravar; lra]. }
  unfold Rdiv. lra.
Qed.

Lemma C_draw_margin beta teams : (2 <= length teams)%nat -> Forall (fun t => t <> []) teams ->
  @draw_margin _ CN (Some beta) (lift_game teams) = Some (@draw_margin _ RN beta teams).
Proof.
  intros Hn Hne. unfold draw_margin; cbv zeta. rewrite nplayers_lift.
  pose proof (nplayers_ge teams Hne) as Hnp.
  assert (H2 : 2 <= IZR (Z.of_nat (nplayers teams))) by (apply IZR_le; lia).
  cpush. rewrite C_fsqrt by (cbn; lra). cpush.
  rewrite (C_fdiv _ _ (@fone _ RN)) by (cbn; lra). cpush.
  rewrite C_fdiv by (cbn; lra). unfold icdf. rewrite C_ficdf; [cpush; reflexivity|].
  cbn. apply icdf_arg_range. lia.
Qed.

Lemma flat_map_sim {A B X Y} (lift : A -> B) (inj : X -> Y) (fC : B -> list Y) (fR : A -> list X) l :
  (forall x, In x l -> fC (lift x) = map inj (fR x)) ->
  flat_map fC (map lift l) = map inj (flat_map fR l).
Proof.
  intros H. induction l as [|a l IH]; cbn [flat_map map]; [reflexivity|].
  rewrite map_app, H by (now left). f_equal. apply IH. intros x Hx. apply H. now right.
Qed.

(** ** predict_draw *)
Theorem C_predict_draw beta teams : 0 < beta -> (2 <= length teams)%nat -> Forall (fun t => t <> []) teams ->
  @predict_draw _ CN (Some beta) (lift_game teams) = Some (@predict_draw _ RN beta teams).
Proof.
  intros Hbeta Hn Hne. unfold predict_draw; cbv zeta.
  rewrite C_draw_margin by assumption. rewrite lift_game_length.
  set (dm := @draw_margin _ RN beta teams).
  unfold lift_game at 1. rewrite rows_map.
  rewrite (flat_map_sim (fun ro : list (rating R) * list (list (rating R)) => (lift_team (fst ro), map lift_team (snd ro))) Some _
    (fun ro => map (fun tb =>
       @fsub _ RN (@cdf _ RN (@fdiv _ RN (@fadd _ RN (@fsub _ RN dm (fst (@agg _ RN (fst ro)))) (fst (@agg _ RN tb)))
                                   (@pair_scale _ RN beta (length teams) (@agg _ RN (fst ro)) (@agg _ RN tb))))
                  (@cdf _ RN (@fdiv _ RN (@fsub _ RN (@fsub _ RN (fst (@agg _ RN (fst ro))) (fst (@agg _ RN tb))) dm)
                                   (@pair_scale _ RN beta (length teams) (@agg _ RN (fst ro)) (@agg _ RN tb))))) (snd ro))).
  - rewrite C_py_sum. cpush.
    destruct (Nat.ltb 2 (length teams)) eqn:E; cpush; apply C_fdiv; cbn; [|lra].
    assert (1 <= IZR (Z.of_nat (length teams * (length teams - 1)))) by (apply IZR_nat_ge1; nia). lra.
  - intros ro _. cbn [fst snd]. rewrite !map_map. apply map_ext_in. intros tb _.
    rewrite !C_agg at 1. cbn [fst]. cpush. rewrite <- !C_agg.
    rewrite !C_pair_term by (first [assumption|lia]). cpush. reflexivity.
Qed.

(** ** predict_rank: the rank computation sees only comparisons of defined numbers *)
Lemma C_rank_groups prev s p (l : list (R * nat)) :
  rank_groups (@feqb _ CN) (Some prev) s p (map (fun e => (Some (fst e), snd e)) l)
  = rank_groups (@feqb _ RN) prev s p l.
Proof.
  revert prev s p; induction l as [|[x i] l IH]; intros prev s p; cbn [rank_groups map fst snd]; [reflexivity|].
  cpush. now rewrite IH.
Qed.

Lemma C_arg_sort_pairs (l : list R) :
  arg_sort_pairs (@fltb _ CN) (@feqb _ CN) (map Some l)
  = map (fun e => (Some (fst e), snd e)) (arg_sort_pairs (@fltb _ RN) (@feqb _ RN) l).
Proof.
  unfold arg_sort_pairs. rewrite map_length, combine_map_l.
  apply isort_map. intros [x i] [y j] _ _. reflexivity.
Qed.

Lemma C_rank_data (l : list R) :
  rank_data (@fltb _ CN) (@feqb _ CN) (map Some l) = rank_data (@fltb _ RN) (@feqb _ RN) l.
Proof.
  unfold rank_data. rewrite map_length. cbv zeta.
  replace (rank_assoc (@fltb _ CN) (@feqb _ CN) (map Some l)) with (rank_assoc (@fltb _ RN) (@feqb _ RN) l); [reflexivity|].
  unfold rank_assoc. rewrite C_arg_sort_pairs.
  destruct (arg_sort_pairs (@fltb _ RN) (@feqb _ RN) l) as [|[x i] xs]; cbn [map fst snd]; [reflexivity|].
  now rewrite C_rank_groups.
Qed.

Lemma C_predict_rank_probs beta teams : 0 < beta -> (2 <= length teams)%nat -> Forall (fun t => t <> []) teams ->
  @predict_rank_probs _ CN (Some beta) (lift_game teams) = map Some (@predict_rank_probs _ RN beta teams).
Proof.
  intros Hbeta Hn Hne. unfold predict_rank_probs; cbv zeta.
  rewrite C_draw_margin by assumption. rewrite lift_game_length.
  set (dm := @draw_margin _ RN beta teams).
  unfold lift_game. rewrite rows_map, !map_map.
  apply map_ext_in. intros ro Hro. cbn [fst snd].
  rewrite (map_sim lift_team Some _
    (fun tb => @cdf _ RN (@fdiv _ RN (@fsub _ RN (@fsub _ RN (fst (@agg _ RN (fst ro))) (fst (@agg _ RN tb))) dm)
                (@pair_scale _ RN beta (length teams) (@agg _ RN (fst ro)) (@agg _ RN tb))))).
  - rewrite C_py_sum, C_half_pairs. rewrite C_fdiv by (pose proof (half_pairs_pos _ Hn); lra). cpush. reflexivity.
  - intros tb _. rewrite !C_agg at 1. cbn [fst]. cpush. rewrite <- !C_agg. apply C_pair_term; [assumption|lia].
Qed.

Theorem C_predict_rank beta teams : 0 < beta -> (2 <= length teams)%nat -> Forall (fun t => t <> []) teams ->
  @predict_rank _ CN (Some beta) (lift_game teams)
  = map (fun rp => (fst rp, Some (snd rp))) (@predict_rank _ RN beta teams).
Proof.
  intros Hbeta Hn Hne. unfold predict_rank; cbv zeta.
  rewrite C_predict_rank_probs by assumption. rewrite C_rank_data. apply combine_map_r.
Qed.

(** ** rate: the update rules *)
Section Rate.
Variables (beta kappa : R) (gC : gamma_fn (option R)) (gR : gamma_fn R).
Hypotheses (Hbeta : 0 < beta) (Hkappa : 0 < kappa) (Hg : gamma_sim gC gR).
Let PC : params (option R) := mkParams (Some beta) (Some kappa) gC.
Let PR : params R := mkParams beta kappa gR.

Definition pos_tr (t : trating R) : Prop := 0 < t_ss t.
Definition bounded_tr (t : trating R) : Prop := Rabs (t_mu t) <= 320 * beta.

(** the per-player split: division by the team's [sigma^2 > 0]; root of [max (., kappa) >= kappa > 0] *)
Lemma C_update_player ti o d p : pos_tr ti ->
  @update_player _ CN PC (lift_tr ti) (Some o) (Some d) (lift_rating p) = lift_rating (@update_player _ RN PR ti o d p).
Proof.
  intros Hss. unfold pos_tr in Hss. unfold update_player, set_mu_sigma, lift_rating; cbv zeta.
  cbn [r_mu r_sigma r_id r_name t_ss lift_tr p_kappa PC PR].
  cpush. rewrite C_fdiv by lra. cpush. rewrite C_fmax. rewrite C_fsqrt.
  - cpush. reflexivity.
  - rewrite (R_fmax Phi Phiinv). pose proof (Rmax_r (@fsub _ RN (@fone _ RN)
      (@fmul _ RN (@fdiv _ RN (@fpow2 _ RN (r_sigma p)) (t_ss ti)) d)) kappa). lra.
Qed.

Lemma C_update_team ti o d : pos_tr ti ->
  @update_team _ CN PC (lift_tr ti) (Some o, Some d) = lift_team (@update_team _ RN PR ti (o, d)).
Proof.
  intros Hss. unfold update_team, lift_team. cbn [fst snd]. cbn [t_team lift_tr]. unfold lift_team.
  rewrite !map_map. apply map_ext. intros p. now apply C_update_player.
Qed.

Lemma C_gamma_of c trs ti : 0 < c -> pos_tr ti ->
  gamma_of PC (Some c) (map lift_tr trs) (lift_tr ti) = Some (gamma_of PR c trs ti).
Proof.
  intros Hc Hss. unfold gamma_of, nteams. rewrite map_length. cbn [p_gamma PC PR t_mu t_ss t_team t_rank lift_tr].
  apply Hg; [exact Hc|]. unfold pos_tr in Hss. lra.
Qed.

(** [c_iq = sqrt (ss_i + ss_q + 2 beta^2) >= 1.41 beta > 0] *)
Lemma c_iq_arg ti tq : pos_tr ti -> pos_tr tq ->
  2 * (beta * beta) <= @fadd _ RN (@fadd _ RN (t_ss ti) (t_ss tq)) (@fmul _ RN (@ftwo _ RN) (@fpow2 _ RN beta)).
Proof. unfold pos_tr. intros Hi Hq. cbn. lra. Qed.
Lemma C_c_iq ti tq : pos_tr ti -> pos_tr tq ->
  @c_iq _ CN PC (lift_tr ti) (lift_tr tq) = Some (@c_iq _ RN PR ti tq).
Proof.
  intros Hi Hq. unfold c_iq. cbn [t_ss lift_tr p_beta PC PR]. cpush. apply C_fsqrt.
  pose proof (c_iq_arg ti tq Hi Hq). nra.
Qed.
Lemma c_iq_lower ti tq : pos_tr ti -> pos_tr tq -> 141 / 100 * beta <= @c_iq _ RN PR ti tq.
Proof.
  intros Hi Hq. unfold c_iq. cbn [p_beta PR]. apply sqrt_lower; [lra|].
  pose proof (c_iq_arg ti tq Hi Hq). nra.
Qed.

(** Bradley-Terry: [exp ((mu_q - mu_i) / c_iq)] with [|mu_q - mu_i| <= 640 beta], [c_iq >= 1.41 beta] *)
Lemma C_bt_term trs ti o d tq : pos_tr ti -> pos_tr tq -> bounded_tr ti -> bounded_tr tq ->
  @bt_term _ CN PC (map lift_tr trs) (lift_tr ti) (Some o, Some d) (lift_tr tq)
  = (Some (fst (@bt_term _ RN PR trs ti (o, d) tq)), Some (snd (@bt_term _ RN PR trs ti (o, d) tq))).
Proof.
  intros Hi Hq Bi Bq. pose proof (c_iq_lower ti tq Hi Hq) as Hc.
  assert (Hc0 : 0 < @c_iq _ RN PR ti tq) by lra.
  unfold bt_term; cbv zeta. rewrite (C_c_iq ti tq Hi Hq).
  rewrite (C_gamma_of _ trs ti Hc0 Hi).
  cbn [t_mu t_ss t_rank lift_tr fst snd]. cpush.
  rewrite !C_fdiv by lra.
  rewrite C_fexp.
  2:{ cbn [fdiv fsub RNum]. apply div_le_bound; [exact Hc0|].
      unfold bounded_tr in Bi, Bq. unfold EXPMAX.
      pose proof (Rabs_le_both _ _ Bi). pose proof (Rabs_le_both _ _ Bq). nra. }
  cpush. rewrite C_fdiv.
  2:{ cbn [fadd fone fofZ RNum]. pose proof (exp_pos (@fdiv _ RN (@fsub _ RN (t_mu tq) (t_mu ti)) (@c_iq _ RN PR ti tq))).
      cbn [fexp RNum]. lra. }
  destruct (Nat.ltb (t_rank ti) (t_rank tq)); [|destruct (Nat.eqb (t_rank tq) (t_rank ti))];
    cpush; rewrite ?C_fdiv by lra; cpush; reflexivity.
Qed.

(** Thurstone-Mosteller: all divisions are by [c] (= [c_iq] or [2 c_iq]) [> 0]; [v w vt wt] never raise *)
Lemma C_tm_term two_c trs ti o d tq : pos_tr ti -> pos_tr tq ->
  @tm_term _ CN two_c PC (map lift_tr trs) (lift_tr ti) (Some o, Some d) (lift_tr tq)
  = (Some (fst (@tm_term _ RN two_c PR trs ti (o, d) tq)), Some (snd (@tm_term _ RN two_c PR trs ti (o, d) tq))).
Proof.
  intros Hi Hq. pose proof (c_iq_lower ti tq Hi Hq) as Hc.
  assert (Hc0 : 0 < @c_iq _ RN PR ti tq) by lra.
  unfold tm_term; cbv zeta. rewrite (C_c_iq ti tq Hi Hq). cpush.
  rewrite C_if.
  set (c := if two_c then @fmul _ RN (@ftwo _ RN) (@c_iq _ RN PR ti tq) else @c_iq _ RN PR ti tq).
  assert (Hcc : 0 < c) by (unfold c; destruct two_c; cbn [fmul ftwo fofZ RNum]; lra).
  rewrite (C_gamma_of _ trs ti Hcc Hi).
  cbn [t_mu t_ss t_rank lift_tr fst snd p_kappa PC PR]. cpush.
  rewrite !C_fdiv by lra. cpush. rewrite !C_fdiv by lra.
  destruct (Nat.ltb (t_rank ti) (t_rank tq)); [|destruct (Nat.ltb (t_rank tq) (t_rank ti))];
    cpush; rewrite ?C_v, ?C_w, ?C_vt, ?C_wt; cpush; reflexivity.
Qed.

Lemma C_fold_pairs {A B} (lift : A -> B) (termC : option R * option R -> B -> option R * option R)
      (termR : R * R -> A -> R * R) opps :
  (forall o d tq, In tq opps ->
     termC (Some o, Some d) (lift tq) = (Some (fst (termR (o, d) tq)), Some (snd (termR (o, d) tq)))) ->
  forall o d, fold_left termC (map lift opps) (Some o, Some d)
    = (Some (fst (fold_left termR opps (o, d))), Some (snd (fold_left termR opps (o, d)))).
Proof.
  induction opps as [|tq opps IH]; intros H o d; cbn [fold_left map]; [reflexivity|].
  rewrite H by (now left). rewrite IH by (intros; apply H; now right).
  now rewrite <- surjective_pairing.
Qed.

Lemma C_compute_pairs termC termR (opp : list (trating R * list (trating R))) :
  (forall io, In io opp -> pos_tr (fst io) /\
     forall o d tq, In tq (snd io) ->
       termC (lift_tr (fst io)) (Some o, Some d) (lift_tr tq)
       = (Some (fst (termR (fst io) (o, d) tq)), Some (snd (termR (fst io) (o, d) tq)))) ->
  @compute_pairs _ CN termC (map (fun io => (lift_tr (fst io), map lift_tr (snd io))) opp) PC
  = lift_game (@compute_pairs _ RN termR opp PR).
Proof.
  intros H. unfold compute_pairs, lift_game. rewrite !map_map. apply map_ext_in. intros io Hio.
  destruct (H io Hio) as [Hss Ht]. cbn [fst snd].
  change (@fzero _ CN) with (Some (@fzero _ RN)).
  rewrite (C_fold_pairs lift_tr (termC (lift_tr (fst io))) (termR (fst io)) (snd io) Ht).
  rewrite C_update_team by exact Hss. now rewrite <- surjective_pairing.
Qed.

Lemma C_opponents_full (trs : list (trating R)) :
  opponents_full (map lift_tr trs) = map (fun io => (lift_tr (fst io), map lift_tr (snd io))) (opponents_full trs).
Proof. apply rows_map. Qed.
Lemma C_opponents_part (trs : list (trating R)) :
  opponents_part (map lift_tr trs) = map (fun io => (lift_tr (fst io), map lift_tr (snd io))) (opponents_part trs).
Proof. unfold opponents_part. rewrite ladder_pairs_map. apply combine_map. Qed.
Lemma opponents_full_In (trs : list (trating R)) io : In io (opponents_full trs) ->
  In (fst io) trs /\ forall x, In x (snd io) -> In x trs.
Proof. apply rows_In. Qed.
Lemma opponents_part_In (trs : list (trating R)) io : In io (opponents_part trs) ->
  In (fst io) trs /\ forall x, In x (snd io) -> In x trs.
Proof.
  unfold opponents_part. destruct io as [ti row]. intros Hin. split.
  - now apply in_combine_l in Hin.
  - apply in_combine_r in Hin. now apply ladder_pairs_In.
Qed.

Lemma C_compute_BT k trs : k = BTF \/ k = BTP -> Forall pos_tr trs -> Forall bounded_tr trs ->
  @compute _ CN k PC (map lift_tr trs) = lift_game (@compute _ RN k PR trs).
Proof.
  intros Hk Hp Hb. rewrite Forall_forall in Hp, Hb.
  destruct Hk as [-> | ->]; cbn [compute].
  - rewrite C_opponents_full. apply C_compute_pairs. intros io Hio.
    destruct (opponents_full_In trs io Hio) as [H1 H2]. split; [now apply Hp|].
    intros o d tq Hq. apply C_bt_term; auto.
  - rewrite C_opponents_part. apply C_compute_pairs. intros io Hio.
    destruct (opponents_part_In trs io Hio) as [H1 H2]. split; [now apply Hp|].
    intros o d tq Hq. apply C_bt_term; auto.
Qed.

Lemma C_compute_TM k trs : k = TMF \/ k = TMP -> Forall pos_tr trs ->
  @compute _ CN k PC (map lift_tr trs) = lift_game (@compute _ RN k PR trs).
Proof.
  intros Hk Hp. rewrite Forall_forall in Hp.
  destruct Hk as [-> | ->]; cbn [compute].
  - rewrite C_opponents_full. apply C_compute_pairs. intros io Hio.
    destruct (opponents_full_In trs io Hio) as [H1 H2]. split; [now apply Hp|].
    intros o d tq Hq. apply C_tm_term; auto.
  - rewrite C_opponents_part. apply C_compute_pairs. intros io Hio.
    destruct (opponents_part_In trs io Hio) as [H1 H2]. split; [now apply Hp|].
    intros o d tq Hq. apply C_tm_term; auto.
Qed.

(** ** Plackett-Luce *)
Lemma C_pl_fold trs a :
  fold_left (fun acc t => @fadd _ CN acc (@fadd _ CN (t_ss t) (@fpow2 _ CN (Some beta)))) (map lift_tr trs) (Some a)
  = Some (fold_left (fun acc t => @fadd _ RN acc (@fadd _ RN (t_ss t) (@fpow2 _ RN beta))) trs a).
Proof.
  revert a; induction trs as [|t trs IH]; intros a; cbn [fold_left map]; [reflexivity|].
  cbn [t_ss lift_tr]. cpush. apply IH.
Qed.
Lemma pl_fold_lower trs a : Forall pos_tr trs ->
  a + INR (length trs) * (beta * beta)
  <= fold_left (fun acc t => @fadd _ RN acc (@fadd _ RN (t_ss t) (@fpow2 _ RN beta))) trs a.
Proof.
  intros H; revert a; induction H as [|t trs Ht Hts IH]; intros a; cbn [fold_left length]; [cbn; lra|].
  rewrite S_INR. eapply Rle_trans; [|apply IH]. unfold pos_tr in Ht. cbn [fadd fpow2 RNum]. lra.
Qed.
Lemma pl_c_arg trs : (2 <= length trs)%nat -> Forall pos_tr trs ->
  2 * (beta * beta) <= fold_left (fun acc t => @fadd _ RN acc (@fadd _ RN (t_ss t) (@fpow2 _ RN beta))) trs (@fzero _ RN).
Proof.
  intros Hn Hp. eapply Rle_trans; [|apply (pl_fold_lower trs _ Hp)].
  assert (2 <= INR (length trs)) by (change 2 with (INR 2); now apply le_INR).
  cbn [fzero fofZ RNum]. nra.
Qed.
(** [c = sqrt (sum (ss_t + beta^2)) >= 1.41 beta > 0] because there are [>= 2] teams *)
Lemma C_pl_c trs : (2 <= length trs)%nat -> Forall pos_tr trs ->
  @pl_c _ CN PC (map lift_tr trs) = Some (@pl_c _ RN PR trs).
Proof.
  intros Hn Hp. unfold pl_c. cbn [p_beta PC PR]. change (@fzero _ CN) with (Some (@fzero _ RN)).
  rewrite C_pl_fold. apply C_fsqrt. pose proof (pl_c_arg trs Hn Hp). nra.
Qed.
Lemma pl_c_lower trs : (2 <= length trs)%nat -> Forall pos_tr trs -> 141 / 100 * beta <= @pl_c _ RN PR trs.
Proof.
  intros Hn Hp. unfold pl_c. cbn [p_beta PR]. apply sqrt_lower; [lra|]. pose proof (pl_c_arg trs Hn Hp). nra.
Qed.

(** [exp (mu_i / c)] with [|mu_i| <= 320 beta], [c >= 1.41 beta] *)
Lemma C_pl_exp c ti : 141 / 100 * beta <= c -> bounded_tr ti ->
  @fexp _ CN (@fdiv _ CN (Some (t_mu ti)) (Some c)) = Some (@fexp _ RN (@fdiv _ RN (t_mu ti) c)).
Proof.
  intros Hc Bi. rewrite C_fdiv by lra. apply C_fexp. cbn [fdiv RNum]. apply div_le_bound; [lra|].
  unfold bounded_tr in Bi. pose proof (Rabs_le_both _ _ Bi). unfold EXPMAX. nra.
Qed.

Lemma C_pl_sum_q trs c : 141 / 100 * beta <= c -> Forall bounded_tr trs ->
  @pl_sum_q _ CN (map lift_tr trs) (Some c) = map Some (@pl_sum_q _ RN trs c).
Proof.
  intros Hc Hb. rewrite Forall_forall in Hb. unfold pl_sum_q. rewrite !map_map. apply map_ext_in. intros tq _.
  rewrite filter_map_comm. cbn [t_rank lift_tr].
  rewrite (map_sim lift_tr Some _ (fun ti => @fexp _ RN (@fdiv _ RN (t_mu ti) c))); [apply C_reduce_add|].
  intros ti Hti. apply filter_In in Hti. cbn [t_mu lift_tr]. apply C_pl_exp; [exact Hc|]. apply Hb. tauto.
Qed.
(** every [sum_q] is a non-empty sum of exponentials, so [> 0] *)
Lemma pl_sum_q_pos (trs : list (trating R)) c : Forall (fun s => 0 < s) (@pl_sum_q _ RN trs c).
Proof.
  unfold pl_sum_q. rewrite Forall_map. apply Forall_forall. intros tq Htq.
  rewrite (R_reduce_add Phi Phiinv). apply Rsum_pos.
  - assert (Hin : In tq (filter (fun ti => Nat.leb (t_rank tq) (t_rank ti)) trs)).
    { apply filter_In. split; [exact Htq|apply Nat.leb_refl]. }
    destruct (filter _ trs); [contradiction|discriminate].
  - rewrite Forall_map. apply Forall_forall. intros ti _. cbn. apply exp_pos.
Qed.

Lemma C_pl_a (trs : list (trating R)) : pl_a (map lift_tr trs) = pl_a trs.
Proof.
  unfold pl_a. rewrite map_map. apply map_ext. intros ti. rewrite filter_map_comm, map_length. reflexivity.
Qed.
(** every [A_q] counts at least the team itself *)
Lemma pl_a_ge1 (trs : list (trating R)) : Forall (fun a => (1 <= a)%nat) (pl_a trs).
Proof.
  unfold pl_a. rewrite Forall_map. apply Forall_forall. intros ti Hti.
  assert (Hin : In ti (filter (fun tq => Nat.eqb (t_rank ti) (t_rank tq)) trs)).
  { apply filter_In. split; [exact Hti|apply Nat.eqb_refl]. }
  destruct (filter _ trs); [contradiction|cbn; lia].
Qed.

Definition liftq (qt : nat * (trating R * (R * nat))) : nat * (trating (option R) * (option R * nat)) :=
  (fst qt, (lift_tr (fst (snd qt)), (Some (fst (snd (snd qt))), snd (snd (snd qt))))).

Lemma C_qs (trs : list (trating R)) (sq : list R) (a : list nat) :
  combine (seq 0 (length (map lift_tr trs))) (combine (map lift_tr trs) (combine (map Some sq) a))
  = map liftq (combine (seq 0 (length trs)) (combine trs (combine sq a))).
Proof.
  rewrite map_length. rewrite (combine_map_l Some sq a).
  rewrite (combine_map lift_tr (fun e : R * nat => (Some (fst e), snd e)) trs (combine sq a)).
  rewrite combine_map_r. reflexivity.
Qed.

Lemma C_pl_step i ti e o d qt : 0 < fst (snd (snd qt)) -> (1 <= snd (snd (snd qt)))%nat ->
  @pl_step _ CN i (lift_tr ti) (Some e) (Some o, Some d) (liftq qt)
  = (Some (fst (@pl_step _ RN i ti e (o, d) qt)), Some (snd (@pl_step _ RN i ti e (o, d) qt))).
Proof.
  destruct qt as [q [tq [sq aq]]]. cbn [fst snd]. intros Hs Ha.
  assert (Ha' : @fofZ _ RN (Z.of_nat aq) <> 0) by (cbn [fofZ RNum]; pose proof (IZR_nat_ge1 aq Ha); lra).
  unfold pl_step, liftq; cbv zeta. cbn [fst snd t_rank lift_tr]. cpush.
  rewrite (C_fdiv _ _ e sq) by lra.
  destruct (Nat.leb (t_rank tq) (t_rank ti)); [|reflexivity].
  destruct (Nat.eqb q i); cpush; rewrite !C_fdiv by exact Ha'; cpush; reflexivity.
Qed.

Lemma C_pl_omega_delta trs c qs i ti : 141 / 100 * beta <= c -> pos_tr ti -> bounded_tr ti ->
  (forall qt, In qt qs -> 0 < fst (snd (snd qt)) /\ (1 <= snd (snd (snd qt)))%nat) ->
  @pl_omega_delta _ CN PC (map lift_tr trs) (Some c) (map liftq qs) i (lift_tr ti)
  = (Some (fst (@pl_omega_delta _ RN PR trs c qs i ti)), Some (snd (@pl_omega_delta _ RN PR trs c qs i ti))).
Proof.
  intros Hc Hi Bi Hqs. assert (Hc0 : 0 < c) by lra.
  unfold pl_omega_delta; cbv zeta. cbn [t_mu t_ss lift_tr].
  rewrite (C_pl_exp c ti Hc Bi).
  change (@fzero _ CN) with (Some (@fzero _ RN)).
  rewrite (C_fold_pairs liftq (@pl_step _ CN i (lift_tr ti) (Some (@fexp _ RN (@fdiv _ RN (t_mu ti) c))))
             (@pl_step _ RN i ti (@fexp _ RN (@fdiv _ RN (t_mu ti) c))) qs).
  2:{ intros o d qt Hqt. destruct (Hqs qt Hqt). now apply C_pl_step. }
  cbn [fst snd]. rewrite (C_gamma_of c trs ti Hc0 Hi). cpush.
  rewrite !C_fdiv by (cbn [fpow2 RNum]; nra). cpush. reflexivity.
Qed.

Lemma C_compute_pl trs : (2 <= length trs)%nat -> Forall pos_tr trs -> Forall bounded_tr trs ->
  @compute_pl _ CN PC (map lift_tr trs) = lift_game (@compute_pl _ RN PR trs).
Proof.
  intros Hn Hp Hb. pose proof (pl_c_lower trs Hn Hp) as Hc.
  unfold compute_pl; cbv zeta. rewrite (C_pl_c trs Hn Hp).
  rewrite (C_pl_sum_q trs _ Hc Hb), C_pl_a, C_qs.
  set (c := @pl_c _ RN PR trs) in *.
  set (qs := combine (seq 0 (length trs)) (combine trs (combine (@pl_sum_q _ RN trs c) (pl_a trs)))).
  assert (Hqs : forall qt, In qt qs ->
            In (fst (snd qt)) trs /\ 0 < fst (snd (snd qt)) /\ (1 <= snd (snd (snd qt)))%nat).
  { intros [q [tq [sq aq]]] Hin. unfold qs in Hin. apply in_combine_r in Hin.
    pose proof (in_combine_l _ _ _ _ Hin) as H1. apply in_combine_r in Hin.
    pose proof (in_combine_l _ _ _ _ Hin) as H2. apply in_combine_r in Hin. cbn [fst snd].
    pose proof (pl_sum_q_pos trs c) as Hs. pose proof (pl_a_ge1 trs) as Ha.
    rewrite Forall_forall in Hs, Ha. auto. }
  rewrite Forall_forall in Hp, Hb.
  unfold lift_game. rewrite !map_map. apply map_ext_in. intros it Hit.
  destruct (Hqs it Hit) as [H1 _].
  change (fst (snd (liftq it))) with (lift_tr (fst (snd it))). change (fst (liftq it)) with (fst it).
  rewrite C_pl_omega_delta; auto.
  - rewrite C_update_team by auto. now rewrite <- surjective_pairing.
  - intros qt Hqt. destruct (Hqs qt Hqt) as [_ H2]. exact H2.
Qed.

Lemma C_compute k trs : (2 <= length trs)%nat -> Forall pos_tr trs ->
  (k = TMF \/ k = TMP \/ Forall bounded_tr trs) ->
  @compute _ CN k PC (map lift_tr trs) = lift_game (@compute _ RN k PR trs).
Proof.
  intros Hn Hp Hb. destruct k.
  - destruct Hb as [E|[E|Hb]]; try discriminate. cbn [compute]. now apply C_compute_pl.
  - destruct Hb as [E|[E|Hb]]; try discriminate. apply C_compute_BT; auto.
  - destruct Hb as [E|[E|Hb]]; try discriminate. apply C_compute_BT; auto.
  - apply C_compute_TM; auto.
  - apply C_compute_TM; auto.
Qed.

(** ** team ratings, sorting by rank, inflation, clamping *)
Definition pos_team (t : list (rating R)) : Prop :=
  0 < @reduce_add _ RN (map (fun p => @fpow2 _ RN (r_sigma p)) t).
Definition bounded_team (t : list (rating R)) : Prop :=
  Rabs (@reduce_add _ RN (map (@r_mu _) t)) <= 320 * beta.

Lemma C_team_rating t r : @team_rating _ CN (lift_team t) r = lift_tr (@team_rating _ RN t r).
Proof.
  unfold team_rating, lift_tr. cbn [t_mu t_ss t_team t_rank]. now rewrite C_sum_mu, C_sum_ss.
Qed.
Lemma C_team_ratings g ranks : @team_ratings _ CN (lift_game g) ranks = map lift_tr (@team_ratings _ RN g ranks).
Proof.
  unfold team_ratings, lift_game. rewrite combine_map_l, !map_map. apply map_ext. intros [t r].
  cbn [fst snd]. apply C_team_rating.
Qed.
Lemma team_ratings_Forall (Q : list (rating R) -> Prop) (Q' : trating R -> Prop) g ranks :
  (forall t r, Q t -> Q' (@team_rating _ RN t r)) -> Forall Q g -> Forall Q' (@team_ratings _ RN g ranks).
Proof.
  intros HQ Hgm. rewrite Forall_forall in Hgm. unfold team_ratings. rewrite Forall_map. apply Forall_forall.
  intros [t r] Hin. apply in_combine_l in Hin. cbn [fst snd]. apply HQ. now apply Hgm.
Qed.

Lemma C_compute_game k g ranks : length ranks = length g -> (2 <= length g)%nat -> Forall pos_team g ->
  (k = TMF \/ k = TMP \/ Forall bounded_team g) ->
  @compute _ CN k PC (@team_ratings _ CN (lift_game g) ranks)
  = lift_game (@compute _ RN k PR (@team_ratings _ RN g ranks)).
Proof.
  intros Hl Hn Hp Hb. rewrite C_team_ratings. apply C_compute.
  - rewrite team_ratings_length by exact Hl. exact Hn.
  - apply (team_ratings_Forall pos_team); [|exact Hp]. intros t r H. exact H.
  - destruct Hb as [E|[E|Hb]]; [now left|right; now left|right; right].
    apply (team_ratings_Forall bounded_team); [|exact Hb]. intros t r H. exact H.
Qed.

Lemma C_rate_sorted k g keys : (2 <= length g)%nat -> Forall pos_team g ->
  (k = TMF \/ k = TMP \/ Forall bounded_team g) ->
  match keys with Some ks => length ks = length g | None => True end ->
  @rate_sorted _ CN k PC (lift_game g) keys = lift_game (@rate_sorted _ RN k PR g keys).
Proof.
  intros Hn Hp Hb Hk. destruct keys as [ks|]; unfold rate_sorted; cbv zeta.
  - change (lift_game g) with (map lift_team g). rewrite unwind_map. cbn [fst snd].
    change (map lift_team (fst (unwind key_leb ks g))) with (lift_game (fst (unwind key_leb ks g))).
    assert (HL : length (fst (unwind key_leb ks g)) = length g) by (now apply unwind_fst_length).
    rewrite C_compute_game.
    + unfold lift_game. rewrite unwind_map. reflexivity.
    + rewrite calc_rankings_length, isort_length. congruence.
    + lia.
    + rewrite Forall_forall in *. intros t Ht. apply Hp. eapply unwind_fst_In; exact Ht.
    + destruct Hb as [E|[E|Hb]]; [now left|right; now left|right; right].
      rewrite Forall_forall in *. intros t Ht. apply Hb. eapply unwind_fst_In; exact Ht.
  - rewrite lift_game_length. apply C_compute_game; auto. apply seq_length.
Qed.

(** tau inflation: [sqrt (sigma * sigma + tau * tau)], the argument is a sum of squares *)
Lemma C_inflate tau r : @inflate _ CN (Some tau) (lift_rating r) = lift_rating (@inflate _ RN tau r).
Proof.
  unfold inflate, set_sigma, set_mu_sigma, lift_rating. cbn [r_mu r_sigma r_id r_name]. cpush.
  rewrite C_fsqrt; [reflexivity|]. cbn. nra.
Qed.
Lemma C_inflate_game tau g :
  map (map (@inflate _ CN (Some tau))) (lift_game g) = lift_game (map (map (@inflate _ RN tau)) g).
Proof.
  unfold lift_game, lift_team. rewrite !map_map. apply map_ext. intros t. rewrite !map_map.
  apply map_ext. intros r. apply C_inflate.
Qed.

Lemma C_clamp orig res : @clamp _ CN (lift_game orig) (lift_game res) = lift_game (@clamp _ RN orig res).
Proof.
  unfold clamp, lift_game. rewrite combine_map, !map_map. apply map_ext. intros [t t']. cbn [fst snd].
  unfold lift_team. rewrite combine_map, !map_map. apply map_ext. intros [p p']. cbn [fst snd].
  unfold clamp_player. cbn [r_sigma lift_rating]. cpush.
  destruct (@fleb _ RN (r_sigma p') (r_sigma p)); reflexivity.
Qed.

(** the domain, at the level of players *)
Lemma inflate_pos_team tau t : t <> [] -> Forall (fun p => 0 < r_sigma p * r_sigma p + tau * tau) t ->
  pos_team (map (@inflate _ RN tau) t).
Proof.
  intros Hne Hs. unfold pos_team. rewrite (R_reduce_add Phi Phiinv), map_map. apply Rsum_pos.
  - destruct t; [congruence|discriminate].
  - rewrite Forall_map. eapply Forall_impl; [|exact Hs]. intros p Hp. cbn.
    rewrite sqrt_sqrt by nra. exact Hp.
Qed.
Lemma Rsum_abs_bound {A} (f : A -> R) M l : Forall (fun a => Rabs (f a) <= M) l ->
  Rabs (Rsum (map f l)) <= INR (length l) * M.
Proof.
  induction 1 as [|a l Ha Hl IH]; cbn [map Rsum length].
  - rewrite Rabs_R0. cbn. lra.
  - rewrite S_INR. eapply Rle_trans; [apply Rabs_triang|]. lra.
Qed.
Lemma inflate_bounded_team tau t : (length t <= 16)%nat -> Forall (fun p => Rabs (r_mu p) <= 20 * beta) t ->
  bounded_team (map (@inflate _ RN tau) t).
Proof.
  intros Hl Hm. unfold bounded_team. rewrite (R_reduce_add Phi Phiinv), map_map. cbn [r_mu inflate set_sigma set_mu_sigma].
  eapply Rle_trans; [apply (Rsum_abs_bound (@r_mu R) (20 * beta)); exact Hm|].
  assert (H16 : INR (length t) <= 16) by (apply le_INR in Hl; simpl INR in Hl; lra).
  pose proof (pos_INR (length t)). nra.
Qed.

(** ** rate *)
Theorem C_rate_core k tau limit teams keys :
  (2 <= length teams)%nat -> Forall (fun t => t <> []) teams ->
  Forall (Forall (fun p => 0 < r_sigma p * r_sigma p + tau * tau)) teams ->
  (k = TMF \/ k = TMP \/
   Forall (fun t => (length t <= 16)%nat /\ Forall (fun p => Rabs (r_mu p) <= 20 * beta) t) teams) ->
  match keys with Some ks => length ks = length teams | None => True end ->
  @rate_core _ CN k PC (Some tau) limit (lift_game teams) keys
  = lift_game (@rate_core _ RN k PR tau limit teams keys).
Proof.
  intros Hn Hne Hs Hb Hk. unfold rate_core; cbv zeta. rewrite C_inflate_game.
  rewrite C_rate_sorted.
  - destruct limit; [apply C_clamp|reflexivity].
  - now rewrite map_length.
  - rewrite Forall_map. rewrite Forall_forall in *. intros t Ht. apply inflate_pos_team; auto.
  - destruct Hb as [E|[E|Hb]]; [now left|right; now left|right; right].
    rewrite Forall_map. eapply Forall_impl; [|exact Hb]. intros t [H1 H2]. now apply inflate_bounded_team.
  - rewrite map_length. exact Hk.
Qed.

(** the dead helper calls of the BTF / TMF Python code ([c = self._c(...)],
    [sum_q = self._sum_q(..., c)], [a = self._a(...)]: computed, never used; not part of
    [compute BTF] / [compute TMF] in the Coq model) are the Plackett-Luce helpers: they
    do not raise either on the bounded domain *)
Lemma C_dead_helpers tau teams ranks :
  (2 <= length teams)%nat -> length ranks = length teams -> Forall (fun t => t <> []) teams ->
  Forall (Forall (fun p => 0 < r_sigma p * r_sigma p + tau * tau)) teams ->
  Forall (fun t => (length t <= 16)%nat /\ Forall (fun p => Rabs (r_mu p) <= 20 * beta) t) teams ->
  let g := map (map (@inflate _ RN tau)) teams in
  let trs := @team_ratings _ RN g ranks in
  let trsC := @team_ratings _ CN (lift_game g) ranks in
  @pl_c _ CN PC trsC = Some (@pl_c _ RN PR trs)
  /\ @pl_sum_q _ CN trsC (Some (@pl_c _ RN PR trs)) = map Some (@pl_sum_q _ RN trs (@pl_c _ RN PR trs))
  /\ pl_a trsC = pl_a trs.
Proof.
  intros Hn Hl Hne Hs Hb g trs trsC. unfold trsC. rewrite C_team_ratings. fold trs.
  assert (Hlen : (2 <= length trs)%nat).
  { unfold trs. rewrite team_ratings_length; unfold g; rewrite map_length; [exact Hn|exact Hl]. }
  assert (Hp : Forall pos_tr trs).
  { apply (team_ratings_Forall pos_team); [intros t r H; exact H|]. unfold g. rewrite Forall_map.
    rewrite Forall_forall in *. intros t Ht. apply inflate_pos_team; auto. }
  assert (Hbd : Forall bounded_tr trs).
  { apply (team_ratings_Forall bounded_team); [intros t r H; exact H|]. unfold g. rewrite Forall_map.
    eapply Forall_impl; [|exact Hb]. intros t [H1 H2]. now apply inflate_bounded_team. }
  split; [now apply C_pl_c|]. split; [|apply C_pl_a].
  apply C_pl_sum_q; [now apply pl_c_lower|exact Hbd].
Qed.

End Rate.

(** the default gamma [sqrt ss / c] simulates itself; so does any constant *)
Lemma gamma_default_sim : gamma_sim (@gamma_default _ CN) (@gamma_default _ RN).
Proof.
  intros c k mu ss team rank Hc Hss. unfold gamma_default. rewrite C_fsqrt by exact Hss. apply C_fdiv. lra.
Qed.
Lemma gamma_const_sim x : gamma_sim (fun _ _ _ _ _ _ => Some x) (fun _ _ _ _ _ _ => x).
Proof. intros c k mu ss team rank _ _. reflexivity. Qed.

(** a lifted result carries no exception mark *)
Lemma some_finite (l : list R) : Forall (fun o => @ffinite _ CN o = true) (map Some l).
Proof. rewrite Forall_map. apply Forall_forall. intros x _. reflexivity. Qed.
Lemma lift_game_finite g :
  Forall (Forall (fun r => @ffinite _ CN (r_mu r) = true /\ @ffinite _ CN (r_sigma r) = true)) (lift_game g).
Proof.
  unfold lift_game, lift_team. rewrite Forall_map. apply Forall_forall. intros t _.
  rewrite Forall_map. apply Forall_forall. intros r _. split; reflexivity.
Qed.

(** the exception tracking is not vacuous: outside the domain the checked model does raise.
    beta = 0 and sigma = 0: [predict_win] divides by [sqrt 0] (ZeroDivisionError in Python) *)
Lemma C_predict_win_raises m1 m2 :
  @predict_win _ CN (Some 0) (lift_game [[mkRating m1 0 0%Z NmNone]; [mkRating m2 0 1%Z NmNone]]) = [None; None].
Proof.
  unfold predict_win, lift_game. cbn [map]. cbv zeta. rewrite !lift_team_length.
  rewrite !C_agg at 1. cbn [fst]. cpush.
  rewrite C_pair_scale by apply agg_snd_nonneg.
  match goal with |- context [Some (@pair_scale _ RN ?b ?n ?x ?y)] =>
    assert (E : @pair_scale _ RN b n x y = 0) end.
  { unfold pair_scale, agg. cbn. transitivity (sqrt 0); [f_equal; ring|apply sqrt_0]. }
  rewrite E. rewrite C_fdiv_raises. reflexivity.
Qed.

(** sigma = tau = 0: [rate] divides by the team's [sigma^2 = 0] *)
Lemma C_update_player_raises beta kappa gC o d m :
  let ti := @team_rating _ CN (lift_team [mkRating m 0 0%Z NmNone]) 0 in
  r_mu (@update_player _ CN (mkParams (Some beta) (Some kappa) gC) ti (Some o) (Some d)
          (lift_rating (mkRating m 0 0%Z NmNone))) = None.
Proof.
  cbv zeta. rewrite C_team_rating. unfold update_player, set_mu_sigma; cbv zeta.
  cbn [r_mu r_sigma lift_rating lift_tr t_ss team_rating map reduce_add fold_left]. cpush.
  replace (@fpow2 _ RN 0) with 0 by (cbn; ring). rewrite C_fdiv_raises. reflexivity.
Qed.

Lemma lifted_finite :
  (forall l : list R, Forall (fun o => @ffinite _ CN o = true) (map Some l))
  /\ (forall g : list (list (rating R)),
        Forall (Forall (fun r => (exists m, r_mu r = Some m) /\ (exists s, r_sigma r = Some s)
                              /\ @ffinite _ CN (r_mu r) = true /\ @ffinite _ CN (r_sigma r) = true)) (lift_game g)).
Proof.
  split; [apply some_finite|]. intros g.
  unfold lift_game, lift_team. rewrite Forall_map. apply Forall_forall. intros t _.
  rewrite Forall_map. apply Forall_forall. intros r _. cbn. repeat split; eexists; reflexivity.
Qed.

Lemma guards_sharp (a : R) :
  @fdiv _ CN (Some a) (Some 0) = None
  /\ (a < 0 -> @fsqrt _ CN (Some a) = None)
  /\ (EXPMAX < a -> @fexp _ CN (Some a) = None)
  /\ (a <= 0 \/ 1 <= a -> @ficdf _ CN (Some a) = None)
  /\ @fadd _ CN None (Some a) = None
  /\ @fltb _ CN None (Some a) = false
  /\ @ffinite _ CN None = false.
Proof.
  repeat split; try reflexivity.
  - apply C_fdiv_raises.
  - apply C_fsqrt_raises.
  - apply C_fexp_raises.
  - apply C_ficdf_raises.
Qed.

End C08.

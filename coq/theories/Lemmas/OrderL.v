(** * OrderL: lemmas about the discrete part of the model (stable sort, unwind,
    dense rankings), polymorphic in everything.  No axioms. *)
From Coq Require Import List Arith Bool Lia Permutation Sorted ZArith.
From OSV Require Import Order.
Import ListNotations.

(** ** insertion sort: permutation, dependence on comparison results only, maps *)
Section Sort.
Context {A : Type} (leb : A -> A -> bool).

Lemma insert_perm x l : Permutation (x :: l) (insert leb x l).
Proof. induction l as [|y ys IH]; cbn; [reflexivity|].
  destruct (leb x y); [reflexivity|]. rewrite perm_swap. now constructor. Qed.
Lemma isort_cons x l : isort leb (x :: l) = insert leb x (isort leb l).
Proof. reflexivity. Qed.
Lemma isort_perm l : Permutation l (isort leb l).
Proof. induction l as [|x xs IH]; [constructor|].
  rewrite isort_cons, <- insert_perm. now constructor. Qed.
Lemma isort_length l : length (isort leb l) = length l.
Proof. symmetry. apply Permutation_length, isort_perm. Qed.
Lemma isort_in x l : In x (isort leb l) <-> In x l.
Proof. split; apply Permutation_in; [symmetry|]; apply isort_perm. Qed.

(** sortedness under totality + transitivity *)
Hypothesis leb_total : forall a b, leb a b = true \/ leb b a = true.
Hypothesis leb_trans : forall a b c, leb a b = true -> leb b c = true -> leb a c = true.
Lemma insert_sorted x l : StronglySorted (fun a b => leb a b = true) l ->
  StronglySorted (fun a b => leb a b = true) (insert leb x l).
Proof.
  induction 1 as [|y ys S IH F]; cbn; [repeat constructor|].
  destruct (leb x y) eqn:E.
  - constructor; [now constructor|]. constructor; [exact E|].
    rewrite Forall_forall in *. intros z Hz. eapply leb_trans; [exact E | now apply F].
  - constructor; [exact IH|]. rewrite Forall_forall in *. intros z Hz.
    apply (Permutation_in _ (Permutation_sym (insert_perm x ys))) in Hz. destruct Hz as [<-|Hz].
    + destruct (leb_total x y) as [H|H]; congruence.
    + now apply F.
Qed.
Lemma isort_sorted l : StronglySorted (fun a b => leb a b = true) (isort leb l).
Proof. induction l as [|x xs IH]; [constructor|]. rewrite isort_cons. now apply insert_sorted. Qed.
End Sort.

(** the sort only looks at comparison results: a relational extensionality *)
Section SortRel.
Context {A B : Type} (leb : A -> A -> bool) (leb' : B -> B -> bool) (Q : A -> B -> Prop).
Lemma insert_rel x x' l l' :
  Q x x' -> Forall2 Q l l' ->
  (forall y y', Q y y' -> In y l -> leb x y = leb' x' y') ->
  Forall2 Q (insert leb x l) (insert leb' x' l').
Proof.
  intros Hx H. induction H as [|y y' ys ys' Hy Hys IH]; intros Hc; cbn; [repeat constructor; assumption|].
  rewrite <- (Hc y y' Hy (or_introl eq_refl)). destruct (leb x y).
  - constructor; [assumption|]. now constructor.
  - constructor; [assumption|]. apply IH. intros z z' Hz Hin. apply Hc; [assumption| now right].
Qed.
Lemma isort_rel l l' :
  Forall2 Q l l' ->
  (forall x x' y y', Q x x' -> Q y y' -> In x l -> In y l -> leb x y = leb' x' y') ->
  Forall2 Q (isort leb l) (isort leb' l').
Proof.
  intros H. induction H as [|x x' xs xs' Hx Hxs IH]; intros Hc; [constructor|].
  rewrite !isort_cons. apply insert_rel; [assumption| |].
  - apply IH. intros a a' b b' Ha Hb Ia Ib. apply Hc; auto; now right.
  - intros y y' Hy Hin. apply Hc; auto; [now left|]. right. now apply isort_in in Hin.
Qed.
End SortRel.

Lemma Forall2_eq {A} (l l' : list A) : Forall2 eq l l' -> l = l'.
Proof. induction 1; congruence. Qed.
Lemma Forall2_map_l {A B C} (f : A -> C) (Q : C -> B -> Prop) l l' :
  Forall2 (fun a b => Q (f a) b) l l' <-> Forall2 Q (map f l) l'.
Proof. split.
  - induction 1; cbn; constructor; auto.
  - revert l'. induction l as [|a l IH]; intros l' H; inversion H; subst; constructor; auto. Qed.
Lemma Forall2_map_r {A B C} (f : B -> C) (Q : A -> C -> Prop) l l' :
  Forall2 (fun a b => Q a (f b)) l l' <-> Forall2 Q l (map f l').
Proof. split.
  - induction 1; cbn; constructor; auto.
  - revert l. induction l' as [|b l' IH]; intros l H; inversion H; subst; constructor; auto. Qed.
Lemma Forall2_refl {A} (Q : A -> A -> Prop) l : (forall a, In a l -> Q a a) -> Forall2 Q l l.
Proof. induction l as [|a l IH]; intros H; constructor; [apply H; now left| apply IH; intros; apply H; now right]. Qed.
Lemma Forall2_length' {A B} (Q : A -> B -> Prop) l l' : Forall2 Q l l' -> length l = length l'.
Proof. induction 1; cbn; congruence. Qed.
Lemma Forall2_combine {A B} (Q : A -> B -> Prop) l l' :
  length l = length l' -> Forall (fun p => Q (fst p) (snd p)) (combine l l') -> Forall2 Q l l'.
Proof.
  revert l'. induction l as [|a l IH]; intros [|b l'] E H; cbn in *; try discriminate; [constructor|].
  inversion H; subst. constructor; [assumption|]. apply IH; [congruence|assumption].
Qed.
Lemma Forall2_combine_inv {A B} (Q : A -> B -> Prop) l l' :
  Forall2 Q l l' -> Forall (fun p => Q (fst p) (snd p)) (combine l l').
Proof. induction 1; cbn; constructor; auto. Qed.

Lemma isort_ext {A} (leb leb' : A -> A -> bool) l :
  (forall x y, In x l -> In y l -> leb x y = leb' x y) -> isort leb l = isort leb' l.
Proof.
  intros H. apply Forall2_eq. apply isort_rel.
  - apply Forall2_refl. reflexivity.
  - intros x x' y y' -> -> Hx Hy. now apply H.
Qed.
Lemma isort_map {A B} (leb : A -> A -> bool) (leb' : B -> B -> bool) (f : A -> B) l :
  (forall x y, In x l -> In y l -> leb x y = leb' (f x) (f y)) ->
  isort leb' (map f l) = map f (isort leb l).
Proof.
  intros H. symmetry. apply Forall2_eq.
  apply (proj1 (Forall2_map_l f eq (isort leb l) (isort leb' (map f l)))).
  apply (isort_rel leb leb' (fun a b => f a = b)).
  - clear H. induction l as [|a l IH]; cbn; constructor; auto.
  - intros x x' y y' <- <- Hx Hy. now apply H.
Qed.

(** ** lists of index-tagged values: sorting by distinct indices *)
Lemma combine_map_fst {A B} (l : list A) (l' : list B) : length l = length l' -> map fst (combine l l') = l.
Proof. revert l'; induction l as [|a l IH]; intros [|b l'] E; cbn in *; try discriminate; [reflexivity|]. f_equal. apply IH. congruence. Qed.
Lemma combine_map_snd {A B} (l : list A) (l' : list B) : length l = length l' -> map snd (combine l l') = l'.
Proof. revert l'; induction l as [|a l IH]; intros [|b l'] E; cbn in *; try discriminate; [reflexivity|]. f_equal. apply IH. congruence. Qed.
Lemma combine_map {A B C D} (f : A -> C) (g : B -> D) l l' :
  combine (map f l) (map g l') = map (fun p => (f (fst p), g (snd p))) (combine l l').
Proof. revert l'; induction l as [|a l IH]; intros [|b l']; cbn; try reflexivity. f_equal. apply IH. Qed.
Lemma combine_map_same {A B C} (f : A -> B) (g : A -> C) l :
  combine (map f l) (map g l) = map (fun e => (f e, g e)) l.
Proof. induction l as [|a l IH]; cbn; [reflexivity|]. now rewrite IH. Qed.
Lemma combine_fst_snd {A B} (l : list (A * B)) : combine (map fst l) (map snd l) = l.
Proof. induction l as [|[a b] l IH]; cbn; [reflexivity|]. now rewrite IH. Qed.

Section Idx.
Context {B : Type}.
Definition idx_leb (a b : nat * B) : bool := Nat.leb (fst a) (fst b).
Definition idx_lt (a b : nat * B) : Prop := fst a < fst b.

Lemma sorted_idx_unique (l l' : list (nat * B)) :
  Permutation l l' -> StronglySorted idx_lt l -> StronglySorted idx_lt l' -> l = l'.
Proof.
  unfold idx_lt. revert l'. induction l as [|x xs IH]; intros l' P S S'.
  - apply Permutation_nil in P. now subst.
  - destruct l' as [|y ys]. { symmetry in P. now apply Permutation_nil_cons in P. }
    inversion S as [|? ? Sx Fx]; inversion S' as [|? ? Sy Fy]; subst.
    assert (x = y).
    { assert (Ix : In x (y :: ys)) by (eapply Permutation_in; [exact P | now left]).
      assert (Iy : In y (x :: xs)) by (eapply Permutation_in; [symmetry; exact P | now left]).
      destruct Ix as [->|Ix]; [reflexivity|]. destruct Iy as [->|Iy]; [reflexivity|].
      rewrite Forall_forall in Fx, Fy. specialize (Fx _ Iy). specialize (Fy _ Ix). lia. }
    subst y. f_equal. apply IH; auto. now apply Permutation_cons_inv in P.
Qed.

Lemma isort_idx_sorted (l : list (nat * B)) :
  NoDup (map fst l) -> StronglySorted idx_lt (isort idx_leb l).
Proof.
  unfold idx_lt. induction l as [|x xs IH]; intros ND; [constructor|].
  rewrite isort_cons. cbn in ND. inversion ND as [|? ? Hx ND']; subst. specialize (IH ND').
  assert (Hne : forall y, In y (isort idx_leb xs) -> fst y <> fst x).
  { intros y Hy E. apply Hx. rewrite <- E. apply in_map. now apply isort_in in Hy. }
  revert IH Hne. generalize (isort idx_leb xs) as s. induction s as [|y ys IHs]; intros S Hne; cbn.
  - repeat constructor.
  - inversion S as [|? ? Sy Fy]; subst. unfold idx_leb at 1.
    destruct (Nat.leb_spec (fst x) (fst y)) as [Hle|Hgt].
    + constructor; [exact S|]. assert (fst x < fst y) by (specialize (Hne y (or_introl eq_refl)); lia).
      constructor; [assumption|]. rewrite Forall_forall in *. intros z Hz. specialize (Fy z Hz). lia.
    + constructor.
      * apply IHs; [assumption|]. intros z Hz. apply Hne. now right.
      * rewrite Forall_forall in *. intros z Hz.
        apply (Permutation_in _ (Permutation_sym (insert_perm idx_leb x ys))) in Hz.
        destruct Hz as [<-|Pz]; [lia| now apply Fy].
Qed.

Lemma seq_combine_sorted (xs : list B) s : StronglySorted idx_lt (combine (seq s (length xs)) xs).
Proof.
  unfold idx_lt. revert s. induction xs as [|x xs IH]; intros s; cbn; [constructor|].
  constructor; [apply IH|]. rewrite Forall_forall. intros [i b] Hi. cbn.
  apply in_combine_l in Hi. apply in_seq in Hi. lia.
Qed.

(** whatever permutation of an index-tagged list we are handed, sorting it by index restores it *)
Lemma isort_idx_restore (xs : list B) (p : list (nat * B)) :
  Permutation (combine (seq 0 (length xs)) xs) p -> isort idx_leb p = combine (seq 0 (length xs)) xs.
Proof.
  intros P. apply sorted_idx_unique.
  - transitivity p; [symmetry; apply isort_perm | symmetry; exact P].
  - apply isort_idx_sorted. rewrite <- P. rewrite combine_map_fst by (now rewrite seq_length). apply seq_NoDup.
  - apply seq_combine_sorted.
Qed.
End Idx.

(** ** sorting an index-tagged list whose indices are a permutation of 0..n-1 *)
Lemma sorted_nat_unique (l l' : list nat) :
  Permutation l l' -> StronglySorted lt l -> StronglySorted lt l' -> l = l'.
Proof.
  revert l'. induction l as [|x xs IH]; intros l' P S S'.
  - apply Permutation_nil in P. now subst.
  - destruct l' as [|y ys]. { symmetry in P. now apply Permutation_nil_cons in P. }
    inversion S as [|? ? Sx Fx]; inversion S' as [|? ? Sy Fy]; subst.
    assert (x = y).
    { assert (Ix : In x (y :: ys)) by (eapply Permutation_in; [exact P | now left]).
      assert (Iy : In y (x :: xs)) by (eapply Permutation_in; [symmetry; exact P | now left]).
      destruct Ix as [->|Ix]; [reflexivity|]. destruct Iy as [->|Iy]; [reflexivity|].
      rewrite Forall_forall in Fx, Fy. specialize (Fx _ Iy). specialize (Fy _ Ix). lia. }
    subst y. f_equal. apply IH; auto. now apply Permutation_cons_inv in P.
Qed.
Lemma seq_sorted s n : StronglySorted lt (seq s n).
Proof. revert s; induction n as [|n IH]; intros s; cbn; constructor; [apply IH|].
  rewrite Forall_forall. intros z Hz. apply in_seq in Hz. lia. Qed.
Lemma StronglySorted_map {A B} (f : A -> B) (R : B -> B -> Prop) l :
  StronglySorted (fun a b => R (f a) (f b)) l -> StronglySorted R (map f l).
Proof. induction 1; cbn; constructor; auto. rewrite Forall_forall in *. intros z Hz.
  apply in_map_iff in Hz. destruct Hz as [w [<- Hw]]. auto. Qed.

Lemma isort_idx_fst {C} (M : list (nat * C)) n :
  Permutation (map fst M) (seq 0 n) -> map fst (isort idx_leb M) = seq 0 n.
Proof.
  intros P. apply sorted_nat_unique.
  - rewrite <- P. apply Permutation_map. symmetry. apply isort_perm.
  - apply StronglySorted_map. apply (isort_idx_sorted M).
    eapply Permutation_NoDup; [symmetry; exact P | apply seq_NoDup].
  - apply seq_sorted.
Qed.

Lemma map_nth_error_seq {C D} (src : list D) (p : C -> D) (G : list (nat * C)) s :
  map fst G = seq s (length src) ->
  Forall (fun e => nth_error src (fst e - s) = Some (p (snd e))) G ->
  map (fun e => p (snd e)) G = src.
Proof.
  revert s G. induction src as [|d src IH]; intros s G E F.
  - destruct G; [reflexivity|discriminate].
  - destruct G as [|[i c] G]; [discriminate|]. cbn in E. injection E as Ei E.
    inversion F as [|? ? F1 F2]; subst. cbn in F1. rewrite Nat.sub_diag in F1. cbn in F1.
    cbn. f_equal; [congruence|]. apply (IH (S s)); [exact E|].
    rewrite Forall_forall in *. intros e He. specialize (F2 e He).
    assert (Hin : In (fst e) (seq (S s) (length src))) by (rewrite <- E; now apply in_map).
    apply in_seq in Hin. replace (fst e - s) with (S (fst e - S s)) in F2 by lia. exact F2.
Qed.

(** ** [unwind]: the sorted view and the way back *)
Section UnwindL.
Context {K A : Type} (kleb : K -> K -> bool).

Definition sorted_triples (ks : list K) (xs : list A) : list (K * (A * nat)) :=
  isort (tag_leb kleb) (combine ks (combine xs (seq 0 (length xs)))).

Lemma unwind_fst ks xs : fst (unwind kleb ks xs) = map (fun e => fst (snd e)) (sorted_triples ks xs).
Proof. reflexivity. Qed.
Lemma unwind_snd ks xs : snd (unwind kleb ks xs) = map (fun e => snd (snd e)) (sorted_triples ks xs).
Proof. reflexivity. Qed.

Lemma sorted_triples_perm ks xs :
  Permutation (combine ks (combine xs (seq 0 (length xs)))) (sorted_triples ks xs).
Proof. apply isort_perm. Qed.

Lemma sorted_triples_keys ks xs : length ks = length xs ->
  map fst (sorted_triples ks xs) = isort kleb ks.
Proof.
  intros E. unfold sorted_triples. rewrite <- (isort_map (tag_leb kleb) kleb fst) by reflexivity.
  rewrite combine_map_fst; [reflexivity|]. rewrite combine_length, seq_length. lia.
Qed.

Lemma sorted_triples_length ks xs : length ks = length xs -> length (sorted_triples ks xs) = length xs.
Proof. intros E. unfold sorted_triples. rewrite isort_length, !combine_length, seq_length. lia. Qed.
Lemma unwind_fst_length (ks : list K) (xs : list A) : length ks = length xs -> length (fst (unwind kleb ks xs)) = length xs.
Proof. intros E. rewrite unwind_fst, map_length. now apply sorted_triples_length. Qed.
Lemma unwind_snd_length (ks : list K) (xs : list A) : length ks = length xs -> length (snd (unwind kleb ks xs)) = length xs.
Proof. intros E. rewrite unwind_snd, map_length. now apply sorted_triples_length. Qed.

(** the sorted keys and sorted objects are, jointly, a permutation of the input *)
Lemma unwind_perm (ks : list K) (xs : list A) : length ks = length xs ->
  Permutation (combine ks xs) (combine (isort kleb ks) (fst (unwind kleb ks xs))).
Proof.
  intros E. rewrite <- (sorted_triples_keys ks xs E). rewrite unwind_fst.
  rewrite combine_map_same.
  rewrite <- (Permutation_map (fun e : K * (A * nat) => (fst e, fst (snd e))) (sorted_triples_perm ks xs)).
  clear. revert ks. generalize 0. induction xs as [|x xs IH]; intros s [|k ks]; cbn; try reflexivity.
  constructor. apply IH.
Qed.

Lemma sorted_triples_index ks xs : length ks = length xs ->
  Forall (fun e => nth_error (combine ks xs) (snd (snd e)) = Some (fst e, fst (snd e))) (sorted_triples ks xs).
Proof.
  intros E. eapply Permutation_Forall; [apply sorted_triples_perm|].
  clear E. rewrite Forall_forall. intros [k [x i]] Hin. cbn.
  revert ks Hin. enough (G : forall s ks, In (k, (x, i)) (combine ks (combine xs (seq s (length xs)))) ->
     nth_error (combine ks xs) (i - s) = Some (k, x) /\ s <= i).
  { intros ks Hin. destruct (G 0 ks Hin) as [G1 _]. now rewrite Nat.sub_0_r in G1. }
  induction xs as [|y ys IH]; intros s [|k' ks] Hin; cbn in Hin; try contradiction.
  destruct Hin as [Heq|Hin].
  - injection Heq as -> -> ->. rewrite Nat.sub_diag. cbn. split; [reflexivity|lia].
  - destruct (IH (S s) ks Hin) as [G1 G2]. split; [|lia].
    replace (i - s) with (S (i - S s)) by lia. exact G1.
Qed.

Lemma unwind_snd_perm (ks : list K) (xs : list A) : length ks = length xs ->
  Permutation (snd (unwind kleb ks xs)) (seq 0 (length xs)).
Proof.
  intros E. rewrite unwind_snd. rewrite <- (Permutation_map (fun e : K * (A * nat) => snd (snd e)) (sorted_triples_perm ks xs)).
  replace (map (fun e : K * (A * nat) => snd (snd e)) (combine ks (combine xs (seq 0 (length xs))))) with (seq 0 (length xs)); [reflexivity|].
  revert ks E. generalize 0. induction xs as [|x xs IH]; intros s [|k ks] E; cbn in *; try discriminate; [reflexivity|].
  f_equal. apply IH. congruence.
Qed.

(** the way back: sorting the results by the remembered indices puts, jointly with keys and
    objects, every result next to the object it was computed from *)
Lemma Forall2_combine_l {X P Q'} (R : P -> Q' -> Prop) (l : list X) p q :
  length l = length p -> Forall2 R p q ->
  Forall2 (fun a b => fst a = fst b /\ R (snd a) (snd b)) (combine l p) (combine l q).
Proof.
  intros E H. revert l E. induction H as [|a b p q Hab H IH]; intros [|x l] E; cbn in *; try discriminate; constructor.
  - cbn. auto.
  - apply IH. congruence.
Qed.
Lemma Forall2_fst_snd_combine {X Y Z} (ys : list Y) (js : list X) (zs : list Z) :
  length js = length ys -> length zs = length ys ->
  Forall2 (fun a b => fst a = snd b) (combine ys js) (combine zs ys).
Proof.
  revert js zs. induction ys as [|y ys IH]; intros [|j js] [|z zs] E1 E2; cbn in *; try discriminate; constructor.
  - reflexivity.
  - apply IH; congruence.
Qed.
Lemma Forall2_weaken {X Y} (R1 R2 : X -> Y -> Prop) l l' :
  (forall a b, R1 a b -> R2 a b) -> Forall2 R1 l l' -> Forall2 R2 l l'.
Proof. intros H. induction 1; constructor; auto. Qed.
Lemma Forall2_map_eq {X Y Z} (f : X -> Z) (g : Y -> Z) l l' :
  Forall2 (fun a b => f a = g b) l l' -> map f l = map g l'.
Proof. induction 1; cbn; congruence. Qed.

Theorem unwind_unsort {B} (ks : list K) (xs : list A) (ys : list B) :
  length ks = length xs -> length ys = length xs ->
  let st := unwind kleb ks xs in
  let zs := fst (unwind Nat.leb (snd st) ys) in
  length zs = length xs /\
  Permutation (combine (combine ks xs) zs) (combine (combine (isort kleb ks) (fst st)) ys).
Proof.
  intros E Ey st zs. set (n := length xs) in *.
  assert (Lsnd : length (snd st) = n) by (now apply unwind_snd_length).
  assert (Lfst : length (fst st) = n) by (now apply unwind_fst_length).
  assert (Lk : length (isort kleb ks) = n) by (rewrite isort_length; exact E).
  set (pay := combine (combine (isort kleb ks) (fst st)) ys).
  assert (Lpay : length pay = n) by (unfold pay; rewrite !combine_length; lia).
  (* master list: index, ((key, object), result) *)
  set (M := combine (snd st) pay).
  set (G := isort idx_leb M).
  assert (GM : Permutation M G) by apply isort_perm.
  assert (Gfst : map fst G = seq 0 n).
  { apply isort_idx_fst. unfold M. rewrite combine_map_fst by lia. now apply unwind_snd_perm. }
  (* zs is the result component of G *)
  assert (Hzs : zs = map (fun e => snd (snd e)) G).
  { unfold zs, unwind. cbn [fst].
    apply (Forall2_map_eq (fun e : nat * (B * nat) => fst (snd e)) (fun e : nat * (K * A * B) => snd (snd e))).
    apply (Forall2_weaken (fun (b : nat * (B * nat)) (a : nat * (K * A * B)) => fst b = fst a /\ fst (snd b) = snd (snd a)));
      [intros a b Hab; exact (proj2 Hab)|].
    apply (isort_rel (tag_leb Nat.leb) idx_leb (fun (b : nat * (B * nat)) (a : nat * (K * A * B)) => fst b = fst a /\ fst (snd b) = snd (snd a))).
    - unfold M. apply (Forall2_combine_l (fun (p : B * nat) (q : K * A * B) => fst p = snd q)).
      + rewrite combine_length, seq_length. lia.
      + unfold pay. apply Forall2_fst_snd_combine; [now rewrite seq_length | rewrite combine_length; lia].
    - intros x x' y y' [Hx _] [Hy _] _ _. unfold tag_leb, idx_leb. now rewrite Hx, Hy. }
  (* the (key, object) component of G is the input, in input order *)
  assert (Hkx : map (fun e => fst (snd e)) G = combine ks xs).
  { apply (map_nth_error_seq (combine ks xs) (fun c : K * A * B => fst c) G 0).
    - rewrite combine_length. replace (Nat.min (length ks) (length xs)) with n by lia. exact Gfst.
    - eapply Permutation_Forall; [exact GM|]. unfold M, pay.
      pose proof (sorted_triples_index ks xs E) as F.
      rewrite <- (sorted_triples_keys ks xs E). unfold st. rewrite unwind_fst, unwind_snd.
      fold (sorted_triples ks xs) in *. clear -F. revert ys.
      induction F as [|e s He F IH]; intros ys; cbn; [constructor|].
      destruct ys as [|y ys]; [cbn; constructor|]. cbn. constructor.
      + cbn. rewrite Nat.sub_0_r. destruct e as [k [x i]]; cbn in *. assumption.
      + apply IH. }
  split.
  - rewrite Hzs, map_length. rewrite <- (map_length fst), Gfst, seq_length. reflexivity.
  - rewrite Hzs, <- Hkx, combine_map_same.
    replace (map (fun e : nat * (K * A * B) => (fst (snd e), snd (snd e))) G) with (map snd G).
    2:{ apply map_ext. intros [i [[k x] y]]. reflexivity. }
    rewrite <- GM. unfold M. rewrite combine_map_snd by lia. reflexivity.
Qed.
End UnwindL.

(** * FloatSignL: sign facts about the doubles the model computes (IEEE 754 binary64, Flocq,
    round to nearest even), for properties C05 and C06.

    - Bradley-Terry ([bt_term], used by BTF and BTP): for a team whose rank is strictly better
      than the rank of every opponent of the fold the accumulated omega is >= 0; strictly worse
      than every opponent: omega <= 0.
    - [update_player]: mu' = mu + share * omega moves in the direction of the sign of omega
      (share >= 0), as doubles, with no rounding slack.
    - Plackett-Luce ([pl_step] / [pl_omega_delta]): the accumulated delta is >= 0.

    Everything is stated on [B2R] with finiteness ("no overflow") hypotheses; the only premise
    on the libm functions is [0 <= exp x] for finite [x].  Proofs: monotonicity of rounding and
    the fact that 0, 1 and every double are fixed points of rounding (see FloatOrderL). *)
From Coq Require Import List ZArith Bool Arith Reals Lra Lia.
From Flocq Require Import Core.Raux Core.Defs Core.Zaux Core.Generic_fmt Core.FLT
  IEEE754.BinarySingleNaN IEEE754.Binary IEEE754.Bits.
From OSV Require Import Num Order Gauss Core FloatInst.
From OSV.Lemmas Require Import FloatOrderL.
Import ListNotations.
Open Scope R_scope.

(** ** More order facts on binary64 operations *)

Lemma rnd_le_0 (x : R) : x <= 0 -> rnd x <= 0.
Proof. intros H. rewrite <- rnd_0. apply rnd_le. exact H. Qed.

Lemma b64_mult_nonneg_nonpos (x y : binary64) :
  fin (b64_mult mode_NE x y) = true -> 0 <= RV x -> RV y <= 0 ->
  RV (b64_mult mode_NE x y) <= 0.
Proof.
  intros Hf Hx Hy. destruct (b64_mult_val x y Hf) as (HR & _). rewrite HR.
  apply rnd_le_0. nra.
Qed.

Lemma b64_plus_nonpos (x y : binary64) :
  fin x = true -> fin y = true -> fin (b64_plus mode_NE x y) = true -> RV x <= 0 -> RV y <= 0 ->
  RV (b64_plus mode_NE x y) <= 0.
Proof.
  intros Fx Fy Hf Hx Hy. rewrite (b64_plus_val x y Fx Fy Hf). apply rnd_le_0. lra.
Qed.

Lemma b64_plus_le_l (x y : binary64) :
  fin x = true -> fin y = true -> fin (b64_plus mode_NE x y) = true -> RV y <= 0 ->
  RV (b64_plus mode_NE x y) <= RV x.
Proof.
  intros Fx Fy Hf Hy. rewrite (b64_plus_val x y Fx Fy Hf). apply rnd_le_B2R. lra.
Qed.

Lemma b64_zero_minus_nonpos (a : binary64) :
  fin a = true -> fin (b64_minus mode_NE (b64_of_Z 0) a) = true -> 0 <= RV a ->
  RV (b64_minus mode_NE (b64_of_Z 0) a) <= 0.
Proof.
  intros Fa Hf Ha. rewrite (b64_minus_val _ a b64_zero_fin Fa Hf), b64_zero_val.
  apply rnd_le_0. lra.
Qed.

(** a finite quotient by a finite divisor: the divisor is not a zero (x/0 is an infinity or a NaN) *)
Lemma b64_div_fin_nonzero (x y : binary64) :
  fin (b64_div mode_NE x y) = true -> fin y = true -> RV y <> 0.
Proof.
  unfold b64_div, Bdiv. rewrite is_finite_BSN2B.
  destruct y as [sy|sy|sy ply Hy|sy my ey Hy]; intros Hf Fy; try discriminate Fy.
  - exfalso. destruct x as [sx|sx|sx plx Hx|sx mx ex Hx]; cbn in Hf; discriminate Hf.
  - cbn [B2R]. apply Float_prop.F2R_neq_0. cbn. destruct sy; discriminate.
Qed.

(** p = e / s is in [0,1] when 0 <= e <= s *)
Lemma b64_ratio_01 (e s : binary64) :
  fin s = true -> 0 <= RV e -> RV e <= RV s ->
  fin (b64_div mode_NE e s) = true ->
  0 <= RV (b64_div mode_NE e s) <= 1.
Proof.
  intros Fs He Hes Fp.
  pose proof (b64_div_fin_nonzero e s Fp Fs) as Hnz.
  assert (Hs : 0 < RV s) by lra.
  destruct (b64_div_val e s Hnz Fp) as (HR & _). rewrite HR.
  assert (Hinv : 0 < / RV s) by (apply Rinv_0_lt_compat; exact Hs).
  split.
  - apply rnd_ge_0. unfold Rdiv. apply Rmult_le_pos; lra.
  - apply rnd_le_1. apply Rmult_le_reg_r with (RV s); [exact Hs|].
    unfold Rdiv. rewrite Rmult_assoc, Rinv_l by exact Hnz. lra.
Qed.

(** the conversion int -> float on positive ints *)
Lemma F2R_Z0 (z : Z) : F2R (Float radix2 z 0) = IZR z.
Proof. unfold F2R. cbn. lra. Qed.

Lemma b64_of_Z_ge_1 (z : Z) : (1 <= z)%Z -> fin (b64_of_Z z) = true -> 1 <= RV (b64_of_Z z).
Proof.
  intros Hz Hf. unfold b64_of_Z in *.
  pose proof (binary_normalize_correct 53 1024 Hprec64 Hmax64 mode_NE z 0 false) as H.
  cbv zeta in H. rewrite F2R_Z0 in H.
  destruct (Rlt_bool _ _) in H.
  - destruct H as (HR & _). rewrite HR. apply rnd_ge_1. apply IZR_le in Hz. exact Hz.
  - exfalso. eapply finite_not_overflow; eassumption.
Qed.

Lemma b64_two53_val : RV (B754_finite 53 1024 false 4503599627370496 1 eq_refl) = IZR 9007199254740992.
Proof. unfold B2R, F2R. cbn. lra. Qed.

Lemma b64_of_Z_fin_small (z : Z) : (0 <= z <= 9007199254740992)%Z -> fin (b64_of_Z z) = true.
Proof.
  intros Hz. unfold b64_of_Z.
  pose proof (binary_normalize_correct 53 1024 Hprec64 Hmax64 mode_NE z 0 false) as H.
  cbv zeta in H. rewrite F2R_Z0 in H.
  rewrite Rlt_bool_true in H; [apply H|].
  fold (rnd (IZR z)).
  assert (H0 : 0 <= rnd (IZR z)) by (apply rnd_ge_0; apply IZR_le; lia).
  assert (H1 : rnd (IZR z) <= IZR 9007199254740992).
  { rewrite <- b64_two53_val. apply rnd_le_B2R. rewrite b64_two53_val. apply IZR_le. lia. }
  rewrite Rabs_pos_eq by exact H0.
  apply Rle_lt_trans with (IZR 9007199254740992); [exact H1|].
  change (bpow radix2 1024) with (IZR (Z.pow_pos 2 1024)).
  apply IZR_lt. vm_compute. reflexivity.
Qed.

(** ** List facts *)
Lemma in_combine_maps {A B C : Type} (f : A -> B) (g : A -> C) (l : list A) (x : A) (y : B) (z : C) :
  In (x, (y, z)) (combine l (combine (map f l) (map g l))) -> In x l /\ y = f x /\ z = g x.
Proof.
  induction l as [|a l IH]; cbn [map combine In]; intros H; [destruct H|].
  destruct H as [E|H].
  - injection E as <- <- <-. repeat split. left. reflexivity.
  - destruct (IH H) as (H1 & H2 & H3). repeat split; try assumption. right. exact H1.
Qed.

Lemma filter_length_le' {A : Type} (f : A -> bool) (l : list A) : (length (filter f l) <= length l)%nat.
Proof. induction l as [|a l IH]; cbn [filter length]; [lia|]. destruct (f a); cbn [length]; lia. Qed.

Lemma filter_length_pos {A : Type} (f : A -> bool) (l : list A) (x : A) :
  In x l -> f x = true -> (1 <= length (filter f l))%nat.
Proof.
  intros Hin Hf. assert (H : In x (filter f l)) by (apply filter_In; split; assumption).
  destruct (filter f l); [destruct H | cbn [length]; lia].
Qed.

(** every prefix of a list is a [firstn] of it (used to enumerate the prefixes of a concrete list) *)
Lemma prefix_firstn {A : Type} (l pre post : list A) :
  l = pre ++ post -> exists n : nat, Nat.leb n (length l) = true /\ pre = firstn n l.
Proof.
  intros E. exists (length pre). split.
  - apply Nat.leb_le. rewrite E, app_length. lia.
  - rewrite E, firstn_app, Nat.sub_diag, firstn_all. cbn [firstn]. rewrite app_nil_r. reflexivity.
Qed.

(** ** The model on binary64 *)
Section Model.
Variables fe fc fp fi : binary64 -> binary64.
Notation BN := (B64Num fe fc fp fi).

(** *** Left-fold float sums of non-negative doubles *)
Lemma fold_fadd_fin_inv (xs : list binary64) (a : binary64) :
  fin (fold_left (@fadd binary64 BN) xs a) = true ->
  fin a = true /\ forall y, In y xs -> fin y = true.
Proof.
  revert a. induction xs as [|y ys IH]; intros a Hf; cbn [fold_left] in Hf.
  - split; [exact Hf | intros y []].
  - destruct (IH _ Hf) as (Fa' & Fys).
    change (@fadd binary64 BN a y) with (b64_plus mode_NE a y) in Fa'.
    destruct (b64_plus_fin_inv _ _ Fa') as (Fa & Fy).
    split; [exact Fa|]. intros z [<-|Hz]; [exact Fy | apply Fys; exact Hz].
Qed.

Lemma fold_fadd_ge (xs : list binary64) (a : binary64) :
  fin (fold_left (@fadd binary64 BN) xs a) = true ->
  0 <= RV a -> (forall y, In y xs -> 0 <= RV y) ->
  RV a <= RV (fold_left (@fadd binary64 BN) xs a)
  /\ forall y, In y xs -> RV y <= RV (fold_left (@fadd binary64 BN) xs a).
Proof.
  revert a. induction xs as [|y ys IH]; intros a Hf Ha Hxs; cbn [fold_left] in *.
  - split; [apply Rle_refl | intros y []].
  - destruct (fold_fadd_fin_inv _ _ Hf) as (Fa' & _).
    change (@fadd binary64 BN a y) with (b64_plus mode_NE a y) in *.
    destruct (b64_plus_fin_inv _ _ Fa') as (Fa & Fy).
    assert (Hy : 0 <= RV y) by (apply Hxs; left; reflexivity).
    pose proof (b64_plus_nonneg a y Fa Fy Fa' Ha Hy) as Ha'.
    destruct (IH _ Hf Ha' (fun z Hz => Hxs z (or_intror Hz))) as (H1 & H2).
    pose proof (b64_plus_ge_l a y Fa Fy Fa' Hy) as Hl.
    pose proof (b64_plus_ge_r a y Fa Fy Fa' Ha) as Hr.
    split; [lra|]. intros z [<-|Hz]; [lra | apply H2; exact Hz].
Qed.

(** every summand of a finite [reduce_add] of non-negative doubles is finite and <= the sum *)
Lemma reduce_add_ge (l : list binary64) (x : binary64) :
  fin (@reduce_add binary64 BN l) = true -> (forall y, In y l -> 0 <= RV y) -> In x l ->
  fin x = true /\ RV x <= RV (@reduce_add binary64 BN l).
Proof.
  destruct l as [|a xs]; intros Hf Hl Hx; [destruct Hx|]. cbn [reduce_add] in *.
  destruct (fold_fadd_fin_inv _ _ Hf) as (Fa & Fxs).
  assert (Ha : 0 <= RV a) by (apply Hl; left; reflexivity).
  destruct (fold_fadd_ge xs a Hf Ha (fun z Hz => Hl z (or_intror Hz))) as (H1 & H2).
  destruct Hx as [<-|Hx]; [split; assumption | split; [apply Fxs | apply H2]; exact Hx].
Qed.

(** *** C05: one Bradley-Terry term, team [ti] ranked strictly better than [tq] (s = 1) *)
Lemma bt_term_omega_nonneg_b64 (P : params binary64) (trs : list (trating binary64))
      (ti : trating binary64) (od : binary64 * binary64) (tq : trating binary64) :
  (forall x : binary64, fin x = true -> 0 <= RV (fe x)) ->
  (t_rank ti < t_rank tq)%nat ->
  0 < RV (@c_iq binary64 BN P ti tq) ->
  0 <= RV (t_ss ti) ->
  fin (@fdiv binary64 BN (@fsub binary64 BN (t_mu tq) (t_mu ti)) (@c_iq binary64 BN P ti tq)) = true ->
  fin (@fadd binary64 BN (@fone binary64 BN)
         (fe (@fdiv binary64 BN (@fsub binary64 BN (t_mu tq) (t_mu ti)) (@c_iq binary64 BN P ti tq)))) = true ->
  0 <= RV (fst od) ->
  fin (fst (@bt_term binary64 BN P trs ti od tq)) = true ->
  0 <= RV (fst (@bt_term binary64 BN P trs ti od tq)).
Proof.
  intros Hexp Hrk Hc Hss Farg F1e Hod Fres.
  apply Nat.ltb_lt in Hrk.
  set (c := @c_iq binary64 BN P ti tq) in *.
  set (e := fe (@fdiv binary64 BN (@fsub binary64 BN (t_mu tq) (t_mu ti)) c)) in *.
  assert (He : 0 <= RV e) by (apply Hexp; exact Farg).
  change (@fadd binary64 BN (@fone binary64 BN) e) with (b64_plus mode_NE (b64_of_Z 1) e) in F1e.
  destruct (b64_plus_fin_inv _ _ F1e) as (_ & Fe).
  set (p := b64_div mode_NE (b64_of_Z 1) (b64_plus mode_NE (b64_of_Z 1) e)).
  set (s2c := b64_div mode_NE (t_ss ti) c).
  assert (E : fst (@bt_term binary64 BN P trs ti od tq)
              = b64_plus mode_NE (fst od) (b64_mult mode_NE s2c (b64_minus mode_NE (b64_of_Z 1) p))).
  { unfold bt_term. cbv zeta. cbn [fst]. rewrite Hrk. reflexivity. }
  rewrite E in *.
  destruct (b64_plus_fin_inv _ _ Fres) as (Fod & Fterm).
  destruct (b64_mult_val _ _ Fterm) as (_ & Fs2c & Fsp).
  destruct (b64_minus_fin_inv _ _ Fsp) as (_ & Fp).
  destruct (b64_logistic_01 e Fe He F1e Fp) as (Hp0 & Hp1). fold p in Hp0, Hp1.
  pose proof (b64_one_minus_nonneg p Fp Fsp Hp1) as H1p.
  pose proof (b64_div_nonneg _ _ Fs2c Hss Hc) as Hs2c. fold s2c in Hs2c.
  pose proof (b64_mult_nonneg _ _ Fterm Hs2c H1p) as Hterm.
  apply b64_plus_nonneg; assumption.
Qed.

(** team [ti] ranked strictly worse than [tq] (s = 0) *)
Lemma bt_term_omega_nonpos_b64 (P : params binary64) (trs : list (trating binary64))
      (ti : trating binary64) (od : binary64 * binary64) (tq : trating binary64) :
  (forall x : binary64, fin x = true -> 0 <= RV (fe x)) ->
  (t_rank tq < t_rank ti)%nat ->
  0 < RV (@c_iq binary64 BN P ti tq) ->
  0 <= RV (t_ss ti) ->
  fin (@fdiv binary64 BN (@fsub binary64 BN (t_mu tq) (t_mu ti)) (@c_iq binary64 BN P ti tq)) = true ->
  fin (@fadd binary64 BN (@fone binary64 BN)
         (fe (@fdiv binary64 BN (@fsub binary64 BN (t_mu tq) (t_mu ti)) (@c_iq binary64 BN P ti tq)))) = true ->
  RV (fst od) <= 0 ->
  fin (fst (@bt_term binary64 BN P trs ti od tq)) = true ->
  RV (fst (@bt_term binary64 BN P trs ti od tq)) <= 0.
Proof.
  intros Hexp Hrk Hc Hss Farg F1e Hod Fres.
  assert (Hlt : Nat.ltb (t_rank ti) (t_rank tq) = false) by (apply Nat.ltb_ge; lia).
  assert (Heq : Nat.eqb (t_rank tq) (t_rank ti) = false) by (apply Nat.eqb_neq; lia).
  set (c := @c_iq binary64 BN P ti tq) in *.
  set (e := fe (@fdiv binary64 BN (@fsub binary64 BN (t_mu tq) (t_mu ti)) c)) in *.
  assert (He : 0 <= RV e) by (apply Hexp; exact Farg).
  change (@fadd binary64 BN (@fone binary64 BN) e) with (b64_plus mode_NE (b64_of_Z 1) e) in F1e.
  destruct (b64_plus_fin_inv _ _ F1e) as (_ & Fe).
  set (p := b64_div mode_NE (b64_of_Z 1) (b64_plus mode_NE (b64_of_Z 1) e)).
  set (s2c := b64_div mode_NE (t_ss ti) c).
  assert (E : fst (@bt_term binary64 BN P trs ti od tq)
              = b64_plus mode_NE (fst od) (b64_mult mode_NE s2c (b64_minus mode_NE (b64_of_Z 0) p))).
  { unfold bt_term. cbv zeta. cbn [fst]. rewrite Hlt, Heq. reflexivity. }
  rewrite E in *.
  destruct (b64_plus_fin_inv _ _ Fres) as (Fod & Fterm).
  destruct (b64_mult_val _ _ Fterm) as (_ & Fs2c & Fsp).
  destruct (b64_minus_fin_inv _ _ Fsp) as (_ & Fp).
  destruct (b64_logistic_01 e Fe He F1e Fp) as (Hp0 & Hp1). fold p in Hp0, Hp1.
  pose proof (b64_zero_minus_nonpos p Fp Fsp Hp0) as H0p.
  pose proof (b64_div_nonneg _ _ Fs2c Hss Hc) as Hs2c. fold s2c in Hs2c.
  pose proof (b64_mult_nonneg_nonpos _ _ Fterm Hs2c H0p) as Hterm.
  apply b64_plus_nonpos; assumption.
Qed.

(** the omega accumulated over a whole list of opponents, all ranked strictly worse than [ti] *)
Lemma bt_omega_nonneg_b64 (P : params binary64) (trs : list (trating binary64))
      (ti : trating binary64) (opp : list (trating binary64)) :
  (forall x : binary64, fin x = true -> 0 <= RV (fe x)) ->
  0 <= RV (t_ss ti) ->
  (forall tq : trating binary64, In tq opp ->
     (t_rank ti < t_rank tq)%nat
     /\ 0 < RV (@c_iq binary64 BN P ti tq)
     /\ fin (@fdiv binary64 BN (@fsub binary64 BN (t_mu tq) (t_mu ti)) (@c_iq binary64 BN P ti tq)) = true
     /\ fin (@fadd binary64 BN (@fone binary64 BN)
               (fe (@fdiv binary64 BN (@fsub binary64 BN (t_mu tq) (t_mu ti)) (@c_iq binary64 BN P ti tq)))) = true) ->
  (forall pre post : list (trating binary64), opp = pre ++ post ->
     fin (fst (fold_left (@bt_term binary64 BN P trs ti) pre (@fzero binary64 BN, @fzero binary64 BN))) = true) ->
  0 <= RV (fst (fold_left (@bt_term binary64 BN P trs ti) opp (@fzero binary64 BN, @fzero binary64 BN))).
Proof.
  intros Hexp Hss.
  induction opp as [|tq l IH] using rev_ind; intros Hin Hpre.
  - cbn [fold_left fst]. change (@fzero binary64 BN) with (b64_of_Z 0). rewrite b64_zero_val. apply Rle_refl.
  - rewrite fold_left_app. cbn [fold_left].
    assert (Htq : In tq (l ++ [tq])) by (apply in_or_app; right; left; reflexivity).
    destruct (Hin tq Htq) as (Hrk & Hc & Farg & F1e).
    apply bt_term_omega_nonneg_b64; try assumption.
    + apply IH.
      * intros t Ht. apply Hin. apply in_or_app. left. exact Ht.
      * intros pre post E. apply (Hpre pre (post ++ [tq])). rewrite E, app_assoc. reflexivity.
    + specialize (Hpre (l ++ [tq]) [] (eq_sym (app_nil_r _))).
      rewrite fold_left_app in Hpre. exact Hpre.
Qed.

(** ... all ranked strictly better than [ti] *)
Lemma bt_omega_nonpos_b64 (P : params binary64) (trs : list (trating binary64))
      (ti : trating binary64) (opp : list (trating binary64)) :
  (forall x : binary64, fin x = true -> 0 <= RV (fe x)) ->
  0 <= RV (t_ss ti) ->
  (forall tq : trating binary64, In tq opp ->
     (t_rank tq < t_rank ti)%nat
     /\ 0 < RV (@c_iq binary64 BN P ti tq)
     /\ fin (@fdiv binary64 BN (@fsub binary64 BN (t_mu tq) (t_mu ti)) (@c_iq binary64 BN P ti tq)) = true
     /\ fin (@fadd binary64 BN (@fone binary64 BN)
               (fe (@fdiv binary64 BN (@fsub binary64 BN (t_mu tq) (t_mu ti)) (@c_iq binary64 BN P ti tq)))) = true) ->
  (forall pre post : list (trating binary64), opp = pre ++ post ->
     fin (fst (fold_left (@bt_term binary64 BN P trs ti) pre (@fzero binary64 BN, @fzero binary64 BN))) = true) ->
  RV (fst (fold_left (@bt_term binary64 BN P trs ti) opp (@fzero binary64 BN, @fzero binary64 BN))) <= 0.
Proof.
  intros Hexp Hss.
  induction opp as [|tq l IH] using rev_ind; intros Hin Hpre.
  - cbn [fold_left fst]. change (@fzero binary64 BN) with (b64_of_Z 0). rewrite b64_zero_val. apply Rle_refl.
  - rewrite fold_left_app. cbn [fold_left].
    assert (Htq : In tq (l ++ [tq])) by (apply in_or_app; right; left; reflexivity).
    destruct (Hin tq Htq) as (Hrk & Hc & Farg & F1e).
    apply bt_term_omega_nonpos_b64; try assumption.
    + apply IH.
      * intros t Ht. apply Hin. apply in_or_app. left. exact Ht.
      * intros pre post E. apply (Hpre pre (post ++ [tq])). rewrite E, app_assoc. reflexivity.
    + specialize (Hpre (l ++ [tq]) [] (eq_sym (app_nil_r _))).
      rewrite fold_left_app in Hpre. exact Hpre.
Qed.

(** *** C05: [update_player] moves mu in the direction of the sign of omega *)
Lemma update_player_mu_direction_b64 (P : params binary64) (ti : trating binary64)
      (omega delta : binary64) (p : rating binary64) :
  0 <= RV (@fdiv binary64 BN (@fpow2 binary64 BN (r_sigma p)) (t_ss ti)) ->
  fin (r_mu (@update_player binary64 BN P ti omega delta p)) = true ->
  (0 <= RV omega -> RV (r_mu p) <= RV (r_mu (@update_player binary64 BN P ti omega delta p)))
  /\ (RV omega <= 0 -> RV (r_mu (@update_player binary64 BN P ti omega delta p)) <= RV (r_mu p)).
Proof.
  intros Hsh Fres.
  set (sh := @fdiv binary64 BN (@fpow2 binary64 BN (r_sigma p)) (t_ss ti)) in *.
  change (r_mu (@update_player binary64 BN P ti omega delta p))
    with (b64_plus mode_NE (r_mu p) (b64_mult mode_NE sh omega)) in *.
  destruct (b64_plus_fin_inv _ _ Fres) as (Fmu & Fso).
  split; intros Ho.
  - apply b64_plus_ge_l; try assumption. apply b64_mult_nonneg; assumption.
  - apply b64_plus_le_l; try assumption. apply b64_mult_nonneg_nonpos; assumption.
Qed.

(** *** C06: Plackett-Luce.  One step of the fold: the delta component stays >= 0 when, for an
    entry that is used (rank tq <= rank ti), the sum [sq] is finite and >= e, and the tie count
    converts to a positive double. *)
Lemma pl_step_delta_nonneg_b64 (i : nat) (ti : trating binary64) (e : binary64)
      (od : binary64 * binary64) (qt : nat * (trating binary64 * (binary64 * nat))) :
  0 <= RV e ->
  (Nat.leb (t_rank (fst (snd qt))) (t_rank ti) = true ->
     fin (fst (snd (snd qt))) = true /\ RV e <= RV (fst (snd (snd qt)))
     /\ 0 < RV (b64_of_Z (Z.of_nat (snd (snd (snd qt)))))) ->
  0 <= RV (snd od) ->
  fin (snd (@pl_step binary64 BN i ti e od qt)) = true ->
  0 <= RV (snd (@pl_step binary64 BN i ti e od qt)).
Proof.
  intros He Hq Hod Fres.
  destruct qt as (q & tq & sq & n). cbn [fst snd] in Hq.
  unfold pl_step in *. cbv zeta in *. cbn [fst snd] in *.
  destruct (Nat.leb (t_rank tq) (t_rank ti)) eqn:Hle; cbn [snd] in *; [|exact Hod].
  destruct (Hq eq_refl) as (Fsq & Hes & Haq).
  set (aq := b64_of_Z (Z.of_nat n)) in *.
  set (p := b64_div mode_NE e sq).
  change (fin (b64_plus mode_NE (snd od)
                 (b64_div mode_NE (b64_mult mode_NE p (b64_minus mode_NE (b64_of_Z 1) p)) aq)) = true) in Fres.
  change (0 <= RV (b64_plus mode_NE (snd od)
                 (b64_div mode_NE (b64_mult mode_NE p (b64_minus mode_NE (b64_of_Z 1) p)) aq))).
  destruct (b64_plus_fin_inv _ _ Fres) as (Fod & Fterm).
  destruct (b64_div_val _ _ (Rgt_not_eq _ _ Haq) Fterm) as (_ & Fpp).
  destruct (b64_mult_val _ _ Fpp) as (_ & Fp & F1p).
  destruct (b64_ratio_01 e sq Fsq He Hes Fp) as (Hp0 & Hp1). fold p in Hp0, Hp1.
  pose proof (b64_one_minus_nonneg p Fp F1p Hp1) as H1p.
  pose proof (b64_mult_nonneg _ _ Fpp Hp0 H1p) as Hpp.
  pose proof (b64_div_nonneg _ _ Fterm Hpp Haq) as Hterm.
  apply b64_plus_nonneg; assumption.
Qed.

(** the fold over an arbitrary list of entries *)
Lemma pl_fold_delta_nonneg_b64 (i : nat) (ti : trating binary64) (e : binary64)
      (qs : list (nat * (trating binary64 * (binary64 * nat)))) :
  0 <= RV e ->
  (forall qt, In qt qs -> Nat.leb (t_rank (fst (snd qt))) (t_rank ti) = true ->
     fin (fst (snd (snd qt))) = true /\ RV e <= RV (fst (snd (snd qt)))
     /\ 0 < RV (b64_of_Z (Z.of_nat (snd (snd (snd qt)))))) ->
  (forall pre post, qs = pre ++ post ->
     fin (snd (fold_left (@pl_step binary64 BN i ti e) pre (@fzero binary64 BN, @fzero binary64 BN))) = true) ->
  0 <= RV (snd (fold_left (@pl_step binary64 BN i ti e) qs (@fzero binary64 BN, @fzero binary64 BN))).
Proof.
  intros He.
  induction qs as [|qt l IH] using rev_ind; intros Hin Hpre.
  - cbn [fold_left snd]. change (@fzero binary64 BN) with (b64_of_Z 0). rewrite b64_zero_val. apply Rle_refl.
  - rewrite fold_left_app. cbn [fold_left].
    assert (Hqt : In qt (l ++ [qt])) by (apply in_or_app; right; left; reflexivity).
    apply pl_step_delta_nonneg_b64; try assumption.
    + apply Hin. exact Hqt.
    + apply IH.
      * intros t Ht. apply Hin. apply in_or_app. left. exact Ht.
      * intros pre post E. apply (Hpre pre (post ++ [qt])). rewrite E, app_assoc. reflexivity.
    + specialize (Hpre (l ++ [qt]) [] (eq_sym (app_nil_r _))).
      rewrite fold_left_app in Hpre. exact Hpre.
Qed.

(** the entries the model builds: [sq] is the float sum of the exponentials of the teams ranked
    no better than [tq], which include [ti] when rank tq <= rank ti; [aq] is the number of teams
    tied with [tq], between 1 and the number of teams *)
Lemma pl_entries_b64 (trs : list (trating binary64)) (c : binary64) (ti : trating binary64)
      (qt : nat * (trating binary64 * (binary64 * nat))) :
  (forall x : binary64, fin x = true -> 0 <= RV (fe x)) ->
  In ti trs ->
  (Z.of_nat (length trs) <= 9007199254740992)%Z ->
  (forall t, In t trs -> fin (@fdiv binary64 BN (t_mu t) c) = true) ->
  (forall s, In s (@pl_sum_q binary64 BN trs c) -> fin s = true) ->
  In qt (combine (seq 0 (length trs)) (combine trs (combine (@pl_sum_q binary64 BN trs c) (@pl_a binary64 trs)))) ->
  Nat.leb (t_rank (fst (snd qt))) (t_rank ti) = true ->
  fin (fst (snd (snd qt))) = true
  /\ RV (fe (@fdiv binary64 BN (t_mu ti) c)) <= RV (fst (snd (snd qt)))
  /\ 0 < RV (b64_of_Z (Z.of_nat (snd (snd (snd qt))))).
Proof.
  intros Hexp Hti Hlen Farg Fsum Hin Hle.
  destruct qt as (q & tq & sq & n). cbn [fst snd] in *.
  apply in_combine_r in Hin.
  unfold pl_sum_q, pl_a in Hin.
  apply in_combine_maps in Hin. destruct Hin as (Htq & Esq & En).
  assert (Fsq : fin sq = true).
  { apply Fsum. rewrite Esq. unfold pl_sum_q.
    apply (in_map (fun tq0 => @reduce_add binary64 BN
             (map (fun t => @fexp binary64 BN (@fdiv binary64 BN (t_mu t) c))
                  (filter (fun t => Nat.leb (t_rank tq0) (t_rank t)) trs))) trs tq Htq). }
  split; [exact Fsq|]. split.
  - rewrite Esq in Fsq |- *.
    apply (reduce_add_ge _ (fe (@fdiv binary64 BN (t_mu ti) c)) Fsq).
    + intros y Hy. apply in_map_iff in Hy. destruct Hy as (t & <- & Ht).
      apply filter_In in Ht. apply Hexp. apply Farg. apply Ht.
    + apply (in_map (fun t => @fexp binary64 BN (@fdiv binary64 BN (t_mu t) c))).
      apply filter_In. split; assumption.
  - assert (H1 : (1 <= n)%nat).
    { rewrite En. apply (filter_length_pos _ trs tq Htq). apply Nat.eqb_refl. }
    assert (H2 : (n <= length trs)%nat) by (rewrite En; apply filter_length_le').
    assert (Fn : fin (b64_of_Z (Z.of_nat n)) = true) by (apply b64_of_Z_fin_small; lia).
    pose proof (b64_of_Z_ge_1 (Z.of_nat n) ltac:(lia) Fn). lra.
Qed.

(** the delta returned by [pl_omega_delta] on the model's own entries, for any scale [c]
    ([compute_pl] passes [c := pl_c P trs]) *)
Lemma pl_delta_nonneg_b64 (P : params binary64) (trs : list (trating binary64)) (c : binary64)
      (i : nat) (ti : trating binary64) :
  (forall x : binary64, fin x = true -> 0 <= RV (fe x)) ->
  In ti trs ->
  (Z.of_nat (length trs) <= 9007199254740992)%Z ->
  0 <= RV (@fdiv binary64 BN (t_ss ti) (@fpow2 binary64 BN c)) ->
  0 <= RV (@gamma_of binary64 P c trs ti) ->
  (forall t, In t trs -> fin (@fdiv binary64 BN (t_mu t) c) = true) ->
  (forall s, In s (@pl_sum_q binary64 BN trs c) -> fin s = true) ->
  (forall pre post,
     combine (seq 0 (length trs)) (combine trs (combine (@pl_sum_q binary64 BN trs c) (@pl_a binary64 trs)))
       = pre ++ post ->
     fin (snd (fold_left (@pl_step binary64 BN i ti (@fexp binary64 BN (@fdiv binary64 BN (t_mu ti) c))) pre
                 (@fzero binary64 BN, @fzero binary64 BN))) = true) ->
  fin (snd (@pl_omega_delta binary64 BN P trs c
              (combine (seq 0 (length trs)) (combine trs (combine (@pl_sum_q binary64 BN trs c) (@pl_a binary64 trs))))
              i ti)) = true ->
  0 <= RV (snd (@pl_omega_delta binary64 BN P trs c
              (combine (seq 0 (length trs)) (combine trs (combine (@pl_sum_q binary64 BN trs c) (@pl_a binary64 trs))))
              i ti)).
Proof.
  intros Hexp Hti Hlen Hfac Hg Farg Fsum Hpre Fres.
  set (qs := combine (seq 0 (length trs)) (combine trs (combine (@pl_sum_q binary64 BN trs c) (@pl_a binary64 trs)))) in *.
  set (e := @fexp binary64 BN (@fdiv binary64 BN (t_mu ti) c)) in *.
  assert (He : 0 <= RV e) by (apply Hexp; apply Farg; exact Hti).
  assert (Hfold : 0 <= RV (snd (fold_left (@pl_step binary64 BN i ti e) qs (@fzero binary64 BN, @fzero binary64 BN)))).
  { apply pl_fold_delta_nonneg_b64; [exact He | | exact Hpre].
    intros qt Hqt Hle. apply (pl_entries_b64 trs c ti qt); assumption. }
  unfold pl_omega_delta in *. cbv zeta in *. cbn [snd] in *. fold e in Fres |- *.
  set (sd := snd (fold_left (@pl_step binary64 BN i ti e) qs (@fzero binary64 BN, @fzero binary64 BN))) in *.
  set (fac := @fdiv binary64 BN (t_ss ti) (@fpow2 binary64 BN c)) in *.
  set (g := @gamma_of binary64 P c trs ti) in *.
  change (fin (b64_mult mode_NE (b64_mult mode_NE sd fac) g) = true) in Fres.
  change (0 <= RV (b64_mult mode_NE (b64_mult mode_NE sd fac) g)).
  destruct (b64_mult_val _ _ Fres) as (_ & Fd & _).
  apply b64_mult_nonneg; [exact Fres | | exact Hg].
  apply b64_mult_nonneg; assumption.
Qed.

End Model.

(** *** C05: the two steps composed, for a member [p] of the team *)
Lemma bt_first_alone_mu_b64 (fe fc fp fi : binary64 -> binary64)
      (P : params binary64) (trs : list (trating binary64))
      (ti : trating binary64) (opp : list (trating binary64)) (p : rating binary64) :
  (forall x : binary64, fin x = true -> 0 <= RV (fe x)) ->
  0 <= RV (t_ss ti) ->
  (forall tq : trating binary64, In tq opp ->
     (t_rank ti < t_rank tq)%nat
     /\ 0 < RV (@c_iq binary64 (B64Num fe fc fp fi) P ti tq)
     /\ fin (@fdiv binary64 (B64Num fe fc fp fi) (@fsub binary64 (B64Num fe fc fp fi) (t_mu tq) (t_mu ti))
               (@c_iq binary64 (B64Num fe fc fp fi) P ti tq)) = true
     /\ fin (@fadd binary64 (B64Num fe fc fp fi) (@fone binary64 (B64Num fe fc fp fi))
               (fe (@fdiv binary64 (B64Num fe fc fp fi) (@fsub binary64 (B64Num fe fc fp fi) (t_mu tq) (t_mu ti))
                      (@c_iq binary64 (B64Num fe fc fp fi) P ti tq)))) = true) ->
  (forall pre post : list (trating binary64), opp = pre ++ post ->
     fin (fst (fold_left (@bt_term binary64 (B64Num fe fc fp fi) P trs ti) pre
                 (@fzero binary64 (B64Num fe fc fp fi), @fzero binary64 (B64Num fe fc fp fi)))) = true) ->
  0 <= RV (@fdiv binary64 (B64Num fe fc fp fi) (@fpow2 binary64 (B64Num fe fc fp fi) (r_sigma p)) (t_ss ti)) ->
  fin (r_mu (@update_player binary64 (B64Num fe fc fp fi) P ti
         (fst (fold_left (@bt_term binary64 (B64Num fe fc fp fi) P trs ti) opp
                 (@fzero binary64 (B64Num fe fc fp fi), @fzero binary64 (B64Num fe fc fp fi))))
         (snd (fold_left (@bt_term binary64 (B64Num fe fc fp fi) P trs ti) opp
                 (@fzero binary64 (B64Num fe fc fp fi), @fzero binary64 (B64Num fe fc fp fi)))) p)) = true ->
  RV (r_mu p) <= RV (r_mu (@update_player binary64 (B64Num fe fc fp fi) P ti
         (fst (fold_left (@bt_term binary64 (B64Num fe fc fp fi) P trs ti) opp
                 (@fzero binary64 (B64Num fe fc fp fi), @fzero binary64 (B64Num fe fc fp fi))))
         (snd (fold_left (@bt_term binary64 (B64Num fe fc fp fi) P trs ti) opp
                 (@fzero binary64 (B64Num fe fc fp fi), @fzero binary64 (B64Num fe fc fp fi)))) p)).
Proof.
  intros Hexp Hss Hin Hpre Hsh Fres.
  apply (proj1 (update_player_mu_direction_b64 fe fc fp fi P ti _ _ p Hsh Fres)).
  apply bt_omega_nonneg_b64; assumption.
Qed.

Lemma bt_last_alone_mu_b64 (fe fc fp fi : binary64 -> binary64)
      (P : params binary64) (trs : list (trating binary64))
      (ti : trating binary64) (opp : list (trating binary64)) (p : rating binary64) :
  (forall x : binary64, fin x = true -> 0 <= RV (fe x)) ->
  0 <= RV (t_ss ti) ->
  (forall tq : trating binary64, In tq opp ->
     (t_rank tq < t_rank ti)%nat
     /\ 0 < RV (@c_iq binary64 (B64Num fe fc fp fi) P ti tq)
     /\ fin (@fdiv binary64 (B64Num fe fc fp fi) (@fsub binary64 (B64Num fe fc fp fi) (t_mu tq) (t_mu ti))
               (@c_iq binary64 (B64Num fe fc fp fi) P ti tq)) = true
     /\ fin (@fadd binary64 (B64Num fe fc fp fi) (@fone binary64 (B64Num fe fc fp fi))
               (fe (@fdiv binary64 (B64Num fe fc fp fi) (@fsub binary64 (B64Num fe fc fp fi) (t_mu tq) (t_mu ti))
                      (@c_iq binary64 (B64Num fe fc fp fi) P ti tq)))) = true) ->
  (forall pre post : list (trating binary64), opp = pre ++ post ->
     fin (fst (fold_left (@bt_term binary64 (B64Num fe fc fp fi) P trs ti) pre
                 (@fzero binary64 (B64Num fe fc fp fi), @fzero binary64 (B64Num fe fc fp fi)))) = true) ->
  0 <= RV (@fdiv binary64 (B64Num fe fc fp fi) (@fpow2 binary64 (B64Num fe fc fp fi) (r_sigma p)) (t_ss ti)) ->
  fin (r_mu (@update_player binary64 (B64Num fe fc fp fi) P ti
         (fst (fold_left (@bt_term binary64 (B64Num fe fc fp fi) P trs ti) opp
                 (@fzero binary64 (B64Num fe fc fp fi), @fzero binary64 (B64Num fe fc fp fi))))
         (snd (fold_left (@bt_term binary64 (B64Num fe fc fp fi) P trs ti) opp
                 (@fzero binary64 (B64Num fe fc fp fi), @fzero binary64 (B64Num fe fc fp fi)))) p)) = true ->
  RV (r_mu (@update_player binary64 (B64Num fe fc fp fi) P ti
         (fst (fold_left (@bt_term binary64 (B64Num fe fc fp fi) P trs ti) opp
                 (@fzero binary64 (B64Num fe fc fp fi), @fzero binary64 (B64Num fe fc fp fi))))
         (snd (fold_left (@bt_term binary64 (B64Num fe fc fp fi) P trs ti) opp
                 (@fzero binary64 (B64Num fe fc fp fi), @fzero binary64 (B64Num fe fc fp fi)))) p))
  <= RV (r_mu p).
Proof.
  intros Hexp Hss Hin Hpre Hsh Fres.
  apply (proj2 (update_player_mu_direction_b64 fe fc fp fi P ti _ _ p Hsh Fres)).
  apply bt_omega_nonpos_b64; assumption.
Qed.

(** * FloatSignL: sign facts about the doubles the model computes (IEEE 754 binary64, Flocq,
    round to nearest even), for properties C05 and C06.

    - Bradley-Terry ([bt_term], used by BTF and BTP): for a team whose rank is strictly better
      than the rank of every opponent of the fold the accumulated omega is >= 0; strictly worse
      than every opponent: omega <= 0.
    - [update_player]: mu' = mu + share * omega moves in the direction of the sign of omega
      (share >= 0), as doubles, with no rounding slack.
    - Plackett-Luce ([pl_step] / [pl_omega_delta]): the accumulated delta is >= 0.

    Everything is stated on [B2R] with finiteness ("no overflow") hypotheses; the only premise
    on the libm functions is [0 <= exp x] for finite [x].  Proofs: monotonicity of rounding and
    the fact that 0, 1 and every double are fixed points of rounding (see FloatOrderL). *)
From Coq Require Import List ZArith Bool Arith Reals Lra Lia.
From Flocq Require Import Core.Raux Core.Defs Core.Zaux Core.Generic_fmt Core.FLT
  IEEE754.BinarySingleNaN IEEE754.Binary IEEE754.Bits.
From OSV Require Import Num Order Gauss Core FloatInst.
From OSV.Lemmas Require Import FloatOrderL.
Import ListNotations.
Open Scope R_scope.

(** ** More order facts on binary64 operations *)

Lemma rnd_le_0 (x : R) : x <= 0 -> rnd x <= 0.
Proof. intros H. rewrite <- rnd_0. apply rnd_le. exact H. Qed.

Lemma b64_mult_nonneg_nonpos (x y : binary64) :
  fin (b64_mult mode_NE x y) = true -> 0 <= RV x -> RV y <= 0 ->
  RV (b64_mult mode_NE x y) <= 0.
Proof.
  intros Hf Hx Hy. destruct (b64_mult_val x y Hf) as (HR & _). rewrite HR.
  apply rnd_le_0. nra.
Qed.

Lemma b64_plus_nonpos (x y : binary64) :
  fin x = true -> fin y = true -> fin (b64_plus mode_NE x y) = true -> RV x <= 0 -> RV y <= 0 ->
  RV (b64_plus mode_NE x y) <= 0.
Proof.
  intros Fx Fy Hf Hx Hy. rewrite (b64_plus_val x y Fx Fy Hf). apply rnd_le_0. lra.
Qed.

Lemma b64_plus_le_l (x y : binary64) :
  fin x = true -> fin y = true -> fin (b64_plus mode_NE x y) = true -> RV y <= 0 ->
  RV (b64_plus mode_NE x y) <= RV x.
Proof.
  intros Fx Fy Hf Hy. rewrite (b64_plus_val x y Fx Fy Hf). apply rnd_le_B2R. lra.
Qed.

Lemma b64_zero_minus_nonpos (a : binary64) :
  fin a = true -> fin (b64_minus mode_NE (b64_of_Z 0) a) = true -> 0 <= RV a ->
  RV (b64_minus mode_NE (b64_of_Z 0) a) <= 0.
Proof.
  intros Fa Hf Ha. rewrite (b64_minus_val _ a b64_zero_fin Fa Hf), b64_zero_val.
  apply rnd_le_0. lra.
Qed.

(** a finite quotient by a finite divisor: the divisor is not a zero (x/0 is an infinity or a NaN) *)
Lemma b64_div_fin_nonzero (x y : binary64) :
  fin (b64_div mode_NE x y) = true -> fin y = true -> RV y <> 0.
Proof.
  unfold b64_div, Bdiv. rewrite is_finite_BSN2B.
  destruct y as [sy|sy|sy ply Hy|sy my ey Hy]; intros Hf Fy; try discriminate Fy.
  - exfalso. destruct x as [sx|sx|sx plx Hx|sx mx ex Hx]; cbn in Hf; discriminate Hf.
  - cbn [B2R]. apply Float_prop.F2R_neq_0. cbn. destruct sy; discriminate.
Qed.

(** p = e / s is in [0,1] when 0 <= e <= s *)
Lemma b64_ratio_01 (e s : binary64) :
  fin s = true -> 0 <= RV e -> RV e <= RV s ->
  fin (b64_div mode_NE e s) = true ->
  0 <= RV (b64_div mode_NE e s) <= 1.
Proof.
  intros Fs He Hes Fp.
  pose proof (b64_div_fin_nonzero e s Fp Fs) as Hnz.
  assert (Hs : 0 < RV s) by lra.
  destruct (b64_div_val e s Hnz Fp) as (HR & _). rewrite HR.
  assert (Hinv : 0 < / RV s) by (apply Rinv_0_lt_compat; exact Hs).
  split.
  - apply rnd_ge_0. unfold Rdiv. apply Rmult_le_pos; lra.
  - apply rnd_le_1. apply Rmult_le_reg_r with (RV s); [exact Hs|].
    unfold Rdiv. rewrite Rmult_assoc, Rinv_l by exact Hnz. lra.
Qed.

(** the conversion int -> float on positive ints *)
Lemma F2R_Z0 (z : Z) : F2R (Float radix2 z 0) = IZR z.
Proof. unfold F2R. cbn. lra. Qed.

Lemma b64_of_Z_ge_1 (z : Z) : (1 <= z)%Z -> fin (b64_of_Z z) = true -> 1 <= RV (b64_of_Z z).
Proof.
  intros Hz Hf. unfold b64_of_Z in *.
  pose proof (binary_normalize_correct 53 1024 Hprec64 Hmax64 mode_NE z 0 false) as H.
  cbv zeta in H. rewrite F2R_Z0 in H.
  destruct (Rlt_bool _ _) in H.
  - destruct H as (HR & _). rewrite HR. apply rnd_ge_1. apply IZR_le in Hz. exact Hz.
  - exfalso. eapply finite_not_overflow; eassumption.
Qed.

Lemma b64_two53_val : RV (B754_finite 53 1024 false 4503599627370496 1 eq_refl) = IZR 9007199254740992.
Proof. unfold B2R, F2R. cbn. lra. Qed.

Lemma b64_of_Z_fin_small (z : Z) : (0 <= z <= 9007199254740992)%Z -> fin (b64_of_Z z) = true.
Proof.
  intros Hz. unfold b64_of_Z.
  pose proof (binary_normalize_correct 53 1024 Hprec64 Hmax64 mode_NE z 0 false) as H.
  cbv zeta in H. rewrite F2R_Z0 in H.
  rewrite Rlt_bool_true in H; [apply H|].
  fold (rnd (IZR z)).
  assert (H0 : 0 <= rnd (IZR z)) by (apply rnd_ge_0; apply IZR_le; lia).
  assert (H1 : rnd (IZR z) <= IZR 9007199254740992).
  { rewrite <- b64_two53_val. apply rnd_le_B2R. rewrite b64_two53_val. apply IZR_le. lia. }
  rewrite Rabs_pos_eq by exact H0.
  apply Rle_lt_trans with (IZR 9007199254740992); [exact H1|].
  change (bpow radix2 1024) with (IZR (Z.pow_pos 2 1024)).
  apply IZR_lt. vm_compute. reflexivity.
Qed.

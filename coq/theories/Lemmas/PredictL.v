(** * PredictL: shared lemmas about the prediction functions.

    - polymorphic list facts: [rows l] pairs each element with the list of all
      the others, in order; lengths; index form of "all the others";
    - the reading of [agg], [pair_scale], [half_pairs], [draw_margin] on R;
    - elementary facts about real sums. *)
From Coq Require Import List ZArith Bool Arith Reals Lra Lia Permutation.
From OSV Require Import Num Order Gauss Core Predict RInst.
Import ListNotations.

(** ** Lists *)
Section Lists.
Context {A : Type}.

(** all elements of [l] but the one at position [i], in order *)
Definition others (i : nat) (l : list A) : list A := firstn i l ++ skipn (S i) l.
(** the indices [0 .. n-1] except [i] *)
Definition idx_others (n i : nat) : list nat :=
  filter (fun j => negb (Nat.eqb j i)) (seq 0 n).

Lemma rows_aux_fst (pre l : list A) : map fst (rows_aux pre l) = l.
Proof.
  revert pre; induction l as [|x xs IH]; intros pre; cbn [rows_aux map fst]; [reflexivity|].
  now rewrite IH.
Qed.
Lemma rows_fst (l : list A) : map fst (rows l) = l.
Proof. apply rows_aux_fst. Qed.

Lemma rows_aux_length (pre l : list A) : length (rows_aux pre l) = length l.
Proof. rewrite <- (rows_aux_fst pre l) at 2. now rewrite map_length. Qed.
Lemma rows_length (l : list A) : length (rows l) = length l.
Proof. apply rows_aux_length. Qed.

Lemma rows_aux_spec (d : A) (pre l : list A) :
  rows_aux pre l = map (fun i => (nth i l d, rev pre ++ others i l)) (seq 0 (length l)).
Proof.
  revert pre; induction l as [|x xs IH]; intros pre; [reflexivity|].
  cbn [rows_aux length seq map]. f_equal.
  rewrite IH, <- seq_shift, map_map. apply map_ext. intros i.
  unfold others. cbn [nth firstn skipn rev]. rewrite <- app_assoc. reflexivity.
Qed.

(** [rows l] is the list of [(l_i, all the others in order)], [i = 0 .. n-1]. *)
Lemma rows_spec (d : A) (l : list A) :
  rows l = map (fun i => (nth i l d, others i l)) (seq 0 (length l)).
Proof. unfold rows. now rewrite (rows_aux_spec d). Qed.

Lemma rows_aux_perm (pre l : list A) ro :
  In ro (rows_aux pre l) -> Permutation (rev pre ++ l) (fst ro :: snd ro).
Proof.
  revert pre; induction l as [|x xs IH]; intros pre Hin; cbn [rows_aux] in Hin; [contradiction|].
  destruct Hin as [<-|Hin].
  - cbn [fst snd]. symmetry. apply Permutation_middle.
  - apply IH in Hin. cbn [rev] in Hin. rewrite <- app_assoc in Hin. exact Hin.
Qed.
(** every row is a rearrangement of the whole list: its head, then the others *)
Lemma rows_perm (l : list A) ro : In ro (rows l) -> Permutation l (fst ro :: snd ro).
Proof. intros Hin. apply (rows_aux_perm [] l ro Hin). Qed.

Lemma firstn_seq' i : forall s n, (i <= n)%nat -> firstn i (seq s n) = seq s i.
Proof.
  induction i as [|i IH]; intros s n Hi; [reflexivity|].
  destruct n as [|n]; [lia|]. cbn [seq firstn]. f_equal. apply IH. lia.
Qed.
Lemma skipn_seq' i : forall s n, skipn i (seq s n) = seq (s + i) (n - i).
Proof.
  induction i as [|i IH]; intros s n.
  - now rewrite Nat.add_0_r, Nat.sub_0_r.
  - destruct n as [|n]; [reflexivity|]. cbn [seq skipn]. rewrite IH.
    replace (S s + i)%nat with (s + S i)%nat by lia. reflexivity.
Qed.

Lemma filter_all_true (f : nat -> bool) (l : list nat) :
  (forall x, In x l -> f x = true) -> filter f l = l.
Proof.
  induction l as [|x xs IH]; intros Hf; cbn [filter]; [reflexivity|].
  rewrite (Hf x (or_introl eq_refl)). f_equal. apply IH. intros y Hy. apply Hf. now right.
Qed.

Lemma idx_others_split n i : (i < n)%nat -> idx_others n i = seq 0 i ++ seq (S i) (n - S i).
Proof.
  intros Hi. unfold idx_others.
  replace n with (i + S (n - S i))%nat at 1 by lia.
  rewrite seq_app, filter_app. cbn [seq filter Nat.add]. rewrite Nat.eqb_refl. cbn [negb].
  f_equal; apply filter_all_true; intros x Hx; apply in_seq in Hx;
    apply negb_true_iff, Nat.eqb_neq; lia.
Qed.
Lemma idx_others_last n : idx_others (S n) n = seq 0 n.
Proof. rewrite idx_others_split by lia. replace (S n - S n)%nat with 0%nat by lia. cbn [seq]. apply app_nil_r. Qed.
Lemma idx_others_S n i : (i < n)%nat -> idx_others (S n) i = idx_others n i ++ [n].
Proof.
  intros Hi. unfold idx_others. rewrite seq_S, filter_app. cbn [filter Nat.add].
  assert (E : (n =? i) = false) by (apply Nat.eqb_neq; lia). rewrite E. reflexivity.
Qed.
Lemma idx_others_length n i : (i < n)%nat -> length (idx_others n i) = (n - 1)%nat.
Proof. intros Hi. rewrite idx_others_split by exact Hi. rewrite app_length, !seq_length. lia. Qed.
Lemma idx_others_In n i j : In j (idx_others n i) <-> (j < n)%nat /\ j <> i.
Proof.
  unfold idx_others. rewrite filter_In, in_seq, negb_true_iff, Nat.eqb_neq. lia.
Qed.

Lemma others_map_seq {B} (g : nat -> B) n i : (i < n)%nat ->
  firstn i (map g (seq 0 n)) ++ skipn (S i) (map g (seq 0 n)) = map g (idx_others n i).
Proof.
  intros Hi. rewrite firstn_map, skipn_map, firstn_seq' by lia. rewrite skipn_seq'.
  rewrite idx_others_split by exact Hi. rewrite map_app. reflexivity.
Qed.

Lemma list_map_nth_seq (d : A) (l : list A) : l = map (fun j => nth j l d) (seq 0 (length l)).
Proof.
  induction l as [|x xs IH]; [reflexivity|].
  cbn [length seq map nth]. f_equal. rewrite <- seq_shift, map_map. exact IH.
Qed.

(** index form of "all the others" *)
Lemma others_idx (d : A) (l : list A) i : (i < length l)%nat ->
  others i l = map (fun j => nth j l d) (idx_others (length l) i).
Proof.
  intros Hi. rewrite <- (others_map_seq (fun j => nth j l d)) by exact Hi.
  unfold others. now rewrite <- (list_map_nth_seq d l).
Qed.
Lemma others_length (l : list A) i : (i < length l)%nat -> length (others i l) = (length l - 1)%nat.
Proof.
  intros Hi. unfold others. rewrite app_length, firstn_length, skipn_length. lia.
Qed.

Lemma nth_map_seq {B} (g : nat -> B) n i (d : B) : (i < n)%nat -> nth i (map g (seq 0 n)) d = g i.
Proof.
  intros Hi. rewrite (nth_indep _ d (g 0%nat)) by now rewrite map_length, seq_length.
  rewrite map_nth, seq_nth by exact Hi. reflexivity.
Qed.

Lemma nth_rows (d : A) (l : list A) i dr : (i < length l)%nat ->
  nth i (rows l) dr = (nth i l d, others i l).
Proof. intros Hi. rewrite (rows_spec d). now rewrite nth_map_seq. Qed.

Lemma combine_map_self {B} (g : A -> B) (l : list A) : combine l (map g l) = map (fun x => (x, g x)) l.
Proof. induction l as [|x xs IH]; cbn [combine map]; [reflexivity|]. now rewrite IH. Qed.
End Lists.

(** ** The polymorphic part of the predictions *)
Section Poly.
Context {F : Type} {N : Num F}.

Lemma nplayers_acc (teams : list (list (rating F))) a :
  fold_left (fun acc t => (acc + length t)%nat) teams a = (a + length (concat teams))%nat.
Proof.
  revert a; induction teams as [|t ts IH]; intros a; cbn [fold_left concat]; [cbn; lia|].
  rewrite IH, app_length. lia.
Qed.
(** the total number of players *)
Lemma nplayers_concat (teams : list (list (rating F))) : nplayers teams = length (concat teams).
Proof. unfold nplayers. now rewrite nplayers_acc. Qed.

Lemma nplayers_pos (teams : list (list (rating F))) :
  (2 <= length teams)%nat -> Forall (fun t => t <> []) teams -> (2 <= length (concat teams))%nat.
Proof.
  intros Hn Hne. destruct teams as [|a [|b r]]; cbn [length] in Hn; try lia.
  inversion Hne as [|? ? Ha Hr]; subst. inversion Hr as [|? ? Hb _]; subst.
  cbn [concat]. rewrite !app_length.
  destruct a; [congruence|]. destruct b; [congruence|]. cbn [length]. lia.
Qed.

(** [predict_win] returns one number per team *)
Lemma predict_win_length (beta : F) (teams : list (list (rating F))) :
  length (predict_win beta teams) = length teams.
Proof.
  unfold predict_win.
  destruct teams as [|a [|b [|c r]]]; try reflexivity; now rewrite map_length, rows_length.
Qed.

Lemma predict_rank_probs_length (beta : F) (teams : list (list (rating F))) :
  length (predict_rank_probs beta teams) = length teams.
Proof. unfold predict_rank_probs. now rewrite map_length, rows_length. Qed.

Lemma combine_snd {X Y} (l : list X) (l' : list Y) : length l = length l' -> map snd (combine l l') = l'.
Proof.
  revert l'; induction l as [|x xs IH]; intros [|y ys] Hl; cbn in Hl; try discriminate; [reflexivity|].
  cbn [combine map snd]. f_equal. apply IH. lia.
Qed.

(** the probabilities reported by [predict_rank] are [predict_rank_probs] *)
Lemma predict_rank_snd (beta : F) (teams : list (list (rating F))) :
  map snd (predict_rank beta teams) = predict_rank_probs beta teams.
Proof.
  unfold predict_rank. apply combine_snd.
  unfold reverse_ranks, rank_data. now rewrite !map_length, seq_length.
Qed.
End Poly.

(** ** Real sums *)
Lemma Rsum_map_le {A} (f g : A -> R) l :
  (forall a, In a l -> (f a <= g a)%R) -> (Rsum (map f l) <= Rsum (map g l))%R.
Proof.
  induction l as [|a l IH]; intros H; cbn [map Rsum]; [lra|].
  pose proof (H a (or_introl eq_refl)). assert (Rsum (map f l) <= Rsum (map g l))%R.
  { apply IH. intros b Hb. apply H. now right. }
  lra.
Qed.
Lemma Rsum_map_bounds {A} (f : A -> R) l :
  (forall a, In a l -> (0 < f a < 1)%R) -> l <> [] -> (0 < Rsum (map f l) < INR (length l))%R.
Proof.
  induction l as [|a l IH]; intros H Hne; [congruence|].
  pose proof (H a (or_introl eq_refl)) as Ha.
  cbn [map Rsum]. change (length (a :: l)) with (S (length l)). rewrite S_INR.
  destruct l as [|b l'].
  - cbn. lra.
  - assert (0 < Rsum (map f (b :: l')) < INR (length (b :: l')))%R.
    { apply IH; [|congruence]. intros c Hc. apply H. now right. }
    lra.
Qed.
Lemma Rsum_map_div {A} (f : A -> R) c l : (Rsum (map (fun a => f a / c) l) = Rsum (map f l) / c)%R.
Proof. induction l as [|a l IH]; cbn [map Rsum]; [unfold Rdiv; lra|]. rewrite IH. unfold Rdiv. lra. Qed.
Lemma Rsum_map_const {A} c (l : list A) : (Rsum (map (fun _ => c) l) = INR (length l) * c)%R.
Proof.
  induction l as [|a l IH]; [cbn; lra|]. cbn [map Rsum]. change (length (a :: l)) with (S (length l)).
  rewrite S_INR, IH. lra.
Qed.
Lemma Rsum_flat_map {A} (g : A -> list R) l : Rsum (flat_map g l) = Rsum (map (fun a => Rsum (g a)) l).
Proof. induction l as [|a l IH]; cbn [flat_map map Rsum]; [reflexivity|]. now rewrite Rsum_app, IH. Qed.

Lemma Rsum_map_nonneg {A} (f : A -> R) l : (forall a, In a l -> (0 <= f a)%R) -> (0 <= Rsum (map f l))%R.
Proof.
  intros H. apply Rsum_nonneg, Forall_forall. intros x Hx. apply in_map_iff in Hx as [a [<- Ha]]. now apply H.
Qed.

(** ** Sums over rows: index form, and "whole list minus the diagonal" form *)
Section RowSums.
Context {A : Type}.

Lemma nth_rows_sum (g : A -> A -> R) (G : R -> R) (d : A) (l : list A) i : (i < length l)%nat ->
  nth i (map (fun ro => G (Rsum (map (g (fst ro)) (snd ro)))) (rows l)) 0%R
  = G (Rsum (map (fun j => g (nth i l d) (nth j l d)) (idx_others (length l) i))).
Proof.
  intros Hi. rewrite (rows_spec d), map_map, nth_map_seq by exact Hi. cbn [fst snd].
  rewrite (others_idx d l i Hi), map_map. reflexivity.
Qed.

Lemma rows_double_sum (g : A -> A -> R) (d : A) (l : list A) :
  Rsum (map (fun ro => Rsum (map (g (fst ro)) (snd ro))) (rows l))
  = Rsum (map (fun i => Rsum (map (fun j => g (nth i l d) (nth j l d)) (idx_others (length l) i)))
              (seq 0 (length l))).
Proof.
  rewrite (rows_spec d), map_map. apply Rsum_map_ext. intros i Hi. apply in_seq in Hi. cbn [fst snd].
  rewrite (others_idx d l i) by lia. now rewrite map_map.
Qed.

Lemma rows_sum_minus (g : A -> A -> R) (l : list A) ro : In ro (rows l) ->
  Rsum (map (g (fst ro)) (snd ro)) = (Rsum (map (g (fst ro)) l) - g (fst ro) (fst ro))%R.
Proof.
  intros Hin. apply rows_perm in Hin.
  rewrite (Rsum_perm _ _ (Permutation_map (g (fst ro)) Hin)). cbn [map Rsum]. lra.
Qed.

Lemma rows_map_minus (g : A -> A -> R) (G : R -> R) (l : list A) :
  map (fun ro => G (Rsum (map (g (fst ro)) (snd ro)))) (rows l)
  = map (fun x => G (Rsum (map (g x) l) - g x x)%R) l.
Proof.
  transitivity (map (fun ro => G (Rsum (map (g (fst ro)) l) - g (fst ro) (fst ro))%R) (rows l)).
  - apply map_ext_in. intros ro Hin. now rewrite (rows_sum_minus g l ro Hin).
  - rewrite <- (map_map fst (fun x => G (Rsum (map (g x) l) - g x x)%R) (rows l)). now rewrite rows_fst.
Qed.

(** sums over ordered pairs of distinct positions: peeling off the first element *)
Lemma pair_sum_cons (f : A -> A -> R) a l :
  Rsum (map (fun x => Rsum (map (f x) (a :: l)) - f x x)%R (a :: l))
  = (Rsum (map (fun y => f a y + f y a)%R l) + Rsum (map (fun x => Rsum (map (f x) l) - f x x)%R l))%R.
Proof.
  cbn [map Rsum].
  rewrite (Rsum_map_ext (fun x => f x a + Rsum (map (f x) l) - f x x)%R
                        (fun x => f x a + (Rsum (map (f x) l) - f x x))%R) by (intros; lra).
  rewrite (Rsum_map_plus (fun x => f x a)), (Rsum_map_plus (f a)). lra.
Qed.

(** if [f x y + f y x = 1] for all pairs, the sum over ordered pairs of distinct
    positions is the number of unordered pairs *)
Lemma pair_sum_complement (f : A -> A -> R) l :
  (forall x y, In x l -> In y l -> f x y + f y x = 1)%R ->
  Rsum (map (fun x => Rsum (map (f x) l) - f x x)%R l) = (INR (length l) * (INR (length l) - 1) / 2)%R.
Proof.
  induction l as [|a l IH]; intros Hf; [cbn; lra|].
  rewrite pair_sum_cons, IH by (intros; apply Hf; now right).
  rewrite (Rsum_map_ext (fun y => f a y + f y a)%R (fun _ => 1%R)).
  - rewrite Rsum_map_const. change (length (a :: l)) with (S (length l)). rewrite S_INR. lra.
  - intros y Hy. apply Hf; [now left|now right].
Qed.

Lemma pair_sum_nonneg (f : A -> A -> R) l :
  (forall x y, In x l -> In y l -> 0 <= f x y + f y x)%R ->
  (0 <= Rsum (map (fun x => Rsum (map (f x) l) - f x x)%R l))%R.
Proof.
  induction l as [|a l IH]; intros Hf; [cbn; lra|].
  rewrite pair_sum_cons.
  assert (0 <= Rsum (map (fun y => f a y + f y a)%R l))%R.
  { apply Rsum_map_nonneg. intros y Hy. apply Hf; [now left|now right]. }
  assert (0 <= Rsum (map (fun x => Rsum (map (f x) l) - f x x)%R l))%R.
  { apply IH. intros; apply Hf; now right. }
  lra.
Qed.
End RowSums.

(** ** The model's building blocks on R *)
Open Scope R_scope.

(** team mean and team variance *)
Definition Tmu (t : list (rating R)) : R := Rsum (map r_mu t).
Definition Tvar (t : list (rating R)) : R := Rsum (map (fun p => r_sigma p * r_sigma p) t).

Lemma Tvar_nonneg t : 0 <= Tvar t.
Proof.
  unfold Tvar. apply Rsum_nonneg. apply Forall_forall. intros x Hx.
  apply in_map_iff in Hx as [p [<- _]]. nra.
Qed.

(** the pairwise standard deviation [sqrt(k beta^2 + var_a + var_b)] *)
Definition pscale (beta : R) (k : nat) (ta tb : list (rating R)) : R :=
  sqrt (INR k * (beta * beta) + Tvar ta + Tvar tb).

Lemma pscale_pos beta k ta tb : 0 < beta -> (1 <= k)%nat -> 0 < pscale beta k ta tb.
Proof.
  intros Hb Hk. unfold pscale. apply sqrt_lt_R0.
  pose proof (Tvar_nonneg ta). pose proof (Tvar_nonneg tb).
  assert (1 <= INR k) by (change 1 with (INR 1); now apply le_INR).
  nra.
Qed.
(** [pair_scale >= sqrt k * beta] *)
Lemma pscale_lower beta k ta tb : 0 < beta -> sqrt (INR k) * beta <= pscale beta k ta tb.
Proof.
  intros Hb. unfold pscale.
  pose proof (Tvar_nonneg ta). pose proof (Tvar_nonneg tb). pose proof (pos_INR k).
  replace (sqrt (INR k) * beta) with (sqrt (INR k * (beta * beta))).
  - apply sqrt_le_1_alt. lra.
  - rewrite sqrt_mult by nra. rewrite sqrt_square by lra. reflexivity.
Qed.
Lemma pscale_sym beta k ta tb : pscale beta k tb ta = pscale beta k ta tb.
Proof. unfold pscale. f_equal. lra. Qed.

Section RPred.
Variables Phi Phiinv : R -> R.
Local Instance RN : Num R := RNum Phi Phiinv.

(** the reflection lemmas of RInst, for this section's instance *)
Lemma Rcdf x : cdf x = Phi x.
Proof. exact (R_cdf Phi Phiinv x). Qed.
Lemma Rpy_sum l : py_sum l = Rsum l.
Proof. exact (R_py_sum Phi Phiinv l). Qed.
Lemma Rreduce_add l : reduce_add l = Rsum l.
Proof. exact (R_reduce_add Phi Phiinv l). Qed.

Lemma R_agg t : agg t = (Tmu t, Tvar t).
Proof. unfold agg. rewrite !Rreduce_add. reflexivity. Qed.

Lemma R_fofnat n : fofZ (Z.of_nat n) = INR n.
Proof. cbn. now rewrite <- INR_IZR_INZ. Qed.

Lemma R_pair_scale beta k ta tb : pair_scale beta k (agg ta) (agg tb) = pscale beta k ta tb.
Proof. unfold pair_scale, pscale. rewrite !R_agg, R_fofnat. reflexivity. Qed.

Lemma R_half_pairs n : half_pairs n = INR n * (INR n - 1) / 2.
Proof.
  unfold half_pairs. rewrite R_fofnat, mult_INR. change (fdiv ?a ftwo) with (a / 2).
  destruct n as [|n]; [cbn; lra|].
  replace (S n - 1)%nat with n by lia. rewrite S_INR. lra.
Qed.
Lemma half_pairs_pos n : (2 <= n)%nat -> 0 < INR n * (INR n - 1) / 2.
Proof. intros Hn. assert (2 <= INR n) by (change 2 with (INR 2); now apply le_INR). nra. Qed.

(** the draw margin [sqrt(N) * beta * Phiinv((1 + 1/N)/2)] *)
Definition margin (beta : R) (np : nat) : R :=
  sqrt (INR np) * beta * Phiinv ((1 + 1 / INR np) / 2).
Lemma R_draw_margin beta teams : draw_margin beta teams = margin beta (length (concat teams)).
Proof. unfold draw_margin, margin. rewrite R_fofnat, nplayers_concat. reflexivity. Qed.

(** the three predictions as sums over [rows] *)
Lemma R_predict_win2 beta ta tb :
  predict_win beta [ta; tb]
  = [Phi ((Tmu ta - Tmu tb) / pscale beta (length ta + length tb) ta tb);
     1 - Phi ((Tmu ta - Tmu tb) / pscale beta (length ta + length tb) ta tb)].
Proof.
  unfold predict_win. cbv zeta. rewrite R_pair_scale, Rcdf, !R_agg. reflexivity.
Qed.

Lemma R_predict_win_rows beta teams : length teams <> 2%nat ->
  predict_win beta teams
  = map (fun ro => Rsum (map (fun tb => Phi ((Tmu (fst ro) - Tmu tb) / pscale beta (length teams) (fst ro) tb))
                             (snd ro)) / (INR (length teams) * (INR (length teams) - 1) / 2))
        (rows teams).
Proof.
  intros Hn.
  assert (E : predict_win beta teams
     = map (fun ro => let a := agg (fst ro) in
             fdiv (py_sum (map (fun tb => let b := agg tb in
                      cdf (fdiv (fsub (fst a) (fst b)) (pair_scale beta (length teams) a b))) (snd ro)))
                  (half_pairs (length teams))) (rows teams)).
  { unfold predict_win. destruct teams as [|a [|b [|c r]]]; try reflexivity. now cbn in Hn. }
  rewrite E. apply map_ext. intros ro. cbv zeta. rewrite Rpy_sum, R_half_pairs.
  change (fdiv ?x ?y) with (x / y). f_equal. f_equal. apply map_ext. intros tb.
  rewrite Rcdf, R_pair_scale, !R_agg. reflexivity.
Qed.

Lemma R_predict_rank_rows beta teams :
  predict_rank_probs beta teams
  = map (fun ro => Rabs (Rsum (map (fun tb => Phi ((Tmu (fst ro) - Tmu tb - margin beta (length (concat teams)))
                                                   / pscale beta (length teams) (fst ro) tb))
                             (snd ro)) / (INR (length teams) * (INR (length teams) - 1) / 2)))
        (rows teams).
Proof.
  unfold predict_rank_probs. apply map_ext. intros ro. cbv zeta. rewrite Rpy_sum, R_half_pairs, R_draw_margin.
  change (fabs ?x) with (Rabs x). change (fdiv ?x ?y) with (x / y). f_equal. f_equal. f_equal. apply map_ext. intros tb.
  rewrite Rcdf, R_pair_scale, !R_agg. reflexivity.
Qed.

Lemma R_predict_draw_rows beta teams :
  predict_draw beta teams
  = Rabs (Rsum (map (fun ro => Rsum (map (fun tb =>
        Phi ((margin beta (length (concat teams)) - (Tmu (fst ro) - Tmu tb)) / pscale beta (length teams) (fst ro) tb)
      - Phi ((Tmu (fst ro) - Tmu tb - margin beta (length (concat teams))) / pscale beta (length teams) (fst ro) tb))
        (snd ro))) (rows teams)))
    / (if Nat.ltb 2 (length teams) then INR (length teams) * (INR (length teams) - 1) else 1).
Proof.
  unfold predict_draw. cbv zeta. rewrite Rpy_sum, R_draw_margin, Rsum_flat_map.
  change (fabs ?x) with (Rabs x). change (fdiv ?x ?y) with (x / y). f_equal.
  - f_equal. apply Rsum_map_ext. intros ro _. f_equal. apply map_ext. intros tb.
    rewrite !Rcdf, R_pair_scale, !R_agg. cbn [fst snd].
    cbn [fsub fadd fdiv RN RNum].
    f_equal. f_equal. f_equal. lra.
  - destruct (Nat.ltb 2 (length teams)); [|reflexivity].
    rewrite R_fofnat, mult_INR. destruct (length teams) as [|n]; [cbn; lra|].
    replace (S n - 1)%nat with n by lia. rewrite S_INR. lra.
Qed.

Lemma Phi_half : GaussCDF Phi Phiinv -> Phi 0 = / 2.
Proof. intros GF. pose proof (gc_sym _ _ GF 0) as E. rewrite Ropp_0 in E. lra. Qed.
Lemma Phi_le : GaussCDF Phi Phiinv -> forall x y, x <= y -> Phi x <= Phi y.
Proof. intros GF x y [H| ->]; [left; now apply (gc_mono _ _ GF)|lra]. Qed.

(** the margin is positive on the valid domain *)
Lemma margin_pos beta np : GaussCDF Phi Phiinv -> 0 < beta -> (2 <= np)%nat -> 0 < margin beta np.
Proof.
  intros GF Hb Hn. unfold margin.
  assert (H2 : 2 <= INR np) by (change 2 with (INR 2); now apply le_INR).
  assert (Hs : 0 < sqrt (INR np)) by (apply sqrt_lt_R0; lra).
  assert (Hi : 0 < / INR np <= / 2).
  { split; [apply Rinv_0_lt_compat; lra|apply Rinv_le_contravar; lra]. }
  set (p := (1 + 1 / INR np) / 2).
  assert (Hp : / 2 < p < 1) by (unfold p, Rdiv; lra).
  assert (Hq : 0 < Phiinv p).
  { destruct (Rlt_dec 0 (Phiinv p)) as [|Hn0]; [assumption|exfalso].
    assert (Hle : Phi (Phiinv p) <= Phi 0) by (apply Phi_le; [exact GF|lra]).
    rewrite (gc_inv _ _ GF) in Hle by lra. rewrite Phi_half in Hle by exact GF. lra. }
  apply Rmult_lt_0_compat; [apply Rmult_lt_0_compat|]; assumption.
Qed.
End RPred.
